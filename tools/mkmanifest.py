#!/usr/bin/env python3
"""Regenerates /verif/MANIFEST.json from the tables below (kept in one place so that the claims stay consistent)."""
import json, os
V = os.path.dirname(os.path.dirname(os.path.abspath(__file__)))
obl = json.load(open(os.path.join(V, "obligations.json")))
TEXT = json.load(open(os.path.join(V, "tools", "claims.json")))
checks = []
for pid in sorted(obl):
    c = TEXT[pid]
    checks.append({
        "property_id": pid,
        "quick_cmd": f"./check {pid} quick",
        "thorough_cmd": f"./check {pid} thorough",
        "evidence_file": f"/verif/evidence/{pid}.json",
        "replay_cmd_template": f"./check {pid} --replay {{path}}",
        "engine": "lean-model",
        "level_claimed": {"category": "proof", "text": c["text"], "design_ref": f"DESIGN.md §6 {pid}"},
        "level_note": c["note"],
        "technique": c.get("technique", "Lean 4 theorems about an executable model + differential model/implementation correspondence"),
    })
m = {
 "version": 1,
 "setup_cmd": "cd /verif && ./setup.sh",
 "hooks": {
  "guard": "verif",
  "enable": "go build -tags verif (the harness module replaces github.com/ddddddO/gtree by /repo, so it always builds /repo's working tree)",
  "baseline_off_cmd": "cd /repo && GOFLAGS=-mod=mod GOPROXY=off go test -vet=off -count=1 -run 'TestParser|Test_IsSymbol|Test_Markdown|TestGenerate|TestNode_|TestStack_' . ./markdown",
  "source_commits": ["9ecf88d", "5055a74"],
  "add_only": True
 },
 "engines": [
  {"name": "lean-model", "path": "/verif/lean", "serves_properties": sorted(obl), "kind_free_text": "Lean 4 model of gtree (Gtree/Model), specification (Gtree/Spec), property theorems (Gtree/Props), native line-protocol driver (Main.lean)"},
  {"name": "harness", "path": "/verif/harness", "serves_properties": sorted(obl), "kind_free_text": "Go differential correspondence harness: real code in-process (or the built binaries) vs the Lean driver, rebuilt from /repo on every run"},
  {"name": "translate", "path": "/verif/translate", "serves_properties": ["C01", "C02", "C03", "C04", "C05", "C06", "C07", "C08", "C09", "C10", "C12", "C15", "C17"], "kind_free_text": "go/ast translator: pure functions of /repo (markdown/parser.go Parse/separateRow/validateSpaces/calculateHierarchy/isBlank, IsSymbol, isRootBlockBeginning, isSharpRootRow, nodeGenerator.handleErr, node predicates, validatePath, the verifier's verdict, WalkerNode accessors, config.go) statement by statement into Gtree/Generated/Source.lean on every run (Lemmas/SourceRefines.lean, SourceConfig.lean); heap mode (heap.go): the pointer code of the grower and the mkdirer over an explicit heap into Gtree/Generated/SourceHeap.lean (Lemmas/HeapGrower.lean, HeapMkdir.lean prove it equal to the hand-written model)"},
  {"name": "extract", "path": "/verif/extract", "serves_properties": ["C03", "C07", "C09", "C10", "C11", "C13", "C16", "C17"], "kind_free_text": "go/ast fact extractor regenerating Gtree/Generated/Facts.lean on every run"}
 ],
 "checks": checks,
 "notes": "Every check: regenerate Facts.lean, Source.lean and SourceHeap.lean from /repo, lake build (model, proofs, driver), #print axioms audit of the property theorems, rebuild the harness against /repo's working tree with -tags verif, run the correspondence suites, write evidence. See DESIGN.md.",
 "not_applicable": TEXT.get("_not_applicable", [])
}
json.dump(m, open(os.path.join(V, "MANIFEST.json"), "w"), indent=1, ensure_ascii=False)
print("wrote MANIFEST.json with", len(checks), "checks")
