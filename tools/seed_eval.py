#!/usr/bin/env python3
"""seed_eval.py <PROP> <mutant-dir> <seed-id>
Confirms a seeded change in its scratch worktree (applies, builds, stable suite passes, demo fails with /
passes without), then applies it to /repo, runs the given check (quick), restores /repo, and stores the
change under /verif/seeded/<seed-id>/ with meta.json."""
import json, os, re, shutil, subprocess, sys, glob
ENV = dict(os.environ, GOFLAGS="-mod=mod", GOPROXY="off", NO_COLOR="1", VERIF_EVIDENCE_DIR="/tmp/verif-seed-evidence")
ENV.pop("GOTOOLCHAIN", None)
STABLE = "go test -vet=off -count=1 -run 'TestParser|Test_IsSymbol|Test_Markdown|TestGenerate|TestNode_|TestStack_' . ./markdown"
def sh(cmd, cwd, timeout=900):
    p = subprocess.run(cmd, cwd=cwd, env=ENV, shell=True, stdout=subprocess.PIPE, stderr=subprocess.STDOUT, text=True, timeout=timeout)
    return p.returncode, p.stdout
def main():
    prop, mdir, sid = sys.argv[1], sys.argv[2].rstrip("/"), sys.argv[3]
    checks = sys.argv[4:] or [prop]
    wt = os.path.dirname(os.path.dirname(mdir))   # /tmp/mut/Cxx
    patch = os.path.join(mdir, "patch.diff")
    meta = {"property": prop, "seed_id": sid, "ran": []}
    def run_demo():
        if os.path.exists(os.path.join(mdir, "demo.sh")):
            rc, out = sh("sh " + os.path.join(mdir, "demo.sh"), wt, 600)
            return (rc == 0 and "FAIL" not in out), out[-1500:]
        demos = glob.glob(os.path.join(mdir, "*_test.go"))
        if demos:
            names = []
            for d in demos:
                shutil.copy(d, os.path.join(wt, "zz_seed_" + os.path.basename(d)))
                names += re.findall(r"^func (Test\w+)\(", open(d).read(), re.M)
            race = "-race " if os.path.exists(os.path.join(mdir, "notes.md")) and "-race" in open(os.path.join(mdir, "notes.md")).read() else ""
            rc, out = sh("go test %s-vet=off -count=1 -run '%s' ." % (race, "|".join(names)), wt, 900)
            for d in demos:
                os.unlink(os.path.join(wt, "zz_seed_" + os.path.basename(d)))
            return rc == 0, out[-1500:]
        return None, "no demo found"
    sh("git checkout -- .", wt)
    ok0, out0 = run_demo()
    rc, out = sh("git apply " + patch, wt)
    if rc != 0:
        print("patch does not apply:", out); sys.exit(2)
    rcb, outb = sh("go build . ./cmd/gtree ./markdown && go build -tags tinywasm .", wt)
    rct, outt = sh(STABLE, wt)
    ok1, out1 = run_demo()
    sh("git checkout -- .", wt)
    meta["confirmed"] = {"demo_passes_without_patch": ok0, "builds_with_patch": rcb == 0, "stable_suite_passes_with_patch": rct == 0, "demo_fails_with_patch": ok1 is False}
    meta["ran"].append("in scratch worktree %s: demo without patch; git apply; go build . ./cmd/gtree ./markdown; go build -tags tinywasm .; %s; demo with patch" % (wt, STABLE))
    good = ok0 and rcb == 0 and rct == 0 and ok1 is False
    # now against the checks
    det = {}
    if good:
        rc, out = sh("git -C /repo status --porcelain --untracked-files=no", "/repo")
        assert out.strip() == "", "/repo not clean: " + out
        rc, out = sh("git -C /repo apply " + patch, "/repo")
        assert rc == 0, out
        try:
            for c in checks:
                rc, out = sh("./check %s quick" % c, "/verif", 3600)
                viol = [l for l in out.splitlines() if l.startswith("VIOLATION")]
                det[c] = {"exit": rc, "violations": len(viol), "first": viol[:1], "tail": out.splitlines()[-1:] }
        finally:
            sh("git -C /repo checkout -- . && git -C /repo clean -fdq", "/repo")
        meta["ran"].append("git -C /repo apply patch.diff; " + "; ".join("./check %s quick" % c for c in checks) + "; git -C /repo checkout -- .")
    old = {}
    try:
        old = json.load(open(os.path.join("/verif/seeded", sid, "meta.json")))
    except Exception:
        pass
    meta["detected_by"] = dict(old.get("detected_by", {}))
    meta["detected_by"].update({c: (d["exit"] == 1 and d["violations"] > 0) for c, d in det.items()})
    meta["check_results"] = dict(old.get("check_results", {})); meta["check_results"].update(det)
    dst = os.path.join("/verif/seeded", sid)
    if good:
        os.makedirs(dst, exist_ok=True)
        for f in os.listdir(mdir):
            p = os.path.join(mdir, f)
            if os.path.isfile(p) and os.path.getsize(p) < 200000 and not os.access(p, os.X_OK) or f.endswith(".sh"):
                shutil.copy(p, os.path.join(dst, f))
        notes = os.path.join(mdir, "notes.md")
        meta["needs_to_manifest"] = open(notes).read()[:1500] if os.path.exists(notes) else ""
        json.dump(meta, open(os.path.join(dst, "meta.json"), "w"), indent=1, ensure_ascii=False)
    print(json.dumps({"seed": sid, "good": bool(good), "confirmed": meta["confirmed"], "detected_by": meta["detected_by"]}))
    if not good:
        print(out0[-600:], outb[-600:], outt[-600:], out1[-600:])
if __name__ == "__main__":
    main()
