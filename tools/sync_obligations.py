#!/usr/bin/env python3
"""Regenerates the 'theorems' lists of obligations.json from lean/Gtree/Props/C*.lean (theorem names Cxx_*)."""
import json, re, glob, os
V = os.path.dirname(os.path.dirname(os.path.abspath(__file__)))
obl = json.load(open(os.path.join(V, "obligations.json")))
for fn in sorted(glob.glob(os.path.join(V, "lean/Gtree/Props/C*.lean"))):
    pid = os.path.basename(fn)[:-5]
    ns = []
    names = []
    for line in open(fn):
        m = re.match(r"namespace (\S+)", line)
        if m: ns.append(m.group(1)); continue
        m = re.match(r"end (\S+)", line)
        if m and ns and ns[-1] == m.group(1): ns.pop(); continue
        m = re.match(r"theorem (C\d\d_\w+)", line)
        if m: names.append(".".join(ns + [m.group(1)]))
    obl[pid]["theorems"] = names
    print(pid, len(names), end="; ")
print()
json.dump(obl, open(os.path.join(V, "obligations.json"), "w"), indent=1, ensure_ascii=False)
