#!/usr/bin/env python3
"""seed_recheck.py [seed-id ...]  — applies each seeded change to /repo, runs the check of its property
(quick tier), restores /repo, and records the verdict in seeded/<id>/meta.json (detected_by)."""
import json, os, subprocess, sys, glob
os.environ["VERIF_EVIDENCE_DIR"] = "/tmp/verif-seed-evidence"  # never overwrite the unchanged tree's evidence
V = os.path.dirname(os.path.dirname(os.path.abspath(__file__)))
def sh(cmd, cwd):
    p = subprocess.run(cmd, cwd=cwd, shell=True, stdout=subprocess.PIPE, stderr=subprocess.STDOUT, text=True)
    return p.returncode, p.stdout
ids = sys.argv[1:] or sorted(os.path.basename(d) for d in glob.glob(os.path.join(V, "seeded", "*")))
rc, out = sh("git status --porcelain --untracked-files=no", "/repo")
assert out.strip() == "", "/repo not clean"
missed = []
for sid in ids:
    d = os.path.join(V, "seeded", sid)
    meta = json.load(open(os.path.join(d, "meta.json")))
    prop = meta["property"]
    rc, out = sh("git apply " + os.path.join(d, "patch.diff"), "/repo")
    if rc != 0:
        print(sid, "patch does not apply", out); continue
    try:
        rc, out = sh(f"./check {prop} quick", V)
    finally:
        sh("git checkout -- . && git clean -fdq", "/repo")
    viol = [l for l in out.splitlines() if l.startswith("VIOLATION")]
    det = rc == 1 and len(viol) > 0
    meta.setdefault("detected_by", {})[prop] = det
    meta.setdefault("check_results", {})[prop] = {"exit": rc, "violations": len(viol), "first": viol[:1], "tail": out.splitlines()[-1:]}
    meta.setdefault("ran", [])
    note = f"recheck: git -C /repo apply patch.diff; ./check {prop} quick; git -C /repo checkout -- ."
    if note not in meta["ran"]: meta["ran"].append(note)
    json.dump(meta, open(os.path.join(d, "meta.json"), "w"), indent=1, ensure_ascii=False)
    print(sid, prop, "DETECTED" if det else "missed", flush=True)
    if not det: missed.append(sid)
sh("rm -rf replays", V)
print("missed:", missed)
