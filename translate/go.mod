module verif/translate

go 1.23
