// Heap mode of the translator: pointer code of /repo (the methods of *Node that read or write through pointers, the
// grower that walks the parent links, …) translated statement by statement into Lean over an explicit heap.
//
//   - `*Node` is a `Go.Ptr` (a natural number, 0 = nil); the heap `h_ : Heap` maps pointers to cells whose fields are
//     the fields of the Go struct (`parent` a pointer, `children` a list of pointers);  `p.f` is `(h_ p).f`, an
//     assignment `p.f.g = e` is `let h_ := Heap.set h_ p { (h_ p) with f := { (h_ p).f with g := e } }`;
//     pointer comparison is comparison of numbers (identity).
//   - every function takes the heap; a function that (transitively) assigns through a pointer returns the new heap
//     together with its results.
//   - recursion and `for init; cond; post` loops are not structurally bounded: functions that contain them (or call
//     such functions) take a fuel argument and return an `Option` (none = the bound was reached; the refinement
//     theorems show that it is not, for every fuel above a bound that depends on the tree).
//   - control flow as in the value mode: `if` whose branch leaves becomes `if c then … else <rest>`, otherwise the
//     rest is placed in both branches; range loops are `Go.forRange`, three-clause loops `Go.forLoop`.
//
// Anything else is emitted as `untranslatable` (the generated file then does not compile).
package main

import (
	"fmt"
	"go/ast"
	"go/parser"
	"go/token"
	"os"
	"path/filepath"
	"sort"
	"strconv"
	"strings"
)

var heapTargets = []target{
	{"node.go", "Node.isRoot"},
	{"node.go", "Node.isLastOfHierarchy"},
	{"node.go", "Node.setBranch"},
	{"node.go", "Node.branch"},
	{"node.go", "Node.setPath"},
	{"node.go", "Node.path"},
	{"node.go", "Node.validatePath"},
	{"node.go", "Node.clean"},
	{"node.go", "Node.hasChild"},
	{"simple_tree_grower.go", "defaultGrowerSimple.grow"},
	{"simple_tree_grower.go", "defaultGrowerSimple.assemble"},
	{"simple_tree_grower.go", "defaultGrowerSimple.assembleBranch"},
	{"simple_tree_grower.go", "defaultGrowerSimple.assembleBranchDirectly"},
	{"simple_tree_grower.go", "defaultGrowerSimple.assembleBranchIndirectly"},
	{"simple_tree_grower.go", "defaultGrowerSimple.assembleBranchFinally"},
	{"file_considerer.go", "fileConsiderer.isFile"},
	{"simple_tree_mkdirer.go", "defaultMkdirerSimple.mkdir"},
	{"simple_tree_mkdirer.go", "defaultMkdirerSimple.isExistRoot"},
	{"simple_tree_mkdirer.go", "defaultMkdirerSimple.makeDirectoriesAndFiles"},
	{"simple_tree_mkdirer.go", "defaultMkdirerSimple.mkdirAll"},
	{"simple_tree_mkdirer.go", "defaultMkdirerSimple.mkfile"},
	{"simple_tree_walker.go", "defaultWalkerSimple.walk"},
	{"simple_tree_walker.go", "defaultWalkerSimple.walkNode"},
	{"simple_tree_spreader.go", "defaultSpreaderSimple.spread"},
	{"simple_tree_spreader.go", "defaultSpreaderSimple.spreadBranch"},
	{"simple_tree_grow_spreader.go", "defaultGrowSpreaderSimple.growAndSpread"},
	{"simple_tree_grow_spreader.go", "defaultGrowSpreaderSimple.assembleAndPrint"},
	{"node.go", "Node.setParent"},
	{"node.go", "Node.addChild"},
	{"node.go", "Node.findChildByText"},
	{"node.go", "Node.isDirectlyUnder"},
	{"stack.go", "stack.push"},
	{"stack.go", "stack.pop"},
	{"stack.go", "stack.size"},
	{"stack.go", "stack.dfs"},
	{"simple_tree_spreader.go", "colorizeSpreaderSimple.spreadBranch"},
	{"simple_tree_spreader.go", "colorizeSpreaderSimple.colorize"},
	{"simple_tree_spreader.go", "colorizeSpreaderSimple.summary"},
	{"node.go", "newNode"},
	{"tree_handler_programmably.go", "NewRoot"},
	{"tree_handler_programmably.go", "Node.Add"},
	{"simple_tree_spreader.go", "toFormattedNode"},
	{"simple_tree_spreader.go", "jsonNode.setChild"},
	{"simple_tree_spreader.go", "jsonNode.getChild"},
	// the tinywasm twins (compiled instead of the simple_tree_* files with -tags tinywasm)
	{"wasm_tree_grower.go", "defaultGrower.grow"},
	{"wasm_tree_grower.go", "defaultGrower.assemble"},
	{"wasm_tree_grower.go", "defaultGrower.assembleBranch"},
	{"wasm_tree_grower.go", "defaultGrower.assembleBranchDirectly"},
	{"wasm_tree_grower.go", "defaultGrower.assembleBranchIndirectly"},
	{"wasm_tree_grower.go", "defaultGrower.assembleBranchFinally"},
	{"wasm_tree_spreader.go", "defaultSpreader.spreadBranch"},
	{"simple_tree_verifier.go", "defaultVerifierSimple.fillDirsMarkdown"},
}

// structs that live in the heap (handled through pointers) and value structs generated here; other value structs
// (branch, branchFormat) are the ones of Generated/Source.lean
var heapStructs = map[string]string{"Node": "node.go", "jsonNode": "simple_tree_spreader.go"}

// the second heap: the records handed to the encoders (jsonNode; yamlNode and tomlNode have the same methods). Its cells,
// heap variable and allocator:
const recStruct = "jsonNode"

func hv(structName string) string {
	if structName == recStruct {
		return "hj_"
	}
	return "h_"
}
func av(structName string) string {
	if structName == recStruct {
		return "alj_"
	}
	return "al_"
}
func cellOf(structName string) string {
	if structName == recStruct {
		return "CellJ"
	}
	return "Cell"
}
func heapTy(structName string) string {
	if structName == recStruct {
		return "HeapJ"
	}
	return "Heap"
}

// heapStructOf: the heap struct a pointer type points to ("" if none)
func heapStructOf(g string) string {
	if strings.HasPrefix(g, "*") {
		if _, ok := heapStructs[g[1:]]; ok {
			return g[1:]
		}
	}
	return ""
}

// the type parameter of toFormattedNode and the interface its records implement are the record pointer here
var typeAlias = map[string]string{"T": "*" + recStruct, "sitter": "*" + recStruct}
var heapValueStructs = map[string]string{"defaultGrowerSimple": "simple_tree_grower.go", "fileConsiderer": "file_considerer.go",
	"defaultMkdirerSimple": "simple_tree_mkdirer.go", "defaultWalkerSimple": "simple_tree_walker.go",
	"defaultSpreaderSimple": "simple_tree_spreader.go", "defaultGrowSpreaderSimple": "simple_tree_grow_spreader.go",
	"colorizeSpreaderSimple": "simple_tree_spreader.go",
	"defaultGrower": "wasm_tree_grower.go", "defaultSpreader": "wasm_tree_spreader.go",
	"defaultVerifierSimple": "simple_tree_verifier.go"}
var srcStructs = map[string]string{"branch": "node.go", "branchFormat": "simple_tree_grower.go"}

type hfn struct {
	key      string
	file     string
	decl     *ast.FuncDecl
	recvName string
	recvType string // Go type string, e.g. *Node
	params   [][2]string
	results  []string
	variadic bool
	mutates  bool // assigns through a heap pointer
	usesFS   bool // reads the file system (os.Stat)
	writesFS bool // changes the file system (os.MkdirAll, os.Create)
	usesCB   bool // calls a user callback (whose state is threaded)
	writesW  bool // writes to the caller's io.Writer
	usesJ    bool // reads the record heap hj_
	mutatesJ bool // assigns through a record pointer
	allocsJ  bool // allocates a record
	allocs   bool // allocates a node (`&Node{…}`): the allocator `al_` (the next unused pointer) is threaded
	usesIdx  bool // uses the package-level counter idxCounter (threaded as `idx_`)
	mutParam string // a set parameter (`map[string]struct{}`) the function inserts into: returned
	mutRecv  bool // changes a counter field of its receiver: the receiver is returned
	usesStk  bool // a method of *stack: reads the stack of open nodes (the world component stk_, root first)
	writesStk bool // pushes or pops
	fuel     bool
	rec      bool
	calls    map[string]bool
}

type htr struct {
	fset    *token.FileSet
	structs map[string][][2]string // struct -> fields (name, Go type)
	consts  map[string]bool
	sentinels map[string]bool
	embedded  map[string][]string // struct -> embedded struct types
	modules   map[string]string   // group -> generated module text
	fns     map[string]*hfn
	errs    []string
}

func typeStr(e ast.Expr) string {
	switch x := e.(type) {
	case *ast.Ident:
		if a, ok := typeAlias[x.Name]; ok {
			return a
		}
		return x.Name
	case *ast.StarExpr:
		return "*" + typeStr(x.X)
	case *ast.ArrayType:
		return "[]" + typeStr(x.Elt)
	case *ast.Ellipsis:
		return "[]" + typeStr(x.Elt)
	case *ast.SelectorExpr:
		return typeStr(x.X) + "." + x.Sel.Name
	case *ast.MapType:
		if st, ok := x.Value.(*ast.StructType); ok && (st.Fields == nil || len(st.Fields.List) == 0) {
			return "map[" + typeStr(x.Key) + "]struct{}"
		}
		return "?"
	case *ast.FuncType:
		var ps, rs []string
		for _, p := range x.Params.List {
			ps = append(ps, typeStr(p.Type))
		}
		if x.Results != nil {
			for _, r := range x.Results.List {
				rs = append(rs, typeStr(r.Type))
			}
		}
		return "func(" + strings.Join(ps, ",") + ") " + strings.Join(rs, ",")
	}
	return "?"
}

// the type of a user callback: it is handed a *WalkerNode (here: the pointer to the node the WalkerNode wraps) and
// returns an error; its own state is threaded through the translation as the world component `cbs_`
const callbackType = "func(*WalkerNode) error"

func (t *htr) fail(pos token.Pos, format string, a ...any) string {
	msg := fmt.Sprintf("%s: %s", t.fset.Position(pos), fmt.Sprintf(format, a...))
	t.errs = append(t.errs, msg)
	return "untranslatable"
}

func (t *htr) leanType(g string) string {
	switch g {
	case "string":
		return "Bytes"
	case "uint", "int":
		return "Int"
	case "bool":
		return "Bool"
	case "error":
		return "(Option Src.Err)"
	case "[]string":
		return "(List Bytes)"
	case callbackType:
		return "(Go.Ptr → σ → σ × (Option Src.Err))"
	case "*list.Element":
		return "Go.Ptr"
	case "map[string]struct{}":
		return "(List Bytes)" // a set of strings: its elements in insertion order (`Go.setInsert`)
	case "*counter":
		return "Int" // a counter is its count (counter.go: next / reset / current under a mutex)
	}
	if strings.HasPrefix(g, "*") {
		if _, ok := heapStructs[g[1:]]; ok {
			return "Go.Ptr"
		}
		if _, ok := heapValueStructs[g[1:]]; ok {
			return g[1:]
		}
	}
	if strings.HasPrefix(g, "[]*") {
		if _, ok := heapStructs[g[3:]]; ok {
			return "(List Go.Ptr)"
		}
	}
	if g == "sitter" || g == "T" {
		return "Go.Ptr"
	}
	if _, ok := srcStructs[g]; ok {
		return "Src." + g
	}
	if _, ok := heapValueStructs[g]; ok {
		return g
	}
	return "untranslatable"
}

func isHeapPtr(g string) bool {
	if g == "*list.Element" {
		return true // the element of the stack's list: the node it holds (nil when the list is empty)
	}
	if strings.HasPrefix(g, "*") {
		_, ok := heapStructs[g[1:]]
		return ok
	}
	return false
}

func heapMain(repo, out string) []string {
	t := &htr{fset: token.NewFileSet(), structs: map[string][][2]string{}, consts: map[string]bool{}, sentinels: map[string]bool{}, embedded: map[string][]string{}, fns: map[string]*hfn{}}
	need := map[string]bool{}
	for _, tg := range heapTargets {
		need[tg.file] = true
	}
	for _, m := range []map[string]string{heapStructs, heapValueStructs, srcStructs} {
		for _, f := range m {
			need[f] = true
		}
	}
	var files []string
	for f := range need {
		files = append(files, f)
	}
	sort.Strings(files)
	want := map[string]bool{}
	for _, tg := range heapTargets {
		want[tg.fn] = true
	}
	for _, f := range files {
		af, err := parser.ParseFile(t.fset, filepath.Join(repo, f), nil, 0)
		if err != nil {
			t.errs = append(t.errs, err.Error())
			continue
		}
		for _, d := range af.Decls {
			switch x := d.(type) {
			case *ast.GenDecl:
				for _, sp := range x.Specs {
					switch s := sp.(type) {
					case *ast.ValueSpec:
						if x.Tok == token.CONST {
							for _, n := range s.Names {
								t.consts[n.Name] = true
							}
						}
						if x.Tok == token.VAR {
							for i, n := range s.Names {
								if i < len(s.Values) {
									if ce, ok := s.Values[i].(*ast.CallExpr); ok {
										if se, ok := ce.Fun.(*ast.SelectorExpr); ok {
											if pk, ok := se.X.(*ast.Ident); ok && pk.Name == "errors" && se.Sel.Name == "New" {
												t.sentinels[n.Name] = true
											}
										}
									}
								}
							}
						}
					case *ast.TypeSpec:
						if st, ok := s.Type.(*ast.StructType); ok {
							var fields [][2]string
							for _, fl := range st.Fields.List {
								for _, n := range fl.Names {
									fields = append(fields, [2]string{n.Name, typeStr(fl.Type)})
								}
								if len(fl.Names) == 0 {
									// an embedded struct (pointer): a field named after the type; its methods are promoted
									ty := typeStr(fl.Type)
									fields = append(fields, [2]string{strings.TrimPrefix(ty, "*"), ty})
									t.embedded[s.Name.Name] = append(t.embedded[s.Name.Name], strings.TrimPrefix(ty, "*"))
								}
							}
							t.structs[s.Name.Name] = fields
						}
					}
				}
			case *ast.FuncDecl:
				key := x.Name.Name
				fn := &hfn{file: f, decl: x, calls: map[string]bool{}}
				if x.Recv != nil && len(x.Recv.List) == 1 {
					r := x.Recv.List[0]
					fn.recvType = typeStr(r.Type)
					if len(r.Names) > 0 {
						fn.recvName = r.Names[0].Name
					} else {
						fn.recvName = "recv_"
					}
					key = strings.TrimPrefix(fn.recvType, "*") + "." + key
				}
				if !want[key] {
					continue
				}
				fn.key = key
				for _, p := range x.Type.Params.List {
					if _, ok := p.Type.(*ast.Ellipsis); ok {
						fn.variadic = true
					}
					for _, n := range p.Names {
						fn.params = append(fn.params, [2]string{n.Name, typeStr(p.Type)})
					}
				}
				if x.Type.Results != nil {
					for _, r := range x.Type.Results.List {
						k := len(r.Names)
						if k == 0 {
							k = 1
						}
						for i := 0; i < k; i++ {
							fn.results = append(fn.results, typeStr(r.Type))
						}
					}
				}
				t.fns[key] = fn
			}
		}
	}
	for _, tg := range heapTargets {
		if _, ok := t.fns[tg.fn]; !ok {
			t.errs = append(t.errs, fmt.Sprintf("function %s not found in %s", tg.fn, tg.file))
		}
	}
	t.analyse()
	src := t.render()
	os.MkdirAll(filepath.Dir(out), 0o755)
	writeIfChanged := func(path, text string) {
		old, _ := os.ReadFile(path)
		if string(old) != text {
			if err := os.WriteFile(path, []byte(text), 0o644); err != nil {
				t.errs = append(t.errs, err.Error())
			}
		}
	}
	dir := filepath.Join(filepath.Dir(out), "Heap")
	os.MkdirAll(dir, 0o755)
	keep := map[string]bool{}
	for g, text := range t.modules {
		writeIfChanged(filepath.Join(dir, g+".lean"), text)
		keep[g+".lean"] = true
	}
	if ents, err := os.ReadDir(dir); err == nil {
		for _, e := range ents {
			if !keep[e.Name()] {
				os.Remove(filepath.Join(dir, e.Name())) // a module of an earlier run that no longer exists
			}
		}
	}
	writeIfChanged(out, src)
	return t.errs
}

// ---------- typing of the small expression language ----------

type hscope struct {
	fn    *hfn
	vars  map[string]string // name -> Go type
	order []string          // declaration order
}

// externals with an effect on (or a look at) the file system: the Lean function, whether it returns a new file
// system, how many of the Go arguments it takes, and the Go results ("~T" = a result the translation does not
// represent: the *os.File of os.Create, the FileInfo of os.Stat)
type ext struct {
	lean    string
	writes  bool
	nargs   int
	results []string
	world   string // the world component it works on: fs_ (file system) or w_ (the caller's writer)
	skip    int    // leading Go arguments that are the world itself (the io.Writer of fmt.Fprint)
}

var externals = map[string]ext{
	"os.Stat":     {"Go.os_Stat", false, 1, []string{"~os.FileInfo", "error"}, "fs_", 0},
	"os.MkdirAll": {"Go.os_MkdirAll", true, 1, []string{"error"}, "fs_", 0},
	"os.Create":   {"Go.os_Create", true, 1, []string{"~*os.File", "error"}, "fs_", 0},
	"fmt.Fprint":  {"Go.fmt_Fprint", true, 1, []string{"~int", "error"}, "w_", 1},
}

func extOf(call *ast.CallExpr) (ext, bool) {
	if se, ok := call.Fun.(*ast.SelectorExpr); ok {
		if p, ok := se.X.(*ast.Ident); ok {
			e, ok := externals[p.Name+"."+se.Sel.Name]
			return e, ok
		}
	}
	return ext{}, false
}

// outs: the world components a function returns (before its results); ins: the ones it takes
func (f *hfn) outs() []string {
	var o []string
	if f.mutates {
		o = append(o, "h_")
	}
	if f.mutatesJ {
		o = append(o, "hj_")
	}
	if f.allocsJ {
		o = append(o, "alj_")
	}
	if f.writesFS {
		o = append(o, "fs_")
	}
	if f.usesCB {
		o = append(o, "cbs_")
	}
	if f.writesW {
		o = append(o, "w_")
	}
	if f.writesStk {
		o = append(o, "stk_")
	}
	if f.mutRecv {
		o = append(o, id(f.recvName))
	}
	if f.allocs {
		o = append(o, "al_")
	}
	if f.usesIdx {
		o = append(o, "idx_")
	}
	if f.mutParam != "" {
		o = append(o, id(f.mutParam))
	}
	return o
}
func (f *hfn) ins() []string {
	i := []string{"h_"}
	if f.usesJ || f.mutatesJ {
		i = append(i, "hj_")
	}
	if f.allocsJ {
		i = append(i, "alj_")
	}
	if f.usesFS || f.writesFS {
		i = append(i, "fs_")
	}
	if f.usesCB {
		i = append(i, "cbs_")
	}
	if f.writesW {
		i = append(i, "w_")
	}
	if f.usesStk || f.writesStk {
		i = append(i, "stk_")
	}
	if f.allocs {
		i = append(i, "al_")
	}
	if f.usesIdx {
		i = append(i, "idx_")
	}
	return i
}

// a call that has to be bound by a statement: a translated function with an effect or fuel, or an external
type callee struct {
	fn      *hfn
	ext     *ext
	cb      string // a call of the callback parameter of this name
	pkgCtr  string // idxCounter.<op>()
	outs    []string
	results []string // Go result types; "~…" = not represented
	fuel    bool
}

func pkgCounterOp(call *ast.CallExpr) string {
	if se, ok := call.Fun.(*ast.SelectorExpr); ok {
		if idt, ok := se.X.(*ast.Ident); ok && idt.Name == "idxCounter" {
			return se.Sel.Name
		}
	}
	return ""
}

func (t *htr) resolve(sc *hscope, call *ast.CallExpr) *callee {
	if op := pkgCounterOp(call); op == "next" {
		return &callee{pkgCtr: op, outs: []string{"idx_"}, results: []string{"uint"}}
	}
	if idt, ok := call.Fun.(*ast.Ident); ok && sc.vars[idt.Name] == callbackType {
		return &callee{cb: idt.Name, outs: []string{"cbs_"}, results: []string{"error"}}
	}
	if g, _ := t.calleeOf(sc, call); g != nil {
		var rs []string
		for _, r := range g.results {
			if r == "*stack" {
				r = "~*stack" // `return s`: the receiver, for chaining
			}
			rs = append(rs, r)
		}
		return &callee{fn: g, outs: g.outs(), results: rs, fuel: g.fuel}
	}
	if e, ok := extOf(call); ok {
		var o []string
		if e.writes {
			o = []string{e.world}
		}
		return &callee{ext: &e, outs: o, results: e.results}
	}
	return nil
}

func (c *callee) effectful() bool {
	return len(c.outs) > 0 || c.fuel || c.ext != nil || c.cb != "" || c.pkgCtr != ""
}

func (sc *hscope) clone() *hscope {
	m := map[string]string{}
	for k, v := range sc.vars {
		m[k] = v
	}
	return &hscope{fn: sc.fn, vars: m, order: append([]string{}, sc.order...)}
}

func (sc *hscope) declare(n, ty string) {
	if _, ok := sc.vars[n]; !ok {
		sc.order = append(sc.order, n)
	}
	sc.vars[n] = ty
}

func (t *htr) fieldType(structName, field string) string {
	for _, f := range t.structs[structName] {
		if f[0] == field {
			return f[1]
		}
	}
	return "?"
}

// calleeOf: the translated function a call expression calls ("" if it is not one of them)
func (t *htr) calleeOf(sc *hscope, call *ast.CallExpr) (*hfn, ast.Expr) {
	switch f := call.Fun.(type) {
	case *ast.SelectorExpr:
		rt := t.typeOf(sc, f.X)
		key := strings.TrimPrefix(rt, "*") + "." + f.Sel.Name
		if g, ok := t.fns[key]; ok {
			return g, f.X
		}
		for _, e := range t.embedded[strings.TrimPrefix(rt, "*")] {
			if g, ok := t.fns[e+"."+f.Sel.Name]; ok {
				// a promoted method: the receiver is the embedded field
				return g, &ast.SelectorExpr{X: f.X, Sel: ast.NewIdent(e)}
			}
		}
	case *ast.Ident:
		if g, ok := t.fns[f.Name]; ok {
			return g, nil
		}
	}
	return nil, nil
}

// counterOp: `<recv>.<field>.<op>()` on a field of type *counter of the receiver; returns (field, op)
func (t *htr) counterOp(sc *hscope, call *ast.CallExpr) (string, string) {
	se, ok := call.Fun.(*ast.SelectorExpr)
	if !ok {
		return "", ""
	}
	in, ok := se.X.(*ast.SelectorExpr)
	if !ok {
		return "", ""
	}
	idt, ok := in.X.(*ast.Ident)
	if !ok || sc.fn == nil || idt.Name != sc.fn.recvName {
		return "", ""
	}
	if t.fieldType(strings.TrimPrefix(sc.fn.recvType, "*"), in.Sel.Name) != "*counter" {
		return "", ""
	}
	return in.Sel.Name, se.Sel.Name
}

// listOp: `s.nodes.<Op>(…)` on the receiver `s *stack` (its field `nodes *list.List` is the world component stk_)
func listOp(f *hfn, call *ast.CallExpr) string {
	se, ok := call.Fun.(*ast.SelectorExpr)
	if !ok {
		return ""
	}
	in, ok := se.X.(*ast.SelectorExpr)
	if !ok || in.Sel.Name != "nodes" {
		return ""
	}
	if idt, ok := in.X.(*ast.Ident); ok && f != nil && idt.Name == f.recvName && f.recvType == "*stack" {
		return se.Sel.Name
	}
	return ""
}

// nilConversion: `(*T)(nil)` — a nil pointer of a value struct without fields, used as a receiver
func nilConversion(e ast.Expr) (string, bool) {
	ce, ok := e.(*ast.CallExpr)
	if !ok || len(ce.Args) != 1 {
		return "", false
	}
	if idt, ok := ce.Args[0].(*ast.Ident); !ok || idt.Name != "nil" {
		return "", false
	}
	pe, ok := ce.Fun.(*ast.ParenExpr)
	if !ok {
		return "", false
	}
	if st, ok := pe.X.(*ast.StarExpr); ok {
		if _, ok := heapValueStructs[typeStr(st.X)]; ok {
			return typeStr(st.X), true
		}
	}
	return "", false
}

func (t *htr) typeOf(sc *hscope, e ast.Expr) string {
	if sn, ok := nilConversion(e); ok {
		return "*" + sn
	}
	switch x := e.(type) {
	case *ast.TypeAssertExpr:
		return typeStr(x.Type)
	case *ast.ParenExpr:
		return t.typeOf(sc, x.X)
	case *ast.BasicLit:
		if x.Kind == token.STRING {
			return "string"
		}
		return "int"
	case *ast.Ident:
		if x.Name == "true" || x.Name == "false" {
			return "bool"
		}
		if ty, ok := sc.vars[x.Name]; ok {
			return ty
		}
		if t.consts[x.Name] {
			return "uint"
		}
		return "?"
	case *ast.SelectorExpr:
		bt := t.typeOf(sc, x.X)
		return t.fieldType(strings.TrimPrefix(bt, "*"), x.Sel.Name)
	case *ast.IndexExpr:
		bt := t.typeOf(sc, x.X)
		if strings.HasPrefix(bt, "[]") {
			return bt[2:]
		}
	case *ast.UnaryExpr:
		if x.Op == token.NOT {
			return "bool"
		}
		return t.typeOf(sc, x.X)
	case *ast.BinaryExpr:
		switch x.Op {
		case token.EQL, token.NEQ, token.LAND, token.LOR, token.LSS, token.LEQ, token.GTR, token.GEQ:
			return "bool"
		}
		return t.typeOf(sc, x.X)
	case *ast.CallExpr:
		if g, _ := t.calleeOf(sc, x); g != nil && len(g.results) == 1 {
			return g.results[0]
		}
		switch listOp(sc.fn, x) {
		case "Back":
			return "*list.Element"
		case "Len":
			return "int"
		}
		if _, op := t.counterOp(sc, x); op == "current" || op == "next" {
			return "uint"
		}
		if pkgCounterOp(x) == "next" {
			return "uint"
		}
		if se, ok := x.Fun.(*ast.SelectorExpr); ok && se.Sel.Name == "Sprint" && strings.HasSuffix(t.typeOf(sc, se.X), "color.Color") {
			return "string"
		}
		if idt, ok := x.Fun.(*ast.Ident); ok {
			switch idt.Name {
			case "len":
				return "int"
			case "append":
				return t.typeOf(sc, x.Args[0])
			}
		}
		if se, ok := x.Fun.(*ast.SelectorExpr); ok {
			if se.Sel.Name == "Close" && t.typeOf(sc, se.X) == "*os.File" {
				return "error"
			}
			if p, ok := se.X.(*ast.Ident); ok {
				switch p.Name + "." + se.Sel.Name {
				case "path.Join", "strings.TrimSuffix", "filepath.Join":
					return "string"
				case "fs.ValidPath", "strings.ContainsAny", "strings.HasSuffix", "os.IsNotExist":
					return "bool"
				case "fmt.Errorf":
					return "error"
				case "fmt.Sprintf":
					return "string"
				}
			}
		}
	}
	return "?"
}

// ---------- analysis: who writes the heap, who needs fuel ----------

func (t *htr) scopeOf(f *hfn) *hscope {
	sc := &hscope{fn: f, vars: map[string]string{}}
	if f.recvName != "" {
		sc.declare(f.recvName, f.recvType)
	}
	for _, p := range f.params {
		sc.declare(p[0], p[1])
	}
	return sc
}

func (t *htr) analyse() {
	hasLoop := map[string]bool{}
	for _, f := range t.fns {
		for _, p := range f.params {
			if p[1] == "map[string]struct{}" {
				name := p[0]
				ast.Inspect(f.decl.Body, func(n ast.Node) bool {
					if as, ok := n.(*ast.AssignStmt); ok {
						for _, l := range as.Lhs {
							if ie, ok := l.(*ast.IndexExpr); ok {
								if idt, ok := ie.X.(*ast.Ident); ok && idt.Name == name {
									f.mutParam = name
								}
							}
						}
					}
					return true
				})
			}
		}
		if heapStructOf(f.recvType) == recStruct {
			f.usesJ = true
		}
		for _, p := range f.params {
			if heapStructOf(p[1]) == recStruct {
				f.usesJ = true
			}
		}
		for _, p := range f.params {
			if p[1] == callbackType {
				f.usesCB = true
			}
		}
		{
			sc0 := t.scopeOf(f)
			ast.Inspect(f.decl.Body, func(n ast.Node) bool {
				if ce, ok := n.(*ast.CallExpr); ok {
					if _, op := t.counterOp(sc0, ce); op == "next" || op == "reset" {
						f.mutRecv = true
					}
				}
				return true
			})
		}
		ast.Inspect(f.decl.Body, func(n ast.Node) bool {
			switch x := n.(type) {
			case *ast.UnaryExpr:
				if cl, ok := x.X.(*ast.CompositeLit); ok && x.Op == token.AND {
					if _, ok := heapStructs[typeStr(cl.Type)]; ok {
						if typeStr(cl.Type) == recStruct {
							f.allocsJ, f.mutatesJ = true, true
						} else {
							f.allocs, f.mutates = true, true
						}
					}
				}
			case *ast.CallExpr:
				if pkgCounterOp(x) != "" {
					f.usesIdx = true
				}
			}
			return true
		})
		if f.recvType == "*stack" {
			f.usesStk = true
			ast.Inspect(f.decl.Body, func(n ast.Node) bool {
				if ce, ok := n.(*ast.CallExpr); ok {
					if op := listOp(f, ce); op == "PushBack" || op == "Remove" {
						f.writesStk = true
					}
				}
				return true
			})
		}
	}
	for _, f := range t.fns {
		sc := t.scopeOf(f)
		// a rough scope for typing receivers of calls: parameters plus every `x := <expr>` / range variable seen
		ast.Inspect(f.decl.Body, func(n ast.Node) bool {
			switch x := n.(type) {
			case *ast.AssignStmt:
				if x.Tok == token.DEFINE && len(x.Lhs) == 1 && len(x.Rhs) == 1 {
					if idt, ok := x.Lhs[0].(*ast.Ident); ok {
						sc.declare(idt.Name, t.typeOf(sc, x.Rhs[0]))
					}
				}
				for _, l := range x.Lhs {
					switch t.throughPointerOf(sc, l) {
					case "":
					case recStruct:
						f.mutatesJ = true
					default:
						f.mutates = true
					}
				}
			case *ast.RangeStmt:
				if v, ok := x.Value.(*ast.Ident); ok && x.Value != nil {
					bt := t.typeOf(sc, x.X)
					if strings.HasPrefix(bt, "[]") {
						sc.declare(v.Name, bt[2:])
					}
				}
			case *ast.ForStmt:
				hasLoop[f.key] = true
			case *ast.CallExpr:
				if g, _ := t.calleeOf(sc, x); g != nil {
					f.calls[g.key] = true
				}
				if e, ok := extOf(x); ok {
					if e.world == "w_" {
						f.writesW = true
					} else {
						f.usesFS = true
						if e.writes {
							f.writesFS = true
						}
					}
				}
			}
			return true
		})
	}
	// recursion: f reaches itself
	for _, f := range t.fns {
		seen := map[string]bool{}
		var dfs func(k string) bool
		dfs = func(k string) bool {
			for c := range t.fns[k].calls {
				if c == f.key {
					return true
				}
				if !seen[c] {
					seen[c] = true
					if dfs(c) {
						return true
					}
				}
			}
			return false
		}
		f.rec = dfs(f.key)
		f.fuel = f.rec || hasLoop[f.key]
	}
	for changed := true; changed; {
		changed = false
		for _, f := range t.fns {
			for c := range f.calls {
				g := t.fns[c]
				if g.mutates && !f.mutates {
					f.mutates, changed = true, true
				}
				if g.fuel && !f.fuel {
					f.fuel, changed = true, true
				}
				if (g.usesFS || g.writesFS) && !f.usesFS {
					f.usesFS, changed = true, true
				}
				if g.writesFS && !f.writesFS {
					f.writesFS, changed = true, true
				}
				if g.usesCB && !f.usesCB {
					f.usesCB, changed = true, true
				}
				if g.writesW && !f.writesW {
					f.writesW, changed = true, true
				}
				if g.writesStk && !f.writesStk {
					f.writesStk, changed = true, true
				}
				if g.mutRecv && !f.mutRecv && g.recvType == f.recvType {
					f.mutRecv, changed = true, true
				}
				if g.allocs && !f.allocs {
					f.allocs, changed = true, true
				}
				if g.allocsJ && !f.allocsJ {
					f.allocsJ, changed = true, true
				}
				if g.mutatesJ && !f.mutatesJ {
					f.mutatesJ, changed = true, true
				}
				if (g.usesJ || g.mutatesJ) && !f.usesJ {
					f.usesJ, changed = true, true
				}
				if g.usesIdx && !f.usesIdx {
					f.usesIdx, changed = true, true
				}
			}
		}
	}
}

// throughPointerOf: the heap struct through whose pointer the assignable expression is reached ("" if none)
func (t *htr) throughPointerOf(sc *hscope, e ast.Expr) string {
	se, ok := e.(*ast.SelectorExpr)
	if !ok {
		return ""
	}
	if hs := heapStructOf(t.typeOf(sc, se.X)); hs != "" {
		return hs
	}
	return t.throughPointerOf(sc, se.X)
}

// throughPointer: the assignable expression is a field (of a field …) reached through a heap pointer
func (t *htr) throughPointer(sc *hscope, e ast.Expr) bool {
	se, ok := e.(*ast.SelectorExpr)
	if !ok {
		return false
	}
	if isHeapPtr(t.typeOf(sc, se.X)) {
		return true
	}
	return t.throughPointer(sc, se.X)
}

// ---------- expressions ----------

func (t *htr) ex(sc *hscope, e ast.Expr, want string) string {
	if sn, ok := nilConversion(e); ok {
		if len(t.structs[sn]) == 0 {
			return "(" + sn + ".mk)" // a receiver without fields: its methods do not read it
		}
		return t.fail(e.Pos(), "nil receiver of a struct with fields")
	}
	switch x := e.(type) {
	case *ast.TypeAssertExpr:
		return t.ex(sc, x.X, want) // `v.(T)`: the records are of one type here
	case *ast.ParenExpr:
		return "(" + t.ex(sc, x.X, want) + ")"
	case *ast.BasicLit:
		switch x.Kind {
		case token.STRING:
			s, err := strconv.Unquote(x.Value)
			if err != nil {
				return t.fail(x.Pos(), "string literal")
			}
			return bytesLit(s)
		case token.INT:
			return "(" + x.Value + " : Int)"
		}
		return t.fail(x.Pos(), "literal")
	case *ast.Ident:
		switch x.Name {
		case "nil":
			if isHeapPtr(want) {
				return "Go.nilPtr"
			}
			if want == "error" {
				return "none"
			}
			return t.fail(x.Pos(), "nil of type %q", want)
		case "true", "false":
			return x.Name
		}
		if _, ok := sc.vars[x.Name]; ok {
			return id(x.Name)
		}
		if t.consts[x.Name] {
			return "Src." + id(x.Name)
		}
		if t.sentinels[x.Name] {
			return "(some Src.Err." + x.Name + ")"
		}
		return t.fail(x.Pos(), "identifier %s", x.Name)
	case *ast.SelectorExpr:
		bt := t.typeOf(sc, x.X)
		if t.fieldType(strings.TrimPrefix(bt, "*"), x.Sel.Name) == "?" {
			return t.fail(x.Pos(), "selector .%s on %s", x.Sel.Name, bt)
		}
		if hs := heapStructOf(bt); hs != "" {
			return "(" + hv(hs) + " " + t.ex(sc, x.X, bt) + ")." + id(x.Sel.Name)
		}
		return t.ex(sc, x.X, bt) + "." + id(x.Sel.Name)
	case *ast.UnaryExpr:
		if x.Op == token.NOT {
			return "(!" + t.ex(sc, x.X, "bool") + ")"
		}
		return t.fail(x.Pos(), "unary %s", x.Op)
	case *ast.BinaryExpr:
		lt, rt := t.typeOf(sc, x.X), t.typeOf(sc, x.Y)
		ty := lt
		if ty == "?" {
			ty = rt
		}
		// comparison with nil
		if idt, ok := x.Y.(*ast.Ident); ok && idt.Name == "nil" && (x.Op == token.EQL || x.Op == token.NEQ) {
			a := t.ex(sc, x.X, lt)
			switch {
			case isHeapPtr(lt) && x.Op == token.EQL:
				return "(" + a + " == Go.nilPtr)"
			case isHeapPtr(lt):
				return "(" + a + " != Go.nilPtr)"
			case lt == "error" && x.Op == token.EQL:
				return "(Option.isNone " + a + ")"
			case lt == "error":
				return "(Option.isSome " + a + ")"
			}
			return t.fail(x.Pos(), "comparison of %s with nil", lt)
		}
		a, b := t.ex(sc, x.X, ty), t.ex(sc, x.Y, ty)
		switch x.Op {
		case token.EQL:
			return "(" + a + " == " + b + ")"
		case token.NEQ:
			return "(" + a + " != " + b + ")"
		case token.LAND:
			return "(" + a + " && " + b + ")"
		case token.LOR:
			return "(" + a + " || " + b + ")"
		case token.LSS:
			return "(decide (" + a + " < " + b + "))"
		case token.LEQ:
			return "(decide (" + a + " ≤ " + b + "))"
		case token.GTR:
			return "(decide (" + a + " > " + b + "))"
		case token.GEQ:
			return "(decide (" + a + " ≥ " + b + "))"
		case token.ADD:
			return "(" + a + " + " + b + ")"
		case token.SUB:
			return "(" + a + " - " + b + ")"
		}
		return t.fail(x.Pos(), "operator %s", x.Op)
	case *ast.IndexExpr:
		bt := t.typeOf(sc, x.X)
		if strings.HasPrefix(bt, "[]*") && heapStructOf(bt[2:]) != "" {
			return "(Go.idxPtr " + t.ex(sc, x.X, bt) + " " + t.ex(sc, x.Index, "int") + ")"
		}
		return t.fail(x.Pos(), "index into %s", bt)
	case *ast.CallExpr:
		if c := t.resolve(sc, x); c != nil {
			if len(c.outs) > 0 || c.fuel {
				return t.fail(x.Pos(), "call with an effect (or bounded by fuel) inside an expression")
			}
			return t.call(sc, x, c)
		}
		switch listOp(sc.fn, x) {
		case "Back":
			return "(Go.listBack stk_)"
		case "Len":
			return "(Go.len stk_)"
		}
		if fld, op := t.counterOp(sc, x); op == "current" {
			return id(sc.fn.recvName) + "." + id(fld)
		}
		if se, ok := x.Fun.(*ast.SelectorExpr); ok && se.Sel.Name == "Sprint" && strings.HasSuffix(t.typeOf(sc, se.X), "color.Color") && len(x.Args) == 1 {
			return "(Go.color_Sprint " + t.ex(sc, x.Args[0], "string") + ")"
		}
		if se, ok := x.Fun.(*ast.SelectorExpr); ok {
			if p, ok := se.X.(*ast.Ident); ok && p.Name == "fmt" && se.Sel.Name == "Sprintf" && len(x.Args) >= 1 {
				if lit, ok := x.Args[0].(*ast.BasicLit); ok && lit.Kind == token.STRING {
					format, _ := strconv.Unquote(lit.Value)
					// a constant format with %s and %d verbs: expanded here
					var parts []string
					ai := 1
					cur := ""
					for i := 0; i < len(format); i++ {
						if format[i] == '%' && i+1 < len(format) && (format[i+1] == 's' || format[i+1] == 'd') && ai < len(x.Args) {
							if cur != "" {
								parts = append(parts, bytesLit(cur))
								cur = ""
							}
							a := t.ex(sc, x.Args[ai], t.typeOf(sc, x.Args[ai]))
							if format[i+1] == 'd' {
								a = "(Go.fmt_d " + a + ")"
							}
							parts = append(parts, a)
							ai++
							i++
							continue
						}
						if format[i] == '%' {
							return t.fail(x.Pos(), "format verb")
						}
						cur += string(format[i])
					}
					if cur != "" {
						parts = append(parts, bytesLit(cur))
					}
					return "(" + strings.Join(parts, " ++ ") + ")"
				}
			}
		}
		if se, ok := x.Fun.(*ast.SelectorExpr); ok && se.Sel.Name == "Close" && t.typeOf(sc, se.X) == "*os.File" {
			return "none" // closing the file os.Create has just returned does not fail in the file-system model
		}
		var args []string
		if idt, ok := x.Fun.(*ast.Ident); ok {
			switch idt.Name {
			case "len":
				return "(Go.len " + t.ex(sc, x.Args[0], t.typeOf(sc, x.Args[0])) + ")"
			case "append":
				if len(x.Args) == 2 && !x.Ellipsis.IsValid() {
					lt := t.typeOf(sc, x.Args[0])
					return "(" + t.ex(sc, x.Args[0], lt) + " ++ [" + t.ex(sc, x.Args[1], strings.TrimPrefix(lt, "[]")) + "])"
				}
			}
			return t.fail(x.Pos(), "call of %s", idt.Name)
		}
		if se, ok := x.Fun.(*ast.SelectorExpr); ok {
			if p, ok := se.X.(*ast.Ident); ok {
				for _, a := range x.Args {
					args = append(args, t.ex(sc, a, t.typeOf(sc, a)))
				}
				switch p.Name + "." + se.Sel.Name {
				case "path.Join":
					if x.Ellipsis.IsValid() && len(args) == 1 {
						return "(Go.path_Join " + args[0] + ")"
					}
					return "(Go.path_Join [" + strings.Join(args, ", ") + "])"
				case "strings.TrimSuffix":
					return "(Go.strings_TrimSuffix " + strings.Join(args, " ") + ")"
				case "strings.HasSuffix":
					return "(Go.strings_HasSuffix " + strings.Join(args, " ") + ")"
				case "filepath.Join":
					return "(Go.filepath_Join [" + strings.Join(args, ", ") + "])"
				case "os.IsNotExist":
					return "(Go.os_IsNotExist " + args[0] + ")"
				case "strings.ContainsAny":
					return "(Go.strings_ContainsAny " + strings.Join(args, " ") + ")"
				case "fs.ValidPath":
					return "(Go.fs_ValidPath " + args[0] + ")"
				case "fmt.Errorf":
					return "(some (Src.Err.Errorf " + args[0] + " [" + strings.Join(args[1:], ", ") + "]))"
				}
			}
		}
		return t.fail(x.Pos(), "call")
	}
	return t.fail(e.Pos(), "expression %T", e)
}

// call: the Lean application for a call of a translated function or an external (fuel and world components first)
func (t *htr) call(sc *hscope, x *ast.CallExpr, c *callee) string {
	if c.pkgCtr != "" {
		return "(Go.counterNext idx_)"
	}
	if c.cb != "" {
		// callback(&WalkerNode{origin: p}): the callback is handed the node
		if len(x.Args) == 1 {
			if u, ok := x.Args[0].(*ast.UnaryExpr); ok && u.Op == token.AND {
				if cl, ok := u.X.(*ast.CompositeLit); ok && typeStr(cl.Type) == "WalkerNode" && len(cl.Elts) == 1 {
					if kv, ok := cl.Elts[0].(*ast.KeyValueExpr); ok && kv.Key.(*ast.Ident).Name == "origin" {
						return "(" + id(c.cb) + " " + t.ex(sc, kv.Value, "*Node") + " cbs_)"
					}
				}
			}
		}
		return t.fail(x.Pos(), "argument of the callback")
	}
	if c.ext != nil {
		parts := []string{c.ext.lean, c.ext.world}
		for i := c.ext.skip; i < c.ext.skip+c.ext.nargs && i < len(x.Args); i++ {
			parts = append(parts, t.ex(sc, x.Args[i], t.typeOf(sc, x.Args[i])))
		}
		return "(" + strings.Join(parts, " ") + ")"
	}
	g := c.fn
	_, recv := t.calleeOf(sc, x)
	parts := []string{leanFn(g)}
	if g.fuel {
		parts = append(parts, "fuel_")
	}
	parts = append(parts, g.ins()...)
	if recv != nil && g.recvType != "*stack" {
		parts = append(parts, t.ex(sc, recv, g.recvType))
	}
	np := len(g.params)
	for i, a := range x.Args {
		if g.variadic && i >= np-1 {
			break
		}
		if g.params[i][1] == "io.Writer" {
			continue // the writer is the world component w_
		}
		parts = append(parts, t.ex(sc, a, g.params[i][1]))
	}
	if g.variadic {
		el := strings.TrimPrefix(g.params[np-1][1], "[]")
		if x.Ellipsis.IsValid() {
			parts = append(parts, t.ex(sc, x.Args[len(x.Args)-1], g.params[np-1][1]))
		} else {
			var vs []string
			for i := np - 1; i < len(x.Args); i++ {
				vs = append(vs, t.ex(sc, x.Args[i], el))
			}
			parts = append(parts, "["+strings.Join(vs, ", ")+"]")
		}
	}
	return "(" + strings.Join(parts, " ") + ")"
}

func leanFn(g *hfn) string {
	if i := strings.Index(g.key, "."); i >= 0 {
		return g.key[:i] + "." + id(g.key[i+1:])
	}
	return id(g.key)
}

// ---------- statements ----------

type hcont struct {
	retRaw func(v string) string      // a value of the function's result type leaves the function
	none   func() string              // the fuel bound was reached
	fall   func(sc *hscope) string    // the statements fall off their end
	next   func(sc *hscope) string    // continue (nil outside loops)
	brk    func(sc *hscope) string    // break
}

func hleaves(stmts []ast.Stmt) bool {
	if len(stmts) == 0 {
		return false
	}
	switch x := stmts[len(stmts)-1].(type) {
	case *ast.ReturnStmt:
		return true
	case *ast.BranchStmt:
		return x.Tok == token.CONTINUE || x.Tok == token.BREAK
	case *ast.IfStmt:
		if x.Else == nil {
			return false
		}
		eb, ok := x.Else.(*ast.BlockStmt)
		return ok && hleaves(x.Body.List) && hleaves(eb.List)
	case *ast.BlockStmt:
		return hleaves(x.List)
	}
	return false
}

// fnValue: the value a `return vals` produces for function f
func (t *htr) fnValue(f *hfn, vals []string) string {
	var parts []string
	parts = append(parts, f.outs()...)
	parts = append(parts, vals...)
	v := "()"
	if len(parts) == 1 {
		v = parts[0]
	} else if len(parts) > 1 {
		v = "(" + strings.Join(parts, ", ") + ")"
	}
	if f.fuel {
		return "(some " + v + ")"
	}
	return v
}

// zeroLean: the zero value of a field of a heap cell
func zeroLean(goType string) string {
	switch goType {
	case "string":
		return "([] : Bytes)"
	case "uint", "int":
		return "(0 : Int)"
	case "bool":
		return "false"
	case "branch":
		return "({ value := [], path := [] } : Src.branch)"
	}
	if strings.HasPrefix(goType, "[]") {
		return "[]"
	}
	if strings.HasPrefix(goType, "*") {
		return "Go.nilPtr"
	}
	return "untranslatable"
}

func tupleOf(names []string) string {
	switch len(names) {
	case 0:
		return "()"
	case 1:
		return names[0]
	}
	return "(" + strings.Join(names, ", ") + ")"
}

func rebind(names []string, from, ind string) string {
	switch len(names) {
	case 0:
		return ""
	case 1:
		return ind + "let " + names[0] + " := " + from + "\n"
	}
	return ind + "let " + tupleOf(names) + " := " + from + "\n"
}

// assigned: variables declared outside the statements that the statements assign
func (t *htr) assigned(sc *hscope, stmts []ast.Stmt) []string {
	set := map[string]bool{}
	declared := map[string]bool{}
	for _, s := range stmts {
		ast.Inspect(s, func(n ast.Node) bool {
			switch x := n.(type) {
			case *ast.AssignStmt:
				for _, l := range x.Lhs {
					if idt, ok := l.(*ast.Ident); ok {
						if x.Tok == token.DEFINE {
							declared[idt.Name] = true
						} else if _, ok := sc.vars[idt.Name]; ok && !declared[idt.Name] {
							set[idt.Name] = true
						}
					}
				}
			case *ast.IncDecStmt:
				if idt, ok := x.X.(*ast.Ident); ok {
					if _, ok := sc.vars[idt.Name]; ok {
						set[idt.Name] = true
					}
				}
			}
			return true
		})
	}
	var out []string
	for _, n := range sc.order {
		if set[n] {
			out = append(out, id(n))
		}
	}
	return out
}

// bindCall: `lhs… := g(args)` or the bare call statement; returns the Lean text that binds the world components
// the callee returns and its results
func (t *htr) bindCall(sc *hscope, lhs []string, x *ast.CallExpr, g *callee, c *hcont, ind string) string {
	app := t.call(sc, x, g)
	var names []string
	for _, o := range g.outs {
		if g.fn != nil && g.fn.mutParam != "" && o == id(g.fn.mutParam) {
			// the set the callee inserted into is the caller's argument
			for i, p := range g.fn.params {
				if p[0] == g.fn.mutParam && i < len(x.Args) {
					if idt, ok := x.Args[i].(*ast.Ident); ok {
						o = id(idt.Name)
					}
				}
			}
		}
		names = append(names, o)
	}
	names0 := names
	_ = names0
	names = append([]string{}, names...)
	if false {
	}
	for i, r := range g.results {
		if strings.HasPrefix(r, "~") {
			continue
		}
		if i < len(lhs) {
			names = append(names, lhs[i])
		} else {
			names = append(names, "_")
		}
	}
	if len(names) == 0 {
		if g.fuel {
			return ind + "match " + app + " with\n" + ind + "| none => " + c.none() + "\n" + ind + "| some _ =>\n"
		}
		return ""
	}
	if g.fuel {
		return ind + "match " + app + " with\n" + ind + "| none => " + c.none() + "\n" + ind + "| some r_ =>\n" + rebind(names, "r_", ind)
	}
	return rebind(names, app, ind)
}

func (t *htr) seq(sc *hscope, stmts []ast.Stmt, c *hcont, ind string) string {
	if len(stmts) == 0 {
		return ind + c.fall(sc) + "\n"
	}
	s, rest := stmts[0], stmts[1:]
	f := sc.fn
	switch x := s.(type) {
	case *ast.BlockStmt:
		return t.seq(sc, append(append([]ast.Stmt{}, x.List...), rest...), c, ind)
	case *ast.ReturnStmt:
		var vals []string
		if len(x.Results) == 1 {
			// `return s.nodes.Remove(tmp).(*Node)`: the last element leaves the list, its node is the result
			if ta, ok := x.Results[0].(*ast.TypeAssertExpr); ok {
				if ce, ok := ta.X.(*ast.CallExpr); ok && listOp(f, ce) == "Remove" && len(ce.Args) == 1 {
					return ind + "let r0_ := " + t.ex(sc, ce.Args[0], "*list.Element") + "\n" + ind + "let stk_ := Go.listDropBack stk_\n" +
						ind + c.retRaw(t.fnValue(f, []string{"r0_"})) + "\n"
				}
			}
			if len(f.results) == 1 && f.results[0] == "*stack" {
				return ind + c.retRaw(t.fnValue(f, nil)) + "\n"
			}
			// `return &Node{…}`: a new cell at the allocator's pointer
			if u, ok := x.Results[0].(*ast.UnaryExpr); ok && u.Op == token.AND {
				if cl, ok := u.X.(*ast.CompositeLit); ok {
					if _, ok := heapStructs[typeStr(cl.Type)]; ok {
						vals := map[string]string{}
						for _, el := range cl.Elts {
							kv, ok := el.(*ast.KeyValueExpr)
							if !ok {
								return ind + t.fail(x.Pos(), "positional composite literal") + "\n"
							}
							k := kv.Key.(*ast.Ident).Name
							vals[k] = t.ex(sc, kv.Value, t.fieldType(typeStr(cl.Type), k))
						}
						var fs []string
						for _, fl := range t.structs[typeStr(cl.Type)] {
							v, ok := vals[fl[0]]
							if !ok {
								v = zeroLean(fl[1])
							}
							fs = append(fs, id(fl[0])+" := "+v)
						}
						return ind + "let p_ := al_\n" + ind + "let h_ := Heap.set h_ p_ { " + strings.Join(fs, ", ") + " }\n" +
							ind + "let al_ := al_ + 1\n" + ind + c.retRaw(t.fnValue(f, []string{"p_"})) + "\n"
					}
				}
			}
			// effects inside the returned expression (e.g. an argument `idxCounter.next()`)
			n := 0
			if pre, e2 := t.hoist(sc, x.Results[0], c, ind, &n); pre != "" {
				y := *x
				y.Results = []ast.Expr{e2}
				return pre + t.seq(sc, []ast.Stmt{&y}, c, ind)
			}
		}
		for i, r := range x.Results {
			want := "?"
			if i < len(f.results) {
				want = f.results[i]
			}
			if call, ok := r.(*ast.CallExpr); ok {
				if g := t.resolve(sc, call); g != nil && (len(g.outs) > 0 || g.fuel) && len(x.Results) == 1 {
					// `return g(…)`
					pre := t.bindCall(sc, []string{"r0_"}, call, g, c, ind)
					return pre + ind + c.retRaw(t.fnValue(f, []string{"r0_"})) + "\n"
				}
			}
			vals = append(vals, t.ex(sc, r, want))
		}
		return ind + c.retRaw(t.fnValue(f, vals)) + "\n"
	case *ast.BranchStmt:
		if x.Tok == token.CONTINUE && c.next != nil {
			return ind + c.next(sc) + "\n"
		}
		if x.Tok == token.BREAK && c.brk != nil {
			return ind + c.brk(sc) + "\n"
		}
		return ind + t.fail(x.Pos(), "branch statement") + "\n"
	case *ast.ExprStmt:
		call, ok := x.X.(*ast.CallExpr)
		if !ok {
			return ind + t.fail(x.Pos(), "expression statement") + "\n"
		}
		if fld, op := t.counterOp(sc, call); op == "next" || op == "reset" {
			return t.counterStmt(sc, fld, op, ind) + t.seq(sc, rest, c, ind)
		}
		if listOp(f, call) == "PushBack" && len(call.Args) == 1 {
			return ind + "let stk_ := stk_ ++ [" + t.ex(sc, call.Args[0], "*Node") + "]\n" + t.seq(sc, rest, c, ind)
		}
		// a chain `s.push(a).push(b)`: the inner call first, then the outer one on the same receiver
		if se, ok := call.Fun.(*ast.SelectorExpr); ok {
			if inner, ok := se.X.(*ast.CallExpr); ok {
				if ise, ok := inner.Fun.(*ast.SelectorExpr); ok {
					if g, _ := t.calleeOf(sc, inner); g != nil && len(g.results) == 1 && g.results[0] == "*stack" {
						outer := &ast.CallExpr{Fun: &ast.SelectorExpr{X: ise.X, Sel: se.Sel}, Args: call.Args, Ellipsis: call.Ellipsis}
						return t.seq(sc, append([]ast.Stmt{&ast.ExprStmt{X: inner}, &ast.ExprStmt{X: outer}}, rest...), c, ind)
					}
				}
			}
		}
		g := t.resolve(sc, call)
		if g == nil {
			return ind + t.fail(x.Pos(), "call statement of an untranslated function") + "\n"
		}
		{
			pre := ""
			n := 0
			y := *call
			y.Args = nil
			for _, a := range call.Args {
				p1, a1 := t.hoist(sc, a, c, ind, &n)
				pre += p1
				y.Args = append(y.Args, a1)
			}
			if pre != "" {
				return pre + t.seq(sc, append([]ast.Stmt{&ast.ExprStmt{X: &y}}, rest...), c, ind)
			}
		}
		return t.bindCall(sc, nil, call, g, c, ind) + t.seq(sc, rest, c, ind)
	case *ast.DeclStmt:
		return ind + t.fail(x.Pos(), "declaration statement") + "\n"
	case *ast.AssignStmt:
		return t.assignH(sc, x, c, ind) + t.seq(sc, rest, c, ind)
	case *ast.IfStmt:
		sc2 := sc.clone()
		pre := ""
		if x.Init != nil {
			as, ok := x.Init.(*ast.AssignStmt)
			if !ok {
				return ind + t.fail(x.Pos(), "if-init") + "\n"
			}
			pre = t.assignH(sc2, as, c, ind)
		}
		cond := t.ex(sc2, x.Cond, "bool")
		var els []ast.Stmt
		if x.Else != nil {
			els = []ast.Stmt{x.Else}
		}
		thenStmts, elseStmts := x.Body.List, els
		var a, b string
		if hleaves(thenStmts) {
			a = t.seq(sc2.clone(), thenStmts, c, ind+"  ")
		} else {
			a = t.seq(sc2.clone(), append(append([]ast.Stmt{}, thenStmts...), rest...), c, ind+"  ")
		}
		if len(elseStmts) > 0 && hleaves(elseStmts) {
			b = t.seq(sc2.clone(), elseStmts, c, ind+"  ")
		} else {
			b = t.seq(sc2.clone(), append(append([]ast.Stmt{}, elseStmts...), rest...), c, ind+"  ")
		}
		return pre + ind + "if " + cond + " then (\n" + a + ind + ") else (\n" + b + ind + ")\n"
	case *ast.RangeStmt:
		if x.Key == nil && x.Value == nil && t.typeOf(sc, x.X) == "int" {
			// `for range n`: n rounds
			state := append(append([]string{}, f.outs()...), t.assigned(sc, x.Body.List)...)
			lc := &hcont{
				retRaw: func(val string) string { return "Go.Ctl.ret " + val },
				none:   func() string { return "Go.Ctl.ret none" },
				fall:   func(*hscope) string { return "Go.Ctl.next " + tupleOf(state) },
				next:   func(*hscope) string { return "Go.Ctl.next " + tupleOf(state) },
				brk:    func(*hscope) string { return "Go.Ctl.brk " + tupleOf(state) },
			}
			var b strings.Builder
			b.WriteString(ind + "match Go.forRange (List.range (Int.toNat " + t.ex(sc, x.X, "int") + ")) " + tupleOf(state) + " (fun _ st_ =>\n")
			b.WriteString(rebind(state, "st_", ind+"    "))
			b.WriteString(t.seq(sc.clone(), x.Body.List, lc, ind+"    "))
			b.WriteString(ind + "  ) with\n")
			b.WriteString(ind + "| Go.Ctl.ret r_ => " + c.retRaw("r_") + "\n")
			b.WriteString(ind + "| Go.Ctl.brk st_ | Go.Ctl.next st_ =>\n")
			b.WriteString(rebind(state, "st_", ind+"  "))
			b.WriteString(t.seq(sc, rest, c, ind+"  "))
			return b.String()
		}
		if k, ok := x.Key.(*ast.Ident); ok && x.Value == nil && k.Name != "_" && strings.HasPrefix(t.typeOf(sc, x.X), "[]") {
			// `for i := range xs`: the indices
			state := append(append([]string{}, f.outs()...), t.assigned(sc, x.Body.List)...)
			body := sc.clone()
			body.declare(k.Name, "int")
			lc := &hcont{
				retRaw: func(val string) string { return "Go.Ctl.ret " + val },
				none:   func() string { return "Go.Ctl.ret none" },
				fall:   func(*hscope) string { return "Go.Ctl.next " + tupleOf(state) },
				next:   func(*hscope) string { return "Go.Ctl.next " + tupleOf(state) },
				brk:    func(*hscope) string { return "Go.Ctl.brk " + tupleOf(state) },
			}
			var b strings.Builder
			b.WriteString(ind + "match Go.forRange (Go.indices " + t.ex(sc, x.X, t.typeOf(sc, x.X)) + ") " + tupleOf(state) + " (fun " + id(k.Name) + " st_ =>\n")
			b.WriteString(rebind(state, "st_", ind+"    "))
			b.WriteString(t.seq(body, x.Body.List, lc, ind+"    "))
			b.WriteString(ind + "  ) with\n")
			b.WriteString(ind + "| Go.Ctl.ret r_ => " + c.retRaw("r_") + "\n")
			b.WriteString(ind + "| Go.Ctl.brk st_ | Go.Ctl.next st_ =>\n")
			b.WriteString(rebind(state, "st_", ind+"  "))
			b.WriteString(t.seq(sc, rest, c, ind+"  "))
			return b.String()
		}
		v, ok := x.Value.(*ast.Ident)
		if !ok || x.Value == nil {
			return ind + t.fail(x.Pos(), "range without a value variable") + "\n"
		}
		bt := t.typeOf(sc, x.X)
		if !strings.HasPrefix(bt, "[]") {
			return ind + t.fail(x.Pos(), "range over %s", bt)
		}
		state := append(append([]string{}, f.outs()...), t.assigned(sc, x.Body.List)...)
		body := sc.clone()
		body.declare(v.Name, bt[2:])
		lc := &hcont{
			retRaw: func(val string) string { return "Go.Ctl.ret " + val },
			none:   func() string { return "Go.Ctl.ret none" },
			fall:   func(*hscope) string { return "Go.Ctl.next " + tupleOf(state) },
			next:   func(*hscope) string { return "Go.Ctl.next " + tupleOf(state) },
			brk:    func(*hscope) string { return "Go.Ctl.brk " + tupleOf(state) },
		}
		var b strings.Builder
		b.WriteString(ind + "match Go.forRange " + t.ex(sc, x.X, bt) + " " + tupleOf(state) + " (fun " + id(v.Name) + " st_ =>\n")
		b.WriteString(rebind(state, "st_", ind+"    "))
		b.WriteString(t.seq(body, x.Body.List, lc, ind+"    "))
		b.WriteString(ind + "  ) with\n")
		b.WriteString(ind + "| Go.Ctl.ret r_ => " + c.retRaw("r_") + "\n")
		b.WriteString(ind + "| Go.Ctl.brk st_ | Go.Ctl.next st_ =>\n")
		b.WriteString(rebind(state, "st_", ind+"  "))
		b.WriteString(t.seq(sc, rest, c, ind+"  "))
		return b.String()
	case *ast.ForStmt:
		if x.Cond == nil {
			return ind + t.fail(x.Pos(), "for without a condition") + "\n"
		}
		pre := ""
		sc2 := sc
		if x.Init != nil {
			as, ok := x.Init.(*ast.AssignStmt)
			if !ok {
				return ind + t.fail(x.Pos(), "for-init") + "\n"
			}
			pre = t.assignH(sc2, as, c, ind)
		}
		stmts := append([]ast.Stmt{}, x.Body.List...)
		if x.Post != nil {
			stmts = append(stmts, x.Post)
		}
		state := append(append([]string{}, f.outs()...), t.assigned(sc2, stmts)...)
		lc := &hcont{
			retRaw: func(val string) string { return "Go.Ctl.ret " + val },
			none:   func() string { return "Go.Ctl.ret none" },
			fall:   func(*hscope) string { return "Go.Ctl.next " + tupleOf(state) },
			brk:    func(*hscope) string { return "Go.Ctl.brk " + tupleOf(state) },
			// `continue` would have to run the post statement: not in the subset
		}
		var b strings.Builder
		b.WriteString(pre)
		b.WriteString(ind + "match Go.forLoop fuel_ " + tupleOf(state) + " (fun st_ =>\n")
		b.WriteString(rebind(state, "st_", ind+"    "))
		b.WriteString(ind + "    " + t.ex(sc2, x.Cond, "bool") + ") (fun st_ =>\n")
		b.WriteString(rebind(state, "st_", ind+"    "))
		b.WriteString(t.seq(sc2.clone(), stmts, lc, ind+"    "))
		b.WriteString(ind + "  ) with\n")
		b.WriteString(ind + "| none => " + c.none() + "\n")
		b.WriteString(ind + "| some (Go.Ctl.ret r_) => " + c.retRaw("r_") + "\n")
		b.WriteString(ind + "| some (Go.Ctl.brk st_) | some (Go.Ctl.next st_) =>\n")
		b.WriteString(rebind(state, "st_", ind+"  "))
		b.WriteString(t.seq(sc2, rest, c, ind+"  "))
		return b.String()
	}
	return ind + t.fail(s.Pos(), "statement %T", s) + "\n"
}

// assignH: one assignment statement as `let` lines
// allocCell: the cell a composite literal of a heap struct describes (unnamed fields are zero)
func (t *htr) allocCell(sc *hscope, cl *ast.CompositeLit) (string, bool) {
	sn := typeStr(cl.Type)
	vals := map[string]string{}
	for _, el := range cl.Elts {
		kv, ok := el.(*ast.KeyValueExpr)
		if !ok {
			return "", false
		}
		k := kv.Key.(*ast.Ident).Name
		vals[k] = t.ex(sc, kv.Value, t.fieldType(sn, k))
	}
	var fs []string
	for _, fl := range t.structs[sn] {
		v, ok := vals[fl[0]]
		if !ok {
			v = zeroLean(fl[1])
		}
		fs = append(fs, id(fl[0])+" := "+v)
	}
	return "{ " + strings.Join(fs, ", ") + " }", true
}

func (t *htr) counterStmt(sc *hscope, fld, op, ind string) string {
	r := id(sc.fn.recvName)
	if op == "reset" {
		return ind + "let " + r + " := { " + r + " with " + id(fld) + " := (0 : Int) }\n"
	}
	return ind + "let " + r + " := { " + r + " with " + id(fld) + " := " + r + "." + id(fld) + " + (1 : Int) }\n"
}

// hoist: calls with an effect inside an expression are bound to temporaries first (in the order they occur, which is
// Go's evaluation order for the operands of `+`); the expression is rebuilt over the temporaries
func (t *htr) hoist(sc *hscope, e ast.Expr, c *hcont, ind string, n *int) (string, ast.Expr) {
	switch x := e.(type) {
	case *ast.TypeAssertExpr:
		pre, y := t.hoist(sc, x.X, c, ind, n)
		return pre, y
	case *ast.UnaryExpr:
		// `&S{…}` of a heap struct: a new cell at the allocator's pointer
		if cl, ok := x.X.(*ast.CompositeLit); ok && x.Op == token.AND {
			sn := typeStr(cl.Type)
			if _, ok := heapStructs[sn]; ok {
				if txt, ok := t.allocCell(sc, cl); ok {
					*n++
					tmp := fmt.Sprintf("t%d_", *n)
					sc.declare(tmp, "*"+sn)
					return ind + "let " + tmp + " := " + av(sn) + "\n" + ind + "let " + hv(sn) + " := " + heapTy(sn) + ".set " + hv(sn) + " " + tmp + " " + txt + "\n" +
						ind + "let " + av(sn) + " := " + av(sn) + " + 1\n", ast.NewIdent(tmp)
				}
			}
		}
	case *ast.ParenExpr:
		pre, y := t.hoist(sc, x.X, c, ind, n)
		return pre, &ast.ParenExpr{X: y}
	case *ast.BinaryExpr:
		p1, a := t.hoist(sc, x.X, c, ind, n)
		p2, b := t.hoist(sc, x.Y, c, ind, n)
		return p1 + p2, &ast.BinaryExpr{X: a, Op: x.Op, Y: b}
	case *ast.CallExpr:
		// the arguments first (Go evaluates them before the call), then the call itself if it has an effect
		pre := ""
		y := *x
		y.Args = nil
		for _, a := range x.Args {
			p1, a1 := t.hoist(sc, a, c, ind, n)
			pre += p1
			y.Args = append(y.Args, a1)
		}
		if pre != "" {
			p2, e2 := t.hoist(sc, &y, c, ind, n)
			return pre + p2, e2
		}
		if g := t.resolve(sc, x); g != nil && (len(g.outs) > 0 || g.fuel) {
			*n++
			tmp := fmt.Sprintf("t%d_", *n)
			rt := "?"
			for _, r := range g.results {
				if !strings.HasPrefix(r, "~") {
					rt = r
				}
			}
			sc.declare(tmp, rt)
			return t.bindCall(sc, []string{tmp}, x, g, c, ind), ast.NewIdent(tmp)
		}
	}
	return "", e
}

func (t *htr) assignH(sc *hscope, x *ast.AssignStmt, c *hcont, ind string) string {
	if len(x.Lhs) == 1 && len(x.Rhs) == 1 {
		if idt, ok := x.Lhs[0].(*ast.Ident); ok && idt.Name == "_" {
			if call, ok := x.Rhs[0].(*ast.CallExpr); ok {
				if fld, op := t.counterOp(sc, call); op == "next" {
					return t.counterStmt(sc, fld, op, ind)
				}
			}
		}
		if _, isCall := x.Rhs[0].(*ast.CallExpr); !isCall || x.Tok == token.ADD_ASSIGN {
			n := 0
			if pre, rhs := t.hoist(sc, x.Rhs[0], c, ind, &n); pre != "" {
				y := *x
				y.Rhs = []ast.Expr{rhs}
				return pre + t.assignH(sc, &y, c, ind)
			}
		}
	}
	if len(x.Rhs) == 1 {
		if call, ok := x.Rhs[0].(*ast.CallExpr); ok {
			if g := t.resolve(sc, call); g != nil && g.effectful() {
				// effects among the arguments first
				pre := ""
				n := 0
				y := *call
				y.Args = nil
				for _, a := range call.Args {
					p1, a1 := t.hoist(sc, a, c, ind, &n)
					pre += p1
					y.Args = append(y.Args, a1)
				}
				if pre != "" {
					z := *x
					z.Rhs = []ast.Expr{&y}
					return pre + t.assignH(sc, &z, c, ind)
				}
				var lhs []string
				for i, l := range x.Lhs {
					idt, ok := l.(*ast.Ident)
					if !ok {
						return ind + t.fail(x.Pos(), "assignment target") + "\n"
					}
					if idt.Name == "_" {
						lhs = append(lhs, "_")
						continue
					}
					if i < len(g.results) {
						sc.declare(idt.Name, strings.TrimPrefix(g.results[i], "~"))
					}
					lhs = append(lhs, id(idt.Name))
				}
				return t.bindCall(sc, lhs, call, g, c, ind)
			}
		}
	}
	if len(x.Lhs) != 1 || len(x.Rhs) != 1 {
		return ind + t.fail(x.Pos(), "multiple assignment") + "\n"
	}
	switch l := x.Lhs[0].(type) {
	case *ast.IndexExpr:
		if idt, ok := l.X.(*ast.Ident); ok && sc.vars[idt.Name] == "map[string]struct{}" {
			return ind + "let " + id(idt.Name) + " := Go.setInsert " + id(idt.Name) + " " + t.ex(sc, l.Index, "string") + "\n"
		}
	case *ast.Ident:
		ty := t.typeOf(sc, x.Rhs[0])
		if old, ok := sc.vars[l.Name]; ok && x.Tok != token.DEFINE {
			ty = old
		}
		rhs := t.ex(sc, x.Rhs[0], ty)
		switch x.Tok {
		case token.DEFINE, token.ASSIGN:
			sc.declare(l.Name, ty)
			return ind + "let " + id(l.Name) + " := " + rhs + "\n"
		case token.ADD_ASSIGN:
			return ind + "let " + id(l.Name) + " := " + id(l.Name) + " + " + rhs + "\n"
		}
	case *ast.SelectorExpr:
		if x.Tok != token.ASSIGN {
			break
		}
		if t.typeOf(sc, l) == "io.Writer" {
			return "" // `ds.w = w`: the writer is the world component w_
		}
		// p.f1.f2 = e   with p a heap pointer
		var path []string
		var base ast.Expr = l
		for {
			se, ok := base.(*ast.SelectorExpr)
			if !ok {
				return ind + t.fail(x.Pos(), "assignment through a non-pointer") + "\n"
			}
			path = append([]string{se.Sel.Name}, path...)
			base = se.X
			if isHeapPtr(t.typeOf(sc, base)) {
				break
			}
		}
		hs := heapStructOf(t.typeOf(sc, base))
		pre := ""
		{
			n := 0
			p1, r1 := t.hoist(sc, x.Rhs[0], c, ind, &n)
			if p1 != "" {
				pre = p1
				x = &ast.AssignStmt{Lhs: x.Lhs, Tok: x.Tok, Rhs: []ast.Expr{r1}}
			}
		}
		p := t.ex(sc, base, t.typeOf(sc, base))
		rhs := t.ex(sc, x.Rhs[0], t.typeOf(sc, l))
		cur := "(" + hv(hs) + " " + p + ")"
		// build nested `with`
		var build func(obj string, fields []string) string
		build = func(obj string, fields []string) string {
			if len(fields) == 1 {
				return "{ " + obj + " with " + id(fields[0]) + " := " + rhs + " }"
			}
			return "{ " + obj + " with " + id(fields[0]) + " := " + build(obj+"."+id(fields[0]), fields[1:]) + " }"
		}
		return pre + ind + "let " + hv(hs) + " := " + heapTy(hs) + ".set " + hv(hs) + " " + p + " " + build(cur, path) + "\n"
	}
	return ind + t.fail(x.Pos(), "assignment") + "\n"
}

// ---------- output ----------

func (t *htr) render() string {
	var b strings.Builder
	b.WriteString("-- GENERATED by /verif/translate (heap mode, heap.go) from /repo's sources on every run of a check; do not edit.\n")
	b.WriteString("-- Pointer code of gtree translated statement by statement over an explicit heap: `*Node` is a `Go.Ptr`, `p.f` is\n-- `(h_ p).f`, an assignment through a pointer is `Heap.set`; recursion and three-clause loops are bounded by fuel\n-- (`none` = bound reached).  `Lemmas/HeapGrower.lean` relates these definitions to the hand-written model.\n")
	b.WriteString("import Gtree.Generated.Source\nimport Gtree.Go.Heap\nimport Gtree.Go.OS\nset_option linter.unusedVariables false\nnamespace Gtree.SrcH\nopen Gtree\n\n")
	if len(t.errs) > 0 {
		b.WriteString("-- the translator met constructs it does not translate:\n")
		for _, e := range t.errs {
			b.WriteString("--   " + e + "\n")
		}
	}
	var hs []string
	for s := range heapStructs {
		hs = append(hs, s)
	}
	sort.Strings(hs)
	for _, s := range hs {
		b.WriteString("/-- a heap cell: the fields of `" + s + "` (pointers are `Go.Ptr`, 0 = nil) -/\nstructure " + cellOf(s) + " where\n")
		for _, f := range t.structs[s] {
			b.WriteString("  " + id(f[0]) + " : " + t.leanType(f[1]) + "\n")
		}
		b.WriteString("\n/-- the heap of `" + s + "` cells: every pointer has a cell (what an unallocated pointer holds is unconstrained) -/\nabbrev " + heapTy(s) + " := Go.Ptr → " + cellOf(s) + "\n")
		b.WriteString("/-- an assignment through the pointer `p` -/\ndef " + heapTy(s) + ".set (h : " + heapTy(s) + ") (p : Go.Ptr) (c : " + cellOf(s) + ") : " + heapTy(s) + " := fun q => if q = p then c else h q\n\n")
	}
	var vs []string
	for s := range heapValueStructs {
		vs = append(vs, s)
	}
	sort.Strings(vs)
	emitted := map[string]bool{}
	for len(emitted) < len(vs) {
		progress := false
		for _, s := range vs {
			if emitted[s] {
				continue
			}
			ready := true
			for _, f := range t.structs[s] {
				for _, o := range vs {
					if o != s && !emitted[o] && strings.TrimPrefix(f[1], "*") == o {
						ready = false
					}
				}
			}
			if !ready {
				continue
			}
			b.WriteString("structure " + s + " where\n")
			nf := 0
			for _, f := range t.structs[s] {
				if t.leanType(f[1]) != "untranslatable" {
					nf++
				}
			}
			if nf == 0 {
				b.WriteString("  mk ::\n")
			}
			for _, f := range t.structs[s] {
				if t.leanType(f[1]) == "untranslatable" {
					continue // an io.Writer, …: not part of the translated state
				}
				b.WriteString("  " + id(f[0]) + " : " + t.leanType(f[1]) + "\n")
			}
			b.WriteString("\n")
			emitted[s], progress = true, true
		}
		if !progress {
			t.errs = append(t.errs, "value structs depend on each other in a cycle")
			break
		}
	}
	// functions in dependency order, one module per group of source files: a construct outside the subset then breaks
	// only the module of its own group (and the lemmas and properties that import it)
	var names []string
	for k := range t.fns {
		names = append(names, k)
	}
	sort.Strings(names)
	done := map[string]bool{}
	var order []string
	var visit func(k string, stack map[string]bool)
	visit = func(k string, stack map[string]bool) {
		if done[k] || stack[k] {
			return
		}
		stack[k] = true
		var cs []string
		for c := range t.fns[k].calls {
			cs = append(cs, c)
		}
		sort.Strings(cs)
		for _, c := range cs {
			visit(c, stack)
		}
		done[k] = true
		order = append(order, k)
	}
	for _, k := range names {
		visit(k, map[string]bool{})
	}
	t.modules = map[string]string{}
	bodies := map[string]*strings.Builder{}
	imports := map[string]map[string]bool{}
	for _, k := range order {
		f := t.fns[k]
		g := groupOf(f.file)
		if bodies[g] == nil {
			bodies[g] = &strings.Builder{}
			imports[g] = map[string]bool{}
		}
		for c := range f.calls {
			if cg := groupOf(t.fns[c].file); cg != g {
				imports[g][cg] = true
			}
		}
		bodies[g].WriteString(t.function(f))
		bodies[g].WriteString("\n")
	}
	if bodies["Core"] == nil {
		bodies["Core"] = &strings.Builder{}
		imports["Core"] = map[string]bool{}
	}
	var groups []string
	for g := range bodies {
		groups = append(groups, g)
	}
	sort.Strings(groups)
	for _, g := range groups {
		var m strings.Builder
		m.WriteString("-- GENERATED by /verif/translate (heap mode, heap.go) from /repo's sources on every run of a check; do not edit.\n")
		if g == "Core" {
			m.WriteString(b.String())
		} else {
			m.WriteString("import Gtree.Generated.Heap.Core\n")
			var is []string
			for i := range imports[g] {
				if i != "Core" {
					is = append(is, i)
				}
			}
			sort.Strings(is)
			for _, i := range is {
				m.WriteString("import Gtree.Generated.Heap." + i + "\n")
			}
			m.WriteString("set_option linter.unusedVariables false\nnamespace Gtree.SrcH\nopen Gtree\n\n")
		}
		m.WriteString(bodies[g].String())
		m.WriteString("end Gtree.SrcH\n")
		t.modules[g] = m.String()
	}
	var all strings.Builder
	all.WriteString("-- GENERATED by /verif/translate (heap mode): every module of the heap-mode translation\n")
	for _, g := range groups {
		all.WriteString("import Gtree.Generated.Heap." + g + "\n")
	}
	return all.String()
}

// groupOf: the module a source file's functions are generated into
func groupOf(file string) string {
	switch file {
	case "node.go", "file_considerer.go":
		return "Core"
	case "simple_tree_grower.go":
		return "Grower"
	case "simple_tree_mkdirer.go":
		return "Mkdir"
	case "simple_tree_walker.go":
		return "Walk"
	case "simple_tree_spreader.go":
		return "Spread"
	case "simple_tree_grow_spreader.go":
		return "GrowSpread"
	case "stack.go":
		return "Builder"
	case "tree_handler_programmably.go":
		return "Arena"
	case "wasm_tree_grower.go", "wasm_tree_spreader.go":
		return "Wasm"
	case "simple_tree_verifier.go":
		return "Verify"
	}
	return "Misc"
}

func tyParams(f *hfn) string {
	if f.usesCB {
		return " {σ : Type}"
	}
	return ""
}

func (t *htr) function(f *hfn) string {
	var b strings.Builder
	sc := t.scopeOf(f)
	b.WriteString(fmt.Sprintf("/-- %s: `%s` -/\n", f.file, f.key))
	var sig strings.Builder
	if f.recvName != "" && f.recvType != "*stack" {
		sig.WriteString(" (" + id(f.recvName) + " : " + t.leanType(f.recvType) + ")")
	}
	for _, p := range f.params {
		if p[1] == "io.Writer" {
			continue // the writer is the world component w_
		}
		sig.WriteString(" (" + id(p[0]) + " : " + t.leanType(p[1]) + ")")
	}
	var rts []string
	for _, o := range f.outs() {
		switch o {
		case "h_":
			rts = append(rts, "Heap")
		case "hj_":
			rts = append(rts, "HeapJ")
		case "alj_":
			rts = append(rts, "Go.Ptr")
		case "fs_":
			rts = append(rts, "FS")
		case "w_":
			rts = append(rts, "Go.Writer")
		case "stk_":
			rts = append(rts, "(List Go.Ptr)")
		case "cbs_":
			rts = append(rts, "σ")
		case "al_":
			rts = append(rts, "Go.Ptr")
		case "idx_":
			rts = append(rts, "Int")
		case id(f.mutParam):
			rts = append(rts, "(List Bytes)")
		default:
			rts = append(rts, t.leanType(f.recvType)) // the receiver, returned with its counters
		}
	}
	for _, r := range f.results {
		if r == "*stack" {
			continue // `return s`: the receiver, for chaining
		}
		rts = append(rts, t.leanType(r))
	}
	rt := "Unit"
	if len(rts) > 0 {
		rt = strings.Join(rts, " × ")
	}
	if f.fuel {
		rt = "Option (" + rt + ")"
	}
	c := &hcont{
		retRaw: func(v string) string { return v },
		none:   func() string { return "none" },
		fall:   func(*hscope) string { return t.fnValue(f, nil) },
	}
	fsig := ""
	if f.usesJ || f.mutatesJ {
		fsig += " (hj_ : HeapJ)"
	}
	if f.allocsJ {
		fsig += " (alj_ : Go.Ptr)"
	}
	if f.usesFS || f.writesFS {
		fsig = " (fs_ : FS)"
	}
	if f.usesCB {
		fsig += " (cbs_ : σ)"
	}
	if f.writesW {
		fsig += " (w_ : Go.Writer)"
	}
	if f.usesStk || f.writesStk {
		fsig += " (stk_ : List Go.Ptr)"
	}
	if f.allocs {
		fsig += " (al_ : Go.Ptr)"
	}
	if f.usesIdx {
		fsig += " (idx_ : Int)"
	}
	if f.rec {
		// a recursive function: structural recursion on the fuel
		b.WriteString("def " + leanFn(f) + tyParams(f) + " (fuel_ : Nat) (h_ : Heap)" + fsig + sig.String() + " : " + rt + " :=\n")
		b.WriteString("  match fuel_ with\n  | 0 => none\n  | fuel_ + 1 =>\n")
		b.WriteString(t.seq(sc, f.decl.Body.List, c, "    "))
		return b.String()
	}
	if f.fuel {
		b.WriteString("def " + leanFn(f) + tyParams(f) + " (fuel_ : Nat) (h_ : Heap)" + fsig + sig.String() + " : " + rt + " :=\n")
	} else {
		b.WriteString("def " + leanFn(f) + tyParams(f) + " (h_ : Heap)" + fsig + sig.String() + " : " + rt + " :=\n")
	}
	b.WriteString(t.seq(sc, f.decl.Body.List, c, "  "))
	return b.String()
}
