// Command translate regenerates Gtree/Generated/Source.lean from /repo's current sources: a mechanical,
// statement-by-statement translation of a list of pure (string / integer / boolean) functions of gtree into
// Lean 4 definitions, so that the theorems relating them to the hand-written model (Lemmas/SourceRefines.lean)
// are re-checked against what the code says now.
//
// The translated subset of Go:  string, int, uint, bool, error, pointers to a struct of such fields (nil = none);
// `:=`, `=`, `+=`, `var x T`, field assignment through a pointer receiver, `if` (with init statement), `if/else`,
// `switch x { case c: … }`, `for _, x := range <package-level slice>`, `continue`, `break`, `return`;
// calls of strings.*, len, conversions between integer types, other translated functions and methods;
// `_, ok := m[k]` on a package-level set; `s[i:j]`, `xs[i]`; composite literals `&T{…}`.
// Lock/Unlock/RLock/RUnlock calls (and their defers) are dropped: the translation is of the sequential meaning.
// Anything else makes the translator emit a definition that does not compile (`untranslatable`), which breaks the
// proof obligations that rest on the translation.
//
// Shape of the output: pure `let`/`if` expressions (no monads).  An assignment is a shadowing `let`; an `if` whose
// branches only assign becomes `let x := if c then … else x`; an `if` one of whose branches always leaves (return /
// continue / break) becomes `if c then <branch> else <rest>`; otherwise the rest is placed in both branches.  A range
// loop becomes `Go.forRange xs state (fun x state => body)` with `Go.Ctl.next / brk / ret`.  A method that assigns to
// fields of its pointer receiver takes the receiver and returns it with the results.
package main

import (
	"flag"
	"fmt"
	"go/ast"
	"go/parser"
	"go/token"
	"os"
	"path/filepath"
	"sort"
	"strconv"
	"strings"
)

type target struct {
	file string // relative to the repository
	fn   string // "Recv.method" or "func"
}

// what is translated (order irrelevant; dependencies are sorted)
var targets = []target{
	{"markdown/parser.go", "Parser.Parse"},
	{"markdown/parser.go", "Parser.isBlank"},
	{"markdown/parser.go", "Parser.separateRow"},
	{"markdown/parser.go", "Parser.validateSpaces"},
	{"markdown/parser.go", "Parser.calculateHierarchy"},
	{"markdown/markdown.go", "IsSymbol"},
	{"input_spliter.go", "isRootBlockBeginning"},
	{"input_spliter.go", "isSharpRootRow"},
	{"node_generator.go", "nodeGenerator.handleErr"},
	{"node.go", "Node.hasChild"},
	{"node.go", "Node.isRoot"},
	{"node.go", "Node.findChildByText"},
	{"file_considerer.go", "fileConsiderer.isFile"},
	{"simple_tree_verifier.go", "defaultVerifierSimple.handleErr"},
	{"node.go", "Node.validatePath"},
	{"node.go", "Node.path"},
	{"node.go", "Node.branch"},
	{"simple_tree_walker.go", "WalkerNode.Name"},
	{"simple_tree_walker.go", "WalkerNode.Branch"},
	{"simple_tree_walker.go", "WalkerNode.Row"},
	{"simple_tree_walker.go", "WalkerNode.Level"},
	{"simple_tree_walker.go", "WalkerNode.Path"},
	{"simple_tree_walker.go", "WalkerNode.HasChild"},
	{"tree_handler_programmably.go", "validateTreeRoot"},
	{"node.go", "Node.isDirectlyUnder"},
	{"node.go", "Node.setBranch"},
	{"config.go", "newConfig"},
	{"config.go", "newConfigWithoutEncode"},
	{"config.go", "WithBranchFormatIntermedialNode"},
	{"config.go", "WithBranchFormatLastNode"},
	{"config.go", "WithMassive"},
	{"config.go", "WithEncodeJSON"},
	{"config.go", "WithEncodeYAML"},
	{"config.go", "WithEncodeTOML"},
	{"config.go", "WithDryRun"},
	{"config.go", "WithFileExtensions"},
	{"config.go", "WithTargetDir"},
	{"config.go", "WithStrictVerify"},
	{"config.go", "WithNoUseIterOfSimpleOutput"},
}

// constants of these files are needed too (no function of them is translated)
var extraFiles = []string{"simple_tree_spreader.go", "simple_tree_mkdirer.go"}

// pointers to these structs are never nil where the translated functions see them, also as results
var plainPtr = map[string]bool{"config": true}

// the functional-option type: `type Option func(*config)`; a function returning it is translated uncurried,
// `WithX(args)(c)` as `WithX args c : config`
const optionType = "Option"
const optionLean = "(Option (config → config))"

// struct types that are handled through pointers which the translated functions never find nil (a nil
// dereference is a panic, outside the translation): `*Node` parameters and receivers are plain `Node` values;
// a `*Node` result is `Option Node`.
var derefStructs = map[string]bool{"Node": true, "config": true}

// struct types whose values are translated (all their fields of supported type; others dropped)
var structFiles = map[string]string{"Parser": "markdown/parser.go", "Markdown": "markdown/markdown.go", "inputFormatError": "node_generator.go", "nodeGenerator": "node_generator.go",
	"Node": "node.go", "branch": "node.go", "fileConsiderer": "file_considerer.go",
	"defaultVerifierSimple": "simple_tree_verifier.go", "verifyError": "simple_tree_verifier.go",
	"WalkerNode": "simple_tree_walker.go", "config": "config.go", "branchFormat": "simple_tree_grower.go"}

type fnInfo struct {
	optCtor bool         // returns a functional option: translated uncurried
	lit     *ast.FuncLit // the option's function literal
	decl    *ast.FuncDecl
	recv    string // receiver type name ("" for functions)
	rname   string // receiver variable name
	name    string
	mutates bool
	deps    []string
	file    string
}

type tr struct {
	fset       *token.FileSet
	files      map[string]*ast.File
	consts     map[string]string   // name -> Lean expression
	constType  map[string]string   // name -> Lean type
	sentinels  map[string]bool     // error sentinel variables
	sets       map[string][]string // package-level map[string]struct{}: keys (Lean expressions)
	slices     map[string][]string // package-level []string
	structs    map[string][][2]string
	errStruct  map[string]bool // struct types used as errors (have an Error method)
	fns        map[string]*fnInfo
	errs       []string
	leanNames  map[string]string
	usesErrorf bool
	intTypes   map[string]bool // named integer types (`type encode int`)
}

var leanKeywords = map[string]bool{"at": true, "from": true, "end": true, "then": true, "do": true, "fun": true, "show": true, "have": true, "in": true, "with": true, "match": true, "let": true, "if": true, "else": true, "open": true, "where": true, "by": true, "instance": true, "structure": true, "def": true, "theorem": true, "namespace": true, "section": true, "variable": true, "universe": true, "import": true, "prefix": true, "infix": true, "notation": true, "macro": true, "syntax": true, "deriving": true, "extends": true, "class": true, "inductive": true, "mutual": true, "private": true, "protected": true, "partial": true, "unsafe": true, "local": true, "attribute": true, "export": true, "calc": true, "using": true, "suffices": true, "obtain": true, "return": true, "mut": true, "for": true, "unless": true, "try": true, "catch": true, "finally": true, "Type": true, "Prop": true, "Sort": true, "nil": true}

func id(n string) string {
	if leanKeywords[n] {
		return n + "_"
	}
	return n
}

func (t *tr) fail(pos token.Pos, format string, a ...any) string {
	msg := fmt.Sprintf("%s: ", t.fset.Position(pos)) + fmt.Sprintf(format, a...)
	t.errs = append(t.errs, msg)
	return "(untranslatable " + strconv.Quote(msg) + ")"
}

func goTypeToLean(t *tr, e ast.Expr) (string, bool) {
	switch x := e.(type) {
	case *ast.Ident:
		switch x.Name {
		case "string":
			return "Bytes", true
		case "int", "uint", "int64", "uint64":
			return "Int", true
		case "bool":
			return "Bool", true
		case "error":
			return "Option Err", true
		}
		if _, ok := structFiles[x.Name]; ok {
			return x.Name, true
		}
		if t.intTypes[x.Name] {
			return "Int", true
		}
		if x.Name == optionType {
			return optionLean, true
		}
	case *ast.StarExpr:
		if id, ok := x.X.(*ast.Ident); ok {
			if _, ok := structFiles[id.Name]; ok {
				if derefStructs[id.Name] {
					return id.Name, true
				}
				return "Option " + id.Name, true
			}
		}
	case *ast.ArrayType:
		if x.Len == nil {
			if el, ok := goTypeToLean(t, x.Elt); ok {
				return "List " + el, true
			}
		}
	case *ast.Ellipsis:
		if el, ok := goTypeToLean(t, x.Elt); ok {
			return "List " + el, true // a variadic parameter is the slice of its arguments
		}
	}
	return "", false
}

// resultType: like goTypeToLean, but a pointer to a struct is optional (nil = none) also for derefStructs
func resultType(t *tr, e ast.Expr) (string, bool) {
	if st, ok := e.(*ast.StarExpr); ok {
		if id, ok := st.X.(*ast.Ident); ok && derefStructs[id.Name] && !plainPtr[id.Name] {
			return "Option " + id.Name, true
		}
	}
	return goTypeToLean(t, e)
}

func isSelfPointer(e ast.Expr, name string) bool {
	st, ok := e.(*ast.StarExpr)
	if !ok {
		return false
	}
	id, ok := st.X.(*ast.Ident)
	return ok && id.Name == name
}

func bytesLit(s string) string {
	if len(s) == 0 {
		return "([] : Bytes)"
	}
	parts := make([]string, len(s))
	for i := 0; i < len(s); i++ {
		parts[i] = fmt.Sprintf("0x%02X", s[i])
	}
	return "([" + strings.Join(parts, ", ") + "] : Bytes)"
}

func main() {
	repo := flag.String("repo", "/repo", "repository root")
	out := flag.String("out", "", "output Lean file")
	heapOut := flag.String("heapout", "", "output Lean file of the heap-mode translation (pointer code)")
	flag.Parse()
	if *heapOut != "" {
		for _, e := range heapMain(*repo, *heapOut) {
			// not "translate:" — a construct outside the heap mode's subset makes the module of its group fail to
			// compile, which breaks the obligations of the properties that import it, and only those
			fmt.Fprintln(os.Stderr, "translate-heap (the module does not compile):", e)
		}
	}
	t := &tr{fset: token.NewFileSet(), files: map[string]*ast.File{}, consts: map[string]string{}, constType: map[string]string{}, sentinels: map[string]bool{}, sets: map[string][]string{}, slices: map[string][]string{}, structs: map[string][][2]string{}, errStruct: map[string]bool{}, fns: map[string]*fnInfo{}, intTypes: map[string]bool{}}
	need := map[string]bool{}
	for _, f := range extraFiles {
		need[f] = true
	}
	for _, tg := range targets {
		need[tg.file] = true
	}
	for _, f := range structFiles {
		need[f] = true
	}
	var fileNames []string
	for f := range need {
		fileNames = append(fileNames, f)
	}
	sort.Strings(fileNames)
	for _, f := range fileNames {
		af, err := parser.ParseFile(t.fset, filepath.Join(*repo, f), nil, parser.ParseComments)
		if err != nil {
			t.errs = append(t.errs, err.Error())
			continue
		}
		t.files[f] = af
		// named integer types first: struct fields of such a type are part of the translated state
		for _, d := range af.Decls {
			if gd, ok := d.(*ast.GenDecl); ok && gd.Tok == token.TYPE {
				for _, sp := range gd.Specs {
					if ts, ok := sp.(*ast.TypeSpec); ok {
						if bt, ok := ts.Type.(*ast.Ident); ok && (bt.Name == "int" || bt.Name == "uint") {
							t.intTypes[ts.Name.Name] = true
						}
					}
				}
			}
		}
	}
	for _, f := range fileNames {
		if af := t.files[f]; af != nil {
			t.collectDecls(f, af)
		}
	}
	for _, tg := range targets {
		key := tg.fn
		if _, ok := t.fns[key]; !ok {
			t.errs = append(t.errs, fmt.Sprintf("function %s not found in %s", tg.fn, tg.file))
		}
	}
	wanted := map[string]bool{}
	for _, tg := range targets {
		wanted[tg.fn] = true
	}
	for k := range t.fns {
		if !wanted[k] {
			delete(t.fns, k)
		}
	}
	t.computeMutates()
	src := t.render()
	if *out == "" {
		fmt.Print(src)
	} else {
		os.MkdirAll(filepath.Dir(*out), 0o755)
		old, _ := os.ReadFile(*out)
		if string(old) != src {
			if err := os.WriteFile(*out, []byte(src), 0o644); err != nil {
				fmt.Fprintln(os.Stderr, err)
				os.Exit(1)
			}
		}
	}
	for _, e := range t.errs {
		fmt.Fprintln(os.Stderr, "translate:", e)
	}
}

func recvOf(fd *ast.FuncDecl) (typ, name string) {
	if fd.Recv == nil || len(fd.Recv.List) == 0 {
		return "", ""
	}
	f := fd.Recv.List[0]
	e := f.Type
	if s, ok := e.(*ast.StarExpr); ok {
		e = s.X
	}
	if idt, ok := e.(*ast.Ident); ok {
		typ = idt.Name
	}
	if len(f.Names) > 0 {
		name = f.Names[0].Name
	}
	return
}

func (t *tr) collectDecls(file string, af *ast.File) {
	for _, d := range af.Decls {
		switch x := d.(type) {
		case *ast.FuncDecl:
			rt, rn := recvOf(x)
			key := x.Name.Name
			if rt != "" {
				key = rt + "." + x.Name.Name
			}
			if x.Name.Name == "Error" && rt != "" {
				t.errStruct[rt] = true
			}
			fi := &fnInfo{decl: x, recv: rt, rname: rn, name: x.Name.Name, file: file}
			if rt == "" && x.Type.Results != nil && len(x.Type.Results.List) == 1 && x.Body != nil && len(x.Body.List) == 1 {
				if rid, ok := x.Type.Results.List[0].Type.(*ast.Ident); ok && rid.Name == optionType {
					if rs, ok := x.Body.List[0].(*ast.ReturnStmt); ok && len(rs.Results) == 1 {
						if fl, ok := rs.Results[0].(*ast.FuncLit); ok && len(fl.Type.Params.List) == 1 && len(fl.Type.Params.List[0].Names) == 1 {
							fi.optCtor, fi.lit = true, fl
							fi.recv, fi.rname, fi.mutates = "config", fl.Type.Params.List[0].Names[0].Name, true
						}
					}
				}
			}
			t.fns[key] = fi
		case *ast.GenDecl:
			iotaBlock := false
			for si, sp := range x.Specs {
				switch s := sp.(type) {
				case *ast.ValueSpec:
					// a constant block counting with iota: `c0 T = iota; c1; c2 …`
					if x.Tok == token.CONST && len(s.Names) == 1 {
						if len(s.Values) == 1 {
							if idt, ok := s.Values[0].(*ast.Ident); ok && idt.Name == "iota" {
								iotaBlock = true
							} else {
								iotaBlock = false
							}
						}
						if iotaBlock && (len(s.Values) == 0 || len(s.Values) == 1) {
							if _, isIota := func() (int, bool) {
								if len(s.Values) == 0 {
									return 0, true
								}
								idt, ok := s.Values[0].(*ast.Ident)
								return 0, ok && idt.Name == "iota"
							}(); isIota {
								t.consts[s.Names[0].Name] = strconv.Itoa(si)
								t.constType[s.Names[0].Name] = "Int"
								continue
							}
						}
					}
					for i, n := range s.Names {
						if i >= len(s.Values) {
							continue
						}
						v := s.Values[i]
						switch vv := v.(type) {
						case *ast.BasicLit:
							if vv.Kind == token.STRING {
								str, _ := strconv.Unquote(vv.Value)
								t.consts[n.Name] = bytesLit(str)
								t.constType[n.Name] = "Bytes"
							} else if vv.Kind == token.INT {
								t.consts[n.Name] = vv.Value
								t.constType[n.Name] = "Int"
							}
						case *ast.CallExpr:
							if se, ok := vv.Fun.(*ast.SelectorExpr); ok {
								if p, ok := se.X.(*ast.Ident); ok && p.Name == "errors" && se.Sel.Name == "New" {
									t.sentinels[n.Name] = true
								}
							}
						case *ast.CompositeLit:
							switch ty := vv.Type.(type) {
							case *ast.MapType:
								if st, ok := ty.Value.(*ast.StructType); ok && (st.Fields == nil || len(st.Fields.List) == 0) {
									var keys []string
									for _, el := range vv.Elts {
										if kv, ok := el.(*ast.KeyValueExpr); ok {
											keys = append(keys, t.expr(nil, kv.Key))
										}
									}
									t.sets[n.Name] = keys
								}
							case *ast.ArrayType:
								if idt, ok := ty.Elt.(*ast.Ident); ok && idt.Name == "string" && ty.Len == nil {
									var els []string
									for _, el := range vv.Elts {
										els = append(els, t.expr(nil, el))
									}
									t.slices[n.Name] = els
								}
							}
						}
					}
				case *ast.TypeSpec:
					if bt, ok := s.Type.(*ast.Ident); ok && (bt.Name == "int" || bt.Name == "uint") {
						t.intTypes[s.Name.Name] = true
					}
					if st, ok := s.Type.(*ast.StructType); ok {
						if structFiles[s.Name.Name] == file {
							var fields [][2]string
							for _, f := range st.Fields.List {
								if isSelfPointer(f.Type, s.Name.Name) {
									continue // a parent link: the translation is of the tree downwards
								}
								lt, ok := goTypeToLean(t, f.Type)
								if !ok {
									continue // sync.RWMutex, *Parser, ...: not part of the translated state
								}
								for _, n := range f.Names {
									fields = append(fields, [2]string{n.Name, lt})
								}
							}
							t.structs[s.Name.Name] = fields
						}
					}
				}
			}
		}
	}
}

// assignsRecvField reports whether the body assigns to a field of the receiver or calls a mutating method on it.
func (t *tr) computeMutates() {
	changed := true
	for changed {
		changed = false
		for _, f := range t.fns {
			if f.mutates || f.recv == "" || f.decl.Body == nil || f.optCtor {
				continue
			}
			m := false
			ast.Inspect(f.decl.Body, func(n ast.Node) bool {
				switch x := n.(type) {
				case *ast.AssignStmt:
					for _, l := range x.Lhs {
						if se, ok := l.(*ast.SelectorExpr); ok {
							if idt, ok := se.X.(*ast.Ident); ok && idt.Name == f.rname {
								m = true
							}
							if in, ok := se.X.(*ast.SelectorExpr); ok {
								if idt, ok := in.X.(*ast.Ident); ok && idt.Name == f.rname {
									m = true
								}
							}
						}
					}
				case *ast.IncDecStmt:
					if se, ok := x.X.(*ast.SelectorExpr); ok {
						if idt, ok := se.X.(*ast.Ident); ok && idt.Name == f.rname {
							m = true
						}
					}
				case *ast.CallExpr:
					if se, ok := x.Fun.(*ast.SelectorExpr); ok {
						if idt, ok := se.X.(*ast.Ident); ok && idt.Name == f.rname {
							if g, ok := t.fns[f.recv+"."+se.Sel.Name]; ok && g.mutates {
								m = true
							}
						}
					}
				}
				return true
			})
			if m {
				f.mutates = true
				changed = true
			}
		}
	}
}

// ---------- expressions ----------

func (sc *scope) clone() *scope {
	return &scope{fn: sc.fn, vars: copyMap(sc.vars), inLoop: sc.inLoop, state: sc.state, opaque: sc.opaque, funcVars: sc.funcVars}
}

type scope struct {
	opaque   map[string]bool // identifiers of types outside the translation (context.Context): statements mentioning them are dropped
	funcVars map[string]bool // variables holding a functional option
	fn       *fnInfo
	vars     map[string]bool // declared in the function so far (any block)
	inLoop   bool
	state    []string // loop state variables
}

func (t *tr) callName(sc *scope, fun ast.Expr) (kind, name string) {
	switch f := fun.(type) {
	case *ast.Ident:
		return "func", f.Name
	case *ast.SelectorExpr:
		// a method of the struct a field holds: wn.origin.isRoot()
		if inner, ok := f.X.(*ast.SelectorExpr); ok && sc != nil && sc.fn != nil {
			if base, ok := inner.X.(*ast.Ident); ok {
				owner := ""
				if base.Name == sc.fn.rname {
					owner = sc.fn.recv
				} else {
					owner = paramStruct(sc.fn, base.Name)
				}
				for _, fld := range t.structs[owner] {
					if fld[0] == inner.Sel.Name {
						if _, ok := structFiles[fld[1]]; ok {
							return "pmethod:" + fld[1], f.Sel.Name
						}
					}
				}
			}
		}
		if p, ok := f.X.(*ast.Ident); ok {
			if p.Name == "strings" {
				return "strings", f.Sel.Name
			}
			if p.Name == "fmt" && f.Sel.Name == "Errorf" {
				return "errorf", ""
			}
			if p.Name == "fs" && f.Sel.Name == "ValidPath" {
				return "fsvalid", ""
			}
			if sc != nil && sc.fn != nil && p.Name == sc.fn.rname && sc.fn.recv != "" {
				return "method", f.Sel.Name
			}
			if sc != nil && sc.fn != nil {
				if ty := paramStruct(sc.fn, p.Name); ty != "" {
					return "pmethod:" + ty, f.Sel.Name
				}
			}
			if p.Name == "md" || p.Name == "markdown" {
				return "func", f.Sel.Name
			}
		}
	}
	return "", ""
}

// nilChecked: the pointer parameters a function compares with nil — those are `Option T` values, and
// `if x == nil { … return }` becomes a `match x with | none => … | some x => <rest>`
func nilChecked(f *fnInfo) map[string]bool {
	r := map[string]bool{}
	params := map[string]bool{}
	for _, p := range f.decl.Type.Params.List {
		if _, ok := p.Type.(*ast.StarExpr); ok {
			for _, n := range p.Names {
				params[n.Name] = true
			}
		}
	}
	ast.Inspect(f.decl.Body, func(n ast.Node) bool {
		be, ok := n.(*ast.BinaryExpr)
		if !ok || (be.Op != token.EQL && be.Op != token.NEQ) {
			return true
		}
		x, ok1 := be.X.(*ast.Ident)
		y, ok2 := be.Y.(*ast.Ident)
		if ok1 && ok2 && y.Name == "nil" && params[x.Name] {
			r[x.Name] = true
		}
		return true
	})
	return r
}

// isOptionSlice: the expression is a parameter of type []Option
func isOptionSlice(f *fnInfo, e ast.Expr) bool {
	idt, ok := e.(*ast.Ident)
	if !ok {
		return false
	}
	for _, p := range f.decl.Type.Params.List {
		if at, ok := p.Type.(*ast.ArrayType); ok {
			if el, ok := at.Elt.(*ast.Ident); ok && el.Name == optionType {
				for _, n := range p.Names {
					if n.Name == idt.Name {
						return true
					}
				}
			}
		}
	}
	return false
}

// mentionsOpaque: the statement uses an identifier whose type is outside the translation, or assigns to a
// struct field that is not part of the translated state
func (t *tr) mentionsOpaque(sc *scope, s ast.Stmt) bool {
	found := false
	ast.Inspect(s, func(n ast.Node) bool {
		switch x := n.(type) {
		case *ast.Ident:
			if sc.opaque[x.Name] {
				found = true
			}
		case *ast.AssignStmt:
			for _, l := range x.Lhs {
				if se, ok := l.(*ast.SelectorExpr); ok {
					if base, ok := se.X.(*ast.Ident); ok {
						owner := ""
						if sc.fn.rname == base.Name {
							owner = sc.fn.recv
						}
						if fields, ok := t.structs[owner]; ok && owner != "" {
							has := false
							for _, f := range fields {
								if f[0] == se.Sel.Name {
									has = true
								}
							}
							if !has {
								found = true
							}
						}
					}
				}
			}
		}
		return true
	})
	return found
}

// paramStruct: the struct type of a parameter declared as T or *T
func paramStruct(f *fnInfo, name string) string {
	for _, p := range f.decl.Type.Params.List {
		for _, n := range p.Names {
			if n.Name != name {
				continue
			}
			e := p.Type
			if st, ok := e.(*ast.StarExpr); ok {
				e = st.X
			}
			if id, ok := e.(*ast.Ident); ok {
				if _, ok := structFiles[id.Name]; ok {
					return id.Name
				}
			}
		}
	}
	return ""
}

var stringsFns = map[string]int{"HasPrefix": 2, "HasSuffix": 2, "Cut": 2, "Trim": 2, "TrimLeft": 2, "TrimRight": 2, "TrimPrefix": 2, "TrimSuffix": 2, "TrimSpace": 1, "Split": 2, "Count": 2, "ContainsAny": 2}

func (t *tr) expr(sc *scope, e ast.Expr) string {
	switch x := e.(type) {
	case *ast.ParenExpr:
		return "(" + t.expr(sc, x.X) + ")"
	case *ast.BasicLit:
		switch x.Kind {
		case token.STRING:
			s, err := strconv.Unquote(x.Value)
			if err != nil {
				return t.fail(x.Pos(), "string literal %s", x.Value)
			}
			return bytesLit(s)
		case token.INT:
			return "(" + x.Value + " : Int)"
		}
		return t.fail(x.Pos(), "literal %s", x.Value)
	case *ast.Ident:
		switch x.Name {
		case "nil":
			return "none"
		case "true", "false":
			return x.Name
		}
		if t.sentinels[x.Name] {
			return "(some Err." + x.Name + ")"
		}
		return id(x.Name)
	case *ast.SelectorExpr:
		if p, ok := x.X.(*ast.Ident); ok {
			if p.Name == "md" || p.Name == "markdown" {
				if t.sentinels[x.Sel.Name] {
					return "(some Err." + x.Sel.Name + ")"
				}
				return id(x.Sel.Name)
			}
			return id(p.Name) + "." + id(x.Sel.Name)
		}
		if inner, ok := x.X.(*ast.SelectorExpr); ok {
			return t.expr(sc, inner) + "." + id(x.Sel.Name)
		}
		return t.fail(x.Pos(), "selector")
	case *ast.UnaryExpr:
		if x.Op == token.NOT {
			return "(!" + t.expr(sc, x.X) + ")"
		}
		if x.Op == token.AND {
			if cl, ok := x.X.(*ast.CompositeLit); ok {
				return t.composite(sc, cl)
			}
		}
		if x.Op == token.SUB {
			return "(-" + t.expr(sc, x.X) + ")"
		}
		return t.fail(x.Pos(), "unary %s", x.Op)
	case *ast.BinaryExpr:
		a, b := t.expr(sc, x.X), t.expr(sc, x.Y)
		switch x.Op {
		case token.EQL:
			return "(" + a + " == " + b + ")"
		case token.NEQ:
			return "(" + a + " != " + b + ")"
		case token.LAND:
			return "(" + a + " && " + b + ")"
		case token.LOR:
			return "(" + a + " || " + b + ")"
		case token.LSS:
			return "(decide (" + a + " < " + b + "))"
		case token.LEQ:
			return "(decide (" + a + " ≤ " + b + "))"
		case token.GTR:
			return "(decide (" + a + " > " + b + "))"
		case token.GEQ:
			return "(decide (" + a + " ≥ " + b + "))"
		case token.ADD:
			return "(" + a + " + " + b + ")"
		case token.SUB:
			return "(" + a + " - " + b + ")"
		case token.MUL:
			return "(" + a + " * " + b + ")"
		case token.REM:
			return "(Go.mod " + a + " " + b + ")"
		case token.QUO:
			return "(Go.div " + a + " " + b + ")"
		}
		return t.fail(x.Pos(), "operator %s", x.Op)
	case *ast.IndexExpr:
		if lit, ok := x.Index.(*ast.BasicLit); ok && lit.Kind == token.INT {
			return "(Go.idx " + t.expr(sc, x.X) + " " + lit.Value + ")"
		}
		return t.fail(x.Pos(), "index expression")
	case *ast.SliceExpr:
		lo, hi := "0", ""
		if x.Low != nil {
			if lit, ok := x.Low.(*ast.BasicLit); ok && lit.Kind == token.INT {
				lo = lit.Value
			} else {
				return t.fail(x.Pos(), "slice bound")
			}
		}
		if lit, ok := x.High.(*ast.BasicLit); ok && lit.Kind == token.INT && !x.Slice3 {
			hi = lit.Value
		} else {
			return t.fail(x.Pos(), "slice bound")
		}
		return "(Go.slice " + t.expr(sc, x.X) + " " + lo + " " + hi + ")"
	case *ast.CompositeLit:
		// an error struct returned by value (`return verifyError{…}` where the result type is error)
		if idt, ok := x.Type.(*ast.Ident); ok && t.errStruct[idt.Name] {
			return t.composite(sc, x)
		}
		if idt, ok := x.Type.(*ast.Ident); ok {
			if _, ok := t.structs[idt.Name]; ok {
				return t.compositeV(sc, x, true)
			}
		}
		return t.fail(x.Pos(), "composite literal by value")
	case *ast.CallExpr:
		kind, name := t.callName(sc, x.Fun)
		var args []string
		for _, a := range x.Args {
			args = append(args, t.expr(sc, a))
		}
		switch kind {
		case "errorf":
			// fmt.Errorf(format, string arguments…): the error value is its format and arguments
			if len(args) >= 1 {
				t.usesErrorf = true
				return "(some (Err.Errorf " + args[0] + " [" + strings.Join(args[1:], ", ") + "]))"
			}
			return t.fail(x.Pos(), "fmt.Errorf")
		case "fsvalid":
			if len(args) == 1 {
				return "(Go.fs_ValidPath " + args[0] + ")"
			}
			return t.fail(x.Pos(), "fs.ValidPath")
		case "strings":
			if n, ok := stringsFns[name]; ok && n == len(args) {
				return "(Go.strings_" + name + " " + strings.Join(args, " ") + ")"
			}
			return t.fail(x.Pos(), "strings.%s", name)
		case "func":
			switch name {
			case "len":
				return "(Go.len " + args[0] + ")"
			case "uint", "int", "int64", "uint64":
				return args[0] // integers are unbounded in the translation; callers convert non-negative values only
			}
			if g, ok := t.fns[name]; ok && g.recv == "" {
				return "(" + id(name) + " " + strings.Join(args, " ") + ")"
			}
			return t.fail(x.Pos(), "call of %s", name)
		default:
			if strings.HasPrefix(kind, "pmethod:") {
				ty := strings.TrimPrefix(kind, "pmethod:")
				g, ok := t.fns[ty+"."+name]
				if !ok || g.mutates {
					return t.fail(x.Pos(), "method %s.%s is not translated (or assigns to its receiver)", ty, name)
				}
				recvExpr := t.expr(sc, x.Fun.(*ast.SelectorExpr).X)
				return "(" + ty + "." + id(name) + " " + recvExpr + strings.Join(append([]string{""}, args...), " ") + ")"
			}
		case "method":
			g, ok := t.fns[sc.fn.recv+"."+name]
			if !ok {
				return t.fail(x.Pos(), "method %s is not translated", name)
			}
			if g.mutates {
				return t.fail(x.Pos(), "call of the receiver-assigning method %s inside an expression", name)
			}
			return "(" + sc.fn.recv + "." + id(name) + " " + id(sc.fn.rname) + strings.Join(append([]string{""}, args...), " ") + ")"
		}
		return t.fail(x.Pos(), "call")
	}
	return t.fail(e.Pos(), "expression %T", e)
}

func (t *tr) zeroStruct(name string) string {
	var a []string
	for _, f := range t.structs[name] {
		v := zeroOf(f[1])
		if _, isStruct := t.structs[f[1]]; isStruct {
			v = t.zeroStruct(f[1])
		}
		a = append(a, id(f[0])+" := "+v)
	}
	return "({ " + strings.Join(a, ", ") + " } : " + name + ")"
}

func (t *tr) composite(sc *scope, cl *ast.CompositeLit) string {
	return t.compositeV(sc, cl, false)
}

func (t *tr) compositeV(sc *scope, cl *ast.CompositeLit, byValue bool) string {
	idt, ok := cl.Type.(*ast.Ident)
	if !ok {
		return t.fail(cl.Pos(), "composite literal type")
	}
	fields, ok := t.structs[idt.Name]
	if !ok {
		return t.fail(cl.Pos(), "composite literal of %s", idt.Name)
	}
	vals := map[string]string{}
	for _, el := range cl.Elts {
		kv, ok := el.(*ast.KeyValueExpr)
		if !ok {
			return t.fail(cl.Pos(), "positional composite literal")
		}
		vals[kv.Key.(*ast.Ident).Name] = t.expr(sc, kv.Value)
	}
	if t.errStruct[idt.Name] {
		var a []string
		for _, f := range fields {
			v, ok := vals[f[0]]
			if !ok {
				v = zeroOf(f[1])
			}
			a = append(a, v)
		}
		return "(some (Err." + idt.Name + " " + strings.Join(a, " ") + "))"
	}
	var a []string
	for _, f := range fields {
		v, ok := vals[f[0]]
		if !ok {
			v = zeroOf(f[1])
			if _, isStruct := t.structs[f[1]]; isStruct {
				v = t.zeroStruct(f[1])
			}
		}
		a = append(a, id(f[0])+" := "+v)
	}
	if byValue || derefStructs[idt.Name] {
		return "({ " + strings.Join(a, ", ") + " } : " + idt.Name + ")"
	}
	return "(some ({ " + strings.Join(a, ", ") + " } : " + idt.Name + "))"
}

func zeroOf(leanType string) string {
	switch {
	case leanType == "Bytes":
		return "([] : Bytes)"
	case leanType == "Int":
		return "(0 : Int)"
	case leanType == "Bool":
		return "false"
	case strings.HasPrefix(leanType, "Option "):
		return "none"
	case strings.HasPrefix(leanType, "List "):
		return "[]"
	}
	return "default"
}

// ---------- statements ----------

// leaves: every path through the statements ends in return / continue / break
func leaves(stmts []ast.Stmt) bool {
	if len(stmts) == 0 {
		return false
	}
	switch x := stmts[len(stmts)-1].(type) {
	case *ast.ReturnStmt:
		return true
	case *ast.BranchStmt:
		return x.Tok == token.CONTINUE || x.Tok == token.BREAK
	case *ast.IfStmt:
		if x.Else == nil {
			return false
		}
		var els []ast.Stmt
		switch e := x.Else.(type) {
		case *ast.BlockStmt:
			els = e.List
		case *ast.IfStmt:
			els = []ast.Stmt{e}
		}
		return leaves(x.Body.List) && leaves(els)
	case *ast.BlockStmt:
		return leaves(x.List)
	}
	return false
}

// assignedVars: variables (or the receiver, for field assignments) assigned — not declared — in the statements
func (t *tr) assignedVars(sc *scope, stmts []ast.Stmt, acc map[string]bool, declared map[string]bool) {
	for _, s := range stmts {
		switch x := s.(type) {
		case *ast.AssignStmt:
			for _, l := range x.Lhs {
				switch lv := l.(type) {
				case *ast.Ident:
					if lv.Name == "_" {
						continue
					}
					if x.Tok == token.DEFINE {
						declared[lv.Name] = true
					} else if !declared[lv.Name] {
						acc[lv.Name] = true
					}
				case *ast.SelectorExpr:
					if p, ok := lv.X.(*ast.Ident); ok && !declared[p.Name] {
						acc[p.Name] = true
					}
				}
			}
			// a call of a receiver-assigning method assigns the receiver
			if len(x.Rhs) == 1 {
				if ce, ok := x.Rhs[0].(*ast.CallExpr); ok {
					if k, n := t.callName(sc, ce.Fun); k == "method" {
						if g, ok := t.fns[sc.fn.recv+"."+n]; ok && g.mutates {
							acc[sc.fn.rname] = true
						}
					}
				}
			}
		case *ast.IncDecStmt:
			if lv, ok := x.X.(*ast.Ident); ok && !declared[lv.Name] {
				acc[lv.Name] = true
			}
		case *ast.ExprStmt:
			// opt(c) assigns c (any call of a local variable with one identifier argument is taken as such)
			if ce, ok := x.X.(*ast.CallExpr); ok && len(ce.Args) == 1 {
				if fv, ok := ce.Fun.(*ast.Ident); ok && (declared[fv.Name] || (sc != nil && sc.funcVars[fv.Name])) {
					if arg, ok := ce.Args[0].(*ast.Ident); ok && !declared[arg.Name] {
						acc[arg.Name] = true
					}
				}
			}
		case *ast.DeclStmt:
			if gd, ok := x.Decl.(*ast.GenDecl); ok {
				for _, sp := range gd.Specs {
					if vs, ok := sp.(*ast.ValueSpec); ok {
						for _, n := range vs.Names {
							declared[n.Name] = true
						}
					}
				}
			}
		case *ast.IfStmt:
			d2 := copyMap(declared)
			if x.Init != nil {
				t.assignedVars(sc, []ast.Stmt{x.Init}, acc, d2)
			}
			t.assignedVars(sc, x.Body.List, acc, copyMap(d2))
			if x.Else != nil {
				t.assignedVars(sc, []ast.Stmt{x.Else}, acc, copyMap(d2))
			}
		case *ast.BlockStmt:
			t.assignedVars(sc, x.List, acc, copyMap(declared))
		case *ast.RangeStmt:
			t.assignedVars(sc, x.Body.List, acc, copyMap(declared))
		case *ast.SwitchStmt:
			for _, c := range x.Body.List {
				t.assignedVars(sc, c.(*ast.CaseClause).Body, acc, copyMap(declared))
			}
		}
	}
}

func copyMap(m map[string]bool) map[string]bool {
	r := map[string]bool{}
	for k, v := range m {
		r[k] = v
	}
	return r
}

// onlyAssigns: the statements are assignments (possibly under nested ifs without init) and nothing else
func onlyAssigns(stmts []ast.Stmt) bool {
	for _, s := range stmts {
		switch x := s.(type) {
		case *ast.AssignStmt:
			if x.Tok == token.DEFINE {
				return false
			}
			for _, r := range x.Rhs {
				if _, ok := r.(*ast.CallExpr); ok && len(x.Lhs) > 1 {
					return false
				}
			}
		case *ast.IncDecStmt:
		case *ast.IfStmt:
			if x.Init != nil || !onlyAssigns(x.Body.List) {
				return false
			}
			if x.Else != nil {
				if !onlyAssigns([]ast.Stmt{x.Else}) {
					return false
				}
			}
		case *ast.BlockStmt:
			if !onlyAssigns(x.List) {
				return false
			}
		default:
			return false
		}
	}
	return true
}

func isSyncCall(e ast.Expr) bool {
	ce, ok := e.(*ast.CallExpr)
	if !ok {
		return false
	}
	se, ok := ce.Fun.(*ast.SelectorExpr)
	if !ok {
		return false
	}
	switch se.Sel.Name {
	case "Lock", "Unlock", "RLock", "RUnlock":
		return len(ce.Args) == 0
	}
	return false
}

func tuple(names []string) string {
	if len(names) == 1 {
		return id(names[0])
	}
	var a []string
	for _, n := range names {
		a = append(a, id(n))
	}
	return "(" + strings.Join(a, ", ") + ")"
}

func unpack(names []string, from string, ind string) string {
	if len(names) == 1 {
		return ind + "let " + id(names[0]) + " := " + from + "\n"
	}
	var b strings.Builder
	cur := from
	for i, n := range names {
		if i == len(names)-1 {
			b.WriteString(ind + "let " + id(n) + " := " + cur + "\n")
		} else {
			b.WriteString(ind + "let " + id(n) + " := " + cur + ".1\n")
			cur = cur + ".2"
		}
	}
	return b.String()
}

func (t *tr) retExpr(sc *scope, vals []string) string {
	if sc.fn.optCtor {
		return id(sc.fn.rname) // a functional option returns the configuration it changed
	}
	var r string
	switch len(vals) {
	case 0:
		r = "()"
	case 1:
		r = vals[0]
	default:
		r = "(" + strings.Join(vals, ", ") + ")"
	}
	if sc.fn.mutates {
		r = "(" + id(sc.fn.rname) + ", " + r + ")"
	}
	return r
}

// block translates stmts followed by nothing (the caller appends the rest of the enclosing blocks to stmts).
func (t *tr) block(sc *scope, stmts []ast.Stmt, ind string) string {
	if len(stmts) == 0 {
		if sc.inLoop {
			return ind + "Go.Ctl.next " + tuple(sc.state) + "\n"
		}
		if sc.fn.optCtor || sc.fn.decl.Type.Results == nil || len(sc.fn.decl.Type.Results.List) == 0 {
			return ind + t.retExpr(sc, nil) + "\n" // the end of a function without results
		}
		return ind + t.fail(sc.fn.decl.End(), "control reaches the end of %s without a return", sc.fn.name) + "\n"
	}
	s, rest := stmts[0], stmts[1:]
	if len(sc.opaque) > 0 || sc.fn.optCtor {
		if t.mentionsOpaque(sc, s) {
			return t.block(sc, rest, ind) // not part of the translated state (e.g. the context of WithMassive)
		}
	}
	switch x := s.(type) {
	case *ast.ExprStmt:
		if isSyncCall(x.X) {
			return t.block(sc, rest, ind)
		}
		// opt(c): applying a functional option to the configuration
		if ce, ok := x.X.(*ast.CallExpr); ok && len(ce.Args) == 1 {
			if fv, ok := ce.Fun.(*ast.Ident); ok && sc.funcVars[fv.Name] {
				if arg, ok := ce.Args[0].(*ast.Ident); ok {
					return ind + "let " + id(arg.Name) + " := " + id(fv.Name) + " " + id(arg.Name) + "\n" + t.block(sc, rest, ind)
				}
			}
		}
		return ind + t.fail(x.Pos(), "expression statement") + "\n"
	case *ast.DeferStmt:
		if isSyncCall(x.Call) {
			return t.block(sc, rest, ind)
		}
		return ind + t.fail(x.Pos(), "defer") + "\n"
	case *ast.DeclStmt:
		gd := x.Decl.(*ast.GenDecl)
		var b strings.Builder
		for _, sp := range gd.Specs {
			vs, ok := sp.(*ast.ValueSpec)
			if !ok || vs.Type == nil || len(vs.Values) != 0 {
				return ind + t.fail(x.Pos(), "declaration") + "\n"
			}
			lt, ok := goTypeToLean(t, vs.Type)
			if !ok {
				return ind + t.fail(x.Pos(), "type of declaration") + "\n"
			}
			for _, n := range vs.Names {
				if sc.vars[n.Name] {
					return ind + t.fail(x.Pos(), "%s is declared twice in %s (shadowing is not translated)", n.Name, sc.fn.name) + "\n"
				}
				sc.vars[n.Name] = true
				b.WriteString(ind + "let " + id(n.Name) + " : " + lt + " := " + zeroOf(lt) + "\n")
			}
		}
		return b.String() + t.block(sc, rest, ind)
	case *ast.IncDecStmt:
		lv, ok := x.X.(*ast.Ident)
		if !ok {
			return ind + t.fail(x.Pos(), "++/-- on a non-variable") + "\n"
		}
		op := " + 1"
		if x.Tok == token.DEC {
			op = " - 1"
		}
		return ind + "let " + id(lv.Name) + " := " + id(lv.Name) + op + "\n" + t.block(sc, rest, ind)
	case *ast.AssignStmt:
		return t.assign(sc, x, ind) + t.block(sc, rest, ind)
	case *ast.ReturnStmt:
		var vals []string
		for i, r := range x.Results {
			v := t.expr(sc, r)
			// a value returned where the result type is a pointer handled as Option: `return child` is `some child`
			if idt, ok := r.(*ast.Ident); ok && idt.Name != "nil" && !t.sentinels[idt.Name] && sc.fn.decl.Type.Results != nil {
				rl := sc.fn.decl.Type.Results.List
				if i < len(rl) {
					if st, ok := rl[i].Type.(*ast.StarExpr); ok {
						if sid, ok := st.X.(*ast.Ident); ok && derefStructs[sid.Name] && !plainPtr[sid.Name] {
							v = "(some " + v + ")"
						}
					}
				}
			}
			vals = append(vals, v)
		}
		r := t.retExpr(sc, vals)
		if sc.inLoop {
			return ind + "Go.Ctl.ret " + r + "\n"
		}
		return ind + r + "\n"
	case *ast.BranchStmt:
		if !sc.inLoop || x.Label != nil {
			return ind + t.fail(x.Pos(), "%s", x.Tok) + "\n"
		}
		switch x.Tok {
		case token.CONTINUE:
			return ind + "Go.Ctl.next " + tuple(sc.state) + "\n"
		case token.BREAK:
			return ind + "Go.Ctl.brk " + tuple(sc.state) + "\n"
		}
		return ind + t.fail(x.Pos(), "%s", x.Tok) + "\n"
	case *ast.BlockStmt:
		return t.block(sc, append(append([]ast.Stmt{}, x.List...), rest...), ind)
	case *ast.SwitchStmt:
		// switch tag { case a: A; case b: B; default: D }  ==>  if tag == a {A} else if tag == b {B} else {D}
		if x.Init != nil || x.Tag == nil {
			return ind + t.fail(x.Pos(), "switch form") + "\n"
		}
		var chain ast.Stmt
		var def []ast.Stmt
		clauses := x.Body.List
		for i := len(clauses) - 1; i >= 0; i-- {
			cc := clauses[i].(*ast.CaseClause)
			for _, st := range cc.Body {
				if bs, ok := st.(*ast.BranchStmt); ok && bs.Tok == token.FALLTHROUGH {
					return ind + t.fail(x.Pos(), "fallthrough") + "\n"
				}
			}
			if cc.List == nil {
				def = cc.Body
				continue
			}
			var cond ast.Expr
			for _, v := range cc.List {
				c := &ast.BinaryExpr{X: x.Tag, Op: token.EQL, Y: v, OpPos: v.Pos()}
				if cond == nil {
					cond = c
				} else {
					cond = &ast.BinaryExpr{X: cond, Op: token.LOR, Y: c, OpPos: v.Pos()}
				}
			}
			is := &ast.IfStmt{If: cc.Pos(), Cond: cond, Body: &ast.BlockStmt{List: cc.Body}}
			if chain != nil {
				is.Else = chain
			} else if def != nil {
				is.Else = &ast.BlockStmt{List: def}
			}
			chain = is
		}
		if chain == nil {
			return t.block(sc, append(append([]ast.Stmt{}, def...), rest...), ind)
		}
		return t.block(sc, append([]ast.Stmt{chain}, rest...), ind)
	case *ast.IfStmt:
		var pre string
		if x.Init != nil {
			as, ok := x.Init.(*ast.AssignStmt)
			if !ok {
				return ind + t.fail(x.Pos(), "if with a non-assignment init") + "\n"
			}
			pre = t.assign(sc, as, ind)
		}
		if be, ok := x.Cond.(*ast.BinaryExpr); ok && be.Op == token.EQL && x.Init == nil && x.Else == nil && leaves(x.Body.List) {
			if px, ok := be.X.(*ast.Ident); ok {
				if ny, ok := be.Y.(*ast.Ident); ok && ny.Name == "nil" && (nilChecked(sc.fn)[px.Name] || sc.funcVars[px.Name]) {
					return ind + "match " + id(px.Name) + " with\n" + ind + "| none =>\n" + t.block(sc.clone(), x.Body.List, ind+"  ") +
						ind + "| some " + id(px.Name) + " =>\n" + t.block(sc, rest, ind+"  ")
				}
			}
		}
		cond := t.expr(sc, x.Cond)
		var els []ast.Stmt
		switch e := x.Else.(type) {
		case *ast.BlockStmt:
			els = e.List
		case *ast.IfStmt:
			els = []ast.Stmt{e}
		}
		body := x.Body.List
		if onlyAssigns(body) && onlyAssigns(els) {
			acc := map[string]bool{}
			t.assignedVars(sc, body, acc, map[string]bool{})
			t.assignedVars(sc, els, acc, map[string]bool{})
			var vs []string
			for v := range acc {
				vs = append(vs, v)
			}
			sort.Strings(vs)
			if len(vs) == 0 {
				return pre + t.block(sc, rest, ind)
			}
			sub := &scope{fn: sc.fn, vars: sc.vars, opaque: sc.opaque, funcVars: sc.funcVars}
			a := t.assignsOnly(sub, body, ind+"    ") + ind + "    " + tuple(vs) + "\n"
			b := t.assignsOnly(sub, els, ind+"    ") + ind + "    " + tuple(vs) + "\n"
			return pre + ind + "let " + tuple(vs) + " :=\n" + ind + "  if " + cond + " then\n" + a + ind + "  else\n" + b + t.block(sc, rest, ind)
		}
		switch {
		case leaves(body):
			return pre + ind + "if " + cond + " then\n" + t.block(sc.clone(), body, ind+"  ") + ind + "else\n" + t.block(sc, append(append([]ast.Stmt{}, els...), rest...), ind)
		case x.Else != nil && leaves(els):
			return pre + ind + "if " + cond + " then\n" + t.block(sc.clone(), append(append([]ast.Stmt{}, body...), rest...), ind+"  ") + ind + "else\n" + t.block(sc.clone(), els, ind+"  ")
		default:
			return pre + ind + "if " + cond + " then\n" + t.block(sc.clone(), append(append([]ast.Stmt{}, body...), rest...), ind+"  ") + ind + "else\n" + t.block(sc.clone(), append(append([]ast.Stmt{}, els...), rest...), ind+"  ")
		}
	case *ast.RangeStmt:
		if sc.inLoop {
			return ind + t.fail(x.Pos(), "nested loop") + "\n"
		}
		var collExpr string
		switch cx := x.X.(type) {
		case *ast.Ident:
			isParam := false
			for _, p := range sc.fn.decl.Type.Params.List {
				for _, n := range p.Names {
					if n.Name == cx.Name {
						isParam = true
					}
				}
			}
			if t.slices[cx.Name] == nil && !isParam {
				return ind + t.fail(x.Pos(), "range over something that is not a package-level slice of strings, a slice parameter or a slice field") + "\n"
			}
			collExpr = id(cx.Name)
		case *ast.SelectorExpr:
			if _, ok := cx.X.(*ast.Ident); !ok {
				return ind + t.fail(x.Pos(), "range over a nested selector") + "\n"
			}
			collExpr = t.expr(sc, cx)
		default:
			return ind + t.fail(x.Pos(), "range over something that is not a package-level slice of strings or a slice field") + "\n"
		}
		if k, ok := x.Key.(*ast.Ident); x.Key != nil && (!ok || k.Name != "_") {
			return ind + t.fail(x.Pos(), "range with an index variable") + "\n"
		}
		v, ok := x.Value.(*ast.Ident)
		if !ok || x.Tok != token.DEFINE {
			return ind + t.fail(x.Pos(), "range value") + "\n"
		}
		acc := map[string]bool{}
		t.assignedVars(sc, x.Body.List, acc, map[string]bool{v.Name: true})
		var st []string
		for a := range acc {
			st = append(st, a)
		}
		sort.Strings(st)
		if len(st) == 0 {
			st = []string{"unit_"}
		}
		sub := &scope{fn: sc.fn, vars: copyMap(sc.vars), inLoop: true, state: st, opaque: sc.opaque, funcVars: copyMap(sc.funcVars)}
		if isOptionSlice(sc.fn, x.X) {
			sub.funcVars[v.Name] = true
		}
		sub.vars[v.Name] = true
		var b strings.Builder
		init := tuple(st)
		if st[0] == "unit_" {
			init = "()"
		}
		b.WriteString(ind + "match Go.forRange " + collExpr + " " + init + " (fun " + id(v.Name) + " st_ =>\n")
		b.WriteString(unpack(st, "st_", ind+"    "))
		b.WriteString(t.block(sub, x.Body.List, ind+"    "))
		b.WriteString(ind + "  ) with\n")
		b.WriteString(ind + "| Go.Ctl.ret r_ => r_\n")
		b.WriteString(ind + "| Go.Ctl.brk st_ | Go.Ctl.next st_ =>\n")
		b.WriteString(unpack(st, "st_", ind+"  "))
		b.WriteString(t.block(sc, rest, ind+"  "))
		return b.String()
	}
	return ind + t.fail(s.Pos(), "statement %T", s) + "\n"
}

// assignsOnly translates statements for which onlyAssigns holds into a sequence of lets.
func (t *tr) assignsOnly(sc *scope, stmts []ast.Stmt, ind string) string {
	var b strings.Builder
	for _, s := range stmts {
		switch x := s.(type) {
		case *ast.AssignStmt:
			b.WriteString(t.assign(sc, x, ind))
		case *ast.IncDecStmt:
			lv := x.X.(*ast.Ident)
			op := " + 1"
			if x.Tok == token.DEC {
				op = " - 1"
			}
			b.WriteString(ind + "let " + id(lv.Name) + " := " + id(lv.Name) + op + "\n")
		case *ast.BlockStmt:
			b.WriteString(t.assignsOnly(sc, x.List, ind))
		case *ast.IfStmt:
			var els []ast.Stmt
			switch e := x.Else.(type) {
			case *ast.BlockStmt:
				els = e.List
			case *ast.IfStmt:
				els = []ast.Stmt{e}
			}
			acc := map[string]bool{}
			t.assignedVars(sc, x.Body.List, acc, map[string]bool{})
			t.assignedVars(sc, els, acc, map[string]bool{})
			var vs []string
			for v := range acc {
				vs = append(vs, v)
			}
			sort.Strings(vs)
			if len(vs) == 0 {
				continue
			}
			b.WriteString(ind + "let " + tuple(vs) + " :=\n" + ind + "  if " + t.expr(sc, x.Cond) + " then\n" +
				t.assignsOnly(sc, x.Body.List, ind+"    ") + ind + "    " + tuple(vs) + "\n" + ind + "  else\n" +
				t.assignsOnly(sc, els, ind+"    ") + ind + "    " + tuple(vs) + "\n")
		}
	}
	return b.String()
}

func (t *tr) assign(sc *scope, x *ast.AssignStmt, ind string) string {
	// compound assignment
	if x.Tok == token.ADD_ASSIGN || x.Tok == token.SUB_ASSIGN {
		lv, ok := x.Lhs[0].(*ast.Ident)
		if !ok || len(x.Lhs) != 1 {
			return ind + t.fail(x.Pos(), "compound assignment to a non-variable") + "\n"
		}
		op := " + "
		if x.Tok == token.SUB_ASSIGN {
			op = " - "
		}
		return ind + "let " + id(lv.Name) + " := " + id(lv.Name) + op + t.expr(sc, x.Rhs[0]) + "\n"
	}
	if x.Tok != token.DEFINE && x.Tok != token.ASSIGN {
		return ind + t.fail(x.Pos(), "assignment operator %s", x.Tok) + "\n"
	}
	if x.Tok == token.DEFINE {
		for _, l := range x.Lhs {
			if lv, ok := l.(*ast.Ident); ok && lv.Name != "_" {
				if sc.vars[lv.Name] {
					return ind + t.fail(x.Pos(), "%s is declared twice in %s (shadowing is not translated)", lv.Name, sc.fn.name) + "\n"
				}
				sc.vars[lv.Name] = true
			}
		}
	}
	// `_, ok := set[key]`
	if len(x.Lhs) == 2 && len(x.Rhs) == 1 {
		if ie, ok := x.Rhs[0].(*ast.IndexExpr); ok {
			if m, ok := ie.X.(*ast.Ident); ok && t.sets[m.Name] != nil {
				if u, ok := x.Lhs[0].(*ast.Ident); ok && u.Name == "_" {
					okv := x.Lhs[1].(*ast.Ident)
					return ind + "let " + id(okv.Name) + " := " + id(m.Name) + ".contains " + t.expr(sc, ie.Index) + "\n"
				}
			}
		}
	}
	if len(x.Rhs) == 1 && len(x.Lhs) >= 1 {
		// call of a receiver-assigning method
		if ce, ok := x.Rhs[0].(*ast.CallExpr); ok {
			if k, n := t.callName(sc, ce.Fun); k == "method" {
				if g, ok := t.fns[sc.fn.recv+"."+n]; ok && g.mutates {
					var args []string
					for _, a := range ce.Args {
						args = append(args, t.expr(sc, a))
					}
					var names []string
					for _, l := range x.Lhs {
						lv, ok := l.(*ast.Ident)
						if !ok {
							return ind + t.fail(x.Pos(), "assignment target") + "\n"
						}
						names = append(names, id(lv.Name))
					}
					pat := names[0]
					if len(names) > 1 {
						pat = "(" + strings.Join(names, ", ") + ")"
					}
					return ind + "let (" + id(sc.fn.rname) + ", " + pat + ") := " + sc.fn.recv + "." + id(n) + " " + id(sc.fn.rname) + strings.Join(append([]string{""}, args...), " ") + "\n"
				}
			}
		}
	}
	if len(x.Lhs) == len(x.Rhs) {
		if len(x.Lhs) != 1 {
			return ind + t.fail(x.Pos(), "parallel assignment") + "\n"
		}
		rhs := t.expr(sc, x.Rhs[0])
		switch lv := x.Lhs[0].(type) {
		case *ast.Ident:
			return ind + "let " + id(lv.Name) + " := " + rhs + "\n"
		case *ast.SelectorExpr:
			p, ok := lv.X.(*ast.Ident)
			if !ok {
				// one level of nesting: n.brnch.value = e
				if inner, ok := lv.X.(*ast.SelectorExpr); ok {
					if base, ok := inner.X.(*ast.Ident); ok {
						return ind + "let " + id(base.Name) + " := { " + id(base.Name) + " with " + id(inner.Sel.Name) + " := { " + id(base.Name) + "." + id(inner.Sel.Name) + " with " + id(lv.Sel.Name) + " := " + rhs + " } }\n"
					}
				}
				return ind + t.fail(x.Pos(), "assignment target") + "\n"
			}
			return ind + "let " + id(p.Name) + " := { " + id(p.Name) + " with " + id(lv.Sel.Name) + " := " + rhs + " }\n"
		}
		return ind + t.fail(x.Pos(), "assignment target") + "\n"
	}
	if len(x.Rhs) == 1 {
		var names []string
		for _, l := range x.Lhs {
			lv, ok := l.(*ast.Ident)
			if !ok {
				return ind + t.fail(x.Pos(), "assignment target") + "\n"
			}
			names = append(names, id(lv.Name))
		}
		return ind + "let (" + strings.Join(names, ", ") + ") := " + t.expr(sc, x.Rhs[0]) + "\n"
	}
	return ind + t.fail(x.Pos(), "assignment") + "\n"
}

// ---------- output ----------

func (t *tr) deps(f *fnInfo) []string {
	seen := map[string]bool{}
	ast.Inspect(f.decl.Body, func(n ast.Node) bool {
		ce, ok := n.(*ast.CallExpr)
		if !ok {
			return true
		}
		k, name := t.callName(&scope{fn: f}, ce.Fun)
		switch k {
		case "method":
			seen[f.recv+"."+name] = true
		case "func":
			if _, ok := t.fns[name]; ok {
				seen[name] = true
			}
		}
		return true
	})
	var r []string
	for k := range seen {
		if _, ok := t.fns[k]; ok {
			r = append(r, k)
		}
	}
	sort.Strings(r)
	return r
}

func (t *tr) render() string {
	var b strings.Builder
	b.WriteString("-- GENERATED by /verif/translate from /repo's sources on every run of a check; do not edit.\n")
	b.WriteString("-- A statement-by-statement translation of pure functions of gtree (see /verif/translate/main.go for the subset\n-- and the shape of the output). `Lemmas/SourceRefines.lean` relates these definitions to the hand-written model.\n")
	b.WriteString("import Gtree.Go.Strings\nimport Gtree.Model.FS\nset_option linter.unusedVariables false\nnamespace Gtree.Src\nopen Gtree\n\n")
	b.WriteString("-- `untranslatable` marks a construct outside the translated subset; it has no definition, so a file containing it does not compile\n")
	if len(t.errs) > 0 {
		b.WriteString("-- the translator met constructs it does not translate:\n")
		for _, e := range t.errs {
			b.WriteString("--   " + e + "\n")
		}
	}
	b.WriteString("\n")
	// errors
	var sent []string
	for s := range t.sentinels {
		sent = append(sent, s)
	}
	sort.Strings(sent)
	b.WriteString("/-- the error values of the translated files: sentinels created with errors.New, and error structs -/\ninductive Err where\n")
	for _, s := range sent {
		b.WriteString("  | " + s + "\n")
	}
	b.WriteString("  | os (e : Gtree.FErr)  -- an error returned by the operating system (os.Stat, os.MkdirAll, os.Create: the file-system model's errors)\n")
	b.WriteString("  | writer  -- the error the caller's io.Writer returned\n")
	var es []string
	for s := range t.errStruct {
		if _, ok := t.structs[s]; ok {
			es = append(es, s)
		}
	}
	sort.Strings(es)
	for _, s := range es {
		b.WriteString("  | " + s)
		for _, f := range t.structs[s] {
			b.WriteString(" (" + id(f[0]) + " : " + f[1] + ")")
		}
		b.WriteString("\n")
	}
	b.WriteString("deriving Repr, DecidableEq, BEq\n\n")
	// structs, each after the structs its fields mention
	var sn []string
	for s := range t.structs {
		if !t.errStruct[s] {
			sn = append(sn, s)
		}
	}
	sort.Strings(sn)
	emitted := map[string]bool{}
	noInst := map[string]bool{}
	mentions := func(ty, name string) bool {
		for _, w := range strings.FieldsFunc(ty, func(r rune) bool { return r == ' ' || r == '(' || r == ')' }) {
			if w == name {
				return true
			}
		}
		return false
	}
	for len(emitted) < len(sn) {
		progress := false
		for _, s := range sn {
			if emitted[s] {
				continue
			}
			ready, recursive := true, false
			for _, f := range t.structs[s] {
				for _, o := range sn {
					if mentions(f[1], o) {
						if o == s || noInst[o] {
							recursive = true // (or holds a structure for which no instances are derived)
						}
						if o != s && !emitted[o] {
							ready = false
						}
					}
				}
			}
			if !ready {
				continue
			}
			b.WriteString("structure " + s + " where\n")
			if len(t.structs[s]) == 0 {
				b.WriteString("  mk ::\n")
			}
			for _, f := range t.structs[s] {
				b.WriteString("  " + id(f[0]) + " : " + f[1] + "\n")
			}
			if recursive {
				noInst[s] = true
				b.WriteString("\n") // a recursive structure: no instances are derived
			} else {
				b.WriteString("deriving Repr, DecidableEq, BEq\n\n")
			}
			emitted[s] = true
			progress = true
		}
		if !progress {
			t.errs = append(t.errs, "struct types depend on each other in a cycle")
			break
		}
	}
	// constants
	var cn []string
	for c := range t.consts {
		cn = append(cn, c)
	}
	sort.Strings(cn)
	for _, c := range cn {
		b.WriteString("def " + id(c) + " : " + t.constType[c] + " := " + t.consts[c] + "\n")
	}
	var ln []string
	for c := range t.slices {
		ln = append(ln, c)
	}
	sort.Strings(ln)
	for _, c := range ln {
		b.WriteString("def " + id(c) + " : List Bytes := [" + strings.Join(t.slices[c], ", ") + "]\n")
	}
	ln = nil
	for c := range t.sets {
		ln = append(ln, c)
	}
	sort.Strings(ln)
	for _, c := range ln {
		b.WriteString("/-- the keys of the Go map (a set) -/\ndef " + id(c) + " : List Bytes := [" + strings.Join(t.sets[c], ", ") + "]\n")
	}
	b.WriteString("\n")
	// functions in dependency order
	var names []string
	for k := range t.fns {
		names = append(names, k)
	}
	sort.Strings(names)
	done := map[string]bool{}
	var order []string
	var visit func(k string, stack map[string]bool)
	visit = func(k string, stack map[string]bool) {
		if done[k] {
			return
		}
		if stack[k] {
			t.errs = append(t.errs, "recursion through "+k+" is not translated")
			return
		}
		stack[k] = true
		for _, d := range t.deps(t.fns[k]) {
			visit(d, stack)
		}
		done[k] = true
		order = append(order, k)
	}
	for _, k := range names {
		visit(k, map[string]bool{})
	}
	var fb strings.Builder
	for _, k := range order {
		fb.WriteString(t.function(t.fns[k]))
		fb.WriteString("\n")
	}
	out := b.String()
	if t.usesErrorf {
		out = strings.Replace(out, "deriving Repr, DecidableEq, BEq\n\n", "  | Errorf (format : Bytes) (args : List Bytes)\nderiving Repr, DecidableEq, BEq\n\n", 1)
	}
	return out + fb.String() + "end Gtree.Src\n"
}

func (t *tr) function(f *fnInfo) string {
	var b strings.Builder
	sc := &scope{fn: f, vars: map[string]bool{}, opaque: map[string]bool{}, funcVars: map[string]bool{}}
	name := id(f.name)
	if f.recv != "" && !f.optCtor {
		name = f.recv + "." + id(f.name)
	}
	b.WriteString(fmt.Sprintf("/-- %s: `%s` -/\n", f.file, strings.TrimSuffix(name, "_")))
	b.WriteString("def " + name)
	if f.recv != "" && !f.optCtor {
		rn := f.rname
		if rn == "" {
			rn = "recv_"
			f.rname = rn
		}
		b.WriteString(" (" + id(rn) + " : " + f.recv + ")")
		sc.vars[rn] = true
	}
	nc := nilChecked(f)
	for _, p := range f.decl.Type.Params.List {
		lt, ok := goTypeToLean(t, p.Type)
		if !ok {
			if se, isSel := p.Type.(*ast.SelectorExpr); isSel {
				if pk, isId := se.X.(*ast.Ident); isId && pk.Name == "context" && se.Sel.Name == "Context" {
					// the context is not part of the translated state: the parameter and what mentions it are dropped
					for _, n := range p.Names {
						sc.opaque[n.Name] = true
					}
					continue
				}
			}
			lt = t.fail(p.Pos(), "parameter type")
		}
		for _, n := range p.Names {
			ty := lt
			if nc[n.Name] {
				if o, ok := resultType(t, p.Type); ok {
					ty = o
				}
			}
			b.WriteString(" (" + id(n.Name) + " : " + ty + ")")
			sc.vars[n.Name] = true
		}
	}
	var rts []string
	if f.decl.Type.Results != nil && !f.optCtor {
		for _, r := range f.decl.Type.Results.List {
			lt, ok := resultType(t, r.Type)
			if !ok {
				lt = t.fail(r.Pos(), "result type")
			}
			n := len(r.Names)
			if n == 0 {
				n = 1
			} else {
				t.fail(r.Pos(), "named results")
			}
			for i := 0; i < n; i++ {
				rts = append(rts, lt)
			}
		}
	}
	rt := "Unit"
	if len(rts) > 0 {
		rt = strings.Join(rts, " × ")
	}
	if f.mutates {
		if len(rts) > 1 {
			rt = "(" + rt + ")"
		}
		rt = f.recv + " × " + rt
	}
	if f.optCtor {
		b.WriteString(" (" + id(f.rname) + " : config) : config :=\n")
		sc.vars[f.rname] = true
		b.WriteString(t.block(sc, f.lit.Body.List, "  "))
		return b.String()
	}
	b.WriteString(" : " + rt + " :=\n")
	b.WriteString(t.block(sc, f.decl.Body.List, "  "))
	return b.String()
}
