module verifextract

go 1.24
