// Command verifextract regenerates Gtree/Generated/Facts.lean from /repo's current sources:
// structural facts (constants, which channel sends are guarded by ctx.Done(), lock regions, which
// entry points enable validation or honour dry-run, package-level mutable variables, build-tag
// partition, CLI exit handling) that the Lean theorems take as hypotheses.
package main

import (
	"bytes"
	"flag"
	"fmt"
	"go/ast"
	"go/parser"
	"go/printer"
	"go/token"
	"os"
	"path/filepath"
	"reflect"
	"sort"
	"strconv"
	"strings"
)

type facts struct {
	consts           map[string]string   // name -> literal
	errChanCap       map[string]int      // func -> capacity of `make(chan error, n)` (0 = unbuffered)
	bareErrSends     []string            // "file:func" of `errc <- x` outside a select with ctx.Done()
	guardedSends     []string            // functions calling sendErr
	bareFeeder       []string            // bare `rootStream <- root`
	handoverBare     []string            // sends on non-error channels outside a select with ctx.Done()
	enablesVal       []string            // methods calling enableValidation()
	testsDryrun      []string            // methods reading cfg.dryrun
	validatesRoot    []string            // exported funcs calling validateTreeRoot first
	pkgVars          []string            // package-level vars (non-error sentinels, non-interface assertions)
	pkgVarWrites     map[string][]string // var -> functions that call a method on / assign it
	tagged           map[string]string   // file -> build constraint
	sharpUnderLock   bool
	lastByIdentity   bool
	mainExitsNonZero bool
	structTags       []string
	exitHelpers      [][2]string
	actionExits      []string
	exitCodes        map[string]int
	listSymbols      []string
	spreadLocked     bool              // defaultSpreaderPipeline.worker calls spreadBranch between Lock/Unlock
	sendErrGuarded   bool              // sendErr selects on ctx.Done()
	verifierMutates  []string          // os.* mutating calls reachable in verifier files
	aliasPairs       map[string]bool   // deprecated alias body identical to replacement
	entryConfig      map[string]string // exported entry point -> the config constructor(s) it calls
	pipeEmbeds       map[string][]string // pipeline stage struct -> the struct types it embeds
	pipeMethods      map[string][]string // pipeline stage struct -> the methods it declares itself
	workerCalls      map[string][]string // pipeline stage struct -> methods its worker calls on the receiver
	treeCalls        map[string][]string // method of *treeSimple -> the calls t.<part>.<method> in source order
	ctorReturns      map[string][]string // constructor new… -> the struct types of the composite literals it returns
	factoryCtors     map[string][]string // factory closure of newTreeSimple -> the constructors it calls
	simpleMethods    map[string][]string // type …Simple -> the methods declared on it
	genSkeleton      map[string][]string // generator loop -> its tests, calls, continues and returns in source order
	entryTree        map[string][]string // exported entry point -> "<tree initializer>.<operation>" of every call it makes on a fresh tree
	initTree         map[string][]string // initializeTree -> its tests, returns and constructor calls in source order
	pipeCalls        map[string][]string // method of *treePipeline -> the stages it starts and helpers it calls, in source order
	treeFields       map[string][]string // field of the treeSimple literal -> the factory called and its arguments
}

func main() {
	repo := flag.String("repo", "/repo", "repository root")
	out := flag.String("out", "", "output Lean file")
	flag.Parse()
	f := &facts{consts: map[string]string{}, errChanCap: map[string]int{}, pkgVarWrites: map[string][]string{}, tagged: map[string]string{}, exitCodes: map[string]int{}, aliasPairs: map[string]bool{}, entryConfig: map[string]string{}, pipeEmbeds: map[string][]string{}, pipeMethods: map[string][]string{}, workerCalls: map[string][]string{}, treeCalls: map[string][]string{}, ctorReturns: map[string][]string{}, factoryCtors: map[string][]string{}, treeFields: map[string][]string{}, simpleMethods: map[string][]string{}, genSkeleton: map[string][]string{}, entryTree: map[string][]string{}, initTree: map[string][]string{}, pipeCalls: map[string][]string{}}
	fset := token.NewFileSet()
	for _, dir := range []string{*repo, filepath.Join(*repo, "markdown"), filepath.Join(*repo, "cmd", "gtree")} {
		ents, err := os.ReadDir(dir)
		if err != nil {
			fmt.Fprintln(os.Stderr, err)
			os.Exit(1)
		}
		for _, e := range ents {
			n := e.Name()
			if e.IsDir() || !strings.HasSuffix(n, ".go") || strings.HasSuffix(n, "_test.go") {
				continue
			}
			p := filepath.Join(dir, n)
			file, err := parser.ParseFile(fset, p, nil, parser.ParseComments)
			if err != nil {
				fmt.Fprintln(os.Stderr, err)
				os.Exit(1)
			}
			rel, _ := filepath.Rel(*repo, p)
			f.scanFile(fset, rel, file)
		}
	}
	f.aliases()
	src := f.render()
	if *out == "" {
		fmt.Print(src)
		return
	}
	os.MkdirAll(filepath.Dir(*out), 0o755)
	old, _ := os.ReadFile(*out)
	if string(old) != src {
		if err := os.WriteFile(*out, []byte(src), 0o644); err != nil {
			fmt.Fprintln(os.Stderr, err)
			os.Exit(1)
		}
	}
}

var funcBodies = map[string]string{}

func recvName(fd *ast.FuncDecl) string {
	if fd.Recv == nil || len(fd.Recv.List) == 0 {
		return fd.Name.Name
	}
	t := fd.Recv.List[0].Type
	if s, ok := t.(*ast.StarExpr); ok {
		t = s.X
	}
	if ix, ok := t.(*ast.IndexExpr); ok {
		t = ix.X
	}
	if id, ok := t.(*ast.Ident); ok {
		return id.Name + "." + fd.Name.Name
	}
	return fd.Name.Name
}

// srcStr: the source text of a node, on one line
func srcStr(n ast.Node) string {
	var b bytes.Buffer
	printer.Fprint(&b, token.NewFileSet(), n)
	return strings.Join(strings.Fields(b.String()), " ")
}

func exprStr(e ast.Expr) string {
	switch x := e.(type) {
	case *ast.Ident:
		return x.Name
	case *ast.SelectorExpr:
		return exprStr(x.X) + "." + x.Sel.Name
	case *ast.BasicLit:
		return x.Value
	case *ast.CallExpr:
		return exprStr(x.Fun) + "()"
	case *ast.StarExpr:
		return "*" + exprStr(x.X)
	case *ast.UnaryExpr:
		return x.Op.String() + exprStr(x.X)
	}
	return "?"
}

func (f *facts) scanFile(fset *token.FileSet, rel string, file *ast.File) {
	// build constraint
	for _, cg := range file.Comments {
		for _, c := range cg.List {
			if strings.HasPrefix(c.Text, "//go:build ") && c.Pos() < file.Package {
				f.tagged[rel] = strings.TrimPrefix(c.Text, "//go:build ")
			}
		}
	}
	if _, ok := f.tagged[rel]; !ok {
		f.tagged[rel] = ""
	}
	if f.tagged[rel] == "verif" || f.tagged[rel] == "!verif" {
		return // the hook files themselves
	}
	for _, d := range file.Decls {
		switch x := d.(type) {
		case *ast.GenDecl:
			if x.Tok == token.TYPE {
				for _, sp := range x.Specs {
					ts, ok := sp.(*ast.TypeSpec)
					if !ok {
						continue
					}
					st, ok := ts.Type.(*ast.StructType)
					if ok && strings.HasPrefix(ts.Name.Name, "default") && strings.HasSuffix(ts.Name.Name, "Pipeline") {
						for _, fl := range st.Fields.List {
							if len(fl.Names) == 0 {
								f.pipeEmbeds[ts.Name.Name] = append(f.pipeEmbeds[ts.Name.Name], strings.TrimPrefix(exprStr(fl.Type), "*"))
							}
						}
					}
					if !ok || !strings.HasSuffix(ts.Name.Name, "Node") || ts.Name.Name == "Node" {
						continue
					}
					var tags []string
					for _, fl := range st.Fields.List {
						if fl.Tag != nil {
							// the key under which the field is encoded (with its options, if any: `value,omitempty`)
							t, _ := strconv.Unquote(fl.Tag.Value)
							st := reflect.StructTag(t)
							for _, enc := range []string{"json", "yaml", "toml"} {
								if v, ok := st.Lookup(enc); ok {
									tags = append(tags, v)
								}
							}
						}
					}
					if len(tags) > 0 {
						f.structTags = append(f.structTags, fmt.Sprintf("(%s, %s)", strconv.Quote(rel+":"+ts.Name.Name), leanStrList(tags)))
					}
				}
			}
			if x.Tok == token.CONST && file.Name.Name == "main" {
				f.evalConstBlock(x)
			}
			for _, s := range x.Specs {
				vs, ok := s.(*ast.ValueSpec)
				if !ok {
					continue
				}
				for i, name := range vs.Names {
					if x.Tok == token.CONST && i < len(vs.Values) {
						if bl, ok := vs.Values[i].(*ast.BasicLit); ok {
							f.consts[name.Name] = bl.Value
						}
					}
					if x.Tok == token.VAR && file.Name.Name == "gtree" && name.Name != "_" {
						isErr := false
						if i < len(vs.Values) {
							if ce, ok := vs.Values[i].(*ast.CallExpr); ok && exprStr(ce.Fun) == "errors.New" {
								isErr = true
							}
						}
						if !isErr {
							f.pkgVars = append(f.pkgVars, name.Name)
						}
					}
					if x.Tok == token.VAR && name.Name == "listSymbols" && i < len(vs.Values) {
						if cl, ok := vs.Values[i].(*ast.CompositeLit); ok {
							for _, e := range cl.Elts {
								f.listSymbols = append(f.listSymbols, exprStr(e))
							}
						}
					}
				}
			}
		case *ast.FuncDecl:
			if x.Body == nil {
				continue
			}
			f.scanFunc(fset, rel, x)
		}
	}
}

// evalConstBlock evaluates the integer constants of one const declaration (iota, implicit repetition of the
// previous expression, + - * and parentheses over integer literals, iota and earlier constants).
func (f *facts) evalConstBlock(gd *ast.GenDecl) {
	var last []ast.Expr
	for idx, s := range gd.Specs {
		vs, ok := s.(*ast.ValueSpec)
		if !ok {
			continue
		}
		if len(vs.Values) > 0 {
			last = vs.Values
		}
		for i, name := range vs.Names {
			if i < len(last) {
				if v, ok := f.evalInt(last[i], idx); ok {
					f.exitCodes[name.Name] = v
				}
			}
		}
	}
}

func (f *facts) evalInt(e ast.Expr, iota int) (int, bool) {
	switch x := e.(type) {
	case *ast.BasicLit:
		v, err := strconv.Atoi(x.Value)
		return v, err == nil
	case *ast.Ident:
		if x.Name == "iota" {
			return iota, true
		}
		v, ok := f.exitCodes[x.Name]
		return v, ok
	case *ast.ParenExpr:
		return f.evalInt(x.X, iota)
	case *ast.BinaryExpr:
		a, ok1 := f.evalInt(x.X, iota)
		b, ok2 := f.evalInt(x.Y, iota)
		if !ok1 || !ok2 {
			return 0, false
		}
		switch x.Op {
		case token.ADD:
			return a + b, true
		case token.SUB:
			return a - b, true
		case token.MUL:
			return a * b, true
		}
	}
	return 0, false
}

// inGuardedSelect: is this send the Comm of a CommClause in a select that also has a <-ctx.Done() case?
func guardedSelects(body *ast.BlockStmt) map[ast.Stmt]bool {
	g := map[ast.Stmt]bool{}
	ast.Inspect(body, func(n ast.Node) bool {
		sel, ok := n.(*ast.SelectStmt)
		if !ok {
			return true
		}
		hasDone := false
		for _, c := range sel.Body.List {
			cc := c.(*ast.CommClause)
			if cc.Comm == nil {
				continue
			}
			s := ""
			switch cs := cc.Comm.(type) {
			case *ast.ExprStmt:
				s = exprStr(cs.X)
			case *ast.AssignStmt:
				if len(cs.Rhs) == 1 {
					s = exprStr(cs.Rhs[0])
				}
			}
			if strings.HasSuffix(s, "ctx.Done()") {
				hasDone = true
			}
		}
		for _, c := range sel.Body.List {
			cc := c.(*ast.CommClause)
			if cc.Comm != nil && hasDone {
				g[cc.Comm] = true
			}
		}
		return true
	})
	return g
}

func (f *facts) scanFunc(fset *token.FileSet, rel string, fd *ast.FuncDecl) {
	name := recvName(fd)
	where := rel + ":" + name
	// the row loops of the four root generators: tests, calls, continues and returns in source order
	if fd.Recv != nil && len(fd.Recv.List) == 1 && (fd.Name.Name == "generate" || fd.Name.Name == "generateIter" || fd.Name.Name == "worker") {
		rt := strings.TrimPrefix(exprStr(fd.Recv.List[0].Type), "*")
		if rt == "rootGeneratorSimple" || rt == "rootGenerator" || (rt == "rootGeneratorPipeline" && fd.Name.Name == "worker") {
			key := rt + "." + fd.Name.Name
			interesting := map[string]bool{"Scan": true, "generate": true, "Text": true, "next": true, "Err": true, "isRoot": true, "reset": true,
				"push": true, "dfs": true, "newStack": true, "append": true, "yield": true, "sendErr": true, "newCounter": true, "Split": true}
			// the loop: the first for / range statement whose body calls nodeGenerator.generate
			var loop ast.Node
			ast.Inspect(fd.Body, func(n ast.Node) bool {
				if loop != nil {
					return false
				}
				var body *ast.BlockStmt
				switch x := n.(type) {
				case *ast.ForStmt:
					body = x.Body
				case *ast.RangeStmt:
					body = x.Body
				}
				if body == nil || len(body.List) == 0 {
					return true
				}
				if as, ok := body.List[0].(*ast.AssignStmt); ok && strings.Contains(srcStr(as), "nodeGenerator.generate(") {
					loop = n
					return false
				}
				return true
			})
			if loop != nil {
				add := func(t string) { f.genSkeleton[key] = append(f.genSkeleton[key], t) }
				ast.Inspect(loop, func(n ast.Node) bool {
					switch x := n.(type) {
					case *ast.ForStmt:
						if x.Cond != nil {
							add("for:" + srcStr(x.Cond))
						}
					case *ast.RangeStmt:
						add("range:" + srcStr(x.X))
					case *ast.IfStmt:
						add("if:" + srcStr(x.Cond))
					case *ast.BranchStmt:
						add(x.Tok.String())
					case *ast.ReturnStmt:
						add("return")
					case *ast.CallExpr:
						name := ""
						switch fn := x.Fun.(type) {
						case *ast.SelectorExpr:
							name = fn.Sel.Name
						case *ast.Ident:
							name = fn.Name
						}
						if interesting[name] {
							add(name)
						}
					case *ast.Ident:
						if x.Name == "errNilStack" {
							add("errNilStack")
						}
					case *ast.CompositeLit:
						if exprStr(x.Type) == "inputFormatError" {
							add("inputFormatError:" + srcStr(x.Elts[0]))
						}
					}
					return true
				})
			}
		}
	}
	// the parts of the simple tree: which constructors build them, what the constructors return, in which order the
	// operations of *treeSimple use them
	if fd.Recv == nil && strings.HasPrefix(fd.Name.Name, "new") && strings.HasSuffix(fd.Name.Name, "Simple") && rel != "simple_tree.go" {
		ast.Inspect(fd.Body, func(n ast.Node) bool {
			if u, ok := n.(*ast.UnaryExpr); ok && u.Op == token.AND {
				if cl, ok := u.X.(*ast.CompositeLit); ok {
					f.ctorReturns[fd.Name.Name] = append(f.ctorReturns[fd.Name.Name], exprStr(cl.Type))
				}
			}
			if ce, ok := n.(*ast.CallExpr); ok {
				if idt, ok := ce.Fun.(*ast.Ident); ok && strings.HasPrefix(idt.Name, "new") && strings.HasSuffix(idt.Name, "Simple") {
					f.ctorReturns[fd.Name.Name] = append(f.ctorReturns[fd.Name.Name], "→"+idt.Name)
				}
			}
			return true
		})
	}
	if fd.Recv == nil && fd.Name.Name == "newTreeSimple" {
		ast.Inspect(fd.Body, func(n ast.Node) bool {
			cl, ok := n.(*ast.CompositeLit)
			if !ok || exprStr(cl.Type) != "treeSimple" {
				return true
			}
			for _, el := range cl.Elts {
				kv, ok := el.(*ast.KeyValueExpr)
				if !ok {
					continue
				}
				k := exprStr(kv.Key)
				if ce, ok := kv.Value.(*ast.CallExpr); ok {
					f.treeFields[k] = append(f.treeFields[k], exprStr(ce.Fun))
					for _, a := range ce.Args {
						f.treeFields[k] = append(f.treeFields[k], exprStr(a))
					}
				} else {
					f.treeFields[k] = append(f.treeFields[k], "?"+exprStr(kv.Value))
				}
			}
			return false
		})
		for _, st := range fd.Body.List {
			as, ok := st.(*ast.AssignStmt)
			if !ok || len(as.Lhs) != 1 || len(as.Rhs) != 1 {
				continue
			}
			fl, ok := as.Rhs[0].(*ast.FuncLit)
			if !ok {
				continue
			}
			fname := exprStr(as.Lhs[0])
			ast.Inspect(fl.Body, func(n ast.Node) bool {
				if ce, ok := n.(*ast.CallExpr); ok {
					if idt, ok := ce.Fun.(*ast.Ident); ok && strings.HasPrefix(idt.Name, "new") {
						f.factoryCtors[fname] = append(f.factoryCtors[fname], idt.Name)
					}
				}
				return true
			})
		}
	}
	// the same for the massive tree: the stages every operation of *treePipeline starts, in source order, and the
	// package-level helpers it calls between them
	if fd.Recv != nil && len(fd.Recv.List) == 1 && strings.TrimPrefix(exprStr(fd.Recv.List[0].Type), "*") == "treePipeline" && len(fd.Recv.List[0].Names) == 1 {
		rv := fd.Recv.List[0].Names[0].Name
		ast.Inspect(fd.Body, func(n ast.Node) bool {
			if ce, ok := n.(*ast.CallExpr); ok {
				switch fn := ce.Fun.(type) {
				case *ast.SelectorExpr:
					if in, ok := fn.X.(*ast.SelectorExpr); ok {
						if idt, ok := in.X.(*ast.Ident); ok && idt.Name == rv {
							f.pipeCalls[fd.Name.Name] = append(f.pipeCalls[fd.Name.Name], in.Sel.Name+"."+fn.Sel.Name)
						}
					} else if idt, ok := fn.X.(*ast.Ident); ok && idt.Name == rv {
						f.pipeCalls[fd.Name.Name] = append(f.pipeCalls[fd.Name.Name], "t."+fn.Sel.Name)
					}
				case *ast.Ident:
					if fn.Name == "split" || fn.Name == "newRootGeneratorPipeline" {
						f.pipeCalls[fd.Name.Name] = append(f.pipeCalls[fd.Name.Name], fn.Name)
					}
				}
			}
			return true
		})
	}
	if fd.Recv != nil && len(fd.Recv.List) == 1 && strings.TrimPrefix(exprStr(fd.Recv.List[0].Type), "*") == "treeSimple" && len(fd.Recv.List[0].Names) == 1 {
		rv := fd.Recv.List[0].Names[0].Name
		ast.Inspect(fd.Body, func(n ast.Node) bool {
			if ce, ok := n.(*ast.CallExpr); ok {
				if se, ok := ce.Fun.(*ast.SelectorExpr); ok {
					if in, ok := se.X.(*ast.SelectorExpr); ok {
						if idt, ok := in.X.(*ast.Ident); ok && idt.Name == rv {
							f.treeCalls[fd.Name.Name] = append(f.treeCalls[fd.Name.Name], in.Sel.Name+"."+se.Sel.Name)
						}
					}
				}
			}
			return true
		})
	}
	if fd.Recv != nil && len(fd.Recv.List) == 1 {
		rt := strings.TrimPrefix(exprStr(fd.Recv.List[0].Type), "*")
		if strings.HasSuffix(rt, "Simple") {
			f.simpleMethods[rt] = append(f.simpleMethods[rt], fd.Name.Name)
		}
		if strings.HasPrefix(rt, "default") && strings.HasSuffix(rt, "Pipeline") {
			f.pipeMethods[rt] = append(f.pipeMethods[rt], fd.Name.Name)
			if fd.Name.Name == "worker" && len(fd.Recv.List[0].Names) == 1 {
				rv := fd.Recv.List[0].Names[0].Name
				ast.Inspect(fd.Body, func(n ast.Node) bool {
					if ce, ok := n.(*ast.CallExpr); ok {
						if se, ok := ce.Fun.(*ast.SelectorExpr); ok {
							if idt, ok := se.X.(*ast.Ident); ok && idt.Name == rv {
								f.workerCalls[rt] = append(f.workerCalls[rt], se.Sel.Name)
							}
						}
					}
					return true
				})
			}
		}
	}
	guarded := guardedSelects(fd.Body)
	var order []string // linearised interesting events for lock analysis
	ast.Inspect(fd.Body, func(n ast.Node) bool {
		switch x := n.(type) {
		case *ast.SendStmt:
			ch := exprStr(x.Chan)
			if guarded[x] {
				return true
			}
			if strings.HasPrefix(ch, "errc") {
				if name != "sendErr" {
					f.bareErrSends = append(f.bareErrSends, where)
				}
			} else if ch == "rootStream" {
				f.bareFeeder = append(f.bareFeeder, where)
			} else {
				f.handoverBare = append(f.handoverBare, where+":"+ch)
			}
		case *ast.CallExpr:
			fn := exprStr(x.Fun)
			switch {
			case fn == "sendErr":
				f.guardedSends = append(f.guardedSends, where)
			case strings.HasSuffix(fn, ".enableValidation"):
				f.enablesVal = append(f.enablesVal, name)
			case fn == "validateTreeRoot":
				f.validatesRoot = append(f.validatesRoot, name)
			case fn == "make" && len(x.Args) >= 1:
				if ct, ok := x.Args[0].(*ast.ChanType); ok && exprStr(ct.Value) == "error" {
					c := 0
					if len(x.Args) == 2 {
						c, _ = strconv.Atoi(exprStr(x.Args[1]))
					}
					f.errChanCap[where] = c
				}
			case fn == "cli.Exit" && strings.HasPrefix(rel, filepath.Join("cmd", "gtree")) && len(x.Args) == 2:
				f.exitHelpers = append(f.exitHelpers, [2]string{name, exprStr(x.Args[1])})
			case strings.HasPrefix(fn, "exitErr") && strings.HasPrefix(rel, filepath.Join("cmd", "gtree")):
				f.actionExits = append(f.actionExits, name+":"+fn)
			case fn == "os.Exit" && rel == filepath.Join("cmd", "gtree", "main.go") && name == "main":
				if len(x.Args) == 1 && exprStr(x.Args[0]) != "0" {
					f.mainExitsNonZero = true
				}
			case strings.HasPrefix(fn, "os.") && strings.Contains(rel, "verifier"):
				switch fn {
				case "os.MkdirAll", "os.Mkdir", "os.Create", "os.Remove", "os.RemoveAll", "os.Rename", "os.WriteFile", "os.OpenFile", "os.Chmod", "os.Truncate":
					f.verifierMutates = append(f.verifierMutates, where+":"+fn)
				}
			case strings.HasSuffix(fn, ".Lock"), strings.HasSuffix(fn, ".Unlock"), strings.HasSuffix(fn, ".spreadBranch"):
				order = append(order, fn)
			case strings.HasPrefix(fn, "idxCounter."):
				f.pkgVarWrites["idxCounter"] = append(f.pkgVarWrites["idxCounter"], name+":"+strings.TrimPrefix(fn, "idxCounter."))
			}
		case *ast.SelectorExpr:
			if exprStr(x) == "cfg.dryrun" {
				f.testsDryrun = append(f.testsDryrun, name)
			}
		case *ast.AssignStmt:
			for _, l := range x.Lhs {
				if exprStr(l) == "p.isSharpRoot" {
					order = append(order, "write:isSharpRoot")
				}
			}
		case *ast.BinaryExpr:
			if name == "Node.isLastOfHierarchy" && x.Op == token.EQL {
				l, r := exprStr(x.X), exprStr(x.Y)
				if l == "n" && strings.HasPrefix(r, "n.parent.children") || l == "?" && false {
					f.lastByIdentity = true
				}
				if _, ok := x.Y.(*ast.IndexExpr); ok && l == "n" {
					f.lastByIdentity = true
				}
			}
		}
		return true
	})
	if name == "Parser.Parse" {
		locked := false
		f.sharpUnderLock = false
		for _, e := range order {
			if strings.HasSuffix(e, "mu.Lock") {
				locked = true
			}
			if e == "write:isSharpRoot" {
				f.sharpUnderLock = locked
			}
		}
	}
	if name == "defaultSpreaderPipeline.worker" {
		locked := false
		for _, e := range order {
			if strings.HasSuffix(e, ".Lock") {
				locked = true
			}
			if strings.HasSuffix(e, ".Unlock") {
				locked = false
			}
			if strings.HasSuffix(e, ".spreadBranch") {
				f.spreadLocked = locked
			}
		}
	}
	if name == "sendErr" {
		g := guardedSelects(fd.Body)
		f.sendErrGuarded = len(g) > 0
	}
	// which tree an exported entry point builds and which operation of it it calls: `initializeTree(cfg).op(…)`
	if fd.Recv == nil && ast.IsExported(fd.Name.Name) && (rel == "tree_handler.go" || rel == "tree_handler_programmably.go") {
		ast.Inspect(fd.Body, func(n ast.Node) bool {
			if ce, ok := n.(*ast.CallExpr); ok {
				if se, ok := ce.Fun.(*ast.SelectorExpr); ok {
					if in, ok := se.X.(*ast.CallExpr); ok {
						if idt, ok := in.Fun.(*ast.Ident); ok {
							f.entryTree[fd.Name.Name] = append(f.entryTree[fd.Name.Name], idt.Name+"."+se.Sel.Name)
						}
					}
				}
			}
			return true
		})
	}
	if fd.Recv == nil && fd.Name.Name == "initializeTree" && rel == "tree.go" {
		ast.Inspect(fd.Body, func(n ast.Node) bool {
			switch x := n.(type) {
			case *ast.IfStmt:
				f.initTree["initializeTree"] = append(f.initTree["initializeTree"], "if:"+srcStr(x.Cond))
			case *ast.ReturnStmt:
				f.initTree["initializeTree"] = append(f.initTree["initializeTree"], "return")
			case *ast.CallExpr:
				f.initTree["initializeTree"] = append(f.initTree["initializeTree"], "call:"+srcStr(x.Fun))
			case *ast.AssignStmt:
				f.initTree["initializeTree"] = append(f.initTree["initializeTree"], "assign:"+srcStr(x))
			}
			return true
		})
	}
	// which configuration constructor an exported entry point calls
	if fd.Recv == nil && ast.IsExported(fd.Name.Name) && (rel == "tree_handler.go" || rel == "tree_handler_programmably.go") {
		seen := map[string]bool{}
		ast.Inspect(fd.Body, func(n ast.Node) bool {
			if ce, ok := n.(*ast.CallExpr); ok {
				if idt, ok := ce.Fun.(*ast.Ident); ok && (idt.Name == "newConfig" || idt.Name == "newConfigWithoutEncode") {
					seen[idt.Name] = true
				}
			}
			return true
		})
		var l []string
		for k := range seen {
			l = append(l, k)
		}
		sort.Strings(l)
		if len(l) > 0 {
			f.entryConfig[fd.Name.Name] = strings.Join(l, "+")
		}
	}
	// body text for alias comparison
	start, end := fset.Position(fd.Body.Pos()).Offset, fset.Position(fd.Body.End()).Offset
	src, err := os.ReadFile(fset.Position(fd.Pos()).Filename)
	if err == nil && end <= len(src) && !strings.HasPrefix(rel, "wasm_") {
		funcBodies[name] = string(src[start:end])
	}
}

func (f *facts) aliases() {
	pairs := map[string]string{
		"Output": "OutputFromMarkdown", "Mkdir": "MkdirFromMarkdown", "Verify": "VerifyFromMarkdown", "Walk": "WalkFromMarkdown",
		"OutputProgrammably": "OutputFromRoot", "MkdirProgrammably": "MkdirFromRoot", "VerifyProgrammably": "VerifyFromRoot",
		"WalkProgrammably": "WalkFromRoot", "WalkIterProgrammably": "WalkIterFromRoot",
	}
	for a, b := range pairs {
		ba, oka := funcBodies[a]
		bb, okb := funcBodies[b]
		f.aliasPairs[a+"="+b] = oka && okb && ba == bb
	}
}

func uniq(l []string) []string {
	m := map[string]bool{}
	var out []string
	for _, s := range l {
		if !m[s] {
			m[s] = true
			out = append(out, s)
		}
	}
	sort.Strings(out)
	return out
}

func leanStrList(l []string) string {
	q := make([]string, len(l))
	for i, s := range l {
		q[i] = strconv.Quote(s)
	}
	return "[" + strings.Join(q, ", ") + "]"
}

func leanBool(b bool) string {
	if b {
		return "true"
	}
	return "false"
}

func (f *facts) num(name string) string {
	if v, ok := f.consts[name]; ok {
		return v
	}
	return "0"
}

func (f *facts) render() string {
	var sb strings.Builder
	w := func(format string, a ...any) { fmt.Fprintf(&sb, format, a...) }
	w("/- GENERATED by /verif/extract from /repo's current sources on every check run. Do not edit. -/\n")
	w("namespace Gtree.Facts\n\n")
	for _, n := range []string{"workerGenerateNum", "workerGrowNum", "workerSpreadNum", "workerMkdirNum", "workerVerifyNum", "workerWalkerNum"} {
		w("def %s : Nat := %s\n", n, f.num(n))
	}
	var caps []string
	for k, v := range f.errChanCap {
		caps = append(caps, fmt.Sprintf("(%s, %d)", strconv.Quote(k), v))
	}
	sort.Strings(caps)
	w("\n/-- capacity of every `make(chan error, n)` -/\ndef errChanCaps : List (String × Nat) := [%s]\n", strings.Join(caps, ", "))
	w("\n/-- error-channel sends that are NOT in a select with a ctx.Done() case -/\ndef bareErrSends : List String := %s\n", leanStrList(uniq(f.bareErrSends)))
	w("\n/-- functions that report errors through the guarded helper sendErr -/\ndef guardedErrSends : List String := %s\n", leanStrList(uniq(f.guardedSends)))
	w("def sendErrSelectsOnDone : Bool := %s\n", leanBool(f.sendErrGuarded))
	w("\n/-- From-Root feeder sends that are not guarded by ctx.Done() -/\ndef bareFeederSends : List String := %s\n", leanStrList(uniq(f.bareFeeder)))
	w("\n/-- hand-over sends (non-error channels) not guarded by ctx.Done() -/\ndef bareHandoverSends : List String := %s\n", leanStrList(uniq(f.handoverBare)))
	w("\n/-- tree methods that call enableValidation() -/\ndef enablesValidation : List String := %s\n", leanStrList(uniq(f.enablesVal)))
	w("\n/-- tree methods that read cfg.dryrun -/\ndef testsDryrun : List String := %s\n", leanStrList(uniq(f.testsDryrun)))
	w("\n/-- functions that call validateTreeRoot -/\ndef validatesRoot : List String := %s\n", leanStrList(uniq(f.validatesRoot)))
	w("\n/-- package-level variables of package gtree other than error sentinels -/\ndef pkgVars : List String := %s\n", leanStrList(uniq(f.pkgVars)))
	w("def idxCounterUses : List String := %s\n", leanStrList(uniq(f.pkgVarWrites["idxCounter"])))
	w("\ndef sharpWrittenUnderLock : Bool := %s\n", leanBool(f.sharpUnderLock))
	w("def spreadBranchUnderLock : Bool := %s\n", leanBool(f.spreadLocked))
	w("def lastByIdentity : Bool := %s\n", leanBool(f.lastByIdentity))
	w("def mainExitsNonZeroOnError : Bool := %s\n", leanBool(f.mainExitsNonZero))
	var ec []string
	for _, h := range f.exitHelpers {
		// the status a helper exits with: its second argument to cli.Exit, evaluated; an argument that is not an
		// integer constant of the package is rendered as 0 (the theorems then fail: nothing is known about it)
		v, ok := f.exitCodes[h[1]]
		if n, err := strconv.Atoi(h[1]); err == nil {
			v, ok = n, true
		}
		if !ok {
			v = 0
		}
		ec = append(ec, fmt.Sprintf("(%s, %d)", strconv.Quote(h[0]), v))
	}
	sort.Strings(ec)
	w("\n/-- cmd/gtree: the exit status of every helper that calls cli.Exit (constant expressions evaluated) -/\ndef cliExitCodes : List (String × Nat) := [%s]\n", strings.Join(ec, ", "))
	w("/-- cmd/gtree: which function reports through which helper -/\ndef cliActionExits : List String := %s\n", leanStrList(uniq(f.actionExits)))
	sort.Strings(f.structTags)
	w("/-- field tags of the record types handed to the encoders -/\ndef formattedTags : List (String × List String) := [%s]\n", strings.Join(f.structTags, ", "))
	w("def listSymbols : List String := %s\n", leanStrList(f.listSymbols))
	w("def verifierMutatingCalls : List String := %s\n", leanStrList(uniq(f.verifierMutates)))
	var al []string
	for k, v := range f.aliasPairs {
		al = append(al, fmt.Sprintf("(%s, %s)", strconv.Quote(k), leanBool(v)))
	}
	sort.Strings(al)
	w("\n/-- deprecated alias = replacement, compared by function body text -/\ndef aliasBodiesEqual : List (String × Bool) := [%s]\n", strings.Join(al, ", "))
	var ecf []string
	for k, v := range f.entryConfig {
		ecf = append(ecf, fmt.Sprintf("(%s, %s)", strconv.Quote(k), strconv.Quote(v)))
	}
	sort.Strings(ecf)
	w("\n/-- exported entry point ↦ the configuration constructor it calls (Output keeps the encoding option; Mkdir, Verify and Walk must not) -/\ndef entryConfig : List (String × String) := [%s]\n", strings.Join(ecf, ", "))
	strMap := func(m map[string][]string) string {
		var l []string
		for k, v := range m {
			vv := uniq(v)
			sort.Strings(vv)
			l = append(l, fmt.Sprintf("(%s, %s)", strconv.Quote(k), leanStrList(vv)))
		}
		sort.Strings(l)
		return "[" + strings.Join(l, ", ") + "]"
	}
	w("\n/-- pipeline stage type ↦ the struct types it embeds (whose methods are promoted) -/\ndef pipeEmbeds : List (String × List String) := %s\n", strMap(f.pipeEmbeds))
	w("/-- pipeline stage type ↦ the methods it declares itself (a promoted method of the same name would be shadowed) -/\ndef pipeMethods : List (String × List String) := %s\n", strMap(f.pipeMethods))
	w("/-- pipeline stage type ↦ the methods its worker calls on its receiver -/\ndef workerCalls : List (String × List String) := %s\n", strMap(f.workerCalls))
	ordMap := func(m map[string][]string) string {
		var l []string
		for k, v := range m {
			l = append(l, fmt.Sprintf("(%s, %s)", strconv.Quote(k), leanStrList(v)))
		}
		sort.Strings(l)
		return "[" + strings.Join(l, ", ") + "]"
	}
	w("/-- operation of *treeSimple ↦ the calls `t.<part>.<method>` it makes, in source order -/\ndef treeSimpleCalls : List (String × List String) := %s\n", ordMap(f.treeCalls))
	w("/-- constructor of a part of the simple tree ↦ the struct types of the composite literals it returns (→f: it delegates to constructor f) -/\ndef ctorReturns : List (String × List String) := %s\n", ordMap(f.ctorReturns))
	w("/-- operation of *treePipeline ↦ the stages it starts (`<part>.<method>`), its own helpers (`t.<method>`) and the splitter / generator constructors it calls, in source order -/\ndef treePipelineCalls : List (String × List String) := %s\n", ordMap(f.pipeCalls))
	w("/-- exported entry point ↦ `<initializer>.<operation>` of every call it makes on a freshly built tree -/\ndef entryTree : List (String × List String) := %s\n", ordMap(f.entryTree))
	w("/-- tree.go's initializeTree ↦ its tests, returns, assignments and calls in source order -/\ndef initTree : List (String × List String) := %s\n", ordMap(f.initTree))
	w("/-- row loop of a root generator ↦ its tests, calls, continues and returns in source order -/\ndef genSkeleton : List (String × List String) := %s\n", ordMap(f.genSkeleton))
	w("/-- simple-mode type ↦ the methods declared on it -/\ndef simpleMethods : List (String × List String) := %s\n", strMap(f.simpleMethods))
	w("/-- field of the treeSimple literal built by newTreeSimple ↦ the factory it calls, then the arguments -/\ndef treeSimpleFields : List (String × List String) := %s\n", ordMap(f.treeFields))
	w("/-- factory closure of newTreeSimple ↦ the constructors it calls, in source order -/\ndef factoryCtors : List (String × List String) := %s\n", ordMap(f.factoryCtors))
	var tg []string
	for k, v := range f.tagged {
		if strings.HasPrefix(k, "cmd") || strings.HasPrefix(k, "markdown") {
			continue
		}
		tg = append(tg, fmt.Sprintf("(%s, %s)", strconv.Quote(k), strconv.Quote(v)))
	}
	sort.Strings(tg)
	w("\n/-- build constraint of every non-test file of package gtree -/\ndef buildTags : List (String × String) := [%s]\n", strings.Join(tg, ", "))
	w("\nend Gtree.Facts\n")
	return sb.String()
}
