import Gtree.Lemmas.ParseRow
import Gtree.Lemmas.Build
import Gtree.Spec.Spelling
/-
  The rows of a spelled forest through the generator: every item row parses to its (hierarchy, name),
  blank rows are skipped, the parser state stays within the spelling's invariant.
-/
namespace Gtree

/-- `Parse` on a row that is neither blank nor a heading -/
theorem parse_list (st : PState) (row : Bytes) (hnb : isBlank row = false) (hhead : row.head? ≠ some 0x23) :
    parse st row =
      (match separateRow st row with
       | (st', none) => (st', .error .incorrect)
       | (st', some (spaceCount, afterText)) =>
         let text := trimPrefixB sp afterText
         if text.isEmpty then (st', .error .emptyText)
         else (st', .ok (calculateHierarchy st' spaceCount, text))) := by
  unfold parse
  simp only [hnb, Bool.false_eq_true, if_false]
  split
  · rename_i after; simp at hhead
  · rfl

theorem head_listRow (c b : UInt8) (m : Nat) (rest : Bytes) (hc : c = sp ∨ c = tab) (hb : b = hy ∨ b = ast ∨ b = pls) :
    (List.replicate m c ++ b :: rest).head? ≠ some 0x23 := by
  cases m with
  | zero => rcases hb with rfl | rfl | rfl <;> simp [hy, ast, pls]
  | succ m => rcases hc with rfl | rfl <;> simp [List.replicate_succ, sp, tab]

/-- a well-formed list row parses to its indentation count and name -/
theorem parse_listRow (st : PState) (c b : UInt8) (m : Nat) (name : Bytes)
    (hc : c = sp ∨ c = tab) (hb : b = hy ∨ b = ast ∨ b = pls)
    (hsep : st.sep = none ∨ st.sep = some c) (hsp : st.spaces = 0 ∨ m % st.spaces = 0)
    (hname : name ≠ []) :
    parse st (List.replicate m c ++ b :: sp :: name) =
      (afterRow st m c, .ok (calculateHierarchy (afterRow st m c) m, name)) := by
  have hb' : b = hy ∨ b = ast ∨ b = pls ∨ b = shp := by rcases hb with h | h | h <;> simp [h]
  rw [parse_list st _ (isBlank_indent_symbol c b hc hb' m _) (head_listRow c b m _ hc hb)]
  rw [separateRow_row st c b m name hc hb hsep hsp]
  have : trimPrefixB sp (sp :: name) = name := by simp [trimPrefixB]
  simp only [this]
  cases name with
  | nil => exact absurd rfl hname
  | cons x xs => simp

theorem trimLeftB_of_head (b : UInt8) (s : Bytes) (h : s.head? ≠ some b) : trimLeftB b s = s := by
  cases s with
  | nil => rfl
  | cons x xs =>
    have : (x == b) = false := by simpa using h
    simp [trimLeftB, this]

theorem trimB_of_ends (b : UInt8) (s : Bytes) (h1 : s.head? ≠ some b) (h2 : s.getLast? ≠ some b) : trimB b s = s := by
  unfold trimB trimRightB
  rw [trimLeftB_of_head b s h1, trimLeftB_of_head b s.reverse (by simpa using h2)]
  simp

/-- a heading row `# name` parses to a root and switches the heading mode on -/
theorem parse_sharpRow (st : PState) (name : Bytes) (hne : name ≠ [])
    (h1 : name.head? ≠ some sp) (h2 : name.getLast? ≠ some sp) :
    parse st (shp :: sp :: name) = ({ st with sharp := true }, .ok (1, name)) := by
  have hnb : isBlank (shp :: sp :: name) = false := by
    have := isBlank_indent_symbol sp shp (Or.inl rfl) (by simp) 0 (sp :: name)
    simpa using this
  unfold parse
  simp only [hnb, Bool.false_eq_true, if_false]
  have e1 : trimLeftB shp (sp :: name) = sp :: name := trimLeftB_of_head shp _ (by simp [sp, shp])
  have e2 : trimB sp (sp :: name) = name := by
    unfold trimB
    have : trimLeftB sp (sp :: name) = name := by
      simp only [trimLeftB, beq_self_eq_true, if_true]
      exact trimLeftB_of_head sp name h1
    rw [this]
    unfold trimRightB
    rw [trimLeftB_of_head sp name.reverse (by simpa using h2)]
    simp
  simp only [shp] at e1 ⊢
  simp only [e1, e2]
  cases name with
  | nil => exact absurd rfl hne
  | cons x xs => simp


/-- what the parser has learnt stays within what the spelling uses -/
structure PInv (s : Spelling) (p : PState) : Prop where
  sep : p.sep = none ∨ p.sep = some s.c
  spaces : p.spaces = 0 ∨ p.spaces = s.unit

theorem calcH_unindented (st : PState) (m : Nat) (h : st.sep = none) :
    calculateHierarchy st m = m + 1 + (if st.sharp then 1 else 0) := by
  unfold calculateHierarchy
  simp only [h, Option.isNone_none, Bool.or_true, if_true]
  split <;> rfl

theorem calcH_indented (st : PState) (c : UInt8) (k u : Nat) (hs : st.sep = some c) (hsp : st.spaces = u) (hu : 0 < u) :
    calculateHierarchy st (k * u) = k + 1 + (if st.sharp then 1 else 0) := by
  unfold calculateHierarchy
  have h0 : (u == 0) = false := by simp; omega
  simp only [hs, Option.isNone_some, Bool.or_false, hsp, h0, Bool.false_eq_true, if_false, Nat.mul_div_cancel k hu]
  split <;> rfl

theorem afterRow_sharp (p : PState) (m : Nat) (c : UInt8) : (afterRow p m c).sharp = p.sharp := by
  unfold afterRow
  split
  · rfl
  · split <;> simp [presep_sharp]

theorem afterRow_sep_zero (p : PState) (c : UInt8) : (afterRow p 0 c).sep = none := by
  simp [afterRow]

theorem afterRow_spaces_zero (p : PState) (c : UInt8) : (afterRow p 0 c).spaces = p.spaces := by
  simp [afterRow]

theorem afterRow_sep_pos (p : PState) (m : Nat) (c : UInt8) (hm : m ≠ 0) (hsep : p.sep = none ∨ p.sep = some c) :
    (afterRow p m c).sep = some c := by
  unfold afterRow
  simp only [hm, if_false]
  split <;> simp [presep_sep p c hsep]

theorem afterRow_spaces_pos (p : PState) (m : Nat) (c : UInt8) (hm : m ≠ 0) :
    (afterRow p m c).spaces = if p.spaces = 0 then m else p.spaces := by
  unfold afterRow
  simp only [hm, if_false, presep_spaces]
  by_cases h : p.spaces = 0
  · simp [h]
  · have : (p.spaces == 0) = false := by simpa using h
    simp [h, this, presep_spaces]

/-- one list row of the spelling, `k` levels deep, through `Parse` -/
theorem parse_listRow_spelling (s : Spelling) (p : PState) (i k : Nat) (n : Bytes)
    (hc : s.c = sp ∨ s.c = tab) (hunit : 1 ≤ s.unit)
    (hb : s.bullet i = hy ∨ s.bullet i = ast ∨ s.bullet i = pls)
    (hinv : PInv s p) (hfirst : p.spaces = 0 → k ≤ 1) (hn : n ≠ []) :
    ∃ p', parse p (listRow s i k n) = (p', .ok (k + 1 + (if p.sharp then 1 else 0), n)) ∧
      PInv s p' ∧ p'.sharp = p.sharp ∧ (p'.spaces = 0 → p.spaces = 0 ∧ k = 0) := by
  have hsp : p.spaces = 0 ∨ (k * s.unit) % p.spaces = 0 := by
    rcases hinv.spaces with h | h
    · exact Or.inl h
    · right; rw [h]; exact Nat.mul_mod_left k s.unit
  have hparse := parse_listRow p s.c (s.bullet i) (k * s.unit) n hc hb hinv.sep hsp hn
  by_cases hk : k = 0
  · subst hk
    simp only [Nat.zero_mul] at hparse
    refine ⟨afterRow p 0 s.c, ?_, ⟨Or.inl (afterRow_sep_zero p s.c), ?_⟩, afterRow_sharp p 0 s.c, ?_⟩
    · unfold listRow
      simp only [Nat.zero_mul]
      rw [hparse, calcH_unindented _ 0 (afterRow_sep_zero p s.c), afterRow_sharp]
    · rw [afterRow_spaces_zero]; exact hinv.spaces
    · intro h; rw [afterRow_spaces_zero] at h; exact ⟨h, rfl⟩
  · have hm : k * s.unit ≠ 0 := Nat.mul_ne_zero hk (by omega)
    have hspaces : (afterRow p (k * s.unit) s.c).spaces = s.unit := by
      rw [afterRow_spaces_pos p _ s.c hm]
      by_cases h0 : p.spaces = 0
      · have hk1 : k = 1 := by have := hfirst h0; omega
        simp [h0, hk1]
      · simp only [h0, if_false]
        rcases hinv.spaces with h | h
        · exact absurd h h0
        · exact h
    have hsepc := afterRow_sep_pos p (k * s.unit) s.c hm hinv.sep
    refine ⟨afterRow p (k * s.unit) s.c, ?_, ⟨Or.inr hsepc, Or.inr hspaces⟩, afterRow_sharp p _ s.c, ?_⟩
    · unfold listRow
      rw [hparse, calcH_indented _ s.c k s.unit hsepc hspaces (by omega), afterRow_sharp]
    · intro h; rw [hspaces] at h; omega


/-- indentation level of the list row of an item of hierarchy `h` (`none`: a heading row) -/
def kOf (s : Spelling) (h : Nat) : Option Nat :=
  if s.sharp then (if h = 1 then none else some (h - 2)) else some (h - 1)

/-- the first indented list row among the items is indented by exactly one level -/
def FIO (s : Spelling) : List (Nat × Bytes) → Prop
  | [] => True
  | (h, _) :: r => match kOf s h with
    | none => FIO s r
    | some k => if k = 0 then FIO s r else k = 1

/-- list rows of a heading-rooted spelling are parsed in heading mode -/
def SharpInv (s : Spelling) (p : PState) (its : List (Nat × Bytes)) : Prop :=
  if s.sharp then (p.sharp = true ∨ ∀ h n r, its = (h, n) :: r → h = 1) else p.sharp = false

/-- the row of one item through `Parse` -/
theorem parse_itemRow (s : Spelling) (p : PState) (i h : Nat) (n : Bytes) (rest : List (Nat × Bytes))
    (hc : s.c = sp ∨ s.c = tab) (hunit : 1 ≤ s.unit)
    (hb : s.bullet i = hy ∨ s.bullet i = ast ∨ s.bullet i = pls)
    (hh : 1 ≤ h) (hname : NameOk s h n)
    (hinv : PInv s p) (hfio : p.spaces = 0 → FIO s ((h, n) :: rest)) (hsharp : SharpInv s p ((h, n) :: rest)) :
    ∃ p', parse p (rowOf s i h n) = (p', .ok (h, n)) ∧ PInv s p' ∧
      (p'.spaces = 0 → FIO s rest) ∧ SharpInv s p' rest := by
  by_cases hs : s.sharp = true
  · -- heading-rooted spelling
    by_cases h1 : h = 1
    · subst h1
      refine ⟨{ p with sharp := true }, ?_, ⟨hinv.sep, hinv.spaces⟩, ?_, ?_⟩
      · simp only [rowOf, hs, if_true]
        exact parse_sharpRow p n hname.nonempty (hname.sharpHead hs rfl) (hname.sharpLast hs rfl)
      · intro h0
        have := hfio h0
        simpa [FIO, kOf, hs] using this
      · simp [SharpInv, hs]
    · have hps : p.sharp = true := by
        simp only [SharpInv, hs, if_true] at hsharp
        rcases hsharp with h | he
        · exact h
        · exact absurd (he _ _ _ rfl) h1
      have hfirst : p.spaces = 0 → h - 2 ≤ 1 := by
        intro h0
        have := hfio h0
        simp only [FIO, kOf, hs, if_true, h1, if_false] at this
        split at this <;> omega
      obtain ⟨p', hp, hinv', hsh', hsp'⟩ := parse_listRow_spelling s p i (h - 2) n hc hunit hb hinv hfirst hname.nonempty
      refine ⟨p', ?_, hinv', ?_, ?_⟩
      · simp only [rowOf, hs, if_true, h1, if_false]
        rw [hp, hps]
        have : h - 2 + 1 + (if true = true then 1 else 0) = h := by simp; omega
        rw [this]
      · intro h0
        obtain ⟨hp0, hk0⟩ := hsp' h0
        have := hfio hp0
        simp only [FIO, kOf, hs, if_true, h1, if_false, hk0] at this
        exact this
      · simp only [SharpInv, hs, if_true]
        left; rw [hsh', hps]
  · -- list roots
    have hs' : s.sharp = false := by simpa using hs
    have hps : p.sharp = false := by simpa [SharpInv, hs'] using hsharp
    have hfirst : p.spaces = 0 → h - 1 ≤ 1 := by
      intro h0
      have := hfio h0
      simp only [FIO, kOf, hs', Bool.false_eq_true, if_false] at this
      split at this <;> omega
    obtain ⟨p', hp, hinv', hsh', hsp'⟩ := parse_listRow_spelling s p i (h - 1) n hc hunit hb hinv hfirst hname.nonempty
    refine ⟨p', ?_, hinv', ?_, ?_⟩
    · simp only [rowOf, hs', Bool.false_eq_true, if_false]
      rw [hp, hps]
      have : h - 1 + 1 + (if false = true then 1 else 0) = h := by simp; omega
      rw [this]
    · intro h0
      obtain ⟨hp0, hk0⟩ := hsp' h0
      have := hfio hp0
      simp only [FIO, kOf, hs', Bool.false_eq_true, if_false, hk0, if_true] at this
      exact this
    · simp only [SharpInv, hs', Bool.false_eq_true, if_false]
      rw [hsh', hps]


/-- `addItem` neither reads nor changes the parser state -/
theorem addItem_with_p (g : GState) (q : PState) (h : Nat) (t row : Bytes) :
    addItem { g with p := q } h t row =
      (match addItem g h t row with
       | .ok r => .ok { r with p := q }
       | .error e => .error e) := by
  unfold addItem
  by_cases h1 : (h == 1) = true
  · simp [h1, GState.finishCur]
  · simp only [h1, Bool.false_eq_true, if_false]
    cases hc : g.cur with
    | none => simp
    | some z =>
      simp only
      cases dfs h t z <;> simp

/-- the row is only used in error messages -/
theorem addItem_row (g r : GState) (h : Nat) (t row row' : Bytes) (hok : addItem g h t row = .ok r) :
    addItem g h t row' = .ok r := by
  unfold addItem at hok ⊢
  by_cases h1 : (h == 1) = true
  · simpa [h1] using hok
  · simp only [h1, Bool.false_eq_true, if_false] at hok ⊢
    cases hc : g.cur with
    | none => simp [hc] at hok
    | some z =>
      simp only [hc] at hok ⊢
      cases hd : dfs h t z with
      | none => simp [hd] at hok
      | some z' => simpa [hd] using hok

theorem addItems_with_p (g : GState) (q : PState) (its : List (Nat × Bytes)) :
    addItems { g with p := q } its =
      (match addItems g its with
       | .ok r => .ok { r with p := q }
       | .error e => .error e) := by
  induction its generalizing g with
  | nil => simp [addItems]
  | cons it its ih =>
    obtain ⟨h, t⟩ := it
    simp only [addItems, addItem_with_p]
    cases addItem g h t [] with
    | error e => simp
    | ok r => simp [ih]

/-- blank rows are skipped -/
theorem genStep_blank (g : GState) (b : Bytes) (hb : isBlank b = true) : genStep g b = .ok g := by
  unfold genStep parse
  simp [hb]

theorem genRows_blanks (g : GState) (bs rows : List Bytes) (hb : ∀ b ∈ bs, isBlank b = true) :
    genRows g (bs ++ rows) = genRows g rows := by
  induction bs with
  | nil => rfl
  | cons b bs ih =>
    simp only [List.cons_append, genRows, genStep_blank g b (hb b (by simp))]
    exact ih (fun b' hb' => hb b' (by simp [hb']))

/-- The rows of a spelled item list through the generator: same outcome as feeding the items
    directly, and the parser state stays within the spelling's invariant. -/
theorem genRows_spelled (s : Spelling)
    (hc : s.c = sp ∨ s.c = tab) (hunit : 1 ≤ s.unit)
    (hbul : ∀ i, s.bullet i = hy ∨ s.bullet i = ast ∨ s.bullet i = pls)
    (hblank : ∀ i, ∀ b ∈ s.blanks i, isBlank b = true) :
    ∀ (its : List (Nat × Bytes)) (i : Nat) (g r : GState),
      (∀ it ∈ its, 1 ≤ it.1 ∧ NameOk s it.1 it.2) →
      PInv s g.p → (g.p.spaces = 0 → FIO s its) → SharpInv s g.p its →
      addItems g its = .ok r →
      ∃ p', genRows g (spellRows s i its) = ({ r with p := p' }, none) ∧ PInv s p'
  | [], i, g, r, _, hinv, _, _, hadd => by
    simp only [addItems, Except.ok.injEq] at hadd
    subst hadd
    exact ⟨g.p, by simp [spellRows, genRows], hinv⟩
  | (h, n) :: rest, i, g, r, hits, hinv, hfio, hsharp, hadd => by
    obtain ⟨hh, hname⟩ := hits (h, n) (by simp)
    obtain ⟨p', hparse, hinv', hfio', hsharp'⟩ :=
      parse_itemRow s g.p i h n rest hc hunit (hbul i) hh hname hinv hfio hsharp
    simp only [addItems] at hadd
    cases hai : addItem g h n [] with
    | error e => simp [hai] at hadd
    | ok g1 =>
      simp only [hai] at hadd
      have hstep : genStep g (rowOf s i h n) = .ok { g1 with p := p' } := by
        unfold genStep
        rw [hparse]
        simp only
        rw [addItem_with_p, addItem_row g g1 h n [] (rowOf s i h n) hai]
      have hadd' : addItems { g1 with p := p' } rest = .ok { r with p := p' } := by
        rw [addItems_with_p, hadd]
      obtain ⟨p'', hrows, hinv''⟩ := genRows_spelled s hc hunit hbul hblank rest (i + 1) { g1 with p := p' } { r with p := p' }
        (fun it hit => hits it (by simp [hit])) hinv' hfio' hsharp' hadd'
      refine ⟨p'', ?_, hinv''⟩
      simp only [spellRows]
      rw [genRows_blanks g _ _ (hblank i)]
      simp only [genRows, hstep]
      rw [hrows]

end Gtree
