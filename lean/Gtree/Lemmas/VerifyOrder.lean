import Gtree.Model.MkOps
namespace Gtree

/-- the simple verifier reports the first root that differs: it returns nil exactly when no root differs -/
theorem verifyRoots_none_iff (fs : FS) (target : Bytes) (strict : Bool) : ∀ (roots : List (List Visit)),
    verifyRoots fs target strict roots = none ↔ ∀ vs ∈ roots, verifyOne fs target strict vs = none
  | [] => by simp [verifyRoots]
  | vs :: rest => by
    have ih := verifyRoots_none_iff fs target strict rest
    simp only [verifyRoots, verifyOne, List.mem_cons, forall_eq_or_imp]
    cases hv : verifyRoot fs target vs with
    | error e => simp
    | ok d =>
      simp only
      by_cases hc : ((strict && !d.extra.isEmpty) || !d.missing.isEmpty) = true
      · simp [hc]
      · simp only [hc, Bool.false_eq_true, if_false, true_and]
        exact ih

/-- what it reports is what the worker of that root reports -/
theorem verifyRoots_some (fs : FS) (target : Bytes) (strict : Bool) : ∀ (roots : List (List Visit)) (e : VfErr),
    verifyRoots fs target strict roots = some e → ∃ vs ∈ roots, verifyOne fs target strict vs = some e
  | [], e, h => by simp [verifyRoots] at h
  | vs :: rest, e, h => by
    simp only [verifyRoots] at h
    cases hv : verifyRoot fs target vs with
    | error er =>
      simp only [hv, Option.some.injEq] at h
      exact ⟨vs, by simp, by simp [verifyOne, hv, h]⟩
    | ok d =>
      simp only [hv] at h
      by_cases hc : ((strict && !d.extra.isEmpty) || !d.missing.isEmpty) = true
      · simp only [hc, if_true, Option.some.injEq] at h
        exact ⟨vs, by simp, by simp [verifyOne, hv, hc, h]⟩
      · simp only [hc, Bool.false_eq_true, if_false] at h
        obtain ⟨ws, hws, he⟩ := verifyRoots_some fs target strict rest e h
        exact ⟨ws, by simp [hws], he⟩

end Gtree
