import Gtree.Lemmas.NetInv
/-
  The invariants of the K-stage pipeline model hold initially and are kept by every step.
-/
namespace Gtree.Net

/-- one stage replaced, the global flags unchanged -/
theorem inv_replace (n n' : Net) (h : Inv n) (pre post : List Stg) (a a' : Stg) (hs : n.stages = pre ++ a :: post)
    (hst : StgInv n.ecancel a')
    (hhead : n.ecancel = false → a'.errbuf = false → a'.done > 0 → lastOut n.srcClosed pre = true)
    (hout : a'.outClosed = a.outClosed ∨ a'.outClosed = true)
    (hlast : post = [] → a'.send = 0)
    (hn' : n'.stages = pre ++ a' :: post) (hsrc : n'.srcClosed = n.srcClosed) (hc : n'.cancelled = n.cancelled)
    (he : n'.ecancel = n.ecancel) (hr : n'.returned = n.returned) : Inv n' := by
  have hchain := h.chain
  rw [hs, chainInv_append] at hchain
  obtain ⟨hpre, _, htail⟩ := hchain
  refine ⟨by rw [hc, he]; exact h.ctx, by rw [hr, hc]; exact h.ret, ?_, ?_, ?_⟩
  · intro x hx
    rw [hn'] at hx
    rw [he]
    rcases mem_replace.mp hx with hx | rfl | hx
    · exact h.stg x (by rw [hs]; simp [hx])
    · exact hst
    · exact h.stg x (by rw [hs]; simp [hx])
  · rw [hn', hsrc, he, chainInv_append]
    refine ⟨hpre, hhead, ?_⟩
    rcases hout with ho | ho
    · rw [ho]; exact htail
    · rw [ho]; exact chainInv_inc_true _ _ _ htail
  · rw [hn', lastOk_append]
    have hl := h.last
    rw [hs, lastOk_append] at hl
    cases post with
    | nil => simpa [lastOk] using hlast rfl
    | cons b rest => rw [lastOk_cons_cons] at hl ⊢; exact hl

/-- the errgroup's context gets cancelled (or already is): the conditional invariants hold vacuously -/
theorem inv_ecancel (n n' : Net) (h : Inv n) (he : n'.ecancel = true) (hr : n'.returned = true → n'.cancelled = true)
    (hstg : ∀ x ∈ n'.stages, x.idle + x.send + x.err + x.done ≥ 1 ∧ (x.outClosed = true → x.quiet))
    (hlast : lastOk n'.stages) : Inv n' :=
  ⟨fun _ => he, hr, fun x hx => by rw [he]; exact ⟨(hstg x hx).1, (hstg x hx).2, fun h' => by simp at h'⟩,
   by rw [he]; exact chainInv_true _ _, hlast⟩

theorem head_of_old (n : Net) (h : Inv n) (pre post : List Stg) (a : Stg) (hs : n.stages = pre ++ a :: post) :
    n.ecancel = false → a.errbuf = false → a.done > 0 → lastOut n.srcClosed pre = true := by
  have hchain := h.chain
  rw [hs, chainInv_append] at hchain
  exact hchain.2.1

theorem stg_of_old (n : Net) (h : Inv n) (pre post : List Stg) (a : Stg) (hs : n.stages = pre ++ a :: post) :
    StgInv n.ecancel a := h.stg a (by rw [hs]; simp)

theorem last_send (n : Net) (h : Inv n) (pre : List Stg) (a : Stg) (hs : n.stages = pre ++ [a]) : a.send = 0 := by
  have hl := h.last
  rw [hs, lastOk_append] at hl
  simpa [lastOk] using hl

theorem chainInv_fresh (ec : Bool) : ∀ (ws : List Nat) (inc : Bool), chainInv ec inc (ws.map freshStg)
  | [], _ => trivial
  | w :: ws, inc => by
    simp only [List.map_cons, chainInv]
    exact ⟨by simp [freshStg], chainInv_fresh ec ws _⟩

theorem inv_init (todo : Nat) (workers : List Nat) (hw : ∀ w ∈ workers, w ≥ 1) : Inv (init todo workers) := by
  refine ⟨by simp [init], by simp [init], ?_, ?_, ?_⟩
  · intro a ha
    simp only [init, List.mem_map] at ha
    obtain ⟨w, hwm, rfl⟩ := ha
    refine ⟨by simp [freshStg]; exact hw w hwm, by simp [freshStg], by simp [freshStg]⟩
  · exact chainInv_fresh _ _ _
  · simp only [init]
    induction workers with
    | nil => trivial
    | cons w ws ih =>
      cases ws with
      | nil => simp [lastOk, freshStg]
      | cons w2 ws2 =>
        simp only [List.map_cons, lastOk_cons_cons]
        exact ih (fun x hx => hw x (by simp [hx]))

end Gtree.Net

namespace Gtree.Net

theorem outcome_inv {ec : Bool} {last : Bool} {b b' : Stg} (h : StgInv ec b) (ho : Outcome last b b') :
    StgInv ec b' ∧ b'.outClosed = b.outClosed ∧ b'.errbuf = b.errbuf ∧ b'.done = b.done ∧ (last = true → b'.send = b.send) := by
  cases ho with
  | ok hi hl =>
    refine ⟨stgInv_moved h (Or.inl hi) (by simp; omega) rfl rfl, rfl, rfl, rfl, ?_⟩
    intro hl'; rw [hl] at hl'; simp at hl'
  | okLast hi hl => exact ⟨h, rfl, rfl, rfl, fun _ => rfl⟩
  | fail hi => exact ⟨stgInv_moved h (Or.inl hi) (by simp; omega) rfl rfl, rfl, rfl, rfl, fun _ => rfl⟩

theorem inv_step (n n' : Net) (h : Inv n) (hstep : Step n n') : Inv n' := by
  rcases hstep with hs | hs
  · cases hs with
    | feed a a' post hst ht hc ho =>
      obtain ⟨hi, hout, hbuf, hdone, hsend⟩ := outcome_inv (stg_of_old n h [] post a hst) ho
      refine inv_replace n _ h [] post a a' hst hi ?_ (Or.inl hout) ?_ rfl rfl rfl rfl rfl
      · rw [hbuf, hdone]; exact head_of_old n h [] post a hst
      · intro hp
        subst hp
        rw [hsend (by simp)]
        exact last_send n h [] a hst
    | srcDone hc ht =>
      refine ⟨h.ctx, h.ret, h.stg, ?_, h.last⟩
      exact chainInv_inc_true _ _ _ h.chain
    | handover pre a b b' post hst hsend ho =>
      -- first the upstream stage, then the downstream one
      let a'' : Stg := { a with send := a.send - 1, idle := a.idle + 1 }
      have hia : StgInv n.ecancel a'' :=
        stgInv_moved (stg_of_old n h pre (b :: post) a hst) (Or.inr (Or.inl hsend)) (by simp [a'']; omega) rfl rfl
      have h1 : Inv { n with stages := pre ++ a'' :: b :: post } :=
        inv_replace n _ h pre (b :: post) a a'' hst hia (head_of_old n h pre (b :: post) a hst) (Or.inl rfl)
          (by intro hp; simp at hp) rfl rfl rfl rfl rfl
      have hst2 : ({ n with stages := pre ++ a'' :: b :: post } : Net).stages = (pre ++ [a'']) ++ b :: post := by simp
      obtain ⟨hi, hout, hbuf, hdone, hsendb⟩ := outcome_inv (stg_of_old _ h1 (pre ++ [a'']) post b hst2) ho
      refine inv_replace _ _ h1 (pre ++ [a'']) post b b' hst2 hi ?_ (Or.inl hout) ?_ (by simp [a'']) rfl rfl rfl rfl
      · rw [hbuf, hdone]; exact head_of_old _ h1 (pre ++ [a'']) post b hst2
      · intro hp
        subst hp
        rw [hsendb (by simp)]
        exact last_send _ h1 (pre ++ [a'']) b hst2
    | sendGiveUp pre a post hst hsend hc =>
      have hec := h.ctx hc
      have ha := stg_of_old n h pre post a hst
      refine inv_replace n _ h pre post a { a with send := a.send - 1, done := a.done + 1 } hst (stgInv_moved ha (Or.inr (Or.inl hsend)) (by simp; omega) rfl rfl) ?_ (Or.inl rfl) ?_ rfl rfl rfl rfl rfl
      · intro he; rw [hec] at he; simp at he
      · intro hp; subst hp
        have := last_send n h pre a hst
        simp; omega
    | idleExitFirst a post hst hi hc =>
      have ha := stg_of_old n h [] post a hst
      refine inv_replace n _ h [] post a { a with idle := a.idle - 1, done := a.done + 1 } hst (stgInv_moved ha (Or.inl hi) (by simp; omega) rfl rfl) ?_ (Or.inl rfl) ?_ rfl rfl rfl rfl rfl
      · intro he _ _
        rcases hc with hc | hc
        · simpa [lastOut] using hc
        · have := h.ctx hc; rw [he] at this; simp at this
      · intro hp; subst hp
        simpa using last_send n h [] a hst
    | idleExit pre p a post hst hi hc =>
      have hst2 : n.stages = (pre ++ [p]) ++ a :: post := by rw [hst]; simp
      have ha := stg_of_old n h (pre ++ [p]) post a hst2
      refine inv_replace n _ h (pre ++ [p]) post a { a with idle := a.idle - 1, done := a.done + 1 } hst2 (stgInv_moved ha (Or.inl hi) (by simp; omega) rfl rfl) ?_ (Or.inl rfl) ?_ (by simp) rfl rfl rfl rfl
      · intro he _ _
        rw [lastOut_snoc]
        rcases hc with hc | hc
        · exact hc
        · have := h.ctx hc; rw [he] at this; simp at this
      · intro hp; subst hp
        simpa using last_send n h (pre ++ [p]) a hst2
    | closeOut pre a post hst hq hc =>
      have ha := stg_of_old n h pre post a hst
      refine inv_replace n _ h pre post a { a with outClosed := true } hst ⟨ha.workers, fun _ => hq, ?_⟩ (head_of_old n h pre post a hst) (Or.inr rfl) ?_ rfl rfl rfl rfl rfl
      · intro he hw
        have := (ha.waiterGone he hw).1
        rw [hc] at this; simp at this
      · intro hp; subst hp
        simpa using last_send n h pre a hst
    | errSend pre a post hst he hb =>
      have ha := stg_of_old n h pre post a hst
      have hopen := live_open ha (Or.inr (Or.inr he))
      refine inv_replace n _ h pre post a { a with err := a.err - 1, done := a.done + 1, errbuf := true } hst ⟨by simp; omega, ?_, ?_⟩ ?_ (Or.inl rfl) ?_ rfl rfl rfl rfl rfl
      · intro hc; simp only at hc; rw [hopen] at hc; simp at hc
      · intro hec hw
        simp only at hw
        have := live_waiter ha hec (Or.inr (Or.inr he))
        rw [this] at hw; simp at hw
      · intro _ hbf; simp at hbf
      · intro hp; subst hp
        simpa using last_send n h pre a hst
    | errGiveUp pre a post hst he hc =>
      have hec := h.ctx hc
      have ha := stg_of_old n h pre post a hst
      refine inv_replace n _ h pre post a { a with err := a.err - 1, done := a.done + 1 } hst (stgInv_moved ha (Or.inr (Or.inr he)) (by simp; omega) rfl rfl) ?_ (Or.inl rfl) ?_ rfl rfl rfl rfl rfl
      · intro he'; rw [hec] at he'; simp at he'
      · intro hp; subst hp
        simpa using last_send n h pre a hst
    | recvErr pre a post hst hb hw =>
      refine inv_ecancel n { n with stages := pre ++ { a with errbuf := false, waiter := false } :: post, ecancel := true, sawErr := true } h rfl h.ret ?_ ?_
      · intro x hx
        simp only at hx
        rcases mem_replace.mp hx with hx | rfl | hx
        · have := h.stg x (by rw [hst]; simp [hx]); exact ⟨this.workers, this.closedQuiet⟩
        · have := stg_of_old n h pre post a hst; exact ⟨this.workers, this.closedQuiet⟩
        · have := h.stg x (by rw [hst]; simp [hx]); exact ⟨this.workers, this.closedQuiet⟩
      · simp only
        rw [lastOk_append]
        have hl := h.last
        rw [hst, lastOk_append] at hl
        cases post with
        | nil => simpa [lastOk] using hl
        | cons b rest => rw [lastOk_cons_cons] at hl ⊢; exact hl
    | recvClosed pre a post hst hw hq hb =>
      have ha := stg_of_old n h pre post a hst
      refine inv_replace n _ h pre post a { a with waiter := false } hst ⟨ha.workers, ha.closedQuiet, fun _ _ => ⟨hq, hb⟩⟩ (head_of_old n h pre post a hst) (Or.inl rfl) ?_ rfl rfl rfl rfl rfl
      intro hp; subst hp
      simpa using last_send n h pre a hst
    | waiterCancel pre a post hst hw hc =>
      have ha := stg_of_old n h pre post a hst
      refine inv_replace n _ h pre post a { a with waiter := false } hst ⟨ha.workers, ha.closedQuiet, ?_⟩ (head_of_old n h pre post a hst) (Or.inl rfl) ?_ rfl rfl rfl rfl rfl
      · intro he; rw [hc] at he; simp at he
      · intro hp; subst hp
        simpa using last_send n h pre a hst
    | ret hr hw =>
      refine inv_ecancel n { n with returned := true, cancelled := true, ecancel := true } h rfl (fun _ => rfl) ?_ ?_
      · intro x hx
        have := h.stg x hx; exact ⟨this.workers, this.closedQuiet⟩
      · exact h.last
  · cases hs with
    | cancel hc =>
      refine inv_ecancel n { n with cancelled := true, ecancel := true, callerCancelled := true } h rfl (fun _ => rfl) ?_ ?_
      · intro x hx
        have := h.stg x hx; exact ⟨this.workers, this.closedQuiet⟩
      · exact h.last

theorem inv_reach (n0 n : Net) (h0 : Inv n0) (hr : Reach n0 n) : Inv n := by
  induction hr with
  | refl => exact h0
  | step _ hs ih => exact inv_step _ _ ih hs

end Gtree.Net
