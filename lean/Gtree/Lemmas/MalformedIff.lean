import Gtree.Lemmas.ParseAny
import Gtree.Lemmas.ParseDoc
import Gtree.Lemmas.Build
import Gtree.Model.Generate
import Gtree.Spec.MalformedErr
/-
  The generator rejects a document exactly at its first malformed row (Spec/Malformed.lean), with the
  error of that row's class: a simulation between the generator's state (parser state + stack of open
  nodes) and the declarative notation.
-/
namespace Gtree

/-- the generator's state stands for the notation -/
structure Rel (g : GState) (n : Notation) : Prop where
  sharp : g.p.sharp = n.heading
  spaces : g.p.spaces = n.unit
  sep : g.p.sep = n.blank
  ok : SepOK g.p
  cur0 : g.cur = none ↔ n.level = 0
  len : ∀ z, g.cur = some z → z.length = n.level

theorem rel_init : Rel {} {} :=
  ⟨rfl, rfl, rfl, Or.inl rfl, by simp, by intro z h; simp at h⟩

theorem isBlank_of_indent : ∀ (ind : Bytes), (∀ y ∈ ind, y = sp ∨ y = tab) → ∀ fuel, ind.length ≤ fuel → isBlankFuel fuel ind = true
  | [], _, fuel, _ => by cases fuel <;> simp [isBlankFuel]
  | c :: rest, h, fuel, hf => by
    obtain ⟨f, rfl⟩ : ∃ f, fuel = f + 1 := ⟨fuel - 1, by simp at hf; omega⟩
    have hc : c = sp ∨ c = tab := h c (by simp)
    have hk : spaceRuneLen (c :: rest) = 1 := by rcases hc with rfl | rfl <;> simp [spaceRuneLen, sp, tab]
    simp only [isBlankFuel, hk]
    simp only [Nat.succ_ne_zero, beq_iff_eq, if_false, List.drop_succ_cons, List.drop_zero]
    exact isBlank_of_indent rest (fun y hy => h y (by simp [hy])) f (by simp at hf; omega)

/-- placing an accepted item: the generator's `addItem` is the notation's `place` -/
theorem addItem_place (g : GState) (n : Notation) (h : Nat) (text row : Bytes)
    (hcur0 : g.cur = none ↔ n.level = 0) (hlen : ∀ z, g.cur = some z → z.length = n.level) (hh : 1 ≤ h) :
    match place n h with
    | .error m => addItem g h text row = .error (toGErr (row, m)) ∧ (m = .orphan ∨ m = .jump)
    | .ok n' => ∃ g', addItem g h text row = .ok g' ∧ g'.p = g.p ∧ (g'.cur = none ↔ n'.level = 0) ∧
        (∀ z, g'.cur = some z → z.length = n'.level) ∧ n'.heading = n.heading ∧ n'.unit = n.unit ∧ n'.blank = n.blank := by
  unfold place addItem
  by_cases h1 : (h == 1) = true
  · simp only [h1, if_true]
    refine ⟨_, rfl, rfl, by simp, ?_, by first | rfl | trivial, by first | rfl | trivial, by first | rfl | trivial⟩
    intro z hz
    simp only [Option.some.injEq] at hz
    subst hz; rfl
  · simp only [h1, Bool.false_eq_true, if_false]
    have hh2 : 2 ≤ h := by
      have : h ≠ 1 := by simpa using h1
      omega
    by_cases h2 : (n.level == 0) = true
    · have hl : n.level = 0 := by simpa using h2
      have hc : g.cur = none := hcur0.mpr hl
      simp [h2, hc, toGErr]
    · have hl : n.level ≠ 0 := by simpa using h2
      simp only [h2, Bool.false_eq_true, if_false]
      cases hc : g.cur with
      | none => exact absurd (hcur0.mp hc) hl
      | some z =>
        have hz := hlen z hc
        simp only
        unfold dfs
        have h3 : ¬ h < 2 := by omega
        simp only [h3, if_false]
        by_cases h4 : n.level + 1 < h
        · have : z.length < h - 1 := by omega
          simp [h4, this, toGErr]
        · have h5 : ¬ z.length < h - 1 := by omega
          simp only [h4, h5, if_false]
          refine ⟨_, rfl, rfl, by simp; omega, ?_, by first | rfl | trivial, by first | rfl | trivial, by first | rfl | trivial⟩
          intro z' hz'
          simp only [Option.some.injEq] at hz'
          subst hz'
          have hcl := closeTo_length (h - 1) z (by omega) (by omega)
          cases hct : closeTo (h - 1) z with
          | nil => rw [hct] at hcl; simp at hcl; omega
          | cons f rest =>
            rw [hct] at hcl
            rw [descend_length]
            simp only [List.length_cons] at hcl
            show rest.length + 2 = h
            omega


/-- what `genStep` does with an accepted item, given what the parser returned -/
theorem genStep_of_parse (g : GState) (row : Bytes) (p' : PState) (h : Nat) (text : Bytes)
    (hp : parse g.p row = (p', .ok (h, text))) :
    genStep g row = addItem { g with p := p' } h text row := by
  simp [genStep, hp]

theorem genStep_of_incorrect (g : GState) (row : Bytes) (p' : PState)
    (hp : parse g.p row = (p', .error .incorrect)) : genStep g row = .error (.format row) := by
  simp [genStep, hp]

theorem genStep_of_empty (g : GState) (row : Bytes) (p' : PState)
    (hp : parse g.p row = (p', .error .emptyText)) : genStep g row = .error .emptyText := by
  simp [genStep, hp]

/-- the judgement of a row that is not blank and not a heading -/
def judgeList (n : Notation) (row : Bytes) : Option (Except Malformation Notation) :=
  match afterIndent row with
  | [] => some (.error .noBullet)
  | b :: text =>
    if !isBulletByte b then some (.error .noBullet)
    else
      let ind := indentOf row
      let deeper := if n.heading then 1 else 0
      match ind with
      | [] =>
        if (trimPrefixB sp text).isEmpty then some (.error .emptyText)
        else some (place { n with blank := none } (1 + deeper))
      | c :: _ =>
        let d := n.blank.getD c
        if !(ind.all (· == d)) then some (.error .badIndent)
        else
          let m := ind.length
          let unit := if n.unit == 0 then m else n.unit
          if 2 ≤ unit && m % unit != 0 then some (.error .badIndent)
          else if (trimPrefixB sp text).isEmpty then some (.error .emptyText)
          else some (place { n with blank := some d, unit := unit } (m / unit + 1 + deeper))

theorem judge_list (n : Notation) (row : Bytes) (hnb : isBlank row = false) (hhead : row.head? ≠ some 0x23) :
    judge n row = judgeList n row := by
  unfold judge judgeList
  simp only [hnb, Bool.false_eq_true, if_false]
  split
  · rename_i after; simp at hhead
  · rfl

theorem judge_heading (n : Notation) (after : Bytes) (hnb : isBlank (0x23 :: after) = false) :
    judge n (0x23 :: after) =
      if (trimB sp (trimLeftB shp after)).isEmpty then some (.error .emptyText)
      else some (.ok { n with heading := true, level := 1 }) := by
  unfold judge
  simp only [hnb, Bool.false_eq_true, if_false]

/-- **One row**: the generator and the declarative judgement agree — a blank row is skipped, a malformed row
    is rejected with the error of its class, a well-formed item is accepted and the new generator state
    stands for the new notation. -/
theorem step_rel (g : GState) (n : Notation) (row : Bytes) (hr : Rel g n) :
    match judge n row with
    | none => genStep g row = .ok g
    | some (.error m) => genStep g row = .error (toGErr (row, m))
    | some (.ok n') => ∃ g', genStep g row = .ok g' ∧ Rel g' n' := by
  by_cases hb : isBlank row = true
  · have : judge n row = none := by simp [judge, hb]
    rw [this]
    simp [genStep, parse, hb]
  · have hb' : isBlank row = false := by simpa using hb
    by_cases hh : row.head? = some 0x23
    · -- a heading row
      obtain ⟨after, rfl⟩ : ∃ after, row = 0x23 :: after := by
        cases row with
        | nil => simp at hh
        | cons x xs => simp only [List.head?_cons, Option.some.injEq] at hh; exact ⟨xs, by rw [hh]⟩
      rw [judge_heading n after hb']
      have hp : parse g.p (0x23 :: after) = (({ g.p with sharp := true } : PState),
          (if (trimB sp (trimLeftB shp after)).isEmpty then Except.error PErr.emptyText
           else Except.ok (1, trimB sp (trimLeftB shp after)))) := by
        unfold parse
        simp only [hb', Bool.false_eq_true, if_false]
        split <;> rfl
      by_cases ht : (trimB sp (trimLeftB shp after)).isEmpty = true
      · simp only [ht, if_true] at hp ⊢
        simpa [toGErr] using genStep_of_empty g _ _ hp
      · have ht' : (trimB sp (trimLeftB shp after)).isEmpty = false := by simpa using ht
        simp only [ht', Bool.false_eq_true, if_false] at hp ⊢
        rw [genStep_of_parse g _ _ _ _ hp]
        refine ⟨_, rfl, ?_⟩
        exact ⟨rfl, hr.spaces, hr.sep, hr.ok, by simp, by intro z hz; simp at hz; subst hz; rfl⟩
    · -- a list row (or something else)
      have hhead : row.head? ≠ some 0x23 := hh
      rw [judge_list n row hb' hhead]
      unfold judgeList
      have hpl := parse_list g.p row hb' hhead
      have hsplit := row_split row
      have hind := indentOf_blank row
      cases hai : afterIndent row with
      | nil =>
        -- only blanks: such a row is blank
        exfalso
        rw [hai, List.append_nil] at hsplit
        have : isBlank row = true := by
          unfold isBlank
          rw [hsplit]
          exact isBlank_of_indent (indentOf row) hind _ (Nat.le_refl _)
        rw [this] at hb'; exact Bool.noConfusion hb'
      | cons x tl =>
        have hx := afterIndent_head row x tl hai
        rw [hai] at hsplit
        simp only
        by_cases hbu : isBulletByte x = true
        · simp only [hbu, Bool.not_true, Bool.false_eq_true, if_false]
          -- the row's own symbol decides
          have hbn : x ∉ indentOf row := by
            intro hmem
            rcases hind x hmem with e | e <;> simp [isIndentByte, e] at hx
          obtain ⟨hnone, hsome⟩ := separateRow_bullet g.p (indentOf row) tl x hind hbu hr.ok
          rw [attempt_own g.p (indentOf row) tl x hind hbn] at hnone hsome
          rw [← hsplit] at hnone hsome
          cases hio : indentOf row with
          | nil =>
            -- an unindented item
            rw [hio] at hsome
            have hsr : separateRow g.p row = (({ g.p with sep := none } : PState), some (0, tl)) :=
              hsome (0, tl) rfl
            rw [hsr] at hpl
            simp only at hpl ⊢
            by_cases ht : (trimPrefixB sp tl).isEmpty = true
            · simp only [ht, if_true] at hpl ⊢
              simpa [toGErr] using genStep_of_empty g _ _ hpl
            · have ht' : (trimPrefixB sp tl).isEmpty = false := by simpa using ht
              simp only [ht', Bool.false_eq_true, if_false] at hpl ⊢
              rw [genStep_of_parse g _ _ _ _ hpl]
              have hlvl : calculateHierarchy ({ g.p with sep := none } : PState) 0 = 1 + (if n.heading = true then 1 else 0) := by
                simp only [calculateHierarchy, Option.isNone_none, Bool.or_true, if_true, Nat.zero_add, hr.sharp]
                split <;> omega
              rw [hlvl]
              have hpl2 := addItem_place ({ g with p := ({ g.p with sep := none } : PState) }) ({ n with blank := none })
                (1 + (if n.heading = true then 1 else 0)) (trimPrefixB sp tl) row hr.cur0 hr.len (by omega)
              cases hpc : place ({ n with blank := none }) (1 + (if n.heading = true then 1 else 0)) with
              | error m =>
                rw [hpc] at hpl2
                exact hpl2.1
              | ok n' =>
                rw [hpc] at hpl2
                obtain ⟨g', hg', hp', hc0, hl, hh, hu, hbk⟩ := hpl2
                refine ⟨g', hg', ?_⟩
                refine ⟨?_, ?_, ?_, ?_, hc0, hl⟩
                · rw [hp', hh]; exact hr.sharp
                · rw [hp', hu]; exact hr.spaces
                · rw [hp', hbk]
                · rw [hp']; exact Or.inl rfl
          | cons c ind' =>
            rw [hio] at hsome hnone
            have hc : c = sp ∨ c = tab := hind c (by rw [hio]; simp)
            -- the blank the indentation must be written in
            have hd : (presep g.p c).sep = some (n.blank.getD c) := by
              unfold presep
              rw [← hr.sep]
              cases hs : g.p.sep <;> simp [hs]
            have hdblank : n.blank.getD c = sp ∨ n.blank.getD c = tab := by
              have := sepOK_presep g.p c hr.ok hc
              unfold SepOK at this
              rw [hd] at this
              rcases this with h | h | h
              · simp at h
              · left; simpa using h
              · right; simpa using h
            rw [ownAttempt_cons g.p c ind' tl (n.blank.getD c) hd] at hsome hnone
            simp only [hr.spaces] at hsome hnone
            have hlen : (c :: ind').length = ind'.length + 1 := rfl
            simp only [hlen]
            by_cases hall : (c :: ind').all (· == n.blank.getD c) = true
            · simp only [hall, Bool.not_true, Bool.false_eq_true, if_false] at hsome hnone ⊢
              by_cases hmod : (decide (2 ≤ (if (n.unit == 0) = true then ind'.length + 1 else n.unit)) &&
                  (ind'.length + 1) % (if (n.unit == 0) = true then ind'.length + 1 else n.unit) != 0) = true
              · simp only [hmod, if_true] at hsome hnone ⊢
                have := hnone trivial
                cases hs : separateRow g.p row with
                | mk st' r =>
                  rw [hs] at this hpl
                  simp only at this
                  subst this
                  simpa [toGErr] using genStep_of_incorrect g _ _ hpl
              · have hmod' : (decide (2 ≤ (if (n.unit == 0) = true then ind'.length + 1 else n.unit)) &&
                  (ind'.length + 1) % (if (n.unit == 0) = true then ind'.length + 1 else n.unit) != 0) = false := by
                  simpa using hmod
                simp only [hmod', Bool.false_eq_true, if_false] at hsome hnone ⊢
                have hsr := hsome _ rfl
                rw [hsr] at hpl
                simp only at hpl
                by_cases ht : (trimPrefixB sp tl).isEmpty = true
                · simp only [ht, if_true] at hpl ⊢
                  simpa [toGErr] using genStep_of_empty g _ _ hpl
                · have ht' : (trimPrefixB sp tl).isEmpty = false := by simpa using ht
                  simp only [ht', Bool.false_eq_true, if_false] at hpl ⊢
                  rw [genStep_of_parse g _ _ _ _ hpl]
                  -- the level the parser computes
                  have hunit : (if (n.unit == 0) = true then ind'.length + 1 else n.unit) ≠ 0 := by
                    split
                    · omega
                    · rename_i h; simpa using h
                  have hlvl : calculateHierarchy ({ presep g.p c with spaces := (if (n.unit == 0) = true then ind'.length + 1 else n.unit) } : PState) (ind'.length + 1)
                      = (ind'.length + 1) / (if (n.unit == 0) = true then ind'.length + 1 else n.unit) + 1 + (if n.heading = true then 1 else 0) := by
                    have h0 : ((if (n.unit == 0) = true then ind'.length + 1 else n.unit) == 0) = false := by simpa using hunit
                    simp only [calculateHierarchy, hd, Option.isNone_some, Bool.or_false, h0, Bool.false_eq_true, if_false,
                      presep_sharp, hr.sharp]
                    split <;> omega
                  rw [hlvl]
                  have hpl2 := addItem_place
                    ({ g with p := ({ presep g.p c with spaces := (if (n.unit == 0) = true then ind'.length + 1 else n.unit) } : PState) })
                    ({ n with blank := some (n.blank.getD c), unit := (if (n.unit == 0) = true then ind'.length + 1 else n.unit) })
                    ((ind'.length + 1) / (if (n.unit == 0) = true then ind'.length + 1 else n.unit) + 1 + (if n.heading = true then 1 else 0))
                    (trimPrefixB sp tl) row hr.cur0 hr.len (Nat.le_trans (Nat.le_add_left 1 _) (Nat.le_add_right _ _))
                  cases hpc : place ({ n with blank := some (n.blank.getD c), unit := (if (n.unit == 0) = true then ind'.length + 1 else n.unit) })
                      ((ind'.length + 1) / (if (n.unit == 0) = true then ind'.length + 1 else n.unit) + 1 + (if n.heading = true then 1 else 0)) with
                  | error m =>
                    rw [hpc] at hpl2
                    exact hpl2.1
                  | ok n' =>
                    rw [hpc] at hpl2
                    obtain ⟨g', hg', hp', hc0, hl, hh, hu, hbk⟩ := hpl2
                    refine ⟨g', hg', ?_⟩
                    refine ⟨?_, ?_, ?_, ?_, hc0, hl⟩
                    · rw [hp', hh]; simp only [presep_sharp]; exact hr.sharp
                    · rw [hp', hu]
                    · rw [hp', hbk]; exact hd
                    · rw [hp']
                      unfold SepOK
                      simp only [hd]
                      rcases hdblank with h | h
                      · right; left; rw [h]
                      · right; right; rw [h]
            · have hall' : (c :: ind').all (· == n.blank.getD c) = false := by simpa using hall
              simp only [hall', Bool.not_false, if_true] at hsome hnone ⊢
              have := hnone trivial
              cases hs : separateRow g.p row with
              | mk st' r =>
                rw [hs] at this hpl
                simp only at this
                subst this
                simpa [toGErr] using genStep_of_incorrect g _ _ hpl
        · have hbu' : isBulletByte x = false := by simpa using hbu
          simp only [hbu', Bool.not_false, if_true]
          have hnone := separateRow_no_bullet g.p (indentOf row) tl x hind hx hbu' hr.ok
          rw [← hsplit] at hnone
          cases hs : separateRow g.p row with
          | mk st' r =>
            rw [hs] at hnone hpl
            simp only at hnone
            subst hnone
            simpa [toGErr] using genStep_of_incorrect g _ _ hpl


/-- **Every document**: the row fold stops with an error exactly at the first malformed row, with the
    error of that row's class; it runs through when no row is malformed. -/
theorem genRows_firstMalformed : ∀ (rows : List Bytes) (g : GState) (n : Notation), Rel g n →
    (genRows g rows).2 = (firstMalformed n rows).map toGErr
  | [], g, n, _ => rfl
  | r :: rs, g, n, hr => by
    have hstep := step_rel g n r hr
    unfold genRows firstMalformed
    cases hj : judge n r with
    | none =>
      rw [hj] at hstep
      simp only [hstep]
      exact genRows_firstMalformed rs g n hr
    | some res =>
      cases res with
      | error m =>
        rw [hj] at hstep
        simp only [hstep, Option.map_some]
      | ok n' =>
        rw [hj] at hstep
        obtain ⟨g', hg', hr'⟩ := hstep
        simp only [hg']
        exact genRows_firstMalformed rs g' n' hr'

end Gtree
