import Gtree.Lemmas.BlockAnyState
/-
  Row-level interleaving over the shared parser. While a generator worker parses the rows of its block,
  other workers put rows of other blocks of the same document through the same parser. From the
  worker's point of view the parser state changes arbitrarily between two of its rows, within what
  parsing rows of the notation can do to it (`Evolves`). Whatever those changes are, the worker
  builds the root the simple mode builds.
-/
namespace Gtree

/-- what other workers' parse steps can do to the shared parser between two rows of this worker:
    the state stays within the notation, a learnt indent unit is never forgotten, heading mode is never left -/
structure Evolves (s : Spelling) (p q : PState) : Prop where
  within : q.Within s
  learnt : q.spaces = 0 → p.spaces = 0
  sticky : p.sharp = true → q.sharp = true

theorem Evolves.refl (s : Spelling) (p : PState) (h : p.Within s) : Evolves s p p := ⟨h, id, id⟩

theorem Evolves.trans {s : Spelling} {p q r : PState} (h1 : Evolves s p q) (h2 : Evolves s q r) : Evolves s p r :=
  ⟨h2.within, fun h => h1.learnt (h2.learnt h), fun h => h2.sticky (h1.sticky h)⟩

/-- the generator over rows, the shared parser being changed (by `hv`) before every row -/
def genRowsHavoc (hv : Nat → PState → PState) : Nat → GState → List Bytes → GState × Option GErr
  | _, g, [] => (g, none)
  | j, g, r :: rs =>
    match genStep { g with p := hv j g.p } r with
    | .error e => (g, some e)
    | .ok g' => genRowsHavoc hv (j + 1) g' rs

theorem genRowsHavoc_blanks (hv : Nat → PState → PState) (s : Spelling) (hhv : ∀ j p, p.Within s → Evolves s p (hv j p)) :
    ∀ (bs : List Bytes) (j : Nat) (g : GState) (rows : List Bytes), (∀ b ∈ bs, isBlank b = true) → g.p.Within s →
      ∃ q, Evolves s g.p q ∧ genRowsHavoc hv j g (bs ++ rows) = genRowsHavoc hv (j + bs.length) { g with p := q } rows
  | [], j, g, rows, _, hw => ⟨g.p, Evolves.refl s g.p hw, by simp⟩
  | b :: bs, j, g, rows, hb, hw => by
    have he := hhv j g.p hw
    have hstep : genStep { g with p := hv j g.p } b = .ok { g with p := hv j g.p } :=
      genStep_blank _ b (hb b (by simp))
    obtain ⟨q, hq, hrest⟩ := genRowsHavoc_blanks hv s hhv bs (j + 1) { g with p := hv j g.p } rows
      (fun x hx => hb x (by simp [hx])) he.within
    refine ⟨q, he.trans hq, ?_⟩
    simp only [List.cons_append, genRowsHavoc, hstep, hrest, List.length_cons]
    congr 1
    omega

/-- the rows of a spelled item list through the generator, with the shared parser changing under it:
    same outcome as feeding the items directly -/
theorem genRows_spelled_havoc (s : Spelling)
    (hc : s.c = sp ∨ s.c = tab) (hunit : 1 ≤ s.unit)
    (hbul : ∀ i, s.bullet i = hy ∨ s.bullet i = ast ∨ s.bullet i = pls)
    (hblank : ∀ i, ∀ b ∈ s.blanks i, isBlank b = true)
    (hv : Nat → PState → PState) (hhv : ∀ j p, p.Within s → Evolves s p (hv j p)) :
    ∀ (its : List (Nat × Bytes)) (i j : Nat) (g r : GState),
      (∀ it ∈ its, 1 ≤ it.1 ∧ NameOk s it.1 it.2) →
      g.p.Within s → (g.p.spaces = 0 → FIO s its) → SharpInv s g.p its →
      addItems g its = .ok r →
      ∃ p', (genRowsHavoc hv j g (spellRows s i its)).2 = none ∧
        (genRowsHavoc hv j g (spellRows s i its)).1 = { r with p := p' } ∧ p'.Within s
  | [], i, j, g, r, _, hw, _, _, hadd => by
    simp only [addItems, Except.ok.injEq] at hadd
    subst hadd
    exact ⟨g.p, by simp [spellRows, genRowsHavoc], by simp [spellRows, genRowsHavoc], hw⟩
  | (h, n) :: rest, i, j, g, r, hits, hw, hfio, hsharp, hadd => by
    obtain ⟨hh, hname⟩ := hits (h, n) (by simp)
    -- the blank rows before the item row, then one more change of the parser
    obtain ⟨q0, hq0, hbl⟩ := genRowsHavoc_blanks hv s hhv (s.blanks i) j g (rowOf s i h n :: spellRows s (i + 1) rest)
      (hblank i) hw
    have hq1 := hhv (j + (s.blanks i).length) q0 hq0.within
    obtain ⟨q, hqdef⟩ : ∃ q, q = hv (j + (s.blanks i).length) q0 := ⟨_, rfl⟩
    have hq : Evolves s g.p q := by rw [hqdef]; exact hq0.trans hq1
    have hfioq : q.spaces = 0 → FIO s ((h, n) :: rest) := fun h0 => hfio (hq.learnt h0)
    have hsharpq : SharpInv s q ((h, n) :: rest) := by
      unfold SharpInv at hsharp ⊢
      by_cases hs : s.sharp = true
      · rw [if_pos hs] at hsharp ⊢
        rcases hsharp with h1 | h1
        · exact Or.inl (hq.sticky h1)
        · exact Or.inr h1
      · rw [if_neg hs] at hsharp ⊢
        exact hq.within.sharp (by simpa using hs)
    obtain ⟨p', hparse, hinv', hfio', hsharp'⟩ :=
      parse_itemRow s q i h n rest hc hunit (hbul i) hh hname hq.within.inv hfioq hsharpq
    have hw' : p'.Within s := by
      refine ⟨hinv', ?_⟩
      intro hs
      have h1 := (parse_class q (rowOf s i h n)).1
      rw [hparse] at h1
      simp only at h1
      rw [h1, hq.within.sharp hs]
      simp only [rowOf, hs, Bool.false_eq_true, if_false, Bool.false_or]
      exact listRow_not_sharp s i (h - 1) n hc (hbul i)
    simp only [addItems] at hadd
    cases hai : addItem g h n [] with
    | error e => simp [hai] at hadd
    | ok g1 =>
      simp only [hai] at hadd
      have hstep : genStep { g with p := q } (rowOf s i h n) = .ok { g1 with p := p' } := by
        unfold genStep
        simp only
        rw [hparse]
        simp only
        rw [addItem_with_p, addItem_row g g1 h n [] (rowOf s i h n) hai]
      have hadd' : addItems { g1 with p := p' } rest = .ok { r with p := p' } := by
        rw [addItems_with_p, hadd]
      obtain ⟨p'', hnone, hres, hw''⟩ := genRows_spelled_havoc s hc hunit hbul hblank hv hhv rest (i + 1)
        (j + (s.blanks i).length + 1) { g1 with p := p' } { r with p := p' }
        (fun it hit => hits it (by simp [hit])) hw' hfio' hsharp' hadd'
      have hgo : genRowsHavoc hv j g (spellRows s i ((h, n) :: rest)) =
          genRowsHavoc hv (j + (s.blanks i).length + 1) { g1 with p := p' } (spellRows s (i + 1) rest) := by
        simp only [spellRows]
        rw [hbl]
        simp only [genRowsHavoc]
        rw [← hqdef, hstep]
      rw [hgo]
      exact ⟨p'', hnone, hres, hw''⟩

end Gtree

namespace Gtree

/-- a generator worker's block under row-level interleaving: whatever the other workers do to the shared
    parser between two of its rows (within `Evolves`), it hands on the merged root the simple mode builds -/
theorem block_havoc (s : Spelling) (t : T) (i : Nat) (p : PState)
    (hv : Nat → PState → PState) (hhv : ∀ j q, q.Within s → Evolves s q (hv j q))
    (hvalid : s.Valid (items 1 [t])) (hp : p.Within s) :
    ∃ g, genRowsHavoc hv 0 { p := p } (spellRows s i (items 1 [t])) = (g, none) ∧
      g.root = some (mergeRoot t) ∧ g.done = [] ∧ g.p.Within s := by
  cases t with
  | mk r ks =>
    obtain ⟨z', hadd, hclose⟩ := addItems_one_root p r ks
    have hits : ∀ it ∈ items 1 [T.mk r ks], 1 ≤ it.1 ∧ NameOk s it.1 it.2 :=
      fun it hit => ⟨items_ge 1 _ it hit, hvalid.names it hit⟩
    have hsharp : SharpInv s p (items 1 [T.mk r ks]) := by
      unfold SharpInv
      by_cases hs : s.sharp = true
      · rw [if_pos hs]
        right
        intro h n rest he
        simp only [items, List.append_nil, List.cons.injEq, Prod.mk.injEq] at he
        exact he.1.1.symm
      · rw [if_neg hs]
        exact hp.sharp (by simpa using hs)
    obtain ⟨p', hnone, hres, hw⟩ := genRows_spelled_havoc s hvalid.hc hvalid.hunit hvalid.hbullet
      (fun i b hb => (hvalid.hblank i b hb).1) hv hhv (items 1 [T.mk r ks]) i 0 { p := p } _ hits hp
      (fun _ => fio_items s [T.mk r ks]) hsharp hadd
    cases hrun : genRowsHavoc hv 0 { p := p } (spellRows s i (items 1 [T.mk r ks])) with
    | mk g e =>
      rw [hrun] at hnone hres
      simp only at hnone hres
      subst hnone hres
      exact ⟨_, rfl, by simp [GState.root, hclose], rfl, hw⟩

/-- an indent unit that has been learnt is never overwritten -/
theorem attempt_spaces (st : PState) (row : Bytes) (s : UInt8) (h0 : st.spaces ≠ 0) : (attempt st row s).1.spaces = st.spaces := by
  cases hc : cut s row with
  | none => simp [attempt, hc]
  | some pr =>
    obtain ⟨before, aft⟩ := pr
    cases before with
    | nil => simp [attempt, hc]
    | cons c tl =>
      by_cases hct : (c == sp || c == tab) = true
      · rw [attempt_ws st row s c tl aft hc hct]
        extract_lets st1 cnt st2
        have hs1 : st1.spaces = st.spaces := by simp only [st1]; split <;> rfl
        have hs2 : st2.spaces = st1.spaces := by
          simp only [st2]
          have : (st1.spaces == 0) = false := by rw [hs1]; simpa using h0
          simp [this]
        split
        · exact hs1
        · split
          · rw [hs2, hs1]
          · split <;> rw [hs2, hs1]
      · have hcf : (c == sp || c == tab) = false := by simpa using hct
        simp [attempt, hc, hcf]

theorem separateRowAux_spaces (row : Bytes) : ∀ (syms : List UInt8) (st : PState), st.spaces ≠ 0 →
    (separateRowAux st row syms).1.spaces = st.spaces
  | [], st, _ => rfl
  | s :: ss, st, h0 => by
    simp only [separateRowAux]
    have h1 := attempt_spaces st row s h0
    cases ha : attempt st row s with
    | mk st1 r =>
      rw [ha] at h1
      cases r with
      | some v => exact h1
      | none =>
        simp only
        rw [separateRowAux_spaces row ss st1 (by rw [h1]; exact h0)]; exact h1

theorem parse_keeps_spaces (p : PState) (row : Bytes) (h0 : p.spaces ≠ 0) : (parse p row).1.spaces = p.spaces := by
  unfold parse
  split
  · rfl
  · split
    · simp only
      split <;> rfl
    · have h1 := separateRowAux_spaces row listSymbols p h0
      cases hs : separateRow p row with
      | mk st' r =>
        have hs' : separateRowAux p row listSymbols = (st', r) := hs
        rw [hs'] at h1
        cases r with
        | none => exact h1
        | some v =>
          obtain ⟨sc, after⟩ := v
          simp only
          split <;> exact h1

/-- and every row a worker parses at a legal point of its own block IS such a change for the others:
    the state it leaves is within the notation, keeps a learnt unit, and never leaves heading mode -/
theorem parse_row_evolves (s : Spelling) (p : PState) (i h : Nat) (n : Bytes) (rest : List (Nat × Bytes))
    (hc : s.c = sp ∨ s.c = tab) (hunit : 1 ≤ s.unit)
    (hb : s.bullet i = hy ∨ s.bullet i = ast ∨ s.bullet i = pls)
    (hh : 1 ≤ h) (hname : NameOk s h n)
    (hw : p.Within s) (hfio : p.spaces = 0 → FIO s ((h, n) :: rest)) (hsharp : SharpInv s p ((h, n) :: rest)) :
    Evolves s p (parse p (rowOf s i h n)).1 := by
  obtain ⟨p', hparse, hinv', _, _⟩ := parse_itemRow s p i h n rest hc hunit hb hh hname hw.inv hfio hsharp
  have hcls := (parse_class p (rowOf s i h n)).1
  rw [hparse] at hcls ⊢
  simp only at hcls ⊢
  refine ⟨⟨hinv', ?_⟩, ?_, ?_⟩
  · intro hs
    rw [hcls, hw.sharp hs]
    simp only [rowOf, hs, Bool.false_eq_true, if_false, Bool.false_or]
    exact listRow_not_sharp s i (h - 1) n hc hb
  · -- a unit that has been learnt is kept: `spaces` is only ever written when it is 0
    intro h0
    by_cases hp0 : p.spaces = 0
    · exact hp0
    · exfalso
      have := parse_keeps_spaces p (rowOf s i h n) hp0
      rw [hparse] at this
      simp only at this
      omega
  · intro hps
    rw [hcls, hps]; rfl

end Gtree
