import Gtree.Generated.Facts
/-
  What the entry points of tree_handler.go / tree_handler_programmably.go are expected to do with the
  options (hand-written expectation), against what the fact extractor found in the sources on this run.
-/
namespace Gtree

/-- Output keeps the encoding option (`newConfig`); Mkdir, Verify and Walk work with the configuration in which the
    encoding is the default (`newConfigWithoutEncode`) — under both names of every entry point -/
def expectedEntryConfig : List (String × String) :=
  [("Mkdir", "newConfigWithoutEncode"), ("MkdirFromMarkdown", "newConfigWithoutEncode"), ("MkdirFromRoot", "newConfigWithoutEncode"),
   ("MkdirProgrammably", "newConfigWithoutEncode"), ("Output", "newConfig"), ("OutputFromMarkdown", "newConfig"),
   ("OutputFromRoot", "newConfig"), ("OutputProgrammably", "newConfig"), ("Verify", "newConfigWithoutEncode"),
   ("VerifyFromMarkdown", "newConfigWithoutEncode"), ("VerifyFromRoot", "newConfigWithoutEncode"),
   ("VerifyProgrammably", "newConfigWithoutEncode"), ("Walk", "newConfigWithoutEncode"), ("WalkFromMarkdown", "newConfigWithoutEncode"),
   ("WalkFromRoot", "newConfigWithoutEncode"), ("WalkIterFromRoot", "newConfigWithoutEncode"),
   ("WalkIterProgrammably", "newConfigWithoutEncode"), ("WalkProgrammably", "newConfigWithoutEncode")]

theorem entryConfig_as_expected : Facts.entryConfig = expectedEntryConfig := by decide

/-- every deprecated alias has, word for word, the body of the function that replaces it -/
theorem aliases_identical : Facts.aliasBodiesEqual.all (fun e => e.2) = true := by decide

end Gtree
