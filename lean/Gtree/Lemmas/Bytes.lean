import Gtree.Model.Bytes
/-
  Lemmas about the byte helpers (cut / count / blank rows) used by the parser round trip.
-/
namespace Gtree

theorem cut_head (b : UInt8) (rest : Bytes) : cut b (b :: rest) = some ([], rest) := by
  simp [cut]

theorem cut_cons_ne (b x : UInt8) (rest : Bytes) (h : x ≠ b) :
    cut b (x :: rest) = (cut b rest).map (fun p => (x :: p.1, p.2)) := by
  have : (x == b) = false := by simpa using h
  simp only [cut, this, Bool.false_eq_true, if_false]
  cases cut b rest with
  | none => rfl
  | some p => obtain ⟨l, r⟩ := p; rfl

theorem cut_replicate_append (b c : UInt8) (m : Nat) (rest : Bytes) (h : c ≠ b) :
    cut b (List.replicate m c ++ rest) = (cut b rest).map (fun p => (List.replicate m c ++ p.1, p.2)) := by
  induction m with
  | zero =>
    simp only [List.replicate_zero, List.nil_append]
    cases cut b rest with
    | none => rfl
    | some p => rfl
  | succ m ih =>
    rw [List.replicate_succ, List.cons_append, cut_cons_ne b c _ h, ih]
    cases cut b rest with
    | none => rfl
    | some p => rfl

theorem countB_replicate (c : UInt8) (m : Nat) : countB c (List.replicate m c) = m := by
  induction m with
  | zero => rfl
  | succ m ih => simp [List.replicate_succ, countB, ih]; omega

theorem countB_le (c : UInt8) (xs : Bytes) : countB c xs ≤ xs.length := by
  induction xs with
  | nil => simp [countB]
  | cons x xs ih => simp only [countB, List.length_cons]; split <;> omega

theorem countB_lt_of_mem (c b : UInt8) (xs : Bytes) (hb : b ∈ xs) (hne : b ≠ c) : countB c xs < xs.length := by
  induction xs with
  | nil => simp at hb
  | cons x xs ih =>
    simp only [countB, List.length_cons]
    rcases List.mem_cons.mp hb with h | h
    · subst h
      have : (b == c) = false := by simpa using hne
      have := countB_le c xs
      simp [*]; omega
    · have := ih h
      split <;> omega

/-- a row that, after `m` indentation bytes (space or tab), continues with a byte that starts no
    white-space rune is not blank -/
theorem isBlankFuel_indent (c b : UInt8) (hc : c = sp ∨ c = tab) (hb : spaceRuneLen [b] = 0 ∧ ∀ r, spaceRuneLen (b :: r) = 0) :
    ∀ (m fuel : Nat) (rest : Bytes), m + 1 ≤ fuel → isBlankFuel fuel (List.replicate m c ++ b :: rest) = false
  | 0, fuel, rest, h => by
    obtain ⟨f, rfl⟩ : ∃ f, fuel = f + 1 := ⟨fuel - 1, by omega⟩
    simp [isBlankFuel, hb.2 rest]
  | m + 1, fuel, rest, h => by
    obtain ⟨f, rfl⟩ : ∃ f, fuel = f + 1 := ⟨fuel - 1, by omega⟩
    have hlen : spaceRuneLen (c :: (List.replicate m c ++ b :: rest)) = 1 := by
      rcases hc with rfl | rfl <;> simp [spaceRuneLen, sp, tab]
    simp only [List.replicate_succ, List.cons_append, isBlankFuel, hlen]
    simpa using isBlankFuel_indent c b hc hb m f rest (by omega)

theorem spaceRuneLen_symbol (b : UInt8) (hb : b = hy ∨ b = ast ∨ b = pls ∨ b = shp) (r : Bytes) :
    spaceRuneLen (b :: r) = 0 := by
  rcases hb with rfl | rfl | rfl | rfl <;> simp [spaceRuneLen, hy, ast, pls, shp]

theorem isBlank_indent_symbol (c b : UInt8) (hc : c = sp ∨ c = tab) (hb : b = hy ∨ b = ast ∨ b = pls ∨ b = shp)
    (m : Nat) (rest : Bytes) : isBlank (List.replicate m c ++ b :: rest) = false := by
  unfold isBlank
  apply isBlankFuel_indent c b hc ⟨spaceRuneLen_symbol b hb [], spaceRuneLen_symbol b hb⟩
  simp

end Gtree
