import Gtree.Model.Split
import Gtree.Lemmas.ParseRow
/-
  What `parse` does with a row, by the row's first byte – for EVERY row and parser state:
  a heading row and (outside heading mode) a row that starts with a list symbol is a root or an
  empty-text error; every other row is blank, an item at level ≥ 2, or an error.
-/
namespace Gtree

theorem isBlank_symbol_row (b : UInt8) (hb : b = hy ∨ b = ast ∨ b = pls ∨ b = shp) (rest : Bytes) :
    isBlank (b :: rest) = false := by
  simpa using isBlank_indent_symbol sp b (Or.inl rfl) hb 0 rest

/-- a heading row -/
theorem parse_heading (p : PState) (after : Bytes) :
    parse p (shp :: after) =
      (if (trimB sp (trimLeftB shp after)).isEmpty then ({ p with sharp := true }, .error .emptyText)
       else ({ p with sharp := true }, .ok (1, trimB sp (trimLeftB shp after)))) := by
  have hb := isBlank_symbol_row shp (Or.inr (Or.inr (Or.inr rfl))) after
  unfold parse
  rw [hb]
  simp [shp]

/-- an attempt with a symbol other than the list symbol the row starts with fails and changes nothing -/
theorem attempt_col0_other (st : PState) (b s : UInt8) (rest : Bytes) (hbs : b ≠ s) (hb : b ≠ sp ∧ b ≠ tab) :
    attempt st (b :: rest) s = (st, none) := by
  unfold attempt
  have hx : (b == s) = false := by simpa using hbs
  simp only [cut, hx, Bool.false_eq_true, if_false]
  cases cut s rest with
  | none => rfl
  | some pr =>
    obtain ⟨l, r⟩ := pr
    have h1 : (b == sp) = false := by simpa using hb.1
    have h2 : (b == tab) = false := by simpa using hb.2
    simp [h1, h2]

theorem attempt_col0_self (st : PState) (b : UInt8) (rest : Bytes) :
    attempt st (b :: rest) b = ({ st with sep := none }, some (0, rest)) := by
  simp [attempt, cut]

/-- a row that starts with a list symbol: the indentation is empty, whatever the parser knows -/
theorem separateRow_col0 (st : PState) (b : UInt8) (rest : Bytes) (hb : b = hy ∨ b = ast ∨ b = pls) :
    separateRow st (b :: rest) = ({ st with sep := none }, some (0, rest)) := by
  have hns : b ≠ sp ∧ b ≠ tab := by rcases hb with rfl | rfl | rfl <;> decide
  simp only [separateRow, listSymbols, separateRowAux]
  rcases hb with rfl | rfl | rfl
  · simp only [attempt_col0_self]
  · simp only [attempt_col0_other st ast hy rest (by decide) hns, attempt_col0_self]
  · simp only [attempt_col0_other st pls hy rest (by decide) hns, attempt_col0_other st pls ast rest (by decide) hns, attempt_col0_self]

theorem parse_col0 (p : PState) (b : UInt8) (rest : Bytes) (hb : b = hy ∨ b = ast ∨ b = pls) :
    parse p (b :: rest) =
      (if (trimPrefixB sp rest).isEmpty then ({ p with sep := none }, .error .emptyText)
       else ({ p with sep := none }, .ok ((if p.sharp then 2 else 1), trimPrefixB sp rest))) := by
  have hblank := isBlank_symbol_row b (by rcases hb with h | h | h <;> simp [h]) rest
  have hne : b ≠ 0x23 := by rcases hb with rfl | rfl | rfl <;> decide
  unfold parse
  rw [hblank]
  simp only [Bool.false_eq_true, if_false]
  have hsr := separateRow_col0 p b rest hb
  split
  · rename_i heq
    simp only [List.cons.injEq] at heq
    exact absurd heq.1 hne
  · rw [hsr]
    simp only [calculateHierarchy]
    cases p.sharp <;> simp

/-- `attempt` when the text before the symbol starts with a blank -/
theorem attempt_ws (st : PState) (row : Bytes) (s c : UInt8) (tl aft : Bytes)
    (hc : cut s row = some (c :: tl, aft)) (hct : (c == sp || c == tab) = true) :
    attempt st row s =
      (let st1 : PState := if st.sep.isNone then { st with sep := some c } else st
       let cnt := countB (st1.sep.getD c) (c :: tl)
       if cnt != (c :: tl).length then (st1, none)
       else
         let st2 : PState := if cnt > 0 && st1.spaces == 0 then { st1 with spaces := cnt } else st1
         if st2.spaces ≤ 1 then (st2, some (cnt, aft))
         else if cnt % st2.spaces != 0 then (st2, none)
         else (st2, some (cnt, aft))) := by
  unfold attempt
  simp only [hc, hct, if_true]

theorem cut_nil_before (s : UInt8) (row aft : Bytes) (hc : cut s row = some ([], aft)) : row.head? = some s := by
  cases row with
  | nil => simp [cut] at hc
  | cons x xs =>
    simp only [cut] at hc
    by_cases hx : (x == s) = true
    · have : x = s := by simpa using hx
      simp [this]
    · have hxf : (x == s) = false := by simpa using hx
      simp only [hxf, Bool.false_eq_true, if_false] at hc
      cases hcc : cut s xs with
      | none => simp [hcc] at hc
      | some q => simp [hcc] at hc

/-- a successful attempt whose "before" part is not empty: the level it yields is at least 2 -/
theorem attempt_level (st st' : PState) (row : Bytes) (s : UInt8) (sc : Nat) (after : Bytes)
    (h : attempt st row s = (st', some (sc, after))) (hne : row.head? ≠ some s) :
    st'.sharp = st.sharp ∧ 2 ≤ calculateHierarchy st' sc := by
  cases hc : cut s row with
  | none => simp [attempt, hc] at h
  | some pr =>
    obtain ⟨before, aft⟩ := pr
    cases before with
    | nil => exact absurd (cut_nil_before s row aft hc) hne
    | cons c tl =>
      by_cases hct : (c == sp || c == tab) = true
      · rw [attempt_ws st row s c tl aft hc hct] at h
        extract_lets st1 cnt st2 at h
        have hs1 : st1.sharp = st.sharp := by simp only [st1]; split <;> rfl
        have hsep1 : st1.sep.isNone = false := by
          simp only [st1]
          cases hs : st.sep <;> simp [hs]
        have hs2 : st2.sharp = st1.sharp := by simp only [st2]; split <;> rfl
        have hsep2 : st2.sep.isNone = false := by simp only [st2]; split <;> simpa using hsep1
        split at h
        · simp at h
        · rename_i hcnt
          have hsc : cnt = tl.length + 1 := by simpa using hcnt
          have hsp2 : st2.spaces ≠ 0 := by
            simp only [st2]
            by_cases h0 : st1.spaces = 0
            · simp [h0, hsc]
            · have : (st1.spaces == 0) = false := by simpa using h0
              simp [this, h0]
          have hz : (st2.spaces == 0) = false := by simpa using hsp2
          have key : ∀ (hok : st2.spaces ≤ 1 ∨ cnt % st2.spaces = 0), 2 ≤ calculateHierarchy st2 cnt := by
            intro hok
            have hdiv : 1 ≤ cnt / st2.spaces := by
              rcases hok with h1 | hm
              · have : st2.spaces = 1 := by omega
                rw [this, Nat.div_one]; omega
              · have hge : st2.spaces ≤ cnt := Nat.le_of_dvd (by omega) (Nat.dvd_of_mod_eq_zero hm)
                exact (Nat.le_div_iff_mul_le (by omega)).mpr (by simpa using hge)
            simp only [calculateHierarchy, hz, hsep2, Bool.or_self, Bool.false_eq_true, if_false]
            split <;> omega
          split at h
          · rename_i hle
            simp only [Prod.mk.injEq, Option.some.injEq] at h
            obtain ⟨rfl, rfl, _⟩ := h
            exact ⟨by rw [hs2, hs1], key (Or.inl hle)⟩
          · split at h
            · simp at h
            · rename_i hmod
              simp only [Prod.mk.injEq, Option.some.injEq] at h
              obtain ⟨rfl, rfl, _⟩ := h
              exact ⟨by rw [hs2, hs1], key (Or.inr (by simpa using hmod))⟩
      · have hcf : (c == sp || c == tab) = false := by simpa using hct
        simp [attempt, hc, hcf] at h

/-- no attempt touches the heading flag -/
theorem attempt_sharp (st : PState) (row : Bytes) (s : UInt8) : (attempt st row s).1.sharp = st.sharp := by
  cases hc : cut s row with
  | none => simp [attempt, hc]
  | some pr =>
    obtain ⟨before, aft⟩ := pr
    cases before with
    | nil => simp [attempt, hc]
    | cons c tl =>
      by_cases hct : (c == sp || c == tab) = true
      · rw [attempt_ws st row s c tl aft hc hct]
        extract_lets st1 cnt st2
        have hs1 : st1.sharp = st.sharp := by simp only [st1]; split <;> rfl
        have hs2 : st2.sharp = st1.sharp := by simp only [st2]; split <;> rfl
        split
        · exact hs1
        · split
          · rw [hs2, hs1]
          · split <;> rw [hs2, hs1]
      · have hcf : (c == sp || c == tab) = false := by simpa using hct
        simp [attempt, hc, hcf]

theorem separateRowAux_sharp (row : Bytes) : ∀ (syms : List UInt8) (st : PState), (separateRowAux st row syms).1.sharp = st.sharp
  | [], st => rfl
  | s :: ss, st => by
    simp only [separateRowAux]
    have h1 := attempt_sharp st row s
    cases ha : attempt st row s with
    | mk st1 r =>
      rw [ha] at h1
      cases r with
      | some v => exact h1
      | none => simp only; rw [separateRowAux_sharp row ss st1]; exact h1

/-- a row that does not start with a list symbol and is separated successfully is at level ≥ 2 -/
theorem separateRowAux_level (row : Bytes) : ∀ (syms : List UInt8) (st st' : PState) (sc : Nat) (after : Bytes),
    (∀ s ∈ syms, row.head? ≠ some s) → separateRowAux st row syms = (st', some (sc, after)) →
    st'.sharp = st.sharp ∧ 2 ≤ calculateHierarchy st' sc
  | [], st, st', sc, after, _, h => by simp [separateRowAux] at h
  | s :: ss, st, st', sc, after, hne, h => by
    simp only [separateRowAux] at h
    have hsh := attempt_sharp st row s
    cases ha : attempt st row s with
    | mk st1 r =>
      rw [ha] at h hsh
      cases r with
      | some v =>
        simp only [Prod.mk.injEq, Option.some.injEq] at h
        obtain ⟨rfl, rfl⟩ := h
        exact attempt_level st st1 row s sc after ha (hne s (by simp))
      | none =>
        simp only at h
        have := separateRowAux_level row ss st1 st' sc after (fun x hx => hne x (by simp [hx])) h
        exact ⟨by rw [this.1]; exact hsh, this.2⟩

/-- what a row is to the parser, by how it begins (`sharp'`: heading mode including this row) -/
theorem parse_class (p : PState) (l : Bytes) :
    (parse p l).1.sharp = (p.sharp || isSharpRow l) ∧
    (rootBeginning l (p.sharp || isSharpRow l) = true →
      (∃ text, (parse p l).2 = .ok (1, text)) ∨ (parse p l).2 = .error .emptyText) ∧
    (rootBeginning l (p.sharp || isSharpRow l) = false →
      ∀ h text, (parse p l).2 = .ok (h, text) → 2 ≤ h) := by
  cases l with
  | nil =>
    have hb : isBlank ([] : Bytes) = true := by decide
    simp [parse, hb, isSharpRow, rootBeginning, startsWithSymbol]
  | cons b rest =>
    by_cases hsh : b = shp
    · subst hsh
      rw [parse_heading]
      have his : isSharpRow (shp :: rest) = true := by simp [isSharpRow]
      simp only [his, Bool.or_true, rootBeginning, if_true]
      split <;> simp
    · by_cases hlist : b = hy ∨ b = ast ∨ b = pls
      · rw [parse_col0 p b rest hlist]
        have his : isSharpRow (b :: rest) = false := by simpa [isSharpRow] using hsh
        have hsym : startsWithSymbol (b :: rest) = true := by
          rcases hlist with rfl | rfl | rfl <;> simp [startsWithSymbol, isSymbolByte]
        simp only [his, Bool.or_false, rootBeginning, hsym]
        cases hps : p.sharp with
        | true =>
          simp only [Bool.true_eq_false, if_false, if_true]
          split <;> simp
        | false =>
          simp only [Bool.false_eq_true, if_false]
          split <;> simp
      · -- the row starts with no symbol at all
        have his : isSharpRow (b :: rest) = false := by simpa [isSharpRow] using hsh
        have hsym : startsWithSymbol (b :: rest) = false := by
          simp only [startsWithSymbol, isSymbolByte]
          simp only [not_or] at hlist
          simp [hsh, hlist.1, hlist.2.1, hlist.2.2]
        have hrb : rootBeginning (b :: rest) (p.sharp || isSharpRow (b :: rest)) = false := by
          simp only [his, Bool.or_false, rootBeginning, hsym]
          cases p.sharp <;> simp [his]
        rw [hrb]
        simp only [his, Bool.or_false, Bool.false_eq_true, false_implies, true_and]
        unfold parse
        by_cases hbl : isBlank (b :: rest) = true
        · simp [hbl]
        · have hblf : isBlank (b :: rest) = false := by simpa using hbl
          rw [hblf]
          simp only [Bool.false_eq_true, if_false]
          have hnh : ∀ s ∈ listSymbols, (b :: rest).head? ≠ some s := by
            intro s hs
            simp only [listSymbols, List.mem_cons, List.mem_singleton, List.not_mem_nil, or_false] at hs
            simp only [not_or] at hlist
            rcases hs with rfl | rfl | rfl <;> simp [hlist.1, hlist.2.1, hlist.2.2]
          split
          · rename_i heq
            simp only [List.cons.injEq] at heq
            exact absurd heq.1 (by simpa [shp] using hsh)
          · have hsharp := separateRowAux_sharp (b :: rest) listSymbols p
            cases hsr : separateRow p (b :: rest) with
            | mk st' r =>
              have hsr' : separateRowAux p (b :: rest) listSymbols = (st', r) := hsr
              rw [hsr'] at hsharp
              cases r with
              | none => simpa using hsharp
              | some v =>
                obtain ⟨sc, after⟩ := v
                have hl := separateRowAux_level (b :: rest) listSymbols p st' sc after hnh hsr'
                simp only
                split
                · simpa using hl.1
                · refine ⟨hl.1, ?_⟩
                  intro _ h text heq
                  injection heq with heq
                  injection heq with h1 h2
                  rw [← h1]; exact hl.2

end Gtree
