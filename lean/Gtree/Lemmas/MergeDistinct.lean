import Gtree.Lemmas.Build
import Gtree.Lemmas.Distinct
/-
  Whatever is merged, the result has pairwise distinct sibling names at every level: the trees the
  generator builds from a document (and the trees NewRoot/Add build) satisfy `DistinctT`.
-/
namespace Gtree

theorem updateFirst_some_spec (n : Bytes) (g : T → T) : ∀ (acc acc' : List T), updateFirst n g acc = some acc' →
    ∃ pre c post, acc = pre ++ c :: post ∧ c.name = n ∧ (∀ t ∈ pre, t.name ≠ n) ∧ acc' = pre ++ g c :: post
  | [], _, h => by simp [updateFirst] at h
  | t :: ts, acc', h => by
    by_cases ht : (t.name == n) = true
    · simp only [updateFirst, ht, if_true, Option.some.injEq] at h
      exact ⟨[], t, ts, rfl, by simpa using ht, by simp, h.symm⟩
    · have htf : (t.name == n) = false := by simpa using ht
      simp only [updateFirst, htf, Bool.false_eq_true, if_false] at h
      cases hu : updateFirst n g ts with
      | none => simp [hu] at h
      | some ts' =>
        simp only [hu, Option.some.injEq] at h
        obtain ⟨pre, c, post, h1, h2, h3, h4⟩ := updateFirst_some_spec n g ts ts' hu
        refine ⟨t :: pre, c, post, by simp [h1], h2, ?_, by simp [← h, h4]⟩
        intro u hu'
        rcases List.mem_cons.mp hu' with rfl | hu'
        · simpa using htf
        · exact h3 u hu'

theorem updateFirst_none_spec (n : Bytes) (g : T → T) : ∀ (acc : List T), updateFirst n g acc = none → ∀ t ∈ acc, t.name ≠ n
  | [], _, t, ht => by simp at ht
  | x :: xs, h, t, ht => by
    by_cases hx : (x.name == n) = true
    · simp [updateFirst, hx] at h
    · have hxf : (x.name == n) = false := by simpa using hx
      simp only [updateFirst, hxf, Bool.false_eq_true, if_false] at h
      cases hu : updateFirst n g xs with
      | some ts' => simp [hu] at h
      | none =>
        rcases List.mem_cons.mp ht with rfl | ht
        · simpa using hxf
        · exact updateFirst_none_spec n g xs hu t ht

theorem distinctL_replace : ∀ (pre : List T) (c c' : T) (post : List T), c'.name = c.name → DistinctT c' →
    DistinctL (pre ++ c :: post) → DistinctL (pre ++ c' :: post)
  | [], c, c', post, hn, hd, h => by
    simp only [List.nil_append] at h ⊢
    rw [DistinctL] at h ⊢
    exact ⟨by rw [hn]; exact h.1, hd, h.2.2⟩
  | p :: pre, c, c', post, hn, hd, h => by
    simp only [List.cons_append] at h ⊢
    rw [DistinctL] at h ⊢
    refine ⟨?_, h.2.1, distinctL_replace pre c c' post hn hd h.2.2⟩
    intro u hu
    rcases List.mem_append.mp hu with hu | hu
    · exact h.1 u (by simp [hu])
    · rcases List.mem_cons.mp hu with rfl | hu
      · rw [hn]; exact h.1 c (by simp)
      · exact h.1 u (by simp [hu])

theorem distinctL_snoc : ∀ (acc : List T) (x : T), DistinctL acc → (∀ t ∈ acc, t.name ≠ x.name) → DistinctT x →
    DistinctL (acc ++ [x])
  | [], x, _, _, hx => by
    simp only [List.nil_append]
    rw [DistinctL]
    exact ⟨by simp, hx, by rw [DistinctL]; trivial⟩
  | a :: acc, x, h, hne, hx => by
    simp only [List.cons_append]
    rw [DistinctL] at h ⊢
    refine ⟨?_, h.2.1, distinctL_snoc acc x h.2.2 (fun t ht => hne t (by simp [ht])) hx⟩
    intro u hu
    rcases List.mem_append.mp hu with hu | hu
    · exact h.1 u hu
    · simp only [List.mem_singleton] at hu
      subst hu
      exact (hne a (by simp)).symm

theorem distinctL_mem : ∀ (ks : List T), DistinctL ks → ∀ t ∈ ks, DistinctT t
  | [], _, t, ht => by simp at ht
  | x :: xs, h, t, ht => by
    rw [DistinctL] at h
    rcases List.mem_cons.mp ht with rfl | ht
    · exact h.2.1
    · exact distinctL_mem xs h.2.2 t ht

mutual
theorem absorb_keeps_distinct : ∀ (t : T) (acc : List T), DistinctL acc → DistinctL (absorb acc t)
  | .mk n ks, acc, h => by
    cases hu : updateFirst n (fun c => T.mk c.name (absorbAll c.kids ks)) acc with
    | some acc' =>
      rw [absorb_some acc acc' n ks hu]
      obtain ⟨pre, c, post, h1, _, _, h4⟩ := updateFirst_some_spec n _ acc acc' hu
      rw [h4]
      rw [h1] at h
      have hc : DistinctT c := distinctL_mem _ h c (by simp)
      have hck : DistinctL c.kids := by cases c with | mk cn cks => rw [DistinctT] at hc; exact hc
      apply distinctL_replace pre c _ post (by simp [T.name]) _ h
      rw [DistinctT]
      exact absorbAll_keeps_distinct ks c.kids hck
    | none =>
      rw [absorb_none acc n ks hu]
      apply distinctL_snoc acc _ h
      · intro t ht
        simpa [T.name] using updateFirst_none_spec n _ acc hu t ht
      · rw [DistinctT]
        exact absorbAll_keeps_distinct ks [] (by rw [DistinctL]; trivial)
theorem absorbAll_keeps_distinct : ∀ (ks acc : List T), DistinctL acc → DistinctL (absorbAll acc ks)
  | [], acc, h => by rw [absorbAll]; exact h
  | t :: ts, acc, h => by
    rw [absorbAll]
    exact absorbAll_keeps_distinct ts _ (absorb_keeps_distinct t acc h)
end

/-- every merged root has pairwise distinct sibling names at every level -/
theorem mergeRoot_distinctT (t : T) : DistinctT (mergeRoot t) := by
  cases t with
  | mk n ks =>
    simp only [mergeRoot, mergeKids]
    rw [DistinctT]
    exact absorbAll_keeps_distinct ks [] (by rw [DistinctL]; trivial)

end Gtree
