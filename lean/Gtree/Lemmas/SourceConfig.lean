import Gtree.Generated.Source
/-
  The option plumbing of config.go, proved about the TRANSLATED source directly (`Generated/Source.lean`):
  `newConfig` applies the options in order, every option changes exactly its own field, nil options are
  skipped, and `newConfigWithoutEncode` differs from `newConfig` in the encoding only.
-/
namespace Gtree
open Gtree.Go Gtree.Src

/-- the public options as data -/
inductive Opt where
  | nil_ | dryRun | json | yaml | toml | massive | strict | noIter
  | exts (e : List Bytes) | target (d : Bytes) | fmtLast (a b : Bytes) | fmtMid (a b : Bytes)

/-- the value of type `Option` (Go) the caller passes -/
def Opt.fn : Opt → Option (config → config)
  | .nil_ => none
  | .dryRun => some WithDryRun
  | .json => some WithEncodeJSON
  | .yaml => some WithEncodeYAML
  | .toml => some WithEncodeTOML
  | .massive => some WithMassive
  | .strict => some WithStrictVerify
  | .noIter => some WithNoUseIterOfSimpleOutput
  | .exts e => some (WithFileExtensions e)
  | .target d => some (WithTargetDir d)
  | .fmtLast a b => some (WithBranchFormatLastNode a b)
  | .fmtMid a b => some (WithBranchFormatIntermedialNode a b)

/-- what each option means: it sets its own field and nothing else -/
def Opt.apply (c : config) : Opt → config
  | .nil_ => c
  | .dryRun => { c with dryrun := true }
  | .json => { c with encode := encodeJSON }
  | .yaml => { c with encode := encodeYAML }
  | .toml => { c with encode := encodeTOML }
  | .massive => { c with massive := true }
  | .strict => { c with strictVerify := true }
  | .noIter => { c with noUseIterOfSimpleOutput := true }
  | .exts e => { c with fileExtensions := e }
  | .target d => { c with targetDir := d }
  | .fmtLast a b => { c with lastNodeFormat := { directly := a, indirectly := b } }
  | .fmtMid a b => { c with intermedialNodeFormat := { directly := a, indirectly := b } }

/-- the configuration before any option: default branch strings, current directory, nothing switched on -/
def defaultConfig : config := newConfig []

theorem forRange_options (F : Option (config → config) → config → Ctl config config)
    (hn : ∀ st, F none st = Ctl.next st) (hs : ∀ f st, F (some f) st = Ctl.next (f st)) :
    ∀ (xs : List (Option (config → config))) (c : config),
      forRange xs c F = Ctl.next (xs.foldl (fun c o => match o with | none => c | some f => f c) c)
  | [], c => rfl
  | none :: xs, c => by simp only [forRange, hn, List.foldl_cons]; exact forRange_options F hn hs xs c
  | some f :: xs, c => by simp only [forRange, hs, List.foldl_cons]; exact forRange_options F hn hs xs (f c)

theorem opt_fn_apply (o : Opt) (c : config) :
    (match o.fn with | none => c | some f => f c) = Opt.apply c o := by
  cases o <;> rfl

theorem fold_options (os : List Opt) (c0 : config) :
    (os.map Opt.fn).foldl (fun c o => match o with | none => c | some f => f c) c0 = os.foldl Opt.apply c0 := by
  induction os generalizing c0 with
  | nil => rfl
  | cons o os ih =>
    simp only [List.map_cons, List.foldl_cons, opt_fn_apply]
    exact ih _

theorem newConfig_fold (xs : List (Option (config → config))) :
    newConfig xs = xs.foldl (fun c o => match o with | none => c | some f => f c) (newConfig []) := by
  unfold newConfig
  dsimp only
  rw [forRange_options _ (fun _ => rfl) (fun _ _ => rfl) xs, forRange_options _ (fun _ => rfl) (fun _ _ => rfl) []]
  rfl

/-- **`newConfig` is "apply the options in order"** — nil options skipped, every option its own field -/
theorem newConfig_src (os : List Opt) : newConfig (os.map Opt.fn) = os.foldl Opt.apply defaultConfig := by
  rw [newConfig_fold, fold_options]
  rfl

/-- what the default configuration is -/
theorem defaultConfig_fields :
    defaultConfig.dryrun = false ∧ defaultConfig.massive = false ∧ defaultConfig.encode = encodeDefault ∧
    defaultConfig.strictVerify = false ∧ defaultConfig.targetDir = [0x2E] ∧ defaultConfig.fileExtensions = [] ∧
    defaultConfig.noUseIterOfSimpleOutput = false := by
  refine ⟨rfl, rfl, rfl, rfl, rfl, rfl, rfl⟩

def Opt.isDryRun : Opt → Bool
  | .dryRun => true
  | _ => false

/-- the dry-run flag after a list of options: set iff `WithDryRun` is among them — whatever else is, in any order -/
theorem dryrun_fold (os : List Opt) (c : config) :
    (os.foldl Opt.apply c).dryrun = (c.dryrun || os.any Opt.isDryRun) := by
  induction os generalizing c with
  | nil => simp
  | cons o os ih =>
    simp only [List.foldl_cons, List.any_cons]
    rw [ih]
    cases o <;> simp [Opt.apply, Opt.isDryRun, Bool.or_assoc]

/-- the last encoding option wins; none leaves the default -/
def lastEncode (e : Int) : List Opt → Int
  | [] => e
  | .json :: os => lastEncode encodeJSON os
  | .yaml :: os => lastEncode encodeYAML os
  | .toml :: os => lastEncode encodeTOML os
  | _ :: os => lastEncode e os

theorem encode_fold (os : List Opt) (c : config) : (os.foldl Opt.apply c).encode = lastEncode c.encode os := by
  induction os generalizing c with
  | nil => rfl
  | cons o os ih =>
    simp only [List.foldl_cons]
    rw [ih]
    cases o <;> simp [Opt.apply, lastEncode]

/-- **`newConfigWithoutEncode` (Mkdir, Verify, Walk) differs from `newConfig` in the encoding only**: the encoding
    is the default whatever options were given, every other field is what `newConfig` computes. -/
theorem newConfigWithoutEncode_src (xs : List (Option (config → config))) :
    newConfigWithoutEncode xs = { newConfig xs with encode := encodeDefault } := by
  unfold newConfigWithoutEncode
  rfl

end Gtree
