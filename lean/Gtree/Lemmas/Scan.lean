import Gtree.Model.Bytes
import Gtree.Spec.Spelling
/-
  `bufio.Scanner` over a spelled document delivers exactly the rows that were written.
-/
namespace Gtree

theorem splitLF_ne_nil (d : Bytes) : splitLF d ≠ [] := by
  cases d with
  | nil => simp [splitLF]
  | cons x xs =>
    simp only [splitLF]
    cases h : splitLF xs with
    | nil => simp
    | cons l ls =>
      simp only
      split <;> simp

theorem splitLF_noLF (r : Bytes) (h : lf ∉ r) : splitLF r = [r] := by
  induction r with
  | nil => rfl
  | cons x xs ih =>
    have hx : (x == lf) = false := by
      have : x ≠ lf := fun e => h (by simp [e])
      simpa using this
    have hxs : lf ∉ xs := fun e => h (by simp [e])
    simp [splitLF, ih hxs, hx]

theorem splitLF_append (r rest : Bytes) (h : lf ∉ r) : splitLF (r ++ lf :: rest) = r :: splitLF rest := by
  induction r with
  | nil =>
    simp only [List.nil_append, splitLF]
    cases hs : splitLF rest with
    | nil => exact absurd hs (splitLF_ne_nil rest)
    | cons l ls => simp
  | cons x xs ih =>
    have hx : (x == lf) = false := by
      have : x ≠ lf := fun e => h (by simp [e])
      simpa using this
    have hxs : lf ∉ xs := fun e => h (by simp [e])
    simp only [List.cons_append, splitLF, ih hxs, hx, Bool.false_eq_true, if_false]

/-- a raw line as the scanner sees it: the row plus the CR of a CRLF line end -/
def rawOf (s : Spelling) (r : Bytes) : Bytes := if s.crlf then r ++ [cr] else r

theorem dropCR_rawOf (s : Spelling) (r : Bytes) (h : r.getLast? ≠ some cr) : dropCR (rawOf s r) = r := by
  unfold rawOf dropCR
  by_cases hc : s.crlf = true
  · simp [hc]
  · simp only [hc, Bool.false_eq_true, if_false]
    cases hl : r.getLast? with
    | none => rfl
    | some c =>
      have : c ≠ cr := fun e => h (by rw [hl, e])
      have : (c == cr) = false := by simpa using this
      simp [this]

theorem lf_not_mem_rawOf (s : Spelling) (r : Bytes) (h : lf ∉ r) : lf ∉ rawOf s r := by
  unfold rawOf
  split
  · simp only [List.mem_append, List.mem_singleton, not_or]
    exact ⟨h, by decide⟩
  · exact h

/-- the pieces `splitLF` cuts a joined document into -/
theorem splitLF_joinRows (s : Spelling) : ∀ (rows : List Bytes), (∀ r ∈ rows, lf ∉ r) → rows ≠ [] →
    splitLF (joinRows s rows) =
      if s.finalNL then rows.map (rawOf s) ++ [[]] else (rows.dropLast.map (rawOf s)) ++ [rows.getLast?.getD []]
  | [], _, hne => absurd rfl hne
  | [r], hlf, _ => by
    have hr := hlf r (by simp)
    by_cases hf : s.finalNL = true
    · simp only [joinRows, hf, if_true, List.map_cons, List.map_nil, List.cons_append, List.nil_append]
      unfold eol rawOf
      by_cases hc : s.crlf = true
      · simp only [hc, if_true]
        have : r ++ [cr, lf] = (r ++ [cr]) ++ lf :: [] := by simp
        rw [this, splitLF_append _ _ (by simp only [List.mem_append, List.mem_singleton, not_or]; exact ⟨hr, by decide⟩)]
        simp [splitLF]
      · simp only [hc, Bool.false_eq_true, if_false]
        have : r ++ [lf] = r ++ lf :: [] := rfl
        rw [this, splitLF_append _ _ hr]
        simp [splitLF]
    · simp only [joinRows, hf, Bool.false_eq_true, if_false]
      simp [splitLF_noLF r hr]
  | r :: r2 :: rs, hlf, _ => by
    have hr := hlf r (by simp)
    have ih := splitLF_joinRows s (r2 :: rs) (fun x hx => hlf x (by simp [hx])) (by simp)
    have hjoin : joinRows s (r :: r2 :: rs) = rawOf s r ++ lf :: joinRows s (r2 :: rs) := by
      simp only [joinRows]
      unfold eol rawOf
      by_cases hc : s.crlf = true <;> simp [hc]
    rw [hjoin, splitLF_append _ _ (lf_not_mem_rawOf s r hr), ih]
    by_cases hf : s.finalNL = true
    · simp [hf]
    · simp only [hf, Bool.false_eq_true, if_false]
      simp [List.dropLast]

theorem dropCR_noCR (r : Bytes) (h : r.getLast? ≠ some cr) : dropCR r = r := by
  unfold dropCR
  cases hl : r.getLast? with
  | none => rfl
  | some c =>
    have : c ≠ cr := fun e => h (by rw [hl, e])
    have : (c == cr) = false := by simpa using this
    simp [this]

theorem scanLinesAux_app (s : Spelling) : ∀ (rows tl acc : List Bytes),
    (∀ r ∈ rows, r.getLast? ≠ some cr ∧ r.length + 1 < maxToken) →
    scanLinesAux (rows.map (rawOf s) ++ tl) acc = scanLinesAux tl (rows.reverse ++ acc)
  | [], tl, acc, _ => by simp
  | r :: rs, tl, acc, h => by
    obtain ⟨hcr, hlen⟩ := h r (by simp)
    have hraw : ¬ ((rawOf s r).length ≥ maxToken) := by
      unfold rawOf; split <;> simp <;> omega
    simp only [List.map_cons, List.cons_append, scanLinesAux, hraw, if_false, dropCR_rawOf s r hcr]
    rw [scanLinesAux_app s rs tl (r :: acc) (fun x hx => h x (by simp [hx]))]
    simp

/-- scanning a spelled document delivers its rows, none of them too long -/
theorem scanLines_joinRows (s : Spelling) (rows : List Bytes)
    (hlf : ∀ r ∈ rows, lf ∉ r)
    (hrow : ∀ r ∈ rows, r.getLast? ≠ some cr ∧ r.length + 1 < maxToken)
    (hlast : ∀ r, rows.getLast? = some r → r ≠ []) :
    scanLines (joinRows s rows) = ⟨rows, false⟩ := by
  by_cases hne : rows = []
  · subst hne; simp [joinRows, scanLines, rawLines, splitLF, scanLinesAux]
  · unfold scanLines rawLines
    rw [splitLF_joinRows s rows hlf hne]
    by_cases hf : s.finalNL = true
    · simp only [hf, if_true]
      have h1 : (rows.map (rawOf s) ++ [[]]).dropLast = rows.map (rawOf s) := by simp
      have h2 : ((rows.map (rawOf s) ++ [[]]).getLast?.getD []) = ([] : Bytes) := by simp
      simp only [h1, h2, List.isEmpty_nil, if_true]
      have := scanLinesAux_app s rows [] [] hrow
      simp only [List.append_nil] at this
      rw [this]; simp [scanLinesAux]
    · simp only [hf, Bool.false_eq_true, if_false]
      have hl : rows.getLast? = some (rows.getLast hne) := List.getLast?_eq_some_getLast hne
      have hlne := hlast _ hl
      have h1 : (rows.dropLast.map (rawOf s) ++ [rows.getLast?.getD []]).dropLast = rows.dropLast.map (rawOf s) := by simp
      have h2 : ((rows.dropLast.map (rawOf s) ++ [rows.getLast?.getD []]).getLast?.getD []) = rows.getLast hne := by simp [hl]
      have hemp : (rows.getLast hne).isEmpty = false := by
        cases h : rows.getLast hne with
        | nil => exact absurd h hlne
        | cons x xs => rfl
      simp only [h1, h2, hemp, Bool.false_eq_true, if_false]
      have hsplit : rows.dropLast ++ [rows.getLast hne] = rows := List.dropLast_concat_getLast hne
      have hl_ok := hrow (rows.getLast hne) (List.getLast_mem hne)
      have hdl : ∀ r ∈ rows.dropLast, r.getLast? ≠ some cr ∧ r.length + 1 < maxToken :=
        fun r hr => hrow r (List.dropLast_subset rows hr)
      rw [scanLinesAux_app s rows.dropLast [rows.getLast hne] [] hdl]
      have hnl : ¬ ((rows.getLast hne).length ≥ maxToken) := by omega
      simp only [scanLinesAux, hnl, if_false, dropCR_noCR _ hl_ok.1]
      simp only [List.append_nil, List.reverse_cons, List.reverse_reverse]
      rw [hsplit]

end Gtree
