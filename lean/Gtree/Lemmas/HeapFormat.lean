import Gtree.Generated.Heap.Spread
import Gtree.Lemmas.HeapRepr
import Gtree.Model.Spread
/-
  `toFormattedNode` of the source (simple_tree_spreader.go, with `jsonNode.setChild` / `getChild`; `yamlNode` and
  `tomlNode` have the same methods), translated by /verif/translate (heap mode) over TWO heaps — the nodes and the
  records handed to the encoder, the latter with an allocator: for every heap that holds a tree and every record with
  no children yet, it builds below that record exactly the model's formatted tree (`toFormattedKids`): same names,
  same order, same nesting — each child record is the one just appended — and touches no older record.
-/
namespace Gtree.SrcH
open Gtree Gtree.Go

mutual
/-- the record heap holds the formatted tree `fn` at `p`; every record of it was allocated in `[lo, n)` -/
def ReprJ (hj : HeapJ) (lo n : Nat) : FNode → Nat → Prop
  | .mk v cs, p => lo ≤ p ∧ p < n ∧ (hj p).Name = v ∧ ReprJKids hj lo n cs (hj p).Children
def ReprJKids (hj : HeapJ) (lo n : Nat) : List FNode → List Nat → Prop
  | [], ps => ps = []
  | f :: fs, ps => ∃ q qs, ps = q :: qs ∧ ReprJ hj lo n f q ∧ ReprJKids hj lo n fs qs
end

mutual
/-- records in `[lo, n)` that were not touched still hold their trees -/
theorem ReprJ_congr {hj hj' : HeapJ} {lo lo' n n' : Nat} (hlo : lo' ≤ lo) (hle : n ≤ n')
    (hag : ∀ q, lo ≤ q → q < n → hj' q = hj q) :
    ∀ (fn : FNode) (p : Nat), ReprJ hj lo n fn p → ReprJ hj' lo' n' fn p
  | .mk v cs, p, hr => by
    rw [ReprJ] at hr ⊢
    obtain ⟨hp0, hp, hn, hk⟩ := hr
    refine ⟨by omega, by omega, by rw [hag p hp0 hp]; exact hn, ?_⟩
    rw [hag p hp0 hp]
    exact ReprJKids_congr hlo hle hag cs _ hk
theorem ReprJKids_congr {hj hj' : HeapJ} {lo lo' n n' : Nat} (hlo : lo' ≤ lo) (hle : n ≤ n')
    (hag : ∀ q, lo ≤ q → q < n → hj' q = hj q) :
    ∀ (fs : List FNode) (ps : List Nat), ReprJKids hj lo n fs ps → ReprJKids hj' lo' n' fs ps
  | [], ps, hr => by rw [ReprJKids] at hr ⊢; exact hr
  | f :: fs, ps, hr => by
    rw [ReprJKids] at hr ⊢
    obtain ⟨q, qs, rfl, h1, h2⟩ := hr
    exact ⟨q, qs, rfl, ReprJ_congr hlo hle hag f q h1, ReprJKids_congr hlo hle hag fs qs h2⟩
end

theorem setChild_eq (h : Heap) (hj : HeapJ) (alj : Nat) (fp : Nat) (name : Bytes) (hne : fp ≠ alj) :
    jsonNode.setChild h hj alj fp name =
      (HeapJ.set (HeapJ.set hj alj { Name := name, Children := [] }) fp
          { (hj fp) with Children := (hj fp).Children ++ [alj] }, alj + 1) := by
  unfold jsonNode.setChild
  simp [HeapJ.set, hne]

/-- the body of the loop of `toFormattedNode` over the children's indices -/
def fmtBody (h : Heap) (parent fp : Nat) (fuel : Nat) : Int → HeapJ × Nat → Go.Ctl (HeapJ × Nat) (Option (HeapJ × Nat × Nat)) :=
  fun i st_ =>
    match st_ with
    | (hj_, alj_) =>
      match (jsonNode.setChild h hj_ alj_ fp (h (Go.idxPtr (h parent).children i)).name) with
      | (hj_, alj_) =>
        match (toFormattedNode fuel h hj_ alj_ (Go.idxPtr (h parent).children i) (jsonNode.getChild h hj_ fp i)) with
        | none => Go.Ctl.ret none
        | some r_ =>
          match r_ with
          | (hj_, alj_, _) => Go.Ctl.next (hj_, alj_)

theorem fmt_unfold (fuel : Nat) (h : Heap) (hj : HeapJ) (alj : Nat) (parent fp : Nat) :
    toFormattedNode (fuel + 1) h hj alj parent fp =
      (if (!(Node.hasChild h parent)) then some (hj, alj, fp)
       else
         match Go.forRange (Go.indices (h parent).children) (hj, alj) (fmtBody h parent fp fuel) with
         | Go.Ctl.ret r_ => r_
         | Go.Ctl.brk st_ | Go.Ctl.next st_ => some (st_.1, st_.2, fp)) := by
  rfl

theorem idxPtr_at (pre : List Nat) (c : Nat) (rest : List Nat) :
    Go.idxPtr (pre ++ c :: rest) (Int.ofNat pre.length) = c := by
  unfold Go.idxPtr
  have h0 : ¬ ((Int.ofNat pre.length) < 0) := by
    simp only [Int.ofNat_eq_natCast]; omega
  rw [if_neg h0]
  simp

mutual
/-- one record: its subtree is built below it, out of records allocated from `alj` on -/
theorem fmt_node (h : Heap) : ∀ (t : T) (hj : HeapJ) (alj : Nat) (p par fp : Nat) (lvl fuel : Nat),
    Repr h t p par lvl → t.size ≤ fuel → fp < alj → (hj fp).Children = [] →
    ∃ hj' alj', toFormattedNode fuel h hj alj p fp = some (hj', alj', fp) ∧ alj ≤ alj' ∧
      (hj' fp).Name = (hj fp).Name ∧ ReprJKids hj' alj alj' (toFormattedKids t.kids) (hj' fp).Children ∧
      (∀ q, q < alj → q ≠ fp → hj' q = hj q)
  | .mk n ks, hj, alj, p, par, fp, lvl, fuel, hr, hf, hfp, hch => by
    have hsz : T.size (.mk n ks) = 1 + sizeList ks := by simp [T.size]
    rw [hsz] at hf
    rw [Repr] at hr
    obtain ⟨_, _, _, _, hk⟩ := hr
    have hlen := readKids_length_eq h ks _ p (lvl + 1) hk
    cases fuel with
    | zero => omega
    | succ fuel =>
      rw [fmt_unfold]
      by_cases hc : Node.hasChild h p = true
      · simp only [hc, Bool.not_true, Bool.false_eq_true, if_false, T.kids]
        obtain ⟨hj', alj', hrun, hle, ⟨newIds, hrep, hchildren⟩, hfr, hnm⟩ :=
          fmt_kids h p fp fuel ks hj alj [] (h p).children [] (lvl + 1) hk (by simp) (by omega) hfp
            (by simpa using hch) (by simp)
        refine ⟨hj', alj', ?_, hle, hnm, ?_, hfr⟩
        · have : Go.indices (h p).children = (List.range' 0 (h p).children.length).map Int.ofNat := by
            simp [Go.indices, List.range_eq_range']
          rw [this]
          simp only [List.length_nil] at hrun
          rw [hrun]
        · rw [hchildren]
          simpa using hrep
      · have hc' : Node.hasChild h p = false := by simpa using hc
        have hks : ks = [] := by
          have : (h p).children = [] := by
            simp only [Node.hasChild, Go.len] at hc'
            cases hcs : (h p).children with
            | nil => rfl
            | cons a b => rw [hcs] at hc'; simp at hc'
          rw [this] at hlen
          cases ks with
          | nil => rfl
          | cons _ _ => simp at hlen
        subst hks
        simp only [hc', Bool.not_false, if_true, T.kids, toFormattedKids]
        exact ⟨hj, alj, rfl, Nat.le_refl _, rfl, by rw [hch, ReprJKids], fun _ _ _ => rfl⟩
/-- the loop over the remaining children: `done` records are in place, the next index is `done.length` -/
theorem fmt_kids (h : Heap) (p fp : Nat) (fuel : Nat) : ∀ (ts : List T) (hj : HeapJ) (alj : Nat) (pre cids done : List Nat)
    (lvl : Nat), ReprKids h ts cids p lvl → (h p).children = pre ++ cids → sizeList ts ≤ fuel → fp < alj →
    (hj fp).Children = done → pre.length = done.length →
    ∃ hj' alj', Go.forRange ((List.range' pre.length cids.length).map Int.ofNat) (hj, alj) (fmtBody h p fp fuel)
        = Go.Ctl.next (hj', alj') ∧ alj ≤ alj' ∧
      (∃ newIds, ReprJKids hj' alj alj' (toFormattedKids ts) newIds ∧ (hj' fp).Children = done ++ newIds) ∧
      (∀ q, q < alj → q ≠ fp → hj' q = hj q) ∧ (hj' fp).Name = (hj fp).Name
  | [], hj, alj, pre, cids, done, lvl, hr, _, _, _, hch, _ => by
    rw [ReprKids] at hr; subst hr
    exact ⟨hj, alj, by simp [Go.forRange], Nat.le_refl _, ⟨[], by rw [toFormattedKids, ReprJKids], by simpa using hch⟩,
      fun _ _ _ => rfl, rfl⟩
  | t :: ts, hj, alj, pre, cids, done, lvl, hr, hpc, hf, hfp, hch, hpl => by
    rw [ReprKids] at hr
    obtain ⟨c, cs', rfl, hrc, hrs⟩ := hr
    have hsz : sizeList (t :: ts) = t.size + sizeList ts := by simp [sizeList]
    rw [hsz] at hf
    have hfpne : fp ≠ alj := by omega
    have hidx : Go.idxPtr (h p).children (Int.ofNat pre.length) = c := by rw [hpc]; exact idxPtr_at pre c cs'
    simp only [List.length_cons, List.range'_succ, List.map_cons, Go.forRange]
    simp only [fmtBody, hidx, setChild_eq h hj alj fp _ hfpne]
    obtain ⟨hj1, hhj1⟩ : ∃ hj1 : HeapJ, hj1 = HeapJ.set (HeapJ.set hj alj { Name := (h c).name, Children := [] }) fp
        { (hj fp) with Children := (hj fp).Children ++ [alj] } := ⟨_, rfl⟩
    rw [← hhj1]
    have h1fp : hj1 fp = { (hj fp) with Children := done ++ [alj] } := by rw [hhj1, hch]; simp [HeapJ.set]
    have h1new : hj1 alj = { Name := (h c).name, Children := [] } := by
      rw [hhj1]; simp [HeapJ.set, Ne.symm hfpne]
    have h1other : ∀ q, q ≠ alj → q ≠ fp → hj1 q = hj q := by
      intro q h1 h2; rw [hhj1]; simp [HeapJ.set, h1, h2]
    have hget : jsonNode.getChild h hj1 fp (Int.ofNat pre.length) = alj := by
      unfold jsonNode.getChild
      rw [h1fp, hpl]
      exact idxPtr_at done alj []
    rw [hget]
    cases t with
    | mk n ks =>
      have hcn : (h c).name = n := by rw [Repr] at hrc; exact hrc.2.1
      obtain ⟨hj2, alj2, hrun2, hle2, hnm2, hrep2, hfr2⟩ := fmt_node h (.mk n ks) hj1 (alj + 1) c p alj lvl fuel hrc
        (by omega) (by omega) (by rw [h1new])
      rw [hrun2]
      simp only []
      have h2fp : hj2 fp = hj1 fp := hfr2 fp (by omega) hfpne
      obtain ⟨hj3, alj3, hrun3, hle3, ⟨newIds, hrep3, hch3⟩, hfr3, hnm3⟩ :=
        fmt_kids h p fp fuel ts hj2 alj2 (pre ++ [c]) cs' (done ++ [alj]) lvl hrs (by rw [hpc]; simp) (by omega)
          (by omega) (by rw [h2fp, h1fp]) (by simp [hpl])
      have hlen' : (pre ++ [c]).length = pre.length + 1 := by simp
      rw [hlen'] at hrun3
      refine ⟨hj3, alj3, hrun3, by omega, ⟨alj :: newIds, ?_, by rw [hch3]; simp⟩, ?_, ?_⟩
      · rw [toFormattedKids, ReprJKids]
        refine ⟨alj, newIds, rfl, ?_, ReprJKids_congr (by omega) (Nat.le_refl _) (fun _ _ _ => rfl) _ _ hrep3⟩
        -- this child's record (at `alj`) and its subtree (in `[alj+1, alj2)`) are untouched by the later rounds
        have hthis : ReprJ hj2 alj alj2 (toFormatted (.mk n ks)) alj := by
          rw [toFormatted, ReprJ]
          refine ⟨Nat.le_refl _, by omega, by rw [hnm2, h1new, hcn], ?_⟩
          exact ReprJKids_congr (by omega) (Nat.le_refl _) (fun _ _ _ => rfl) _ _ hrep2
        exact ReprJ_congr (Nat.le_refl _) hle3 (fun q hq0 hq => hfr3 q hq (by omega)) _ _ hthis
      · intro q hq hqf
        rw [hfr3 q (by omega) hqf, hfr2 q (by omega) (by omega), h1other q (by omega) hqf]
      · rw [hnm3, h2fp, h1fp]
end

/-- **`toFormattedNode` of the source builds the model's formatted tree**: for every heap that holds the tree `t` at `p`,
    every record heap with a childless record `fp` named like the root (what `formattedRoot(root.name)` makes) below the
    allocator, and every fuel above the tree's size — the result is `fp`, the record heap holds `toFormatted t` at `fp`
    (same names, same order, same nesting), and no other record that existed before was touched. -/
theorem toFormattedNode_heap (h : Heap) (t : T) (hj : HeapJ) (alj : Nat) (p par fp : Nat) (lvl fuel : Nat)
    (hr : Repr h t p par lvl) (hf : t.size ≤ fuel) (hfp : fp < alj) (hn : (hj fp).Name = t.name)
    (hch : (hj fp).Children = []) :
    ∃ hj' alj', toFormattedNode fuel h hj alj p fp = some (hj', alj', fp) ∧ alj ≤ alj' ∧
      ReprJ hj' 0 alj' (toFormatted t) fp ∧ (∀ q, q < alj → q ≠ fp → hj' q = hj q) := by
  obtain ⟨hj', alj', hrun, hle, hnm, hkids, hfr⟩ := fmt_node h t hj alj p par fp lvl fuel hr hf hfp hch
  refine ⟨hj', alj', hrun, hle, ?_, hfr⟩
  cases t with
  | mk n ks =>
    rw [toFormatted, ReprJ]
    refine ⟨Nat.zero_le _, by omega, by rw [hnm, hn]; rfl, ?_⟩
    exact ReprJKids_congr (Nat.zero_le _) (Nat.le_refl _) (fun _ _ _ => rfl) _ _ hkids

end Gtree.SrcH
