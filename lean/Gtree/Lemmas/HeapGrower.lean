import Gtree.Generated.SourceHeap
import Gtree.Model.Grow
import Gtree.Lemmas.Validate
import Gtree.Lemmas.SourceRefines
/-
  The grower of the source (simple_tree_grower.go, with the methods of node.go it calls), translated over an
  explicit heap by /verif/translate (heap mode), IS the model's grower: for every heap that holds a tree — names,
  levels, parent links and child lists, all pointers different — running the translated `assemble` on the root's
  pointer leaves in every node of the tree the branch and the path the model's `growRoot` computes, changes no
  other cell and no other field, and returns the first validation error in pre-order (when validation is on).
-/
namespace Gtree.SrcH
open Gtree Gtree.Go

/-- the branch strings the grower holds, as the model's `Fmt` -/
def fmtOf (dg : defaultGrowerSimple) : Fmt :=
  { lastD := dg.lastNodeFormat.directly, lastI := dg.lastNodeFormat.indirectly,
    midD := dg.intermedialNodeFormat.directly, midI := dg.intermedialNodeFormat.indirectly }

/-- every write of the grower: the `brnch` field of one cell -/
def setBr (h : Heap) (n : Ptr) (b : Src.branch) : Heap := Heap.set h n { (h n) with brnch := b }

@[simp] theorem setBr_self (h : Heap) (n : Ptr) (b : Src.branch) :
    (setBr h n b) n = { (h n) with brnch := b } := by simp [setBr, Heap.set]

theorem setBr_other (h : Heap) (n q : Ptr) (b : Src.branch) (hq : q ≠ n) : (setBr h n b) q = h q := by
  simp [setBr, Heap.set, hq]

@[simp] theorem setBr_name (h : Heap) (n q : Ptr) (b : Src.branch) : ((setBr h n b) q).name = (h q).name := by
  unfold setBr Heap.set; split <;> simp_all
@[simp] theorem setBr_hierarchy (h : Heap) (n q : Ptr) (b : Src.branch) :
    ((setBr h n b) q).hierarchy = (h q).hierarchy := by
  unfold setBr Heap.set; split <;> simp_all
@[simp] theorem setBr_parent (h : Heap) (n q : Ptr) (b : Src.branch) : ((setBr h n b) q).parent = (h q).parent := by
  unfold setBr Heap.set; split <;> simp_all
@[simp] theorem setBr_children (h : Heap) (n q : Ptr) (b : Src.branch) :
    ((setBr h n b) q).children = (h q).children := by
  unfold setBr Heap.set; split <;> simp_all
@[simp] theorem setBr_brnch_self (h : Heap) (n : Ptr) (b : Src.branch) : ((setBr h n b) n).brnch = b := by simp

@[simp] theorem setBr_setBr (h : Heap) (n : Ptr) (b b' : Src.branch) : setBr (setBr h n b) n b' = setBr h n b' := by
  funext q
  by_cases hq : q = n
  · subst hq; simp
  · simp [setBr_other _ _ _ _ hq]

theorem add_bytes (a b : Bytes) : a + b = a ++ b := rfl

theorem setBranch_eq (h : Heap) (n : Ptr) (xs : List Bytes) :
    Node.setBranch h n xs = setBr h n { (h n).brnch with value := xs.flatten } := by
  have key : ∀ (xs : List Bytes) (acc : Bytes),
      Go.forRange xs (h, acc) (fun v (st_ : Heap × Bytes) => (Go.Ctl.next (st_.1, st_.2 ++ v) : Go.Ctl (Heap × Bytes) Heap))
        = Go.Ctl.next (h, acc ++ xs.flatten) := by
    intro xs
    induction xs with
    | nil => intro acc; simp [Go.forRange]
    | cons x xs ih => intro acc; simp [Go.forRange, ih, List.append_assoc]
  have := key xs []
  simp only [List.nil_append] at this
  show (match Go.forRange xs (h, ([] : Bytes)) (fun v (st_ : Heap × Bytes) =>
      (Go.Ctl.next (st_.1, st_.2 ++ v) : Go.Ctl (Heap × Bytes) Heap)) with
    | Go.Ctl.ret r_ => r_
    | Go.Ctl.brk st_ | Go.Ctl.next st_ => Heap.set st_.1 n { (st_.1 n) with brnch := { (st_.1 n).brnch with value := st_.2 } }) = _
  rw [this]
  rfl

theorem setPath_eq (h : Heap) (n : Ptr) (xs : List Bytes) :
    Node.setPath h n xs = setBr h n { (h n).brnch with path := pathJoin xs } := by
  simp [Node.setPath, setBr, Go.path_Join]

theorem pathJoin_empty : pathJoin [([] : Bytes)] = [] := by decide

theorem clean_eq (h : Heap) (n : Ptr) : Node.clean h n = setBr h n ⟨[], []⟩ := by
  simp [Node.clean, setBranch_eq, setPath_eq, pathJoin_empty]

/-- `isLastOfHierarchy` reads parent links and child lists only -/
theorem isLast_setBr (h : Heap) (n q : Ptr) (b : Src.branch) :
    Node.isLastOfHierarchy (setBr h n b) q = Node.isLastOfHierarchy h q := by
  simp [Node.isLastOfHierarchy]

theorem isRoot_setBr (h : Heap) (n q : Ptr) (b : Src.branch) : Node.isRoot (setBr h n b) q = Node.isRoot h q := by
  simp [Node.isRoot]

/-- `Up h root q anc`: following the parent links from `q` one meets the ancestors `anc` strictly below the root
    (nearest first: name, and whether the ancestor is its parent's last child) and then the root -/
def Up (h : Heap) (root : Ptr) : Ptr → List Anc → Prop
  | q, [] => q = root ∧ root ≠ 0 ∧ (h root).hierarchy = 1
  | q, a :: anc => q ≠ 0 ∧ (h q).hierarchy ≠ 1 ∧ (h q).name = a.1 ∧ Node.isLastOfHierarchy h q = a.2 ∧
      Up h root (h q).parent anc

theorem Up_setBr (h : Heap) (root n : Ptr) (b : Src.branch) :
    ∀ (anc : List Anc) (q : Ptr), Up (setBr h n b) root q anc ↔ Up h root q anc
  | [], q => by simp [Up]
  | a :: anc, q => by simp [Up, isLast_setBr, Up_setBr h root n b anc]

theorem Up_ne_zero (h : Heap) (root : Ptr) : ∀ (anc : List Anc) (q : Ptr), Up h root q anc → q ≠ 0
  | [], q, hu => by obtain ⟨rfl, h0, _⟩ := hu; exact h0
  | _ :: _, q, hu => hu.1

theorem Up_root (h : Heap) (root : Ptr) : ∀ (anc : List Anc) (q : Ptr), Up h root q anc →
    root ≠ 0 ∧ (h root).hierarchy = 1
  | [], q, hu => ⟨hu.2.1, hu.2.2⟩
  | _ :: anc, q, hu => Up_root h root anc _ hu.2.2.2.2

theorem indirect_eq (dg : defaultGrowerSimple) (h : Heap) (cur q : Ptr) (b : Src.branch)
    (hc0 : cur ≠ 0) (hcl : (h cur).hierarchy ≠ 1) (hq0 : q ≠ 0) :
    defaultGrowerSimple.assembleBranchIndirectly (setBr h cur b) dg cur q
      = setBr h cur ⟨(if Node.isLastOfHierarchy h q then (fmtOf dg).lastI else (fmtOf dg).midI) ++ b.value,
          pathJoin [(h q).name, b.path]⟩ := by
  have hnil : Go.nilPtr = 0 := rfl
  simp only [defaultGrowerSimple.assembleBranchIndirectly, hnil, beq_iff_eq, hc0, hq0, Node.isRoot,
    Src.rootHierarchyNum, setBr_hierarchy, hcl, Bool.or_self, Bool.false_eq_true, if_false,
    setPath_eq, setBranch_eq, Node.path, Node.branch, setBr_name, setBr_setBr, setBr_brnch_self,
    isLast_setBr]
  cases Node.isLastOfHierarchy h q <;> simp [fmtOf, hc0, hq0, hcl]

/-- condition and body of the loop of `assembleBranch` that walks from the parent up to the root -/
def loopCond : Heap × Ptr → Bool := fun st_ => match st_ with | (h_, tmpParent) => (!(Node.isRoot h_ tmpParent))
def loopBody (dg : defaultGrowerSimple) (cur : Ptr) : Heap × Ptr → Go.Ctl (Heap × Ptr) (Option (Heap × Option Src.Err)) :=
  fun st_ => match st_ with
    | (h_, tmpParent) =>
      let h_ := (defaultGrowerSimple.assembleBranchIndirectly h_ dg cur tmpParent)
      let tmpParent := (h_ tmpParent).parent
      Go.Ctl.next (h_, tmpParent)

theorem loop_eq (dg : defaultGrowerSimple) (h : Heap) (cur root : Ptr) (hc0 : cur ≠ 0) (hcl : (h cur).hierarchy ≠ 1) :
    ∀ (anc : List Anc) (q : Ptr) (b : Src.branch) (fuel : Nat), Up h root q anc → anc.length ≤ fuel →
      Go.forLoop fuel (setBr h cur b, q) loopCond (loopBody dg cur)
      = some (Go.Ctl.next (setBr h cur
          ⟨anc.foldl (fun acc a => (if a.2 then (fmtOf dg).lastI else (fmtOf dg).midI) ++ acc) b.value,
           anc.foldl (fun acc a => pathJoin [a.1, acc]) b.path⟩, root))
  | [], q, b, fuel, hu, _ => by
    obtain ⟨rfl, _, hr⟩ := hu
    cases fuel <;> simp [Go.forLoop, loopCond, Node.isRoot, Src.rootHierarchyNum, hr]
  | a :: anc, q, b, fuel, hu, hf => by
    obtain ⟨hq0, hql, hqn, hqlast, hup⟩ := hu
    cases fuel with
    | zero => simp at hf
    | succ fuel =>
      have ih := loop_eq dg h cur root hc0 hcl anc (h q).parent
        ⟨(if a.2 then (fmtOf dg).lastI else (fmtOf dg).midI) ++ b.value, pathJoin [a.1, b.path]⟩ fuel hup
        (by simp at hf; omega)
      have hcond : loopCond (setBr h cur b, q) = true := by
        simp [loopCond, Node.isRoot, Src.rootHierarchyNum, hql]
      have hbody : loopBody dg cur (setBr h cur b, q) = Go.Ctl.next (setBr h cur
          ⟨(if a.2 then (fmtOf dg).lastI else (fmtOf dg).midI) ++ b.value, pathJoin [a.1, b.path]⟩, (h q).parent) := by
        simp only [loopBody, indirect_eq dg h cur q b hc0 hcl hq0, hqlast, hqn, setBr_parent]
      rw [Go.forLoop, hcond, if_pos rfl, hbody]
      simpa using ih

theorem assembleBranch_unfold (fuel : Nat) (h : Heap) (dg : defaultGrowerSimple) (cur : Ptr) :
    defaultGrowerSimple.assembleBranch fuel h dg cur =
      (let h1 := defaultGrowerSimple.assembleBranchDirectly (Node.clean h cur) dg cur
       let tp := (h1 cur).parent
       if (tp != Go.nilPtr) then
         (match Go.forLoop fuel (h1, tp) loopCond (loopBody dg cur) with
          | none => none
          | some (Go.Ctl.ret r_) => r_
          | some (Go.Ctl.brk st_) | some (Go.Ctl.next st_) =>
            let h2 := defaultGrowerSimple.assembleBranchFinally st_.1 dg cur st_.2
            if dg.enabledValidation then some (h2, Node.validatePath h2 cur) else some (h2, none))
       else
         (let h2 := defaultGrowerSimple.assembleBranchFinally h1 dg cur tp
          if dg.enabledValidation then some (h2, Node.validatePath h2 cur) else some (h2, none))) := by
  rfl

/-- `assembleBranch` on a node below the root -/
theorem assembleBranch_node (dg : defaultGrowerSimple) (h : Heap) (cur root : Ptr) (l : Bool) (anc : List Anc)
    (fuel : Nat) (hc0 : cur ≠ 0) (hcl : (h cur).hierarchy ≠ 1) (hup : Up h root (h cur).parent anc)
    (hl : Node.isLastOfHierarchy h cur = l) (hf : anc.length ≤ fuel) :
    defaultGrowerSimple.assembleBranch fuel h dg cur =
      some (setBr h cur ⟨branchOf (fmtOf dg) l anc, pathOf (h root).name (h cur).name anc⟩,
        if dg.enabledValidation then
          Node.validatePath (setBr h cur ⟨branchOf (fmtOf dg) l anc, pathOf (h root).name (h cur).name anc⟩) cur
        else none) := by
  have hnil : Go.nilPtr = 0 := rfl
  have hp0 : (h cur).parent ≠ 0 := Up_ne_zero h root anc _ hup
  have hdirect : defaultGrowerSimple.assembleBranchDirectly (Node.clean h cur) dg cur
      = setBr h cur ⟨if l then (fmtOf dg).lastD else (fmtOf dg).midD, pathJoin [(h cur).name]⟩ := by
    simp only [defaultGrowerSimple.assembleBranchDirectly, clean_eq, hnil, beq_iff_eq, Node.isRoot,
      Src.rootHierarchyNum, setBr_hierarchy, setPath_eq, setBranch_eq, Node.branch, setBr_name, setBr_setBr,
      setBr_brnch_self, isLast_setBr, hl]
    cases l <;> simp [fmtOf, hc0, hcl]
  rw [assembleBranch_unfold]
  simp only [hdirect, setBr_parent, hnil, bne_iff_ne, ne_eq, hp0, not_false_eq_true, if_true]
  rw [loop_eq dg h cur root hc0 hcl anc (h cur).parent
    ⟨if l then (fmtOf dg).lastD else (fmtOf dg).midD, pathJoin [(h cur).name]⟩ fuel hup hf]
  have hr0 : root ≠ 0 := (Up_root h root anc _ hup).1
  have hrl : (h root).hierarchy = 1 := (Up_root h root anc _ hup).2
  simp only [defaultGrowerSimple.assembleBranchFinally, hnil, beq_iff_eq, hc0, if_false, bne_iff_ne, ne_eq, hr0,
    not_false_eq_true, if_true, setPath_eq, Node.path, Node.isRoot, Src.rootHierarchyNum, setBr_hierarchy, hrl,
    hcl, setBr_name, setBr_brnch_self, setBr_setBr, branchOf, pathOf]
  cases dg.enabledValidation <;> simp

/-- `assembleBranch` on a root -/
theorem assembleBranch_root (dg : defaultGrowerSimple) (h : Heap) (cur : Ptr) (fuel : Nat)
    (hc0 : cur ≠ 0) (hcl : (h cur).hierarchy = 1) (hpar : (h cur).parent = 0) :
    defaultGrowerSimple.assembleBranch fuel h dg cur =
      some (setBr h cur ⟨[], []⟩,
        if dg.enabledValidation then Node.validatePath (setBr h cur ⟨[], []⟩) cur else none) := by
  have hnil : Go.nilPtr = 0 := rfl
  have hdirect : defaultGrowerSimple.assembleBranchDirectly (Node.clean h cur) dg cur = setBr h cur ⟨[], []⟩ := by
    simp [defaultGrowerSimple.assembleBranchDirectly, clean_eq, Node.isRoot, Src.rootHierarchyNum, hcl]
  rw [assembleBranch_unfold]
  simp only [hdirect, setBr_parent, hpar, hnil, bne_self_eq_false, Bool.false_eq_true, if_false,
    defaultGrowerSimple.assembleBranchFinally, beq_iff_eq, hc0]
  cases dg.enabledValidation <;> simp

/-! ### heaps that hold a tree -/

/-- `h'` has the shape of `h`: names, levels, parent links and child lists agree (branches and paths may differ) -/
def SameShape (h h' : Heap) : Prop :=
  ∀ q, (h' q).name = (h q).name ∧ (h' q).hierarchy = (h q).hierarchy ∧ (h' q).parent = (h q).parent ∧
    (h' q).children = (h q).children

theorem SameShape.refl (h : Heap) : SameShape h h := fun _ => ⟨rfl, rfl, rfl, rfl⟩
theorem SameShape.trans {h h' h'' : Heap} (a : SameShape h h') (b : SameShape h' h'') : SameShape h h'' := fun q =>
  ⟨(b q).1.trans (a q).1, (b q).2.1.trans (a q).2.1, (b q).2.2.1.trans (a q).2.2.1, (b q).2.2.2.trans (a q).2.2.2⟩
theorem SameShape.setBr (h : Heap) (n : Ptr) (b : Src.branch) : SameShape h (setBr h n b) := fun q => by simp

theorem isLast_shape {h h' : Heap} (s : SameShape h h') (q : Ptr) :
    Node.isLastOfHierarchy h' q = Node.isLastOfHierarchy h q := by
  simp [Node.isLastOfHierarchy, (s q).2.2.1, (s (h q).parent).2.2.2]

theorem Up_shape {h h' : Heap} (s : SameShape h h') (root : Ptr) :
    ∀ (anc : List Anc) (q : Ptr), Up h' root q anc ↔ Up h root q anc
  | [], q => by simp [Up, (s root).2.1]
  | a :: anc, q => by simp [Up, isLast_shape s, Up_shape s root anc, (s q).1, (s q).2.1, (s q).2.2.1]

mutual
/-- the heap holds the tree `t` at pointer `p`, whose parent pointer is `par` and whose level is `lvl` -/
def Repr (h : Heap) : T → Ptr → Ptr → Nat → Prop
  | .mk n ks, p, par, lvl => p ≠ 0 ∧ (h p).name = n ∧ (h p).hierarchy = (lvl : Int) ∧ (h p).parent = par ∧
      ReprKids h ks (h p).children p (lvl + 1)
def ReprKids (h : Heap) : List T → List Ptr → Ptr → Nat → Prop
  | [], cs, _, _ => cs = []
  | t :: ts, cs, par, lvl => ∃ c cs', cs = c :: cs' ∧ Repr h t c par lvl ∧ ReprKids h ts cs' par lvl
end

mutual
/-- the pointers of the nodes of the tree held at `p`, pre-order -/
def ptrs (h : Heap) : T → Ptr → List Ptr
  | .mk _ ks, p => p :: ptrsKids h ks (h p).children
def ptrsKids (h : Heap) : List T → List Ptr → List Ptr
  | [], _ => []
  | _ :: _, [] => []
  | t :: ts, c :: cs => ptrs h t c ++ ptrsKids h ts cs
end

mutual
/-- what the walker, the printers and the mkdirer read from the nodes of the tree held at `p`, pre-order -/
def readNode (h : Heap) : T → Ptr → Nat → List Visit
  | .mk _ ks, p, lvl =>
    { name := (h p).name, branch := Node.branch h p, level := lvl, path := Node.path h p, hasChild := Node.hasChild h p }
      :: readKids h ks (h p).children (lvl + 1)
def readKids (h : Heap) : List T → List Ptr → Nat → List Visit
  | [], _, _ => []
  | _ :: _, [], _ => []
  | t :: ts, c :: cs, lvl => readNode h t c lvl ++ readKids h ts cs lvl
end

mutual
theorem Repr_shape {h h' : Heap} (s : SameShape h h') : ∀ (t : T) (p par : Ptr) (lvl : Nat),
    Repr h t p par lvl → Repr h' t p par lvl
  | .mk n ks, p, par, lvl, hr => by
    rw [Repr] at hr ⊢
    obtain ⟨h0, hn, hl, hp, hk⟩ := hr
    refine ⟨h0, (s p).1.trans hn, (s p).2.1.trans hl, (s p).2.2.1.trans hp, ?_⟩
    rw [(s p).2.2.2]
    exact ReprKids_shape s ks _ p (lvl + 1) hk
theorem ReprKids_shape {h h' : Heap} (s : SameShape h h') : ∀ (ts : List T) (cs : List Ptr) (par : Ptr) (lvl : Nat),
    ReprKids h ts cs par lvl → ReprKids h' ts cs par lvl
  | [], cs, par, lvl, hr => by rw [ReprKids] at hr ⊢; exact hr
  | t :: ts, cs, par, lvl, hr => by
    rw [ReprKids] at hr ⊢
    obtain ⟨c, cs', rfl, h1, h2⟩ := hr
    exact ⟨c, cs', rfl, Repr_shape s t c par lvl h1, ReprKids_shape s ts cs' par lvl h2⟩
end

mutual
theorem ptrs_shape {h h' : Heap} (s : SameShape h h') : ∀ (t : T) (p : Ptr), ptrs h' t p = ptrs h t p
  | .mk n ks, p => by rw [ptrs, ptrs, (s p).2.2.2, ptrsKids_shape s ks]
theorem ptrsKids_shape {h h' : Heap} (s : SameShape h h') : ∀ (ts : List T) (cs : List Ptr),
    ptrsKids h' ts cs = ptrsKids h ts cs
  | [], cs => by rw [ptrsKids, ptrsKids]
  | _ :: _, [] => by rw [ptrsKids, ptrsKids]
  | t :: ts, c :: cs => by rw [ptrsKids, ptrsKids, ptrs_shape s t c, ptrsKids_shape s ts cs]
end

mutual
/-- reading a tree depends on the cells of its own nodes only -/
theorem readNode_congr {h h' : Heap} : ∀ (t : T) (p : Ptr) (lvl : Nat), (∀ q ∈ ptrs h t p, h' q = h q) →
    readNode h' t p lvl = readNode h t p lvl
  | .mk n ks, p, lvl, hq => by
    have hp : h' p = h p := hq p (by rw [ptrs]; simp)
    rw [readNode, readNode]
    have hk := readKids_congr ks (h p).children (lvl + 1) (fun q hq' => hq q (by rw [ptrs]; simp [hq']))
    simp [Node.branch, Node.path, Node.isRoot, Node.hasChild, hp, hk]
theorem readKids_congr {h h' : Heap} : ∀ (ts : List T) (cs : List Ptr) (lvl : Nat),
    (∀ q ∈ ptrsKids h ts cs, h' q = h q) → readKids h' ts cs lvl = readKids h ts cs lvl
  | [], cs, lvl, _ => by rw [readKids, readKids]
  | _ :: _, [], lvl, _ => by rw [readKids, readKids]
  | t :: ts, c :: cs, lvl, hq => by
    rw [readKids, readKids,
      readNode_congr t c lvl (fun q hq' => hq q (by rw [ptrsKids]; simp [hq'])),
      readKids_congr ts cs lvl (fun q hq' => hq q (by rw [ptrsKids]; simp [hq']))]
end

/-- the children's pointers are among the pointers of the children's trees, in order -/
theorem kids_sublist (h : Heap) : ∀ (ts : List T) (cs : List Ptr) (par : Ptr) (lvl : Nat),
    ReprKids h ts cs par lvl → cs.Sublist (ptrsKids h ts cs)
  | [], cs, par, lvl, hr => by rw [ReprKids] at hr; subst hr; simp
  | .mk n ks :: ts, cs, par, lvl, hr => by
    rw [ReprKids] at hr
    obtain ⟨c, cs', rfl, _, h2⟩ := hr
    rw [ptrsKids, ptrs]
    exact List.Sublist.cons₂ c (List.Sublist.trans (kids_sublist h ts cs' par lvl h2) (List.sublist_append_right _ _))

theorem readKids_length_eq (h : Heap) : ∀ (ts : List T) (cs : List Ptr) (par : Ptr) (lvl : Nat),
    ReprKids h ts cs par lvl → cs.length = ts.length
  | [], cs, par, lvl, hr => by rw [ReprKids] at hr; subst hr; rfl
  | t :: ts, cs, par, lvl, hr => by
    rw [ReprKids] at hr
    obtain ⟨c, cs', rfl, _, h2⟩ := hr
    simp [readKids_length_eq h ts cs' par lvl h2]

/-! ### the recursion -/

theorem idxPtr_last (xs : List Ptr) (hne : xs ≠ []) : Go.idxPtr xs (Go.len xs - 1) = xs.getLast hne := by
  have hl : 0 < xs.length := List.length_pos_iff.mpr hne
  unfold Go.idxPtr Go.len
  have h1 : ¬ ((Int.ofNat xs.length - 1) < 0) := by simp only [Int.ofNat_eq_natCast]; omega
  rw [if_neg h1]
  have h2 : (Int.ofNat xs.length - 1).toNat = xs.length - 1 := by simp only [Int.ofNat_eq_natCast]; omega
  rw [h2, List.getD_eq_getElem?_getD, List.getLast_eq_getElem, List.getElem?_eq_getElem (by omega)]
  rfl

/-- "is the last child" is decided by identity of pointers; with pairwise different children it is the position -/
theorem isLast_child (h : Heap) (c par : Ptr) (pre cs' : List Ptr) (hpar : (h c).parent = par) (hp0 : par ≠ 0)
    (hch : (h par).children = pre ++ c :: cs') (hnd : ((h par).children).Nodup) :
    Node.isLastOfHierarchy h c = cs'.isEmpty := by
  have hnil : Go.nilPtr = 0 := rfl
  unfold Node.isLastOfHierarchy
  simp only [hpar, hnil, beq_iff_eq, hp0, if_false]
  rw [idxPtr_last _ (by rw [hch]; simp)]
  cases cs' with
  | nil => simp [hch]
  | cons d ds =>
    simp only [hch, List.isEmpty_cons, beq_eq_false_iff_ne, ne_eq]
    rw [hch] at hnd
    intro he
    have hmem : c ∈ d :: ds := by
      have : (pre ++ c :: d :: ds).getLast (by simp) = (d :: ds).getLast (by simp) := by
        rw [List.getLast_append_of_ne_nil _ (by simp), List.getLast_cons (by simp)]
      rw [this] at he
      rw [he]; exact List.getLast_mem _
    have := (List.nodup_append.mp hnd).2.1
    rw [List.nodup_cons] at this
    exact this.1 hmem

/-- `Node.validatePath` on a cell is the model's `validateVisit` of what the walker would read from it -/
theorem validatePath_heap (h : Heap) (p : Ptr) (v : Visit) (hn : (h p).name = v.name)
    (hp : Node.path h p = v.path) (hroot : v.level = 1 → v.path = v.name) :
    Node.validatePath h p = (validateVisit v).map verrSrc := by
  rw [← validatePath_src v hroot]
  have hpath : Src.Node.path (visitNode v) = v.path := by
    unfold Src.Node.path Src.Node.isRoot visitNode
    simp only [Src.rootHierarchyNum]
    by_cases h1 : v.level = 1
    · have : (((v.level : Nat) : Int) == 1) = true := by rw [h1]; rfl
      simp [this, hroot h1]
    · have : (((v.level : Nat) : Int) == 1) = false := by
        simp only [beq_eq_false_iff_ne, ne_eq]; omega
      simp [this]
  unfold Node.validatePath Src.Node.validatePath
  rw [hpath, hp, hn]
  rfl

/-- the error the grower returns for these nodes: the first validation failure in pre-order, when validation is on -/
def expErr (dg : defaultGrowerSimple) (vs : List Visit) : Option Src.Err :=
  if dg.enabledValidation then (validateVisits vs).map verrSrc else none

theorem expErr_cons (dg : defaultGrowerSimple) (v : Visit) (vs : List Visit) :
    expErr dg (v :: vs) = (match expErr dg [v] with | some e => some e | none => expErr dg vs) := by
  unfold expErr
  cases dg.enabledValidation <;> simp [validateVisits]
  cases validateVisit v <;> simp

theorem expErr_append (dg : defaultGrowerSimple) (a b : List Visit) :
    expErr dg (a ++ b) = (match expErr dg a with | some e => some e | none => expErr dg b) := by
  unfold expErr
  cases dg.enabledValidation <;> simp [validateVisits_append]
  cases validateVisits a <;> simp

theorem expErr_single (dg : defaultGrowerSimple) (v : Visit) :
    expErr dg [v] = if dg.enabledValidation then (validateVisit v).map verrSrc else none := by
  unfold expErr
  cases dg.enabledValidation <;> simp [validateVisits]
  cases validateVisit v <;> simp

/-- the body of the loop of `assemble` over the children -/
def kidsBody (dg : defaultGrowerSimple) (fuel : Nat) : Ptr → Heap → Go.Ctl Heap (Option (Heap × Option Src.Err)) :=
  fun child st_ =>
    match (defaultGrowerSimple.assemble fuel st_ dg child) with
    | none => Go.Ctl.ret none
    | some r_ =>
      match r_ with
      | (h_, err) => if (Option.isSome err) then Go.Ctl.ret (some (h_, err)) else Go.Ctl.next h_

theorem assemble_unfold (fuel : Nat) (h : Heap) (dg : defaultGrowerSimple) (cur : Ptr) :
    defaultGrowerSimple.assemble (fuel + 1) h dg cur =
      (match (defaultGrowerSimple.assembleBranch fuel h dg cur) with
       | none => none
       | some r_ =>
         match r_ with
         | (h_, err) =>
           if (Option.isSome err) then some (h_, err)
           else
             match Go.forRange (h_ cur).children h_ (kidsBody dg fuel) with
             | Go.Ctl.ret r_ => r_
             | Go.Ctl.brk st_ | Go.Ctl.next st_ => some (st_, none)) := by
  rfl

theorem size_le_sizeList_head (t : T) (ts : List T) : t.size ≤ sizeList (t :: ts) := by
  simp [sizeList]

mutual
/-- the grower on a node below the root -/
theorem assemble_node (dg : defaultGrowerSimple) (root : Ptr) (rn : Bytes) :
    ∀ (t : T) (h : Heap) (p par : Ptr) (lvl : Nat) (l : Bool) (anc : List Anc) (fuel : Nat),
      2 ≤ lvl → (h root).name = rn → Repr h t p par lvl → Up h root par anc → Node.isLastOfHierarchy h p = l →
      (ptrs h t p).Nodup → 2 * t.size + anc.length ≤ fuel →
      ∃ h', defaultGrowerSimple.assemble fuel h dg p = some (h', expErr dg (growNode (fmtOf dg) rn anc lvl l t)) ∧
        (expErr dg (growNode (fmtOf dg) rn anc lvl l t) = none →
          SameShape h h' ∧ (∀ q, q ∉ ptrs h t p → h' q = h q) ∧
          readNode h' t p lvl = growNode (fmtOf dg) rn anc lvl l t)
  | .mk n ks, h, p, par, lvl, l, anc, fuel, hlvl, hrn, hr, hup, hl, hnd, hf => by
    rw [Repr] at hr
    obtain ⟨hp0, hpn, hpl, hpp, hk⟩ := hr
    have hpl1 : (h p).hierarchy ≠ 1 := by rw [hpl]; omega
    have hsz : T.size (.mk n ks) = 1 + sizeList ks := by simp [T.size]
    rw [hsz] at hf
    cases fuel with
    | zero => omega
    | succ fuel =>
      rw [assemble_unfold, assembleBranch_node dg h p root l anc fuel hp0 hpl1 (hpp ▸ hup) hl (by omega)]
      simp only [hrn, hpn]
      -- the node's own visit
      obtain ⟨b, hb⟩ : ∃ b : Src.branch, b = ⟨branchOf (fmtOf dg) l anc, pathOf rn n anc⟩ := ⟨_, rfl⟩
      rw [← hb]
      obtain ⟨h1, hh1⟩ : ∃ h1 : Heap, h1 = setBr h p b := ⟨_, rfl⟩
      rw [← hh1]
      obtain ⟨v, hv⟩ : ∃ v : Visit, v = Visit.mk n (branchOf (fmtOf dg) l anc) lvl (pathOf rn n anc) (!ks.isEmpty) :=
        ⟨_, rfl⟩
      have hs1 : SameShape h h1 := hh1 ▸ SameShape.setBr h p b
      have hpath1 : Node.path h1 p = v.path := by
        simp [hh1, hb, hv, Node.path, Node.isRoot, Src.rootHierarchyNum, hpl1]
      have hval : Node.validatePath h1 p = (validateVisit v).map verrSrc :=
        validatePath_heap h1 p v (by simp [hh1, hv, hpn]) hpath1 (by intro h1'; simp [hv] at h1'; omega)
      have hgrow : growNode (fmtOf dg) rn anc lvl l (.mk n ks)
          = v :: growKids (fmtOf dg) rn ((n, l) :: anc) (lvl + 1) ks := by rw [growNode, hv]
      rw [hgrow, expErr_cons, expErr_single]
      simp only [hval]
      by_cases hve : (if dg.enabledValidation then (validateVisit v).map verrSrc else none) = none
      · -- the node is fine: go on with the children
        rw [hve]
        simp only [Option.isSome_none, Bool.false_eq_true, if_false]
        have hkids := assemble_kids dg root rn ks h1 p [] (h p).children (lvl + 1) ((n, l) :: anc) fuel (by omega)
          ((hs1 root).1.trans hrn) (ReprKids_shape hs1 _ _ _ _ hk)
          ((Up_shape hs1 root _ _).mpr ⟨hp0, hpl1, hpn, hl, hpp ▸ hup⟩)
          (by simp [hh1]) (by
            simp only [hh1, setBr_children]
            rw [ptrs] at hnd
            exact (List.nodup_cons.mp hnd).2.sublist (kids_sublist h ks _ p (lvl + 1) hk) |> id)
          (by rw [ptrsKids_shape hs1]; rw [ptrs] at hnd; exact (List.nodup_cons.mp hnd).2)
          (by simp; omega)
        obtain ⟨h2, hrun, hrest⟩ := hkids
        have hch : (h1 p).children = (h p).children := by simp [hh1]
        rw [hch, hrun]
        cases hke : expErr dg (growKids (fmtOf dg) rn ((n, l) :: anc) (lvl + 1) ks) with
        | some e => exact ⟨h2, by simp, by simp⟩
        | none =>
          refine ⟨h2, by simp, fun _ => ?_⟩
          obtain ⟨hs2, hfr2, hrd2⟩ := hrest hke
          have hpnot : p ∉ ptrsKids h1 ks (h p).children := by
            rw [ptrsKids_shape hs1]; rw [ptrs] at hnd; exact (List.nodup_cons.mp hnd).1
          have h2p : h2 p = h1 p := hfr2 p hpnot
          refine ⟨hs1.trans hs2, ?_, ?_⟩
          · intro q hq
            rw [ptrs, List.mem_cons, not_or] at hq
            rw [hfr2 q (by rw [ptrsKids_shape hs1]; exact hq.2)]
            rw [hh1]; exact setBr_other h p q b hq.1
          · rw [readNode]
            have hc2 : (h2 p).children = (h p).children := by rw [h2p]; simp [hh1]
            rw [hc2, hrd2]
            congr 1
            rw [hv]
            simp only [Visit.mk.injEq]
            refine ⟨by rw [h2p]; simp [hh1, hpn], by simp [Node.branch, h2p, hh1, hb], trivial, ?_, ?_⟩
            · have : Node.path h2 p = Node.path h1 p := by simp [Node.path, Node.isRoot, h2p]
              rw [this, hpath1, hv]
            · have hlen := readKids_length_eq h ks _ p (lvl + 1) hk
              simp only [Node.hasChild, hc2, Go.len]
              cases ks with
              | nil => simp at hlen; simp [hlen]
              | cons k ks' =>
                have : 0 < ((h p).children).length := by rw [hlen]; simp
                simp; omega
      · -- the node's name or path is invalid: the error is returned
        obtain ⟨e, he⟩ := Option.ne_none_iff_exists'.mp hve
        rw [he]
        exact ⟨h1, by simp, by simp⟩
/-- the loop of `assemble` over (a suffix of) the children of `par` -/
theorem assemble_kids (dg : defaultGrowerSimple) (root : Ptr) (rn : Bytes) :
    ∀ (ts : List T) (h : Heap) (par : Ptr) (pre cs : List Ptr) (lvl : Nat) (ancP : List Anc) (fuel : Nat),
      2 ≤ lvl → (h root).name = rn → ReprKids h ts cs par lvl → Up h root par ancP →
      (h par).children = pre ++ cs → ((h par).children).Nodup → (ptrsKids h ts cs).Nodup →
      2 * sizeList ts + ancP.length ≤ fuel →
      ∃ h', Go.forRange cs h (kidsBody dg fuel) =
          (match expErr dg (growKids (fmtOf dg) rn ancP lvl ts) with
           | none => Go.Ctl.next h'
           | some e => Go.Ctl.ret (some (h', some e))) ∧
        (expErr dg (growKids (fmtOf dg) rn ancP lvl ts) = none →
          SameShape h h' ∧ (∀ q, q ∉ ptrsKids h ts cs → h' q = h q) ∧
          readKids h' ts cs lvl = growKids (fmtOf dg) rn ancP lvl ts)
  | [], h, par, pre, cs, lvl, ancP, fuel, _, _, hr, _, _, _, _, _ => by
    rw [ReprKids] at hr; subst hr
    refine ⟨h, by simp [Go.forRange, growKids, expErr, validateVisits], fun _ => ⟨SameShape.refl h, fun _ _ => rfl, ?_⟩⟩
    rw [readKids, growKids]
  | t :: ts, h, par, pre, cs, lvl, ancP, fuel, hlvl, hrn, hr, hup, hch, hcnd, hnd, hf => by
    rw [ReprKids] at hr
    obtain ⟨c, cs', rfl, hrc, hrs⟩ := hr
    have hpar0 : par ≠ 0 := Up_ne_zero h root ancP par hup
    have hcpar : (h c).parent = par := by
      cases t with
      | mk n ks => rw [Repr] at hrc; exact hrc.2.2.2.1
    have hlast : Node.isLastOfHierarchy h c = cs'.isEmpty := isLast_child h c par pre cs' hcpar hpar0 hch hcnd
    have hlen := readKids_length_eq h ts cs' par lvl hrs
    have hempty : cs'.isEmpty = ts.isEmpty := by
      cases cs' <;> cases ts <;> simp_all
    rw [ptrsKids] at hnd
    have hndc := (List.nodup_append.mp hnd).1
    have hnds := (List.nodup_append.mp hnd).2.1
    have hdisj := (List.nodup_append.mp hnd).2.2
    have hsz : sizeList (t :: ts) = t.size + sizeList ts := by simp [sizeList]
    rw [hsz] at hf
    obtain ⟨h1, hrun1, hrest1⟩ := assemble_node dg root rn t h c par lvl ts.isEmpty ancP fuel hlvl hrn hrc hup
      (hlast.trans hempty) hndc (by omega)
    have hgk : growKids (fmtOf dg) rn ancP lvl (t :: ts)
        = growNode (fmtOf dg) rn ancP lvl ts.isEmpty t ++ growKids (fmtOf dg) rn ancP lvl ts := by
      cases ts with
      | nil => rw [growKids]; simp [growKids]
      | cons t2 ts' => rw [growKids]; simp
    rw [hgk, expErr_append]
    have hstep : Go.forRange (c :: cs') h (kidsBody dg fuel) =
        (match expErr dg (growNode (fmtOf dg) rn ancP lvl ts.isEmpty t) with
         | none => Go.forRange cs' h1 (kidsBody dg fuel)
         | some e => Go.Ctl.ret (some (h1, some e))) := by
      rw [Go.forRange]
      simp only [kidsBody, hrun1]
      cases expErr dg (growNode (fmtOf dg) rn ancP lvl ts.isEmpty t) <;> simp
    rw [hstep]
    cases he1 : expErr dg (growNode (fmtOf dg) rn ancP lvl ts.isEmpty t) with
    | some e => exact ⟨h1, by simp, by simp⟩
    | none =>
      obtain ⟨hs1, hfr1, hrd1⟩ := hrest1 he1
      have hch1 : (h1 par).children = (pre ++ [c]) ++ cs' := by rw [(hs1 par).2.2.2, hch]; simp
      obtain ⟨h2, hrun2, hrest2⟩ := assemble_kids dg root rn ts h1 par (pre ++ [c]) cs' lvl ancP fuel hlvl
        ((hs1 root).1.trans hrn) (ReprKids_shape hs1 _ _ _ _ hrs) ((Up_shape hs1 root _ _).mpr hup) hch1
        (by rw [(hs1 par).2.2.2]; exact hcnd) (by rw [ptrsKids_shape hs1]; exact hnds) (by omega)
      simp only []
      rw [hrun2]
      cases he2 : expErr dg (growKids (fmtOf dg) rn ancP lvl ts) with
      | some e => exact ⟨h2, by simp, by simp⟩
      | none =>
        refine ⟨h2, by simp, fun _ => ?_⟩
        obtain ⟨hs2, hfr2, hrd2⟩ := hrest2 he2
        refine ⟨hs1.trans hs2, ?_, ?_⟩
        · intro q hq
          rw [ptrsKids, List.mem_append, not_or] at hq
          rw [hfr2 q (by rw [ptrsKids_shape hs1]; exact hq.2), hfr1 q hq.1]
        · rw [readKids, hrd2]
          have : readNode h2 t c lvl = readNode h1 t c lvl := by
            apply readNode_congr
            intro q hq
            rw [ptrs_shape hs1] at hq
            apply hfr2
            rw [ptrsKids_shape hs1]
            intro hq2
            exact hdisj q hq q hq2 rfl
          rw [this, hrd1]
end

/-- **the grower of the source on a root**: for every heap that holds the tree `t` at `r` (a root: level 1, no
    parent; all pointers of the tree different) and every fuel above `2·size + 1`, the translated `assemble`
    returns the model's verdict — the first validation error in pre-order when validation is on, none otherwise —
    and, when it returns no error, has changed nothing but the branches and paths of the tree's own nodes, which
    now read as the model's `growRoot`. -/
theorem assemble_root (dg : defaultGrowerSimple) (t : T) (h : Heap) (r : Ptr) (fuel : Nat)
    (hr : Repr h t r 0 1) (hnd : (ptrs h t r).Nodup) (hf : 2 * t.size + 1 ≤ fuel) :
    ∃ h', defaultGrowerSimple.assemble fuel h dg r = some (h', expErr dg (growRoot (fmtOf dg) t)) ∧
      (expErr dg (growRoot (fmtOf dg) t) = none →
        SameShape h h' ∧ (∀ q, q ∉ ptrs h t r → h' q = h q) ∧ readNode h' t r 1 = growRoot (fmtOf dg) t) := by
  cases t with
  | mk n ks =>
    rw [Repr] at hr
    obtain ⟨hp0, hpn, hpl, hpp, hk⟩ := hr
    have hpl1 : (h r).hierarchy = 1 := by rw [hpl]; rfl
    have hsz : T.size (.mk n ks) = 1 + sizeList ks := by simp [T.size]
    rw [hsz] at hf
    cases fuel with
    | zero => omega
    | succ fuel =>
      rw [assemble_unfold, assembleBranch_root dg h r fuel hp0 hpl1 hpp]
      obtain ⟨h1, hh1⟩ : ∃ h1 : Heap, h1 = setBr h r ⟨[], []⟩ := ⟨_, rfl⟩
      rw [← hh1]
      obtain ⟨v, hv⟩ : ∃ v : Visit, v = Visit.mk n [] 1 n (!ks.isEmpty) := ⟨_, rfl⟩
      have hs1 : SameShape h h1 := hh1 ▸ SameShape.setBr h r _
      have hpath1 : Node.path h1 r = v.path := by
        simp [hh1, hv, Node.path, Node.isRoot, Src.rootHierarchyNum, hpl1, hpn]
      have hval : Node.validatePath h1 r = (validateVisit v).map verrSrc :=
        validatePath_heap h1 r v (by simp [hh1, hv, hpn]) hpath1 (by intro _; simp [hv])
      have hgrow : growRoot (fmtOf dg) (.mk n ks) = v :: growKids (fmtOf dg) n [] 2 ks := by rw [growRoot, hv]
      rw [hgrow, expErr_cons, expErr_single]
      simp only [hval]
      by_cases hve : (if dg.enabledValidation then (validateVisit v).map verrSrc else none) = none
      · rw [hve]
        simp only [Option.isSome_none, Bool.false_eq_true, if_false]
        have hkids := assemble_kids dg r n ks h1 r [] (h r).children 2 [] fuel (by omega)
          ((hs1 r).1.trans hpn) (ReprKids_shape hs1 _ _ _ _ hk)
          ⟨rfl, hp0, (hs1 r).2.1.trans hpl1⟩
          (by simp [hh1]) (by
            simp only [hh1, setBr_children]
            rw [ptrs] at hnd
            exact (List.nodup_cons.mp hnd).2.sublist (kids_sublist h ks _ r 2 hk))
          (by rw [ptrsKids_shape hs1]; rw [ptrs] at hnd; exact (List.nodup_cons.mp hnd).2)
          (by simp; omega)
        obtain ⟨h2, hrun, hrest⟩ := hkids
        have hch : (h1 r).children = (h r).children := by simp [hh1]
        rw [hch, hrun]
        cases hke : expErr dg (growKids (fmtOf dg) n [] 2 ks) with
        | some e => exact ⟨h2, by simp, by simp⟩
        | none =>
          refine ⟨h2, by simp, fun _ => ?_⟩
          obtain ⟨hs2, hfr2, hrd2⟩ := hrest hke
          have hpnot : r ∉ ptrsKids h1 ks (h r).children := by
            rw [ptrsKids_shape hs1]; rw [ptrs] at hnd; exact (List.nodup_cons.mp hnd).1
          have h2p : h2 r = h1 r := hfr2 r hpnot
          refine ⟨hs1.trans hs2, ?_, ?_⟩
          · intro q hq
            rw [ptrs, List.mem_cons, not_or] at hq
            rw [hfr2 q (by rw [ptrsKids_shape hs1]; exact hq.2)]
            rw [hh1]; exact setBr_other h r q _ hq.1
          · rw [readNode]
            have hc2 : (h2 r).children = (h r).children := by rw [h2p]; simp [hh1]
            rw [hc2, hrd2]
            congr 1
            rw [hv]
            simp only [Visit.mk.injEq]
            refine ⟨by rw [h2p]; simp [hh1, hpn], by simp [Node.branch, h2p, hh1], trivial, ?_, ?_⟩
            · have : Node.path h2 r = Node.path h1 r := by simp [Node.path, Node.isRoot, h2p]
              rw [this, hpath1, hv]
            · have hlen := readKids_length_eq h ks _ r 2 hk
              simp only [Node.hasChild, hc2, Go.len]
              cases ks with
              | nil => simp at hlen; simp [hlen]
              | cons k ks' =>
                have : 0 < ((h r).children).length := by rw [hlen]; simp
                simp; omega
      · obtain ⟨e, he⟩ := Option.ne_none_iff_exists'.mp hve
        rw [he]
        exact ⟨h1, by simp, by simp⟩

/-! ### a forest: `grow` over the roots -/

/-- the heap holds the forest `ts` at the root pointers `rs` -/
def ReprRoots (h : Heap) : List T → List Ptr → Prop
  | [], rs => rs = []
  | t :: ts, rs => ∃ r rs', rs = r :: rs' ∧ Repr h t r 0 1 ∧ ReprRoots h ts rs'

/-- the body of the loop of `grow` over the roots -/
def rootsBody (dg : defaultGrowerSimple) (fuel : Nat) : Ptr → Heap → Go.Ctl Heap (Option (Heap × Option Src.Err)) :=
  fun root st_ =>
    match (defaultGrowerSimple.assemble fuel st_ dg root) with
    | none => Go.Ctl.ret none
    | some r_ =>
      match r_ with
      | (h_, err) => if (Option.isSome err) then Go.Ctl.ret (some (h_, err)) else Go.Ctl.next h_

theorem grow_unfold (fuel : Nat) (h : Heap) (dg : defaultGrowerSimple) (rs : List Ptr) :
    defaultGrowerSimple.grow fuel h dg rs =
      (match Go.forRange rs h (rootsBody dg fuel) with
       | Go.Ctl.ret r_ => r_
       | Go.Ctl.brk st_ | Go.Ctl.next st_ => some (st_, none)) := by
  rfl

theorem ReprRoots_shape {h h' : Heap} (s : SameShape h h') : ∀ (ts : List T) (rs : List Ptr),
    ReprRoots h ts rs → ReprRoots h' ts rs
  | [], rs, hr => hr
  | t :: ts, rs, hr => by
    obtain ⟨r, rs', rfl, h1, h2⟩ := hr
    exact ⟨r, rs', rfl, Repr_shape s t r 0 1 h1, ReprRoots_shape s ts rs' h2⟩

theorem grow_loop (dg : defaultGrowerSimple) : ∀ (ts : List T) (h : Heap) (rs : List Ptr) (fuel : Nat),
    ReprRoots h ts rs → (ptrsKids h ts rs).Nodup → 2 * sizeList ts + 1 ≤ fuel →
    ∃ h', Go.forRange rs h (rootsBody dg fuel) =
        (match expErr dg (ts.flatMap (growRoot (fmtOf dg))) with
         | none => Go.Ctl.next h'
         | some e => Go.Ctl.ret (some (h', some e))) ∧
      (expErr dg (ts.flatMap (growRoot (fmtOf dg))) = none →
        SameShape h h' ∧ (∀ q, q ∉ ptrsKids h ts rs → h' q = h q) ∧
        readKids h' ts rs 1 = ts.flatMap (growRoot (fmtOf dg)))
  | [], h, rs, fuel, hr, _, _ => by
    have : rs = [] := hr
    subst this
    refine ⟨h, by simp [Go.forRange, expErr, validateVisits], fun _ => ⟨SameShape.refl h, fun _ _ => rfl, ?_⟩⟩
    rw [readKids]; rfl
  | t :: ts, h, rs, fuel, hr, hnd, hf => by
    obtain ⟨r, rs', rfl, hrr, hrs⟩ := hr
    rw [ptrsKids] at hnd
    have hndc := (List.nodup_append.mp hnd).1
    have hnds := (List.nodup_append.mp hnd).2.1
    have hdisj := (List.nodup_append.mp hnd).2.2
    have hsz : sizeList (t :: ts) = t.size + sizeList ts := by simp [sizeList]
    rw [hsz] at hf
    obtain ⟨h1, hrun1, hrest1⟩ := assemble_root dg t h r fuel hrr hndc (by omega)
    rw [List.flatMap_cons, expErr_append]
    have hstep : Go.forRange (r :: rs') h (rootsBody dg fuel) =
        (match expErr dg (growRoot (fmtOf dg) t) with
         | none => Go.forRange rs' h1 (rootsBody dg fuel)
         | some e => Go.Ctl.ret (some (h1, some e))) := by
      rw [Go.forRange]
      simp only [rootsBody, hrun1]
      cases expErr dg (growRoot (fmtOf dg) t) <;> simp
    rw [hstep]
    cases he1 : expErr dg (growRoot (fmtOf dg) t) with
    | some e => exact ⟨h1, by simp, by simp⟩
    | none =>
      obtain ⟨hs1, hfr1, hrd1⟩ := hrest1 he1
      obtain ⟨h2, hrun2, hrest2⟩ := grow_loop dg ts h1 rs' fuel (ReprRoots_shape hs1 _ _ hrs)
        (by rw [ptrsKids_shape hs1]; exact hnds) (by omega)
      simp only []
      rw [hrun2]
      cases he2 : expErr dg (ts.flatMap (growRoot (fmtOf dg))) with
      | some e => exact ⟨h2, by simp, by simp⟩
      | none =>
        refine ⟨h2, by simp, fun _ => ?_⟩
        obtain ⟨hs2, hfr2, hrd2⟩ := hrest2 he2
        refine ⟨hs1.trans hs2, ?_, ?_⟩
        · intro q hq
          rw [ptrsKids, List.mem_append, not_or] at hq
          rw [hfr2 q (by rw [ptrsKids_shape hs1]; exact hq.2), hfr1 q hq.1]
        · rw [readKids, hrd2]
          have : readNode h2 t r 1 = readNode h1 t r 1 := by
            apply readNode_congr
            intro q hq
            rw [ptrs_shape hs1] at hq
            apply hfr2
            rw [ptrsKids_shape hs1]
            intro hq2
            exact hdisj q hq q hq2 rfl
          rw [this, hrd1]

/-- **the grower of the source on a forest** (`defaultGrowerSimple.grow`, what every simple-mode operation calls
    before it prints, walks, creates or verifies): roots are grown in order, the first validation error in
    pre-order over the whole forest is returned, and without an error the nodes read as the model's `growRoot`
    of every root. -/
theorem grow_forest (dg : defaultGrowerSimple) (ts : List T) (h : Heap) (rs : List Ptr) (fuel : Nat)
    (hr : ReprRoots h ts rs) (hnd : (ptrsKids h ts rs).Nodup) (hf : 2 * sizeList ts + 1 ≤ fuel) :
    ∃ h', defaultGrowerSimple.grow fuel h dg rs = some (h', expErr dg (ts.flatMap (growRoot (fmtOf dg)))) ∧
      (expErr dg (ts.flatMap (growRoot (fmtOf dg))) = none →
        SameShape h h' ∧ (∀ q, q ∉ ptrsKids h ts rs → h' q = h q) ∧
        readKids h' ts rs 1 = ts.flatMap (growRoot (fmtOf dg))) := by
  obtain ⟨h', hrun, hrest⟩ := grow_loop dg ts h rs fuel hr hnd hf
  refine ⟨h', ?_, hrest⟩
  rw [grow_unfold, hrun]
  cases expErr dg (ts.flatMap (growRoot (fmtOf dg))) <;> rfl

/-! ### the hypotheses are satisfiable: a concrete heap -/

/-- `r` with children `a` (with child `c`) and `b`, at the pointers 1, 2, 3, 4; stale branches and paths everywhere -/
def exHeap : Heap := fun p =>
  match p with
  | 1 => { name := [0x72], hierarchy := 1, index := 0, brnch := ⟨[0x21], [0x21]⟩, parent := 0, children := [2, 4] }
  | 2 => { name := [0x61], hierarchy := 2, index := 1, brnch := ⟨[0x21], [0x21]⟩, parent := 1, children := [3] }
  | 3 => { name := [0x63], hierarchy := 3, index := 2, brnch := ⟨[0x21], [0x21]⟩, parent := 2, children := [] }
  | 4 => { name := [0x62], hierarchy := 2, index := 3, brnch := ⟨[0x21], [0x21]⟩, parent := 1, children := [] }
  | _ => { name := [], hierarchy := 0, index := 0, brnch := ⟨[], []⟩, parent := 0, children := [] }

def exTree : T := .mk [0x72] [.mk [0x61] [.mk [0x63] []], .mk [0x62] []]

example : Repr exHeap exTree 1 0 1 ∧ (ptrs exHeap exTree 1).Nodup := by
  refine ⟨?_, by decide⟩
  have leaf : ∀ (p par : Ptr) (lvl : Nat) (n : Bytes), p ≠ 0 → (exHeap p).name = n → (exHeap p).hierarchy = (lvl : Int) →
      (exHeap p).parent = par → (exHeap p).children = [] → Repr exHeap (.mk n []) p par lvl := by
    intro p par lvl n h0 h1 h2 h3 h4
    rw [Repr]; exact ⟨h0, h1, h2, h3, by rw [ReprKids]; exact h4⟩
  rw [exTree, Repr]
  refine ⟨by decide, rfl, rfl, rfl, ?_⟩
  rw [ReprKids]
  refine ⟨2, [4], rfl, ?_, ?_⟩
  · rw [Repr]
    refine ⟨by decide, rfl, rfl, rfl, ?_⟩
    rw [ReprKids]
    exact ⟨3, [], rfl, leaf 3 2 3 _ (by decide) rfl rfl rfl rfl, by rw [ReprKids]⟩
  · rw [ReprKids]
    exact ⟨4, [], rfl, leaf 4 1 2 _ (by decide) rfl rfl rfl rfl, by rw [ReprKids]⟩

end Gtree.SrcH
