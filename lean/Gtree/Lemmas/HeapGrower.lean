import Gtree.Generated.Heap.Grower
import Gtree.Lemmas.HeapRepr
/-
  The grower of the source (simple_tree_grower.go, with the methods of node.go it calls), translated over an
  explicit heap by /verif/translate (heap mode), IS the model's grower: for every heap that holds a tree — names,
  levels, parent links and child lists, all pointers different — running the translated `assemble` on the root's
  pointer leaves in every node of the tree the branch and the path the model's `growRoot` computes, changes no
  other cell and no other field, and returns the first validation error in pre-order (when validation is on).
-/
namespace Gtree.SrcH
open Gtree Gtree.Go

theorem indirect_eq (dg : defaultGrowerSimple) (h : Heap) (cur q : Ptr) (b : Src.branch)
    (hc0 : cur ≠ 0) (hcl : (h cur).hierarchy ≠ 1) (hq0 : q ≠ 0) :
    defaultGrowerSimple.assembleBranchIndirectly (setBr h cur b) dg cur q
      = setBr h cur ⟨(if Node.isLastOfHierarchy h q then (fmtOf dg).lastI else (fmtOf dg).midI) ++ b.value,
          pathJoin [(h q).name, b.path]⟩ := by
  have hnil : Go.nilPtr = 0 := rfl
  simp only [defaultGrowerSimple.assembleBranchIndirectly, hnil, beq_iff_eq, hc0, hq0, Node.isRoot,
    Src.rootHierarchyNum, setBr_hierarchy, hcl, Bool.or_self, Bool.false_eq_true, if_false,
    setPath_eq, setBranch_eq, Node.path, Node.branch, setBr_name, setBr_setBr, setBr_brnch_self,
    isLast_setBr]
  cases Node.isLastOfHierarchy h q <;> simp [fmtOf, hc0, hq0, hcl]

/-- condition and body of the loop of `assembleBranch` that walks from the parent up to the root -/
def loopCond : Heap × Ptr → Bool := fun st_ => match st_ with | (h_, tmpParent) => (!(Node.isRoot h_ tmpParent))
def loopBody (dg : defaultGrowerSimple) (cur : Ptr) : Heap × Ptr → Go.Ctl (Heap × Ptr) (Option (Heap × Option Src.Err)) :=
  fun st_ => match st_ with
    | (h_, tmpParent) =>
      let h_ := (defaultGrowerSimple.assembleBranchIndirectly h_ dg cur tmpParent)
      let tmpParent := (h_ tmpParent).parent
      Go.Ctl.next (h_, tmpParent)

theorem loop_eq (dg : defaultGrowerSimple) (h : Heap) (cur root : Ptr) (hc0 : cur ≠ 0) (hcl : (h cur).hierarchy ≠ 1) :
    ∀ (anc : List Anc) (q : Ptr) (b : Src.branch) (fuel : Nat), Up h root q anc → anc.length ≤ fuel →
      Go.forLoop fuel (setBr h cur b, q) loopCond (loopBody dg cur)
      = some (Go.Ctl.next (setBr h cur
          ⟨anc.foldl (fun acc a => (if a.2 then (fmtOf dg).lastI else (fmtOf dg).midI) ++ acc) b.value,
           anc.foldl (fun acc a => pathJoin [a.1, acc]) b.path⟩, root))
  | [], q, b, fuel, hu, _ => by
    obtain ⟨rfl, _, hr⟩ := hu
    cases fuel <;> simp [Go.forLoop, loopCond, Node.isRoot, Src.rootHierarchyNum, hr]
  | a :: anc, q, b, fuel, hu, hf => by
    obtain ⟨hq0, hql, hqn, hqlast, hup⟩ := hu
    cases fuel with
    | zero => simp at hf
    | succ fuel =>
      have ih := loop_eq dg h cur root hc0 hcl anc (h q).parent
        ⟨(if a.2 then (fmtOf dg).lastI else (fmtOf dg).midI) ++ b.value, pathJoin [a.1, b.path]⟩ fuel hup
        (by simp at hf; omega)
      have hcond : loopCond (setBr h cur b, q) = true := by
        simp [loopCond, Node.isRoot, Src.rootHierarchyNum, hql]
      have hbody : loopBody dg cur (setBr h cur b, q) = Go.Ctl.next (setBr h cur
          ⟨(if a.2 then (fmtOf dg).lastI else (fmtOf dg).midI) ++ b.value, pathJoin [a.1, b.path]⟩, (h q).parent) := by
        simp only [loopBody, indirect_eq dg h cur q b hc0 hcl hq0, hqlast, hqn, setBr_parent]
      rw [Go.forLoop, hcond, if_pos rfl, hbody]
      simpa using ih

theorem assembleBranch_unfold (fuel : Nat) (h : Heap) (dg : defaultGrowerSimple) (cur : Ptr) :
    defaultGrowerSimple.assembleBranch fuel h dg cur =
      (let h1 := defaultGrowerSimple.assembleBranchDirectly (Node.clean h cur) dg cur
       let tp := (h1 cur).parent
       if (tp != Go.nilPtr) then
         (match Go.forLoop fuel (h1, tp) loopCond (loopBody dg cur) with
          | none => none
          | some (Go.Ctl.ret r_) => r_
          | some (Go.Ctl.brk st_) | some (Go.Ctl.next st_) =>
            let h2 := defaultGrowerSimple.assembleBranchFinally st_.1 dg cur st_.2
            if dg.enabledValidation then some (h2, Node.validatePath h2 cur) else some (h2, none))
       else
         (let h2 := defaultGrowerSimple.assembleBranchFinally h1 dg cur tp
          if dg.enabledValidation then some (h2, Node.validatePath h2 cur) else some (h2, none))) := by
  rfl

/-- `assembleBranch` on a node below the root -/
theorem assembleBranch_node (dg : defaultGrowerSimple) (h : Heap) (cur root : Ptr) (l : Bool) (anc : List Anc)
    (fuel : Nat) (hc0 : cur ≠ 0) (hcl : (h cur).hierarchy ≠ 1) (hup : Up h root (h cur).parent anc)
    (hl : Node.isLastOfHierarchy h cur = l) (hf : anc.length ≤ fuel) :
    defaultGrowerSimple.assembleBranch fuel h dg cur =
      some (setBr h cur ⟨branchOf (fmtOf dg) l anc, pathOf (h root).name (h cur).name anc⟩,
        if dg.enabledValidation then
          Node.validatePath (setBr h cur ⟨branchOf (fmtOf dg) l anc, pathOf (h root).name (h cur).name anc⟩) cur
        else none) := by
  have hnil : Go.nilPtr = 0 := rfl
  have hp0 : (h cur).parent ≠ 0 := Up_ne_zero h root anc _ hup
  have hdirect : defaultGrowerSimple.assembleBranchDirectly (Node.clean h cur) dg cur
      = setBr h cur ⟨if l then (fmtOf dg).lastD else (fmtOf dg).midD, pathJoin [(h cur).name]⟩ := by
    simp only [defaultGrowerSimple.assembleBranchDirectly, clean_eq, hnil, beq_iff_eq, Node.isRoot,
      Src.rootHierarchyNum, setBr_hierarchy, setPath_eq, setBranch_eq, Node.branch, setBr_name, setBr_setBr,
      setBr_brnch_self, isLast_setBr, hl]
    cases l <;> simp [fmtOf, hc0, hcl]
  rw [assembleBranch_unfold]
  simp only [hdirect, setBr_parent, hnil, bne_iff_ne, ne_eq, hp0, not_false_eq_true, if_true]
  rw [loop_eq dg h cur root hc0 hcl anc (h cur).parent
    ⟨if l then (fmtOf dg).lastD else (fmtOf dg).midD, pathJoin [(h cur).name]⟩ fuel hup hf]
  have hr0 : root ≠ 0 := (Up_root h root anc _ hup).1
  have hrl : (h root).hierarchy = 1 := (Up_root h root anc _ hup).2
  simp only [defaultGrowerSimple.assembleBranchFinally, hnil, beq_iff_eq, hc0, if_false, bne_iff_ne, ne_eq, hr0,
    not_false_eq_true, if_true, setPath_eq, Node.path, Node.isRoot, Src.rootHierarchyNum, setBr_hierarchy, hrl,
    hcl, setBr_name, setBr_brnch_self, setBr_setBr, branchOf, pathOf]
  cases dg.enabledValidation <;> simp

/-- `assembleBranch` on a root -/
theorem assembleBranch_root (dg : defaultGrowerSimple) (h : Heap) (cur : Ptr) (fuel : Nat)
    (hc0 : cur ≠ 0) (hcl : (h cur).hierarchy = 1) (hpar : (h cur).parent = 0) :
    defaultGrowerSimple.assembleBranch fuel h dg cur =
      some (setBr h cur ⟨[], []⟩,
        if dg.enabledValidation then Node.validatePath (setBr h cur ⟨[], []⟩) cur else none) := by
  have hnil : Go.nilPtr = 0 := rfl
  have hdirect : defaultGrowerSimple.assembleBranchDirectly (Node.clean h cur) dg cur = setBr h cur ⟨[], []⟩ := by
    simp [defaultGrowerSimple.assembleBranchDirectly, clean_eq, Node.isRoot, Src.rootHierarchyNum, hcl]
  rw [assembleBranch_unfold]
  simp only [hdirect, setBr_parent, hpar, hnil, bne_self_eq_false, Bool.false_eq_true, if_false,
    defaultGrowerSimple.assembleBranchFinally, beq_iff_eq, hc0]
  cases dg.enabledValidation <;> simp

/-- the error the grower returns for these nodes: the first validation failure in pre-order, when validation is on -/
def expErr (dg : defaultGrowerSimple) (vs : List Visit) : Option Src.Err :=
  if dg.enabledValidation then (validateVisits vs).map verrSrc else none

theorem expErr_cons (dg : defaultGrowerSimple) (v : Visit) (vs : List Visit) :
    expErr dg (v :: vs) = (match expErr dg [v] with | some e => some e | none => expErr dg vs) := by
  unfold expErr
  cases dg.enabledValidation <;> simp [validateVisits]
  cases validateVisit v <;> simp

theorem expErr_append (dg : defaultGrowerSimple) (a b : List Visit) :
    expErr dg (a ++ b) = (match expErr dg a with | some e => some e | none => expErr dg b) := by
  unfold expErr
  cases dg.enabledValidation <;> simp [validateVisits_append]
  cases validateVisits a <;> simp

theorem expErr_single (dg : defaultGrowerSimple) (v : Visit) :
    expErr dg [v] = if dg.enabledValidation then (validateVisit v).map verrSrc else none := by
  unfold expErr
  cases dg.enabledValidation <;> simp [validateVisits]
  cases validateVisit v <;> simp

/-- the body of the loop of `assemble` over the children -/
def kidsBody (dg : defaultGrowerSimple) (fuel : Nat) : Ptr → Heap → Go.Ctl Heap (Option (Heap × Option Src.Err)) :=
  fun child st_ =>
    match (defaultGrowerSimple.assemble fuel st_ dg child) with
    | none => Go.Ctl.ret none
    | some r_ =>
      match r_ with
      | (h_, err) => if (Option.isSome err) then Go.Ctl.ret (some (h_, err)) else Go.Ctl.next h_

theorem assemble_unfold (fuel : Nat) (h : Heap) (dg : defaultGrowerSimple) (cur : Ptr) :
    defaultGrowerSimple.assemble (fuel + 1) h dg cur =
      (match (defaultGrowerSimple.assembleBranch fuel h dg cur) with
       | none => none
       | some r_ =>
         match r_ with
         | (h_, err) =>
           if (Option.isSome err) then some (h_, err)
           else
             match Go.forRange (h_ cur).children h_ (kidsBody dg fuel) with
             | Go.Ctl.ret r_ => r_
             | Go.Ctl.brk st_ | Go.Ctl.next st_ => some (st_, none)) := by
  rfl

theorem size_le_sizeList_head (t : T) (ts : List T) : t.size ≤ sizeList (t :: ts) := by
  simp [sizeList]

mutual
/-- the grower on a node below the root -/
theorem assemble_node (dg : defaultGrowerSimple) (root : Ptr) (rn : Bytes) :
    ∀ (t : T) (h : Heap) (p par : Ptr) (lvl : Nat) (l : Bool) (anc : List Anc) (fuel : Nat),
      2 ≤ lvl → (h root).name = rn → Repr h t p par lvl → Up h root par anc → Node.isLastOfHierarchy h p = l →
      (ptrs h t p).Nodup → 2 * t.size + anc.length ≤ fuel →
      ∃ h', defaultGrowerSimple.assemble fuel h dg p = some (h', expErr dg (growNode (fmtOf dg) rn anc lvl l t)) ∧
        (expErr dg (growNode (fmtOf dg) rn anc lvl l t) = none →
          SameShape h h' ∧ (∀ q, q ∉ ptrs h t p → h' q = h q) ∧
          readNode h' t p lvl = growNode (fmtOf dg) rn anc lvl l t)
  | .mk n ks, h, p, par, lvl, l, anc, fuel, hlvl, hrn, hr, hup, hl, hnd, hf => by
    rw [Repr] at hr
    obtain ⟨hp0, hpn, hpl, hpp, hk⟩ := hr
    have hpl1 : (h p).hierarchy ≠ 1 := by rw [hpl]; omega
    have hsz : T.size (.mk n ks) = 1 + sizeList ks := by simp [T.size]
    rw [hsz] at hf
    cases fuel with
    | zero => omega
    | succ fuel =>
      rw [assemble_unfold, assembleBranch_node dg h p root l anc fuel hp0 hpl1 (hpp ▸ hup) hl (by omega)]
      simp only [hrn, hpn]
      -- the node's own visit
      obtain ⟨b, hb⟩ : ∃ b : Src.branch, b = ⟨branchOf (fmtOf dg) l anc, pathOf rn n anc⟩ := ⟨_, rfl⟩
      rw [← hb]
      obtain ⟨h1, hh1⟩ : ∃ h1 : Heap, h1 = setBr h p b := ⟨_, rfl⟩
      rw [← hh1]
      obtain ⟨v, hv⟩ : ∃ v : Visit, v = Visit.mk n (branchOf (fmtOf dg) l anc) lvl (pathOf rn n anc) (!ks.isEmpty) :=
        ⟨_, rfl⟩
      have hs1 : SameShape h h1 := hh1 ▸ SameShape.setBr h p b
      have hpath1 : Node.path h1 p = v.path := by
        simp [hh1, hb, hv, Node.path, Node.isRoot, Src.rootHierarchyNum, hpl1]
      have hval : Node.validatePath h1 p = (validateVisit v).map verrSrc :=
        validatePath_heap h1 p v (by simp [hh1, hv, hpn]) hpath1 (by intro h1'; simp [hv] at h1'; omega)
      have hgrow : growNode (fmtOf dg) rn anc lvl l (.mk n ks)
          = v :: growKids (fmtOf dg) rn ((n, l) :: anc) (lvl + 1) ks := by rw [growNode, hv]
      rw [hgrow, expErr_cons, expErr_single]
      simp only [hval]
      by_cases hve : (if dg.enabledValidation then (validateVisit v).map verrSrc else none) = none
      · -- the node is fine: go on with the children
        rw [hve]
        simp only [Option.isSome_none, Bool.false_eq_true, if_false]
        have hkids := assemble_kids dg root rn ks h1 p [] (h p).children (lvl + 1) ((n, l) :: anc) fuel (by omega)
          ((hs1 root).1.trans hrn) (ReprKids_shape hs1 _ _ _ _ hk)
          ((Up_shape hs1 root _ _).mpr ⟨hp0, hpl1, hpn, hl, hpp ▸ hup⟩)
          (by simp [hh1]) (by
            simp only [hh1, setBr_children]
            rw [ptrs] at hnd
            exact (List.nodup_cons.mp hnd).2.sublist (kids_sublist h ks _ p (lvl + 1) hk) |> id)
          (by rw [ptrsKids_shape hs1]; rw [ptrs] at hnd; exact (List.nodup_cons.mp hnd).2)
          (by simp; omega)
        obtain ⟨h2, hrun, hrest⟩ := hkids
        have hch : (h1 p).children = (h p).children := by simp [hh1]
        rw [hch, hrun]
        cases hke : expErr dg (growKids (fmtOf dg) rn ((n, l) :: anc) (lvl + 1) ks) with
        | some e => exact ⟨h2, by simp, by simp⟩
        | none =>
          refine ⟨h2, by simp, fun _ => ?_⟩
          obtain ⟨hs2, hfr2, hrd2⟩ := hrest hke
          have hpnot : p ∉ ptrsKids h1 ks (h p).children := by
            rw [ptrsKids_shape hs1]; rw [ptrs] at hnd; exact (List.nodup_cons.mp hnd).1
          have h2p : h2 p = h1 p := hfr2 p hpnot
          refine ⟨hs1.trans hs2, ?_, ?_⟩
          · intro q hq
            rw [ptrs, List.mem_cons, not_or] at hq
            rw [hfr2 q (by rw [ptrsKids_shape hs1]; exact hq.2)]
            rw [hh1]; exact setBr_other h p q b hq.1
          · rw [readNode]
            have hc2 : (h2 p).children = (h p).children := by rw [h2p]; simp [hh1]
            rw [hc2, hrd2]
            congr 1
            rw [hv]
            simp only [Visit.mk.injEq]
            refine ⟨by rw [h2p]; simp [hh1, hpn], by simp [Node.branch, h2p, hh1, hb], trivial, ?_, ?_⟩
            · have : Node.path h2 p = Node.path h1 p := by simp [Node.path, Node.isRoot, h2p]
              rw [this, hpath1, hv]
            · have hlen := readKids_length_eq h ks _ p (lvl + 1) hk
              simp only [Node.hasChild, hc2, Go.len]
              cases ks with
              | nil => simp at hlen; simp [hlen]
              | cons k ks' =>
                have : 0 < ((h p).children).length := by rw [hlen]; simp
                simp; omega
      · -- the node's name or path is invalid: the error is returned
        obtain ⟨e, he⟩ := Option.ne_none_iff_exists'.mp hve
        rw [he]
        exact ⟨h1, by simp, by simp⟩
/-- the loop of `assemble` over (a suffix of) the children of `par` -/
theorem assemble_kids (dg : defaultGrowerSimple) (root : Ptr) (rn : Bytes) :
    ∀ (ts : List T) (h : Heap) (par : Ptr) (pre cs : List Ptr) (lvl : Nat) (ancP : List Anc) (fuel : Nat),
      2 ≤ lvl → (h root).name = rn → ReprKids h ts cs par lvl → Up h root par ancP →
      (h par).children = pre ++ cs → ((h par).children).Nodup → (ptrsKids h ts cs).Nodup →
      2 * sizeList ts + ancP.length ≤ fuel →
      ∃ h', Go.forRange cs h (kidsBody dg fuel) =
          (match expErr dg (growKids (fmtOf dg) rn ancP lvl ts) with
           | none => Go.Ctl.next h'
           | some e => Go.Ctl.ret (some (h', some e))) ∧
        (expErr dg (growKids (fmtOf dg) rn ancP lvl ts) = none →
          SameShape h h' ∧ (∀ q, q ∉ ptrsKids h ts cs → h' q = h q) ∧
          readKids h' ts cs lvl = growKids (fmtOf dg) rn ancP lvl ts)
  | [], h, par, pre, cs, lvl, ancP, fuel, _, _, hr, _, _, _, _, _ => by
    rw [ReprKids] at hr; subst hr
    refine ⟨h, by simp [Go.forRange, growKids, expErr, validateVisits], fun _ => ⟨SameShape.refl h, fun _ _ => rfl, ?_⟩⟩
    rw [readKids, growKids]
  | t :: ts, h, par, pre, cs, lvl, ancP, fuel, hlvl, hrn, hr, hup, hch, hcnd, hnd, hf => by
    rw [ReprKids] at hr
    obtain ⟨c, cs', rfl, hrc, hrs⟩ := hr
    have hpar0 : par ≠ 0 := Up_ne_zero h root ancP par hup
    have hcpar : (h c).parent = par := by
      cases t with
      | mk n ks => rw [Repr] at hrc; exact hrc.2.2.2.1
    have hlast : Node.isLastOfHierarchy h c = cs'.isEmpty := isLast_child h c par pre cs' hcpar hpar0 hch hcnd
    have hlen := readKids_length_eq h ts cs' par lvl hrs
    have hempty : cs'.isEmpty = ts.isEmpty := by
      cases cs' <;> cases ts <;> simp_all
    rw [ptrsKids] at hnd
    have hndc := (List.nodup_append.mp hnd).1
    have hnds := (List.nodup_append.mp hnd).2.1
    have hdisj := (List.nodup_append.mp hnd).2.2
    have hsz : sizeList (t :: ts) = t.size + sizeList ts := by simp [sizeList]
    rw [hsz] at hf
    obtain ⟨h1, hrun1, hrest1⟩ := assemble_node dg root rn t h c par lvl ts.isEmpty ancP fuel hlvl hrn hrc hup
      (hlast.trans hempty) hndc (by omega)
    have hgk : growKids (fmtOf dg) rn ancP lvl (t :: ts)
        = growNode (fmtOf dg) rn ancP lvl ts.isEmpty t ++ growKids (fmtOf dg) rn ancP lvl ts := by
      cases ts with
      | nil => rw [growKids]; simp [growKids]
      | cons t2 ts' => rw [growKids]; simp
    rw [hgk, expErr_append]
    have hstep : Go.forRange (c :: cs') h (kidsBody dg fuel) =
        (match expErr dg (growNode (fmtOf dg) rn ancP lvl ts.isEmpty t) with
         | none => Go.forRange cs' h1 (kidsBody dg fuel)
         | some e => Go.Ctl.ret (some (h1, some e))) := by
      rw [Go.forRange]
      simp only [kidsBody, hrun1]
      cases expErr dg (growNode (fmtOf dg) rn ancP lvl ts.isEmpty t) <;> simp
    rw [hstep]
    cases he1 : expErr dg (growNode (fmtOf dg) rn ancP lvl ts.isEmpty t) with
    | some e => exact ⟨h1, by simp, by simp⟩
    | none =>
      obtain ⟨hs1, hfr1, hrd1⟩ := hrest1 he1
      have hch1 : (h1 par).children = (pre ++ [c]) ++ cs' := by rw [(hs1 par).2.2.2, hch]; simp
      obtain ⟨h2, hrun2, hrest2⟩ := assemble_kids dg root rn ts h1 par (pre ++ [c]) cs' lvl ancP fuel hlvl
        ((hs1 root).1.trans hrn) (ReprKids_shape hs1 _ _ _ _ hrs) ((Up_shape hs1 root _ _).mpr hup) hch1
        (by rw [(hs1 par).2.2.2]; exact hcnd) (by rw [ptrsKids_shape hs1]; exact hnds) (by omega)
      simp only []
      rw [hrun2]
      cases he2 : expErr dg (growKids (fmtOf dg) rn ancP lvl ts) with
      | some e => exact ⟨h2, by simp, by simp⟩
      | none =>
        refine ⟨h2, by simp, fun _ => ?_⟩
        obtain ⟨hs2, hfr2, hrd2⟩ := hrest2 he2
        refine ⟨hs1.trans hs2, ?_, ?_⟩
        · intro q hq
          rw [ptrsKids, List.mem_append, not_or] at hq
          rw [hfr2 q (by rw [ptrsKids_shape hs1]; exact hq.2), hfr1 q hq.1]
        · rw [readKids, hrd2]
          have : readNode h2 t c lvl = readNode h1 t c lvl := by
            apply readNode_congr
            intro q hq
            rw [ptrs_shape hs1] at hq
            apply hfr2
            rw [ptrsKids_shape hs1]
            intro hq2
            exact hdisj q hq q hq2 rfl
          rw [this, hrd1]
end

/-- **the grower of the source on a root**: for every heap that holds the tree `t` at `r` (a root: level 1, no
    parent; all pointers of the tree different) and every fuel above `2·size + 1`, the translated `assemble`
    returns the model's verdict — the first validation error in pre-order when validation is on, none otherwise —
    and, when it returns no error, has changed nothing but the branches and paths of the tree's own nodes, which
    now read as the model's `growRoot`. -/
theorem assemble_root (dg : defaultGrowerSimple) (t : T) (h : Heap) (r : Ptr) (fuel : Nat)
    (hr : Repr h t r 0 1) (hnd : (ptrs h t r).Nodup) (hf : 2 * t.size + 1 ≤ fuel) :
    ∃ h', defaultGrowerSimple.assemble fuel h dg r = some (h', expErr dg (growRoot (fmtOf dg) t)) ∧
      (expErr dg (growRoot (fmtOf dg) t) = none →
        SameShape h h' ∧ (∀ q, q ∉ ptrs h t r → h' q = h q) ∧ readNode h' t r 1 = growRoot (fmtOf dg) t) := by
  cases t with
  | mk n ks =>
    rw [Repr] at hr
    obtain ⟨hp0, hpn, hpl, hpp, hk⟩ := hr
    have hpl1 : (h r).hierarchy = 1 := by rw [hpl]; rfl
    have hsz : T.size (.mk n ks) = 1 + sizeList ks := by simp [T.size]
    rw [hsz] at hf
    cases fuel with
    | zero => omega
    | succ fuel =>
      rw [assemble_unfold, assembleBranch_root dg h r fuel hp0 hpl1 hpp]
      obtain ⟨h1, hh1⟩ : ∃ h1 : Heap, h1 = setBr h r ⟨[], []⟩ := ⟨_, rfl⟩
      rw [← hh1]
      obtain ⟨v, hv⟩ : ∃ v : Visit, v = Visit.mk n [] 1 n (!ks.isEmpty) := ⟨_, rfl⟩
      have hs1 : SameShape h h1 := hh1 ▸ SameShape.setBr h r _
      have hpath1 : Node.path h1 r = v.path := by
        simp [hh1, hv, Node.path, Node.isRoot, Src.rootHierarchyNum, hpl1, hpn]
      have hval : Node.validatePath h1 r = (validateVisit v).map verrSrc :=
        validatePath_heap h1 r v (by simp [hh1, hv, hpn]) hpath1 (by intro _; simp [hv])
      have hgrow : growRoot (fmtOf dg) (.mk n ks) = v :: growKids (fmtOf dg) n [] 2 ks := by rw [growRoot, hv]
      rw [hgrow, expErr_cons, expErr_single]
      simp only [hval]
      by_cases hve : (if dg.enabledValidation then (validateVisit v).map verrSrc else none) = none
      · rw [hve]
        simp only [Option.isSome_none, Bool.false_eq_true, if_false]
        have hkids := assemble_kids dg r n ks h1 r [] (h r).children 2 [] fuel (by omega)
          ((hs1 r).1.trans hpn) (ReprKids_shape hs1 _ _ _ _ hk)
          ⟨rfl, hp0, (hs1 r).2.1.trans hpl1⟩
          (by simp [hh1]) (by
            simp only [hh1, setBr_children]
            rw [ptrs] at hnd
            exact (List.nodup_cons.mp hnd).2.sublist (kids_sublist h ks _ r 2 hk))
          (by rw [ptrsKids_shape hs1]; rw [ptrs] at hnd; exact (List.nodup_cons.mp hnd).2)
          (by simp; omega)
        obtain ⟨h2, hrun, hrest⟩ := hkids
        have hch : (h1 r).children = (h r).children := by simp [hh1]
        rw [hch, hrun]
        cases hke : expErr dg (growKids (fmtOf dg) n [] 2 ks) with
        | some e => exact ⟨h2, by simp, by simp⟩
        | none =>
          refine ⟨h2, by simp, fun _ => ?_⟩
          obtain ⟨hs2, hfr2, hrd2⟩ := hrest hke
          have hpnot : r ∉ ptrsKids h1 ks (h r).children := by
            rw [ptrsKids_shape hs1]; rw [ptrs] at hnd; exact (List.nodup_cons.mp hnd).1
          have h2p : h2 r = h1 r := hfr2 r hpnot
          refine ⟨hs1.trans hs2, ?_, ?_⟩
          · intro q hq
            rw [ptrs, List.mem_cons, not_or] at hq
            rw [hfr2 q (by rw [ptrsKids_shape hs1]; exact hq.2)]
            rw [hh1]; exact setBr_other h r q _ hq.1
          · rw [readNode]
            have hc2 : (h2 r).children = (h r).children := by rw [h2p]; simp [hh1]
            rw [hc2, hrd2]
            congr 1
            rw [hv]
            simp only [Visit.mk.injEq]
            refine ⟨by rw [h2p]; simp [hh1, hpn], by simp [Node.branch, h2p, hh1], trivial, ?_, ?_⟩
            · have : Node.path h2 r = Node.path h1 r := by simp [Node.path, Node.isRoot, h2p]
              rw [this, hpath1, hv]
            · have hlen := readKids_length_eq h ks _ r 2 hk
              simp only [Node.hasChild, hc2, Go.len]
              cases ks with
              | nil => simp at hlen; simp [hlen]
              | cons k ks' =>
                have : 0 < ((h r).children).length := by rw [hlen]; simp
                simp; omega
      · obtain ⟨e, he⟩ := Option.ne_none_iff_exists'.mp hve
        rw [he]
        exact ⟨h1, by simp, by simp⟩

/-! ### a forest: `grow` over the roots -/

/-- the body of the loop of `grow` over the roots -/
def rootsBody (dg : defaultGrowerSimple) (fuel : Nat) : Ptr → Heap → Go.Ctl Heap (Option (Heap × Option Src.Err)) :=
  fun root st_ =>
    match (defaultGrowerSimple.assemble fuel st_ dg root) with
    | none => Go.Ctl.ret none
    | some r_ =>
      match r_ with
      | (h_, err) => if (Option.isSome err) then Go.Ctl.ret (some (h_, err)) else Go.Ctl.next h_

theorem grow_unfold (fuel : Nat) (h : Heap) (dg : defaultGrowerSimple) (rs : List Ptr) :
    defaultGrowerSimple.grow fuel h dg rs =
      (match Go.forRange rs h (rootsBody dg fuel) with
       | Go.Ctl.ret r_ => r_
       | Go.Ctl.brk st_ | Go.Ctl.next st_ => some (st_, none)) := by
  rfl

theorem grow_loop (dg : defaultGrowerSimple) : ∀ (ts : List T) (h : Heap) (rs : List Ptr) (fuel : Nat),
    ReprRoots h ts rs → (ptrsKids h ts rs).Nodup → 2 * sizeList ts + 1 ≤ fuel →
    ∃ h', Go.forRange rs h (rootsBody dg fuel) =
        (match expErr dg (ts.flatMap (growRoot (fmtOf dg))) with
         | none => Go.Ctl.next h'
         | some e => Go.Ctl.ret (some (h', some e))) ∧
      (expErr dg (ts.flatMap (growRoot (fmtOf dg))) = none →
        SameShape h h' ∧ (∀ q, q ∉ ptrsKids h ts rs → h' q = h q) ∧
        readKids h' ts rs 1 = ts.flatMap (growRoot (fmtOf dg)))
  | [], h, rs, fuel, hr, _, _ => by
    have : rs = [] := hr
    subst this
    refine ⟨h, by simp [Go.forRange, expErr, validateVisits], fun _ => ⟨SameShape.refl h, fun _ _ => rfl, ?_⟩⟩
    rw [readKids]; rfl
  | t :: ts, h, rs, fuel, hr, hnd, hf => by
    obtain ⟨r, rs', rfl, hrr, hrs⟩ := hr
    rw [ptrsKids] at hnd
    have hndc := (List.nodup_append.mp hnd).1
    have hnds := (List.nodup_append.mp hnd).2.1
    have hdisj := (List.nodup_append.mp hnd).2.2
    have hsz : sizeList (t :: ts) = t.size + sizeList ts := by simp [sizeList]
    rw [hsz] at hf
    obtain ⟨h1, hrun1, hrest1⟩ := assemble_root dg t h r fuel hrr hndc (by omega)
    rw [List.flatMap_cons, expErr_append]
    have hstep : Go.forRange (r :: rs') h (rootsBody dg fuel) =
        (match expErr dg (growRoot (fmtOf dg) t) with
         | none => Go.forRange rs' h1 (rootsBody dg fuel)
         | some e => Go.Ctl.ret (some (h1, some e))) := by
      rw [Go.forRange]
      simp only [rootsBody, hrun1]
      cases expErr dg (growRoot (fmtOf dg) t) <;> simp
    rw [hstep]
    cases he1 : expErr dg (growRoot (fmtOf dg) t) with
    | some e => exact ⟨h1, by simp, by simp⟩
    | none =>
      obtain ⟨hs1, hfr1, hrd1⟩ := hrest1 he1
      obtain ⟨h2, hrun2, hrest2⟩ := grow_loop dg ts h1 rs' fuel (ReprRoots_shape hs1 _ _ hrs)
        (by rw [ptrsKids_shape hs1]; exact hnds) (by omega)
      simp only []
      rw [hrun2]
      cases he2 : expErr dg (ts.flatMap (growRoot (fmtOf dg))) with
      | some e => exact ⟨h2, by simp, by simp⟩
      | none =>
        refine ⟨h2, by simp, fun _ => ?_⟩
        obtain ⟨hs2, hfr2, hrd2⟩ := hrest2 he2
        refine ⟨hs1.trans hs2, ?_, ?_⟩
        · intro q hq
          rw [ptrsKids, List.mem_append, not_or] at hq
          rw [hfr2 q (by rw [ptrsKids_shape hs1]; exact hq.2), hfr1 q hq.1]
        · rw [readKids, hrd2]
          have : readNode h2 t r 1 = readNode h1 t r 1 := by
            apply readNode_congr
            intro q hq
            rw [ptrs_shape hs1] at hq
            apply hfr2
            rw [ptrsKids_shape hs1]
            intro hq2
            exact hdisj q hq q hq2 rfl
          rw [this, hrd1]

/-- **the grower of the source on a forest** (`defaultGrowerSimple.grow`, what every simple-mode operation calls
    before it prints, walks, creates or verifies): roots are grown in order, the first validation error in
    pre-order over the whole forest is returned, and without an error the nodes read as the model's `growRoot`
    of every root. -/
theorem grow_forest (dg : defaultGrowerSimple) (ts : List T) (h : Heap) (rs : List Ptr) (fuel : Nat)
    (hr : ReprRoots h ts rs) (hnd : (ptrsKids h ts rs).Nodup) (hf : 2 * sizeList ts + 1 ≤ fuel) :
    ∃ h', defaultGrowerSimple.grow fuel h dg rs = some (h', expErr dg (ts.flatMap (growRoot (fmtOf dg)))) ∧
      (expErr dg (ts.flatMap (growRoot (fmtOf dg))) = none →
        SameShape h h' ∧ (∀ q, q ∉ ptrsKids h ts rs → h' q = h q) ∧
        readKids h' ts rs 1 = ts.flatMap (growRoot (fmtOf dg))) := by
  obtain ⟨h', hrun, hrest⟩ := grow_loop dg ts h rs fuel hr hnd hf
  refine ⟨h', ?_, hrest⟩
  rw [grow_unfold, hrun]
  cases expErr dg (ts.flatMap (growRoot (fmtOf dg))) <;> rfl

/-! ### the hypotheses are satisfiable: a concrete heap -/

/-- `r` with children `a` (with child `c`) and `b`, at the pointers 1, 2, 3, 4; stale branches and paths everywhere -/
def exHeap : Heap := fun p =>
  match p with
  | 1 => { name := [0x72], hierarchy := 1, index := 0, brnch := ⟨[0x21], [0x21]⟩, parent := 0, children := [2, 4] }
  | 2 => { name := [0x61], hierarchy := 2, index := 1, brnch := ⟨[0x21], [0x21]⟩, parent := 1, children := [3] }
  | 3 => { name := [0x63], hierarchy := 3, index := 2, brnch := ⟨[0x21], [0x21]⟩, parent := 2, children := [] }
  | 4 => { name := [0x62], hierarchy := 2, index := 3, brnch := ⟨[0x21], [0x21]⟩, parent := 1, children := [] }
  | _ => { name := [], hierarchy := 0, index := 0, brnch := ⟨[], []⟩, parent := 0, children := [] }

def exTree : T := .mk [0x72] [.mk [0x61] [.mk [0x63] []], .mk [0x62] []]

example : Repr exHeap exTree 1 0 1 ∧ (ptrs exHeap exTree 1).Nodup := by
  refine ⟨?_, by decide⟩
  have leaf : ∀ (p par : Ptr) (lvl : Nat) (n : Bytes), p ≠ 0 → (exHeap p).name = n → (exHeap p).hierarchy = (lvl : Int) →
      (exHeap p).parent = par → (exHeap p).children = [] → Repr exHeap (.mk n []) p par lvl := by
    intro p par lvl n h0 h1 h2 h3 h4
    rw [Repr]; exact ⟨h0, h1, h2, h3, by rw [ReprKids]; exact h4⟩
  rw [exTree, Repr]
  refine ⟨by decide, rfl, rfl, rfl, ?_⟩
  rw [ReprKids]
  refine ⟨2, [4], rfl, ?_, ?_⟩
  · rw [Repr]
    refine ⟨by decide, rfl, rfl, rfl, ?_⟩
    rw [ReprKids]
    exact ⟨3, [], rfl, leaf 3 2 3 _ (by decide) rfl rfl rfl rfl, by rw [ReprKids]⟩
  · rw [ReprKids]
    exact ⟨4, [], rfl, leaf 4 1 2 _ (by decide) rfl rfl rfl rfl, by rw [ReprKids]⟩

end Gtree.SrcH
