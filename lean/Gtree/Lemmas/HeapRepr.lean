import Gtree.Generated.Heap.Core
import Gtree.Model.Grow
import Gtree.Lemmas.Validate
import Gtree.Lemmas.SourceRefines
/-
  Heaps that hold trees: what it means that the heap of the heap-mode translation (/verif/translate, `Generated/Heap/*`)
  holds a model tree at a pointer (`Repr`), the pointers of such a tree (`ptrs`), what the walker, the printers and the
  mkdirer read from its nodes (`readNode`), heaps of the same shape (`SameShape`), the chain of ancestors above a node
  (`Up`), and what the methods of node.go do to a heap.  Depends on the translation of node.go only.
-/
namespace Gtree.SrcH
open Gtree Gtree.Go


/-- the branch strings the grower holds, as the model's `Fmt` -/
def fmtOf (dg : defaultGrowerSimple) : Fmt :=
  { lastD := dg.lastNodeFormat.directly, lastI := dg.lastNodeFormat.indirectly,
    midD := dg.intermedialNodeFormat.directly, midI := dg.intermedialNodeFormat.indirectly }

/-- every write of the grower: the `brnch` field of one cell -/
def setBr (h : Heap) (n : Ptr) (b : Src.branch) : Heap := Heap.set h n { (h n) with brnch := b }

@[simp] theorem setBr_self (h : Heap) (n : Ptr) (b : Src.branch) :
    (setBr h n b) n = { (h n) with brnch := b } := by simp [setBr, Heap.set]

theorem setBr_other (h : Heap) (n q : Ptr) (b : Src.branch) (hq : q ≠ n) : (setBr h n b) q = h q := by
  simp [setBr, Heap.set, hq]

@[simp] theorem setBr_name (h : Heap) (n q : Ptr) (b : Src.branch) : ((setBr h n b) q).name = (h q).name := by
  unfold setBr Heap.set; split <;> simp_all
@[simp] theorem setBr_hierarchy (h : Heap) (n q : Ptr) (b : Src.branch) :
    ((setBr h n b) q).hierarchy = (h q).hierarchy := by
  unfold setBr Heap.set; split <;> simp_all
@[simp] theorem setBr_parent (h : Heap) (n q : Ptr) (b : Src.branch) : ((setBr h n b) q).parent = (h q).parent := by
  unfold setBr Heap.set; split <;> simp_all
@[simp] theorem setBr_children (h : Heap) (n q : Ptr) (b : Src.branch) :
    ((setBr h n b) q).children = (h q).children := by
  unfold setBr Heap.set; split <;> simp_all
@[simp] theorem setBr_brnch_self (h : Heap) (n : Ptr) (b : Src.branch) : ((setBr h n b) n).brnch = b := by simp

@[simp] theorem setBr_setBr (h : Heap) (n : Ptr) (b b' : Src.branch) : setBr (setBr h n b) n b' = setBr h n b' := by
  funext q
  by_cases hq : q = n
  · subst hq; simp
  · simp [setBr_other _ _ _ _ hq]

theorem add_bytes (a b : Bytes) : a + b = a ++ b := rfl

theorem setBranch_eq (h : Heap) (n : Ptr) (xs : List Bytes) :
    Node.setBranch h n xs = setBr h n { (h n).brnch with value := xs.flatten } := by
  have key : ∀ (xs : List Bytes) (acc : Bytes),
      Go.forRange xs (h, acc) (fun v (st_ : Heap × Bytes) => (Go.Ctl.next (st_.1, st_.2 ++ v) : Go.Ctl (Heap × Bytes) Heap))
        = Go.Ctl.next (h, acc ++ xs.flatten) := by
    intro xs
    induction xs with
    | nil => intro acc; simp [Go.forRange]
    | cons x xs ih => intro acc; simp [Go.forRange, ih, List.append_assoc]
  have := key xs []
  simp only [List.nil_append] at this
  show (match Go.forRange xs (h, ([] : Bytes)) (fun v (st_ : Heap × Bytes) =>
      (Go.Ctl.next (st_.1, st_.2 ++ v) : Go.Ctl (Heap × Bytes) Heap)) with
    | Go.Ctl.ret r_ => r_
    | Go.Ctl.brk st_ | Go.Ctl.next st_ => Heap.set st_.1 n { (st_.1 n) with brnch := { (st_.1 n).brnch with value := st_.2 } }) = _
  rw [this]
  rfl

theorem setPath_eq (h : Heap) (n : Ptr) (xs : List Bytes) :
    Node.setPath h n xs = setBr h n { (h n).brnch with path := pathJoin xs } := by
  simp [Node.setPath, setBr, Go.path_Join]

theorem pathJoin_empty : pathJoin [([] : Bytes)] = [] := by decide

theorem clean_eq (h : Heap) (n : Ptr) : Node.clean h n = setBr h n ⟨[], []⟩ := by
  simp [Node.clean, setBranch_eq, setPath_eq, pathJoin_empty]

/-- `isLastOfHierarchy` reads parent links and child lists only -/
theorem isLast_setBr (h : Heap) (n q : Ptr) (b : Src.branch) :
    Node.isLastOfHierarchy (setBr h n b) q = Node.isLastOfHierarchy h q := by
  simp [Node.isLastOfHierarchy]

theorem isRoot_setBr (h : Heap) (n q : Ptr) (b : Src.branch) : Node.isRoot (setBr h n b) q = Node.isRoot h q := by
  simp [Node.isRoot]

/-- `Up h root q anc`: following the parent links from `q` one meets the ancestors `anc` strictly below the root
    (nearest first: name, and whether the ancestor is its parent's last child) and then the root -/
def Up (h : Heap) (root : Ptr) : Ptr → List Anc → Prop
  | q, [] => q = root ∧ root ≠ 0 ∧ (h root).hierarchy = 1
  | q, a :: anc => q ≠ 0 ∧ (h q).hierarchy ≠ 1 ∧ (h q).name = a.1 ∧ Node.isLastOfHierarchy h q = a.2 ∧
      Up h root (h q).parent anc

theorem Up_setBr (h : Heap) (root n : Ptr) (b : Src.branch) :
    ∀ (anc : List Anc) (q : Ptr), Up (setBr h n b) root q anc ↔ Up h root q anc
  | [], q => by simp [Up]
  | a :: anc, q => by simp [Up, isLast_setBr, Up_setBr h root n b anc]

theorem Up_ne_zero (h : Heap) (root : Ptr) : ∀ (anc : List Anc) (q : Ptr), Up h root q anc → q ≠ 0
  | [], q, hu => by obtain ⟨rfl, h0, _⟩ := hu; exact h0
  | _ :: _, q, hu => hu.1

theorem Up_root (h : Heap) (root : Ptr) : ∀ (anc : List Anc) (q : Ptr), Up h root q anc →
    root ≠ 0 ∧ (h root).hierarchy = 1
  | [], q, hu => ⟨hu.2.1, hu.2.2⟩
  | _ :: anc, q, hu => Up_root h root anc _ hu.2.2.2.2

/-! ### heaps that hold a tree -/

/-- `h'` has the shape of `h`: names, levels, parent links and child lists agree (branches and paths may differ) -/
def SameShape (h h' : Heap) : Prop :=
  ∀ q, (h' q).name = (h q).name ∧ (h' q).hierarchy = (h q).hierarchy ∧ (h' q).parent = (h q).parent ∧
    (h' q).children = (h q).children

theorem SameShape.refl (h : Heap) : SameShape h h := fun _ => ⟨rfl, rfl, rfl, rfl⟩
theorem SameShape.trans {h h' h'' : Heap} (a : SameShape h h') (b : SameShape h' h'') : SameShape h h'' := fun q =>
  ⟨(b q).1.trans (a q).1, (b q).2.1.trans (a q).2.1, (b q).2.2.1.trans (a q).2.2.1, (b q).2.2.2.trans (a q).2.2.2⟩
theorem SameShape.setBr (h : Heap) (n : Ptr) (b : Src.branch) : SameShape h (setBr h n b) := fun q => by simp

theorem isLast_shape {h h' : Heap} (s : SameShape h h') (q : Ptr) :
    Node.isLastOfHierarchy h' q = Node.isLastOfHierarchy h q := by
  simp [Node.isLastOfHierarchy, (s q).2.2.1, (s (h q).parent).2.2.2]

theorem Up_shape {h h' : Heap} (s : SameShape h h') (root : Ptr) :
    ∀ (anc : List Anc) (q : Ptr), Up h' root q anc ↔ Up h root q anc
  | [], q => by simp [Up, (s root).2.1]
  | a :: anc, q => by simp [Up, isLast_shape s, Up_shape s root anc, (s q).1, (s q).2.1, (s q).2.2.1]

mutual
/-- the heap holds the tree `t` at pointer `p`, whose parent pointer is `par` and whose level is `lvl` -/
def Repr (h : Heap) : T → Ptr → Ptr → Nat → Prop
  | .mk n ks, p, par, lvl => p ≠ 0 ∧ (h p).name = n ∧ (h p).hierarchy = (lvl : Int) ∧ (h p).parent = par ∧
      ReprKids h ks (h p).children p (lvl + 1)
def ReprKids (h : Heap) : List T → List Ptr → Ptr → Nat → Prop
  | [], cs, _, _ => cs = []
  | t :: ts, cs, par, lvl => ∃ c cs', cs = c :: cs' ∧ Repr h t c par lvl ∧ ReprKids h ts cs' par lvl
end

mutual
/-- the pointers of the nodes of the tree held at `p`, pre-order -/
def ptrs (h : Heap) : T → Ptr → List Ptr
  | .mk _ ks, p => p :: ptrsKids h ks (h p).children
def ptrsKids (h : Heap) : List T → List Ptr → List Ptr
  | [], _ => []
  | _ :: _, [] => []
  | t :: ts, c :: cs => ptrs h t c ++ ptrsKids h ts cs
end

mutual
/-- what the walker, the printers and the mkdirer read from the nodes of the tree held at `p`, pre-order -/
def readNode (h : Heap) : T → Ptr → Nat → List Visit
  | .mk _ ks, p, lvl =>
    { name := (h p).name, branch := Node.branch h p, level := lvl, path := Node.path h p, hasChild := Node.hasChild h p }
      :: readKids h ks (h p).children (lvl + 1)
def readKids (h : Heap) : List T → List Ptr → Nat → List Visit
  | [], _, _ => []
  | _ :: _, [], _ => []
  | t :: ts, c :: cs, lvl => readNode h t c lvl ++ readKids h ts cs lvl
end

mutual
theorem Repr_shape {h h' : Heap} (s : SameShape h h') : ∀ (t : T) (p par : Ptr) (lvl : Nat),
    Repr h t p par lvl → Repr h' t p par lvl
  | .mk n ks, p, par, lvl, hr => by
    rw [Repr] at hr ⊢
    obtain ⟨h0, hn, hl, hp, hk⟩ := hr
    refine ⟨h0, (s p).1.trans hn, (s p).2.1.trans hl, (s p).2.2.1.trans hp, ?_⟩
    rw [(s p).2.2.2]
    exact ReprKids_shape s ks _ p (lvl + 1) hk
theorem ReprKids_shape {h h' : Heap} (s : SameShape h h') : ∀ (ts : List T) (cs : List Ptr) (par : Ptr) (lvl : Nat),
    ReprKids h ts cs par lvl → ReprKids h' ts cs par lvl
  | [], cs, par, lvl, hr => by rw [ReprKids] at hr ⊢; exact hr
  | t :: ts, cs, par, lvl, hr => by
    rw [ReprKids] at hr ⊢
    obtain ⟨c, cs', rfl, h1, h2⟩ := hr
    exact ⟨c, cs', rfl, Repr_shape s t c par lvl h1, ReprKids_shape s ts cs' par lvl h2⟩
end

mutual
theorem ptrs_shape {h h' : Heap} (s : SameShape h h') : ∀ (t : T) (p : Ptr), ptrs h' t p = ptrs h t p
  | .mk n ks, p => by rw [ptrs, ptrs, (s p).2.2.2, ptrsKids_shape s ks]
theorem ptrsKids_shape {h h' : Heap} (s : SameShape h h') : ∀ (ts : List T) (cs : List Ptr),
    ptrsKids h' ts cs = ptrsKids h ts cs
  | [], cs => by rw [ptrsKids, ptrsKids]
  | _ :: _, [] => by rw [ptrsKids, ptrsKids]
  | t :: ts, c :: cs => by rw [ptrsKids, ptrsKids, ptrs_shape s t c, ptrsKids_shape s ts cs]
end

mutual
/-- reading a tree depends on the cells of its own nodes only -/
theorem readNode_congr {h h' : Heap} : ∀ (t : T) (p : Ptr) (lvl : Nat), (∀ q ∈ ptrs h t p, h' q = h q) →
    readNode h' t p lvl = readNode h t p lvl
  | .mk n ks, p, lvl, hq => by
    have hp : h' p = h p := hq p (by rw [ptrs]; simp)
    rw [readNode, readNode]
    have hk := readKids_congr ks (h p).children (lvl + 1) (fun q hq' => hq q (by rw [ptrs]; simp [hq']))
    simp [Node.branch, Node.path, Node.isRoot, Node.hasChild, hp, hk]
theorem readKids_congr {h h' : Heap} : ∀ (ts : List T) (cs : List Ptr) (lvl : Nat),
    (∀ q ∈ ptrsKids h ts cs, h' q = h q) → readKids h' ts cs lvl = readKids h ts cs lvl
  | [], cs, lvl, _ => by rw [readKids, readKids]
  | _ :: _, [], lvl, _ => by rw [readKids, readKids]
  | t :: ts, c :: cs, lvl, hq => by
    rw [readKids, readKids,
      readNode_congr t c lvl (fun q hq' => hq q (by rw [ptrsKids]; simp [hq'])),
      readKids_congr ts cs lvl (fun q hq' => hq q (by rw [ptrsKids]; simp [hq']))]
end

/-- the children's pointers are among the pointers of the children's trees, in order -/
theorem kids_sublist (h : Heap) : ∀ (ts : List T) (cs : List Ptr) (par : Ptr) (lvl : Nat),
    ReprKids h ts cs par lvl → cs.Sublist (ptrsKids h ts cs)
  | [], cs, par, lvl, hr => by rw [ReprKids] at hr; subst hr; simp
  | .mk n ks :: ts, cs, par, lvl, hr => by
    rw [ReprKids] at hr
    obtain ⟨c, cs', rfl, _, h2⟩ := hr
    rw [ptrsKids, ptrs]
    exact List.Sublist.cons₂ c (List.Sublist.trans (kids_sublist h ts cs' par lvl h2) (List.sublist_append_right _ _))

theorem readKids_length_eq (h : Heap) : ∀ (ts : List T) (cs : List Ptr) (par : Ptr) (lvl : Nat),
    ReprKids h ts cs par lvl → cs.length = ts.length
  | [], cs, par, lvl, hr => by rw [ReprKids] at hr; subst hr; rfl
  | t :: ts, cs, par, lvl, hr => by
    rw [ReprKids] at hr
    obtain ⟨c, cs', rfl, _, h2⟩ := hr
    simp [readKids_length_eq h ts cs' par lvl h2]

/-! ### the recursion -/

theorem idxPtr_last (xs : List Ptr) (hne : xs ≠ []) : Go.idxPtr xs (Go.len xs - 1) = xs.getLast hne := by
  have hl : 0 < xs.length := List.length_pos_iff.mpr hne
  unfold Go.idxPtr Go.len
  have h1 : ¬ ((Int.ofNat xs.length - 1) < 0) := by simp only [Int.ofNat_eq_natCast]; omega
  rw [if_neg h1]
  have h2 : (Int.ofNat xs.length - 1).toNat = xs.length - 1 := by simp only [Int.ofNat_eq_natCast]; omega
  rw [h2, List.getD_eq_getElem?_getD, List.getLast_eq_getElem, List.getElem?_eq_getElem (by omega)]
  rfl

/-- "is the last child" is decided by identity of pointers; with pairwise different children it is the position -/
theorem isLast_child (h : Heap) (c par : Ptr) (pre cs' : List Ptr) (hpar : (h c).parent = par) (hp0 : par ≠ 0)
    (hch : (h par).children = pre ++ c :: cs') (hnd : ((h par).children).Nodup) :
    Node.isLastOfHierarchy h c = cs'.isEmpty := by
  have hnil : Go.nilPtr = 0 := rfl
  unfold Node.isLastOfHierarchy
  simp only [hpar, hnil, beq_iff_eq, hp0, if_false]
  rw [idxPtr_last _ (by rw [hch]; simp)]
  cases cs' with
  | nil => simp [hch]
  | cons d ds =>
    simp only [hch, List.isEmpty_cons, beq_eq_false_iff_ne, ne_eq]
    rw [hch] at hnd
    intro he
    have hmem : c ∈ d :: ds := by
      have : (pre ++ c :: d :: ds).getLast (by simp) = (d :: ds).getLast (by simp) := by
        rw [List.getLast_append_of_ne_nil _ (by simp), List.getLast_cons (by simp)]
      rw [this] at he
      rw [he]; exact List.getLast_mem _
    have := (List.nodup_append.mp hnd).2.1
    rw [List.nodup_cons] at this
    exact this.1 hmem

/-- `Node.validatePath` on a cell is the model's `validateVisit` of what the walker would read from it -/
theorem validatePath_heap (h : Heap) (p : Ptr) (v : Visit) (hn : (h p).name = v.name)
    (hp : Node.path h p = v.path) (hroot : v.level = 1 → v.path = v.name) :
    Node.validatePath h p = (validateVisit v).map verrSrc := by
  rw [← validatePath_src v hroot]
  have hpath : Src.Node.path (visitNode v) = v.path := by
    unfold Src.Node.path Src.Node.isRoot visitNode
    simp only [Src.rootHierarchyNum]
    by_cases h1 : v.level = 1
    · have : (((v.level : Nat) : Int) == 1) = true := by rw [h1]; rfl
      simp [this, hroot h1]
    · have : (((v.level : Nat) : Int) == 1) = false := by
        simp only [beq_eq_false_iff_ne, ne_eq]; omega
      simp [this]
  unfold Node.validatePath Src.Node.validatePath
  rw [hpath, hp, hn]
  rfl

/-- the heap holds the forest `ts` at the root pointers `rs` -/
def ReprRoots (h : Heap) : List T → List Ptr → Prop
  | [], rs => rs = []
  | t :: ts, rs => ∃ r rs', rs = r :: rs' ∧ Repr h t r 0 1 ∧ ReprRoots h ts rs'


theorem ReprRoots_shape {h h' : Heap} (s : SameShape h h') : ∀ (ts : List T) (rs : List Ptr),
    ReprRoots h ts rs → ReprRoots h' ts rs
  | [], rs, hr => hr
  | t :: ts, rs, hr => by
    obtain ⟨r, rs', rfl, h1, h2⟩ := hr
    exact ⟨r, rs', rfl, Repr_shape s t r 0 1 h1, ReprRoots_shape s ts rs' h2⟩


end Gtree.SrcH
