import Gtree.Lemmas.FSExact
import Gtree.Lemmas.Distinct
import Gtree.Model.Spread
/-
  makeDirectoriesAndFiles as a recursion over the tree (how the Go code recurses), over lists of path
  elements, and what it does to the file system – exactly the node paths, with the right kinds,
  nothing else.
-/
namespace Gtree

mutual
/-- create the subtree `t` whose parent has the (full, target-prefixed) element list `Q` -/
def mkTree (exts : List Bytes) (Q : List Bytes) : FS → T → FS × Option FErr
  | fs, .mk n ks =>
    if isFileNode exts n (!ks.isEmpty) then
      match fs.mkdirAll (key Q) with
      | (fs1, some e) => (fs1, some e)
      | (fs1, none) => fs1.create (key (Q ++ [n]))
    else if ks.isEmpty then fs.mkdirAll (key (Q ++ [n]))
    else mkKids exts (Q ++ [n]) fs ks
def mkKids (exts : List Bytes) (Q : List Bytes) : FS → List T → FS × Option FErr
  | fs, [] => (fs, none)
  | fs, t :: ts =>
    match mkTree exts Q fs t with
    | (fs1, some e) => (fs1, some e)
    | (fs1, none) => mkKids exts Q fs1 ts
end

mutual
/-- every name in the tree is a good path element -/
def AllGoodT : T → Prop
  | .mk n ks => GoodElem n ∧ AllGoodL ks
def AllGoodL : List T → Prop
  | [] => True
  | t :: ts => AllGoodT t ∧ AllGoodL ts
end

/-- the full element lists of the nodes of `ks` below `Q`, with "is created as a file" -/
def pathsOf (exts : List Bytes) (Q : List Bytes) : List T → List (List Bytes × Bool)
  | [] => []
  | .mk n sub :: rest =>
    (Q ++ [n], isFileNode exts n (!sub.isEmpty)) :: pathsOf exts (Q ++ [n]) sub ++ pathsOf exts Q rest

def kindOfFlag (b : Bool) : Kind := if b then .file 0 else .dir

theorem goodList_snoc {Q : List Bytes} {n : Bytes} (hQ : GoodList Q) (hn : GoodElem n) : GoodList (Q ++ [n]) :=
  ⟨by simp, fun e he => by
    rcases List.mem_append.mp he with he | he
    · exact hQ.2 e he
    · simp only [List.mem_singleton] at he; subst he; exact hn⟩

/-- every path below `Q` extends `Q` by the name of one of the siblings, and is a good list -/
theorem pathsOf_shape (exts : List Bytes) : ∀ (ks : List T) (Q : List Bytes), GoodList Q → AllGoodL ks →
    ∀ e ∈ pathsOf exts Q ks, GoodList e.1 ∧ ∃ k ∈ ks, ∃ tail, e.1 = Q ++ k.name :: tail
  | [], _, _, _, e, he => by simp [pathsOf] at he
  | T.mk n sub :: rest, Q, hQ, hk, e, he => by
    rw [AllGoodL, AllGoodT] at hk
    obtain ⟨⟨hn, hsub⟩, hrest⟩ := hk
    have hQn := goodList_snoc hQ hn
    simp only [pathsOf, List.mem_cons, List.mem_append] at he
    rcases he with (rfl | he) | he
    · exact ⟨hQn, T.mk n sub, by simp, [], by simp⟩
    · obtain ⟨hg, k, _, tail, ht⟩ := pathsOf_shape exts sub (Q ++ [n]) hQn hsub e he
      exact ⟨hg, T.mk n sub, by simp, k.name :: tail, by rw [ht]; simp⟩
    · obtain ⟨hg, k, hk', tail, ht⟩ := pathsOf_shape exts rest Q hQ hrest e he
      exact ⟨hg, k, by simp [hk'], tail, ht⟩
termination_by ks => sizeOf ks

end Gtree

namespace Gtree

theorem take_snoc_lt (Q : List Bytes) (n : Bytes) (i : Nat) (hi : i < Q.length) :
    (Q ++ [n]).take (i + 1) = Q.take (i + 1) := by
  rw [List.take_append_of_le_length (by omega)]

theorem take_snoc_eq (Q : List Bytes) (n : Bytes) : (Q ++ [n]).take (Q.length + 1) = Q ++ [n] := by
  rw [List.take_of_length_le (by simp)]

/-- a path below `Q` is not one of `Q`'s prefixes -/
theorem key_ne_prefix {Q : List Bytes} (hQ : GoodList Q) {e : List Bytes} (he : GoodList e)
    {x : Bytes} {tail : List Bytes} (hshape : e = Q ++ x :: tail) (i : Nat) :
    key e ≠ key (Q.take (i + 1)) := by
  intro h
  have := key_inj he (goodList_take hQ i) h
  have hl := congrArg List.length this
  rw [hshape] at hl
  simp only [List.length_append, List.length_cons, List.length_take] at hl
  omega

/-- paths through differently named siblings differ -/
theorem key_ne_sibling {Q : List Bytes} {a b : List Bytes} (ha : GoodList a) (hb : GoodList b)
    {x y : Bytes} {ta tb : List Bytes} (hsa : a = Q ++ x :: ta) (hsb : b = Q ++ y :: tb) (hxy : x ≠ y) :
    key a ≠ key b := by
  intro h
  have := key_inj ha hb h
  rw [hsa, hsb] at this
  have := List.append_cancel_left this
  simp only [List.cons.injEq] at this
  exact hxy this.1

/-- what `mkKids` achieves -/
structure Exact (exts : List Bytes) (Q : List Bytes) (ks : List T) (fs fs' : FS) : Prop where
  nodes : ∀ e ∈ pathsOf exts Q ks, fs'.lookup (key e.1) = some (kindOfFlag e.2)
  keep  : ∀ i < Q.length, ∀ k, fs.lookup (key (Q.take (i + 1))) = some k → fs'.lookup (key (Q.take (i + 1))) = some k
  make  : ks ≠ [] → ∀ i < Q.length, fs.lookup (key (Q.take (i + 1))) = none → fs'.lookup (key (Q.take (i + 1))) = some Kind.dir
  frame : ∀ p, (∀ e ∈ pathsOf exts Q ks, p ≠ key e.1) → (∀ i < Q.length, p ≠ key (Q.take (i + 1))) → fs'.lookup p = fs.lookup p

theorem notFile_of_dir {fs : FS} {p : Bytes} (h : fs.lookup p = some Kind.dir) : notFile fs p := by
  intro n; rw [h]; simp

theorem notFile_of_none {fs : FS} {p : Bytes} (h : fs.lookup p = none) : notFile fs p := by
  intro n; rw [h]; simp

end Gtree

namespace Gtree

theorem pathsOf_cons (exts : List Bytes) (Q : List Bytes) (t : T) (rest : List T) :
    pathsOf exts Q (t :: rest) = pathsOf exts Q [t] ++ pathsOf exts Q rest := by
  cases t with
  | mk n sub => simp [pathsOf]

/-- a kid's result followed by the rest's result -/
theorem exact_cons (exts : List Bytes) (Q : List Bytes) (t : T) (rest : List T) (fs fs1 fs2 : FS)
    (h1 : Exact exts Q [t] fs fs1) (h2 : Exact exts Q rest fs1 fs2)
    (d1 : ∀ e ∈ pathsOf exts Q [t], ∀ e' ∈ pathsOf exts Q rest, key e.1 ≠ key e'.1)
    (d2 : ∀ e ∈ pathsOf exts Q [t], ∀ i < Q.length, key e.1 ≠ key (Q.take (i + 1))) :
    Exact exts Q (t :: rest) fs fs2 := by
  refine ⟨?_, ?_, ?_, ?_⟩
  · intro e he
    rw [pathsOf_cons] at he
    rcases List.mem_append.mp he with he | he
    · rw [h2.frame (key e.1) (fun e' he' => d1 e he e' he') (fun i hi => d2 e he i hi)]
      exact h1.nodes e he
    · exact h2.nodes e he
  · intro i hi k hk
    exact h2.keep i hi k (h1.keep i hi k hk)
  · intro _ i hi hn
    exact h2.keep i hi _ (h1.make (by simp) i hi hn)
  · intro p hp hpre
    rw [pathsOf_cons] at hp
    rw [h2.frame p (fun e he => hp e (List.mem_append_right _ he)) hpre]
    exact h1.frame p (fun e he => hp e (List.mem_append_left _ he)) hpre

theorem isFileNode_inner (exts : List Bytes) (n : Bytes) : isFileNode exts n true = false := by
  simp [isFileNode]

end Gtree

namespace Gtree

/-- the directories along `Q` after MkdirAll: `dir` where nothing was, untouched otherwise -/
theorem prefix_dir_after {fs : FS} {Q : List Bytes}
    (hnf : ∀ i < Q.length, notFile fs (key (Q.take (i + 1)))) (i : Nat) (hi : i < Q.length) :
    (if fs.lookup (key (Q.take (i + 1))) = none ∧ ∃ j < Q.length, key (Q.take (i + 1)) = key (Q.take (j + 1))
      then some Kind.dir else fs.lookup (key (Q.take (i + 1)))) = some Kind.dir := by
  cases hl : fs.lookup (key (Q.take (i + 1))) with
  | none => simp; exact ⟨i, hi, rfl⟩
  | some k =>
    cases k with
    | dir => simp
    | file n => exact absurd hl (hnf i hi n)

/-- EXACTNESS of the recursive creation: started where nothing at the node paths exists and no prefix
    of `Q` is a regular file, it succeeds; afterwards every node path exists with the right kind, the
    missing prefixes of `Q` are directories, and every other path is as before. -/
theorem mkKids_exact (exts : List Bytes) : ∀ (ks : List T) (Q : List Bytes) (fs : FS),
    GoodList Q → AllGoodL ks → DistinctL ks →
    (∀ i < Q.length, notFile fs (key (Q.take (i + 1)))) →
    (∀ e ∈ pathsOf exts Q ks, fs.lookup (key e.1) = none) →
    (mkKids exts Q fs ks).2 = none ∧ Exact exts Q ks fs (mkKids exts Q fs ks).1
  | [], Q, fs, _, _, _, _, _ => by
    simp only [mkKids]
    exact ⟨trivial, ⟨by simp [pathsOf], fun _ _ _ h => h, fun h => absurd rfl h, fun _ _ _ => rfl⟩⟩
  | T.mk n sub :: rest, Q, fs, hQ, hg, hd, hnf, habs => by
    rw [AllGoodL, AllGoodT] at hg
    obtain ⟨⟨hn, hgsub⟩, hgrest⟩ := hg
    rw [DistinctL] at hd
    obtain ⟨hne, hdt, hdrest⟩ := hd
    rw [DistinctT] at hdt
    have hQn : GoodList (Q ++ [n]) := goodList_snoc hQ hn
    have habsQn : fs.lookup (key (Q ++ [n])) = none := habs (Q ++ [n], isFileNode exts n (!sub.isEmpty)) (by simp [pathsOf])
    have hnfQn : ∀ i < (Q ++ [n]).length, notFile fs (key ((Q ++ [n]).take (i + 1))) := by
      intro i hi
      by_cases hiq : i < Q.length
      · rw [take_snoc_lt Q n i hiq]; exact hnf i hiq
      · have : i = Q.length := by simp at hi; omega
        subst this
        rw [take_snoc_eq]; exact notFile_of_none habsQn
    have hQn_ne_pref : ∀ i, key (Q ++ [n]) ≠ key (Q.take (i + 1)) :=
      fun i => key_ne_prefix hQ hQn (x := n) (tail := []) rfl i
    -- the head tree
    have head : (mkTree exts Q fs (T.mk n sub)).2 = none ∧ Exact exts Q [T.mk n sub] fs (mkTree exts Q fs (T.mk n sub)).1 := by
      by_cases hfile : isFileNode exts n (!sub.isEmpty) = true
      · -- a file leaf
        have hsub : sub = [] := by
          cases sub with
          | nil => rfl
          | cons s ss => simp [isFileNode] at hfile
        subst hsub
        obtain ⟨hA2, hA⟩ := mkdirAll_spec fs Q hQ hnf
        have hcreate := create_spec (fs.mkdirAll (key Q)).1 (Q ++ [n]) hQn
          (by rw [hA]; have : ¬ ∃ i < Q.length, key (Q ++ [n]) = key (Q.take (i + 1)) := fun ⟨i, _, h⟩ => hQn_ne_pref i h
              simp [this, habsQn])
          (by
            intro i hi
            have hiq : i < Q.length := by simp at hi; omega
            rw [take_snoc_lt Q n i hiq, hA]
            exact prefix_dir_after hnf i hiq)
        obtain ⟨hB2, hB⟩ := hcreate
        have hres : mkTree exts Q fs (T.mk n []) = ((fs.mkdirAll (key Q)).1.create (key (Q ++ [n]))) := by
          simp only [mkTree, hfile, if_true]
          cases hm : fs.mkdirAll (key Q) with
          | mk fsA eA =>
            rw [hm] at hA2
            simp only at hA2
            subst hA2
            rfl
        rw [hres]
        refine ⟨hB2, ⟨?_, ?_, ?_, ?_⟩⟩
        · intro e he
          simp only [pathsOf, List.append_nil, List.mem_singleton] at he
          subst he
          simp only [hB, if_true, kindOfFlag, hfile]
        · intro i hi k hk
          rw [hB, if_neg (fun h => hQn_ne_pref i h.symm), hA, hk]; simp
        · intro _ i hi hnone
          rw [hB, if_neg (fun h => hQn_ne_pref i h.symm), hA]
          exact prefix_dir_after hnf i hi
        · intro p hp hpre
          have hpn : p ≠ key (Q ++ [n]) := hp (Q ++ [n], isFileNode exts n (!([] : List T).isEmpty)) (by simp [pathsOf])
          rw [hB, if_neg hpn, hA]
          have : ¬ ∃ i < Q.length, p = key (Q.take (i + 1)) := fun ⟨i, hi, h⟩ => hpre i hi h
          simp [this]
      · have hfile' : isFileNode exts n (!sub.isEmpty) = false := by simpa using hfile
        by_cases hsub : sub = []
        · -- an empty directory leaf
          subst hsub
          obtain ⟨hA2, hA⟩ := mkdirAll_spec fs (Q ++ [n]) hQn hnfQn
          have hfile'' : isFileNode exts n false = false := by simpa using hfile'
          have hres : mkTree exts Q fs (T.mk n []) = fs.mkdirAll (key (Q ++ [n])) := by
            simp [mkTree, hfile'']
          rw [hres]
          refine ⟨hA2, ⟨?_, ?_, ?_, ?_⟩⟩
          · intro e he
            simp only [pathsOf, List.append_nil, List.mem_singleton] at he
            subst he
            rw [hA]
            have : ∃ i < (Q ++ [n]).length, key (Q ++ [n]) = key ((Q ++ [n]).take (i + 1)) :=
              ⟨Q.length, by simp, by rw [take_snoc_eq]⟩
            rw [if_pos ⟨habsQn, this⟩]
            simp [kindOfFlag, hfile'']
          · intro i hi k hk
            rw [hA, hk]; simp
          · intro _ i hi hnone
            rw [hA]
            have : ∃ j < (Q ++ [n]).length, key (Q.take (i + 1)) = key ((Q ++ [n]).take (j + 1)) :=
              ⟨i, by simp; omega, by rw [take_snoc_lt Q n i hi]⟩
            rw [if_pos ⟨hnone, this⟩]
          · intro p hp hpre
            have hpn : p ≠ key (Q ++ [n]) := hp (Q ++ [n], isFileNode exts n (!([] : List T).isEmpty)) (by simp [pathsOf])
            rw [hA]
            have : ¬ ∃ i < (Q ++ [n]).length, p = key ((Q ++ [n]).take (i + 1)) := by
              rintro ⟨i, hi, h⟩
              by_cases hiq : i < Q.length
              · rw [take_snoc_lt Q n i hiq] at h; exact hpre i hiq h
              · have : i = Q.length := by simp at hi; omega
                subst this
                rw [take_snoc_eq] at h; exact hpn h
            rw [if_neg (fun h => this h.2)]
        · -- an inner node: its children create it
          have hinner : (!sub.isEmpty) = true := by cases sub <;> simp_all
          obtain ⟨hS2, hS⟩ := mkKids_exact exts sub (Q ++ [n]) fs hQn hgsub hdt hnfQn
            (fun e he => habs e (by simp [pathsOf, he]))
          have hres : mkTree exts Q fs (T.mk n sub) = mkKids exts (Q ++ [n]) fs sub := by
            have hse : sub.isEmpty = false := by cases sub <;> simp_all
            simp [mkTree, hse, isFileNode_inner]
          rw [hres]
          refine ⟨hS2, ⟨?_, ?_, ?_, ?_⟩⟩
          · intro e he
            simp only [pathsOf, List.append_nil, List.mem_cons] at he
            rcases he with rfl | he
            · have := hS.make hsub Q.length (by simp) (by rw [take_snoc_eq]; exact habsQn)
              rw [take_snoc_eq] at this
              simp only [this, kindOfFlag, hinner, isFileNode_inner]
              rfl
            · exact hS.nodes e he
          · intro i hi k hk
            have := hS.keep i (by simp; omega) k (by rw [take_snoc_lt Q n i hi]; exact hk)
            rwa [take_snoc_lt Q n i hi] at this
          · intro _ i hi hnone
            have := hS.make hsub i (by simp; omega) (by rw [take_snoc_lt Q n i hi]; exact hnone)
            rwa [take_snoc_lt Q n i hi] at this
          · intro p hp hpre
            apply hS.frame p
            · intro e he; exact hp e (by simp [pathsOf, he])
            · intro i hi
              by_cases hiq : i < Q.length
              · rw [take_snoc_lt Q n i hiq]; exact hpre i hiq
              · have : i = Q.length := by simp at hi; omega
                subst this
                rw [take_snoc_eq]
                exact hp (Q ++ [n], isFileNode exts n (!sub.isEmpty)) (by simp [pathsOf])
    obtain ⟨hH2, hH⟩ := head
    -- disjointness of the head's paths from the rest's paths and from the prefixes of Q
    have shapeHead : ∀ e ∈ pathsOf exts Q [T.mk n sub], GoodList e.1 ∧ ∃ tail, e.1 = Q ++ n :: tail := by
      intro e he
      obtain ⟨hg', k, hk, tail, ht⟩ := pathsOf_shape exts [T.mk n sub] Q hQ (by rw [AllGoodL, AllGoodT]; exact ⟨⟨hn, hgsub⟩, by rw [AllGoodL]; trivial⟩) e he
      simp only [List.mem_singleton] at hk
      subst hk
      exact ⟨hg', tail, ht⟩
    have d1 : ∀ e ∈ pathsOf exts Q [T.mk n sub], ∀ e' ∈ pathsOf exts Q rest, key e.1 ≠ key e'.1 := by
      intro e he e' he'
      obtain ⟨hg1, tail1, ht1⟩ := shapeHead e he
      obtain ⟨hg2, k, hk, tail2, ht2⟩ := pathsOf_shape exts rest Q hQ hgrest e' he'
      exact key_ne_sibling hg1 hg2 ht1 ht2 (fun h => hne k hk (by simpa [T.name] using h.symm))
    have d2 : ∀ e ∈ pathsOf exts Q [T.mk n sub], ∀ i < Q.length, key e.1 ≠ key (Q.take (i + 1)) := by
      intro e he i _
      obtain ⟨hg1, tail1, ht1⟩ := shapeHead e he
      exact key_ne_prefix hQ hg1 ht1 i
    -- the rest, started from the file system the head left
    have hres : mkKids exts Q fs (T.mk n sub :: rest) = mkKids exts Q (mkTree exts Q fs (T.mk n sub)).1 rest := by
      rw [mkKids]
      cases hm : mkTree exts Q fs (T.mk n sub) with
      | mk fs1 e1 =>
        rw [hm] at hH2
        simp only at hH2
        subst hH2
        rfl
    have hnf1 : ∀ i < Q.length, notFile (mkTree exts Q fs (T.mk n sub)).1 (key (Q.take (i + 1))) := by
      intro i hi
      cases hl : fs.lookup (key (Q.take (i + 1))) with
      | none => exact notFile_of_dir (hH.make (by simp) i hi hl)
      | some k =>
        intro m hm
        rw [hH.keep i hi k hl] at hm
        simp only [Option.some.injEq] at hm
        subst hm
        exact hnf i hi m hl
    have habs1 : ∀ e ∈ pathsOf exts Q rest, (mkTree exts Q fs (T.mk n sub)).1.lookup (key e.1) = none := by
      intro e he
      obtain ⟨hg2, k, hk, tail2, ht2⟩ := pathsOf_shape exts rest Q hQ hgrest e he
      rw [hH.frame (key e.1) (fun e0 he0 => (d1 e0 he0 e he).symm) (fun i _ => key_ne_prefix hQ hg2 ht2 i)]
      exact habs e (by rw [pathsOf_cons]; exact List.mem_append_right _ he)
    obtain ⟨hR2, hR⟩ := mkKids_exact exts rest Q (mkTree exts Q fs (T.mk n sub)).1 hQ hgrest hdrest hnf1 habs1
    rw [hres]
    exact ⟨hR2, exact_cons exts Q (T.mk n sub) rest fs _ _ hH hR d1 d2⟩
termination_by ks => sizeOf ks

end Gtree
