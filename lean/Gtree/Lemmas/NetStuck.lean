import Gtree.Lemmas.NetStep
/-
  No hang, no leak, for the whole chain: a state of the K-stage pipeline model in which no goroutine of
  the library can move is one where the call has returned and every worker of every stage has exited.
-/
namespace Gtree.Net

theorem nil_or_snoc {α} : ∀ (l : List α), l = [] ∨ ∃ l' x, l = l' ++ [x]
  | [] => Or.inl rfl
  | x :: xs => by
    rcases nil_or_snoc xs with h | ⟨l', y, h⟩
    · exact Or.inr ⟨[], x, by simp [h]⟩
    · exact Or.inr ⟨x :: l', y, by simp [h]⟩

theorem mem_split {α} {a : α} {l : List α} (h : a ∈ l) : ∃ pre post, l = pre ++ a :: post :=
  List.append_of_mem h

/-- an idle worker whose input is closed, or under cancellation, can exit – wherever its stage is -/
theorem idle_can_exit (n : Net) (pre post : List Stg) (a : Stg) (hs : n.stages = pre ++ a :: post) (hi : a.idle > 0)
    (hc : lastOut n.srcClosed pre = true ∨ n.cancelled = true) : ∃ n', SysStep n n' := by
  rcases nil_or_snoc pre with rfl | ⟨pre', p, rfl⟩
  · exact ⟨_, .idleExitFirst n a post hs hi (by simpa [lastOut] using hc)⟩
  · refine ⟨_, .idleExit n pre' p a post (by rw [hs]; simp) hi ?_⟩
    rw [lastOut_snoc] at hc
    exact hc

theorem no_stuck (n : Net) (h : Inv n) (hstuck : ∀ n', ¬ SysStep n n') :
    n.returned = true ∧ ∀ a ∈ n.stages, a.quiet := by
  have hret : n.returned = true := by
    cases hr : n.returned with
    | true => rfl
    | false =>
      exfalso
      -- some waiter is still waiting
      have hw : ∃ a ∈ n.stages, a.waiter = true := by
        apply Classical.byContradiction
        intro hno
        apply hstuck _ (.ret n hr ?_)
        intro a ha
        cases hwa : a.waiter with
        | false => rfl
        | true => exact absurd ⟨a, ha, hwa⟩ hno
      obtain ⟨w, hwm, hww⟩ := hw
      obtain ⟨wpre, wpost, hws⟩ := mem_split hwm
      -- so the errgroup's context is not cancelled, nor is the workers'
      have hec : n.ecancel = false := by
        cases he : n.ecancel with
        | false => rfl
        | true => exact absurd (.waiterCancel n wpre w wpost hws hww he) (hstuck _)
      have hcn : n.cancelled = false := by
        cases hc : n.cancelled with
        | false => rfl
        | true => have := h.ctx hc; rw [hec] at this; simp at this
      -- no error is buffered, no worker wants to report one
      have hbuf : ∀ a ∈ n.stages, a.errbuf = false := by
        intro a ha
        obtain ⟨pre, post, hs⟩ := mem_split ha
        cases hb : a.errbuf with
        | false => rfl
        | true =>
          cases hwa : a.waiter with
          | true => exact absurd (.recvErr n pre a post hs hb hwa) (hstuck _)
          | false =>
            have := ((h.stg a ha).waiterGone hec hwa).2
            rw [hb] at this; simp at this
      have herr : ∀ a ∈ n.stages, a.err = 0 := by
        intro a ha
        obtain ⟨pre, post, hs⟩ := mem_split ha
        cases he : a.err with
        | zero => rfl
        | succ k => exact absurd (.errSend n pre a post hs (by omega) (hbuf a ha)) (hstuck _)
      -- no worker is left holding an item: the chain of blocked senders would have to end somewhere
      have hsend : ∀ (post pre : List Stg) (a : Stg), n.stages = pre ++ a :: post → a.send > 0 → False := by
        intro post
        induction post with
        | nil =>
          intro pre a hs hsd
          have := last_send n h pre a hs
          omega
        | cons b post' ih =>
          intro pre a hs hsd
          have hbm : b ∈ n.stages := by rw [hs]; simp
          have hbi : b.idle = 0 := by
            cases hi : b.idle with
            | zero => rfl
            | succ k => exact absurd (.handover n pre a b _ post' hs hsd (.fail b (by omega))) (hstuck _)
          by_cases hbs : b.send > 0
          · exact ih (pre ++ [a]) b (by rw [hs]; simp) hbs
          · have hbd : b.done > 0 := by
              have := (h.stg b hbm).workers
              have := herr b hbm
              omega
            have hchain := h.chain
            have hs2 : n.stages = (pre ++ [a]) ++ b :: post' := by rw [hs]; simp
            rw [hs2, chainInv_append] at hchain
            have hin := hchain.2.1 hec (hbuf b hbm) hbd
            rw [lastOut_snoc] at hin
            have := ((h.stg a (by rw [hs]; simp)).closedQuiet hin).2.1
            omega
      have hsend0 : ∀ a ∈ n.stages, a.send = 0 := by
        intro a ha
        obtain ⟨pre, post, hs⟩ := mem_split ha
        cases hsd : a.send with
        | zero => rfl
        | succ k => exact absurd (hsend post pre a hs (by omega)) id
      -- the source has closed
      have hsrc : n.srcClosed = true := by
        cases hsc : n.srcClosed with
        | true => rfl
        | false =>
          exfalso
          by_cases ht : n.todo = 0
          · exact hstuck _ (.srcDone n hsc (Or.inl ht))
          · cases hst : n.stages with
            | nil => rw [hst] at hwm; simp at hwm
            | cons a post =>
              have ham : a ∈ n.stages := by rw [hst]; simp
              have hai : a.idle = 0 := by
                cases hi : a.idle with
                | zero => rfl
                | succ k => exact absurd (.feed n a _ post hst (by omega) hsc (.fail a (by omega))) (hstuck _)
              have had : a.done > 0 := by
                have := (h.stg a ham).workers
                have := herr a ham
                have := hsend0 a ham
                omega
              have hchain := h.chain
              rw [hst] at hchain
              have := hchain.1 hec (hbuf a ham) had
              rw [hsc] at this; simp at this
      -- so every stage, one after the other, has wound down and closed its channels
      have hall : ∀ (l pre : List Stg), n.stages = pre ++ l → lastOut n.srcClosed pre = true →
          ∀ a ∈ l, a.quiet ∧ a.outClosed = true := by
        intro l
        induction l with
        | nil => intro _ _ _ a ha; simp at ha
        | cons x rest ih =>
          intro pre hs hin a ha
          have hxm : x ∈ n.stages := by rw [hs]; simp
          have hxi : x.idle = 0 := by
            cases hi : x.idle with
            | zero => rfl
            | succ k =>
              obtain ⟨n', hn'⟩ := idle_can_exit n pre rest x hs (by omega) (Or.inl hin)
              exact absurd hn' (hstuck _)
          have hxq : x.quiet := ⟨hxi, hsend0 x hxm, herr x hxm⟩
          have hxo : x.outClosed = true := by
            cases ho : x.outClosed with
            | true => rfl
            | false => exact absurd (.closeOut n pre x rest hs hxq ho) (hstuck _)
          rcases List.mem_cons.mp ha with rfl | ha
          · exact ⟨hxq, hxo⟩
          · exact ih (pre ++ [x]) (by rw [hs]; simp) (by rw [lastOut_snoc]; exact hxo) a ha
      have := hall n.stages [] (by simp) (by simpa [lastOut] using hsrc) w hwm
      exact hstuck _ (.recvClosed n wpre w wpost hws hww this.2 (hbuf w hwm))
  refine ⟨hret, ?_⟩
  have hc := h.ret hret
  intro a ha
  obtain ⟨pre, post, hs⟩ := mem_split ha
  refine ⟨?_, ?_, ?_⟩
  · cases hi : a.idle with
    | zero => rfl
    | succ k =>
      obtain ⟨n', hn'⟩ := idle_can_exit n pre post a hs (by omega) (Or.inr hc)
      exact absurd hn' (hstuck _)
  · cases hsd : a.send with
    | zero => rfl
    | succ k => exact absurd (.sendGiveUp n pre a post hs (by omega) hc) (hstuck _)
  · cases he : a.err with
    | zero => rfl
    | succ k => exact absurd (.errGiveUp n pre a post hs (by omega) hc) (hstuck _)

end Gtree.Net
