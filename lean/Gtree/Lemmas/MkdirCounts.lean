import Gtree.Lemmas.MkdirVerify
/-
  The dry-run counts of a root are the numbers of node paths Mkdir creates as files / directories,
  and those paths are pairwise different.
-/
namespace Gtree

theorem pathsOf_nodup (exts : List Bytes) : ∀ (ks : List T) (Q : List Bytes), GoodList Q → AllGoodL ks → DistinctL ks →
    ((pathsOf exts Q ks).map (fun e => key e.1)).Nodup
  | [], _, _, _, _ => by simp [pathsOf]
  | T.mk n sub :: rest, Q, hQ, hg, hd => by
    rw [AllGoodL, AllGoodT] at hg
    obtain ⟨⟨hn, hgsub⟩, hgrest⟩ := hg
    rw [DistinctL] at hd
    obtain ⟨hne, hdt, hdrest⟩ := hd
    rw [DistinctT] at hdt
    have hQn : GoodList (Q ++ [n]) := goodList_snoc hQ hn
    have ih1 := pathsOf_nodup exts sub (Q ++ [n]) hQn hgsub hdt
    have ih2 := pathsOf_nodup exts rest Q hQ hgrest hdrest
    have hself : (Q ++ [n]) = Q ++ n :: [] := rfl
    -- shapes
    have shSub : ∀ e ∈ pathsOf exts (Q ++ [n]) sub, GoodList e.1 ∧ ∃ tail, e.1 = Q ++ n :: tail ∧ ∃ x t', e.1 = (Q ++ [n]) ++ x :: t' := by
      intro e he
      obtain ⟨hge, k, _, tail, ht⟩ := pathsOf_shape exts sub (Q ++ [n]) hQn hgsub e he
      exact ⟨hge, k.name :: tail, by rw [ht]; simp, k.name, tail, ht⟩
    have shRest : ∀ e ∈ pathsOf exts Q rest, GoodList e.1 ∧ ∃ y tb, e.1 = Q ++ y :: tb ∧ y ≠ n := by
      intro e he
      obtain ⟨hge, k, hk, tail, ht⟩ := pathsOf_shape exts rest Q hQ hgrest e he
      exact ⟨hge, k.name, tail, ht, by simpa [T.name] using hne k hk⟩
    simp only [pathsOf, List.map_cons, List.map_append, List.cons_append]
    rw [List.nodup_cons, List.nodup_append]
    refine ⟨?_, ih1, ih2, ?_⟩
    · intro hmem
      rcases List.mem_append.mp hmem with h | h
      · obtain ⟨e, he, hk⟩ := List.mem_map.mp h
        obtain ⟨hge, _, _, x, t', ht⟩ := shSub e he
        have := key_ne_prefix hQn hge ht Q.length
        rw [take_snoc_eq] at this
        exact this hk
      · obtain ⟨e, he, hk⟩ := List.mem_map.mp h
        obtain ⟨hge, y, tb, ht, hyn⟩ := shRest e he
        exact key_ne_sibling hge hQn ht hself hyn hk
    · intro a ha b hb hab
      obtain ⟨e, he, rfl⟩ := List.mem_map.mp ha
      obtain ⟨e', he', rfl⟩ := List.mem_map.mp hb
      obtain ⟨hge, tail, ht, _⟩ := shSub e he
      obtain ⟨hge', y, tb, ht', hyn⟩ := shRest e' he'
      exact key_ne_sibling hge hge' ht ht' (fun h => hyn h.symm) hab

/-- the dry-run counters, on the element-list paths -/
theorem counts_growRoot (f : Fmt) (exts : List Bytes) (ts : List Bytes) (hts : GoodList ts) (t : T) (ht : AllGoodT t) :
    countFiles exts (growRoot f t) = ((pathsOf exts ts [t]).filter (fun e => e.2)).length ∧
    countDirs exts (growRoot f t) = ((pathsOf exts ts [t]).filter (fun e => !e.2)).length := by
  have h := seen_growRoot f exts ts hts t ht
  have hf : ∀ (p : Bool → Bool), ((growRoot f t).filter (fun v => p (isFileNode exts v.name v.hasChild))).length
      = ((pathsOf exts ts [t]).filter (fun e => p e.2)).length := by
    intro p
    have h1 : ((growRoot f t).filter (fun v => p (isFileNode exts v.name v.hasChild))).length
        = (((growRoot f t).map (seen exts (key ts))).filter (fun x => p x.2)).length := by
      rw [List.filter_map, List.length_map]; rfl
    have h2 : ((pathsOf exts ts [t]).filter (fun e => p e.2)).length
        = (((pathsOf exts ts [t]).map seenSpec).filter (fun x => p x.2)).length := by
      rw [List.filter_map, List.length_map]; rfl
    rw [h1, h2, h]
  exact ⟨hf id, hf not⟩

end Gtree
