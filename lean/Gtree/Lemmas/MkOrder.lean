import Gtree.Model.MkOps
import Gtree.Lemmas.MkdirExact
/-
  The roots of a forest can be created in any order (massive mode): under the hypotheses of exactness the
  per-root "exists already?" checks all pass, every root is created, and the resulting file system is,
  path for path, the one the simple mode produces.
-/
namespace Gtree

theorem mkKids_append (exts : List Bytes) (Q : List Bytes) : ∀ (a b : List T) (fs : FS),
    mkKids exts Q fs (a ++ b) = (match mkKids exts Q fs a with
      | (fs1, some e) => (fs1, some e)
      | (fs1, none) => mkKids exts Q fs1 b)
  | [], b, fs => by simp [mkKids]
  | t :: a, b, fs => by
    simp only [List.cons_append, mkKids]
    cases mkTree exts Q fs t with
    | mk fs1 e1 =>
      cases e1 with
      | some e => rfl
      | none => exact mkKids_append exts Q a b fs1

theorem pathsOf_append (exts : List Bytes) (Q : List Bytes) : ∀ (a b : List T),
    pathsOf exts Q (a ++ b) = pathsOf exts Q a ++ pathsOf exts Q b
  | [], b => by simp [pathsOf]
  | T.mk n sub :: a, b => by
    simp only [List.cons_append, pathsOf, pathsOf_append exts Q a b, List.append_assoc]

theorem mem_pathsOf_perm (exts : List Bytes) (Q : List Bytes) {a b : List T} (h : a.Perm b) (e : List Bytes × Bool) :
    e ∈ pathsOf exts Q a ↔ e ∈ pathsOf exts Q b := by
  induction h with
  | nil => exact Iff.rfl
  | cons x _ ih =>
    cases x with
    | mk n sub =>
      simp only [pathsOf, List.mem_cons, List.mem_append, ih]
  | swap x y l =>
    cases x with
    | mk n sub =>
      cases y with
      | mk m sub2 =>
        simp only [pathsOf, List.mem_cons, List.mem_append]
        constructor <;> (intro h; rcases h with (h | h) | (h | h) | h <;> simp [h])
  | trans _ _ ih1 ih2 => exact ih1.trans ih2

theorem allGoodL_append : ∀ (a b : List T), AllGoodL (a ++ b) ↔ AllGoodL a ∧ AllGoodL b
  | [], b => by simp [AllGoodL]
  | t :: a, b => by
    simp only [List.cons_append, AllGoodL, allGoodL_append a b, and_assoc]

theorem allGoodL_perm {a b : List T} (h : a.Perm b) : AllGoodL a ↔ AllGoodL b := by
  induction h with
  | nil => exact Iff.rfl
  | cons x _ ih => simp only [AllGoodL, ih]
  | swap x y l =>
    simp only [AllGoodL]
    constructor <;> (intro h; exact ⟨h.2.1, h.1, h.2.2⟩)
  | trans _ _ ih1 ih2 => exact ih1.trans ih2

theorem distinctL_perm {a b : List T} (h : a.Perm b) : DistinctL a ↔ DistinctL b := by
  induction h with
  | nil => exact Iff.rfl
  | @cons x l1 l2 hp ih =>
    simp only [DistinctL, ih]
    constructor
    · intro ⟨h1, h2, h3⟩
      exact ⟨fun u hu => h1 u (hp.symm.subset hu), h2, h3⟩
    · intro ⟨h1, h2, h3⟩
      exact ⟨fun u hu => h1 u (hp.subset hu), h2, h3⟩
  | swap x y l =>
    simp only [DistinctL, List.mem_cons]
    constructor
    · intro ⟨h1, h2, h3, h4, h5⟩
      refine ⟨?_, h4, ?_, h2, h5⟩
      · intro u hu
        rcases hu with hu | hu
        · rw [hu]; exact fun e => h1 x (Or.inl rfl) e.symm
        · exact h3 u hu
      · intro u hu; exact h1 u (Or.inr hu)
    · intro ⟨h1, h2, h3, h4, h5⟩
      refine ⟨?_, h4, ?_, h2, h5⟩
      · intro u hu
        rcases hu with hu | hu
        · rw [hu]; exact fun e => h1 y (Or.inl rfl) e.symm
        · exact h3 u hu
      · intro u hu; exact h1 u (Or.inr hu)
  | trans _ _ ih1 ih2 => exact ih1.trans ih2

/-- a prefix of a forest with distinct sibling names has distinct sibling names, and the names of the
    rest differ from its names -/
theorem distinctL_append : ∀ (a b : List T), DistinctL (a ++ b) →
    DistinctL a ∧ DistinctL b ∧ ∀ x ∈ a, ∀ y ∈ b, y.name ≠ x.name
  | [], b, h => ⟨trivial, h, by simp⟩
  | t :: a, b, h => by
    simp only [List.cons_append, DistinctL] at h
    obtain ⟨h1, h2, h3⟩ := h
    obtain ⟨ha, hb, hab⟩ := distinctL_append a b h3
    refine ⟨⟨fun u hu => h1 u (by simp [hu]), h2, ha⟩, hb, ?_⟩
    intro x hx y hy
    simp only [List.mem_cons] at hx
    rcases hx with rfl | hx
    · exact h1 y (by simp [hy])
    · exact hab x hx y hy

/-- Stat says "does not exist" about a good path that is absent and none of whose proper prefixes is a file -/
theorem stat_go_notExist (fs : FS) : ∀ (l : List Bytes) (last : Bytes),
    (∀ q ∈ l, lastTooLong q = false ∧ ∀ n, fs.kindOf q ≠ some (.file n)) → lastTooLong last = false → fs.kindOf last = none →
    FS.stat.go fs (l ++ [last]) = .error .notExist
  | [], last, _, hl, hk => by simp [FS.stat.go, hl, hk]
  | q :: l, last, h, hl, hk => by
    obtain ⟨hq1, hq2⟩ := h q (by simp)
    have ih := stat_go_notExist fs l last (fun x hx => h x (by simp [hx])) hl hk
    cases hl' : l ++ [last] with
    | nil => simp at hl'
    | cons q2 qs =>
      simp only [List.cons_append, hl', FS.stat.go, hq1, Bool.false_eq_true, if_false]
      cases hkq : fs.kindOf q with
      | none => rfl
      | some k =>
        cases k with
        | dir => simp only; rw [← hl']; exact ih
        | file n => exact absurd hkq (hq2 n)

theorem stat_notExist (fs : FS) (es : List Bytes) (x : Bytes) (hg : GoodList (es ++ [x]))
    (hes : GoodList es)
    (hnf : ∀ i < es.length, notFile fs (key (es.take (i + 1))))
    (habs : fs.lookup (key (es ++ [x])) = none) :
    fs.stat (key (es ++ [x])) = .error .notExist := by
  simp only [FS.stat, hasNul_key hg, isAmbient_key hg, Bool.false_eq_true, if_false]
  rw [prefixesOf_key hg]
  have hlen : (es ++ [x]).length = es.length + 1 := by simp
  rw [hlen, List.range_succ, List.map_append]
  simp only [List.map_cons, List.map_nil]
  have hlast : (es ++ [x]).take (es.length + 1) = es ++ [x] := by
    rw [List.take_of_length_le (by simp)]
  rw [hlast]
  apply stat_go_notExist
  · intro q hq
    simp only [List.mem_map, List.mem_range] at hq
    obtain ⟨i, hi, rfl⟩ := hq
    have htk : (es ++ [x]).take (i + 1) = es.take (i + 1) := by
      rw [List.take_append_of_le_length (by omega)]
    rw [htk]
    have hgt := goodList_take hes i
    refine ⟨lastTooLong_key hgt, ?_⟩
    intro n
    rw [kindOf_key hgt]
    exact hnf i hi n
  · exact lastTooLong_key hg
  · rw [kindOf_key hg]; exact habs


/-- the state the roots created so far leave: prefixes of the target are not files, a root not yet created is absent -/
theorem after_done (f : Fmt) (exts : List Bytes) (ts : List Bytes) (hts : GoodList ts) (fs : FS)
    (done : List T) (r : T) (hgd : AllGoodL done) (hgr : AllGoodT r) (hdd : DistinctL done)
    (hnames : ∀ x ∈ done, r.name ≠ x.name)
    (hnf : ∀ i < ts.length, notFile fs (key (ts.take (i + 1))))
    (habsd : ∀ e ∈ pathsOf exts ts done, fs.lookup (key e.1) = none)
    (habsr : fs.lookup (key (ts ++ [r.name])) = none) :
    anyRootExists (mkKids exts ts fs done).1 (key ts) [growRoot f r] = false := by
  obtain ⟨_, hex⟩ := mkKids_exact exts done ts fs hts hgd hdd hnf habsd
  have hrn : GoodElem r.name := by cases r with | mk n sub => rw [AllGoodT] at hgr; exact hgr.1
  have hgood : GoodList (ts ++ [r.name]) := goodList_snoc hts hrn
  -- the prefixes of the target are still not files
  have hnf' : ∀ i < ts.length, notFile (mkKids exts ts fs done).1 (key (ts.take (i + 1))) := by
    intro i hi
    cases hl : fs.lookup (key (ts.take (i + 1))) with
    | some k =>
      have := hex.keep i hi k hl
      intro n hn
      rw [this] at hn
      exact hnf i hi n (by rw [hl, hn])
    | none =>
      by_cases hd : done = []
      · subst hd
        simp only [mkKids]
        exact notFile_of_none hl
      · exact notFile_of_dir (hex.make hd i hi hl)
  -- the root is still absent
  have habs' : (mkKids exts ts fs done).1.lookup (key (ts ++ [r.name])) = none := by
    rw [hex.frame (key (ts ++ [r.name]))]
    · exact habsr
    · intro e he
      obtain ⟨hge, k, hk, tail, hshape⟩ := pathsOf_shape exts done ts hts hgd e he
      exact (key_ne_sibling (Q := ts) hgood hge (x := r.name) (ta := []) rfl hshape (hnames k hk))
    · intro i hi
      exact key_ne_prefix hts hgood (x := r.name) (tail := []) rfl i
  have hstat := stat_notExist (mkKids exts ts fs done).1 ts r.name hgood hts hnf' habs'
  have hfull : filepathJoin [key ts, r.name] = key (ts ++ [r.name]) := by
    have := filepathJoin_key ts [r.name] hts.1 (by simp) (goodList_elems hts) (by simpa using hrn.1)
    simpa [joinSlash] using this
  cases r with
  | mk n sub =>
    simp only [anyRootExists, growRoot, List.any_cons, List.any_nil, Bool.or_false, List.head?_cons, rootExists]
    simp only [T.name] at hfull hstat
    rw [hfull, hstat]

/-- creating the roots one after the other, each after its own exists-check, is the tree recursion over the forest -/
theorem mkdirRootsEach_forest (f : Fmt) (exts : List Bytes) (ts : List Bytes) (hts : GoodList ts) (fs : FS)
    (hnf : ∀ i < ts.length, notFile fs (key (ts.take (i + 1)))) :
    ∀ (todo done : List T), AllGoodL (done ++ todo) → DistinctL (done ++ todo) →
      (∀ e ∈ pathsOf exts ts (done ++ todo), fs.lookup (key e.1) = none) →
      mkdirRootsEach (key ts) exts (mkKids exts ts fs done).1 (todo.map (growRoot f))
        = ((mkKids exts ts fs (done ++ todo)).1, none)
  | [], done, _, _, _ => by simp [mkdirRootsEach]
  | r :: todo, done, hg, hd, habs => by
    have hg' : AllGoodL ((done ++ [r]) ++ todo) := by simpa using hg
    have hd' : DistinctL ((done ++ [r]) ++ todo) := by simpa using hd
    have habs' : ∀ e ∈ pathsOf exts ts ((done ++ [r]) ++ todo), fs.lookup (key e.1) = none := by simpa using habs
    have ih := mkdirRootsEach_forest f exts ts hts fs hnf todo (done ++ [r]) hg' hd' habs'
    obtain ⟨hgd, hgrt⟩ := (allGoodL_append done (r :: todo)).mp hg
    have hgr : AllGoodT r := by rw [AllGoodL] at hgrt; exact hgrt.1
    obtain ⟨hdd, _, hnames⟩ := distinctL_append done (r :: todo) hd
    have hgdr : AllGoodL (done ++ [r]) := ((allGoodL_append (done ++ [r]) todo).mp hg').1
    have hddr : DistinctL (done ++ [r]) := (distinctL_append (done ++ [r]) todo hd').1
    have habsdr : ∀ e ∈ pathsOf exts ts (done ++ [r]), fs.lookup (key e.1) = none := by
      intro e he
      apply habs'
      rw [pathsOf_append]
      exact List.mem_append_left _ he
    have habsd : ∀ e ∈ pathsOf exts ts done, fs.lookup (key e.1) = none := by
      intro e he
      apply habsdr
      rw [pathsOf_append]
      exact List.mem_append_left _ he
    have habsr : fs.lookup (key (ts ++ [r.name])) = none := by
      cases r with
      | mk n sub =>
        apply habsdr (ts ++ [n], isFileNode exts n (!sub.isEmpty))
        rw [pathsOf_append]
        apply List.mem_append_right
        simp [pathsOf]
    -- the exists-check of this root passes
    have hchk := after_done f exts ts hts fs done r hgd hgr hdd (fun x hx => hnames x hx r (by simp)) hnf habsd habsr
    -- its creation is the tree recursion, and succeeds
    obtain ⟨hokd, _⟩ := mkKids_exact exts done ts fs hts hgd hdd hnf habsd
    obtain ⟨hokdr, _⟩ := mkKids_exact exts (done ++ [r]) ts fs hts hgdr hddr hnf habsdr
    have happ := mkKids_append exts ts done [r] fs
    cases hmd : mkKids exts ts fs done with
    | mk fsd ed =>
      rw [hmd] at hokd hchk happ
      simp only at hokd
      subst hokd
      simp only at happ
      simp only [List.map_cons, mkdirRootsEach, hchk, Bool.false_eq_true, if_false]
      rw [mkNodes_growRoot f exts ts hts r hgr fsd, ← happ]
      cases hmr : mkKids exts ts fs (done ++ [r]) with
      | mk fsr er =>
        rw [hmr] at hokdr ih
        simp only at hokdr
        subst hokdr
        simp only
        rw [ih]
        simp

/-- two exact results for forests with the same node paths agree path for path -/
theorem exact_unique (exts : List Bytes) (Q : List Bytes) (ks ks' : List T) (fs a b : FS)
    (ha : Exact exts Q ks fs a) (hb : Exact exts Q ks' fs b)
    (hmem : ∀ e, e ∈ pathsOf exts Q ks ↔ e ∈ pathsOf exts Q ks') (hne : ks ≠ []) (hne' : ks' ≠ []) :
    ∀ p, a.lookup p = b.lookup p := by
  intro p
  by_cases h1 : ∃ e ∈ pathsOf exts Q ks, p = key e.1
  · obtain ⟨e, he, rfl⟩ := h1
    rw [ha.nodes e he, hb.nodes e ((hmem e).mp he)]
  · by_cases h2 : ∃ i, i < Q.length ∧ p = key (Q.take (i + 1))
    · obtain ⟨i, hi, rfl⟩ := h2
      cases hl : fs.lookup (key (Q.take (i + 1))) with
      | some k => rw [ha.keep i hi k hl, hb.keep i hi k hl]
      | none => rw [ha.make hne i hi hl, hb.make hne' i hi hl]
    · have f1 : ∀ e ∈ pathsOf exts Q ks, p ≠ key e.1 := fun e he hp => h1 ⟨e, he, hp⟩
      have f2 : ∀ i < Q.length, p ≠ key (Q.take (i + 1)) := fun i hi hp => h2 ⟨i, hi, hp⟩
      have f1' : ∀ e ∈ pathsOf exts Q ks', p ≠ key e.1 := fun e he => f1 e ((hmem e).mpr he)
      rw [ha.frame p f1 f2, hb.frame p f1' f2]

end Gtree
