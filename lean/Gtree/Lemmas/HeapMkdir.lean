import Gtree.Generated.Heap.Mkdir
import Gtree.Lemmas.HeapRepr
import Gtree.Lemmas.MkBridge
/-
  The mkdirer of the source (simple_tree_mkdirer.go with file_considerer.go), translated over the heap and the
  file-system model by /verif/translate (heap mode), IS the model's mkdirer: on every heap that holds a tree, its
  recursion over the children performs, in pre-order, exactly the `MkdirAll` / `Create` operations the model's
  `mkNodes` performs on what the walker reads from the nodes, stops at the first refusal, and returns that error.
-/
namespace Gtree.SrcH
open Gtree Gtree.Go

/-- errors of the model's mkdirer as the errors of the translated source -/
def osErr (e : Option FErr) : Option Src.Err := e.map Src.Err.os

theorem isFile_heap (h : Heap) (fc : fileConsiderer) (p : Ptr) :
    fileConsiderer.isFile h fc p = isFileNode fc.extensions (h p).name (Node.hasChild h p) := by
  have key : ∀ (exts : List Bytes),
      (match Go.forRange exts () (fun e (st_ : Unit) =>
          if (Go.strings_HasSuffix (h p).name e) then (Go.Ctl.ret true : Go.Ctl Unit Bool) else Go.Ctl.next ()) with
        | Go.Ctl.ret r_ => r_
        | Go.Ctl.brk _ | Go.Ctl.next _ => false) = exts.any (fun e => hasSuffix (h p).name e) := by
    intro exts
    induction exts with
    | nil => simp [Go.forRange]
    | cons e es ih =>
      simp only [Go.forRange, List.any_cons]
      by_cases he : Go.strings_HasSuffix (h p).name e = true
      · have : hasSuffix (h p).name e = true := he
        simp [he, this]
      · have : hasSuffix (h p).name e = false := by
          cases hh : hasSuffix (h p).name e
          · rfl
          · exact absurd hh he
        simp only [he, this, Bool.false_or]
        exact ih
  unfold fileConsiderer.isFile isFileNode
  cases hc : Node.hasChild h p
  · simp only [Bool.false_eq_true, if_false, Bool.not_false, Bool.true_and]
    exact key fc.extensions
  · simp

theorem mkdirAll_heap (h : Heap) (fs : FS) (dm : defaultMkdirerSimple) (d : Bytes) :
    defaultMkdirerSimple.mkdirAll h fs dm d = ((fs.mkdirAll d).1, osErr (fs.mkdirAll d).2) := rfl

theorem mkfile_heap (h : Heap) (fs : FS) (dm : defaultMkdirerSimple) (d : Bytes) :
    defaultMkdirerSimple.mkfile h fs dm d = ((fs.create d).1, osErr (fs.create d).2) := by
  unfold defaultMkdirerSimple.mkfile Go.os_Create osErr
  cases (fs.create d).2 <;> simp

/-- the body of the loop of `makeDirectoriesAndFiles` over the children -/
def mkBody (dm : defaultMkdirerSimple) (h : Heap) (fuel : Nat) : Ptr → FS → Go.Ctl FS (Option (FS × Option Src.Err)) :=
  fun child st_ =>
    match (defaultMkdirerSimple.makeDirectoriesAndFiles fuel h st_ dm child) with
    | none => Go.Ctl.ret none
    | some r_ =>
      match r_ with
      | (fs_, err) => if (Option.isSome err) then Go.Ctl.ret (some (fs_, err)) else Go.Ctl.next fs_

theorem mk_unfold (fuel : Nat) (h : Heap) (fs : FS) (dm : defaultMkdirerSimple) (cur : Ptr) :
    defaultMkdirerSimple.makeDirectoriesAndFiles (fuel + 1) h fs dm cur =
      (if (fileConsiderer.isFile h dm.fileConsiderer cur) then
        (let dir := (Go.strings_TrimSuffix (Node.path h cur) (h cur).name)
         match (defaultMkdirerSimple.mkdirAll h fs dm (Go.filepath_Join [dm.targetDir, dir])) with
         | (fs_, err) =>
           if (Option.isSome err) then some (fs_, err)
           else
             match (defaultMkdirerSimple.mkfile h fs_ dm (Go.filepath_Join [dm.targetDir, (Node.path h cur)])) with
             | (fs_, r0_) => some (fs_, r0_))
      else
        if (!(Node.hasChild h cur)) then
          (match (defaultMkdirerSimple.mkdirAll h fs dm (Go.filepath_Join [dm.targetDir, (Node.path h cur)])) with
           | (fs_, r0_) => some (fs_, r0_))
        else
          match Go.forRange (h cur).children fs (mkBody dm h fuel) with
          | Go.Ctl.ret r_ => r_
          | Go.Ctl.brk st_ | Go.Ctl.next st_ => some (st_, none)) := by
  rfl

theorem hasChild_repr (h : Heap) (n : Bytes) (ks : List T) (p par : Ptr) (lvl : Nat)
    (hr : Repr h (.mk n ks) p par lvl) : Node.hasChild h p = !ks.isEmpty := by
  rw [Repr] at hr
  have hlen := readKids_length_eq h ks _ p (lvl + 1) hr.2.2.2.2
  simp only [Node.hasChild, Go.len]
  cases ks with
  | nil => simp at hlen; simp [hlen]
  | cons k ks' =>
    have : 0 < ((h p).children).length := by rw [hlen]; simp
    simp; omega

mutual
theorem mk_node (dm : defaultMkdirerSimple) (h : Heap) : ∀ (t : T) (fs : FS) (p par : Ptr) (lvl fuel : Nat),
    Repr h t p par lvl → t.size ≤ fuel →
    defaultMkdirerSimple.makeDirectoriesAndFiles fuel h fs dm p =
      some ((mkNodes dm.targetDir dm.fileConsiderer.extensions fs (readNode h t p lvl)).1,
            osErr (mkNodes dm.targetDir dm.fileConsiderer.extensions fs (readNode h t p lvl)).2)
  | .mk n ks, fs, p, par, lvl, fuel, hr, hf => by
    have hhc := hasChild_repr h n ks p par lvl hr
    have hsz : T.size (.mk n ks) = 1 + sizeList ks := by simp [T.size]
    rw [hsz] at hf
    rw [Repr] at hr
    obtain ⟨_, _, _, _, hk⟩ := hr
    cases fuel with
    | zero => omega
    | succ fuel =>
      rw [mk_unfold, readNode, mkNodes, isFile_heap]
      simp only [Go.strings_TrimSuffix, Go.filepath_Join, mkdirAll_heap, mkfile_heap]
      by_cases hfile : isFileNode dm.fileConsiderer.extensions (h p).name (Node.hasChild h p) = true
      · simp only [hfile, if_true]
        have : trimSuffix (Node.path h p) (h p).name
            = (if (h p).name.isSuffixOf (Node.path h p) then (Node.path h p).take ((Node.path h p).length - (h p).name.length)
               else Node.path h p) := rfl
        rw [this]
        rcases hm : fs.mkdirAll (filepathJoin [dm.targetDir,
            if (h p).name.isSuffixOf (Node.path h p) then (Node.path h p).take ((Node.path h p).length - (h p).name.length)
            else Node.path h p]) with ⟨fs1, e1⟩
        cases e1 with
        | some e => simp [osErr]
        | none =>
          simp only [osErr, Option.map_none, Option.isSome_none, Bool.false_eq_true, if_false]
          rcases hc : fs1.create (filepathJoin [dm.targetDir, Node.path h p]) with ⟨fs2, e2⟩
          cases e2 with
          | some e => simp
          | none =>
            -- a file has no children: nothing follows in its subtree
            have hnc : Node.hasChild h p = false := by
              unfold isFileNode at hfile
              cases hx : Node.hasChild h p <;> simp_all
            have hks : ks = [] := by
              rw [hhc] at hnc
              cases ks <;> simp_all
            subst hks
            have hch : (h p).children = [] := by rw [ReprKids] at hk; exact hk
            simp [hch, readKids, mkNodes]
      · have hfile' : isFileNode dm.fileConsiderer.extensions (h p).name (Node.hasChild h p) = false := by
          simpa using hfile
        simp only [hfile', Bool.false_eq_true, if_false]
        by_cases hnc : Node.hasChild h p = true
        · simp only [hnc, Bool.not_true, Bool.false_eq_true, if_false]
          have hkids := mk_kids dm h ks fs (h p).children p (lvl + 1) fuel hk (by omega)
          obtain ⟨hrun⟩ := hkids
          rw [hrun]
          rcases mkNodes dm.targetDir dm.fileConsiderer.extensions fs (readKids h ks (h p).children (lvl + 1)) with ⟨fs1, e1⟩
          cases e1 <;> simp [osErr]
        · have hnc' : Node.hasChild h p = false := by simpa using hnc
          have hks : ks = [] := by
            rw [hhc] at hnc'
            cases ks <;> simp_all
          subst hks
          have hch : (h p).children = [] := by rw [ReprKids] at hk; exact hk
          simp only [hnc', Bool.not_false, if_true]
          rcases hm : fs.mkdirAll (filepathJoin [dm.targetDir, Node.path h p]) with ⟨fs1, e1⟩
          cases e1 <;> simp [osErr, hch, readKids, mkNodes]
theorem mk_kids (dm : defaultMkdirerSimple) (h : Heap) : ∀ (ts : List T) (fs : FS) (cs : List Ptr) (par : Ptr) (lvl fuel : Nat),
    ReprKids h ts cs par lvl → sizeList ts ≤ fuel →
    Nonempty (Go.forRange cs fs (mkBody dm h fuel) =
      (match mkNodes dm.targetDir dm.fileConsiderer.extensions fs (readKids h ts cs lvl) with
       | (fs1, some e) => Go.Ctl.ret (some (fs1, some (Src.Err.os e)))
       | (fs1, none) => Go.Ctl.next fs1))
  | [], fs, cs, par, lvl, fuel, hr, _ => by
    rw [ReprKids] at hr; subst hr
    exact ⟨by simp [Go.forRange, readKids, mkNodes]⟩
  | t :: ts, fs, cs, par, lvl, fuel, hr, hf => by
    rw [ReprKids] at hr
    obtain ⟨c, cs', rfl, hrc, hrs⟩ := hr
    have hsz : sizeList (t :: ts) = t.size + sizeList ts := by simp [sizeList]
    rw [hsz] at hf
    have h1 := mk_node dm h t fs c par lvl fuel hrc (by omega)
    refine ⟨?_⟩
    rw [Go.forRange, readKids, mkNodes_append]
    simp only [mkBody, h1]
    rcases mkNodes dm.targetDir dm.fileConsiderer.extensions fs (readNode h t c lvl) with ⟨fs1, e1⟩
    cases e1 with
    | some e => simp [osErr]
    | none =>
      simp only [osErr, Option.map_none, Option.isSome_none, Bool.false_eq_true, if_false]
      obtain ⟨h2⟩ := mk_kids dm h ts fs1 cs' par lvl fuel hrs (by omega)
      exact h2
end

/-! ### `mkdir(roots)`: the exists-check over all roots, then the roots in order -/

/-- what is read from each root of a forest held in the heap -/
def rootVisits (h : Heap) : List T → List Ptr → List (List Visit)
  | t :: ts, r :: rs => readNode h t r 1 :: rootVisits h ts rs
  | _, _ => []

/-- errors of the model's `mkdirRoots` as the errors of the translated source -/
def mkErrSrc : Option MkErr → Option Src.Err
  | none => none
  | some .exist => some Src.Err.ErrExistPath
  | some (.os e) => some (Src.Err.os e)

theorem exists_pred (fs : FS) (t x : Bytes) :
    (!Go.os_IsNotExist (Go.os_Stat fs (Go.filepath_Join [t, x]))) = rootExists fs t x := by
  unfold rootExists Go.os_Stat Go.filepath_Join
  cases fs.stat (filepathJoin [t, x]) with
  | error e => cases e <;> rfl
  | ok k => rfl

theorem forRange_any {α : Type} (P : α → Bool) : ∀ xs : List α,
    (match Go.forRange xs () (fun x (_ : Unit) => if P x then (Go.Ctl.ret true : Go.Ctl Unit Bool) else Go.Ctl.next ()) with
      | Go.Ctl.ret r_ => r_
      | Go.Ctl.brk _ | Go.Ctl.next _ => false) = xs.any P
  | [] => by simp [Go.forRange]
  | x :: xs => by
    simp only [Go.forRange, List.any_cons]
    cases hp : P x
    · simp only [Bool.false_eq_true, if_false, Bool.false_or]
      exact forRange_any P xs
    · simp

theorem anyRoot_visits (h : Heap) (fs : FS) (target : Bytes) : ∀ (ts : List T) (rs : List Ptr), ReprRoots h ts rs →
    anyRootExists fs target (rootVisits h ts rs) = rs.any (fun r => rootExists fs target (Node.path h r))
  | [], rs, hr => by
    have : rs = [] := hr
    subst this
    simp [rootVisits, anyRootExists]
  | .mk n ks :: ts, rs, hr => by
    obtain ⟨r, rs', rfl, _, hrs⟩ := hr
    have ih := anyRoot_visits h fs target ts rs' hrs
    unfold anyRootExists at ih ⊢
    simp only [rootVisits, List.any_cons, readNode, List.head?_cons, ih]

theorem isExistRoot_heap (dm : defaultMkdirerSimple) (h : Heap) (fs : FS) (ts : List T) (rs : List Ptr)
    (hr : ReprRoots h ts rs) :
    defaultMkdirerSimple.isExistRoot h fs dm rs = anyRootExists fs dm.targetDir (rootVisits h ts rs) := by
  rw [anyRoot_visits h fs dm.targetDir ts rs hr, ← forRange_any]
  unfold defaultMkdirerSimple.isExistRoot
  simp only [exists_pred]
  rfl

/-- the body of the loop of `mkdir` over the roots -/
def mkRootsBody (dm : defaultMkdirerSimple) (h : Heap) (fuel : Nat) : Ptr → FS → Go.Ctl FS (Option (FS × Option Src.Err)) :=
  fun root st_ =>
    match (defaultMkdirerSimple.makeDirectoriesAndFiles fuel h st_ dm root) with
    | none => Go.Ctl.ret none
    | some r_ =>
      match r_ with
      | (fs_, err) => if (Option.isSome err) then Go.Ctl.ret (some (fs_, err)) else Go.Ctl.next fs_

theorem mkRoots_loop (dm : defaultMkdirerSimple) (h : Heap) : ∀ (ts : List T) (fs : FS) (rs : List Ptr) (fuel : Nat),
    ReprRoots h ts rs → sizeList ts ≤ fuel →
    (match Go.forRange rs fs (mkRootsBody dm h fuel) with
      | Go.Ctl.ret r_ => r_
      | Go.Ctl.brk st_ | Go.Ctl.next st_ => some (st_, none)) =
      some ((mkdirRoots.go dm.targetDir dm.fileConsiderer.extensions fs (rootVisits h ts rs)).1,
            mkErrSrc (mkdirRoots.go dm.targetDir dm.fileConsiderer.extensions fs (rootVisits h ts rs)).2)
  | [], fs, rs, fuel, hr, _ => by
    have : rs = [] := hr
    subst this
    simp [Go.forRange, rootVisits, mkdirRoots.go, mkErrSrc]
  | t :: ts, fs, rs, fuel, hr, hf => by
    obtain ⟨r, rs', rfl, hrr, hrs⟩ := hr
    have hsz : sizeList (t :: ts) = t.size + sizeList ts := by simp [sizeList]
    rw [hsz] at hf
    have h1 := mk_node dm h t fs r 0 1 fuel hrr (by omega)
    rw [Go.forRange, rootVisits, mkdirRoots.go]
    simp only [mkRootsBody, h1]
    rcases mkNodes dm.targetDir dm.fileConsiderer.extensions fs (readNode h t r 1) with ⟨fs1, e1⟩
    cases e1 with
    | some e => simp [osErr, mkErrSrc]
    | none =>
      simp only [osErr, Option.map_none, Option.isSome_none, Bool.false_eq_true, if_false]
      exact mkRoots_loop dm h ts fs1 rs' fuel hrs (by omega)

/-- **`defaultMkdirerSimple.mkdir` of the source is the model's `mkdirRoots`**: for every heap that holds a forest,
    every file system, target and extension list, and every fuel above the forest's size — if a root exists already
    nothing is done and `ErrExistPath` is returned; otherwise the roots' `MkdirAll` / `Create` operations are performed
    in pre-order until the first refusal, whose error is returned. -/
theorem mkdir_heap (dm : defaultMkdirerSimple) (h : Heap) (ts : List T) (fs : FS) (rs : List Ptr) (fuel : Nat)
    (hr : ReprRoots h ts rs) (hf : sizeList ts ≤ fuel) :
    defaultMkdirerSimple.mkdir fuel h fs dm rs =
      some ((mkdirRoots fs dm.targetDir dm.fileConsiderer.extensions (rootVisits h ts rs)).1,
            mkErrSrc (mkdirRoots fs dm.targetDir dm.fileConsiderer.extensions (rootVisits h ts rs)).2) := by
  have hex := isExistRoot_heap dm h fs ts rs hr
  have hloop := mkRoots_loop dm h ts fs rs fuel hr hf
  unfold defaultMkdirerSimple.mkdir mkdirRoots
  rw [hex]
  cases anyRootExists fs dm.targetDir (rootVisits h ts rs)
  · simp only [Bool.false_eq_true, if_false]
    exact hloop
  · simp [mkErrSrc]

end Gtree.SrcH
