import Gtree.Lemmas.JsonString
/-
  Reading back a printed value: `parseValue fuel (j.print ++ rest) = some (j, rest)` whenever the fuel is at
  least the length of the printed text.
-/
namespace Gtree.Json

theorem quote_eq (s : List Char) : quote s = '"' :: (escape s ++ ['"']) := rfl

/-- a printed value starts with one of `n " [ {` -/
theorem print_head (j : J) : ∃ c tl, j.print = c :: tl ∧ (c = 'n' ∨ c = '"' ∨ c = '[' ∨ c = '{') := by
  cases j with
  | null => exact ⟨_, _, rfl, by simp⟩
  | str s => exact ⟨_, _, rfl, by simp⟩
  | arr xs => cases xs <;> exact ⟨_, _, rfl, by simp⟩
  | obj ms => cases ms <;> exact ⟨_, _, rfl, by simp⟩

theorem print_length_pos (j : J) : 0 < j.print.length := by
  obtain ⟨c, tl, h, _⟩ := print_head j
  simp [h]

mutual
theorem parse_print : ∀ (j : J) (fuel : Nat) (rest : List Char), j.print.length ≤ fuel →
    parseValue fuel (j.print ++ rest) = some (j, rest)
  | .null, fuel, rest, h => by
    cases fuel with
    | zero => simp [J.print] at h
    | succ f => simp [J.print, parseValue]
  | .str s, fuel, rest, h => by
    cases fuel with
    | zero => simp [J.print, quote] at h
    | succ f =>
      simp only [J.print, quote_eq, List.cons_append, List.append_assoc, parseValue]
      simp [parseStr_escape]
  | .arr .nil, fuel, rest, h => by
    cases fuel with
    | zero => simp [J.print] at h
    | succ f => simp [J.print, parseValue]
  | .arr (.cons x xs), fuel, rest, h => by
    cases fuel with
    | zero => simp [J.print] at h
    | succ f =>
      obtain ⟨c, tl, hc, hcc⟩ := print_head x
      have hx : x.print.length ≤ f := by simp [J.print] at h; omega
      have hxs : (JL.printTail xs).length ≤ f := by
        have := print_length_pos x
        simp [J.print] at h; omega
      have h1 := parse_print x f (JL.printTail xs ++ rest) hx
      have h2 := parse_printTail xs f rest hxs
      simp only [J.print, List.cons_append, List.append_assoc]
      rw [hc] at h1 ⊢
      have hne : c ≠ ']' := by rcases hcc with h | h | h | h <;> subst h <;> decide
      simp only [List.cons_append] at h1 ⊢
      rw [parseValue.eq_def]
      simp only []
      split
      · rename_i heq; injection heq with heq _; exact absurd heq hne
      · simp [h1, h2]
  | .obj .nil, fuel, rest, h => by
    cases fuel with
    | zero => simp [J.print] at h
    | succ f => simp [J.print, parseValue]
  | .obj (.cons k v ms), fuel, rest, h => by
    cases fuel with
    | zero => simp [J.print] at h
    | succ f =>
      have hv : v.print.length ≤ f := by simp [J.print] at h; omega
      have hms : (ML.printTail ms).length ≤ f := by
        have := print_length_pos v
        simp [J.print] at h; omega
      have h1 := parse_print v f (ML.printTail ms ++ rest) hv
      have h2 := parse_membersTail ms f rest hms
      simp only [J.print, quote_eq, List.cons_append, List.append_assoc, List.nil_append, parseValue]
      rw [parseStr_escape]
      simp [h1, h2]
theorem parse_printTail : ∀ (xs : JL) (fuel : Nat) (rest : List Char), (JL.printTail xs).length ≤ fuel →
    parseElems fuel (JL.printTail xs ++ rest) = some (xs, rest)
  | .nil, fuel, rest, h => by
    cases fuel with
    | zero => simp [JL.printTail] at h
    | succ f => simp [JL.printTail, parseElems]
  | .cons x xs, fuel, rest, h => by
    cases fuel with
    | zero => simp [JL.printTail] at h
    | succ f =>
      have hx : x.print.length ≤ f := by simp [JL.printTail] at h; omega
      have hxs : (JL.printTail xs).length ≤ f := by
        have := print_length_pos x
        simp [JL.printTail] at h; omega
      have h1 := parse_print x f (JL.printTail xs ++ rest) hx
      have h2 := parse_printTail xs f rest hxs
      simp only [JL.printTail, List.cons_append, List.append_assoc, parseElems]
      simp [h1, h2]
theorem parse_membersTail : ∀ (ms : ML) (fuel : Nat) (rest : List Char), (ML.printTail ms).length ≤ fuel →
    parseMembers fuel (ML.printTail ms ++ rest) = some (ms, rest)
  | .nil, fuel, rest, h => by
    cases fuel with
    | zero => simp [ML.printTail] at h
    | succ f => simp [ML.printTail, parseMembers]
  | .cons k v ms, fuel, rest, h => by
    cases fuel with
    | zero => simp [ML.printTail] at h
    | succ f =>
      have hv : v.print.length ≤ f := by simp [ML.printTail] at h; omega
      have hms : (ML.printTail ms).length ≤ f := by
        have := print_length_pos v
        simp [ML.printTail] at h; omega
      have h1 := parse_print v f (ML.printTail ms ++ rest) hv
      have h2 := parse_membersTail ms f rest hms
      simp only [ML.printTail, quote_eq, List.cons_append, List.append_assoc, List.nil_append, parseMembers]
      rw [parseStr_escape]
      simp [h1, h2]
end

end Gtree.Json
