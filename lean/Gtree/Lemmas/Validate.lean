import Gtree.Model.Api
namespace Gtree

theorem validateVisits_append (a b : List Visit) :
    validateVisits (a ++ b) = (match validateVisits a with | some e => some e | none => validateVisits b) := by
  induction a with
  | nil => simp [validateVisits]
  | cons v vs ih =>
    simp only [List.cons_append, validateVisits]
    cases validateVisit v with
    | some e => rfl
    | none => exact ih

theorem validateVisits_none_mem (vs : List Visit) (h : validateVisits vs = none) :
    ∀ v ∈ vs, validateVisit v = none := by
  induction vs with
  | nil => simp
  | cons v vs ih =>
    simp only [validateVisits] at h
    cases hv : validateVisit v with
    | some e => simp [hv] at h
    | none =>
      simp only [hv] at h
      intro w hw
      rcases List.mem_cons.mp hw with rfl | hw
      · exact hv
      · exact ih h w hw

theorem validateVisit_none_single (v : Visit) (h : validateVisit v = none) : singleElem v.name = true := by
  unfold validateVisit at h
  by_cases hs : singleElem v.name = true
  · exact hs
  · simp [hs] at h

theorem emit_ok_all (wf : WFault) : ∀ (cs : List Bytes) (i : Nat), (emit wf cs i).2 = false → (emit wf cs i).1 = cs.flatten
  | [], _, _ => by simp [emit]
  | c :: cs, i, h => by
    unfold emit at h ⊢
    by_cases hf : wf.failAt = some i
    · simp [hf] at h
    · simp only [hf] at h ⊢
      have hne : (wf.failAt == some i) = false := by simpa using hf
      simp only [hne, Bool.false_eq_true, if_false] at h ⊢
      have ih := emit_ok_all wf cs (i + 1) h
      simp [ih]

/-- `runRoots` returning no error has written every chunk of every root -/
theorem runRoots_ok_all (job : Job) (wf : WFault) :
    ∀ (roots : List T) (i : Nat), (runRoots job wf roots i).2.1 = none →
      (runRoots job wf roots i).1 = (roots.map job.chunks).flatten.flatten
  | [], _, _ => by simp [runRoots]
  | r :: rs, i, h => by
    unfold runRoots at h ⊢
    cases hv : (if job.validate then validateVisits (job.visits r) else none) with
    | some e => simp [hv] at h
    | none =>
      simp only [hv] at h ⊢
      cases hem : emit wf (job.chunks r) i with
      | mk acc failed =>
        simp only [hem] at h ⊢
        cases failed with
        | true => simp at h
        | false =>
          simp only [Bool.false_eq_true, if_false] at h ⊢
          have hacc : acc = (job.chunks r).flatten := by
            have := emit_ok_all wf (job.chunks r) i (by rw [hem])
            rw [hem] at this; exact this
          have ih := runRoots_ok_all job wf rs (i + (job.chunks r).length) h
          simp [ih, hacc]


/-- the roots the iterator path gets to see: all of them, or those completed before a generation error -/
def rootsOf (inp : Input) : List T :=
  if (generate inp).err.isNone then (generate inp).roots else (generate inp).done

theorem outputIter_eq (job : Job) (inp : Input) (wf : WFault) :
    outputIter job inp wf =
      (match runRoots job wf (rootsOf inp) 0 with
       | (w, some e, _) => ⟨w, some e⟩
       | (w, none, _) => ⟨w, (generate inp).err.map .gen⟩) := rfl

end Gtree
