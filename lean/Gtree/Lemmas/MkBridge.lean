import Gtree.Lemmas.MkTree
/-
  The model's `mkNodes` over the grown visits of a root (what simple_tree_mkdirer.go does, node by
  node, with the paths the grower computed) is the tree recursion `mkKids` over element lists.
-/
namespace Gtree

theorem cleanElems_valid_trailing (rooted : Bool) : ∀ (es stack : List Bytes), (∀ e ∈ es, Elem e) →
    cleanElems rooted (es ++ [[]]) stack = stack.reverse ++ es
  | [], stack, _ => by simp [cleanElems]
  | e :: es, stack, h => by
    obtain ⟨h1, h2, h3, _⟩ := h e (by simp)
    have he : e.isEmpty = false := by cases e <;> simp_all
    have hd : (e == [dot]) = false := by simpa using h2
    have hdd : (e == dotdot) = false := by simpa using h3
    simp only [List.cons_append, cleanElems, he, hd, hdd, Bool.or_self, Bool.false_eq_true, if_false]
    rw [cleanElems_valid_trailing rooted es (e :: stack) (fun x hx => h x (by simp [hx]))]
    simp

/-- `path.Clean` drops one trailing '/' after valid elements -/
theorem pathClean_trailing (es : List Bytes) (hne : es ≠ []) (hs : ∀ e ∈ es, Elem e) :
    pathClean (joinSlash es ++ [slash]) = joinSlash es := by
  have hjn : joinSlash es ≠ [] := joinSlash_ne_nil es hne (fun e he => (hs e he).1)
  have hhead := joinSlash_head es hs hne
  have hshape : joinSlash es ++ [slash] = joinSlash (es ++ [[]]) := by
    rw [joinSlash_append es [[]] hne (by simp)]; simp [joinSlash]
  unfold pathClean
  have h1 : (joinSlash es ++ [slash]).isEmpty = false := by simp
  have h2 : ((joinSlash es ++ [slash]).head? == some slash) = false := by
    cases h : joinSlash es with
    | nil => exact absurd h hjn
    | cons x xs => rw [h] at hhead; simpa using hhead
  simp only [h1, Bool.false_eq_true, if_false, h2]
  rw [hshape, splitSlash_joinSlash (es ++ [[]]) (by simp) (by
    intro e he
    rcases List.mem_append.mp he with he | he
    · exact (hs e he).2.2.2
    · simp only [List.mem_singleton] at he; subst he; simp)]
  rw [cleanElems_valid_trailing false es [] hs]
  have h3 : (joinSlash es).isEmpty = false := by cases h : joinSlash es <;> simp_all
  simp [h3]

/-- joining the target with a directory path that still carries its trailing '/' -/
theorem filepathJoin_trailing (ts es : List Bytes) (ht : ts ≠ []) (he : es ≠ [])
    (hts : ∀ e ∈ ts, Elem e) (hes : ∀ e ∈ es, Elem e) :
    filepathJoin [joinSlash ts, joinSlash es ++ [slash]] = joinSlash (ts ++ es) := by
  unfold filepathJoin pathJoin
  have h1 : (joinSlash ts).isEmpty = false := by
    have := joinSlash_ne_nil ts ht (fun e h => (hts e h).1)
    cases h : joinSlash ts <;> simp_all
  have h2 : (joinSlash es ++ [slash]).isEmpty = false := by simp
  simp only [List.filter_cons, h1, h2, Bool.not_false, if_true, List.filter_nil, List.isEmpty_cons, Bool.false_eq_true, if_false]
  have hj : joinSlash [joinSlash ts, joinSlash es ++ [slash]] = joinSlash (ts ++ es) ++ [slash] := by
    rw [joinSlash_append ts es ht he]; simp [joinSlash]
  rw [hj]
  exact pathClean_trailing (ts ++ es) (by simp [ht]) (by
    intro e h
    rcases List.mem_append.mp h with h | h
    · exact hts e h
    · exact hes e h)

/-- joining the target with nothing: the target itself -/
theorem filepathJoin_empty (ts : List Bytes) (ht : ts ≠ []) (hts : ∀ e ∈ ts, Elem e) :
    filepathJoin [joinSlash ts, []] = joinSlash ts := by
  unfold filepathJoin pathJoin
  have h1 : (joinSlash ts).isEmpty = false := by
    have := joinSlash_ne_nil ts ht (fun e h => (hts e h).1)
    cases h : joinSlash ts <;> simp_all
  simp only [List.filter_cons, h1, Bool.not_false, if_true, List.isEmpty_nil, Bool.not_true, Bool.false_eq_true, if_false,
    List.filter_nil, List.isEmpty_cons]
  simpa [joinSlash] using pathClean_joinSlash ts ht hts

theorem filepathJoin_key (ts es : List Bytes) (ht : ts ≠ []) (he : es ≠ [])
    (hts : ∀ e ∈ ts, Elem e) (hes : ∀ e ∈ es, Elem e) :
    filepathJoin [joinSlash ts, joinSlash es] = joinSlash (ts ++ es) := by
  rw [filepathJoin_valid ts es ht he hts hes, joinSlash_append ts es ht he]

theorem trimSuffix_self (n : Bytes) : trimSuffix n n = [] := by
  unfold trimSuffix
  have : n.isSuffixOf n = true := by simp
  simp [this]

theorem trimSuffix_key (P : List Bytes) (n : Bytes) (hP : P ≠ []) :
    trimSuffix (joinSlash (P ++ [n])) n = joinSlash P ++ [slash] := by
  rw [joinSlash_append P [n] hP (by simp)]
  unfold trimSuffix
  have hs : n.isSuffixOf (joinSlash P ++ slash :: joinSlash [n]) = true := by
    simp only [joinSlash, List.isSuffixOf_iff_suffix]
    exact ⟨joinSlash P ++ [slash], by simp⟩
  rw [if_pos hs]
  simp only [joinSlash]
  have : joinSlash P ++ slash :: n = (joinSlash P ++ [slash]) ++ n := by simp
  rw [this]
  exact List.take_left' (by simp; omega)

/-- the element list of a node's parent below the target -/
def parentOf (ts : List Bytes) (r : Bytes) (anc : List Anc) : List Bytes := ts ++ r :: anc.reverse.map (·.1)

theorem parentOf_cons (ts : List Bytes) (r n : Bytes) (b : Bool) (anc : List Anc) :
    parentOf ts r ((n, b) :: anc) = parentOf ts r anc ++ [n] := by
  simp [parentOf]

theorem mkNodes_append (target : Bytes) (exts : List Bytes) : ∀ (a b : List Visit) (fs : FS),
    mkNodes target exts fs (a ++ b) =
      match mkNodes target exts fs a with
      | (fs1, some e) => (fs1, some e)
      | (fs1, none) => mkNodes target exts fs1 b
  | [], b, fs => by simp [mkNodes]
  | v :: a, b, fs => by
    simp only [List.cons_append, mkNodes]
    split
    · cases h1 : fs.mkdirAll (filepathJoin [target, trimSuffix v.path v.name]) with
      | mk fs1 e1 =>
        cases e1 with
        | some e => rfl
        | none =>
          simp only
          cases h2 : fs1.create (filepathJoin [target, v.path]) with
          | mk fs2 e2 =>
            cases e2 with
            | some e => rfl
            | none => simp only; exact mkNodes_append target exts a b fs2
    · split
      · cases h1 : fs.mkdirAll (filepathJoin [target, v.path]) with
        | mk fs1 e1 =>
          cases e1 with
          | some e => rfl
          | none => simp only; exact mkNodes_append target exts a b fs1
      · exact mkNodes_append target exts a b fs

end Gtree

namespace Gtree

section bridge
variable (f : Fmt) (exts : List Bytes) (ts : List Bytes) (r : Bytes)

theorem parent_elems {ts : List Bytes} {r : Bytes} (hr : GoodElem r) (anc : List Anc) (hanc : ∀ a ∈ anc, GoodElem a.1) :
    ∀ e ∈ r :: anc.reverse.map (·.1), Elem e := by
  intro e he
  rcases List.mem_cons.mp he with rfl | he
  · exact hr.1
  · simp only [List.mem_map, List.mem_reverse] at he
    obtain ⟨a, ha, rfl⟩ := he
    exact (hanc a ha).1

/-- one grown non-root node: the model's step on its visit, then its descendants -/
theorem mkNodes_node (hts : GoodList ts) (hr : GoodElem r) (anc : List Anc) (hanc : ∀ a ∈ anc, GoodElem a.1)
    (n : Bytes) (sub : List T) (last : Bool) (lvl : Nat) (hn : GoodElem n)
    (ih : ∀ fs, mkNodes (key ts) exts fs (growKids f r ((n, last) :: anc) (lvl + 1) sub)
        = mkKids exts (parentOf ts r anc ++ [n]) fs sub) (fs : FS) :
    mkNodes (key ts) exts fs (growNode f r anc lvl last (T.mk n sub)) = mkTree exts (parentOf ts r anc) fs (T.mk n sub) := by
  have hP := parent_elems (ts := ts) hr anc hanc
  have hpath : pathOf r n anc = joinSlash ((r :: anc.reverse.map (·.1)) ++ [n]) := by
    rw [pathOf_valid r n anc hr.1 hn.1 (fun a ha => (hanc a ha).1)]; simp
  have hPn : ∀ e ∈ (r :: anc.reverse.map (·.1)) ++ [n], Elem e := by
    intro e he
    rcases List.mem_append.mp he with he | he
    · exact hP e he
    · simp only [List.mem_singleton] at he; subst he; exact hn.1
  have hdir : filepathJoin [key ts, trimSuffix (pathOf r n anc) n] = key (parentOf ts r anc) := by
    rw [hpath, trimSuffix_key _ n (by simp)]
    exact filepathJoin_trailing ts _ hts.1 (by simp) (goodList_elems hts) hP
  have hfull : filepathJoin [key ts, pathOf r n anc] = key (parentOf ts r anc ++ [n]) := by
    rw [hpath, filepathJoin_key ts _ hts.1 (by simp) (goodList_elems hts) hPn]
    simp [parentOf]
  simp only [growNode, mkNodes, mkTree, hdir, hfull]
  by_cases hfile : isFileNode exts n (!sub.isEmpty) = true
  · have hsub : sub = [] := by
      cases sub with
      | nil => rfl
      | cons s ss => simp [isFileNode] at hfile
    subst hsub
    rw [if_pos hfile, if_pos hfile]
    cases fs.mkdirAll (key (parentOf ts r anc)) with
    | mk fs1 e1 =>
      cases e1 with
      | some e => rfl
      | none =>
        simp only
        cases fs1.create (key (parentOf ts r anc ++ [n])) with
        | mk fs2 e2 =>
          cases e2 with
          | some e => rfl
          | none => simp [growKids, mkNodes]
  · rw [if_neg hfile, if_neg hfile]
    cases sub with
    | nil =>
      simp only [List.isEmpty_nil, Bool.not_true, Bool.not_false, if_true]
      cases fs.mkdirAll (key (parentOf ts r anc ++ [n])) with
      | mk fs1 e1 =>
        cases e1 with
        | some e => rfl
        | none => simp [growKids, mkNodes]
    | cons s ss =>
      simp only [List.isEmpty_cons, Bool.not_false, Bool.not_true, Bool.false_eq_true, if_false]
      exact ih fs

/-- the children of a grown node -/
theorem mkNodes_growKids (hts : GoodList ts) (hr : GoodElem r) : ∀ (ks : List T) (anc : List Anc) (lvl : Nat) (fs : FS),
    AllGoodL ks → (∀ a ∈ anc, GoodElem a.1) →
    mkNodes (key ts) exts fs (growKids f r anc lvl ks) = mkKids exts (parentOf ts r anc) fs ks
  | [], anc, lvl, fs, _, _ => by simp [growKids, mkNodes, mkKids]
  | [T.mk n sub], anc, lvl, fs, hg, hanc => by
    rw [AllGoodL, AllGoodT] at hg
    have hanc' : ∀ a ∈ (n, true) :: anc, GoodElem a.1 := by
      intro a ha
      rcases List.mem_cons.mp ha with rfl | ha
      · exact hg.1.1
      · exact hanc a ha
    have ih : ∀ fs, mkNodes (key ts) exts fs (growKids f r ((n, true) :: anc) (lvl + 1) sub)
        = mkKids exts (parentOf ts r anc ++ [n]) fs sub := fun fs => by
      rw [← parentOf_cons ts r n true anc]
      exact mkNodes_growKids hts hr sub ((n, true) :: anc) (lvl + 1) fs hg.1.2 hanc'
    rw [growKids, mkNodes_node f exts ts r hts hr anc hanc n sub true lvl hg.1.1 ih fs]
    simp only [mkKids]
    cases mkTree exts (parentOf ts r anc) fs (T.mk n sub) with
    | mk fs1 e1 => cases e1 <;> rfl
  | T.mk n sub :: t2 :: rest, anc, lvl, fs, hg, hanc => by
    rw [AllGoodL, AllGoodT] at hg
    have hanc' : ∀ a ∈ (n, false) :: anc, GoodElem a.1 := by
      intro a ha
      rcases List.mem_cons.mp ha with rfl | ha
      · exact hg.1.1
      · exact hanc a ha
    have ih : ∀ fs, mkNodes (key ts) exts fs (growKids f r ((n, false) :: anc) (lvl + 1) sub)
        = mkKids exts (parentOf ts r anc ++ [n]) fs sub := fun fs => by
      rw [← parentOf_cons ts r n false anc]
      exact mkNodes_growKids hts hr sub ((n, false) :: anc) (lvl + 1) fs hg.1.2 hanc'
    rw [growKids, mkNodes_append, mkNodes_node f exts ts r hts hr anc hanc n sub false lvl hg.1.1 ih fs]
    rw [mkKids]
    cases mkTree exts (parentOf ts r anc) fs (T.mk n sub) with
    | mk fs1 e1 =>
      cases e1 with
      | some e => rfl
      | none => exact mkNodes_growKids hts hr (t2 :: rest) anc lvl fs1 hg.2 hanc
termination_by ks => sizeOf ks
decreasing_by
  all_goals simp_wf
  all_goals omega

/-- a whole grown root below the target `ts`: the model's mkdirer is the tree recursion -/
theorem mkNodes_growRoot (hts : GoodList ts) (t : T) (ht : AllGoodT t) (fs : FS) :
    mkNodes (key ts) exts fs (growRoot f t) = mkKids exts ts fs [t] := by
  cases t with
  | mk n sub =>
    rw [AllGoodT] at ht
    have hfull : filepathJoin [key ts, n] = key (ts ++ [n]) := by
      have := filepathJoin_key ts [n] hts.1 (by simp) (goodList_elems hts) (by simpa using ht.1.1)
      simpa [joinSlash] using this
    have hdir : filepathJoin [key ts, trimSuffix n n] = key ts := by
      rw [trimSuffix_self]; exact filepathJoin_empty ts hts.1 (goodList_elems hts)
    have ih : ∀ fs, mkNodes (key ts) exts fs (growKids f n [] 2 sub) = mkKids exts (ts ++ [n]) fs sub := fun fs => by
      have := mkNodes_growKids f exts ts n hts ht.1 sub [] 2 fs ht.2 (by simp)
      simpa [parentOf] using this
    simp only [growRoot, mkNodes, mkKids, mkTree, hdir, hfull]
    by_cases hfile : isFileNode exts n (!sub.isEmpty) = true
    · have hsub : sub = [] := by
        cases sub with
        | nil => rfl
        | cons s ss => simp [isFileNode] at hfile
      subst hsub
      rw [if_pos hfile, if_pos hfile]
      cases fs.mkdirAll (key ts) with
      | mk fs1 e1 =>
        cases e1 with
        | some e => rfl
        | none =>
          simp only
          cases fs1.create (key (ts ++ [n])) with
          | mk fs2 e2 =>
            cases e2 with
            | some e => rfl
            | none => simp [growKids, mkNodes]
    · rw [if_neg hfile, if_neg hfile]
      cases sub with
      | nil =>
        simp only [List.isEmpty_nil, Bool.not_true, Bool.not_false, if_true]
        cases fs.mkdirAll (key (ts ++ [n])) with
        | mk fs1 e1 =>
          cases e1 with
          | some e => rfl
          | none => simp [growKids, mkNodes]
      | cons s ss =>
        simp only [List.isEmpty_cons, Bool.not_false, Bool.not_true, Bool.false_eq_true, if_false]
        rw [ih fs]
        cases mkKids exts (ts ++ [n]) fs (s :: ss) with
        | mk fs1 e1 => cases e1 <;> rfl

end bridge
end Gtree
