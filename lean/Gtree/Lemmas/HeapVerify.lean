import Gtree.Generated.Heap.Verify
import Gtree.Lemmas.HeapRepr
/-
  The verifier's collection of the required paths (simple_tree_verifier.go: `fillDirsMarkdown`, the recursion that fills
  the set `dirsMarkdown`), translated over the heap by /verif/translate (heap mode; the `map[string]struct{}` is the list
  of its elements in insertion order): on every heap that holds a tree it inserts, in pre-order, exactly the target
  joined with the path of every node — the paths `verifyRoot` then looks for (the model's `want`).
-/
namespace Gtree.SrcH
open Gtree Gtree.Go

/-- inserting several elements one after the other -/
def insertAll (s : List Bytes) (xs : List Bytes) : List Bytes := xs.foldl Go.setInsert s

theorem insertAll_append (s : List Bytes) (a b : List Bytes) : insertAll s (a ++ b) = insertAll (insertAll s a) b := by
  simp [insertAll, List.foldl_append]

/-- the body of the loop of `fillDirsMarkdown` over the children's indices -/
def fillBody (h : Heap) (dv : defaultVerifierSimple) (node : Nat) (fuel : Nat) :
    Int → List Bytes → Go.Ctl (List Bytes) (Option (List Bytes × Option Src.Err)) :=
  fun i st_ =>
    match (defaultVerifierSimple.fillDirsMarkdown fuel h dv (Go.idxPtr (h node).children i) st_) with
    | none => Go.Ctl.ret none
    | some r_ =>
      match r_ with
      | (dirs, err) => if (Option.isSome err) then Go.Ctl.ret (some (dirs, err)) else Go.Ctl.next dirs

theorem fill_unfold (fuel : Nat) (h : Heap) (dv : defaultVerifierSimple) (node : Nat) (dirs : List Bytes) :
    defaultVerifierSimple.fillDirsMarkdown (fuel + 1) h dv node dirs =
      (match Go.forRange (Go.indices (h node).children)
          (Go.setInsert dirs (Go.filepath_Join [dv.targetDir, Node.path h node])) (fillBody h dv node fuel) with
       | Go.Ctl.ret r_ => r_
       | Go.Ctl.brk st_ | Go.Ctl.next st_ => some (st_, none)) := by
  rfl

theorem idxPtr_at' (pre : List Nat) (c : Nat) (rest : List Nat) :
    Go.idxPtr (pre ++ c :: rest) (Int.ofNat pre.length) = c := by
  unfold Go.idxPtr
  have h0 : ¬ ((Int.ofNat pre.length) < 0) := by
    simp only [Int.ofNat_eq_natCast]; omega
  rw [if_neg h0]
  simp

/-- the paths a tree requires under the target: the target joined with the path of every node, pre-order -/
def wantOf (target : Bytes) (vs : List Visit) : List Bytes := vs.map (fun v => filepathJoin [target, v.path])

mutual
theorem fill_node (h : Heap) (dv : defaultVerifierSimple) : ∀ (t : T) (p par : Nat) (lvl fuel : Nat) (dirs : List Bytes),
    Repr h t p par lvl → t.size ≤ fuel →
    defaultVerifierSimple.fillDirsMarkdown fuel h dv p dirs =
      some (insertAll dirs (wantOf dv.targetDir (readNode h t p lvl)), none)
  | .mk n ks, p, par, lvl, fuel, dirs, hr, hf => by
    have hsz : T.size (.mk n ks) = 1 + sizeList ks := by simp [T.size]
    rw [hsz] at hf
    rw [Repr] at hr
    obtain ⟨_, _, _, _, hk⟩ := hr
    cases fuel with
    | zero => omega
    | succ fuel =>
      rw [fill_unfold, readNode]
      have hind : Go.indices (h p).children = (List.range' 0 (h p).children.length).map Int.ofNat := by
        simp [Go.indices, List.range_eq_range']
      obtain ⟨hrun⟩ := fill_kids h dv p fuel ks [] (h p).children (lvl + 1)
        (Go.setInsert dirs (Go.filepath_Join [dv.targetDir, Node.path h p])) hk (by simp) (by omega)
      simp only [List.length_nil] at hrun
      rw [hind, hrun]
      simp [wantOf, insertAll, Go.filepath_Join]
theorem fill_kids (h : Heap) (dv : defaultVerifierSimple) (p : Nat) (fuel : Nat) : ∀ (ts : List T) (pre cids : List Nat)
    (lvl : Nat) (dirs : List Bytes), ReprKids h ts cids p lvl → (h p).children = pre ++ cids → sizeList ts ≤ fuel →
    Nonempty (Go.forRange ((List.range' pre.length cids.length).map Int.ofNat) dirs (fillBody h dv p fuel) =
      Go.Ctl.next (insertAll dirs (wantOf dv.targetDir (readKids h ts cids lvl))))
  | [], pre, cids, lvl, dirs, hr, _, _ => by
    rw [ReprKids] at hr; subst hr
    exact ⟨by simp [Go.forRange, readKids, wantOf, insertAll]⟩
  | t :: ts, pre, cids, lvl, dirs, hr, hpc, hf => by
    rw [ReprKids] at hr
    obtain ⟨c, cs', rfl, hrc, hrs⟩ := hr
    have hsz : sizeList (t :: ts) = t.size + sizeList ts := by simp [sizeList]
    rw [hsz] at hf
    have hidx : Go.idxPtr (h p).children (Int.ofNat pre.length) = c := by rw [hpc]; exact idxPtr_at' pre c cs'
    refine ⟨?_⟩
    simp only [List.length_cons, List.range'_succ, List.map_cons, Go.forRange]
    simp only [fillBody, hidx, fill_node h dv t c p lvl fuel dirs hrc (by omega)]
    simp only [Option.isSome_none, Bool.false_eq_true, if_false]
    obtain ⟨h2⟩ := fill_kids h dv p fuel ts (pre ++ [c]) cs' lvl
      (insertAll dirs (wantOf dv.targetDir (readNode h t c lvl))) hrs (by rw [hpc]; simp) (by omega)
    have hlen' : (pre ++ [c]).length = pre.length + 1 := by simp
    rw [hlen'] at h2
    rw [h2, readKids]
    simp [wantOf, insertAll_append]
end

end Gtree.SrcH
