import Gtree.Generated.Facts
import Gtree.Lemmas.WorkerFacts
/-
  The row loops of the four root generators (rootGeneratorSimple.generate and generateIter, the massive mode's
  rootGeneratorPipeline.worker, the tinywasm rootGenerator.generate), as the fact extractor found them on this run — their
  tests, calls, continues and returns in source order — against the hand-written expectation; and, decided from the
  regenerated facts, that the four loops share one row step: make the node from the row and the counter's next value, give
  up on an error, skip a blank row, open a new block on a root, refuse a row when no block is open, hand any other row to
  `stack.dfs` and report a format error naming the row when it refuses.  That step is the model's `genStep` / `addItem`;
  `stack.dfs` itself is translated and proved to refine the model's zipper (§4.5).
-/
namespace Gtree

def expectedGenSkeleton : List (String × List String) :=
  [("rootGenerator.generate", ["for:rg.scanner.Scan()", "Scan", "generate", "Text", "next", "if:err != nil", "if:rerr != nil", "Err", "return", "return", "if:currentNode == nil", "continue", "if:currentNode.isRoot()", "isRoot", "reset", "append", "newStack", "push", "continue", "if:stack == nil", "return", "errNilStack", "if:!stack.dfs(currentNode)", "dfs", "return", "inputFormatError:row: rg.scanner.Text()", "Text"]),
   ("rootGeneratorPipeline.worker", ["range:strings.Split(strings.TrimSuffix(block, \"\\n\"), \"\\n\")", "Split", "generate", "next", "if:err != nil", "sendErr", "return", "if:currentNode == nil", "continue", "if:currentNode.isRoot()", "isRoot", "push", "continue", "if:root == nil", "sendErr", "errNilStack", "return", "if:!nodes.dfs(currentNode)", "dfs", "sendErr", "inputFormatError:row: row", "return"]),
   ("rootGeneratorSimple.generate", ["for:rg.scanner.Scan()", "Scan", "generate", "Text", "next", "if:err != nil", "if:rerr != nil", "Err", "return", "return", "if:currentNode == nil", "continue", "if:currentNode.isRoot()", "isRoot", "reset", "append", "newStack", "push", "continue", "if:stack == nil", "return", "errNilStack", "if:!stack.dfs(currentNode)", "dfs", "return", "inputFormatError:row: rg.scanner.Text()", "Text"]),
   ("rootGeneratorSimple.generateIter", ["for:rg.scanner.Scan()", "Scan", "generate", "Text", "next", "if:err != nil", "if:rerr != nil", "Err", "yield", "return", "if:currentNode == nil", "continue", "if:currentNode.isRoot()", "isRoot", "reset", "if:root != nil", "if:!yield(root, nil)", "yield", "return", "newStack", "push", "continue", "if:stack == nil", "yield", "errNilStack", "return", "if:!stack.dfs(currentNode)", "dfs", "yield", "inputFormatError:row: rg.scanner.Text()", "Text", "return"])]

/-- what a token is for the row step (the error literal without its argument) -/
def coreToken (t : String) : String :=
  if t == "inputFormatError:row: rg.scanner.Text()" || t == "inputFormatError:row: row" then "inputFormatError" else t

/-- the row step shared by the generators -/
def coreStep : List String :=
  ["generate", "next", "if:err != nil", "if:currentNode == nil", "continue", "if:currentNode.isRoot()", "isRoot", "push",
   "continue", "errNilStack", "dfs", "inputFormatError"]

def coreOf (l : List String) : List String := (l.map coreToken).filter (fun t => coreStep.contains t)

theorem generator_loops_are_as_expected : Facts.genSkeleton = expectedGenSkeleton := by decide

theorem generators_share_one_row_step :
    Facts.genSkeleton.length = 4 ∧ Facts.genSkeleton.all (fun e => coreOf e.2 == coreStep) = true := by decide

/-- the row handed to the node generator is the row named by the format error, in every generator -/
theorem format_error_names_the_row :
    (lookupL "rootGeneratorSimple.generate" Facts.genSkeleton).contains "inputFormatError:row: rg.scanner.Text()" = true ∧
    (lookupL "rootGeneratorSimple.generateIter" Facts.genSkeleton).contains "inputFormatError:row: rg.scanner.Text()" = true ∧
    (lookupL "rootGenerator.generate" Facts.genSkeleton).contains "inputFormatError:row: rg.scanner.Text()" = true ∧
    (lookupL "rootGeneratorPipeline.worker" Facts.genSkeleton).contains "inputFormatError:row: row" = true := by decide

end Gtree
