import Gtree.Lemmas.FSChanges
import Gtree.Lemmas.MkBridge
import Gtree.Props.C05
import Gtree.Lemmas.Names
/-
  For a tree whose names are single valid path elements and a clean relative target, every path the
  mkdirer hands to the file system – and every prefix MkdirAll may create on the way – is a prefix
  of the target or lies at / below the target.
-/
namespace Gtree

/-- `p` is a non-empty prefix of the target path, the target, or something below the target -/
def InTarget (ts : List Bytes) (p : Bytes) : Prop :=
  ∃ es, es ≠ [] ∧ (∀ e ∈ es, Elem e) ∧ p = key es ∧ (es <+: ts ∨ ts <+: es)

/-- the visits name every node of the tree -/
theorem names_of_visits (f : Fmt) (r : Bytes) (P : Bytes → Prop) : ∀ (ks : List T) (anc : List Anc) (lvl : Nat),
    (∀ v ∈ growKids f r anc lvl ks, P v.name) →
    ∀ k ∈ namesL ks, P k
  | [], _, _, _, k, hk => by simp [namesL] at hk
  | [T.mk n sub], anc, lvl, h, k, hk => by
    simp only [growKids, growNode, List.mem_cons] at h
    simp only [namesL, namesT, List.append_nil, List.mem_cons] at hk
    rcases hk with rfl | hk
    · exact h _ (Or.inl rfl)
    · exact names_of_visits f r P sub ((n, true) :: anc) (lvl + 1) (fun v hv => h v (Or.inr hv)) k hk
  | T.mk n sub :: t2 :: rest, anc, lvl, h, k, hk => by
    simp only [growKids, growNode, List.mem_append, List.mem_cons] at h
    simp only [namesL, namesT, List.mem_append, List.mem_cons] at hk
    rcases hk with (rfl | hk) | hk
    · exact h _ (Or.inl (Or.inl rfl))
    · exact names_of_visits f r P sub ((n, false) :: anc) (lvl + 1) (fun v hv => h v (Or.inl (Or.inr hv))) k hk
    · exact names_of_visits f r P (t2 :: rest) anc lvl (fun v hv => h v (Or.inr hv)) k (by simpa [namesL] using hk)
termination_by ks => sizeOf ks
decreasing_by
  all_goals simp_wf
  all_goals omega

theorem allElemL_of_names : ∀ (ks : List T), (∀ k ∈ namesL ks, Elem k) → AllElemL ks
  | [], _ => by rw [AllElemL]; trivial
  | T.mk n sub :: rest, h => by
    rw [AllElemL, AllElemT]
    simp only [namesL, namesT, List.mem_append, List.mem_cons] at h
    exact ⟨⟨h n (Or.inl (Or.inl rfl)), allElemL_of_names sub (fun k hk => h k (Or.inl (Or.inr hk)))⟩,
      allElemL_of_names rest (fun k hk => h k (Or.inr hk))⟩

/-- a tree all of whose visits carry valid names has valid names -/
theorem allElemT_of_visits (f : Fmt) (t : T) (h : ∀ v ∈ growRoot f t, Elem v.name) : AllElemT t := by
  cases t with
  | mk n sub =>
    simp only [growRoot, List.mem_cons] at h
    rw [AllElemT]
    refine ⟨h _ (Or.inl rfl), allElemL_of_names sub ?_⟩
    exact names_of_visits f n Elem sub [] 2 (fun v hv => h v (Or.inr hv))

/-- the shape of a non-root visit: its path is the names from the root down to it -/
theorem growKids_shape (f : Fmt) (r : Bytes) (hr : Elem r) : ∀ (ks : List T) (anc : List Anc) (lvl : Nat),
    AllElemL ks → (∀ a ∈ anc, Elem a.1) →
    ∀ v ∈ growKids f r anc lvl ks, ∃ P, P ≠ [] ∧ (∀ e ∈ P, Elem e) ∧ Elem v.name ∧ v.path = joinSlash (P ++ [v.name])
  | [], _, _, _, _, v, hv => by simp [growKids] at hv
  | [T.mk n sub], anc, lvl, hk, hanc, v, hv => by
    rw [AllElemL, AllElemT] at hk
    simp only [growKids, growNode, List.mem_cons] at hv
    rcases hv with rfl | hv
    · refine ⟨r :: anc.reverse.map (·.1), by simp, ?_, hk.1.1, ?_⟩
      · intro e he
        rcases List.mem_cons.mp he with rfl | he
        · exact hr
        · simp only [List.mem_map, List.mem_reverse] at he
          obtain ⟨a, ha, rfl⟩ := he
          exact hanc a ha
      · simp only
        rw [pathOf_valid r n anc hr hk.1.1 hanc]; simp
    · exact growKids_shape f r hr sub ((n, true) :: anc) (lvl + 1) hk.1.2 (by
        intro a ha
        rcases List.mem_cons.mp ha with rfl | ha
        · exact hk.1.1
        · exact hanc a ha) v hv
  | T.mk n sub :: t2 :: rest, anc, lvl, hk, hanc, v, hv => by
    rw [AllElemL, AllElemT] at hk
    simp only [growKids, growNode, List.mem_append, List.mem_cons] at hv
    rcases hv with (rfl | hv) | hv
    · refine ⟨r :: anc.reverse.map (·.1), by simp, ?_, hk.1.1, ?_⟩
      · intro e he
        rcases List.mem_cons.mp he with rfl | he
        · exact hr
        · simp only [List.mem_map, List.mem_reverse] at he
          obtain ⟨a, ha, rfl⟩ := he
          exact hanc a ha
      · simp only
        rw [pathOf_valid r n anc hr hk.1.1 hanc]; simp
    · exact growKids_shape f r hr sub ((n, false) :: anc) (lvl + 1) hk.1.2 (by
        intro a ha
        rcases List.mem_cons.mp ha with rfl | ha
        · exact hk.1.1
        · exact hanc a ha) v hv
    · exact growKids_shape f r hr (t2 :: rest) anc lvl hk.2 hanc v hv
termination_by ks => sizeOf ks
decreasing_by
  all_goals simp_wf
  all_goals omega

/-- … of any visit of a grown root (the root itself has no names above it) -/
theorem growRoot_shape (f : Fmt) (t : T) (h : AllElemT t) :
    ∀ v ∈ growRoot f t, ∃ P, (∀ e ∈ P, Elem e) ∧ Elem v.name ∧ v.path = joinSlash (P ++ [v.name]) := by
  cases t with
  | mk n sub =>
    rw [AllElemT] at h
    intro v hv
    simp only [growRoot, List.mem_cons] at hv
    rcases hv with rfl | hv
    · exact ⟨[], by simp, h.1, by simp [joinSlash]⟩
    · obtain ⟨P, _, hP, hn, hp⟩ := growKids_shape f n h.1 sub [] 2 h.2 (by simp) v hv
      exact ⟨P, hP, hn, hp⟩

theorem prefixesOf_key_elem {es : List Bytes} (hne : es ≠ []) (h : ∀ e ∈ es, Elem e) :
    prefixesOf (key es) = (List.range es.length).map (fun i => key (es.take (i + 1))) := by
  unfold prefixesOf
  have hhead : ((key es).head? == some slash) = false := by
    have := joinSlash_head es h hne
    simpa using this
  have hf : (splitSlash (key es)).filter (fun e => !e.isEmpty) = es := by
    rw [splitSlash_joinSlash es hne (fun e he => (h e he).2.2.2)]
    apply List.filter_eq_self.mpr
    intro e he
    have := (h e he).1
    cases e <;> simp_all
  simp only [hhead, hf, Bool.false_eq_true, if_false]

/-- every prefix of a path at / below the target is in the target's cone -/
theorem inTarget_prefixes (ts Q : List Bytes) (hts : ts ≠ []) (he : ∀ e ∈ ts ++ Q, Elem e) :
    ∀ p ∈ prefixesOf (key (ts ++ Q)), InTarget ts p := by
  intro p hp
  rw [prefixesOf_key_elem (by simp [hts]) he] at hp
  simp only [List.mem_map, List.mem_range] at hp
  obtain ⟨i, _, rfl⟩ := hp
  refine ⟨(ts ++ Q).take (i + 1), ?_, fun e h => he e (List.mem_of_mem_take h), rfl, ?_⟩
  · cases ts with
    | nil => exact absurd rfl hts
    | cons x xs => simp
  · rw [List.take_append]
    by_cases hi : i + 1 ≤ ts.length
    · left
      have : i + 1 - ts.length = 0 := by omega
      rw [this]; simp
      exact List.take_prefix _ _
    · right
      rw [List.take_of_length_le (by omega)]
      exact List.prefix_append _ _

/-- what the mkdirer touches for a visit of a validated tree stays in the target's cone -/
theorem touched_inTarget (f : Fmt) (exts : List Bytes) (ts : List Bytes) (hts : ts ≠ []) (hte : ∀ e ∈ ts, Elem e)
    (t : T) (h : AllElemT t) : ∀ v ∈ growRoot f t, ∀ p ∈ touched (key ts) exts v, InTarget ts p := by
  intro v hv p hp
  obtain ⟨P, hP, hn, hpath⟩ := growRoot_shape f t h v hv
  have hPn : ∀ e ∈ P ++ [v.name], Elem e := by
    intro e he
    rcases List.mem_append.mp he with he | he
    · exact hP e he
    · simp only [List.mem_singleton] at he; subst he; exact hn
  have hall : ∀ e ∈ ts ++ (P ++ [v.name]), Elem e := by
    intro e he
    rcases List.mem_append.mp he with he | he
    · exact hte e he
    · exact hPn e he
  have hfull : filepathJoin [key ts, v.path] = key (ts ++ (P ++ [v.name])) := by
    rw [hpath]; exact filepathJoin_key ts _ hts (by simp) hte hPn
  have hdir : filepathJoin [key ts, trimSuffix v.path v.name] = key (ts ++ P) := by
    rw [hpath]
    by_cases hPe : P = []
    · subst hPe
      simp only [List.nil_append, joinSlash, trimSuffix_self, List.append_nil]
      exact filepathJoin_empty ts hts hte
    · rw [trimSuffix_key P v.name hPe]
      exact filepathJoin_trailing ts P hts hPe hte hP
  have hallP : ∀ e ∈ ts ++ P, Elem e := fun e he => hall e (by
    rcases List.mem_append.mp he with he | he
    · exact List.mem_append_left _ he
    · exact List.mem_append_right _ (List.mem_append_left _ he))
  have hself : InTarget ts (key (ts ++ (P ++ [v.name]))) :=
    ⟨ts ++ (P ++ [v.name]), by simp [hts], hall, rfl, Or.inr (List.prefix_append _ _)⟩
  unfold touched at hp
  by_cases hfile : isFileNode exts v.name v.hasChild = true
  · rw [if_pos hfile, hfull, hdir] at hp
    rcases List.mem_cons.mp hp with rfl | hp
    · exact hself
    · exact inTarget_prefixes ts P hts hallP p hp
  · rw [if_neg hfile] at hp
    by_cases hleaf : (!v.hasChild) = true
    · rw [if_pos hleaf, hfull] at hp
      exact inTarget_prefixes ts (P ++ [v.name]) hts hall p hp
    · rw [if_neg hleaf] at hp
      simp at hp

end Gtree
