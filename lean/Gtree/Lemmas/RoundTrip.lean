import Gtree.Lemmas.ParseDoc
import Gtree.Lemmas.Scan
import Gtree.Model.Api
/-
  Round trip: generating from the spelling of a forest gives the merged forest.
-/
namespace Gtree

/-- consecutive items never go more than one level deeper -/
def Steps : Nat → List (Nat × Bytes) → Prop
  | _, [] => True
  | p, (h, _) :: r => h ≤ p + 1 ∧ Steps h r

theorem steps_items : ∀ (ks : List T) (d p : Nat) (tail : List (Nat × Bytes)),
    d ≤ p + 1 → (∀ q, d ≤ q + 1 → Steps q tail) → Steps p (items d ks ++ tail)
  | [], d, p, tail, hd, ht => by simpa [items] using ht p hd
  | T.mk n sub :: rest, d, p, tail, hd, ht => by
    simp only [items, List.cons_append, List.append_assoc, Steps]
    refine ⟨hd, ?_⟩
    apply steps_items sub (d + 1) d _ (by omega)
    intro q hq
    exact steps_items rest d q tail (by omega) ht
termination_by ks => sizeOf ks

theorem fio_of_steps (s : Spelling) : ∀ (its : List (Nat × Bytes)) (p : Nat),
    Steps p its → p ≤ (if s.sharp then 2 else 1) → FIO s its
  | [], _, _, _ => by simp [FIO]
  | (h, n) :: r, p, hst, hp => by
    obtain ⟨hh, hr⟩ := hst
    by_cases hs : s.sharp = true
    · simp only [hs, if_true] at hp
      simp only [FIO, kOf, hs, if_true]
      by_cases h1 : h = 1
      · simp only [h1, if_true]
        exact fio_of_steps s r 1 (h1 ▸ hr) (by simp [hs])
      · simp only [h1, if_false]
        by_cases hk : h - 2 = 0
        · simp only [hk, if_true]
          exact fio_of_steps s r h hr (by simp [hs]; omega)
        · simp only [hk, if_false]; omega
    · have hs' : s.sharp = false := by simpa using hs
      simp only [hs', Bool.false_eq_true, if_false] at hp
      simp only [FIO, kOf, hs', Bool.false_eq_true, if_false]
      by_cases hk : h - 1 = 0
      · simp only [hk, if_true]
        exact fio_of_steps s r h hr (by simp [hs']; omega)
      · simp only [hk, if_false]; omega

theorem fio_items (s : Spelling) (f : List T) : FIO s (items 1 f) := by
  have := steps_items f 1 0 [] (by omega) (fun _ _ => by simp [Steps])
  simp only [List.append_nil] at this
  exact fio_of_steps s _ 0 this (by split <;> omega)

theorem sharpInv_items (s : Spelling) (f : List T) : SharpInv s {} (items 1 f) := by
  unfold SharpInv
  split
  · right
    intro h n r he
    cases f with
    | nil => simp [items] at he
    | cons t ts =>
      cases t with
      | mk n' ks =>
        simp only [items, List.cons_append, List.cons.injEq, Prod.mk.injEq] at he
        exact he.1.1.symm
  · rfl


theorem getLast?_append_cons {α} (a : List α) (x : α) (b : List α) : (a ++ x :: b).getLast? = (x :: b).getLast? := by
  induction a with
  | nil => rfl
  | cons y ys ih =>
    cases hys : ys ++ x :: b with
    | nil => simp at hys
    | cons z zs =>
      rw [List.cons_append, hys, List.getLast?_cons_cons, ← hys, ih]

theorem rowOf_ne_nil (s : Spelling) (i h : Nat) (n : Bytes) : rowOf s i h n ≠ [] := by
  unfold rowOf listRow
  split
  · split <;> simp
  · simp

theorem rowOf_getLast (s : Spelling) (i h : Nat) (n : Bytes) (hn : n ≠ []) : (rowOf s i h n).getLast? = n.getLast? := by
  have key : ∀ (pre : Bytes) (b : UInt8), (pre ++ b :: sp :: n).getLast? = n.getLast? := by
    intro pre b
    rw [getLast?_append_cons]
    cases n with
    | nil => exact absurd rfl hn
    | cons x xs => simp [List.getLast?_cons_cons]
  unfold rowOf listRow
  split
  · split
    · exact key [] shp
    · exact key _ _
  · exact key _ _

theorem rowOf_noLF (s : Spelling) (i h : Nat) (n : Bytes) (hc : s.c = sp ∨ s.c = tab)
    (hb : s.bullet i = hy ∨ s.bullet i = ast ∨ s.bullet i = pls) (hn : lf ∉ n) : lf ∉ rowOf s i h n := by
  have hclf : s.c ≠ lf := by rcases hc with h | h <;> rw [h] <;> decide
  have hblf : s.bullet i ≠ lf := by rcases hb with h | h | h <;> rw [h] <;> decide
  have key : ∀ m, lf ∉ List.replicate m s.c ++ s.bullet i :: sp :: n := by
    intro m
    simp only [List.mem_append, List.mem_replicate, List.mem_cons, not_or, not_and]
    exact ⟨fun _ h => hclf h.symm, fun h => hblf h.symm, by decide, hn⟩
  unfold rowOf listRow
  split
  · split
    · simp only [List.mem_cons, not_or]; exact ⟨by decide, by decide, hn⟩
    · exact key _
  · exact key _

/-- every row of a valid spelling is one line, does not end in CR, and the last one is an item row -/
theorem spellRows_rows (s : Spelling) (hc : s.c = sp ∨ s.c = tab)
    (hbul : ∀ i, s.bullet i = hy ∨ s.bullet i = ast ∨ s.bullet i = pls)
    (hblank : ∀ i, ∀ b ∈ s.blanks i, isBlank b = true ∧ lf ∉ b ∧ b.getLast? ≠ some cr) :
    ∀ (its : List (Nat × Bytes)) (i : Nat), (∀ it ∈ its, NameOk s it.1 it.2) →
      (∀ r ∈ spellRows s i its, lf ∉ r ∧ r.getLast? ≠ some cr) ∧
      (∀ r, (spellRows s i its).getLast? = some r → r ≠ [])
  | [], i, _ => by simp [spellRows]
  | (h, n) :: rest, i, hn => by
    have hname := hn (h, n) (by simp)
    obtain ⟨ih1, ih2⟩ := spellRows_rows s hc hbul hblank rest (i + 1) (fun it hit => hn it (by simp [hit]))
    constructor
    · intro r hr
      simp only [spellRows, List.mem_append, List.mem_cons] at hr
      rcases hr with hr | hr | hr
      · exact ⟨(hblank i r hr).2.1, (hblank i r hr).2.2⟩
      · subst hr
        exact ⟨rowOf_noLF s i h n hc (hbul i) hname.noLF, by rw [rowOf_getLast s i h n hname.nonempty]; exact hname.noTrailCR⟩
      · exact ih1 r hr
    · intro r hr
      simp only [spellRows] at hr
      rw [getLast?_append_cons] at hr
      cases hrest : spellRows s (i + 1) rest with
      | nil =>
        rw [hrest] at hr
        simp at hr
        subst hr
        exact rowOf_ne_nil s i h n
      | cons r2 rs2 =>
        rw [hrest, List.getLast?_cons_cons] at hr
        exact ih2 r (by rw [hrest]; exact hr)

theorem gen_roots_eq_finishCur (g : GState) :
    g.done ++ (match g.cur with | none => none | some z => closeAll z).toList = g.finishCur := by
  unfold GState.finishCur
  cases g.cur with
  | none => simp
  | some z =>
    simp only
    cases hca : closeAll z <;> simp

/-- ROUND TRIP. Generating from any valid spelling of a forest yields the forest with equally named
    siblings merged, and no error. -/
theorem generate_spell (f : List T) (s : Spelling) (hv : s.Valid (items 1 f)) :
    (generate { doc := spell f s }).err = none ∧ (generate { doc := spell f s }).roots = f.map mergeRoot := by
  obtain ⟨hrows1, hrows2⟩ := spellRows_rows s hv.hc hv.hbullet hv.hblank (items 1 f) 0 hv.names
  have hscan : scanLines (spell f s) = ⟨spellRows s 0 (items 1 f), false⟩ := by
    unfold spell
    apply scanLines_joinRows s _ (fun r hr => (hrows1 r hr).1)
      (fun r hr => ⟨(hrows1 r hr).2, hv.hshort 0 r hr⟩) hrows2
  obtain ⟨r, hadd, hfin, _⟩ := addItems_forest f {}
  have hits : ∀ it ∈ items 1 f, 1 ≤ it.1 ∧ NameOk s it.1 it.2 :=
    fun it hit => ⟨items_ge 1 f it hit, hv.names it hit⟩
  obtain ⟨p', hgen, _⟩ := genRows_spelled s hv.hc hv.hunit hv.hbullet (fun i b hb => (hv.hblank i b hb).1)
    (items 1 f) 0 {} r hits ⟨Or.inl rfl, Or.inl rfl⟩ (fun _ => fio_items s f) (sharpInv_items s f) hadd
  have hroots : r.finishCur = f.map mergeRoot := by simpa [GState.finishCur] using hfin
  unfold generate generateFrom
  simp only [hscan, hgen]
  refine ⟨by simp, ?_⟩
  simp only [Bool.false_eq_true, if_false, Gen.roots]
  rw [← hroots]
  exact gen_roots_eq_finishCur { r with p := p' }

end Gtree
