import Gtree.Generated.Heap.Walk
import Gtree.Lemmas.HeapRepr
/-
  The walker of the source (simple_tree_walker.go: `walk`, `walkNode`), translated over the heap by /verif/translate
  (heap mode) with the user's callback as a state machine: on every heap that holds a forest, the callback is called
  on exactly the nodes of the forest, in pre-order, each once, until it returns an error, which is returned unchanged;
  nothing is called afterwards.
-/
namespace Gtree.SrcH
open Gtree Gtree.Go

/-- call the callback on the pointers in order until it fails -/
def callAll {σ : Type} (cb : Ptr → σ → σ × Option Src.Err) : List Ptr → σ → σ × Option Src.Err
  | [], s => (s, none)
  | p :: ps, s =>
    match cb p s with
    | (s', some e) => (s', some e)
    | (s', none) => callAll cb ps s'

theorem callAll_append {σ : Type} (cb : Ptr → σ → σ × Option Src.Err) : ∀ (a b : List Ptr) (s : σ),
    callAll cb (a ++ b) s =
      match callAll cb a s with
      | (s', some e) => (s', some e)
      | (s', none) => callAll cb b s'
  | [], b, s => by simp [callAll]
  | p :: a, b, s => by
    simp only [List.cons_append, callAll]
    rcases cb p s with ⟨s', e⟩
    cases e with
    | some e => rfl
    | none => exact callAll_append cb a b s'

/-- the body of the loop of `walkNode` over the children -/
def walkBody {σ : Type} (dw : defaultWalkerSimple) (h : Heap) (cb : Ptr → σ → σ × Option Src.Err) (fuel : Nat) :
    Ptr → σ → Go.Ctl σ (Option (σ × Option Src.Err)) :=
  fun child st_ =>
    match (defaultWalkerSimple.walkNode fuel h st_ dw child cb) with
    | none => Go.Ctl.ret none
    | some r_ =>
      match r_ with
      | (cbs_, err) => if (Option.isSome err) then Go.Ctl.ret (some (cbs_, err)) else Go.Ctl.next cbs_

theorem walkNode_unfold {σ : Type} (fuel : Nat) (h : Heap) (s : σ) (dw : defaultWalkerSimple) (cur : Ptr)
    (cb : Ptr → σ → σ × Option Src.Err) :
    defaultWalkerSimple.walkNode (fuel + 1) h s dw cur cb =
      (match cb cur s with
       | (cbs_, err) =>
         if (Option.isSome err) then some (cbs_, err)
         else
           match Go.forRange (h cur).children cbs_ (walkBody dw h cb fuel) with
           | Go.Ctl.ret r_ => r_
           | Go.Ctl.brk st_ | Go.Ctl.next st_ => some (st_, none)) := by
  rfl

mutual
theorem walk_node {σ : Type} (dw : defaultWalkerSimple) (h : Heap) (cb : Ptr → σ → σ × Option Src.Err) :
    ∀ (t : T) (s : σ) (p par : Ptr) (lvl fuel : Nat), Repr h t p par lvl → t.size ≤ fuel →
    defaultWalkerSimple.walkNode fuel h s dw p cb = some (callAll cb (ptrs h t p) s)
  | .mk n ks, s, p, par, lvl, fuel, hr, hf => by
    have hsz : T.size (.mk n ks) = 1 + sizeList ks := by simp [T.size]
    rw [hsz] at hf
    rw [Repr] at hr
    obtain ⟨_, _, _, _, hk⟩ := hr
    cases fuel with
    | zero => omega
    | succ fuel =>
      rw [walkNode_unfold, ptrs, callAll]
      rcases cb p s with ⟨s1, e1⟩
      cases e1 with
      | some e => simp
      | none =>
        simp only [Option.isSome_none, Bool.false_eq_true, if_false]
        obtain ⟨hrun⟩ := walk_kids dw h cb ks s1 (h p).children p (lvl + 1) fuel hk (by omega)
        rw [hrun]
        rcases callAll cb (ptrsKids h ks (h p).children) s1 with ⟨s2, e2⟩
        cases e2 <;> simp
theorem walk_kids {σ : Type} (dw : defaultWalkerSimple) (h : Heap) (cb : Ptr → σ → σ × Option Src.Err) :
    ∀ (ts : List T) (s : σ) (cs : List Ptr) (par : Ptr) (lvl fuel : Nat), ReprKids h ts cs par lvl →
    sizeList ts ≤ fuel →
    Nonempty (Go.forRange cs s (walkBody dw h cb fuel) =
      (match callAll cb (ptrsKids h ts cs) s with
       | (s', some e) => Go.Ctl.ret (some (s', some e))
       | (s', none) => Go.Ctl.next s'))
  | [], s, cs, par, lvl, fuel, hr, _ => by
    rw [ReprKids] at hr; subst hr
    exact ⟨by simp [Go.forRange, ptrsKids, callAll]⟩
  | t :: ts, s, cs, par, lvl, fuel, hr, hf => by
    rw [ReprKids] at hr
    obtain ⟨c, cs', rfl, hrc, hrs⟩ := hr
    have hsz : sizeList (t :: ts) = t.size + sizeList ts := by simp [sizeList]
    rw [hsz] at hf
    have h1 := walk_node dw h cb t s c par lvl fuel hrc (by omega)
    refine ⟨?_⟩
    rw [Go.forRange, ptrsKids, callAll_append]
    simp only [walkBody, h1]
    rcases callAll cb (ptrs h t c) s with ⟨s1, e1⟩
    cases e1 with
    | some e => simp
    | none =>
      simp only [Option.isSome_none, Bool.false_eq_true, if_false]
      obtain ⟨h2⟩ := walk_kids dw h cb ts s1 cs' par lvl fuel hrs (by omega)
      exact h2
end

/-- the body of the loop of `walk` over the roots -/
def walkRootsBody {σ : Type} (dw : defaultWalkerSimple) (h : Heap) (cb : Ptr → σ → σ × Option Src.Err) (fuel : Nat) :
    Ptr → σ → Go.Ctl σ (Option (σ × Option Src.Err)) :=
  fun root st_ =>
    match (defaultWalkerSimple.walkNode fuel h st_ dw root cb) with
    | none => Go.Ctl.ret none
    | some r_ =>
      match r_ with
      | (cbs_, err) => if (Option.isSome err) then Go.Ctl.ret (some (cbs_, err)) else Go.Ctl.next cbs_

theorem walk_roots_loop {σ : Type} (dw : defaultWalkerSimple) (h : Heap) (cb : Ptr → σ → σ × Option Src.Err) :
    ∀ (ts : List T) (s : σ) (rs : List Ptr) (fuel : Nat), ReprRoots h ts rs → sizeList ts ≤ fuel →
    (match Go.forRange rs s (walkRootsBody dw h cb fuel) with
      | Go.Ctl.ret r_ => r_
      | Go.Ctl.brk st_ | Go.Ctl.next st_ => some (st_, none)) = some (callAll cb (ptrsKids h ts rs) s)
  | [], s, rs, fuel, hr, _ => by
    have : rs = [] := hr
    subst this
    simp [Go.forRange, ptrsKids, callAll]
  | t :: ts, s, rs, fuel, hr, hf => by
    obtain ⟨r, rs', rfl, hrr, hrs⟩ := hr
    have hsz : sizeList (t :: ts) = t.size + sizeList ts := by simp [sizeList]
    rw [hsz] at hf
    have h1 := walk_node dw h cb t s r 0 1 fuel hrr (by omega)
    rw [Go.forRange, ptrsKids, callAll_append]
    simp only [walkRootsBody, h1]
    rcases callAll cb (ptrs h t r) s with ⟨s1, e1⟩
    cases e1 with
    | some e => simp
    | none =>
      simp only [Option.isSome_none, Bool.false_eq_true, if_false]
      exact walk_roots_loop dw h cb ts s1 rs' fuel hrs (by omega)

/-- **`defaultWalkerSimple.walk` of the source**: the callback is called on the nodes of the forest in pre-order, each
    once, until it fails; its first error is the result; its state afterwards is the state after that call. -/
theorem walk_heap {σ : Type} (dw : defaultWalkerSimple) (h : Heap) (cb : Ptr → σ → σ × Option Src.Err)
    (ts : List T) (s : σ) (rs : List Ptr) (fuel : Nat) (hr : ReprRoots h ts rs) (hf : sizeList ts ≤ fuel) :
    defaultWalkerSimple.walk fuel h s dw rs cb = some (callAll cb (ptrsKids h ts rs) s) :=
  walk_roots_loop dw h cb ts s rs fuel hr hf

/-- what a callback reads from the node it is handed (through the accessors of `WalkerNode`, §4.4) -/
def visitOf (h : Heap) (p : Ptr) : Visit :=
  { name := (h p).name, branch := Node.branch h p, level := ((h p).hierarchy).toNat, path := Node.path h p,
    hasChild := Node.hasChild h p }

mutual
/-- the nodes the walker hands out, read one after the other, are the visits of the tree -/
theorem ptrs_visits (h : Heap) : ∀ (t : T) (p par : Ptr) (lvl : Nat), Repr h t p par lvl →
    (ptrs h t p).map (visitOf h) = readNode h t p lvl
  | .mk n ks, p, par, lvl, hr => by
    rw [Repr] at hr
    obtain ⟨_, _, hl, _, hk⟩ := hr
    rw [ptrs, readNode, List.map_cons, ptrsKids_visits h ks _ p (lvl + 1) hk]
    simp [visitOf, hl]
theorem ptrsKids_visits (h : Heap) : ∀ (ts : List T) (cs : List Ptr) (par : Ptr) (lvl : Nat),
    ReprKids h ts cs par lvl → (ptrsKids h ts cs).map (visitOf h) = readKids h ts cs lvl
  | [], cs, par, lvl, hr => by rw [ptrsKids, readKids]; rfl
  | t :: ts, cs, par, lvl, hr => by
    rw [ReprKids] at hr
    obtain ⟨c, cs', rfl, hrc, hrs⟩ := hr
    rw [ptrsKids, readKids, List.map_append, ptrs_visits h t c par lvl hrc, ptrsKids_visits h ts cs' par lvl hrs]
end

theorem roots_visits (h : Heap) : ∀ (ts : List T) (rs : List Ptr), ReprRoots h ts rs →
    (ptrsKids h ts rs).map (visitOf h) = readKids h ts rs 1
  | [], rs, hr => by rw [ptrsKids, readKids]; rfl
  | t :: ts, rs, hr => by
    obtain ⟨r, rs', rfl, hrr, hrs⟩ := hr
    rw [ptrsKids, readKids, List.map_append, ptrs_visits h t r 0 1 hrr, roots_visits h ts rs' hrs]

end Gtree.SrcH
