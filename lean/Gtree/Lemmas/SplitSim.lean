import Gtree.Lemmas.SplitParse
/-
  Splitting the document into root blocks and generating each block with a fresh stack (the blocks one
  after the other through the shared parser) gives exactly what the simple generator gives for the
  whole document: the same roots in the same order, or the same first error.
-/
namespace Gtree

theorem genRows_append : ∀ (a b : List Bytes) (g : GState),
    genRows g (a ++ b) = (match genRows g a with
      | (g1, some e) => (g1, some e)
      | (g1, none) => genRows g1 b)
  | [], b, g => by simp [genRows]
  | r :: a, b, g => by
    simp only [List.cons_append, genRows]
    cases genStep g r with
    | error e => rfl
    | ok g' => exact genRows_append a b g'

theorem genBlocksSeq_append : ∀ (a b : List (List Bytes)) (p : PState),
    genBlocksSeq p (a ++ b) = (match genBlocksSeq p a with
      | (rs, some e, p') => (rs, some e, p')
      | (rs, none, p') => match genBlocksSeq p' b with
        | (rs2, e2, p2) => (rs ++ rs2, e2, p2))
  | [], b, p => by
    simp only [List.nil_append, genBlocksSeq]
  | x :: a, b, p => by
    simp only [List.cons_append, genBlocksSeq]
    cases hx : genBlock p x with
    | mk p' r =>
      cases r with
      | error e => rfl
      | ok root =>
        simp only
        rw [genBlocksSeq_append a b p']
        cases ha : genBlocksSeq p' a with
        | mk rs r2 =>
          cases r2 with
          | mk e pa =>
            cases e with
            | some err => rfl
            | none =>
              simp only
              cases hb : genBlocksSeq pa b with
              | mk rs2 r3 => cases r3 with | mk e2 p2 => simp

/-- once a row is in the block being collected, the block that is finally sent starts with the rows collected so far -/
theorem split_suffix : ∀ (rest : List Bytes) (st : SplitSt), st.block ≠ [] →
    ∃ x more, (rest.foldl splitStep st).final = st.out ++ (st.block ++ x) :: more
  | [], st, _ => ⟨[], [], by simp [SplitSt.final]⟩
  | l :: rest, st, hne => by
    simp only [List.foldl_cons]
    by_cases hb : rootBeginning l (st.sharp || isSharpRow l) = true
    · have hst : splitStep st l = { sharp := st.sharp || isSharpRow l, block := [l], out := st.out ++ [st.block] } := by
        have : st.block.isEmpty = false := by cases h : st.block <;> simp_all
        simp [splitStep, hb, this]
      rw [hst]
      obtain ⟨x, more, h⟩ := split_suffix rest { sharp := st.sharp || isSharpRow l, block := [l], out := st.out ++ [st.block] } (by simp)
      exact ⟨[], ([l] ++ x) :: more, by rw [h]; simp⟩
    · have hbf : rootBeginning l (st.sharp || isSharpRow l) = false := by simpa using hb
      have hst : splitStep st l = { sharp := st.sharp || isSharpRow l, block := st.block ++ [l], out := st.out } := by
        simp [splitStep, hbf]
      rw [hst]
      obtain ⟨x, more, h⟩ := split_suffix rest { sharp := st.sharp || isSharpRow l, block := st.block ++ [l], out := st.out } (by simp)
      exact ⟨[l] ++ x, more, by rw [h]; simp⟩

/-- the root a worker hands on for the block it has parsed into `g` -/
def GState.root (g : GState) : Option T :=
  match g.cur with
  | none => none
  | some z => closeAll z

theorem finishCur_eq (g : GState) : g.finishCur = g.done ++ g.root.toList := by
  unfold GState.finishCur GState.root
  cases g.cur with
  | none => simp
  | some z => cases h : closeAll z <;> simp [h]

/-- the simulation relation between the simple generator's state and the splitter's -/
structure Sim (g : GState) (st : SplitSt) : Prop where
  ex : ∃ (pm : PState) (gb : GState),
    genBlocksSeq {} st.out = (g.done, none, pm) ∧ genRows { p := pm } st.block = (gb, none) ∧
    gb.p = g.p ∧ gb.cur = g.cur ∧ gb.done = []
  sharp : st.sharp = g.p.sharp

theorem sim_init : Sim {} {} :=
  ⟨⟨{}, {}, by simp [genBlocksSeq], by simp [genRows], rfl, rfl, rfl⟩, rfl⟩

/-- a row that is not a root row: what the generator does depends only on the parser and the open root -/
theorem genStep_nonroot (g gb : GState) (l : Bytes) (hp : gb.p = g.p) (hc : gb.cur = g.cur)
    (hnr : ∀ h text, (parse g.p l).2 = .ok (h, text) → 2 ≤ h) :
    (match genStep g l with
     | .error e => genStep gb l = .error e
     | .ok g' => ∃ gb', genStep gb l = .ok gb' ∧ gb'.p = g'.p ∧ gb'.cur = g'.cur ∧ gb'.done = gb.done ∧ g'.done = g.done) := by
  unfold genStep
  rw [hp]
  cases hpr : parse g.p l with
  | mk p' r =>
    rw [hpr] at hnr
    cases r with
    | error pe =>
      cases pe with
      | blank => exact ⟨_, rfl, rfl, hc, rfl, rfl⟩
      | emptyText => rfl
      | incorrect => rfl
    | ok v =>
      obtain ⟨h, text⟩ := v
      have h2 := hnr h text rfl
      have h1 : (h == 1) = false := by simp; omega
      simp only [addItem, h1, Bool.false_eq_true, if_false, hc]
      cases g.cur with
      | none => rfl
      | some z =>
        simp only
        cases dfs h text z with
        | none => rfl
        | some z' => exact ⟨_, rfl, rfl, rfl, rfl, rfl⟩

/-- a root row: the open root is completed and a new one begun -/
theorem genStep_root (g : GState) (l : Bytes)
    (hr : (∃ text, (parse g.p l).2 = .ok (1, text)) ∨ (parse g.p l).2 = .error .emptyText) :
    (match genStep g l with
     | .error e => e = .emptyText ∧ genStep { p := g.p } l = .error .emptyText
     | .ok g' => ∃ gb', genStep { p := g.p } l = .ok gb' ∧ gb'.p = g'.p ∧ gb'.cur = g'.cur ∧ gb'.done = [] ∧
         g'.done = g.finishCur) := by
  unfold genStep
  cases hpr : parse g.p l with
  | mk p' r =>
    rw [hpr] at hr
    rcases hr with ⟨text, hr⟩ | hr
    · simp only at hr
      subst hr
      simp only [addItem, beq_self_eq_true, if_true]
      exact ⟨_, rfl, rfl, rfl, by simp [GState.finishCur], rfl⟩
    · simp only at hr
      subst hr
      exact ⟨rfl, rfl⟩

end Gtree

namespace Gtree

theorem genBlock_ok (pm : PState) (block : List Bytes) (gb : GState) (h : genRows { p := pm } block = (gb, none)) :
    genBlock pm block = (gb.p, .ok gb.root) := by
  simp only [genBlock, h, GState.root]
  rfl

/-- the blocks sent so far, plus the block being collected: all fine, and they give the roots completed so far plus the open one -/
theorem sim_closed (g : GState) (st : SplitSt) (hs : Sim g st) :
    genBlocksSeq {} (st.out ++ [st.block]) = (g.finishCur, none, g.p) := by
  obtain ⟨⟨pm, gb, hout, hblk, hp, hc, _⟩, _⟩ := hs
  rw [genBlocksSeq_append, hout]
  simp only [genBlocksSeq, genBlock_ok pm st.block gb hblk]
  rw [finishCur_eq, hp]
  simp [GState.root, hc]

/-- what the splitter's state is after a row, in both cases -/
theorem splitStep_root (st : SplitSt) (l : Bytes) (hb : rootBeginning l (st.sharp || isSharpRow l) = true) :
    splitStep st l = { sharp := st.sharp || isSharpRow l, block := [l],
                       out := if st.block.isEmpty then st.out else st.out ++ [st.block] } := by
  simp [splitStep, hb]

theorem splitStep_nonroot (st : SplitSt) (l : Bytes) (hb : rootBeginning l (st.sharp || isSharpRow l) = false) :
    splitStep st l = { sharp := st.sharp || isSharpRow l, block := st.block ++ [l], out := st.out } := by
  simp [splitStep, hb]

/-- after a root row: the blocks sent are fine and give exactly the roots completed before it -/
theorem sim_out_after_root (g : GState) (st : SplitSt) (hs : Sim g st) :
    genBlocksSeq {} (if st.block.isEmpty then st.out else st.out ++ [st.block]) = (g.finishCur, none, g.p) := by
  by_cases he : st.block.isEmpty = true
  · obtain ⟨⟨pm, gb, hout, hblk, hp, hc, _⟩, _⟩ := hs
    have hnil : st.block = [] := by simpa using he
    rw [hnil] at hblk
    simp only [genRows, Prod.mk.injEq, and_true] at hblk
    subst hblk
    simp only at hp hc
    rw [if_pos he, hout, finishCur_eq]
    simp [GState.root, ← hc, hp]
  · rw [if_neg he]
    exact sim_closed g st hs

theorem sim_step_ok (g g' : GState) (st : SplitSt) (l : Bytes) (hs : Sim g st) (hok : genStep g l = .ok g') :
    Sim g' (splitStep st l) := by
  have hcls := parse_class g.p l
  have hsharp := hs.sharp
  rw [← hsharp] at hcls
  have hp' : g'.p = (parse g.p l).1 := by
    unfold genStep at hok
    cases hpr : parse g.p l with
    | mk p' r =>
      rw [hpr] at hok
      cases r with
      | error pe => cases pe <;> simp at hok <;> (subst hok; rfl)
      | ok v =>
        obtain ⟨h, text⟩ := v
        simp only [addItem] at hok
        split at hok
        · simp only [Except.ok.injEq] at hok; subst hok; rfl
        · cases hc : g.cur with
          | none => simp [hc] at hok
          | some z =>
            simp only [hc] at hok
            cases hd : dfs h text z with
            | none => simp [hd] at hok
            | some z' => simp only [hd, Except.ok.injEq] at hok; subst hok; rfl
  by_cases hb : rootBeginning l (st.sharp || isSharpRow l) = true
  · have hr := genStep_root g l (hcls.2.1 hb)
    rw [hok] at hr
    obtain ⟨gb', hgb, hpp, hcc, hdd, hdone⟩ := hr
    rw [splitStep_root st l hb]
    refine ⟨⟨g.p, gb', ?_, ?_, hpp, hcc, hdd⟩, ?_⟩
    · simp only; rw [hdone]; exact sim_out_after_root g st hs
    · simp only [genRows, hgb]
    · simp only; rw [hp', hcls.1]
  · have hbf : rootBeginning l (st.sharp || isSharpRow l) = false := by simpa using hb
    obtain ⟨⟨pm, gb, hout, hblk, hp, hc, hd⟩, _⟩ := hs
    have hnr := genStep_nonroot g gb l hp hc (hcls.2.2 hbf)
    rw [hok] at hnr
    obtain ⟨gb', hgb, hpp, hcc, hdd, hdone⟩ := hnr
    rw [splitStep_nonroot st l hbf]
    refine ⟨⟨pm, gb', ?_, ?_, hpp, hcc, by rw [hdd, hd]⟩, ?_⟩
    · simp only; rw [hdone]; exact hout
    · simp only
      rw [genRows_append, hblk]
      simp only [genRows, hgb]
    · simp only; rw [hp', hcls.1]

/-- the row on which the simple generator fails makes its block fail with the same error -/
theorem sim_step_err (g : GState) (st : SplitSt) (l : Bytes) (e : GErr) (hs : Sim g st) (herr : genStep g l = .error e) :
    ∃ (rs : List T) (pm : PState) (B : List Bytes) (gbX : GState),
      genBlocksSeq {} (splitStep st l).out = (rs, none, pm) ∧ (splitStep st l).block = B ++ [l] ∧
      genRows { p := pm } B = (gbX, none) ∧ genStep gbX l = .error e := by
  have hcls := parse_class g.p l
  have hsharp := hs.sharp
  rw [← hsharp] at hcls
  by_cases hb : rootBeginning l (st.sharp || isSharpRow l) = true
  · have hr := genStep_root g l (hcls.2.1 hb)
    rw [herr] at hr
    obtain ⟨he, hgb⟩ := hr
    subst he
    rw [splitStep_root st l hb]
    exact ⟨g.finishCur, g.p, [], { p := g.p }, sim_out_after_root g st hs, by simp, by simp [genRows], hgb⟩
  · have hbf : rootBeginning l (st.sharp || isSharpRow l) = false := by simpa using hb
    obtain ⟨⟨pm, gb, hout, hblk, hp, hc, hd⟩, _⟩ := hs
    have hnr := genStep_nonroot g gb l hp hc (hcls.2.2 hbf)
    rw [herr] at hnr
    rw [splitStep_nonroot st l hbf]
    exact ⟨g.done, pm, st.block, gb, hout, rfl, hblk, hnr⟩

/-- the simulation over a whole sequence of rows -/
theorem sim_rows : ∀ (rows : List Bytes) (g : GState) (st : SplitSt), Sim g st →
    (match genRows g rows with
     | (g', none) => Sim g' (rows.foldl splitStep st)
     | (_, some e) => (genBlocksSeq {} (rows.foldl splitStep st).final).2.1 = some e)
  | [], g, st, hs => by simpa [genRows] using hs
  | l :: rest, g, st, hs => by
    simp only [genRows, List.foldl_cons]
    cases hstep : genStep g l with
    | ok g' =>
      simp only
      exact sim_rows rest g' (splitStep st l) (sim_step_ok g g' st l hs hstep)
    | error e =>
      simp only
      obtain ⟨rs, pm, B, gbX, hout, hblk, hB, hl⟩ := sim_step_err g st l e hs hstep
      obtain ⟨x, more, hfin⟩ := split_suffix rest (splitStep st l) (by rw [hblk]; simp)
      rw [hfin, genBlocksSeq_append, hout]
      simp only [genBlocksSeq]
      have hfail : genBlock pm ((splitStep st l).block ++ x) = (gbX.p, .error e) := by
        rw [hblk]
        simp only [genBlock]
        rw [List.append_assoc, genRows_append, hB]
        simp only [List.cons_append, List.nil_append, genRows, hl]
      rw [hfail]

/-- SPLIT-THEN-GENERATE = GENERATE: for EVERY sequence of rows, the blocks the splitter cuts, generated one
    after the other (each with a fresh stack, through the shared parser), give the roots the simple
    generator gives for the whole sequence, in the same order – or fail with the same first error. -/
theorem split_generate (rows : List Bytes) :
    (match genRows {} rows with
     | (g, none) => genBlocksSeq {} (splitBlocks rows) = (g.finishCur, none, g.p)
     | (_, some e) => (genBlocksSeq {} (splitBlocks rows)).2.1 = some e) := by
  have h := sim_rows rows {} {} sim_init
  cases hg : genRows {} rows with
  | mk g e =>
    rw [hg] at h
    cases e with
    | none => exact sim_closed g _ h
    | some err => exact h

end Gtree
