import Gtree.Model.MkOps
import Gtree.Lemmas.FSChanges
namespace Gtree

theorem runOps_append (fs : FS) (a b : List FsOp) :
    runOps fs (a ++ b) = match runOps fs a with
      | (fs1, some e) => (fs1, some e)
      | (fs1, none) => runOps fs1 b := by
  induction a generalizing fs with
  | nil => simp [runOps]
  | cons op ops ih =>
    simp only [List.cons_append, runOps]
    cases h : fs.applyOp op with
    | mk fs1 e =>
      cases e with
      | some e => rfl
      | none => exact ih fs1

/-- the simple mode's mkdirer is its nodes' operations, in pre-order, until the first failure -/
theorem mkNodes_eq_runOps (target : Bytes) (exts : List Bytes) : ∀ (vs : List Visit) (fs : FS),
    mkNodes target exts fs vs = runOps fs (vs.flatMap (opsOf target exts))
  | [], fs => by simp [mkNodes, runOps]
  | v :: vs, fs => by
    have ih := mkNodes_eq_runOps target exts vs
    simp only [List.flatMap_cons, runOps_append, mkNodes, opsOf]
    by_cases hfile : isFileNode exts v.name v.hasChild = true
    · simp only [hfile, if_true, runOps, FS.applyOp]
      cases hm : fs.mkdirAll (filepathJoin [target, trimSuffix v.path v.name]) with
      | mk fs1 e1 =>
        cases e1 with
        | some e => rfl
        | none =>
          simp only
          cases hc : fs1.create (filepathJoin [target, v.path]) with
          | mk fs2 e2 =>
            cases e2 with
            | some e => rfl
            | none => simp only; exact ih fs2
    · have hff : isFileNode exts v.name v.hasChild = false := by simpa using hfile
      simp only [hff, Bool.false_eq_true, if_false]
      by_cases hleaf : (!v.hasChild) = true
      · simp only [hleaf, if_true, runOps, FS.applyOp]
        cases hm : fs.mkdirAll (filepathJoin [target, v.path]) with
        | mk fs1 e1 =>
          cases e1 with
          | some e => rfl
          | none => simp only; exact ih fs1
      · simp only [hleaf, if_false, runOps]
        exact ih fs

/-- one operation of a node changes nothing but what `touched` lists for that node -/
theorem applyOp_changes (target : Bytes) (exts : List Bytes) (v : Visit) (op : FsOp) (hop : op ∈ opsOf target exts v)
    (fs : FS) (p : Bytes) (hp : p ∉ touched target exts v) : (fs.applyOp op).1.lookup p = fs.lookup p := by
  unfold opsOf at hop
  unfold touched at hp
  by_cases hfile : isFileNode exts v.name v.hasChild = true
  · simp only [hfile, if_true, List.mem_cons, List.not_mem_nil, or_false] at hop hp
    simp only [not_or] at hp
    rcases hop with rfl | rfl
    · exact mkdirAll_changes fs _ p hp.2
    · exact create_changes fs _ p hp.1
  · have hff : isFileNode exts v.name v.hasChild = false := by simpa using hfile
    simp only [hff, Bool.false_eq_true, if_false] at hop hp
    by_cases hleaf : (!v.hasChild) = true
    · simp only [hleaf, if_true, List.mem_cons, List.not_mem_nil, or_false] at hop hp
      subst hop
      exact mkdirAll_changes fs _ p hp
    · simp [hleaf] at hop

/-- any sequence of operations of the given nodes, in any order, any number of times, cut off anywhere -/
theorem applyAll_changes (target : Bytes) (exts : List Bytes) (nodes : List Visit) : ∀ (ops : List FsOp) (fs : FS) (p : Bytes),
    (∀ op ∈ ops, ∃ v ∈ nodes, op ∈ opsOf target exts v) → (∀ v ∈ nodes, p ∉ touched target exts v) →
    (applyAll fs ops).lookup p = fs.lookup p
  | [], fs, p, _, _ => rfl
  | op :: ops, fs, p, hops, hp => by
    obtain ⟨v, hv, hop⟩ := hops op (by simp)
    have h1 := applyOp_changes target exts v op hop fs p (hp v hv)
    simp only [applyAll, List.foldl_cons]
    have ih := applyAll_changes target exts nodes ops (fs.applyOp op).1 p (fun o ho => hops o (by simp [ho])) hp
    simp only [applyAll] at ih
    rw [ih, h1]

end Gtree
