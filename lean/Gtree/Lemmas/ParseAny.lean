import Gtree.Lemmas.ParseRow
import Gtree.Lemmas.ParseMixed
import Gtree.Spec.Malformed
/-
  `separateRow` on an ARBITRARY row (not only the rows a spelling writes): a row is its blanks, then a
  first other byte, then the rest.  Used by the characterisation of all rejected documents (C02).
-/
namespace Gtree

theorem row_split : ∀ row : Bytes, row = indentOf row ++ afterIndent row
  | [] => rfl
  | b :: rest => by
    unfold indentOf afterIndent
    by_cases h : isIndentByte b = true
    · simp only [h, if_true, List.cons_append]
      rw [← row_split rest]
    · simp [h]

theorem indentOf_blank : ∀ (row : Bytes) (x : UInt8), x ∈ indentOf row → x = sp ∨ x = tab
  | [], x, h => by simp [indentOf] at h
  | b :: rest, x, h => by
    unfold indentOf at h
    by_cases hb : isIndentByte b = true
    · simp only [hb, if_true, List.mem_cons] at h
      rcases h with rfl | h
      · simpa [isIndentByte] using hb
      · exact indentOf_blank rest x h
    · simp [hb] at h

theorem afterIndent_head : ∀ (row : Bytes) (x : UInt8) (tl : Bytes), afterIndent row = x :: tl → isIndentByte x = false
  | [], x, tl, h => by simp [afterIndent] at h
  | b :: rest, x, tl, h => by
    unfold afterIndent at h
    by_cases hb : isIndentByte b = true
    · simp only [hb, if_true] at h
      exact afterIndent_head rest x tl h
    · simp only [hb, Bool.false_eq_true, if_false, List.cons.injEq] at h
      obtain ⟨rfl, _⟩ := h
      simpa using hb

/-- the parser's indent character is a blank, if it has one -/
def SepOK (st : PState) : Prop := st.sep = none ∨ st.sep = some sp ∨ st.sep = some tab

theorem presep_attempt (st : PState) (c : UInt8) (row : Bytes) (s : UInt8) (before after : Bytes)
    (hcut : cut s row = some (c :: before, after)) (hc : c = sp ∨ c = tab) :
    attempt (presep st c) row s = attempt st row s := by
  unfold attempt
  simp only [hcut]
  have hct : (c == sp || c == tab) = true := by rcases hc with rfl | rfl <;> simp [sp, tab]
  simp only [hct, if_true]
  have h1 : (if (presep st c).sep.isNone = true then ({ presep st c with sep := some c } : PState) else presep st c)
      = (if st.sep.isNone = true then ({ st with sep := some c } : PState) else st) := by
    have := presep_idem st c
    unfold presep at this ⊢
    exact this
  rw [h1]

/-- the attempt with a symbol other than the first non-blank byte of the row fails; it may latch the
    indent character -/
theorem attempt_other_any (st : PState) (ind tl : Bytes) (x s : UInt8)
    (hind : ∀ y ∈ ind, y = sp ∨ y = tab) (hx : isIndentByte x = false) (hs : isIndentByte s = false)
    (hxs : x ≠ s) (hok : SepOK st) :
    ∃ st', attempt st (ind ++ x :: tl) s = (st', none) ∧
      (st' = st ∨ ∃ c ind', ind = c :: ind' ∧ st' = presep st c) := by
  have hsn : s ∉ ind := by
    intro h
    rcases hind s h with e | e <;> simp [isIndentByte, e] at hs
  unfold attempt
  rw [cut_append_not_mem s ind _ hsn, cut_cons_ne s x tl hxs]
  cases hcut : cut s tl with
  | none => exact ⟨st, by simp, Or.inl rfl⟩
  | some p =>
    obtain ⟨l, r⟩ := p
    simp only [Option.map_some]
    cases ind with
    | nil =>
      have hxb : (x == sp || x == tab) = false := by simpa [isIndentByte] using hx
      exact ⟨st, by simp [hxb], Or.inl rfl⟩
    | cons c ind' =>
      have hc : c = sp ∨ c = tab := hind c (by simp)
      have hct : (c == sp || c == tab) = true := by rcases hc with rfl | rfl <;> simp [sp, tab]
      simp only [List.cons_append, hct, if_true]
      refine ⟨presep st c, ?_, Or.inr ⟨c, ind', rfl, rfl⟩⟩
      have hpre : (if st.sep.isNone = true then ({ st with sep := some c } : PState) else st) = presep st c := rfl
      rw [hpre]
      -- the latched character is a blank, `x` is not: the count falls short
      have hd : (presep st c).sep.getD c = sp ∨ (presep st c).sep.getD c = tab := by
        unfold presep
        rcases hok with h | h | h
        · simp [h]; exact hc
        · simp [h]
        · simp [h]
      have hxd : x ≠ (presep st c).sep.getD c := by
        intro e
        rcases hd with h | h <;> (rw [h] at e; simp [isIndentByte, e] at hx)
      have hlt := countB_lt_of_mem ((presep st c).sep.getD c) x (c :: (ind' ++ x :: l)) (by simp) hxd
      have hne : (countB ((presep st c).sep.getD c) (c :: (ind' ++ x :: l)) != (c :: (ind' ++ x :: l)).length) = true := by
        simp only [bne_iff_ne, ne_eq]; omega
      simp only [hne, if_true]

theorem sepOK_presep (st : PState) (c : UInt8) (hok : SepOK st) (hc : c = sp ∨ c = tab) : SepOK (presep st c) := by
  unfold SepOK presep
  rcases hok with h | h | h
  · rcases hc with rfl | rfl <;> simp [h]
  · simp [h]
  · simp [h]

/-- after failed attempts on a row the state is the one before, or that with the indent character latched -/
def Latched (st : PState) (ind : Bytes) (st' : PState) : Prop :=
  st' = st ∨ ∃ c ind', ind = c :: ind' ∧ st' = presep st c

theorem latched_ok (st : PState) (ind : Bytes) (st' : PState) (hind : ∀ y ∈ ind, y = sp ∨ y = tab)
    (hok : SepOK st) (h : Latched st ind st') : SepOK st' := by
  rcases h with rfl | ⟨c, ind', hi, rfl⟩
  · exact hok
  · exact sepOK_presep st c hok (hind c (by simp [hi]))

theorem latched_trans (st : PState) (ind : Bytes) (st' st'' : PState)
    (h1 : Latched st ind st') (h2 : Latched st' ind st'') : Latched st ind st'' := by
  rcases h1 with rfl | ⟨c, ind', hi, rfl⟩
  · exact h2
  · rcases h2 with rfl | ⟨c2, ind2, hi2, rfl⟩
    · exact Or.inr ⟨c, ind', hi, rfl⟩
    · rw [hi] at hi2
      simp only [List.cons.injEq] at hi2
      obtain ⟨rfl, rfl⟩ := hi2
      exact Or.inr ⟨c, ind', hi, presep_idem st c⟩

/-- a row whose first non-blank byte is no bullet symbol is rejected -/
theorem separateRow_no_bullet (st : PState) (ind tl : Bytes) (x : UInt8)
    (hind : ∀ y ∈ ind, y = sp ∨ y = tab) (hx : isIndentByte x = false) (hnb : isBulletByte x = false)
    (hok : SepOK st) :
    (separateRow st (ind ++ x :: tl)).2 = none := by
  have hx1 : x ≠ hy := by intro e; simp [isBulletByte, e] at hnb
  have hx2 : x ≠ ast := by intro e; simp [isBulletByte, e] at hnb
  have hx3 : x ≠ pls := by intro e; simp [isBulletByte, e] at hnb
  obtain ⟨s1, h1, hs1⟩ := attempt_other_any st ind tl x hy hind hx (by decide) hx1 hok
  have ok1 := latched_ok st ind s1 hind hok hs1
  obtain ⟨s2, h2, hs2⟩ := attempt_other_any s1 ind tl x ast hind hx (by decide) hx2 ok1
  have ok2 := latched_ok s1 ind s2 hind ok1 hs2
  obtain ⟨s3, h3, _⟩ := attempt_other_any s2 ind tl x pls hind hx (by decide) hx3 ok2
  simp [separateRow, listSymbols, separateRowAux, h1, h2, h3]


theorem cut_own (ind tl : Bytes) (b : UInt8) (hbn : b ∉ ind) : cut b (ind ++ b :: tl) = some (ind, tl) := by
  rw [cut_append_not_mem b ind _ hbn, cut_head]
  simp

/-- the attempt with the row's own bullet symbol, in closed form -/
def ownAttempt (st : PState) (ind tl : Bytes) : PState × Option (Nat × Bytes) :=
  match ind with
  | [] => ({ st with sep := none }, some (0, tl))
  | c :: _ =>
    let st1 := presep st c
    let n := countB (st1.sep.getD c) ind
    if n != ind.length then (st1, none)
    else
      let st2 : PState := if n > 0 && st1.spaces == 0 then { st1 with spaces := n } else st1
      if st2.spaces ≤ 1 then (st2, some (n, tl))
      else if n % st2.spaces != 0 then (st2, none)
      else (st2, some (n, tl))

theorem attempt_own (st : PState) (ind tl : Bytes) (b : UInt8)
    (hind : ∀ y ∈ ind, y = sp ∨ y = tab) (hbn : b ∉ ind) :
    attempt st (ind ++ b :: tl) b = ownAttempt st ind tl := by
  unfold attempt
  rw [cut_own ind tl b hbn]
  cases ind with
  | nil => rfl
  | cons c ind' =>
    have hc : c = sp ∨ c = tab := hind c (by simp)
    have hct : (c == sp || c == tab) = true := by rcases hc with rfl | rfl <;> simp [sp, tab]
    simp only [hct, if_true]
    rfl

theorem ownAttempt_sep (st : PState) (c : UInt8) (ind' tl : Bytes) :
    (ownAttempt st (c :: ind') tl).1.sep = (presep st c).sep := by
  unfold ownAttempt
  simp only
  generalize presep st c = st1
  generalize countB (st1.sep.getD c) (c :: ind') = n
  by_cases h1 : (n != (c :: ind').length) = true
  · simp only [h1, if_true]
  · simp only [h1, Bool.false_eq_true, if_false]
    have h2 : (if (decide (n > 0) && st1.spaces == 0) = true then ({ st1 with spaces := n } : PState) else st1).sep = st1.sep := by
      split <;> rfl
    generalize (if (decide (n > 0) && st1.spaces == 0) = true then ({ st1 with spaces := n } : PState) else st1) = st2 at h2 ⊢
    by_cases h3 : st2.spaces ≤ 1
    · simp only [h3, if_true]; exact h2
    · simp only [h3, if_false]
      by_cases h4 : (n % st2.spaces != 0) = true
      · simp only [h4, if_true]; exact h2
      · simp only [h4, Bool.false_eq_true, if_false]; exact h2

theorem ownAttempt_ok (st : PState) (ind tl : Bytes) (hind : ∀ y ∈ ind, y = sp ∨ y = tab) (hok : SepOK st) :
    SepOK (ownAttempt st ind tl).1 := by
  cases ind with
  | nil => simp [ownAttempt, SepOK]
  | cons c ind' =>
    have h := ownAttempt_sep st c ind' tl
    have h2 := sepOK_presep st c hok (hind c (by simp))
    unfold SepOK at h2 ⊢
    rw [h]
    exact h2

theorem countB_eq_length_iff (d : UInt8) : ∀ (xs : Bytes), (countB d xs = xs.length) ↔ (xs.all (· == d) = true)
  | [] => by simp [countB]
  | x :: xs => by
    have ih := countB_eq_length_iff d xs
    have hle := countB_le d xs
    simp only [countB, List.length_cons, List.all_cons, Bool.and_eq_true]
    by_cases hx : x = d
    · subst hx
      simp only [BEq.rfl, if_true, true_and]
      rw [← ih]; omega
    · have : (x == d) = false := by simpa using hx
      simp only [this, Bool.false_eq_true, if_false, false_and, iff_false]
      omega

/-- the own attempt on an indented row, by the shape of the indentation -/
theorem ownAttempt_cons (st : PState) (c : UInt8) (ind' tl : Bytes) (d : UInt8)
    (hd : (presep st c).sep = some d) :
    ownAttempt st (c :: ind') tl =
      if !((c :: ind').all (· == d)) then (presep st c, none)
      else
        let m := ind'.length + 1
        let unit := if st.spaces == 0 then m else st.spaces
        if 2 ≤ unit && m % unit != 0 then (({ presep st c with spaces := unit } : PState), none)
        else (({ presep st c with spaces := unit } : PState), some (m, tl)) := by
  have hsp := presep_spaces st c
  unfold ownAttempt
  simp only
  generalize presep st c = st1 at hd hsp ⊢
  obtain ⟨a, b, cc⟩ := st1
  simp only at hd hsp
  subst hd hsp
  simp only [Option.getD_some]
  by_cases hall : (c :: ind').all (· == d) = true
  · have hcnt : countB d (c :: ind') = (c :: ind').length := (countB_eq_length_iff d _).mpr hall
    have hne : (countB d (c :: ind') != (c :: ind').length) = false := by simp [hcnt]
    simp only [hne, Bool.false_eq_true, if_false, hall, Bool.not_true, hcnt, List.length_cons]
    by_cases h0 : st.spaces = 0
    · have e1 : (decide (ind'.length + 1 > 0) && st.spaces == 0) = true := by rw [h0]; simp
      simp only [e1, if_true, h0, BEq.rfl]
      by_cases h1 : ind'.length + 1 ≤ 1
      · have : ¬ (2 ≤ ind'.length + 1) := by omega
        simp [h1, this]
      · have h2 : 2 ≤ ind'.length + 1 := by omega
        simp [h1, h2]
    · have e0 : (st.spaces == 0) = false := by simpa using h0
      have e1 : (decide (ind'.length + 1 > 0) && st.spaces == 0) = false := by simp [e0]
      simp only [e1, Bool.false_eq_true, if_false, e0]
      by_cases h1 : st.spaces ≤ 1
      · have : ¬ (2 ≤ st.spaces) := by omega
        simp [h1, this]
      · have h2 : 2 ≤ st.spaces := by omega
        simp [h1, h2]
  · have hall' : (c :: ind').all (· == d) = false := by simpa using hall
    have hcnt : countB d (c :: ind') ≠ (c :: ind').length := by
      intro e; rw [(countB_eq_length_iff d _).mp e] at hall'; exact Bool.noConfusion hall'
    have hne : (countB d (c :: ind') != (c :: ind').length) = true := by simpa using hcnt
    simp only [hne, if_true, hall', Bool.not_false]

/-- On a row whose first non-blank byte is a bullet symbol, `separateRow` is the attempt with that symbol:
    the attempts with the symbols tried before it fail and at most latch the indent character, which the
    attempt with the row's own symbol would do anyway; if that one fails too, so do the remaining ones. -/
theorem separateRow_bullet (st : PState) (ind tl : Bytes) (b : UInt8)
    (hind : ∀ y ∈ ind, y = sp ∨ y = tab) (hb : isBulletByte b = true) (hok : SepOK st) :
    ((attempt st (ind ++ b :: tl) b).2 = none → (separateRow st (ind ++ b :: tl)).2 = none) ∧
    (∀ v, (attempt st (ind ++ b :: tl) b).2 = some v → separateRow st (ind ++ b :: tl) = attempt st (ind ++ b :: tl) b) := by
  have hbx : isIndentByte b = false := by
    have : (b = hy ∨ b = ast) ∨ b = pls := by simpa [isBulletByte] using hb
    rcases this with (rfl | rfl) | rfl <;> decide
  have hbn : b ∉ ind := by
    intro h
    rcases hind b h with e | e <;> simp [isIndentByte, e] at hbx
  -- the own attempt from a latched state is the own attempt from `st`
  have own : ∀ st', Latched st ind st' → attempt st' (ind ++ b :: tl) b = attempt st (ind ++ b :: tl) b := by
    intro st' h
    rcases h with rfl | ⟨c, ind', hi, rfl⟩
    · rfl
    · have hc : c = sp ∨ c = tab := hind c (by simp [hi])
      have hcut := cut_own ind tl b hbn
      rw [hi] at hcut
      rw [hi]
      exact presep_attempt st c _ b ind' tl hcut hc
  -- an attempt with another symbol fails from any blank-latched state
  have other : ∀ (st' : PState) (s : UInt8), SepOK st' → isIndentByte s = false → b ≠ s →
      ∃ st'', attempt st' (ind ++ b :: tl) s = (st'', none) ∧ Latched st' ind st'' := by
    intro st' s hok' hs hbs
    exact attempt_other_any st' ind tl b s hind hbx hs hbs hok'
  unfold separateRow listSymbols
  have hb3 : (b = hy ∨ b = ast) ∨ b = pls := by simpa [isBulletByte] using hb
  rcases hb3 with (rfl | rfl) | rfl
  · -- '-' is tried first
    constructor
    · intro hnone
      cases ha : attempt st (ind ++ hy :: tl) hy with
      | mk s1 r1 =>
        rw [ha] at hnone
        simp only at hnone
        subst hnone
        have ok1 : SepOK s1 := by
          have := ownAttempt_ok st ind tl hind hok
          rw [← attempt_own st ind tl hy hind hbn, ha] at this; exact this
        obtain ⟨s2, h2, hl2⟩ := other s1 ast ok1 (by decide) (by decide)
        have ok2 := latched_ok s1 ind s2 hind ok1 hl2
        obtain ⟨s3, h3, _⟩ := other s2 pls ok2 (by decide) (by decide)
        simp [separateRowAux, ha, h2, h3]
    · intro v hv
      cases ha : attempt st (ind ++ hy :: tl) hy with
      | mk s1 r1 =>
        rw [ha] at hv
        simp only at hv
        subst hv
        simp [separateRowAux, ha]
  · -- '*': '-' fails first
    obtain ⟨s1, h1, hl1⟩ := other st hy hok (by decide) (by decide)
    have ok1 := latched_ok st ind s1 hind hok hl1
    have hown := own s1 hl1
    constructor
    · intro hnone
      cases ha : attempt st (ind ++ ast :: tl) ast with
      | mk s2 r2 =>
        rw [ha] at hnone hown
        simp only at hnone
        subst hnone
        have ok2 : SepOK s2 := by
          have := ownAttempt_ok st ind tl hind hok
          rw [← attempt_own st ind tl ast hind hbn, ha] at this; exact this
        obtain ⟨s3, h3, _⟩ := other s2 pls ok2 (by decide) (by decide)
        simp [separateRowAux, h1, hown, h3]
    · intro v hv
      cases ha : attempt st (ind ++ ast :: tl) ast with
      | mk s2 r2 =>
        rw [ha] at hv hown
        simp only at hv
        subst hv
        simp [separateRowAux, h1, hown]
  · -- '+': '-' and '*' fail first
    obtain ⟨s1, h1, hl1⟩ := other st hy hok (by decide) (by decide)
    have ok1 := latched_ok st ind s1 hind hok hl1
    obtain ⟨s2, h2, hl2⟩ := other s1 ast ok1 (by decide) (by decide)
    have hown := own s2 (latched_trans st ind s1 s2 hl1 hl2)
    constructor
    · intro hnone
      cases ha : attempt st (ind ++ pls :: tl) pls with
      | mk s3 r3 =>
        rw [ha] at hnone hown
        simp only at hnone
        subst hnone
        simp [separateRowAux, h1, h2, hown]
    · intro v hv
      cases ha : attempt st (ind ++ pls :: tl) pls with
      | mk s3 r3 =>
        rw [ha] at hv hown
        simp only at hv
        subst hv
        simp [separateRowAux, h1, h2, hown]

end Gtree
