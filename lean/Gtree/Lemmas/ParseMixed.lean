import Gtree.Lemmas.ParseRow
/-
  M3, second half: indentation that mixes tabs and spaces is rejected – whatever follows it.
-/
namespace Gtree

theorem cut_append_not_mem (s : UInt8) : ∀ (ind rest : Bytes), s ∉ ind →
    cut s (ind ++ rest) = (cut s rest).map (fun p => (ind ++ p.1, p.2))
  | [], rest, _ => by cases h : cut s rest <;> simp [h]
  | x :: xs, rest, h => by
    have hx : (x == s) = false := by
      have : x ≠ s := fun e => h (by simp [e])
      simpa using this
    have ih := cut_append_not_mem s xs rest (fun e => h (by simp [e]))
    simp only [List.cons_append, cut, hx, Bool.false_eq_true, if_false, ih]
    cases cut s rest <;> simp

/-- an attempt whose "before" part starts with white space and holds both a space and a tab fails -/
theorem attempt_mixed (st : PState) (ind rest : Bytes) (s : UInt8)
    (hind : ∀ x ∈ ind, x = sp ∨ x = tab) (hsp : sp ∈ ind) (htab : tab ∈ ind) (hs : s ≠ sp ∧ s ≠ tab) :
    (attempt st (ind ++ rest) s).2 = none := by
  have hsn : s ∉ ind := by
    intro h
    rcases hind s h with e | e
    · exact hs.1 e
    · exact hs.2 e
  unfold attempt
  rw [cut_append_not_mem s ind rest hsn]
  cases hc : cut s rest with
  | none => simp
  | some p =>
    simp only [Option.map_some]
    -- whichever character is latched, the other one is in `ind`
    have hlt : ∀ (q : UInt8), countB q (ind ++ p.1) < (ind ++ p.1).length := by
      intro q
      by_cases hq : q = sp
      · exact countB_lt_of_mem q tab _ (by simp [htab]) (by rw [hq]; decide)
      · exact countB_lt_of_mem q sp _ (by simp [hsp]) (fun e => hq e.symm)
    have hhead : ∃ c tl, ind ++ p.1 = c :: tl ∧ (c = sp ∨ c = tab) := by
      cases hi : ind with
      | nil => rw [hi] at hsp; simp at hsp
      | cons c tl => exact ⟨c, tl ++ p.1, rfl, hind c (by rw [hi]; simp)⟩
    obtain ⟨c, tl, hbf, hcc⟩ := hhead
    rw [hbf] at hlt ⊢
    have hct : (c == sp || c == tab) = true := by
      rcases hcc with e | e <;> simp [e]
    have hne : ∀ (q : UInt8), (countB q (c :: tl) != (c :: tl).length) = true := by
      intro q
      have := hlt q
      simp only [bne_iff_ne, ne_eq]
      omega
    simp only [hct, if_true, hne]

/-- M3 — a row whose indentation mixes tabs and spaces is never separated into indentation and item -/
theorem separateRow_mixed (st : PState) (ind rest : Bytes)
    (hind : ∀ x ∈ ind, x = sp ∨ x = tab) (hsp : sp ∈ ind) (htab : tab ∈ ind) :
    (separateRow st (ind ++ rest)).2 = none := by
  have h1 := fun st' => attempt_mixed st' ind rest hy hind hsp htab (by decide)
  have h2 := fun st' => attempt_mixed st' ind rest ast hind hsp htab (by decide)
  have h3 := fun st' => attempt_mixed st' ind rest pls hind hsp htab (by decide)
  simp only [separateRow, listSymbols, separateRowAux]
  cases ha : attempt st (ind ++ rest) hy with
  | mk st1 r1 =>
    have := h1 st; rw [ha] at this; simp only at this; subst this
    simp only
    cases hb : attempt st1 (ind ++ rest) ast with
    | mk st2 r2 =>
      have := h2 st1; rw [hb] at this; simp only at this; subst this
      simp only
      cases hc : attempt st2 (ind ++ rest) pls with
      | mk st3 r3 =>
        have := h3 st2; rw [hc] at this; simp only at this; subst this
        rfl

end Gtree
