import Gtree.Lemmas.ParseRow
/-
  M3, second half: indentation that mixes tabs and spaces is rejected – whatever follows it.
-/
namespace Gtree

theorem cut_append_not_mem (s : UInt8) : ∀ (ind rest : Bytes), s ∉ ind →
    cut s (ind ++ rest) = (cut s rest).map (fun p => (ind ++ p.1, p.2))
  | [], rest, _ => by cases h : cut s rest <;> simp [h]
  | x :: xs, rest, h => by
    have hx : (x == s) = false := by
      have : x ≠ s := fun e => h (by simp [e])
      simpa using this
    have ih := cut_append_not_mem s xs rest (fun e => h (by simp [e]))
    simp only [List.cons_append, cut, hx, Bool.false_eq_true, if_false, ih]
    cases cut s rest <;> simp

/-- an attempt whose "before" part starts with white space and holds both a space and a tab fails -/
theorem attempt_mixed (st : PState) (ind rest : Bytes) (s : UInt8)
    (hind : ∀ x ∈ ind, x = sp ∨ x = tab) (hsp : sp ∈ ind) (htab : tab ∈ ind) (hs : s ≠ sp ∧ s ≠ tab) :
    (attempt st (ind ++ rest) s).2 = none := by
  have hsn : s ∉ ind := by
    intro h
    rcases hind s h with e | e
    · exact hs.1 e
    · exact hs.2 e
  unfold attempt
  rw [cut_append_not_mem s ind rest hsn]
  cases hc : cut s rest with
  | none => simp
  | some p =>
    simp only [Option.map_some]
    -- whichever character is latched, the other one is in `ind`
    have hlt : ∀ (q : UInt8), countB q (ind ++ p.1) < (ind ++ p.1).length := by
      intro q
      by_cases hq : q = sp
      · exact countB_lt_of_mem q tab _ (by simp [htab]) (by rw [hq]; decide)
      · exact countB_lt_of_mem q sp _ (by simp [hsp]) (fun e => hq e.symm)
    have hhead : ∃ c tl, ind ++ p.1 = c :: tl ∧ (c = sp ∨ c = tab) := by
      cases hi : ind with
      | nil => rw [hi] at hsp; simp at hsp
      | cons c tl => exact ⟨c, tl ++ p.1, rfl, hind c (by rw [hi]; simp)⟩
    obtain ⟨c, tl, hbf, hcc⟩ := hhead
    rw [hbf] at hlt ⊢
    have hct : (c == sp || c == tab) = true := by
      rcases hcc with e | e <;> simp [e]
    have hne : ∀ (q : UInt8), (countB q (c :: tl) != (c :: tl).length) = true := by
      intro q
      have := hlt q
      simp only [bne_iff_ne, ne_eq]
      omega
    simp only [hct, if_true, hne]

/-- M3 — a row whose indentation mixes tabs and spaces is never separated into indentation and item -/
theorem separateRow_mixed (st : PState) (ind rest : Bytes)
    (hind : ∀ x ∈ ind, x = sp ∨ x = tab) (hsp : sp ∈ ind) (htab : tab ∈ ind) :
    (separateRow st (ind ++ rest)).2 = none := by
  have h1 := fun st' => attempt_mixed st' ind rest hy hind hsp htab (by decide)
  have h2 := fun st' => attempt_mixed st' ind rest ast hind hsp htab (by decide)
  have h3 := fun st' => attempt_mixed st' ind rest pls hind hsp htab (by decide)
  simp only [separateRow, listSymbols, separateRowAux]
  cases ha : attempt st (ind ++ rest) hy with
  | mk st1 r1 =>
    have := h1 st; rw [ha] at this; simp only at this; subst this
    simp only
    cases hb : attempt st1 (ind ++ rest) ast with
    | mk st2 r2 =>
      have := h2 st1; rw [hb] at this; simp only at this; subst this
      simp only
      cases hc : attempt st2 (ind ++ rest) pls with
      | mk st3 r3 =>
        have := h3 st2; rw [hc] at this; simp only at this; subst this
        rfl

end Gtree

namespace Gtree

/-- an attempt whose "before" part begins with a blank other than the indent character the parser has latched fails -/
theorem attempt_wrong_char (st : PState) (c c' s : UInt8) (m : Nat) (rest : Bytes)
    (hsep : st.sep = some c) (hc' : c' = sp ∨ c' = tab) (hne : c' ≠ c) (hs : s ≠ sp ∧ s ≠ tab) :
    (attempt st (List.replicate (m + 1) c' ++ rest) s).2 = none := by
  have hsn : s ∉ List.replicate (m + 1) c' := by
    intro h
    have := List.eq_of_mem_replicate h
    rcases hc' with e | e
    · exact hs.1 (by rw [this, e])
    · exact hs.2 (by rw [this, e])
  unfold attempt
  rw [cut_append_not_mem s _ rest hsn]
  cases hc : cut s rest with
  | none => simp
  | some p =>
    simp only [Option.map_some, List.replicate_succ, List.cons_append]
    have hct : (c' == sp || c' == tab) = true := by rcases hc' with e | e <;> simp [e]
    simp only [hct, if_true, hsep, Option.isNone_some, Bool.false_eq_true, if_false, Option.getD_some]
    have hlt : countB c (c' :: (List.replicate m c' ++ p.1)) < (c' :: (List.replicate m c' ++ p.1)).length :=
      countB_lt_of_mem c c' _ (by simp) hne
    have hneq : (countB c (c' :: (List.replicate m c' ++ p.1)) != (c' :: (List.replicate m c' ++ p.1)).length) = true := by
      simp only [bne_iff_ne, ne_eq]; omega
    simp only [hneq, if_true]

/-- M3 — an indentation in the other blank than the document's is never separated -/
theorem separateRow_wrong_char (st : PState) (c c' : UInt8) (m : Nat) (rest : Bytes)
    (hsep : st.sep = some c) (hc' : c' = sp ∨ c' = tab) (hne : c' ≠ c) :
    (separateRow st (List.replicate (m + 1) c' ++ rest)).2 = none := by
  -- a failed attempt keeps the latched character (it is only ever set when none is latched)
  have keep : ∀ (st' : PState) (s : UInt8), st'.sep = some c → s ≠ sp ∧ s ≠ tab →
      ∃ st'', attempt st' (List.replicate (m + 1) c' ++ rest) s = (st'', none) ∧ st''.sep = some c := by
    intro st' s hs' hsym
    have hfail := attempt_wrong_char st' c c' s m rest hs' hc' hne hsym
    cases ha : attempt st' (List.replicate (m + 1) c' ++ rest) s with
    | mk st'' r =>
      rw [ha] at hfail
      simp only at hfail
      subst hfail
      refine ⟨st'', rfl, ?_⟩
      -- which state a failed attempt leaves: the given one, or the given one after latching (not here) / learning the unit
      have hsn : s ∉ List.replicate (m + 1) c' := by
        intro h
        have := List.eq_of_mem_replicate h
        rcases hc' with e | e
        · exact hsym.1 (by rw [this, e])
        · exact hsym.2 (by rw [this, e])
      unfold attempt at ha
      rw [cut_append_not_mem s _ rest hsn] at ha
      cases hcut : cut s rest with
      | none => simp [hcut] at ha; rw [← ha]; exact hs'
      | some p =>
        simp only [hcut, Option.map_some, List.replicate_succ, List.cons_append] at ha
        have hct : (c' == sp || c' == tab) = true := by rcases hc' with e | e <;> simp [e]
        simp only [hct, if_true, hs', Option.isNone_some, Bool.false_eq_true, if_false, Option.getD_some] at ha
        have hlt : countB c (c' :: (List.replicate m c' ++ p.1)) < (c' :: (List.replicate m c' ++ p.1)).length :=
          countB_lt_of_mem c c' _ (by simp) hne
        have hneq : (countB c (c' :: (List.replicate m c' ++ p.1)) != (c' :: (List.replicate m c' ++ p.1)).length) = true := by
          simp only [bne_iff_ne, ne_eq]; omega
        simp only [hneq, if_true, Prod.mk.injEq, and_true] at ha
        rw [← ha]; exact hs'
  simp only [separateRow, listSymbols, separateRowAux]
  obtain ⟨s1, h1, k1⟩ := keep st hy hsep (by decide)
  rw [h1]
  obtain ⟨s2, h2, k2⟩ := keep s1 ast k1 (by decide)
  simp only [h2]
  obtain ⟨s3, h3, _⟩ := keep s2 pls k2 (by decide)
  simp only [h3]

end Gtree
