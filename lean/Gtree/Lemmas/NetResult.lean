import Gtree.Lemmas.NetStuck
/-
  What a massive-mode call returns, in the chain model: if an item has failed in any stage, the call does
  not return nil – it returns a stage's error or, if the caller cancelled, the context's error.
-/
namespace Gtree.Net

/-- ghost invariants about the result -/
structure GInv (n : Net) : Prop where
  /-- a failure is still on its way (a worker wants to report it, or it sits in the stage's buffer), or a
      waiter has received some error, or the context is cancelled -/
  g1 : ∀ a ∈ n.stages, a.failed = true → a.err > 0 ∨ a.errbuf = true ∨ n.sawErr = true ∨ n.cancelled = true
  g2 : n.cancelled = true → n.callerCancelled = true ∨ n.returned = true
  g3 : n.ecancel = true → n.sawErr = true ∨ n.callerCancelled = true ∨ n.returned = true
  /-- a call that returned nil left nothing behind: every stage has wound down and none has seen a failure -/
  s  : n.returned = true → n.resultIsNil = true → ∀ a ∈ n.stages, a.quiet ∧ a.failed = false

theorem ginv_init (todo : Nat) (workers : List Nat) : GInv (init todo workers) := by
  refine ⟨?_, by simp [init], by simp [init], by simp [init]⟩
  intro a ha hf
  simp only [init, List.mem_map] at ha
  obtain ⟨w, _, rfl⟩ := ha
  simp [freshStg] at hf

/-- one stage replaced: the first ghost invariant (`l'`, `se'`, `cc'`: the new stages and flags) -/
theorem g1_replace (n : Net) (l' : List Stg) (se' cc' : Bool) (pre post : List Stg) (a a' : Stg) (hs : n.stages = pre ++ a :: post)
    (hn' : l' = pre ++ a' :: post) (hse : n.sawErr = true → se' = true) (hc : n.cancelled = true → cc' = true)
    (ha' : a'.failed = true → a'.err > 0 ∨ a'.errbuf = true ∨ se' = true ∨ cc' = true)
    (h : ∀ x ∈ n.stages, x.failed = true → x.err > 0 ∨ x.errbuf = true ∨ n.sawErr = true ∨ n.cancelled = true) :
    ∀ x ∈ l', x.failed = true → x.err > 0 ∨ x.errbuf = true ∨ se' = true ∨ cc' = true := by
  intro x hx hf
  rw [hn'] at hx
  rcases mem_replace.mp hx with hx | rfl | hx
  · rcases h x (by rw [hs]; simp [hx]) hf with h1 | h1 | h1 | h1
    · exact Or.inl h1
    · exact Or.inr (Or.inl h1)
    · exact Or.inr (Or.inr (Or.inl (hse h1)))
    · exact Or.inr (Or.inr (Or.inr (hc h1)))
  · exact ha' hf
  · rcases h x (by rw [hs]; simp [hx]) hf with h1 | h1 | h1 | h1
    · exact Or.inl h1
    · exact Or.inr (Or.inl h1)
    · exact Or.inr (Or.inr (Or.inl (hse h1)))
    · exact Or.inr (Or.inr (Or.inr (hc h1)))

theorem g1_of_old {n : Net} {pre post : List Stg} {a : Stg} (hs : n.stages = pre ++ a :: post)
    (h : ∀ x ∈ n.stages, x.failed = true → x.err > 0 ∨ x.errbuf = true ∨ n.sawErr = true ∨ n.cancelled = true) :
    a.failed = true → a.err > 0 ∨ a.errbuf = true ∨ n.sawErr = true ∨ n.cancelled = true :=
  h a (by rw [hs]; simp)

/-- after a nil return nothing moves any more: a stage that is quiet cannot take part in a worker's step -/
theorem quiet_of_s {n : Net} (g : GInv n) (hr : n.returned = true) (hn : n.resultIsNil = true) {pre post : List Stg} {a : Stg}
    (hs : n.stages = pre ++ a :: post) : a.quiet ∧ a.failed = false :=
  g.s hr hn a (by rw [hs]; simp)

theorem outcome_ghost {last : Bool} {b b' : Stg} (ho : Outcome last b b') :
    b.idle > 0 ∧ (b'.failed = true → b'.err > 0 ∨ b.failed = true) ∧ b'.errbuf = b.errbuf ∧ (b.err > 0 → b'.err > 0) := by
  cases ho with
  | ok hi hl => exact ⟨hi, fun h => Or.inr h, rfl, fun h => h⟩
  | okLast hi hl => exact ⟨hi, fun h => Or.inr h, rfl, fun h => h⟩
  | fail hi => exact ⟨hi, fun _ => Or.inl (by simp), rfl, fun _ => by simp⟩

theorem ginv_step (n n' : Net) (hi : Inv n) (g : GInv n) (hstep : Step n n') : GInv n' := by
  rcases hstep with hs | hs
  · cases hs with
    | feed a a' post hst ht hc ho =>
      obtain ⟨hidle, hfail, hbuf, herr⟩ := outcome_ghost ho
      refine ⟨?_, g.g2, g.g3, ?_⟩
      · refine g1_replace n _ _ _ [] post a a' hst rfl id id ?_ g.g1
        intro hf
        rcases hfail hf with h1 | h1
        · exact Or.inl h1
        · rcases g1_of_old (n := n) (a := a) (pre := []) hst g.g1 h1 with h2 | h2 | h2 | h2
          · exact Or.inl (herr h2)
          · exact Or.inr (Or.inl (by rw [hbuf]; exact h2))
          · exact Or.inr (Or.inr (Or.inl h2))
          · exact Or.inr (Or.inr (Or.inr h2))
      · intro hr hn
        have := (quiet_of_s (pre := []) g hr hn hst).1.1
        omega
    | srcDone hc ht => exact ⟨g.g1, g.g2, g.g3, g.s⟩
    | handover pre a b b' post hst hsend ho =>
      obtain ⟨hidle, hfail, hbuf, herr⟩ := outcome_ghost ho
      refine ⟨?_, g.g2, g.g3, ?_⟩
      · -- first the upstream stage (no ghost change), then the downstream one
        let a'' : Stg := { a with send := a.send - 1, idle := a.idle + 1 }
        let n1 : Net := { n with stages := pre ++ a'' :: b :: post }
        have h1 : ∀ x ∈ n1.stages, x.failed = true → x.err > 0 ∨ x.errbuf = true ∨ n1.sawErr = true ∨ n1.cancelled = true :=
          g1_replace n n1.stages n1.sawErr n1.cancelled pre (b :: post) a a'' hst rfl id id (fun hf => g1_of_old (n := n) (a := a) hst g.g1 hf) g.g1
        have hst1 : n1.stages = (pre ++ [a'']) ++ b :: post := by simp [n1]
        refine g1_replace n1 _ _ _ (pre ++ [a'']) post b b' hst1 (by simp [a'']) id id ?_ h1
        intro hf
        rcases hfail hf with h2 | h2
        · exact Or.inl h2
        · rcases g1_of_old (n := n1) (a := b) hst1 h1 h2 with h3 | h3 | h3 | h3
          · exact Or.inl (herr h3)
          · exact Or.inr (Or.inl (by rw [hbuf]; exact h3))
          · exact Or.inr (Or.inr (Or.inl h3))
          · exact Or.inr (Or.inr (Or.inr h3))
      · intro hr hn
        have := (quiet_of_s g hr hn hst).1.2.1
        omega
    | sendGiveUp pre a post hst hsend hc =>
      refine ⟨?_, g.g2, g.g3, ?_⟩
      · exact g1_replace n _ _ _ pre post a _ hst rfl id id (fun hf => g1_of_old (n := n) (a := a) hst g.g1 hf) g.g1
      · intro hr hn
        have := (quiet_of_s g hr hn hst).1.2.1
        omega
    | idleExitFirst a post hst hidle hc =>
      refine ⟨?_, g.g2, g.g3, ?_⟩
      · exact g1_replace n _ _ _ [] post a _ hst rfl id id (fun hf => g1_of_old (n := n) (a := a) (pre := []) hst g.g1 hf) g.g1
      · intro hr hn
        have := (quiet_of_s (pre := []) g hr hn hst).1.1
        omega
    | idleExit pre p a post hst hidle hc =>
      have hst2 : n.stages = (pre ++ [p]) ++ a :: post := by rw [hst]; simp
      refine ⟨?_, g.g2, g.g3, ?_⟩
      · exact g1_replace n _ _ _ (pre ++ [p]) post a { a with idle := a.idle - 1, done := a.done + 1 } hst2 (by simp) id id (fun hf => g1_of_old (n := n) (a := a) hst2 g.g1 hf) g.g1
      · intro hr hn
        have := (quiet_of_s g hr hn hst2).1.1
        omega
    | closeOut pre a post hst hq hc =>
      refine ⟨?_, g.g2, g.g3, ?_⟩
      · exact g1_replace n _ _ _ pre post a _ hst rfl id id (fun hf => g1_of_old (n := n) (a := a) hst g.g1 hf) g.g1
      · intro hr hn x hx
        simp only at hx
        rcases mem_replace.mp hx with hx | rfl | hx
        · exact g.s hr hn x (by rw [hst]; simp [hx])
        · exact quiet_of_s (a := a) g hr hn hst
        · exact g.s hr hn x (by rw [hst]; simp [hx])
    | errSend pre a post hst he hb =>
      refine ⟨?_, g.g2, g.g3, ?_⟩
      · exact g1_replace n _ _ _ pre post a _ hst rfl id id (fun _ => Or.inr (Or.inl rfl)) g.g1
      · intro hr hn
        have := (quiet_of_s g hr hn hst).1.2.2
        omega
    | errGiveUp pre a post hst he hc =>
      refine ⟨?_, g.g2, g.g3, ?_⟩
      · exact g1_replace n _ _ _ pre post a _ hst rfl id id (fun _ => Or.inr (Or.inr (Or.inr hc))) g.g1
      · intro hr hn
        have := (quiet_of_s g hr hn hst).1.2.2
        omega
    | recvErr pre a post hst hb hw =>
      refine ⟨?_, g.g2, fun _ => Or.inl rfl, ?_⟩
      · exact g1_replace n _ _ _ pre post a _ hst rfl (fun _ => rfl) id (fun _ => Or.inr (Or.inr (Or.inl rfl))) g.g1
      · intro _ hn
        simp [Net.resultIsNil] at hn
    | recvClosed pre a post hst hw hq hb =>
      refine ⟨?_, g.g2, g.g3, ?_⟩
      · exact g1_replace n _ _ _ pre post a _ hst rfl id id (fun hf => g1_of_old (n := n) (a := a) hst g.g1 hf) g.g1
      · intro hr hn x hx
        simp only at hx
        rcases mem_replace.mp hx with hx | rfl | hx
        · exact g.s hr hn x (by rw [hst]; simp [hx])
        · exact quiet_of_s (a := a) g hr hn hst
        · exact g.s hr hn x (by rw [hst]; simp [hx])
    | waiterCancel pre a post hst hw hc =>
      refine ⟨?_, g.g2, g.g3, ?_⟩
      · exact g1_replace n _ _ _ pre post a _ hst rfl id id (fun hf => g1_of_old (n := n) (a := a) hst g.g1 hf) g.g1
      · intro hr hn x hx
        simp only at hx
        rcases mem_replace.mp hx with hx | rfl | hx
        · exact g.s hr hn x (by rw [hst]; simp [hx])
        · exact quiet_of_s (a := a) g hr hn hst
        · exact g.s hr hn x (by rw [hst]; simp [hx])
    | ret hr hw =>
      refine ⟨?_, fun _ => Or.inr rfl, fun _ => Or.inr (Or.inr rfl), ?_⟩
      · intro x hx hf
        rcases g.g1 x hx hf with h1 | h1 | h1 | h1
        · exact Or.inl h1
        · exact Or.inr (Or.inl h1)
        · exact Or.inr (Or.inr (Or.inl h1))
        · exact Or.inr (Or.inr (Or.inr rfl))
      · -- the return itself: nil means no waiter saw an error and the caller did not cancel
        intro _ hn x hx
        simp only [Net.resultIsNil, Bool.and_eq_true, Bool.not_eq_eq_eq_not, Bool.not_true] at hn
        obtain ⟨hse, hcc⟩ := hn
        have hec : n.ecancel = false := by
          cases he : n.ecancel with
          | false => rfl
          | true =>
            rcases g.g3 he with h1 | h1 | h1
            · rw [hse] at h1; simp at h1
            · rw [hcc] at h1; simp at h1
            · rw [hr] at h1; simp at h1
        have hcn : n.cancelled = false := by
          cases hc : n.cancelled with
          | false => rfl
          | true => have := hi.ctx hc; rw [hec] at this; simp at this
        have hxi := hi.stg x hx
        obtain ⟨hout, hbuf⟩ := hxi.waiterGone hec (hw x hx)
        have hq := hxi.closedQuiet hout
        refine ⟨hq, ?_⟩
        cases hf : x.failed with
        | false => rfl
        | true =>
          rcases g.g1 x hx hf with h1 | h1 | h1 | h1
          · have := hq.2.2; omega
          · rw [hbuf] at h1; simp at h1
          · rw [hse] at h1; simp at h1
          · rw [hcn] at h1; simp at h1
  · cases hs with
    | cancel hc =>
      refine ⟨?_, fun _ => Or.inl rfl, fun _ => Or.inr (Or.inl rfl), ?_⟩
      · intro x hx hf
        exact Or.inr (Or.inr (Or.inr rfl))
      · intro _ hn
        simp [Net.resultIsNil] at hn

theorem ginv_reach (n0 n : Net) (h0 : Inv n0) (g0 : GInv n0) (hr : Reach n0 n) : Inv n ∧ GInv n := by
  induction hr with
  | refl => exact ⟨h0, g0⟩
  | step _ hs ih => exact ⟨inv_step _ _ ih.1 hs, ginv_step _ _ ih.1 ih.2 hs⟩

end Gtree.Net
