import Gtree.Lemmas.MkdirExact
/-
  A forest just created by Mkdir verifies, strictly, against the resulting file system.
-/
namespace Gtree

/-- every key of the file system is a '/'-joined list of good elements (cleaned, relative) -/
def FS.Canon (fs : FS) : Prop := ∀ p, fs.lookup p ≠ none → ∃ es, GoodList es ∧ p = key es

theorem pathsOf_mem_split (exts : List Bytes) (Q : List Bytes) : ∀ (ks : List T) (e : List Bytes × Bool),
    e ∈ pathsOf exts Q ks ↔ ∃ k ∈ ks, e ∈ pathsOf exts Q [k]
  | [], e => by simp [pathsOf]
  | t :: rest, e => by
    rw [pathsOf_cons, List.mem_append, pathsOf_mem_split exts Q rest e]
    simp

theorem distinct_name_eq : ∀ (ks : List T), DistinctL ks → ∀ k ∈ ks, ∀ t ∈ ks, k.name = t.name → k = t
  | [], _, k, hk, _, _, _ => by simp at hk
  | x :: rest, hd, k, hk, t, ht, hn => by
    rw [DistinctL] at hd
    rcases List.mem_cons.mp hk with hkx | hkr
    · rcases List.mem_cons.mp ht with htx | htr
      · rw [hkx, htx]
      · rw [hkx] at hn; exact absurd hn.symm (hd.1 t htr)
    · rcases List.mem_cons.mp ht with htx | htr
      · rw [htx] at hn; exact absurd hn (hd.1 k hkr)
      · exact distinct_name_eq rest hd.2.2 k hkr t htr hn

theorem root_in_pathsOf (exts : List Bytes) (Q : List Bytes) (n : Bytes) (sub : List T) :
    (Q ++ [n], isFileNode exts n (!sub.isEmpty)) ∈ pathsOf exts Q [T.mk n sub] := by
  simp [pathsOf]

/-- the verifier's `want` list of a grown root -/
theorem want_growRoot (f : Fmt) (exts : List Bytes) (ts : List Bytes) (hts : GoodList ts) (t : T) (ht : AllGoodT t) :
    (growRoot f t).map (fun v => filepathJoin [key ts, v.path]) = (pathsOf exts ts [t]).map (fun e => key e.1) := by
  have h := congrArg (List.map (·.1)) (seen_growRoot f exts ts hts t ht)
  simpa [List.map_map, Function.comp_def, seen, seenSpec] using h

theorem mkdir_then_verify (f : Fmt) (exts : List Bytes) (ts : List Bytes) (roots : List T) (fs : FS) (strict : Bool)
    (hts : GoodList ts) (hg : AllGoodL roots) (hd : DistinctL roots) (hc : fs.Closed) (hcanon : fs.Canon)
    (hnf : ∀ i < ts.length, notFile fs (key (ts.take (i + 1))))
    (hnone : anyRootExists fs (key ts) (roots.map (growRoot f)) = false) :
    ∀ t ∈ roots, ∃ d, verifyRoot (mkdirRoots fs (key ts) exts (roots.map (growRoot f))).1 (key ts) (growRoot f t) = .ok d
      ∧ d.missing = [] ∧ d.extra = [] := by
  obtain ⟨_, hex⟩ := mkdirRoots_exact f exts ts roots fs hts hg hd hc hnf hnone
  have habs := nodes_absent f exts ts roots fs hts hg hc hnone
  generalize (mkdirRoots fs (key ts) exts (roots.map (growRoot f))).1 = fs' at hex
  intro t ht
  have hgt : AllGoodT t := by
    have : ∀ (ks : List T), AllGoodL ks → ∀ t ∈ ks, AllGoodT t := by
      intro ks
      induction ks with
      | nil => intro _ t ht; simp at ht
      | cons x rest ih =>
        intro hgl t ht
        rw [AllGoodL] at hgl
        rcases List.mem_cons.mp ht with rfl | ht
        · exact hgl.1
        · exact ih hgl.2 t ht
    exact this roots hg t ht
  have hne : roots ≠ [] := by intro h; rw [h] at ht; simp at ht
  have hwant := want_growRoot f exts ts hts t hgt
  cases t with
  | mk n sub =>
  rw [AllGoodT] at hgt
  have hgn : GoodList (ts ++ [n]) := goodList_snoc hts hgt.1
  have hrootPath : filepathJoin [key ts, n] = key (ts ++ [n]) := by
    have := filepathJoin_key ts [n] hts.1 (by simp) (goodList_elems hts) (by simpa using hgt.1.1)
    simpa [joinSlash] using this
  have hsub_in : ∀ e ∈ pathsOf exts ts [T.mk n sub], e ∈ pathsOf exts ts roots :=
    fun e he => (pathsOf_mem_split exts ts roots e).mpr ⟨T.mk n sub, ht, he⟩
  have hrootmem := root_in_pathsOf exts ts n sub
  -- the root's status afterwards
  have hrootk : fs'.lookup (key (ts ++ [n])) = some (kindOfFlag (isFileNode exts n (!sub.isEmpty))) :=
    hex.nodes _ (hsub_in _ hrootmem)
  have hdirs : ∀ i < (ts ++ [n]).length - 1, fs'.lookup (key ((ts ++ [n]).take (i + 1))) = some Kind.dir := by
    intro i hi
    have hi' : i < ts.length := by simpa using hi
    rw [take_snoc_lt ts n i hi']
    cases hl : fs.lookup (key (ts.take (i + 1))) with
    | none => exact hex.make hne i hi' hl
    | some k =>
      cases k with
      | dir => exact hex.keep i hi' _ hl
      | file m => exact absurd hl (hnf i hi' m)
  have hstat := stat_key hgn _ hdirs hrootk
  simp only [verifyRoot, growRoot, List.head?_cons, hrootPath, hstat]
  have hwant' : (growRoot f (T.mk n sub)).map (fun v => filepathJoin [key ts, v.path])
      = (pathsOf exts ts [T.mk n sub]).map (fun e => key e.1) := hwant
  simp only [growRoot] at hwant'
  rw [hwant']
  by_cases hfile : isFileNode exts n (!sub.isEmpty) = true
  · -- the root is a regular file: only itself is wanted
    have hsub : sub = [] := by
      cases sub with
      | nil => rfl
      | cons s ss => simp [isFileNode] at hfile
    subst hsub
    simp only [hfile, kindOfFlag, if_true]
    refine ⟨_, rfl, ?_, rfl⟩
    simp [pathsOf]
  · have hff : isFileNode exts n (!sub.isEmpty) = false := by simpa using hfile
    simp only [hff, kindOfFlag, Bool.false_eq_true, if_false]
    refine ⟨_, rfl, ?_, ?_⟩
    · -- nothing missing
      simp only
      rw [List.filter_eq_nil_iff]
      intro p hp
      simp only [List.mem_map] at hp
      obtain ⟨e, he, rfl⟩ := hp
      obtain ⟨hge, k, hk, tail, hshape⟩ := pathsOf_shape exts [T.mk n sub] ts hts (by simp [AllGoodL, AllGoodT, hgt.1, hgt.2]) e he
      simp only [List.mem_singleton] at hk
      subst hk
      simp only [T.name] at hshape
      simp only [List.contains_eq_mem, List.mem_cons, Bool.not_eq_eq_eq_not, Bool.not_true, decide_eq_false_iff_not, Decidable.not_not]
      cases tail with
      | nil => left; rw [hshape]
      | cons x xs =>
        right
        rw [mem_under_iff]
        have hsplit : ts ++ n :: x :: xs = (ts ++ [n]) ++ (x :: xs) := by simp
        refine ⟨?_, ?_⟩
        · rw [hex.nodes e (hsub_in e he)]; simp
        · rw [hshape, hsplit]
          exact isBelow_of_append hgn (by simp) (by rw [← hsplit, ← hshape]; exact hge)
    · -- nothing extra
      simp only
      rw [List.filter_eq_nil_iff]
      intro q hq
      simp only [List.contains_eq_mem, List.mem_map, Bool.not_eq_eq_eq_not, Bool.not_true, decide_eq_false_iff_not, Decidable.not_not]
      rcases List.mem_cons.mp hq with rfl | hq
      · exact ⟨_, hrootmem, rfl⟩
      · rw [mem_under_iff] at hq
        obtain ⟨hlq, hbelow⟩ := hq
        by_cases hnode : ∃ e ∈ pathsOf exts ts roots, q = key e.1
        · obtain ⟨e, he, rfl⟩ := hnode
          obtain ⟨k, hk, hek⟩ := (pathsOf_mem_split exts ts roots e).mp he
          have hgk : AllGoodL [k] := by
            have : ∀ (ks : List T), AllGoodL ks → ∀ t ∈ ks, AllGoodT t := by
              intro ks
              induction ks with
              | nil => intro _ t ht; simp at ht
              | cons x rest ih =>
                intro hgl t ht
                rw [AllGoodL] at hgl
                rcases List.mem_cons.mp ht with rfl | ht
                · exact hgl.1
                · exact ih hgl.2 t ht
            simp [AllGoodL, this roots hg k hk]
          obtain ⟨hge, k', hk', tail, hshape⟩ := pathsOf_shape exts [k] ts hts hgk e hek
          simp only [List.mem_singleton] at hk'
          subst hk'
          obtain ⟨tail', _, htl⟩ := isBelow_key hgn hge hbelow
          have hname : k'.name = n := by
            rw [hshape] at htl
            have : ts ++ k'.name :: tail = ts ++ (n :: tail') := by simpa using htl
            have := List.append_cancel_left this
            simpa using (List.cons.inj this).1
          have hkeq : k' = T.mk n sub := distinct_name_eq roots hd k' hk (T.mk n sub) ht (by simpa [T.name] using hname)
          subst hkeq
          exact ⟨e, hek, rfl⟩
        · by_cases hpre : ∃ i < ts.length, q = key (ts.take (i + 1))
          · exfalso
            obtain ⟨i, hi, rfl⟩ := hpre
            obtain ⟨tail', _, htl⟩ := isBelow_key hgn (goodList_take hts i) hbelow
            have := congrArg List.length htl
            simp only [List.length_take, List.length_append, List.length_cons, List.length_nil] at this
            omega
          · exfalso
            have hframe := hex.frame q (fun e he hqe => hnode ⟨e, he, hqe⟩) (fun i hi hqe => hpre ⟨i, hi, hqe⟩)
            rw [hframe] at hlq
            obtain ⟨es, hges, rfl⟩ := hcanon q hlq
            obtain ⟨tail', _, htl⟩ := isBelow_key hgn hges hbelow
            have hlen : ts.length < es.length := by rw [htl]; simp
            have := hc es hges hlq ts.length hlen
            have htake : es.take (ts.length + 1) = ts ++ [n] := by
              rw [htl]; exact List.take_left' (by simp)
            rw [htake] at this
            exact this (habs _ (hsub_in _ hrootmem))

end Gtree
