import Gtree.Lemmas.MkBridge
/-
  The grown visits of a root, joined with the target, are the element-list paths `pathsOf` (with the
  same "is a file" flag); Stat / WalkDir of the model file system on such keys.
-/
namespace Gtree

section visits
variable (f : Fmt) (exts : List Bytes) (ts : List Bytes) (r : Bytes)

/-- what the mkdirer / verifier / dry-run counter sees of a visit: its joined path and its file flag -/
def seen (exts : List Bytes) (target : Bytes) (v : Visit) : Bytes × Bool :=
  (filepathJoin [target, v.path], isFileNode exts v.name v.hasChild)

def seenSpec (e : List Bytes × Bool) : Bytes × Bool := (key e.1, e.2)

theorem join_pathOf (hts : GoodList ts) (hr : GoodElem r) (anc : List Anc) (hanc : ∀ a ∈ anc, GoodElem a.1)
    (n : Bytes) (hn : GoodElem n) :
    filepathJoin [key ts, pathOf r n anc] = key (parentOf ts r anc ++ [n]) := by
  have hP := parent_elems (ts := ts) hr anc hanc
  have hpath : pathOf r n anc = joinSlash ((r :: anc.reverse.map (·.1)) ++ [n]) := by
    rw [pathOf_valid r n anc hr.1 hn.1 (fun a ha => (hanc a ha).1)]; simp
  have hPn : ∀ e ∈ (r :: anc.reverse.map (·.1)) ++ [n], Elem e := by
    intro e he
    rcases List.mem_append.mp he with he | he
    · exact hP e he
    · simp only [List.mem_singleton] at he; subst he; exact hn.1
  rw [hpath, filepathJoin_key ts _ hts.1 (by simp) (goodList_elems hts) hPn]
  simp [parentOf]

theorem seen_growKids (hts : GoodList ts) (hr : GoodElem r) : ∀ (ks : List T) (anc : List Anc) (lvl : Nat),
    AllGoodL ks → (∀ a ∈ anc, GoodElem a.1) →
    (growKids f r anc lvl ks).map (seen exts (key ts)) = (pathsOf exts (parentOf ts r anc) ks).map seenSpec
  | [], anc, lvl, _, _ => by simp [growKids, pathsOf]
  | [T.mk n sub], anc, lvl, hg, hanc => by
    rw [AllGoodL, AllGoodT] at hg
    have hanc' : ∀ a ∈ (n, true) :: anc, GoodElem a.1 := by
      intro a ha
      rcases List.mem_cons.mp ha with rfl | ha
      · exact hg.1.1
      · exact hanc a ha
    have ih := seen_growKids hts hr sub ((n, true) :: anc) (lvl + 1) hg.1.2 hanc'
    rw [parentOf_cons] at ih
    simp only [growKids, growNode, pathsOf, List.map_cons, List.map_append, List.map_nil, List.append_nil, ih]
    simp only [seen, seenSpec, join_pathOf ts r hts hr anc hanc n hg.1.1]
  | T.mk n sub :: t2 :: rest, anc, lvl, hg, hanc => by
    rw [AllGoodL, AllGoodT] at hg
    have hanc' : ∀ a ∈ (n, false) :: anc, GoodElem a.1 := by
      intro a ha
      rcases List.mem_cons.mp ha with rfl | ha
      · exact hg.1.1
      · exact hanc a ha
    have ih := seen_growKids hts hr sub ((n, false) :: anc) (lvl + 1) hg.1.2 hanc'
    rw [parentOf_cons] at ih
    have ih2 := seen_growKids hts hr (t2 :: rest) anc lvl hg.2 hanc
    rw [growKids, List.map_append, ih2]
    simp only [growNode, pathsOf, List.map_cons, List.map_append, ih]
    simp only [seen, seenSpec, join_pathOf ts r hts hr anc hanc n hg.1.1, List.cons_append]
termination_by ks => sizeOf ks
decreasing_by
  all_goals simp_wf
  all_goals omega

/-- the visits of a grown root, as the mkdirer / verifier / counter see them -/
theorem seen_growRoot (hts : GoodList ts) (t : T) (ht : AllGoodT t) :
    (growRoot f t).map (seen exts (key ts)) = (pathsOf exts ts [t]).map seenSpec := by
  cases t with
  | mk n sub =>
    rw [AllGoodT] at ht
    have hfull : filepathJoin [key ts, n] = key (ts ++ [n]) := by
      have := filepathJoin_key ts [n] hts.1 (by simp) (goodList_elems hts) (by simpa using ht.1.1)
      simpa [joinSlash] using this
    have ih := seen_growKids f exts ts n hts ht.1 sub [] 2 ht.2 (by simp)
    have hp : parentOf ts n [] = ts ++ [n] := by simp [parentOf]
    rw [hp] at ih
    simp only [growRoot, pathsOf, List.map_cons, List.map_append, List.map_nil, List.append_nil, ih]
    simp only [seen, seenSpec, hfull]

end visits
end Gtree

namespace Gtree

/-! ### Stat on a key whose ancestors are directories -/

theorem stat_go_dirs (fs : FS) (last : Bytes) (k : Kind) (hk : fs.kindOf last = some k) (hl : lastTooLong last = false) :
    ∀ (l : List Bytes), (∀ q ∈ l, fs.kindOf q = some Kind.dir ∧ lastTooLong q = false) → FS.stat.go fs (l ++ [last]) = .ok k
  | [], _ => by simp [FS.stat.go, hk, hl]
  | q :: l, h => by
    have hq := h q (by simp)
    have ih := stat_go_dirs fs last k hk hl l (fun x hx => h x (by simp [hx]))
    cases l with
    | nil => simp only [List.cons_append, List.nil_append, FS.stat.go, hq.1, hq.2, hk, hl, Bool.false_eq_true, if_false]
    | cons q2 qs =>
      simp only [List.cons_append, FS.stat.go, hq.1, hq.2, Bool.false_eq_true, if_false]
      simpa using ih

theorem prefixesOf_key_snoc {es : List Bytes} (h : GoodList es) :
    prefixesOf (key es) = (List.range (es.length - 1)).map (fun i => key (es.take (i + 1))) ++ [key es] := by
  rw [prefixesOf_key h]
  have hl : es.length = (es.length - 1) + 1 := by
    have : es.length ≠ 0 := by
      intro h0; exact h.1 (List.length_eq_zero_iff.mp h0)
    omega
  conv => lhs; rw [hl, List.range_succ, List.map_append]
  simp only [List.map_cons, List.map_nil]
  rw [← hl, List.take_length]

theorem stat_key {fs : FS} {es : List Bytes} (hg : GoodList es) (k : Kind)
    (hdirs : ∀ i < es.length - 1, fs.lookup (key (es.take (i + 1))) = some Kind.dir)
    (hk : fs.lookup (key es) = some k) :
    fs.stat (key es) = .ok k := by
  simp only [FS.stat, hasNul_key hg, isAmbient_key hg, Bool.false_eq_true, if_false]
  rw [prefixesOf_key_snoc hg]
  apply stat_go_dirs fs (key es) k (by rw [kindOf_key hg]; exact hk) (lastTooLong_key hg)
  intro q hq
  simp only [List.mem_map, List.mem_range] at hq
  obtain ⟨i, hi, rfl⟩ := hq
  rw [kindOf_key (goodList_take hg i)]
  exact ⟨hdirs i hi, lastTooLong_key (goodList_take hg i)⟩

/-! ### "below" on keys -/

theorem splitSlash_key_append : ∀ (a : List Bytes) (rest : Bytes), a ≠ [] → (∀ e ∈ a, slash ∉ e) →
    splitSlash (joinSlash a ++ slash :: rest) = a ++ splitSlash rest
  | [], _, h, _ => absurd rfl h
  | [e], rest, _, hs => by simpa [joinSlash] using splitSlash_append e rest (hs e (by simp))
  | e :: e2 :: r, rest, _, hs => by
    have ih := splitSlash_key_append (e2 :: r) rest (by simp) (fun x hx => hs x (by simp [hx]))
    have : joinSlash (e :: e2 :: r) ++ slash :: rest = e ++ slash :: (joinSlash (e2 :: r) ++ slash :: rest) := by
      simp [joinSlash]
    rw [this, splitSlash_append e _ (hs e (by simp)), ih]
    simp

theorem key_ne_dot {a : List Bytes} (ha : GoodList a) : key a ≠ [dot] := by
  intro h
  have hs := splitSlash_key ha
  rw [h] at hs
  have hd : splitSlash [dot] = [[dot]] := by decide
  rw [hd] at hs
  have := (ha.2 [dot] (by rw [← hs]; simp)).1.2.1
  exact this rfl

/-- a key strictly below another key extends its element list -/
theorem isBelow_key {a es : List Bytes} (ha : GoodList a) (hes : GoodList es) (h : isBelow (key a) (key es) = true) :
    ∃ tail, tail ≠ [] ∧ es = a ++ tail := by
  unfold isBelow at h
  have hd : (key a == [dot]) = false := by simpa using key_ne_dot ha
  simp only [hd, Bool.false_eq_true, if_false, Bool.and_eq_true, List.isPrefixOf_iff_prefix, decide_eq_true_eq] at h
  obtain ⟨⟨rest, hrest⟩, _⟩ := h
  have hs := splitSlash_key hes
  rw [← hrest] at hs
  have : key a ++ [slash] ++ rest = joinSlash a ++ slash :: rest := by simp
  rw [this, splitSlash_key_append a rest ha.1 (fun e he => (ha.2 e he).1.2.2.2)] at hs
  exact ⟨splitSlash rest, splitSlash_ne_nil rest, hs.symm⟩

theorem key_append {a tail : List Bytes} (ha : a ≠ []) (ht : tail ≠ []) : key (a ++ tail) = key a ++ slash :: key tail :=
  joinSlash_append a tail ha ht

/-- … and conversely -/
theorem isBelow_of_append {a tail : List Bytes} (ha : GoodList a) (ht : tail ≠ []) (hg : GoodList (a ++ tail)) :
    isBelow (key a) (key (a ++ tail)) = true := by
  unfold isBelow
  have hd : (key a == [dot]) = false := by simpa using key_ne_dot ha
  have htn : key tail ≠ [] := joinSlash_ne_nil tail ht (fun e he => (hg.2 e (by simp [he])).1.1)
  simp only [hd, Bool.false_eq_true, if_false, Bool.and_eq_true, List.isPrefixOf_iff_prefix, decide_eq_true_eq]
  rw [key_append ha.1 ht]
  refine ⟨⟨key tail, by simp⟩, ?_⟩
  have : 0 < (key tail).length := List.length_pos_iff.mpr htn
  simp only [List.length_append, List.length_cons]
  omega

/-! ### membership in the walk -/

theorem lookup_ne_none_iff (fs : FS) (p : Bytes) : fs.lookup p ≠ none ↔ p ∈ fs.map (·.1) := by
  unfold FS.lookup
  constructor
  · intro h
    cases hf : fs.find? (fun e => e.1 == p) with
    | none => simp [hf] at h
    | some x =>
      have hx := List.find?_some hf
      have hm := List.mem_of_find?_eq_some hf
      have : x.1 = p := by simpa using hx
      exact List.mem_map.mpr ⟨x, hm, this⟩
  · intro h
    obtain ⟨x, hm, hx⟩ := List.mem_map.mp h
    cases hf : fs.find? (fun e => e.1 == p) with
    | none =>
      have := List.find?_eq_none.mp hf x hm
      simp [hx] at this
    | some y => simp

theorem mem_under_iff (fs : FS) (root q : Bytes) : q ∈ fs.under root ↔ fs.lookup q ≠ none ∧ isBelow root q = true := by
  rw [lookup_ne_none_iff]
  unfold FS.under
  simp only [List.mem_map, List.mem_filter]
  constructor
  · rintro ⟨x, ⟨hm, hb⟩, rfl⟩
    exact ⟨⟨x, hm, rfl⟩, hb⟩
  · rintro ⟨⟨x, hm, rfl⟩, hb⟩
    exact ⟨x, ⟨hm, hb⟩, rfl⟩

end Gtree
