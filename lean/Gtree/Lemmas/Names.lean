import Gtree.Model.Generate
/-
  Nothing the user wrote is dropped: every item the builder accepts is the name of a node of the
  tree under construction, and popping / re-opening nodes never loses a name.
-/
namespace Gtree

mutual
/-- all names occurring in a tree -/
def namesT : T → List Bytes
  | .mk n ks => n :: namesL ks
def namesL : List T → List Bytes
  | [] => []
  | t :: ts => namesT t ++ namesL ts
end

theorem namesL_append (a b : List T) : namesL (a ++ b) = namesL a ++ namesL b := by
  induction a with
  | nil => simp [namesL]
  | cons t ts ih => simp [namesL, ih]

def namesF (f : Frame) : List Bytes := f.name :: (namesL f.left ++ namesL f.right)

def namesZ : Zipper → List Bytes
  | [] => []
  | f :: rest => namesF f ++ namesZ rest

theorem mem_namesZ_upOne (x : Bytes) (z : Zipper) : x ∈ namesZ (upOne z) ↔ x ∈ namesZ z := by
  match z with
  | [] => simp [upOne]
  | [f] => simp [upOne]
  | f :: p :: rest =>
    simp only [upOne, namesZ, namesF, Frame.close, namesL_append, namesL, namesT, List.mem_append, List.mem_cons,
      List.append_nil]
    grind

theorem mem_namesZ_upN (x : Bytes) (k : Nat) (z : Zipper) : x ∈ namesZ (upN k z) ↔ x ∈ namesZ z := by
  induction k generalizing z with
  | zero => rfl
  | succ k ih => rw [upN, ih, mem_namesZ_upOne]

theorem mem_namesZ_closeTo (x : Bytes) (n : Nat) (z : Zipper) : x ∈ namesZ (closeTo n z) ↔ x ∈ namesZ z :=
  mem_namesZ_upN x _ z

/-- `splitAtName` really splits the list at a child called `x` -/
theorem splitAtName_spec (x : Bytes) : ∀ (kids : List T) (l : List T) (c : T) (r : List T),
    splitAtName x kids = some (l, c, r) → kids = l ++ c :: r ∧ c.name = x
  | [], _, _, _, h => by simp [splitAtName] at h
  | t :: ts, l, c, r, h => by
    by_cases ht : (t.name == x) = true
    · simp only [splitAtName, ht, if_true, Option.some.injEq, Prod.mk.injEq] at h
      obtain ⟨h1, h2, h3⟩ := h
      subst h1 h2 h3
      exact ⟨rfl, by simpa using ht⟩
    · simp only [splitAtName, ht, Bool.false_eq_true, if_false] at h
      cases hs : splitAtName x ts with
      | none => simp [hs] at h
      | some p =>
        obtain ⟨l', c', r'⟩ := p
        simp only [hs, Option.some.injEq, Prod.mk.injEq] at h
        obtain ⟨rfl, rfl, rfl⟩ := h
        obtain ⟨h1, h2⟩ := splitAtName_spec x ts l' c' r' hs
        exact ⟨by rw [h1]; rfl, h2⟩

/-- attaching (or re-opening) `x` keeps every name and makes `x` one of them -/
theorem mem_namesZ_descend (x y : Bytes) (f : Frame) (rest : Zipper) :
    y ∈ namesZ (descend x (f :: rest)) ↔ (y = x ∨ y ∈ namesZ (f :: rest)) := by
  simp only [descend]
  cases hs : splitAtName x (f.left ++ f.right) with
  | none =>
    simp only [namesZ, namesF, namesL, namesL_append, List.mem_append, List.mem_cons, List.append_nil]
    grind
  | some p =>
    obtain ⟨l, c, r⟩ := p
    obtain ⟨hk, hc⟩ := splitAtName_spec x _ l c r hs
    have hnames : namesL f.left ++ namesL f.right = namesL l ++ (c.name :: namesL c.kids ++ namesL r) := by
      rw [← namesL_append, hk, namesL_append]
      cases c with
      | mk cn ck => simp [namesL, namesT]
    simp only [namesZ, namesF, namesL, List.append_nil, List.mem_append, List.mem_cons] at *
    have hm : ∀ w, (w ∈ namesL f.left ∨ w ∈ namesL f.right) ↔ (w ∈ namesL l ∨ w = c.name ∨ w ∈ namesL c.kids ∨ w ∈ namesL r) := by
      intro w
      have := congrArg (fun L => w ∈ L) hnames
      simp only [List.mem_append, List.mem_cons, eq_iff_iff] at this
      grind
    have := hm y
    grind

end Gtree
