import Gtree.Model.Programmable
import Gtree.Lemmas.Distinct
/-
  The arena invariant of NewRoot / Add: children have larger ids than their parent, and the children
  of one node have pairwise different names. Hence every tree handed to a From-Root entry point has
  pairwise distinct sibling names at every level (`DistinctT`), whatever sequence of NewRoot / Add
  calls built it.
-/
namespace Gtree

def Store.nameOf (s : Store) (c : Nat) : Bytes :=
  match s.get? c with
  | some n => n.name
  | none => []

structure Store.WF (s : Store) : Prop where
  bound : ∀ i p, s.get? i = some p → ∀ c ∈ p.children, i < c ∧ c < s.nodes.length
  names : ∀ i p, s.get? i = some p → (p.children.map s.nameOf).Nodup

theorem Store.wf_empty : Store.WF {} :=
  ⟨fun i p h => by simp [Store.get?] at h, fun i p h => by simp [Store.get?] at h⟩

theorem distinctL_map {α} (g : α → T) : ∀ (l : List α), (l.map (fun c => (g c).name)).Nodup → (∀ c ∈ l, DistinctT (g c)) →
    DistinctL (l.map g)
  | [], _, _ => by simp [DistinctL]
  | c :: l, hn, hd => by
    simp only [List.map_cons, List.nodup_cons] at hn
    simp only [List.map_cons]
    rw [DistinctL]
    refine ⟨?_, hd c (by simp), distinctL_map g l hn.2 (fun x hx => hd x (by simp [hx]))⟩
    intro u hu
    obtain ⟨x, hx, rfl⟩ := List.mem_map.mp hu
    intro he
    exact hn.1 (List.mem_map.mpr ⟨x, hx, he⟩)

theorem Store.toT_name (s : Store) (fuel id : Nat) : (s.toT (fuel + 1) id).name = s.nameOf id := by
  simp only [Store.toT, Store.nameOf]
  cases s.get? id <;> simp [T.name]

theorem Store.toT_distinct (s : Store) (h : s.WF) : ∀ (fuel id : Nat), s.nodes.length + 1 ≤ fuel + id →
    DistinctT (s.toT fuel id)
  | 0, _, _ => by simp [Store.toT, DistinctT, DistinctL]
  | fuel + 1, id, hf => by
    simp only [Store.toT]
    cases hg : s.get? id with
    | none => simp [DistinctT, DistinctL]
    | some n =>
      simp only
      rw [DistinctT]
      have hid : id < s.nodes.length := by
        simp only [Store.get?] at hg
        exact (List.getElem?_eq_some_iff.mp hg).1
      have hfuel : ∃ f', fuel = f' + 1 := ⟨fuel - 1, by omega⟩
      obtain ⟨f', rfl⟩ := hfuel
      apply distinctL_map
      · have : (fun c => (s.toT (f' + 1) c).name) = s.nameOf := by
          funext c; exact s.toT_name f' c
        rw [this]
        exact h.names id n hg
      · intro c hc
        have := (h.bound id n hg c hc).1
        exact Store.toT_distinct s h (f' + 1) c (by omega)

/-- every tree read off a well-formed arena has pairwise distinct sibling names -/
theorem Store.tree_distinct (s : Store) (h : s.WF) (id : Nat) : DistinctT (s.tree id) :=
  s.toT_distinct h _ id (by omega)

theorem Store.wf_newRoot (s : Store) (h : s.WF) (name : Bytes) : (s.newRoot name).1.WF := by
  have hget : ∀ i, (s.newRoot name).1.get? i =
      if i < s.nodes.length then s.get? i
      else if i = s.nodes.length then some { name := name, hierarchy := 1, index := s.idxCounter + 1, children := [] } else none := by
    intro i
    simp only [Store.newRoot, Store.get?]
    by_cases hi : i < s.nodes.length
    · simp [hi, List.getElem?_append_left hi]
    · by_cases he : i = s.nodes.length
      · subst he; simp
      · have : s.nodes.length + 1 ≤ i := by omega
        simp [hi, he]; omega
  have hlen : (s.newRoot name).1.nodes.length = s.nodes.length + 1 := by simp [Store.newRoot]
  have hname : ∀ c, c < s.nodes.length → (s.newRoot name).1.nameOf c = s.nameOf c := by
    intro c hc
    simp only [Store.nameOf, hget c, hc, if_true]
  constructor
  · intro i p hp c hc
    rw [hget i] at hp
    by_cases hi : i < s.nodes.length
    · simp only [hi, if_true] at hp
      have := h.bound i p hp c hc
      rw [hlen]; omega
    · by_cases he : i = s.nodes.length
      · rw [if_neg hi, if_pos he] at hp
        simp only [Option.some.injEq] at hp
        subst hp; simp at hc
      · simp [hi, he] at hp
  · intro i p hp
    rw [hget i] at hp
    by_cases hi : i < s.nodes.length
    · simp only [hi, if_true] at hp
      have hb := h.bound i p hp
      have : p.children.map (s.newRoot name).1.nameOf = p.children.map s.nameOf :=
        List.map_congr_left (fun c hc => hname c (hb c hc).2)
      rw [this]
      exact h.names i p hp
    · by_cases he : i = s.nodes.length
      · rw [if_neg hi, if_pos he] at hp
        simp only [Option.some.injEq] at hp
        subst hp; simp
      · simp [hi, he] at hp

theorem Store.findChild_none (s : Store) (p : PNode) (name : Bytes) (h : s.findChild p name = none) :
    ∀ c ∈ p.children, ∀ cn, s.get? c = some cn → cn.name ≠ name := by
  intro c hc cn hcn
  simp only [Store.findChild] at h
  have := List.find?_eq_none.mp h c hc
  simpa [hcn] using this

/-- the store after `Add` created a new child -/
def Store.added (s : Store) (pid : Nat) (p : PNode) (name : Bytes) : Store :=
  { nodes := (s.nodes ++ [({ name := name, hierarchy := p.hierarchy + 1, index := s.idxCounter + 1, children := [] } : PNode)]).mapIdx
      (fun (i : Nat) (n : PNode) => if i == pid then { n with children := n.children ++ [s.nodes.length] } else n),
    idxCounter := s.idxCounter + 1 }

theorem Store.add_new (s : Store) (pid : Nat) (p : PNode) (name : Bytes)
    (hp : s.get? pid = some p) (hc : s.findChild p name = none) :
    s.add pid name = (s.added pid p name, some s.nodes.length) := by
  simp only [Store.add, hp, hc, Store.added]

theorem Store.get?_added (s : Store) (pid : Nat) (p : PNode) (name : Bytes) (hp : s.get? pid = some p) (i : Nat) :
    (s.added pid p name).get? i =
      if i < s.nodes.length then
        (if i = pid then some { p with children := p.children ++ [s.nodes.length] } else s.get? i)
      else if i = s.nodes.length then
        some { name := name, hierarchy := p.hierarchy + 1, index := s.idxCounter + 1, children := [] }
      else none := by
  have hpid : pid < s.nodes.length := by
    simp only [Store.get?] at hp
    exact (List.getElem?_eq_some_iff.mp hp).1
  simp only [Store.added, Store.get?, List.getElem?_mapIdx]
  by_cases hi : i < s.nodes.length
  · rw [if_pos hi, List.getElem?_append_left hi]
    by_cases he : i = pid
    · subst he
      simp only [Store.get?] at hp
      simp [hp]
    · have : (i == pid) = false := by simpa using he
      simp only [if_neg he]
      cases s.nodes[i]? <;> simp [this]
  · rw [if_neg hi]
    by_cases he : i = s.nodes.length
    · have hne : (i == pid) = false := by simp; omega
      subst he
      simp [hne]
    · rw [if_neg he]
      have : s.nodes.length + 1 ≤ i := by omega
      have hnone : (s.nodes ++ [({ name := name, hierarchy := p.hierarchy + 1, index := s.idxCounter + 1, children := [] } : PNode)])[i]? = none := by
        rw [List.getElem?_eq_none_iff]; simp; omega
      simp [hnone]

theorem Store.wf_added (s : Store) (h : s.WF) (pid : Nat) (p : PNode) (name : Bytes)
    (hp : s.get? pid = some p) (hc : s.findChild p name = none) : (s.added pid p name).WF := by
  have hpid : pid < s.nodes.length := by
    simp only [Store.get?] at hp
    exact (List.getElem?_eq_some_iff.mp hp).1
  have hget := s.get?_added pid p name hp
  have hlen : (s.added pid p name).nodes.length = s.nodes.length + 1 := by simp [Store.added]
  have hname : ∀ c, c < s.nodes.length → (s.added pid p name).nameOf c = s.nameOf c := by
    intro c hcl
    simp only [Store.nameOf, hget c, hcl, if_true]
    by_cases he : c = pid
    · subst he; simp [hp]
    · simp [he]
  have hnew : (s.added pid p name).nameOf s.nodes.length = name := by
    simp [Store.nameOf, hget s.nodes.length]
  constructor
  · intro i q hq c hcq
    rw [hget i] at hq
    rw [hlen]
    by_cases hi : i < s.nodes.length
    · rw [if_pos hi] at hq
      by_cases he : i = pid
      · rw [if_pos he] at hq
        simp only [Option.some.injEq] at hq
        subst hq
        simp only [List.mem_append, List.mem_singleton] at hcq
        rcases hcq with hcq | rfl
        · have := h.bound pid p hp c hcq
          omega
        · omega
      · rw [if_neg he] at hq
        have := h.bound i q hq c hcq
        omega
    · rw [if_neg hi] at hq
      by_cases he : i = s.nodes.length
      · rw [if_pos he] at hq
        simp only [Option.some.injEq] at hq
        subst hq; simp at hcq
      · simp [he] at hq
  · intro i q hq
    rw [hget i] at hq
    by_cases hi : i < s.nodes.length
    · rw [if_pos hi] at hq
      by_cases he : i = pid
      · rw [if_pos he] at hq
        simp only [Option.some.injEq] at hq
        subst hq
        simp only [List.map_append, List.map_cons, List.map_nil, hnew]
        have hb := h.bound pid p hp
        have hold : p.children.map (s.added pid p name).nameOf = p.children.map s.nameOf :=
          List.map_congr_left (fun c hcc => hname c (hb c hcc).2)
        rw [hold, List.nodup_append]
        refine ⟨h.names pid p hp, by simp, ?_⟩
        intro a ha b hb' hab
        simp only [List.mem_singleton] at hb'
        subst hb'
        obtain ⟨c, hcc, rfl⟩ := List.mem_map.mp ha
        have hcl := (hb c hcc).2
        cases hgc : s.get? c with
        | none =>
          simp only [Store.get?] at hgc
          rw [List.getElem?_eq_none_iff] at hgc
          omega
        | some cn =>
          have := s.findChild_none p _ hc c hcc cn hgc
          apply this
          simpa [Store.nameOf, hgc] using hab
      · rw [if_neg he] at hq
        have hb := h.bound i q hq
        have : q.children.map (s.added pid p name).nameOf = q.children.map s.nameOf :=
          List.map_congr_left (fun c hcc => hname c (hb c hcc).2)
        rw [this]
        exact h.names i q hq
    · rw [if_neg hi] at hq
      by_cases he : i = s.nodes.length
      · rw [if_pos he] at hq
        simp only [Option.some.injEq] at hq
        subst hq; simp
      · simp [he] at hq

/-- `Add` keeps the arena well-formed -/
theorem Store.wf_add (s : Store) (h : s.WF) (pid : Nat) (name : Bytes) : (s.add pid name).1.WF := by
  cases hp : s.get? pid with
  | none => simpa [Store.add, hp] using h
  | some p =>
    cases hc : s.findChild p name with
    | some c => simpa [Store.add, hp, hc] using h
    | none =>
      rw [s.add_new pid p name hp hc]
      exact s.wf_added h pid p name hp hc

/-- the calls a client can make to build trees -/
inductive BuildOp where
  | newRoot (name : Bytes)
  | add (parent : Nat) (name : Bytes)

def Store.apply (s : Store) : BuildOp → Store
  | .newRoot n => (s.newRoot n).1
  | .add p n => (s.add p n).1

/-- every store reachable by NewRoot / Add calls is well-formed … -/
theorem Store.wf_reachable (ops : List BuildOp) : (ops.foldl Store.apply {}).WF := by
  have : ∀ (ops : List BuildOp) (s : Store), s.WF → (ops.foldl Store.apply s).WF := by
    intro ops
    induction ops with
    | nil => intro s h; exact h
    | cons o os ih =>
      intro s h
      apply ih
      cases o with
      | newRoot n => exact s.wf_newRoot h n
      | add p n => exact s.wf_add h p n
  exact this ops {} Store.wf_empty

/-- … so every tree a From-Root entry point can be handed has pairwise distinct sibling names at every level -/
theorem Store.reachable_tree_distinct (ops : List BuildOp) (id : Nat) : DistinctT ((ops.foldl Store.apply {}).tree id) :=
  Store.tree_distinct _ (Store.wf_reachable ops) id

end Gtree
