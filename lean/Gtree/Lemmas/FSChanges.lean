import Gtree.Model.Mkdir
/-
  Which keys MkdirAll / Create / the mkdirer can change at all – for every path, every file system,
  every outcome (success or refusal): only the prefixes of the paths they are given.
-/
namespace Gtree

theorem lookup_append_ne (fs : FS) (x : Bytes) (k : Kind) (p : Bytes) (h : p ≠ x) :
    FS.lookup (fs ++ [(x, k)]) p = fs.lookup p := by
  unfold FS.lookup
  rw [List.find?_append]
  cases hf : fs.find? (fun e => e.1 == p) with
  | some e => simp
  | none =>
    have : ((x == p) = false) := by simpa using (Ne.symm h)
    simp [this]

theorem mkdirAll_go_changes : ∀ (l : List Bytes) (fs : FS) (p : Bytes), p ∉ l →
    (FS.mkdirAll.go fs l).1.lookup p = fs.lookup p
  | [], fs, p, _ => by simp [FS.mkdirAll.go]
  | q :: qs, fs, p, hp => by
    have hpq : p ≠ q := fun h => hp (by simp [h])
    have hpqs : p ∉ qs := fun h => hp (by simp [h])
    simp only [FS.mkdirAll.go]
    split
    · rfl
    · split
      · exact mkdirAll_go_changes qs fs p hpqs
      · rfl
      · rw [mkdirAll_go_changes qs _ p hpqs]
        exact lookup_append_ne fs q .dir p hpq

/-- MkdirAll changes nothing but prefixes of its argument -/
theorem mkdirAll_changes (fs : FS) (q p : Bytes) (hp : p ∉ prefixesOf q) : (fs.mkdirAll q).1.lookup p = fs.lookup p := by
  unfold FS.mkdirAll
  split
  · rfl
  · exact mkdirAll_go_changes _ fs p hp

theorem lookup_map_ne (fs : FS) (q p : Bytes) (k : Kind) (h : p ≠ q) :
    FS.lookup (fs.map (fun e => if e.1 == q then (q, k) else e)) p = fs.lookup p := by
  induction fs with
  | nil => rfl
  | cons e es ih =>
    unfold FS.lookup at ih ⊢
    simp only [List.map_cons, List.find?_cons]
    by_cases heq : (e.1 == q) = true
    · have he1 : e.1 = q := by simpa using heq
      have h1 : ((q == p) = false) := by simpa using (Ne.symm h)
      have h2 : ((e.1 == p) = false) := by rw [he1]; exact h1
      simp only [heq, if_true, h1, h2]
      exact ih
    · have heqf : (e.1 == q) = false := by simpa using heq
      simp only [heqf, Bool.false_eq_true, if_false]
      by_cases hep : (e.1 == p) = true
      · simp [hep]
      · have : (e.1 == p) = false := by simpa using hep
        simp only [this]
        exact ih

/-- Create changes nothing but its own path -/
theorem create_changes (fs : FS) (q p : Bytes) (hp : p ≠ q) : (fs.create q).1.lookup p = fs.lookup p := by
  simp only [FS.create]
  cases pathRefusal q with
  | some e => rfl
  | none =>
    simp only
    cases (List.findSome? fs.parentProblem (prefixesOf q).dropLast) with
    | some e => rfl
    | none =>
      simp only
      cases fs.kindOf q with
      | none => exact lookup_append_ne fs q _ p hp
      | some kd =>
        cases kd with
        | dir => rfl
        | file n => exact lookup_map_ne fs q p _ hp

/-- the paths the mkdirer hands to the file system for one visit -/
def touched (target : Bytes) (exts : List Bytes) (v : Visit) : List Bytes :=
  if isFileNode exts v.name v.hasChild then
    filepathJoin [target, v.path] :: prefixesOf (filepathJoin [target, trimSuffix v.path v.name])
  else if !v.hasChild then prefixesOf (filepathJoin [target, v.path])
  else []

/-- the mkdirer changes nothing but those -/
theorem mkNodes_changes (target : Bytes) (exts : List Bytes) : ∀ (vs : List Visit) (fs : FS) (p : Bytes),
    (∀ v ∈ vs, p ∉ touched target exts v) → (mkNodes target exts fs vs).1.lookup p = fs.lookup p
  | [], fs, p, _ => by simp [mkNodes]
  | v :: vs, fs, p, hp => by
    have hv := hp v (by simp)
    have hvs : ∀ w ∈ vs, p ∉ touched target exts w := fun w hw => hp w (by simp [hw])
    have ih := mkNodes_changes target exts vs
    simp only [mkNodes]
    by_cases hfile : isFileNode exts v.name v.hasChild = true
    · simp only [touched, hfile, if_true, List.mem_cons, not_or] at hv
      rw [if_pos hfile]
      have h1 := mkdirAll_changes fs (filepathJoin [target, trimSuffix v.path v.name]) p hv.2
      cases hm : fs.mkdirAll (filepathJoin [target, trimSuffix v.path v.name]) with
      | mk fs1 e1 =>
        rw [hm] at h1
        cases e1 with
        | some e => exact h1
        | none =>
          simp only
          have h2 := create_changes fs1 (filepathJoin [target, v.path]) p hv.1
          cases hc : fs1.create (filepathJoin [target, v.path]) with
          | mk fs2 e2 =>
            rw [hc] at h2
            cases e2 with
            | some e => simp only; rw [h2]; exact h1
            | none => simp only; rw [ih fs2 p hvs, h2]; exact h1
    · rw [if_neg hfile]
      by_cases hleaf : (!v.hasChild) = true
      · have hff : isFileNode exts v.name v.hasChild = false := by simpa using hfile
        simp only [touched, hff, Bool.false_eq_true, if_false, hleaf, if_true] at hv
        rw [if_pos hleaf]
        have h1 := mkdirAll_changes fs (filepathJoin [target, v.path]) p hv
        cases hm : fs.mkdirAll (filepathJoin [target, v.path]) with
        | mk fs1 e1 =>
          rw [hm] at h1
          cases e1 with
          | some e => exact h1
          | none => simp only; rw [ih fs1 p hvs]; exact h1
      · rw [if_neg hleaf]
        exact ih fs p hvs

end Gtree
