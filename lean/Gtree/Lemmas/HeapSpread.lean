import Gtree.Generated.Heap.Spread
import Gtree.Lemmas.HeapRepr
/-
  The text printer of the source (simple_tree_spreader.go: `defaultSpreaderSimple.spread`, `spreadBranch`),
  translated over the heap by /verif/translate (heap mode) with the caller's writer as a fault oracle: on every heap
  that holds a forest it issues one `Write` per node in pre-order — the node's row and a line feed — stops at the
  first `Write` that fails and returns that error.
-/
namespace Gtree.SrcH
open Gtree Gtree.Go

/-- write the chunks one after the other until a write fails -/
def writeAll : Writer → List Bytes → Writer × Option Src.Err
  | w, [] => (w, none)
  | w, c :: cs =>
    match fmt_Fprint w c with
    | (w', some e) => (w', some e)
    | (w', none) => writeAll w' cs

theorem writeAll_append : ∀ (a b : List Bytes) (w : Writer),
    writeAll w (a ++ b) =
      match writeAll w a with
      | (w', some e) => (w', some e)
      | (w', none) => writeAll w' b
  | [], b, w => by simp [writeAll]
  | c :: a, b, w => by
    simp only [List.cons_append, writeAll]
    rcases fmt_Fprint w c with ⟨w', e⟩
    cases e with
    | some e => rfl
    | none => exact writeAll_append a b w'

/-- `writeAll` is the model's `emit`: the bytes accepted, and whether a write failed -/
theorem writeAll_emit : ∀ (cs : List Bytes) (w : Writer),
    (writeAll w cs).1.out = w.out ++ (emit w.fault cs w.calls).1 ∧
    (writeAll w cs).2.isSome = (emit w.fault cs w.calls).2 ∧ (writeAll w cs).1.fault = w.fault
  | [], w => by simp [writeAll, emit]
  | c :: cs, w => by
    simp only [writeAll, emit, fmt_Fprint]
    by_cases hf : (w.fault.failAt == some w.calls) = true
    · simp [hf]
    · have hf' : (w.fault.failAt == some w.calls) = false := by simpa using hf
      simp only [hf', Bool.false_eq_true, if_false]
      have ih := writeAll_emit cs { w with calls := w.calls + 1, out := w.out ++ c }
      rcases he : emit w.fault cs (w.calls + 1) with ⟨rest, failed⟩
      simp only [he] at ih
      refine ⟨by rw [ih.1]; simp, ih.2.1, ih.2.2⟩

/-- the body of the loop of `spreadBranch` over the children -/
def spreadBody (ds : defaultSpreaderSimple) (h : Heap) (fuel : Nat) :
    Ptr → Writer → Go.Ctl Writer (Option (Writer × Option Src.Err)) :=
  fun child st_ =>
    match (defaultSpreaderSimple.spreadBranch fuel h st_ ds child) with
    | none => Go.Ctl.ret none
    | some r_ =>
      match r_ with
      | (w_, err) => if (Option.isSome err) then Go.Ctl.ret (some (w_, err)) else Go.Ctl.next w_

/-- the line `spreadBranch` writes for a node -/
def lineAt (h : Heap) (p : Ptr) : Bytes :=
  if Node.isRoot h p then (h p).name ++ [0x0A] else Node.branch h p ++ [0x20] ++ (h p).name ++ [0x0A]

theorem spreadBranch_unfold (fuel : Nat) (h : Heap) (w : Writer) (ds : defaultSpreaderSimple) (cur : Ptr) :
    defaultSpreaderSimple.spreadBranch (fuel + 1) h w ds cur =
      (match fmt_Fprint w (lineAt h cur) with
       | (w_, err) =>
         if (Option.isSome err) then some (w_, err)
         else
           match Go.forRange (h cur).children w_ (spreadBody ds h fuel) with
           | Go.Ctl.ret r_ => r_
           | Go.Ctl.brk st_ | Go.Ctl.next st_ => some (st_, none)) := by
  unfold lineAt
  rw [defaultSpreaderSimple.spreadBranch]
  cases Node.isRoot h cur <;> rfl

theorem lineAt_visit (h : Heap) (n : Bytes) (ks : List T) (p par : Ptr) (lvl : Nat) (hr : Repr h (.mk n ks) p par lvl) :
    lineAt h p = lineOf { name := (h p).name, branch := Node.branch h p, level := lvl, path := Node.path h p,
                          hasChild := Node.hasChild h p } := by
  rw [Repr] at hr
  obtain ⟨_, _, hl, _, _⟩ := hr
  unfold lineAt lineOf Visit.row Node.isRoot
  simp only [Src.rootHierarchyNum, hl]
  by_cases h1 : lvl = 1
  · subst h1; simp [lf]
  · have : ((lvl : Int) == 1) = false := by simp only [beq_eq_false_iff_ne, ne_eq]; omega
    have h1' : (lvl == 1) = false := by simpa using h1
    simp [this, h1', sp, lf]

mutual
theorem spread_node (ds : defaultSpreaderSimple) (h : Heap) : ∀ (t : T) (w : Writer) (p par : Ptr) (lvl fuel : Nat),
    Repr h t p par lvl → t.size ≤ fuel →
    defaultSpreaderSimple.spreadBranch fuel h w ds p = some (writeAll w ((readNode h t p lvl).map lineOf))
  | .mk n ks, w, p, par, lvl, fuel, hr, hf => by
    have hline := lineAt_visit h n ks p par lvl hr
    have hsz : T.size (.mk n ks) = 1 + sizeList ks := by simp [T.size]
    rw [hsz] at hf
    rw [Repr] at hr
    obtain ⟨_, _, _, _, hk⟩ := hr
    cases fuel with
    | zero => omega
    | succ fuel =>
      rw [spreadBranch_unfold, readNode, List.map_cons, writeAll, ← hline]
      rcases fmt_Fprint w (lineAt h p) with ⟨w1, e1⟩
      cases e1 with
      | some e => simp
      | none =>
        simp only [Option.isSome_none, Bool.false_eq_true, if_false]
        obtain ⟨hrun⟩ := spread_kids ds h ks w1 (h p).children p (lvl + 1) fuel hk (by omega)
        rw [hrun]
        rcases writeAll w1 ((readKids h ks (h p).children (lvl + 1)).map lineOf) with ⟨w2, e2⟩
        cases e2 <;> simp
theorem spread_kids (ds : defaultSpreaderSimple) (h : Heap) : ∀ (ts : List T) (w : Writer) (cs : List Ptr) (par : Ptr)
    (lvl fuel : Nat), ReprKids h ts cs par lvl → sizeList ts ≤ fuel →
    Nonempty (Go.forRange cs w (spreadBody ds h fuel) =
      (match writeAll w ((readKids h ts cs lvl).map lineOf) with
       | (w', some e) => Go.Ctl.ret (some (w', some e))
       | (w', none) => Go.Ctl.next w'))
  | [], w, cs, par, lvl, fuel, hr, _ => by
    rw [ReprKids] at hr; subst hr
    exact ⟨by simp [Go.forRange, readKids, writeAll]⟩
  | t :: ts, w, cs, par, lvl, fuel, hr, hf => by
    rw [ReprKids] at hr
    obtain ⟨c, cs', rfl, hrc, hrs⟩ := hr
    have hsz : sizeList (t :: ts) = t.size + sizeList ts := by simp [sizeList]
    rw [hsz] at hf
    have h1 := spread_node ds h t w c par lvl fuel hrc (by omega)
    refine ⟨?_⟩
    rw [Go.forRange, readKids, List.map_append, writeAll_append]
    simp only [spreadBody, h1]
    rcases writeAll w ((readNode h t c lvl).map lineOf) with ⟨w1, e1⟩
    cases e1 with
    | some e => simp
    | none =>
      simp only [Option.isSome_none, Bool.false_eq_true, if_false]
      obtain ⟨h2⟩ := spread_kids ds h ts w1 cs' par lvl fuel hrs (by omega)
      exact h2
end

/-- the body of the loop of `spread` over the roots -/
def spreadRootsBody (ds : defaultSpreaderSimple) (h : Heap) (fuel : Nat) :
    Ptr → Writer → Go.Ctl Writer (Option (Writer × Option Src.Err)) :=
  fun root st_ =>
    match (defaultSpreaderSimple.spreadBranch fuel h st_ ds root) with
    | none => Go.Ctl.ret none
    | some r_ =>
      match r_ with
      | (w_, err) => if (Option.isSome err) then Go.Ctl.ret (some (w_, err)) else Go.Ctl.next w_

theorem spread_roots_loop (ds : defaultSpreaderSimple) (h : Heap) : ∀ (ts : List T) (w : Writer) (rs : List Ptr)
    (fuel : Nat), ReprRoots h ts rs → sizeList ts ≤ fuel →
    (match Go.forRange rs w (spreadRootsBody ds h fuel) with
      | Go.Ctl.ret r_ => r_
      | Go.Ctl.brk st_ | Go.Ctl.next st_ => some (st_, none)) = some (writeAll w ((readKids h ts rs 1).map lineOf))
  | [], w, rs, fuel, hr, _ => by
    have : rs = [] := hr
    subst this
    simp [Go.forRange, readKids, writeAll]
  | t :: ts, w, rs, fuel, hr, hf => by
    obtain ⟨r, rs', rfl, hrr, hrs⟩ := hr
    have hsz : sizeList (t :: ts) = t.size + sizeList ts := by simp [sizeList]
    rw [hsz] at hf
    have h1 := spread_node ds h t w r 0 1 fuel hrr (by omega)
    rw [Go.forRange, readKids, List.map_append, writeAll_append]
    simp only [spreadRootsBody, h1]
    rcases writeAll w ((readNode h t r 1).map lineOf) with ⟨w1, e1⟩
    cases e1 with
    | some e => simp
    | none =>
      simp only [Option.isSome_none, Bool.false_eq_true, if_false]
      exact spread_roots_loop ds h ts w1 rs' fuel hrs (by omega)

/-- **`defaultSpreaderSimple.spread` of the source**: one `Write` per node of the forest in pre-order, the node's row
    and a line feed, until a `Write` fails; that failure is the result. -/
theorem spread_heap (ds : defaultSpreaderSimple) (h : Heap) (ts : List T) (w : Writer) (rs : List Ptr) (fuel : Nat)
    (hr : ReprRoots h ts rs) (hf : sizeList ts ≤ fuel) :
    defaultSpreaderSimple.spread fuel h w ds rs = some (writeAll w ((readKids h ts rs 1).map lineOf)) :=
  spread_roots_loop ds h ts w rs fuel hr hf

end Gtree.SrcH
