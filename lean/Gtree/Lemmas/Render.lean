import Gtree.Model.Grow
import Gtree.Model.Spread
import Gtree.Spec.Render
/-
  Refinement: the bottom-up branch assembly of the grower (connector first, then every ancestor's
  continuation string prepended while walking up) draws exactly the top-down rule of the spec.
-/
namespace Gtree

def indOf (f : Fmt) (l : Bool) : Bytes := if l then f.lastI else f.midI
def dirOf (f : Fmt) (l : Bool) : Bytes := if l then f.lastD else f.midD

/-- prefix contributed by the ancestors (nearest first in `anc`), outermost first in the result -/
def prefixOf (f : Fmt) : List Anc → Bytes
  | [] => []
  | a :: anc => prefixOf f anc ++ indOf f a.2

theorem branchOf_eq (f : Fmt) (me : Bool) (anc : List Anc) :
    branchOf f me anc = prefixOf f anc ++ dirOf f me := by
  unfold branchOf
  have h : ∀ acc, anc.foldl (fun acc a => (if a.2 then f.lastI else f.midI) ++ acc) acc = prefixOf f anc ++ acc := by
    induction anc with
    | nil => intro acc; simp [prefixOf]
    | cons a anc ih => intro acc; simp only [List.foldl, ih, prefixOf, indOf, List.append_assoc]
  rw [h]; rfl

theorem growKids_rows (f : Fmt) (rn : Bytes) :
    ∀ (ks : List T) (anc : List Anc) (lvl : Nat), 2 ≤ lvl →
      (growKids f rn anc lvl ks).map Visit.row = specKids f (prefixOf f anc) ks
  | [], _, _, _ => by simp [growKids, specKids]
  | [T.mk n ch], anc, lvl, h2 => by
      have h : lvl ≠ 1 := by omega
      have ih := growKids_rows f rn ch ((n, true) :: anc) (lvl + 1) (by omega)
      simp [growKids, growNode, specKids, Visit.row, h, branchOf_eq, ih, prefixOf, indOf, dirOf]
  | T.mk n ch :: c2 :: cs, anc, lvl, h2 => by
      have h : lvl ≠ 1 := by omega
      have ih1 := growKids_rows f rn ch ((n, false) :: anc) (lvl + 1) (by omega)
      have ih2 := growKids_rows f rn (c2 :: cs) anc lvl h2
      rw [growKids, specKids, List.map_append, ih2]
      simp [growNode, Visit.row, h, branchOf_eq, ih1, prefixOf, indOf, dirOf]
termination_by ks => sizeOf ks

theorem growRoot_rows (f : Fmt) (t : T) : (growRoot f t).map Visit.row = specRoot f t := by
  cases t with
  | mk n ks =>
    have := growKids_rows f n ks [] 2 (by omega)
    simp [growRoot, specRoot, Visit.row, this, prefixOf]

theorem growKids_length (f : Fmt) (rn : Bytes) :
    ∀ (ks : List T) (anc : List Anc) (lvl : Nat), (growKids f rn anc lvl ks).length = sizeList ks
  | [], _, _ => by simp [growKids, sizeList]
  | [T.mk n ch], anc, lvl => by
      have ih := growKids_length f rn ch ((n, true) :: anc) (lvl + 1)
      simp [growKids, growNode, sizeList, T.size, ih]; omega
  | T.mk n ch :: c2 :: cs, anc, lvl => by
      have ih1 := growKids_length f rn ch ((n, false) :: anc) (lvl + 1)
      have ih2 := growKids_length f rn (c2 :: cs) anc lvl
      rw [growKids, List.length_append, ih2]
      simp [growNode, sizeList, T.size, ih1]; omega
termination_by ks => sizeOf ks

theorem growRoot_length (f : Fmt) (t : T) : (growRoot f t).length = t.size := by
  cases t with
  | mk n ks => simp [growRoot, T.size, growKids_length]; omega

/-- text of one root = the spec's lines, each terminated by LF -/
theorem textChunks_eq (f : Fmt) (t : T) : textChunks f t = (specRoot f t).map (fun l => l ++ [lf]) := by
  unfold textChunks lineOf
  rw [← growRoot_rows]
  simp [List.map_map, Function.comp_def]

end Gtree
