import Gtree.Model.MkOps
import Gtree.Lemmas.MkTree
import Gtree.Lemmas.FSChanges
import Gtree.Lemmas.MkOrder
import Gtree.Lemmas.MkdirVerify
/-
  The massive mode's mkdirer at the granularity of single file-system operations: the operations of the
  roots' recursions (`mkTree`) interleaved in ANY way leave the same file system as the simple mode.
-/
namespace Gtree

/-- an operation on element lists: `MkdirAll(key q)` / `Create(key c)` -/
inductive EOp where
  | mk (q : List Bytes)
  | cr (c : List Bytes)
deriving Repr, DecidableEq

def EOp.toOp : EOp → FsOp
  | .mk q => .mkdirAll (key q)
  | .cr c => .create (key c)

mutual
/-- the operations `makeDirectoriesAndFiles` (the recursion `mkTree`) issues for a subtree, in order -/
def opsTree (exts : List Bytes) (Q : List Bytes) : T → List EOp
  | .mk n ks =>
    if isFileNode exts n (!ks.isEmpty) then [.mk Q, .cr (Q ++ [n])]
    else if ks.isEmpty then [.mk (Q ++ [n])]
    else opsKids exts (Q ++ [n]) ks
def opsKids (exts : List Bytes) (Q : List Bytes) : List T → List EOp
  | [] => []
  | t :: ts => opsTree exts Q t ++ opsKids exts Q ts
end

/-- run element-level operations until the first failure -/
def runE (fs : FS) (ops : List EOp) : FS × Option FErr := runOps fs (ops.map EOp.toOp)

theorem runOps_append' (fs : FS) (a b : List FsOp) :
    runOps fs (a ++ b) = match runOps fs a with
      | (fs1, some e) => (fs1, some e)
      | (fs1, none) => runOps fs1 b := by
  induction a generalizing fs with
  | nil => simp [runOps]
  | cons op ops ih =>
    simp only [List.cons_append, runOps]
    cases h : fs.applyOp op with
    | mk fs1 e =>
      cases e with
      | some e => rfl
      | none => exact ih fs1

mutual
/-- the recursion is its operations in order -/
theorem mkTree_eq_runE (exts : List Bytes) (Q : List Bytes) : ∀ (t : T) (fs : FS),
    mkTree exts Q fs t = runE fs (opsTree exts Q t)
  | .mk n ks, fs => by
    unfold mkTree opsTree runE
    by_cases hf : isFileNode exts n (!ks.isEmpty) = true
    · simp only [hf, if_true, List.map_cons, List.map_nil, EOp.toOp, runOps, FS.applyOp]
      cases fs.mkdirAll (key Q) with
      | mk fs1 e1 =>
        cases e1 with
        | some e => rfl
        | none =>
          simp only
          cases fs1.create (key (Q ++ [n])) with
          | mk fs2 e2 => cases e2 <;> rfl
    · have hf' : isFileNode exts n (!ks.isEmpty) = false := by simpa using hf
      simp only [hf', Bool.false_eq_true, if_false]
      by_cases hk : ks.isEmpty = true
      · simp only [hk, if_true, List.map_cons, List.map_nil, EOp.toOp, runOps, FS.applyOp]
        cases fs.mkdirAll (key (Q ++ [n])) with
        | mk fs1 e1 => cases e1 <;> rfl
      · simp only [hk, Bool.false_eq_true, if_false]
        have := mkKids_eq_runE exts (Q ++ [n]) ks fs
        unfold runE at this
        exact this
theorem mkKids_eq_runE (exts : List Bytes) (Q : List Bytes) : ∀ (ks : List T) (fs : FS),
    mkKids exts Q fs ks = runE fs (opsKids exts Q ks)
  | [], fs => by simp [mkKids, opsKids, runE, runOps]
  | t :: ts, fs => by
    unfold mkKids opsKids runE
    rw [List.map_append, runOps_append']
    have h1 := mkTree_eq_runE exts Q t fs
    unfold runE at h1
    rw [← h1]
    cases mkTree exts Q fs t with
    | mk fs1 e1 =>
      cases e1 with
      | some e => rfl
      | none =>
        have h2 := mkKids_eq_runE exts Q ts fs1
        unfold runE at h2
        exact h2
end


theorem lookup_map_eq (fs : FS) (q : Bytes) (k k0 : Kind) (h : fs.lookup q = some k0) :
    FS.lookup (fs.map (fun e => if e.1 == q then (q, k) else e)) q = some k := by
  induction fs with
  | nil => simp [FS.lookup] at h
  | cons e es ih =>
    unfold FS.lookup at ih h ⊢
    simp only [List.map_cons, List.find?_cons] at h ⊢
    by_cases heq : (e.1 == q) = true
    · simp [heq]
    · have heqf : (e.1 == q) = false := by simpa using heq
      simp only [heqf, Bool.false_eq_true, if_false] at h ⊢
      exact ih h

/-- Create on a good path that is absent or already an empty file, whose parents are directories -/
theorem create_spec' (fs : FS) (es : List Bytes) (hg : GoodList es)
    (habs : fs.lookup (key es) = none ∨ fs.lookup (key es) = some (.file 0))
    (hpar : ∀ i, i + 1 < es.length → fs.lookup (key (es.take (i + 1))) = some Kind.dir) :
    (fs.create (key es)).2 = none ∧
    ∀ p, (fs.create (key es)).1.lookup p = (if p = key es then some (Kind.file 0) else fs.lookup p) := by
  rcases habs with habs | hfile
  · exact create_spec fs es hg habs hpar
  · obtain ⟨m, hm⟩ : ∃ m, es.length = m + 1 := by
      cases es with
      | nil => exact absurd rfl hg.1
      | cons e r => exact ⟨r.length, by simp⟩
    have hparents : (prefixesOf (key es)).dropLast = (List.range m).map (fun i => key (es.take (i + 1))) := by
      rw [prefixesOf_key hg, hm, List.range_succ, List.map_append]
      simp
    have hbad : List.findSome? fs.parentProblem ((List.range m).map (fun i => key (es.take (i + 1)))) = none := by
      rw [List.findSome?_eq_none_iff]
      intro q hq
      simp only [List.mem_map, List.mem_range] at hq
      obtain ⟨i, hi, rfl⟩ := hq
      unfold FS.parentProblem
      rw [kindOf_key (goodList_take hg i), hpar i (by omega)]
    simp only [FS.create, pathRefusal_key hg, hparents, hbad, kindOf_key hg, hfile]
    refine ⟨trivial, fun p => ?_⟩
    by_cases hp : p = key es
    · subst hp
      simp only [if_true]
      exact lookup_map_eq fs (key es) (.file 0) (.file 0) hfile
    · simp only [hp, if_false]
      exact lookup_map_ne fs (key es) p (.file 0) hp

/-- the keys a run has created as files -/
def crKeys : List EOp → List Bytes
  | [] => []
  | .cr c :: ops => key c :: crKeys ops
  | .mk _ :: ops => crKeys ops

/-- the keys a run has made sure are directories -/
def mkPrefixes : List EOp → List Bytes
  | [] => []
  | .mk q :: ops => (List.range q.length).map (fun i => key (q.take (i + 1))) ++ mkPrefixes ops
  | .cr _ :: ops => mkPrefixes ops

theorem crKeys_append (a b : List EOp) : crKeys (a ++ b) = crKeys a ++ crKeys b := by
  induction a with
  | nil => rfl
  | cons op ops ih => cases op <;> simp [crKeys, ih]

theorem mkPrefixes_append (a b : List EOp) : mkPrefixes (a ++ b) = mkPrefixes a ++ mkPrefixes b := by
  induction a with
  | nil => rfl
  | cons op ops ih => cases op <;> simp [mkPrefixes, ih]

theorem mem_crKeys (ops : List EOp) (p : Bytes) : p ∈ crKeys ops ↔ ∃ c, EOp.cr c ∈ ops ∧ p = key c := by
  induction ops with
  | nil => simp [crKeys]
  | cons op ops ih =>
    cases op with
    | mk q => simp [crKeys, ih]
    | cr c =>
      simp only [crKeys, List.mem_cons, ih, EOp.cr.injEq]
      constructor
      · rintro (rfl | ⟨c', h, rfl⟩)
        · exact ⟨c, Or.inl rfl, rfl⟩
        · exact ⟨c', Or.inr h, rfl⟩
      · rintro ⟨c', (rfl | h), rfl⟩
        · exact Or.inl rfl
        · exact Or.inr ⟨c', h, rfl⟩

theorem mem_mkPrefixes (ops : List EOp) (p : Bytes) :
    p ∈ mkPrefixes ops ↔ ∃ q, EOp.mk q ∈ ops ∧ ∃ i < q.length, p = key (q.take (i + 1)) := by
  induction ops with
  | nil => simp [mkPrefixes]
  | cons op ops ih =>
    cases op with
    | cr c => simp [mkPrefixes, ih]
    | mk q =>
      simp only [mkPrefixes, List.mem_append, List.mem_map, List.mem_range, ih, List.mem_cons, EOp.mk.injEq]
      constructor
      · rintro (⟨i, hi, rfl⟩ | ⟨q', h, i, hi, rfl⟩)
        · exact ⟨q, Or.inl rfl, i, hi, rfl⟩
        · exact ⟨q', Or.inr h, i, hi, rfl⟩
      · rintro ⟨q', (rfl | h), i, hi, rfl⟩
        · exact Or.inl ⟨i, hi, rfl⟩
        · exact Or.inr ⟨q', h, i, hi, rfl⟩

/-- what the file system holds after a run: a function of the SETS of operations executed -/
def stateAfter (fs : FS) (ops : List EOp) (p : Bytes) : Option Kind :=
  if p ∈ crKeys ops then some (.file 0)
  else if fs.lookup p = none ∧ p ∈ mkPrefixes ops then some .dir
  else fs.lookup p

/-- what has to hold of the operations of a plan for any schedule of them to succeed -/
structure PlanOK (fs : FS) (plan : List EOp) : Prop where
  goodMk : ∀ q, EOp.mk q ∈ plan → GoodList q
  goodCr : ∀ c, EOp.cr c ∈ plan → GoodList c
  notFileD : ∀ p ∈ mkPrefixes plan, notFile fs p
  disjoint : ∀ p ∈ mkPrefixes plan, p ∉ crKeys plan
  absentC : ∀ p ∈ crKeys plan, fs.lookup p = none

/-- every `Create` comes after the `MkdirAll` of its parent (the order inside one root's recursion) -/
def Ordered (r : List EOp) : Prop := ∀ a c b, r = a ++ EOp.cr c :: b → EOp.mk c.dropLast ∈ a


theorem sub_mkPrefixes {a b : List EOp} (h : ∀ op ∈ a, op ∈ b) (p : Bytes) (hp : p ∈ mkPrefixes a) : p ∈ mkPrefixes b := by
  obtain ⟨q, hq, i, hi, rfl⟩ := (mem_mkPrefixes a _).mp hp
  exact (mem_mkPrefixes b _).mpr ⟨q, h _ hq, i, hi, rfl⟩

theorem sub_crKeys {a b : List EOp} (h : ∀ op ∈ a, op ∈ b) (p : Bytes) (hp : p ∈ crKeys a) : p ∈ crKeys b := by
  obtain ⟨c, hc, rfl⟩ := (mem_crKeys a _).mp hp
  exact (mem_crKeys b _).mpr ⟨c, h _ hc, rfl⟩

/-- **Any schedule succeeds, and its result is a function of the set of operations executed.** -/
theorem run_char (fs : FS) (plan : List EOp) (hplan : PlanOK fs plan) :
    ∀ (rest done : List EOp) (s : FS), (∀ p, s.lookup p = stateAfter fs done p) →
      (∀ op ∈ done ++ rest, op ∈ plan) → Ordered (done ++ rest) →
      ∃ s', runE s rest = (s', none) ∧ ∀ p, s'.lookup p = stateAfter fs (done ++ rest) p
  | [], done, s, hs, _, _ => ⟨s, by simp [runE, runOps], by simpa using hs⟩
  | op :: rest, done, s, hs, hmem, hord => by
    have hdone_sub : ∀ o ∈ done, o ∈ plan := fun o ho => hmem o (by simp [ho])
    have hop : op ∈ plan := hmem op (by simp)
    have hmem' : ∀ o ∈ (done ++ [op]) ++ rest, o ∈ plan := by simpa using hmem
    have hord' : Ordered ((done ++ [op]) ++ rest) := by simpa using hord
    -- the state after this operation
    have step : ∃ s1, s.applyOp op.toOp = (s1, none) ∧ ∀ p, s1.lookup p = stateAfter fs (done ++ [op]) p := by
      cases op with
      | mk q =>
        have hg := hplan.goodMk q hop
        have hpre : ∀ i < q.length, key (q.take (i + 1)) ∈ mkPrefixes plan :=
          fun i hi => (mem_mkPrefixes plan _).mpr ⟨q, hop, i, hi, rfl⟩
        have hnf : ∀ i < q.length, notFile s (key (q.take (i + 1))) := by
          intro i hi n hn
          have hp := hpre i hi
          rw [hs] at hn
          unfold stateAfter at hn
          have hnc : key (q.take (i + 1)) ∉ crKeys done := fun h => hplan.disjoint _ hp (sub_crKeys hdone_sub _ h)
          simp only [hnc, if_false] at hn
          split at hn
          · simp at hn
          · exact hplan.notFileD _ hp n hn
        obtain ⟨hok, hlk⟩ := mkdirAll_spec s q hg hnf
        refine ⟨(s.mkdirAll (key q)).1, ?_, ?_⟩
        · simp only [EOp.toOp, FS.applyOp]
          cases hm : s.mkdirAll (key q) with
          | mk s1 e => rw [hm] at hok; simp only at hok; subst hok; rfl
        · intro p
          rw [hlk p, hs p]
          unfold stateAfter
          simp only [crKeys_append, mkPrefixes_append, crKeys, mkPrefixes, List.append_nil, List.mem_append, List.mem_map, List.mem_range]
          by_cases hc : p ∈ crKeys done
          · simp [hc]
          · simp only [hc, if_false]
            by_cases hfs : fs.lookup p = none
            · simp only [hfs, true_and]
              by_cases hd : p ∈ mkPrefixes done
              · simp [hd]
              · simp only [hd, if_false, false_or, hfs, true_and]
                by_cases hq : ∃ i, i < q.length ∧ p = key (q.take (i + 1))
                · obtain ⟨i, hi, hpi⟩ := hq
                  have h1 : ∃ i, i < q.length ∧ p = key (List.take (i + 1) q) := ⟨i, hi, hpi⟩
                  have h2 : ∃ a, a < q.length ∧ key (List.take (a + 1) q) = p := ⟨i, hi, hpi.symm⟩
                  simp [h1, h2]
                · have h2 : ¬ ∃ a, a < q.length ∧ key (List.take (a + 1) q) = p := by
                    intro ⟨a, ha, he⟩; exact hq ⟨a, ha, he.symm⟩
                  simp [hq, h2, hfs]
            · simp [hfs]
      | cr c =>
        have hg := hplan.goodCr c hop
        have hkc : key c ∈ crKeys plan := (mem_crKeys plan _).mpr ⟨c, hop, rfl⟩
        have habs : s.lookup (key c) = none ∨ s.lookup (key c) = some (.file 0) := by
          rw [hs]
          unfold stateAfter
          by_cases hc : key c ∈ crKeys done
          · right; simp [hc]
          · left
            simp only [hc, if_false]
            have hnd : key c ∉ mkPrefixes done := fun h => hplan.disjoint _ (sub_mkPrefixes hdone_sub _ h) hkc
            simp [hnd, hplan.absentC _ hkc]
        have hmk : EOp.mk c.dropLast ∈ done := hord done c rest rfl
        have hpar : ∀ i, i + 1 < c.length → s.lookup (key (c.take (i + 1))) = some Kind.dir := by
          intro i hi
          have htk : c.dropLast.take (i + 1) = c.take (i + 1) := by
            rw [List.dropLast_eq_take, List.take_take]
            congr 1; omega
          have hin : key (c.take (i + 1)) ∈ mkPrefixes done :=
            (mem_mkPrefixes done _).mpr ⟨c.dropLast, hmk, i, by simp; omega, by rw [htk]⟩
          have hinp := sub_mkPrefixes hdone_sub _ hin
          rw [hs]
          unfold stateAfter
          have hnc : key (c.take (i + 1)) ∉ crKeys done := fun h => hplan.disjoint _ hinp (sub_crKeys hdone_sub _ h)
          simp only [hnc, if_false]
          cases hfs : fs.lookup (key (c.take (i + 1))) with
          | none => simp [hin]
          | some k =>
            cases k with
            | dir => simp
            | file n => exact absurd hfs (hplan.notFileD _ hinp n)
        obtain ⟨hok, hlk⟩ := create_spec' s c hg habs hpar
        refine ⟨(s.create (key c)).1, ?_, ?_⟩
        · simp only [EOp.toOp, FS.applyOp]
          cases hm : s.create (key c) with
          | mk s1 e => rw [hm] at hok; simp only at hok; subst hok; rfl
        · intro p
          rw [hlk p, hs p]
          unfold stateAfter
          simp only [crKeys_append, mkPrefixes_append, crKeys, mkPrefixes, List.append_nil, List.mem_append, List.mem_singleton]
          by_cases hp : p = key c
          · simp [hp]
          · simp [hp]
    obtain ⟨s1, hs1, hchar1⟩ := step
    obtain ⟨s', hrun, hchar⟩ := run_char fs plan hplan rest (done ++ [op]) s1 hchar1 hmem' hord'
    refine ⟨s', ?_, by simpa using hchar⟩
    simp only [runE, List.map_cons, runOps, hs1]
    exact hrun


/-! ### Interleavings -/

/-- `r` is an interleaving of the lists `ls`: every list's elements in their order, all of them -/
inductive Interleave {α : Type} : List (List α) → List α → Prop where
  | done (ls : List (List α)) : (∀ l ∈ ls, l = []) → Interleave ls []
  | step (pre post : List (List α)) (l : List α) (x : α) (r : List α) :
      Interleave (pre ++ l :: post) r → Interleave (pre ++ (x :: l) :: post) (x :: r)

theorem Interleave.mem {α : Type} {ls : List (List α)} {r : List α} (h : Interleave ls r) (x : α) :
    x ∈ r ↔ ∃ l ∈ ls, x ∈ l := by
  induction h with
  | done ls hnil =>
    constructor
    · intro hx; simp at hx
    · rintro ⟨l, hl, hx⟩; rw [hnil l hl] at hx; simp at hx
  | step pre post l y r _ ih =>
    constructor
    · intro hx
      rcases List.mem_cons.mp hx with rfl | hx
      · exact ⟨x :: l, by simp, by simp⟩
      · obtain ⟨l', hl', hx'⟩ := ih.mp hx
        rcases List.mem_append.mp hl' with h1 | h1
        · exact ⟨l', by simp [h1], hx'⟩
        · rcases List.mem_cons.mp h1 with rfl | h2
          · exact ⟨y :: l', by simp, by simp [hx']⟩
          · exact ⟨l', by simp [h2], hx'⟩
    · rintro ⟨l', hl', hx'⟩
      rcases List.mem_append.mp hl' with h1 | h1
      · exact List.mem_cons_of_mem _ (ih.mpr ⟨l', by simp [h1], hx'⟩)
      · rcases List.mem_cons.mp h1 with rfl | h2
        · rcases List.mem_cons.mp hx' with rfl | hx''
          · simp
          · exact List.mem_cons_of_mem _ (ih.mpr ⟨l, by simp, hx''⟩)
        · exact List.mem_cons_of_mem _ (ih.mpr ⟨l', by simp [h2], hx'⟩)

/-- what precedes an element in its own list precedes it in the interleaving -/
theorem Interleave.before {α : Type} {ls : List (List α)} {r : List α} (h : Interleave ls r) :
    ∀ (a : List α) (y : α) (b : List α), r = a ++ y :: b →
      ∃ l ∈ ls, ∃ la lb, l = la ++ y :: lb ∧ ∀ x ∈ la, x ∈ a := by
  induction h with
  | done ls _ => intro a y b e; cases a <;> simp at e
  | step pre post l x r _ ih =>
    intro a y b e
    cases a with
    | nil =>
      simp only [List.nil_append, List.cons.injEq] at e
      obtain ⟨rfl, rfl⟩ := e
      exact ⟨x :: l, by simp, [], l, rfl, by simp⟩
    | cons a0 a' =>
      simp only [List.cons_append, List.cons.injEq] at e
      obtain ⟨rfl, e'⟩ := e
      obtain ⟨l', hl', la, lb, hsplit, hsub⟩ := ih a' y b e'
      rcases List.mem_append.mp hl' with h1 | h1
      · exact ⟨l', by simp [h1], la, lb, hsplit, fun z hz => List.mem_cons_of_mem _ (hsub z hz)⟩
      · rcases List.mem_cons.mp h1 with rfl | h2
        · refine ⟨x :: l', by simp, x :: la, lb, by rw [hsplit]; rfl, ?_⟩
          intro z hz
          rcases List.mem_cons.mp hz with rfl | hz'
          · simp
          · exact List.mem_cons_of_mem _ (hsub z hz')
        · exact ⟨l', by simp [h2], la, lb, hsplit, fun z hz => List.mem_cons_of_mem _ (hsub z hz)⟩

theorem ordered_of_interleave {ls : List (List EOp)} {r : List EOp} (h : Interleave ls r)
    (hl : ∀ l ∈ ls, Ordered l) : Ordered r := by
  intro a c b e
  obtain ⟨l, hlm, la, lb, hsplit, hsub⟩ := h.before a (EOp.cr c) b e
  exact hsub _ (hl l hlm la c lb hsplit)

theorem ordered_append {a b : List EOp} (ha : Ordered a) (hb : Ordered b) : Ordered (a ++ b) := by
  intro x c y e
  rcases List.append_eq_append_iff.mp e with ⟨a', hx, hb'⟩ | ⟨c', ha', hd⟩
  · -- the split falls inside `b`
    rw [hx]
    exact List.mem_append_right _ (hb a' c y hb')
  · -- the split falls inside `a` (or exactly at its end)
    cases c' with
    | nil =>
      simp only [List.append_nil, List.nil_append] at ha' hd
      -- a = x, b = cr c :: y
      have := hb [] c y hd.symm
      simp at this
    | cons d0 c'' =>
      simp only [List.cons_append, List.cons.injEq] at hd
      obtain ⟨rfl, _⟩ := hd
      exact ha x c c'' ha'


/-! ### The operations of a forest -/

theorem mem_opsKids (exts : List Bytes) (Q : List Bytes) : ∀ (ks : List T) (op : EOp),
    op ∈ opsKids exts Q ks ↔ ∃ t ∈ ks, op ∈ opsTree exts Q t
  | [], op => by simp [opsKids]
  | t :: ts, op => by
    simp only [opsKids, List.mem_append, mem_opsKids exts Q ts op, List.mem_cons, exists_eq_or_imp]

mutual
theorem ordered_opsTree (exts : List Bytes) (Q : List Bytes) : ∀ (t : T), Ordered (opsTree exts Q t)
  | .mk n ks => by
    unfold opsTree
    by_cases hf : isFileNode exts n (!ks.isEmpty) = true
    · simp only [hf, if_true]
      intro a c b e
      cases a with
      | nil => simp at e
      | cons a0 a' =>
        simp only [List.cons_append, List.cons.injEq] at e
        obtain ⟨rfl, e'⟩ := e
        cases a' with
        | nil =>
          simp only [List.nil_append, List.cons.injEq, EOp.cr.injEq] at e'
          obtain ⟨rfl, _⟩ := e'
          simp
        | cons a1 a'' => simp at e'
    · have hf' : isFileNode exts n (!ks.isEmpty) = false := by simpa using hf
      simp only [hf', Bool.false_eq_true, if_false]
      by_cases hk : ks.isEmpty = true
      · simp only [hk, if_true]
        intro a c b e
        cases a with
        | nil => simp at e
        | cons a0 a' => cases a' <;> simp at e
      · simp only [hk, Bool.false_eq_true, if_false]
        exact ordered_opsKids exts (Q ++ [n]) ks
theorem ordered_opsKids (exts : List Bytes) (Q : List Bytes) : ∀ (ks : List T), Ordered (opsKids exts Q ks)
  | [] => by intro a c b e; cases a <;> simp [opsKids] at e
  | t :: ts => by
    unfold opsKids
    exact ordered_append (ordered_opsTree exts Q t) (ordered_opsKids exts Q ts)
end

/-- where the operations of a forest go: a `MkdirAll` path consists of prefixes of `Q` and of directory nodes,
    a `Create` path is a file node -/
theorem ops_shape (exts : List Bytes) : ∀ (ks : List T) (Q : List Bytes), GoodList Q → AllGoodL ks →
    ∀ op ∈ opsKids exts Q ks,
      (∀ q, op = EOp.mk q → GoodList q ∧ ∀ i < q.length,
          (i < Q.length ∧ q.take (i + 1) = Q.take (i + 1)) ∨ (q.take (i + 1), false) ∈ pathsOf exts Q ks) ∧
      (∀ c, op = EOp.cr c → GoodList c ∧ (c, true) ∈ pathsOf exts Q ks)
  | [], _, _, _, op, hop => by simp [opsKids] at hop
  | T.mk n sub :: rest, Q, hQ, hk, op, hop => by
    rw [AllGoodL, AllGoodT] at hk
    obtain ⟨⟨hn, hsub⟩, hrest⟩ := hk
    have hQn := goodList_snoc hQ hn
    simp only [opsKids, List.mem_append] at hop
    rcases hop with hop | hop
    · -- an operation of the first tree
      unfold opsTree at hop
      by_cases hf : isFileNode exts n (!sub.isEmpty) = true
      · simp only [hf, if_true, List.mem_cons, List.not_mem_nil, or_false] at hop
        rcases hop with rfl | rfl
        · refine ⟨?_, (fun c e => by cases e)⟩
          intro q e
          cases e
          exact ⟨hQ, fun i hi => Or.inl ⟨hi, rfl⟩⟩
        · refine ⟨(fun q e => by cases e), ?_⟩
          intro c e
          cases e
          exact ⟨hQn, by simp [pathsOf, hf]⟩
      · have hf' : isFileNode exts n (!sub.isEmpty) = false := by simpa using hf
        simp only [hf', Bool.false_eq_true, if_false] at hop
        by_cases hke : sub.isEmpty = true
        · simp only [hke, if_true, List.mem_cons, List.not_mem_nil, or_false] at hop
          subst hop
          refine ⟨?_, (fun c e => by cases e)⟩
          intro q e
          cases e
          refine ⟨hQn, fun i hi => ?_⟩
          simp only [List.length_append, List.length_cons, List.length_nil] at hi
          by_cases hi' : i < Q.length
          · exact Or.inl ⟨hi', take_snoc_lt Q n i hi'⟩
          · have : i = Q.length := by omega
            subst this
            right
            rw [take_snoc_eq]
            simp [pathsOf, hf']
        · simp only [hke, Bool.false_eq_true, if_false] at hop
          have hflag : isFileNode exts n (!sub.isEmpty) = false := hf'
          obtain ⟨hmk, hcr⟩ := ops_shape exts sub (Q ++ [n]) hQn hsub op hop
          constructor
          · intro q e
            obtain ⟨hgq, hpre⟩ := hmk q e
            refine ⟨hgq, fun i hi => ?_⟩
            rcases hpre i hi with ⟨hi', htk⟩ | hin
            · simp only [List.length_append, List.length_cons, List.length_nil] at hi'
              by_cases hi'' : i < Q.length
              · exact Or.inl ⟨hi'', by rw [htk, take_snoc_lt Q n i hi'']⟩
              · have : i = Q.length := by omega
                subst this
                right
                rw [htk, take_snoc_eq]
                simp [pathsOf, hflag]
            · right
              simp only [pathsOf, List.mem_cons, List.mem_append]
              exact Or.inl (Or.inr hin)
          · intro c e
            obtain ⟨hgc, hin⟩ := hcr c e
            refine ⟨hgc, ?_⟩
            simp only [pathsOf, List.mem_cons, List.mem_append]
            exact Or.inl (Or.inr hin)
    · -- an operation of the other trees
      obtain ⟨hmk, hcr⟩ := ops_shape exts rest Q hQ hrest op hop
      constructor
      · intro q e
        obtain ⟨hgq, hpre⟩ := hmk q e
        refine ⟨hgq, fun i hi => ?_⟩
        rcases hpre i hi with h | hin
        · exact Or.inl h
        · right
          simp only [pathsOf, List.mem_cons, List.mem_append]
          exact Or.inr hin
      · intro c e
        obtain ⟨hgc, hin⟩ := hcr c e
        refine ⟨hgc, ?_⟩
        simp only [pathsOf, List.mem_cons, List.mem_append]
        exact Or.inr hin
termination_by ks => sizeOf ks


/-- the operations of a forest, under the hypotheses of exactness, form a plan every schedule of which succeeds -/
theorem planOK (exts : List Bytes) (ts : List Bytes) (roots : List T) (fs : FS)
    (hts : GoodList ts) (hg : AllGoodL roots) (hd : DistinctL roots)
    (hnf : ∀ i < ts.length, notFile fs (key (ts.take (i + 1))))
    (habs : ∀ e ∈ pathsOf exts ts roots, fs.lookup (key e.1) = none) :
    PlanOK fs (opsKids exts ts roots) := by
  have shape := ops_shape exts roots ts hts hg
  obtain ⟨_, hex⟩ := mkKids_exact exts roots ts fs hts hg hd hnf habs
  -- a key made a directory is a prefix of the target or the path of a directory node
  have dkey : ∀ p ∈ mkPrefixes (opsKids exts ts roots),
      (∃ i < ts.length, p = key (ts.take (i + 1))) ∨ ∃ x, (x, false) ∈ pathsOf exts ts roots ∧ p = key x := by
    intro p hp
    obtain ⟨q, hq, i, hi, rfl⟩ := (mem_mkPrefixes _ _).mp hp
    obtain ⟨_, hpre⟩ := (shape _ hq).1 q rfl
    rcases hpre i hi with ⟨hi', htk⟩ | hin
    · exact Or.inl ⟨i, hi', by rw [htk]⟩
    · exact Or.inr ⟨_, hin, rfl⟩
  have ckey : ∀ p ∈ crKeys (opsKids exts ts roots), ∃ c, (c, true) ∈ pathsOf exts ts roots ∧ p = key c := by
    intro p hp
    obtain ⟨c, hc, rfl⟩ := (mem_crKeys _ _).mp hp
    exact ⟨c, ((shape _ hc).2 c rfl).2, rfl⟩
  refine ⟨fun q hq => ((shape _ hq).1 q rfl).1, fun c hc => ((shape _ hc).2 c rfl).1, ?_, ?_, ?_⟩
  · intro p hp
    rcases dkey p hp with ⟨i, hi, rfl⟩ | ⟨x, hx, rfl⟩
    · exact hnf i hi
    · exact notFile_of_none (habs _ hx)
  · intro p hp hc
    obtain ⟨c, hcin, hpc⟩ := ckey p hc
    rcases dkey p hp with ⟨i, hi, hpi⟩ | ⟨x, hx, hpx⟩
    · obtain ⟨hgc, k, _, tail, hshape⟩ := pathsOf_shape exts roots ts hts hg _ hcin
      exact key_ne_prefix hts hgc hshape i (by rw [← hpc, hpi])
    · have h1 := hex.nodes _ hcin
      have h2 := hex.nodes _ hx
      simp only [kindOfFlag] at h1 h2
      rw [← hpc, hpx, h2] at h1
      simp at h1
  · intro p hp
    obtain ⟨c, hcin, rfl⟩ := ckey p hp
    exact habs _ hcin

theorem stateAfter_congr (fs : FS) (a b : List EOp) (h : ∀ op, op ∈ a ↔ op ∈ b) (p : Bytes) :
    stateAfter fs a p = stateAfter fs b p := by
  have hc : p ∈ crKeys a ↔ p ∈ crKeys b := by
    rw [mem_crKeys, mem_crKeys]
    constructor <;> (rintro ⟨c, hc, rfl⟩; exact ⟨c, by first | exact (h _).mp hc | exact (h _).mpr hc, rfl⟩)
  have hm : p ∈ mkPrefixes a ↔ p ∈ mkPrefixes b := by
    rw [mem_mkPrefixes, mem_mkPrefixes]
    constructor <;> (rintro ⟨q, hq, i, hi, rfl⟩; exact ⟨q, by first | exact (h _).mp hq | exact (h _).mpr hq, i, hi, rfl⟩)
  unfold stateAfter
  simp only [hc, hm]

/-- **Every interleaving of the roots' recursions leaves the simple mode's file system.** -/
theorem interleave_same (exts : List Bytes) (ts : List Bytes) (roots : List T) (fs : FS)
    (hts : GoodList ts) (hg : AllGoodL roots) (hd : DistinctL roots)
    (hnf : ∀ i < ts.length, notFile fs (key (ts.take (i + 1))))
    (habs : ∀ e ∈ pathsOf exts ts roots, fs.lookup (key e.1) = none)
    (r : List EOp) (hint : Interleave (roots.map (fun t => opsTree exts ts t)) r) :
    ∃ s, runE fs r = (s, none) ∧ ∀ p, s.lookup p = (mkKids exts ts fs roots).1.lookup p := by
  have hplan := planOK exts ts roots fs hts hg hd hnf habs
  have hinit : ∀ p, fs.lookup p = stateAfter fs [] p := by intro p; simp [stateAfter, crKeys, mkPrefixes]
  -- the interleaving consists of exactly the plan's operations, each Create after its parent's MkdirAll
  have hmem : ∀ op, op ∈ r ↔ op ∈ opsKids exts ts roots := by
    intro op
    rw [hint.mem op, mem_opsKids]
    simp only [List.mem_map]
    constructor
    · rintro ⟨l, ⟨t, ht, rfl⟩, hop⟩; exact ⟨t, ht, hop⟩
    · rintro ⟨t, ht, hop⟩; exact ⟨_, ⟨t, ht, rfl⟩, hop⟩
  have hord : Ordered r := by
    apply ordered_of_interleave hint
    intro l hl
    simp only [List.mem_map] at hl
    obtain ⟨t, _, rfl⟩ := hl
    exact ordered_opsTree exts ts t
  obtain ⟨s, hrun, hchar⟩ := run_char fs _ hplan r [] fs hinit (by simpa using fun op hop => (hmem op).mp hop) (by simpa using hord)
  -- the simple mode is the in-order schedule of the same plan
  obtain ⟨s0, hrun0, hchar0⟩ := run_char fs _ hplan (opsKids exts ts roots) [] fs hinit (by simp) (by simpa using ordered_opsKids exts ts roots)
  refine ⟨s, hrun, fun p => ?_⟩
  have hseq : (mkKids exts ts fs roots).1 = s0 := by
    rw [mkKids_eq_runE, hrun0]
  rw [hseq, hchar p, hchar0 p]
  simp only [List.nil_append]
  exact stateAfter_congr fs _ _ hmem p


/-! ### The per-root "exists already?" check, at any moment of any schedule -/

theorem allGoodT_of_mem : ∀ (ks : List T), AllGoodL ks → ∀ t ∈ ks, AllGoodT t
  | [], _, t, ht => by simp at ht
  | x :: rest, hgl, t, ht => by
    rw [AllGoodL] at hgl
    rcases List.mem_cons.mp ht with rfl | ht
    · exact hgl.1
    · exact allGoodT_of_mem rest hgl.2 t ht

/-- **At any moment of any schedule, the exists-check of a root none of whose operations has run yet passes.**
    `done` is whatever has been executed so far: operations of the plan, each `Create` after its parent's
    `MkdirAll`, none of them an operation of root `t`. -/
theorem exists_check_passes (f : Fmt) (exts : List Bytes) (ts : List Bytes) (roots : List T) (fs : FS)
    (hts : GoodList ts) (hg : AllGoodL roots) (hd : DistinctL roots)
    (hnf : ∀ i < ts.length, notFile fs (key (ts.take (i + 1))))
    (habs : ∀ e ∈ pathsOf exts ts roots, fs.lookup (key e.1) = none)
    (done : List EOp) (hmem : ∀ op ∈ done, op ∈ opsKids exts ts roots) (hord : Ordered done)
    (t : T) (ht : t ∈ roots) (hnot : ∀ op ∈ done, op ∉ opsTree exts ts t) :
    ∃ s, runE fs done = (s, none) ∧ anyRootExists s (key ts) [growRoot f t] = false := by
  have hplan := planOK exts ts roots fs hts hg hd hnf habs
  have hinit : ∀ p, fs.lookup p = stateAfter fs [] p := by intro p; simp [stateAfter, crKeys, mkPrefixes]
  obtain ⟨s, hrun, hchar⟩ := run_char fs _ hplan done [] fs hinit (by simpa using hmem) (by simpa using hord)
  simp only [List.nil_append] at hchar
  refine ⟨s, hrun, ?_⟩
  have hgt : AllGoodT t := allGoodT_of_mem roots hg t ht
  have hrn : GoodElem t.name := by cases t with | mk n sub => rw [AllGoodT] at hgt; exact hgt.1
  have hgood : GoodList (ts ++ [t.name]) := goodList_snoc hts hrn
  -- an executed operation belongs to another root, whose paths go through another name
  have other : ∀ op ∈ done, ∃ t' ∈ roots, t'.name ≠ t.name ∧ op ∈ opsKids exts ts [t'] ∧ AllGoodL [t'] := by
    intro op hop
    obtain ⟨t', ht', hin⟩ := (mem_opsKids exts ts roots op).mp (hmem op hop)
    refine ⟨t', ht', ?_, by simp [opsKids, hin], by simp [AllGoodL, allGoodT_of_mem roots hg t' ht']⟩
    intro hn
    have := distinct_name_eq roots hd t' ht' t ht hn
    subst this
    exact hnot op hop hin
  have ne_key : ∀ (x : List Bytes) (t' : T), t'.name ≠ t.name → GoodList x → (∃ k ∈ [t'], ∃ tail, x = ts ++ k.name :: tail) →
      key (ts ++ [t.name]) ≠ key x := by
    intro x t' hn hgx ⟨k, hk, tail, hx⟩
    simp only [List.mem_singleton] at hk
    subst hk
    exact key_ne_sibling (Q := ts) hgood hgx (x := t.name) (ta := []) rfl hx (fun e => hn e.symm)
  -- the root is absent in the current state
  have habs' : s.lookup (key (ts ++ [t.name])) = none := by
    rw [hchar]
    unfold stateAfter
    have hc : key (ts ++ [t.name]) ∉ crKeys done := by
      intro h
      obtain ⟨c, hc, hk⟩ := (mem_crKeys _ _).mp h
      obtain ⟨t', _, hn, hin, hgl⟩ := other _ hc
      obtain ⟨hgc, hcin⟩ := (ops_shape exts [t'] ts hts hgl _ hin).2 c rfl
      obtain ⟨_, k, hk', tail, hshape⟩ := pathsOf_shape exts [t'] ts hts hgl _ hcin
      exact ne_key c t' hn hgc ⟨k, hk', tail, hshape⟩ hk
    have hm : key (ts ++ [t.name]) ∉ mkPrefixes done := by
      intro h
      obtain ⟨q, hq, i, hi, hk⟩ := (mem_mkPrefixes _ _).mp h
      obtain ⟨t', _, hn, hin, hgl⟩ := other _ hq
      obtain ⟨hgq, hpre⟩ := (ops_shape exts [t'] ts hts hgl _ hin).1 q rfl
      rcases hpre i hi with ⟨hi', htk⟩ | hpin
      · rw [htk] at hk
        exact key_ne_prefix hts hgood (x := t.name) (tail := []) rfl i hk
      · obtain ⟨hgx, k, hk', tail, hshape⟩ := pathsOf_shape exts [t'] ts hts hgl _ hpin
        exact ne_key _ t' hn hgx ⟨k, hk', tail, hshape⟩ hk
    have hfs : fs.lookup (key (ts ++ [t.name])) = none := by
      cases t with
      | mk n sub =>
        apply habs (ts ++ [n], isFileNode exts n (!sub.isEmpty))
        rw [pathsOf_mem_split]
        exact ⟨T.mk n sub, ht, by simp [pathsOf]⟩
    simp [hc, hm, hfs]
  -- the prefixes of the target are not files in the current state
  have hnf' : ∀ i < ts.length, notFile s (key (ts.take (i + 1))) := by
    intro i hi n hn
    rw [hchar] at hn
    unfold stateAfter at hn
    have hc : key (ts.take (i + 1)) ∉ crKeys done := by
      intro h
      obtain ⟨c, hc, hk⟩ := (mem_crKeys _ _).mp h
      obtain ⟨hgc, hcin⟩ := (ops_shape exts roots ts hts hg _ (hmem _ hc)).2 c rfl
      obtain ⟨_, k, _, tail, hshape⟩ := pathsOf_shape exts roots ts hts hg _ hcin
      exact key_ne_prefix hts hgc hshape i hk.symm
    simp only [hc, if_false] at hn
    split at hn
    · simp at hn
    · exact hnf i hi n hn
  have hstat := stat_notExist s ts t.name hgood hts hnf' habs'
  have hfull : filepathJoin [key ts, t.name] = key (ts ++ [t.name]) := by
    have := filepathJoin_key ts [t.name] hts.1 (by simp) (goodList_elems hts) (by simpa using hrn.1)
    simpa [joinSlash] using this
  cases t with
  | mk n sub =>
    simp only [anyRootExists, growRoot, List.any_cons, List.any_nil, Bool.or_false, List.head?_cons, rootExists]
    simp only [T.name] at hfull hstat
    rw [hfull, hstat]

end Gtree
