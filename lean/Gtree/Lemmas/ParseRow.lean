import Gtree.Model.Parser
import Gtree.Lemmas.Bytes
/-
  One well-formed list row through `Parser.Parse`: what it returns and how it moves the parser state,
  including the side effects of the failed attempts with the other bullet symbols.
-/
namespace Gtree

/-- a failed attempt on an indented row may already have latched the indent character -/
def presep (st : PState) (c : UInt8) : PState :=
  if st.sep.isNone then { st with sep := some c } else st

/-- parser state after a row with `m` indentation bytes `c` -/
def afterRow (st : PState) (m : Nat) (c : UInt8) : PState :=
  if m = 0 then { st with sep := none }
  else if (presep st c).spaces == 0 then { presep st c with spaces := m } else presep st c

theorem presep_idem (st : PState) (c : UInt8) : presep (presep st c) c = presep st c := by
  unfold presep
  cases h : st.sep <;> simp [h]

theorem afterRow_presep (st : PState) (m : Nat) (c : UInt8) (hm : m ≠ 0) :
    afterRow (presep st c) m c = afterRow st m c := by
  simp [afterRow, hm, presep_idem]

theorem presep_sep (st : PState) (c : UInt8) (h : st.sep = none ∨ st.sep = some c) :
    (presep st c).sep = some c := by
  unfold presep
  rcases h with h | h <;> simp [h]

theorem presep_spaces (st : PState) (c : UInt8) : (presep st c).spaces = st.spaces := by
  unfold presep; split <;> rfl

theorem presep_sharp (st : PState) (c : UInt8) : (presep st c).sharp = st.sharp := by
  unfold presep; split <;> rfl

/-- the attempt with the row's own bullet symbol succeeds -/
theorem attempt_self (st : PState) (c b : UInt8) (m : Nat) (rest : Bytes)
    (hc : c = sp ∨ c = tab) (hcb : c ≠ b)
    (hsep : st.sep = none ∨ st.sep = some c)
    (hsp : st.spaces = 0 ∨ m % st.spaces = 0) :
    attempt st (List.replicate m c ++ b :: rest) b = (afterRow st m c, some (m, rest)) := by
  unfold attempt
  rw [cut_replicate_append b c m _ hcb, cut_head]
  simp only [Option.map_some, List.append_nil]
  cases m with
  | zero => simp [afterRow]
  | succ m =>
    have hct : (c == sp || c == tab) = true := by rcases hc with rfl | rfl <;> simp [sp, tab]
    have hgetD : ((if st.sep.isNone = true then ({ st with sep := some c } : PState) else st).sep.getD c) = c := by
      rcases hsep with h | h <;> simp [h]
    simp only [List.replicate_succ, hct, if_true, hgetD]
    have hcount : countB c (c :: List.replicate m c) = m + 1 := by
      have := countB_replicate c (m + 1)
      simpa [List.replicate_succ] using this
    simp only [hcount, List.length_cons, List.length_replicate, bne_self_eq_false, Bool.false_eq_true, if_false]
    have hpre : (if st.sep.isNone = true then ({ st with sep := some c } : PState) else st) = presep st c := rfl
    rw [hpre]
    have hps := presep_spaces st c
    simp only [afterRow, Nat.succ_ne_zero, if_false, Nat.add_one_ne_zero]
    by_cases h0 : (presep st c).spaces = 0
    · simp [h0]
    · have hne : ((presep st c).spaces == 0) = false := by simpa using h0
      have hmod : (m + 1) % (presep st c).spaces = 0 := by
        rw [hps] at h0 ⊢
        rcases hsp with h | h
        · exact absurd h h0
        · exact h
      simp [hne, hmod]


/-- an attempt with another bullet symbol fails; on an indented row it may latch the indent character -/
theorem attempt_other (st : PState) (c b s : UInt8) (m : Nat) (name : Bytes)
    (hc : c = sp ∨ c = tab) (hb : b = hy ∨ b = ast ∨ b = pls)
    (hcs : c ≠ s) (hbs : b ≠ s) (hss : sp ≠ s)
    (hsep : st.sep = none ∨ st.sep = some c) :
    attempt st (List.replicate m c ++ b :: sp :: name) s = (st, none) ∨
      (m ≠ 0 ∧ attempt st (List.replicate m c ++ b :: sp :: name) s = (presep st c, none)) := by
  have hbc : b ≠ c := by
    rcases hc with rfl | rfl <;> rcases hb with rfl | rfl | rfl <;> decide
  unfold attempt
  rw [cut_replicate_append s c m _ hcs, cut_cons_ne s b _ hbs, cut_cons_ne s sp _ hss]
  cases hcut : cut s name with
  | none => left; simp
  | some p =>
    obtain ⟨l, r⟩ := p
    simp only [Option.map_some]
    cases m with
    | zero =>
      left
      have hnb : (b == sp || b == tab) = false := by
        rcases hb with rfl | rfl | rfl <;> decide
      simp [hnb]
    | succ m =>
      right
      refine ⟨by omega, ?_⟩
      have hct : (c == sp || c == tab) = true := by rcases hc with rfl | rfl <;> simp [sp, tab]
      have hgetD : ((if st.sep.isNone = true then ({ st with sep := some c } : PState) else st).sep.getD c) = c := by
        rcases hsep with h | h <;> simp [h]
      simp only [List.replicate_succ, List.cons_append, hct, if_true, hgetD]
      have hlt : countB c (c :: (List.replicate m c ++ b :: sp :: l)) < (c :: (List.replicate m c ++ b :: sp :: l)).length :=
        countB_lt_of_mem c b _ (by simp) hbc
      have hne : (countB c (c :: (List.replicate m c ++ b :: sp :: l)) != (c :: (List.replicate m c ++ b :: sp :: l)).length) = true := by
        simp only [bne_iff_ne, ne_eq]; omega
      simp only [hne, if_true]
      rfl


/-- the successful attempt, started from the state a failed earlier attempt may have left -/
theorem attempt_self_after (st st' : PState) (c b : UInt8) (m : Nat) (rest : Bytes)
    (hc : c = sp ∨ c = tab) (hcb : c ≠ b)
    (hsep : st.sep = none ∨ st.sep = some c)
    (hsp : st.spaces = 0 ∨ m % st.spaces = 0)
    (hst : st' = st ∨ (m ≠ 0 ∧ st' = presep st c)) :
    attempt st' (List.replicate m c ++ b :: rest) b = (afterRow st m c, some (m, rest)) := by
  rcases hst with rfl | ⟨hm, rfl⟩
  · exact attempt_self st' c b m rest hc hcb hsep hsp
  · rw [attempt_self (presep st c) c b m rest hc hcb (Or.inr (presep_sep st c hsep)) (by rw [presep_spaces]; exact hsp)]
    rw [afterRow_presep st m c hm]

theorem step_state (st st' st'' : PState) (c : UInt8) (m : Nat)
    (h1 : st' = st ∨ (m ≠ 0 ∧ st' = presep st c))
    (h2 : st'' = st' ∨ (m ≠ 0 ∧ st'' = presep st' c)) :
    st'' = st ∨ (m ≠ 0 ∧ st'' = presep st c) := by
  rcases h1 with rfl | ⟨hm, rfl⟩
  · exact h2
  · rcases h2 with rfl | ⟨_, rfl⟩
    · exact Or.inr ⟨hm, rfl⟩
    · exact Or.inr ⟨hm, presep_idem st c⟩

theorem sep_after (st st' : PState) (c : UInt8) (m : Nat) (hsep : st.sep = none ∨ st.sep = some c)
    (h1 : st' = st ∨ (m ≠ 0 ∧ st' = presep st c)) : st'.sep = none ∨ st'.sep = some c := by
  rcases h1 with rfl | ⟨_, rfl⟩
  · exact hsep
  · exact Or.inr (presep_sep st c hsep)

/-- `separateRow` on a well-formed list row -/
theorem separateRow_row (st : PState) (c b : UInt8) (m : Nat) (name : Bytes)
    (hc : c = sp ∨ c = tab) (hb : b = hy ∨ b = ast ∨ b = pls)
    (hsep : st.sep = none ∨ st.sep = some c)
    (hsp : st.spaces = 0 ∨ m % st.spaces = 0) :
    separateRow st (List.replicate m c ++ b :: sp :: name) = (afterRow st m c, some (m, sp :: name)) := by
  have hchy : c ≠ hy := by rcases hc with rfl | rfl <;> decide
  have hcast : c ≠ ast := by rcases hc with rfl | rfl <;> decide
  have hcpls : c ≠ pls := by rcases hc with rfl | rfl <;> decide
  unfold separateRow listSymbols
  rcases hb with rfl | rfl | rfl
  · simp only [separateRowAux, attempt_self st c hy m (sp :: name) hc hchy hsep hsp]
  · -- '*': the attempt with '-' fails first
    have h1 := attempt_other st c ast hy m name hc (Or.inr (Or.inl rfl)) hchy (by decide) (by decide) hsep
    have key : ∀ st', (st' = st ∨ (m ≠ 0 ∧ st' = presep st c)) →
        attempt st (List.replicate m c ++ ast :: sp :: name) hy = (st', none) →
        separateRowAux st (List.replicate m c ++ ast :: sp :: name) [hy, ast, pls] = (afterRow st m c, some (m, sp :: name)) := by
      intro st' hst' hat
      simp only [separateRowAux, hat, attempt_self_after st st' c ast m (sp :: name) hc hcast hsep hsp hst']
    rcases h1 with h | ⟨hm, h⟩
    · exact key st (Or.inl rfl) h
    · exact key (presep st c) (Or.inr ⟨hm, rfl⟩) h
  · -- '+': the attempts with '-' and '*' fail first
    have h1 := attempt_other st c pls hy m name hc (Or.inr (Or.inr rfl)) hchy (by decide) (by decide) hsep
    have key : ∀ st' st'', (st' = st ∨ (m ≠ 0 ∧ st' = presep st c)) → (st'' = st' ∨ (m ≠ 0 ∧ st'' = presep st' c)) →
        attempt st (List.replicate m c ++ pls :: sp :: name) hy = (st', none) →
        attempt st' (List.replicate m c ++ pls :: sp :: name) ast = (st'', none) →
        separateRowAux st (List.replicate m c ++ pls :: sp :: name) [hy, ast, pls] = (afterRow st m c, some (m, sp :: name)) := by
      intro st' st'' hst' hst'' hat1 hat2
      simp only [separateRowAux, hat1, hat2,
        attempt_self_after st st'' c pls m (sp :: name) hc hcpls hsep hsp (step_state st st' st'' c m hst' hst'')]
    have second : ∀ st', (st' = st ∨ (m ≠ 0 ∧ st' = presep st c)) →
        attempt st (List.replicate m c ++ pls :: sp :: name) hy = (st', none) →
        separateRowAux st (List.replicate m c ++ pls :: sp :: name) [hy, ast, pls] = (afterRow st m c, some (m, sp :: name)) := by
      intro st' hst' hat1
      have h2 := attempt_other st' c pls ast m name hc (Or.inr (Or.inr rfl)) hcast (by decide) (by decide) (sep_after st st' c m hsep hst')
      rcases h2 with h | ⟨hm, h⟩
      · exact key st' st' hst' (Or.inl rfl) hat1 h
      · exact key st' (presep st' c) hst' (Or.inr ⟨hm, rfl⟩) hat1 h
    rcases h1 with h | ⟨hm, h⟩
    · exact second st (Or.inl rfl) h
    · exact second (presep st c) (Or.inr ⟨hm, rfl⟩) h

end Gtree

namespace Gtree

/-- the attempt with the row's own symbol when the indentation is NOT a whole multiple of the learnt
    unit: it fails (after latching the indent character) -/
theorem attempt_self_not_multiple (st : PState) (c b : UInt8) (m : Nat) (rest : Bytes)
    (hc : c = sp ∨ c = tab) (hcb : c ≠ b)
    (hsep : st.sep = none ∨ st.sep = some c)
    (hu : 2 ≤ st.spaces) (hmod : m % st.spaces ≠ 0) :
    attempt st (List.replicate m c ++ b :: rest) b = (presep st c, none) := by
  have hm : m ≠ 0 := by intro h; subst h; simp at hmod
  unfold attempt
  rw [cut_replicate_append b c m _ hcb, cut_head]
  simp only [Option.map_some, List.append_nil]
  obtain ⟨k, rfl⟩ : ∃ k, m = k + 1 := ⟨m - 1, by omega⟩
  have hct : (c == sp || c == tab) = true := by rcases hc with rfl | rfl <;> simp [sp, tab]
  have hgetD : ((if st.sep.isNone = true then ({ st with sep := some c } : PState) else st).sep.getD c) = c := by
    rcases hsep with h | h <;> simp [h]
  simp only [List.replicate_succ, hct, if_true, hgetD]
  have hcount : countB c (c :: List.replicate k c) = k + 1 := by
    have := countB_replicate c (k + 1)
    simpa [List.replicate_succ] using this
  simp only [hcount, List.length_cons, List.length_replicate, bne_self_eq_false, Bool.false_eq_true, if_false]
  have hpre : (if st.sep.isNone = true then ({ st with sep := some c } : PState) else st) = presep st c := rfl
  rw [hpre]
  have hps := presep_spaces st c
  have h0 : ((presep st c).spaces == 0) = false := by rw [hps]; simp; omega
  have h1 : ¬ (presep st c).spaces ≤ 1 := by rw [hps]; omega
  have h2 : ((k + 1) % (presep st c).spaces != 0) = true := by rw [hps]; simpa using hmod
  simp [h0, h1, h2]

/-- M3 — a list row whose indentation is not a whole multiple of the document's unit is rejected,
    whatever bullet symbol it uses and whatever its text contains -/
theorem separateRow_not_multiple (st : PState) (c b : UInt8) (m : Nat) (name : Bytes)
    (hc : c = sp ∨ c = tab) (hb : b = hy ∨ b = ast ∨ b = pls)
    (hsep : st.sep = none ∨ st.sep = some c)
    (hu : 2 ≤ st.spaces) (hmod : m % st.spaces ≠ 0) :
    (separateRow st (List.replicate m c ++ b :: sp :: name)).2 = none := by
  have hm : m ≠ 0 := by intro h; subst h; simp at hmod
  have hchy : c ≠ hy := by rcases hc with rfl | rfl <;> decide
  have hcast : c ≠ ast := by rcases hc with rfl | rfl <;> decide
  have hcpls : c ≠ pls := by rcases hc with rfl | rfl <;> decide
  -- every attempt fails, and leaves the state at `st` or `presep st c`
  have other : ∀ (st' : PState) (s : UInt8), (st' = st ∨ st' = presep st c) → s ≠ b → c ≠ s → sp ≠ s →
      ∃ st'', attempt st' (List.replicate m c ++ b :: sp :: name) s = (st'', none) ∧ (st'' = st ∨ st'' = presep st c) := by
    intro st' s hst' hsb hcs hss
    have hsep' : st'.sep = none ∨ st'.sep = some c := by
      rcases hst' with rfl | rfl
      · exact hsep
      · exact Or.inr (presep_sep st c hsep)
    rcases attempt_other st' c b s m name hc hb hcs (fun e => hsb e.symm) hss hsep' with h | ⟨_, h⟩
    · exact ⟨st', h, hst'⟩
    · refine ⟨presep st' c, h, ?_⟩
      rcases hst' with rfl | rfl
      · exact Or.inr rfl
      · exact Or.inr (presep_idem st c)
  have self : ∀ (st' : PState), (st' = st ∨ st' = presep st c) →
      ∃ st'', attempt st' (List.replicate m c ++ b :: sp :: name) b = (st'', none) ∧ (st'' = st ∨ st'' = presep st c) := by
    intro st' hst'
    have hcb : c ≠ b := by rcases hb with rfl | rfl | rfl <;> assumption
    rcases hst' with rfl | rfl
    · exact ⟨presep st' c, attempt_self_not_multiple st' c b m _ hc hcb hsep hu hmod, Or.inr rfl⟩
    · refine ⟨presep st c, ?_, Or.inr rfl⟩
      have := attempt_self_not_multiple (presep st c) c b m (sp :: name) hc hcb (Or.inr (presep_sep st c hsep))
        (by rw [presep_spaces]; exact hu) (by rw [presep_spaces]; exact hmod)
      rw [this, presep_idem]
  unfold separateRow listSymbols
  -- the three attempts in order; each is either the row's own symbol or another one
  have step : ∀ (st' : PState) (s : UInt8), (st' = st ∨ st' = presep st c) → (s = hy ∨ s = ast ∨ s = pls) →
      ∃ st'', attempt st' (List.replicate m c ++ b :: sp :: name) s = (st'', none) ∧ (st'' = st ∨ st'' = presep st c) := by
    intro st' s hst' hs
    by_cases hsb : s = b
    · subst hsb; exact self st' hst'
    · have hcs : c ≠ s := by rcases hs with rfl | rfl | rfl <;> assumption
      have hss : sp ≠ s := by rcases hs with rfl | rfl | rfl <;> decide
      exact other st' s hst' hsb hcs hss
  obtain ⟨s1, h1, hs1⟩ := step st hy (Or.inl rfl) (Or.inl rfl)
  obtain ⟨s2, h2, hs2⟩ := step s1 ast hs1 (Or.inr (Or.inl rfl))
  obtain ⟨s3, h3, _⟩ := step s2 pls hs2 (Or.inr (Or.inr rfl))
  simp [separateRowAux, h1, h2, h3]

end Gtree
