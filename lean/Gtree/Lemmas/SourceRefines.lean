import Gtree.Generated.Source
import Gtree.Lemmas.GoStrings
import Gtree.Model.Parser
import Gtree.Model.Split
import Gtree.Model.Spread
import Gtree.Model.Programmable
import Gtree.Model.Grow
import Gtree.Model.MkOps
/-
  The definitions translated from /repo's sources (`Generated/Source.lean`, regenerated on every run)
  compute what the hand-written model computes: the line parser (`Parser.Parse` and its helpers), the
  splitter's block-beginning predicate, the generator's error mapping.
-/
namespace Gtree
open Gtree.Go

/-- the Go parser value that a model state stands for -/
def toSrc (st : PState) : Src.Parser :=
  { isSharpRoot := st.sharp, spaces := Int.ofNat st.spaces, sep := match st.sep with | none => [] | some c => [c] }

def errSrc : PErr → Src.Err
  | .blank => .ErrBlankLine
  | .emptyText => .ErrEmptyText
  | .incorrect => .ErrIncorrectFormat

/-- (`*Markdown`, `error`) as `Parse` returns them -/
def resSrc : Except PErr (Nat × Bytes) → Option Src.Markdown × Option Src.Err
  | .error e => (none, some (errSrc e))
  | .ok (h, t) => (some { hierarchy := Int.ofNat h, text := t }, none)

/-- what one round of the loop in `separateRow` is in the model -/
def attemptSrc (st : PState) (row : Bytes) (s : UInt8) :
    Ctl (Option Src.Err × Src.Parser) (Src.Parser × (Int × Bytes × Option Src.Err)) :=
  match attempt st row s with
  | (st', some (n, after)) => .ret (toSrc st', (Int.ofNat n, after, none))
  | (st', none) => .next (some .ErrIncorrectFormat, toSrc st')

theorem forRange_three {σ ρ : Type} (F : Bytes → σ → Ctl σ ρ) (a b c : Bytes) (s : σ) :
    forRange [a, b, c] s F =
      match F a s with
      | .next s1 => (match F b s1 with
        | .next s2 => (match F c s2 with
          | .next s3 => .next s3
          | .brk s3 => .brk s3
          | .ret r => .ret r)
        | .brk s2 => .brk s2
        | .ret r => .ret r)
      | .brk s1 => .brk s1
      | .ret r => .ret r := by
  simp only [forRange]
  cases F a s with
  | next s1 =>
    simp only
    cases F b s1 with
    | next s2 =>
      simp only
      cases F c s2 <;> rfl
    | brk _ => rfl
    | ret _ => rfl
  | brk _ => rfl
  | ret _ => rfl

@[simp] theorem err_none_bne_none : ((none : Option Src.Err) != none) = false := rfl
@[simp] theorem err_some_bne_none (x : Src.Err) : ((some x : Option Src.Err) != none) = true := rfl

theorem cast_le_one (k : Nat) : ((k : Int) ≤ 1) ↔ k ≤ 1 := by omega

theorem tmod_cast (n k : Nat) : Int.tmod (n : Int) (k : Int) = ((n % k : Nat) : Int) := by
  simp [Int.tmod]

theorem tdiv_cast (n k : Nat) : Int.tdiv (n : Int) (k : Int) = ((n / k : Nat) : Int) := by
  simp [Int.tdiv]

theorem cast_bne_zero (k : Nat) : ((k : Int) != 0) = (k != 0) := by
  by_cases h : k = 0
  · subst h; rfl
  · have h1 : (k != 0) = true := by simpa using h
    have h2 : ((k : Int) != 0) = true := by
      simp only [bne_iff_ne, ne_eq]
      omega
    rw [h1, h2]

theorem validateSpaces_src (a : Bool) (b : Bytes) (k n : Nat) :
    Src.Parser.validateSpaces { isSharpRoot := a, spaces := (k : Int), sep := b } (n : Int) =
      if k ≤ 1 then none else if n % k != 0 then some .ErrIncorrectFormat else none := by
  unfold Src.Parser.validateSpaces
  simp only [Go.mod, tmod_cast, cast_bne_zero, cast_le_one]
  by_cases h : k ≤ 1
  · simp [h]
  · simp [h]

/-- the result of `separateRow` as the model gives it -/
def sepRowSrc (st : PState) (row : Bytes) : Src.Parser × (Int × Bytes × Option Src.Err) :=
  match separateRow st row with
  | (st', some (n, after)) => (toSrc st', (Int.ofNat n, after, none))
  | (st', none) => (toSrc st', (0, [], some .ErrIncorrectFormat))

/-- if every round of the loop is the model's `attempt`, the loop is the model's `separateRow` -/
theorem loop_of_rounds (row : Bytes)
    (F : Bytes → (Option Src.Err × Src.Parser) → Ctl (Option Src.Err × Src.Parser) (Src.Parser × (Int × Bytes × Option Src.Err)))
    (hF : ∀ (s : UInt8) (e : Option Src.Err) (st : PState), F [s] (e, toSrc st) = attemptSrc st row s)
    (st : PState) :
    (match forRange [[hy], [ast], [pls]] (none, toSrc st) F with
      | Ctl.ret r => r
      | Ctl.brk x | Ctl.next x => (x.2, ((0 : Int), ([] : Bytes), x.1))) = sepRowSrc st row := by
  rw [forRange_three]
  simp only [hF, attemptSrc, sepRowSrc, separateRow, listSymbols, separateRowAux]
  cases h1 : attempt st row hy with
  | mk st1 r1 =>
    cases r1 with
    | some v => obtain ⟨n, a⟩ := v; simp
    | none =>
      simp only [hF, attemptSrc]
      cases h2 : attempt st1 row ast with
      | mk st2 r2 =>
        cases r2 with
        | some v => obtain ⟨n, a⟩ := v; simp
        | none =>
          simp only [hF, attemptSrc]
          cases h3 : attempt st2 row pls with
          | mk st3 r3 =>
            cases r3 with
            | some v => obtain ⟨n, a⟩ := v; simp
            | none => simp

theorem separateRow_src (st : PState) (row : Bytes) :
    Src.Parser.separateRow (toSrc st) row = sepRowSrc st row := by
  unfold Src.Parser.separateRow
  simp only [Src.listSymbols, Src.hyphen, Src.asterisk, Src.plus]
  refine loop_of_rounds row _ ?_ st
  intro s e st
  unfold attemptSrc attempt
  cases hc : cut s row with
  | none =>
    simp [strings_Cut_single, hc]
  | some lr =>
    obtain ⟨before, after⟩ := lr
    cases before with
    | nil =>
      have hv : ∀ b : Bytes, Src.Parser.validateSpaces { isSharpRoot := st.sharp, spaces := (st.spaces : Int), sep := b } 0 = none := by
        intro b
        have := validateSpaces_src st.sharp b st.spaces 0
        simpa using this
      simp [strings_Cut_single, hc, len, toSrc, strings_Count, hv]
    | cons c rest =>
      have hsp : (idx (strings_Split (c :: rest) []) 0 == Src.space) = (c == sp) := first_char_eq c sp rest (by decide)
      have htb : (idx (strings_Split (c :: rest) []) 0 == Src.tab) = (c == tab) := first_char_eq c tab rest (by decide)
      have hlen : (len (c :: rest) != 0) = true := by
        simp only [len, bne_iff_ne, ne_eq, List.length_cons]
        intro e
        have : ((rest.length + 1 : Nat) : Int) = 0 := e
        omega
      simp only [strings_Cut_single, hc, Bool.not_true, Bool.false_eq_true, if_false, hlen, if_true, hsp, htb]
      by_cases hcc : (c == sp || c == tab) = true
      · simp only [hcc, if_true]
        have hfirst : idx (strings_Split (c :: rest) []) 0 = [c] := by
          rcases (by simpa using hcc : c = sp ∨ c = tab) with h | h
          · rw [h]; exact first_char_of_eq sp sp rest (by decide) rfl
          · rw [h]; exact first_char_of_eq tab tab rest (by decide) rfl
        rw [hfirst]
        have key : ∀ (d : UInt8) (st0 : PState), st0.sharp = st.sharp → st0.spaces = st.spaces → st0.sep = some d →
            (let p : Src.Parser := { isSharpRoot := st.sharp, spaces := (st.spaces : Int), sep := [d] }
             let spaceCount := strings_Count (c :: rest) p.sep
             if (p.sep != ([] : Bytes) && spaceCount != len (c :: rest)) then
               (Ctl.next (some Src.Err.ErrIncorrectFormat, p) : Ctl (Option Src.Err × Src.Parser) (Src.Parser × (Int × Bytes × Option Src.Err)))
             else
               let spaceCount := if (p.sep == ([] : Bytes)) then (0 : Int) else spaceCount
               let p := if (decide (spaceCount > (0 : Int)) && (p.spaces == (0 : Int))) then { p with spaces := spaceCount } else p
               let e := Src.Parser.validateSpaces p spaceCount
               if (e != none) then Ctl.next (e, p) else Ctl.ret (p, (spaceCount, after, none))) =
            (match (let spaceCount := countB d (c :: rest)
                    if spaceCount != (c :: rest).length then (st0, none)
                    else
                      let st2 : PState := if spaceCount > 0 && st0.spaces == 0 then { st0 with spaces := spaceCount } else st0
                      if st2.spaces ≤ 1 then (st2, some (spaceCount, after))
                      else if spaceCount % st2.spaces != 0 then (st2, none)
                      else (st2, some (spaceCount, after)) : PState × Option (Nat × Bytes)) with
              | (st', some (n, after)) => Ctl.ret (toSrc st', ((n : Int), after, none))
              | (st', none) => Ctl.next (some Src.Err.ErrIncorrectFormat, toSrc st')) := by
          intro d st0 hsh hspc hsp0
          have hts : toSrc st0 = { isSharpRoot := st.sharp, spaces := (st.spaces : Int), sep := [d] } := by
            simp [toSrc, hsh, hspc, hsp0]
          simp only [strings_Count_single, len, List.length_cons]
          by_cases h1 : countB d (c :: rest) = rest.length + 1
          · have h1i : (Int.ofNat (countB d (c :: rest)) != Int.ofNat (rest.length + 1)) = false := by
              rw [h1]; simp
            have h1n : (countB d (c :: rest) != rest.length + 1) = false := by simp [h1]
            simp only [h1i, h1n, Bool.and_false, Bool.false_eq_true, if_false]
            have hne : (([d] : Bytes) == ([] : Bytes)) = false := by simp
            simp only [hne, Bool.false_eq_true, if_false]
            by_cases h2 : st.spaces = 0
            · have hb1 : (decide (Int.ofNat (countB d (c :: rest)) > 0) && ((st.spaces : Int) == 0)) = true := by
                rw [h1, h2]; simp
              have hb2 : (decide (countB d (c :: rest) > 0) && st0.spaces == 0) = true := by
                rw [h1, hspc, h2]; simp
              simp only [hb1, hb2, if_true]
              have hv := validateSpaces_src st.sharp [d] (countB d (c :: rest)) (countB d (c :: rest))
              simp only [Int.ofNat_eq_natCast] at hv ⊢
              rw [hv]
              by_cases h3 : countB d (c :: rest) ≤ 1
              · simp [h3, toSrc, hsh, hsp0]
              · simp [h3, toSrc, hsh, hsp0]
            · have hb1 : (decide (Int.ofNat (countB d (c :: rest)) > 0) && ((st.spaces : Int) == 0)) = false := by
                have : ((st.spaces : Int) == 0) = false := by simp; omega
                simp [this]
              have hb2 : (decide (countB d (c :: rest) > 0) && st0.spaces == 0) = false := by
                have : (st0.spaces == 0) = false := by rw [hspc]; simpa using h2
                simp [this]
              simp only [hb1, hb2, Bool.false_eq_true, if_false]
              have hv := validateSpaces_src st.sharp [d] st.spaces (countB d (c :: rest))
              simp only [Int.ofNat_eq_natCast] at hv ⊢
              rw [hv, hspc]
              by_cases h3 : st.spaces ≤ 1
              · simp [h3, hts]
              · by_cases h4 : countB d (c :: rest) % st.spaces = 0
                · simp [h3, h4, hts]
                · simp [h3, h4, hts]
          · have h1i : (Int.ofNat (countB d (c :: rest)) != Int.ofNat (rest.length + 1)) = true := by
              simp only [bne_iff_ne, ne_eq]
              intro e; exact h1 (Int.ofNat_inj.mp e)
            have h1n : (countB d (c :: rest) != rest.length + 1) = true := by simpa using h1
            have hne : (([d] : Bytes) != ([] : Bytes)) = true := by simp
            have h1c : ¬ ((countB d (c :: rest) : Int) = (rest.length : Int) + 1) := by omega
            simp [h1i, h1n, hne, hts, h1c]
        cases hsep : st.sep with
        | none =>
          have hk := key c { st with sep := some c } rfl rfl rfl
          simp only [toSrc, hsep, BEq.rfl, if_true] at hk ⊢
          simpa using hk
        | some d =>
          have hk := key d st rfl rfl hsep
          have hne : (([d] : Bytes) == ([] : Bytes)) = false := by simp
          simp only [toSrc, hsep, hne, Bool.false_eq_true, if_false] at hk ⊢
          simpa [hsep] using hk
      · have hcc' : (c == sp || c == tab) = false := by simpa using hcc
        simp [hcc']


theorem calculateHierarchy_src (st : PState) (n : Nat) :
    Src.Parser.calculateHierarchy (toSrc st) (n : Int) = ((calculateHierarchy st n : Nat) : Int) := by
  have h0 : (((st.spaces : Nat) : Int) == 0) = (st.spaces == 0) := by
    by_cases h : st.spaces = 0
    · rw [h]; rfl
    · have a : (st.spaces == 0) = false := by simpa using h
      have b : (((st.spaces : Nat) : Int) == 0) = false := by
        simp only [beq_eq_false_iff_ne, ne_eq]; omega
      rw [a, b]
  have hs : ((match st.sep with | none => ([] : Bytes) | some c => [c]) == ([] : Bytes)) = st.sep.isNone := by
    cases st.sep <;> rfl
  unfold Src.Parser.calculateHierarchy calculateHierarchy toSrc
  simp only [Src.rootHierarchyNum, Go.div, Int.ofNat_eq_natCast, tdiv_cast, h0, hs]
  by_cases h1 : (st.spaces == 0 || st.sep.isNone) = true
  · simp only [h1, if_true]
    cases st.sharp <;> simp
  · have h1' : (st.spaces == 0 || st.sep.isNone) = false := by
      cases hh : (st.spaces == 0 || st.sep.isNone) with
      | true => exact absurd hh h1
      | false => rfl
    simp only [h1', Bool.false_eq_true, if_false]
    cases st.sharp <;> simp

theorem isBlank_src (p : Src.Parser) (row : Bytes) : Src.Parser.isBlank p row = isBlank row := by
  unfold Src.Parser.isBlank
  exact len_TrimSpace_eq_zero row

theorem len_eq_zero (t : Bytes) : (len t == 0) = t.isEmpty := by
  cases t with
  | nil => rfl
  | cons x xs =>
    simp only [len, List.length_cons, List.isEmpty_cons, beq_eq_false_iff_ne, ne_eq]
    intro e
    have : ((xs.length + 1 : Nat) : Int) = 0 := e
    omega

theorem parse_list' (st : PState) (row : Bytes) (hnb : isBlank row = false) (hhead : row.head? ≠ some 0x23) :
    parse st row =
      (match separateRow st row with
       | (st', none) => (st', .error .incorrect)
       | (st', some (spaceCount, afterText)) =>
         let text := trimPrefixB sp afterText
         if text.isEmpty then (st', .error .emptyText)
         else (st', .ok (calculateHierarchy st' spaceCount, text))) := by
  unfold parse
  simp only [hnb, Bool.false_eq_true, if_false]
  split
  · rename_i after; simp at hhead
  · rfl

/-- **`Parser.Parse` as translated from markdown/parser.go is the model's `parse`.** -/
theorem Parse_src (st : PState) (row : Bytes) :
    Src.Parser.Parse (toSrc st) row = (toSrc (parse st row).1, resSrc (parse st row).2) := by
  unfold Src.Parser.Parse
  rw [isBlank_src]
  by_cases hb : isBlank row = true
  · simp [hb, parse, resSrc, errSrc]
  · have hb' : isBlank row = false := by simpa using hb
    simp only [hb', Bool.false_eq_true, if_false, Src.sharp, strings_HasPrefix_single]
    cases row with
    | nil => simp [isBlank, isBlankFuel] at hb'
    | cons x xs =>
      by_cases hx : x = 0x23
      · subst hx
        have hcut : strings_Cut (0x23 :: xs) [0x23] = ([], xs, true) := by
          rw [strings_Cut_single]; simp [cut]
        have hp : parse st (0x23 :: xs) = (({ st with sharp := true } : PState),
            (if (trimB sp (trimLeftB shp xs)).isEmpty then Except.error PErr.emptyText else Except.ok (1, trimB sp (trimLeftB shp xs)))) := by
          unfold parse
          simp only [hb', Bool.false_eq_true, if_false]
          split <;> rfl
        rw [hp]
        simp only [List.head?_cons, BEq.rfl, if_true, hcut, Bool.not_true, Bool.false_eq_true, if_false,
          strings_TrimLeft_single, Src.space, strings_Trim_single, len_eq_zero]
        have e1 : trimLeftB 0x23 xs = trimLeftB shp xs := rfl
        have e2 : ∀ t, trimB 0x20 t = trimB sp t := fun _ => rfl
        by_cases ht : (trimB sp (trimLeftB shp xs)).isEmpty = true
        · simp [e1, e2, ht, toSrc, resSrc, errSrc]
        · have ht' : (trimB sp (trimLeftB shp xs)).isEmpty = false := by simpa using ht
          simp [e1, e2, ht', toSrc, resSrc, Src.rootHierarchyNum]
      · have hne : ((some x : Option UInt8) == some 0x23) = false := by simpa using hx
        rw [parse_list' st (x :: xs) hb' (by simpa using hx)]
        simp only [List.head?_cons, hne, Bool.false_eq_true, if_false, separateRow_src, sepRowSrc]
        cases hs : separateRow st (x :: xs) with
        | mk st' r =>
          cases r with
          | none => simp [resSrc, errSrc]
          | some v =>
            obtain ⟨n, afterText⟩ := v
            simp only [err_none_bne_none, Bool.false_eq_true, if_false, Src.space, strings_TrimPrefix_single, len_eq_zero]
            have e3 : ∀ t, trimPrefixB 0x20 t = trimPrefixB sp t := fun _ => rfl
            by_cases ht : (trimPrefixB sp afterText).isEmpty = true
            · simp [e3, ht, resSrc, errSrc]
            · have ht' : (trimPrefixB sp afterText).isEmpty = false := by simpa using ht
              simp [e3, ht', resSrc, calculateHierarchy_src]


/-- `isSharpRootRow` of input_spliter.go is the model's `isSharpRow` -/
theorem isSharpRootRow_src (l : Bytes) : Src.isSharpRootRow l = isSharpRow l := by
  unfold Src.isSharpRootRow isSharpRow
  cases l with
  | nil => rfl
  | cons x xs =>
    have h1 : (len (x :: xs) != 0) = true := by
      simp only [len, bne_iff_ne, ne_eq, List.length_cons]
      intro e
      have : ((xs.length + 1 : Nat) : Int) = 0 := e
      omega
    simp only [h1, Bool.true_and, Go.slice, List.take_succ_cons, List.take_zero, List.drop_zero, List.head?_cons]
    by_cases hx : x = 0x23
    · subst hx; rfl
    · have a : (([x] : Bytes) == [0x23]) = false := by simpa using hx
      have b : ((some x : Option UInt8) == some shp) = false := by
        simp only [beq_eq_false_iff_ne, ne_eq, Option.some.injEq]; exact hx
      rw [a, b]

theorem IsSymbol_single (x : UInt8) : Src.IsSymbol [x] = isSymbolByte x := by
  unfold Src.IsSymbol isSymbolByte
  simp only [Src.symbols, Src.sharp, Src.hyphen, Src.asterisk, Src.plus, List.contains_cons, List.contains_nil,
    Bool.or_false, shp, hy, ast, pls]
  have e : ∀ y : UInt8, (([x] : Bytes) == [y]) = (x == y) := by
    intro y
    by_cases h : x = y
    · subst h; simp
    · have a : (x == y) = false := by simpa using h
      have b : (([x] : Bytes) == [y]) = false := by simpa using h
      rw [a, b]
  simp only [e, Bool.or_assoc]

/-- **`isRootBlockBeginning` of input_spliter.go is the model's `rootBeginning`.** -/
theorem isRootBlockBeginning_src (l : Bytes) (sharp : Bool) :
    Src.isRootBlockBeginning l sharp = rootBeginning l sharp := by
  unfold Src.isRootBlockBeginning rootBeginning
  rw [isSharpRootRow_src, len_eq_zero]
  cases l with
  | nil => cases sharp <;> simp [isSharpRow, startsWithSymbol]
  | cons x xs =>
    simp only [List.isEmpty_cons, Bool.false_eq_true, if_false, Go.slice, List.take_succ_cons, List.take_zero,
      List.drop_zero, IsSymbol_single, startsWithSymbol]

/-- the generator's error values, as the model names them -/
def gerrSrc : GErr → Option Src.Err
  | .emptyText => some .errEmptyText
  | .format row => some (.inputFormatError row)
  | _ => none

/-- **`nodeGenerator.handleErr` of node_generator.go maps the parser's errors the way the model's `genStep` does**:
    an empty item text becomes the generator's own sentinel, a format error carries the row, a blank row is no error. -/
theorem handleErr_src (g : Src.nodeGenerator) (row : Bytes) :
    Src.nodeGenerator.handleErr g (some (errSrc .emptyText)) row = gerrSrc .emptyText ∧
    Src.nodeGenerator.handleErr g (some (errSrc .incorrect)) row = gerrSrc (.format row) ∧
    Src.nodeGenerator.handleErr g (some (errSrc .blank)) row = none := by
  refine ⟨rfl, rfl, rfl⟩


/-! ### The node helpers of node.go and file_considerer.go -/

mutual
/-- the Go node (downwards: name, hierarchy, children) that a model tree at hierarchy `h` stands for;
    `index` and the cached `brnch` are whatever they are — the translated functions do not read them -/
def toNode (h : Nat) : T → Src.Node
  | .mk n ks => { name := n, hierarchy := (h : Int), index := 0, brnch := ⟨[], []⟩, children := toNodes (h + 1) ks }
def toNodes (h : Nat) : List T → List Src.Node
  | [] => []
  | t :: ts => toNode h t :: toNodes h ts
end

theorem toNodes_length (h : Nat) : ∀ ks : List T, (toNodes h ks).length = ks.length
  | [] => by simp [toNodes]
  | t :: ts => by simp [toNodes, toNodes_length h ts]

theorem toNode_name (h : Nat) (t : T) : (toNode h t).name = t.name := by
  cases t with
  | mk n ks => simp [toNode, T.name]

/-- `Node.hasChild` -/
theorem hasChild_src (h : Nat) (n : Bytes) (ks : List T) : Src.Node.hasChild (toNode h (.mk n ks)) = !ks.isEmpty := by
  simp only [Src.Node.hasChild, toNode, len, toNodes_length]
  cases ks with
  | nil => simp
  | cons k ks' =>
    simp only [List.length_cons, List.isEmpty_cons, Bool.not_false, decide_eq_true_eq]
    have : (0 : Int) < ((ks'.length + 1 : Nat) : Int) := by omega
    exact this

/-- `Node.isRoot`: hierarchy 1 -/
theorem isRoot_src (h : Nat) (t : T) : Src.Node.isRoot (toNode h t) = (h == 1) := by
  cases t with
  | mk n ks =>
    simp only [Src.Node.isRoot, toNode, Src.rootHierarchyNum]
    by_cases hh : h = 1
    · subst hh; rfl
    · have a : (h == 1) = false := by simpa using hh
      have b : (((h : Nat) : Int) == 1) = false := by
        simp only [beq_eq_false_iff_ne, ne_eq]; omega
      rw [a, b]

theorem forRange_find_ret {α ρ : Type} (p : α → Bool) (g : α → ρ) : ∀ (xs : List α),
    forRange xs () (fun x (st_ : Unit) => if p x then (Ctl.ret (g x) : Ctl Unit ρ) else Ctl.next st_) =
      match xs.find? p with
      | some x => Ctl.ret (g x)
      | none => Ctl.next ()
  | [] => rfl
  | x :: xs => by
    simp only [forRange, List.find?_cons]
    by_cases hp : p x = true
    · simp [hp]
    · have : p x = false := by simpa using hp
      simp only [this, Bool.false_eq_true, if_false]
      exact forRange_find_ret p g xs

/-- **`fileConsiderer.isFile` of file_considerer.go is the model's `isFileNode`**: a node is created as a file
    iff it has no children and its name ends with one of the configured extensions. -/
theorem isFile_src (exts : List Bytes) (h : Nat) (n : Bytes) (ks : List T) :
    Src.fileConsiderer.isFile ⟨exts⟩ (toNode h (.mk n ks)) = isFileNode exts n (!ks.isEmpty) := by
  unfold Src.fileConsiderer.isFile isFileNode
  rw [hasChild_src]
  by_cases hk : (!ks.isEmpty) = true
  · simp [hk]
  · have hk' : (!ks.isEmpty) = false := by simpa using hk
    simp only [hk', Bool.false_eq_true, if_false, Bool.not_false, Bool.true_and]
    have hname : (toNode h (T.mk n ks)).name = n := by simp [toNode]
    have := forRange_find_ret (fun e => strings_HasSuffix (toNode h (T.mk n ks)).name e) (fun _ => true) exts
    rw [this, hname]
    simp only [strings_HasSuffix, hasSuffix]
    cases hf : exts.find? (fun e => e.isSuffixOf n) with
    | some e =>
      have := List.find?_some hf
      have hm := List.mem_of_find?_eq_some hf
      simp only
      symm
      rw [List.any_eq_true]
      exact ⟨e, hm, this⟩
    | none =>
      simp only
      symm
      rw [List.any_eq_false]
      intro e he
      have := List.find?_eq_none.mp hf e he
      simpa using this

theorem toNodes_find (h : Nat) (x : Bytes) : ∀ ks : List T,
    (toNodes h ks).find? (fun c => x == c.name) = (ks.find? (fun k => x == k.name)).map (toNode h)
  | [] => by simp [toNodes]
  | k :: ks => by
    simp only [toNodes, List.find?_cons, toNode_name]
    by_cases hx : (x == k.name) = true
    · simp [hx]
    · have : (x == k.name) = false := by simpa using hx
      simp only [this]
      exact toNodes_find h x ks

/-- **`Node.findChildByText` of node.go**: the first child with that name (the child the builder re-opens when a
    row repeats a sibling's name — the model's `splitAtName`), or nil. -/
theorem findChildByText_src (h : Nat) (n x : Bytes) (ks : List T) :
    Src.Node.findChildByText (toNode h (.mk n ks)) x = (ks.find? (fun k => x == k.name)).map (toNode (h + 1)) := by
  unfold Src.Node.findChildByText
  have := forRange_find_ret (fun (c : Src.Node) => x == c.name) (fun c => some c) (toNode h (.mk n ks)).children
  rw [this]
  simp only [toNode, toNodes_find]
  cases ks.find? (fun k => x == k.name) <;> rfl


theorem splitAtName_find (x : Bytes) : ∀ ks : List T,
    (splitAtName x ks).map (fun p => p.2.1) = ks.find? (fun k => x == k.name)
  | [] => by simp [splitAtName]
  | k :: ks => by
    simp only [splitAtName, List.find?_cons]
    by_cases hx : k.name = x
    · have a : (k.name == x) = true := by simpa using hx
      have b : (x == k.name) = true := by simpa using hx.symm
      simp [a, b]
    · have a : (k.name == x) = false := by simpa using hx
      have b : (x == k.name) = false := by
        simp only [beq_eq_false_iff_ne, ne_eq]; exact fun e => hx e.symm
      simp only [a, b, Bool.false_eq_true, if_false]
      rw [← splitAtName_find x ks]
      cases splitAtName x ks with
      | none => rfl
      | some p => obtain ⟨l, c, r⟩ := p; rfl

/-- the child the model's builder re-opens (`descend` via `splitAtName`) is the child `findChildByText` returns -/
theorem findChildByText_is_splitAtName (h : Nat) (n x : Bytes) (ks : List T) :
    Src.Node.findChildByText (toNode h (.mk n ks)) x = ((splitAtName x ks).map (fun p => p.2.1)).map (toNode (h + 1)) := by
  rw [findChildByText_src, splitAtName_find]


theorem len_ne_zero_list {α : Type} (l : List α) : (len l != 0) = !l.isEmpty := by
  cases l with
  | nil => rfl
  | cons x xs =>
    simp only [len, List.length_cons, List.isEmpty_cons, Bool.not_false, bne_iff_ne, ne_eq]
    intro e
    have : ((xs.length + 1 : Nat) : Int) = 0 := e
    omega

/-- **`defaultVerifierSimple.handleErr` of simple_tree_verifier.go is the model's verdict on one root**
    (`verifyRoots` / `verifyOne`): an error exactly when a required path is missing or, in strict mode, an extra
    entry exists; the error carries the two lists and the strictness. -/
theorem verifier_handleErr_src (strict : Bool) (dir : Bytes) (extra missing : List Bytes) :
    Src.defaultVerifierSimple.handleErr ⟨strict, dir⟩ extra missing =
      if (strict && !extra.isEmpty) || !missing.isEmpty then some (Src.Err.verifyError strict extra missing) else none := by
  unfold Src.defaultVerifierSimple.handleErr
  simp only [len_ne_zero_list]

/-- the same decision as the model's worker of one root (`verifyOne`), given what `verifyRoot` found -/
theorem verifyOne_decision (fs : FS) (target : Bytes) (strict : Bool) (vs : List Visit) (d : VerifyDiff)
    (h : verifyRoot fs target vs = .ok d) (dir : Bytes) :
    (verifyOne fs target strict vs).isSome = (Src.defaultVerifierSimple.handleErr ⟨strict, dir⟩ d.extra d.missing).isSome := by
  rw [verifier_handleErr_src]
  simp only [verifyOne, h]
  split <;> rfl


/-! ### `Node.validatePath` -/

/-- the Go node of one grown visit, as far as `validatePath` reads it -/
def visitNode (v : Visit) : Src.Node :=
  { name := v.name, hierarchy := (v.level : Int), index := 0, brnch := ⟨v.branch, v.path⟩,
    children := if v.hasChild then [{ name := [], hierarchy := 0, index := 0, brnch := ⟨[], []⟩, children := [] }] else [] }

/-- the model's validation errors as the `fmt.Errorf` values of node.go -/
def verrSrc : VErr → Src.Err
  | .invalidName n => .Errorf [105, 110, 118, 97, 108, 105, 100, 32, 110, 111, 100, 101, 32, 110, 97, 109, 101, 58, 32, 37, 115] [n]   -- "invalid node name: %s"
  | .invalidPath p => .Errorf [105, 110, 118, 97, 108, 105, 100, 32, 112, 97, 116, 104, 58, 32, 37, 115] [p]        -- "invalid path: %s"

theorem containsAny_slash (n : Bytes) : strings_ContainsAny n [0x2F] = n.contains slash := by
  unfold strings_ContainsAny
  rw [Bool.eq_iff_iff]
  simp only [List.any_eq_true, List.contains_iff_mem, List.mem_singleton, slash]
  constructor
  · rintro ⟨b, hb, rfl⟩; exact hb
  · intro h; exact ⟨_, h, rfl⟩

/-- **`Node.validatePath` of node.go is the model's `validateVisit`**: the name must be one path element (not empty,
    not "." or "..", no slash), then the joined path must be valid for io/fs; the first failure is the error, with
    the offending name / path in it. (`v.level = 1 → v.path = v.name`: a root's path is its name.) -/
theorem validatePath_src (v : Visit) (hroot : v.level = 1 → v.path = v.name) :
    Src.Node.validatePath (visitNode v) = (validateVisit v).map verrSrc := by
  have hpath : Src.Node.path (visitNode v) = v.path := by
    unfold Src.Node.path Src.Node.isRoot visitNode
    simp only [Src.rootHierarchyNum]
    by_cases h1 : v.level = 1
    · have : (((v.level : Nat) : Int) == 1) = true := by rw [h1]; rfl
      simp [this, hroot h1]
    · have : (((v.level : Nat) : Int) == 1) = false := by
        simp only [beq_eq_false_iff_ne, ne_eq]; omega
      simp [this]
  unfold Src.Node.validatePath validateVisit
  rw [hpath]
  have hname : (visitNode v).name = v.name := rfl
  simp only [hname, containsAny_slash, fs_ValidPath]
  have hse : (((v.name == ([] : Bytes)) || (v.name == ([0x2E] : Bytes))) || (v.name == ([0x2E, 0x2E] : Bytes)) || v.name.contains slash) = !singleElem v.name := by
    unfold singleElem
    have e1 : (v.name == ([] : Bytes)) = v.name.isEmpty := by cases v.name <;> rfl
    have e2 : (v.name != [dot]) = !(v.name == ([0x2E] : Bytes)) := rfl
    have e3 : (v.name != dotdot) = !(v.name == ([0x2E, 0x2E] : Bytes)) := rfl
    rw [e1, e2, e3]
    cases v.name.isEmpty <;> cases (v.name == ([0x2E] : Bytes)) <;> cases (v.name == ([0x2E, 0x2E] : Bytes)) <;> cases v.name.contains slash <;> rfl
  rw [hse]
  by_cases h1 : singleElem v.name = true
  · simp only [h1, Bool.not_true, Bool.false_eq_true, if_false]
    by_cases h2 : fsValidPath v.path = true
    · simp [h2]
    · have : fsValidPath v.path = false := by simpa using h2
      simp only [this, Bool.not_false, if_true, Option.map_some, verrSrc]
  · have : singleElem v.name = false := by simpa using h1
    simp only [this, Bool.not_false, if_true, Option.map_some, verrSrc]


/-! ### The accessors of `WalkerNode` (simple_tree_walker.go) -/

theorem visitNode_isRoot (v : Visit) : Src.Node.isRoot (visitNode v) = (v.level == 1) := by
  unfold Src.Node.isRoot visitNode
  simp only [Src.rootHierarchyNum]
  by_cases h1 : v.level = 1
  · rw [h1]; rfl
  · have a : (v.level == 1) = false := by simpa using h1
    have b : (((v.level : Nat) : Int) == 1) = false := by
      simp only [beq_eq_false_iff_ne, ne_eq]; omega
    rw [a, b]

/-- **What a walk callback reads from a `WalkerNode` is the model's visit**: `Name`, `Branch`, `Level`, `HasChild`,
    `Path` (a root's path is its name) and `Row` = `Branch + " " + Name`, the name alone for a root. -/
theorem walkerNode_src (v : Visit) (hroot : v.level = 1 → v.path = v.name) :
    Src.WalkerNode.Name ⟨visitNode v⟩ = v.name ∧
    Src.WalkerNode.Branch ⟨visitNode v⟩ = v.branch ∧
    Src.WalkerNode.Level ⟨visitNode v⟩ = (v.level : Int) ∧
    Src.WalkerNode.HasChild ⟨visitNode v⟩ = v.hasChild ∧
    Src.WalkerNode.Path ⟨visitNode v⟩ = v.path ∧
    Src.WalkerNode.Row ⟨visitNode v⟩ = v.row := by
  refine ⟨rfl, rfl, rfl, ?_, ?_, ?_⟩
  · simp only [Src.WalkerNode.HasChild, Src.Node.hasChild, visitNode, len]
    by_cases hh : v.hasChild = true
    · simp [hh]
    · have : v.hasChild = false := by simpa using hh
      simp [this]
  · simp only [Src.WalkerNode.Path, Src.Node.path, visitNode_isRoot]
    by_cases h1 : v.level = 1
    · have : (v.level == 1) = true := by simpa using h1
      simp only [this, if_true]
      exact (hroot h1).symm
    · have : (v.level == 1) = false := by simpa using h1
      simp [this, visitNode]
  · simp only [Src.WalkerNode.Row, visitNode_isRoot, Visit.row]
    by_cases h1 : v.level = 1
    · have : (v.level == 1) = true := by simpa using h1
      simp [this, visitNode]
    · have : (v.level == 1) = false := by simpa using h1
      simp only [this, Bool.not_false, if_true, Bool.false_eq_true, if_false]
      show (v.branch ++ [0x20]) ++ v.name = v.branch ++ sp :: v.name
      simp [sp]


/-! ### `validateTreeRoot` (tree_handler_programmably.go) -/

/-- the Go node an arena node stands for, as far as `validateTreeRoot` reads it (its hierarchy) -/
def pnodeSrc (n : PNode) : Src.Node :=
  { name := n.name, hierarchy := (n.hierarchy : Int), index := (n.index : Int), brnch := ⟨[], []⟩, children := [] }

def sentinelSrc : Err → Option Src.Err
  | .nilNode => some .ErrNilNode
  | .notRoot => some .ErrNotRoot
  | _ => none

/-- **`validateTreeRoot` is the model's `Store.validateRoot`**: nil ⇒ `ErrNilNode`; a node whose hierarchy is not 1 ⇒
    `ErrNotRoot`; otherwise no error — decided before anything else happens in every From-Root entry point. -/
theorem validateTreeRoot_src (s : Store) (i : Nat) :
    Src.validateTreeRoot ((s.get? i).map pnodeSrc) = (s.validateRoot (some i)).bind sentinelSrc := by
  unfold Src.validateTreeRoot Store.validateRoot
  cases hget : s.get? i with
  | none => simp [hget, sentinelSrc]
  | some n =>
    simp only [Option.map_some, Src.Node.isRoot, pnodeSrc, Src.rootHierarchyNum]
    by_cases h1 : n.hierarchy = 1
    · have a : (n.hierarchy == 1) = true := by simpa using h1
      have b : (((n.hierarchy : Nat) : Int) == 1) = true := by rw [h1]; rfl
      simp [a, b, hget, h1]
    · have a : (n.hierarchy == 1) = false := by simpa using h1
      have b : (((n.hierarchy : Nat) : Int) == 1) = false := by
        simp only [beq_eq_false_iff_ne, ne_eq]; omega
      simp [a, b, hget, h1, sentinelSrc]

theorem validateTreeRoot_nil : Src.validateTreeRoot none = some .ErrNilNode := rfl


/-- **`Node.isDirectlyUnder` of node.go**: a node is directly under another iff its hierarchy is one more; under
    nil, never.  (`stack.dfs` pops until this holds — the model's `closeTo (h - 1)`; when no open node qualifies
    the item is "nested more than one level deeper".) -/
theorem isDirectlyUnder_src (h h' : Nat) (t t' : T) :
    Src.Node.isDirectlyUnder (toNode h t) (some (toNode h' t')) = (h == h' + 1) ∧
    Src.Node.isDirectlyUnder (toNode h t) none = false := by
  refine ⟨?_, rfl⟩
  cases t with
  | mk n ks =>
    cases t' with
    | mk n' ks' =>
      simp only [Src.Node.isDirectlyUnder, toNode]
      by_cases hh : h = h' + 1
      · subst hh
        have : (((h' + 1 : Nat) : Int) == (h' : Int) + 1) = true := by simp
        simp [this]
      · have a : (h == h' + 1) = false := by simpa using hh
        have b : (((h : Nat) : Int) == (h' : Int) + 1) = false := by
          simp only [beq_eq_false_iff_ne, ne_eq]; omega
        rw [a, b]


theorem forRange_concat {ρ : Type} : ∀ (xs : List Bytes) (acc : Bytes),
    forRange xs acc (fun v (st_ : Bytes) => (Ctl.next (st_ + v) : Ctl Bytes ρ)) = Ctl.next (acc ++ xs.flatten)
  | [], acc => by simp [forRange]
  | x :: xs, acc => by
    simp only [forRange, List.flatten_cons]
    rw [forRange_concat xs (acc + x)]
    show Ctl.next ((acc ++ x) ++ xs.flatten) = Ctl.next (acc ++ (x ++ xs.flatten))
    rw [List.append_assoc]

/-- **`Node.setBranch` of node.go**: the branch of a node becomes the concatenation of the strings it is given, in
    order (the grower passes the parts of the branch: the continuation strings of the ancestors and the node's own
    connector — `Model/Grow.lean` concatenates the same parts); nothing else of the node changes. -/
theorem setBranch_src (n : Src.Node) (parts : List Bytes) :
    (Src.Node.setBranch n parts).1 = { n with brnch := { n.brnch with value := parts.flatten } } := by
  unfold Src.Node.setBranch
  simp only [forRange_concat, List.nil_append]

end Gtree
