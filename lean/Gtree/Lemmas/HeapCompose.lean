import Gtree.Lemmas.HeapGrower
import Gtree.Lemmas.HeapMkdir
import Gtree.Lemmas.Render
/-
  The translated pieces composed as the tree handlers compose them: grow (with validation), then mkdir, on the same
  nodes — the model's `mkdirRootsApi` (real run).
-/
namespace Gtree.SrcH
open Gtree Gtree.Go

mutual
theorem readNode_length (h : Heap) : ∀ (t : T) (p par : Ptr) (lvl : Nat), Repr h t p par lvl →
    (readNode h t p lvl).length = t.size
  | .mk n ks, p, par, lvl, hr => by
    rw [Repr] at hr
    rw [readNode, List.length_cons, readKids_length h ks _ p (lvl + 1) hr.2.2.2.2]
    simp [T.size]; omega
theorem readKids_length (h : Heap) : ∀ (ts : List T) (cs : List Ptr) (par : Ptr) (lvl : Nat),
    ReprKids h ts cs par lvl → (readKids h ts cs lvl).length = sizeList ts
  | [], cs, par, lvl, hr => by rw [readKids]; simp [sizeList]
  | t :: ts, cs, par, lvl, hr => by
    rw [ReprKids] at hr
    obtain ⟨c, cs', rfl, h1, h2⟩ := hr
    rw [readKids, List.length_append, readNode_length h t c par lvl h1, readKids_length h ts cs' par lvl h2]
    simp [sizeList]
end

/-- what is read root by root, when what is read from the whole forest is the model's -/
theorem rootVisits_of_read (f : Fmt) (h : Heap) : ∀ (ts : List T) (rs : List Ptr), ReprRoots h ts rs →
    readKids h ts rs 1 = ts.flatMap (growRoot f) → rootVisits h ts rs = ts.map (growRoot f)
  | [], rs, hr, _ => by
    have : rs = [] := hr
    subst this; rfl
  | t :: ts, rs, hr, hrd => by
    obtain ⟨r, rs', rfl, hrr, hrs⟩ := hr
    rw [readKids, List.flatMap_cons] at hrd
    have hlen : (readNode h t r 1).length = (growRoot f t).length := by
      rw [readNode_length h t r 0 1 hrr, growRoot_length]
    obtain ⟨h1, h2⟩ := List.append_inj hrd hlen
    rw [rootVisits, List.map_cons, h1, rootVisits_of_read f h ts rs' hrs h2]

/-- **grow (validating), then mkdir, on the translated code = the model's `mkdirRootsApi` (real run)**: an invalid name
    anywhere in the forest is reported by the grower before the mkdirer runs (so nothing is created); otherwise the
    mkdirer performs the model's `mkdirRoots` on the grown visits of every root. -/
theorem grow_then_mkdir (dg : defaultGrowerSimple) (dm : defaultMkdirerSimple) (ts : List T) (h : Heap) (fs : FS)
    (rs : List Ptr) (fuel : Nat) (hv : dg.enabledValidation = true)
    (hr : ReprRoots h ts rs) (hnd : (ptrsKids h ts rs).Nodup) (hf : 2 * sizeList ts + 1 ≤ fuel) :
    ∃ h', defaultGrowerSimple.grow fuel h dg rs =
        some (h', (validateVisits (ts.map (growRoot (fmtOf dg))).flatten).map verrSrc) ∧
      (validateVisits (ts.map (growRoot (fmtOf dg))).flatten = none →
        defaultMkdirerSimple.mkdir fuel h' fs dm rs =
          some ((mkdirRoots fs dm.targetDir dm.fileConsiderer.extensions (ts.map (growRoot (fmtOf dg)))).1,
                mkErrSrc (mkdirRoots fs dm.targetDir dm.fileConsiderer.extensions (ts.map (growRoot (fmtOf dg)))).2)) := by
  obtain ⟨h', hrun, hrest⟩ := grow_forest dg ts h rs fuel hr hnd hf
  have hflat : (ts.map (growRoot (fmtOf dg))).flatten = ts.flatMap (growRoot (fmtOf dg)) := by
    rw [List.flatMap_def]
  have he : expErr dg (ts.flatMap (growRoot (fmtOf dg))) = (validateVisits (ts.flatMap (growRoot (fmtOf dg)))).map verrSrc := by
    simp [expErr, hv]
  rw [he] at hrun hrest
  rw [hflat]
  refine ⟨h', hrun, fun hnone => ?_⟩
  obtain ⟨hs, _, hrd⟩ := hrest (by rw [hnone]; rfl)
  have hr' := ReprRoots_shape hs ts rs hr
  rw [mkdir_heap dm h' ts fs rs fuel hr' (by omega), rootVisits_of_read (fmtOf dg) h' ts rs hr' hrd]

end Gtree.SrcH
