import Gtree.Generated.Facts
/-
  What the workers of the massive mode's stages run for one root (hand-written expectation), against what the fact
  extractor found in pipeline_tree_*.go on this run: each stage type embeds the simple mode's type, its worker calls
  the simple mode's per-root methods on its receiver, and the stage type declares no method of those names itself —
  so the calls are the promoted methods, i.e. the functions translated in heap mode and proved equal to the model.
-/
namespace Gtree

/-- stage type ↦ (the simple-mode type it embeds, the per-root methods its worker calls) -/
def expectedWorkers : List (String × String × List String) :=
  [("defaultGrowerPipeline", "defaultGrowerSimple", ["assemble"]),
   ("defaultMkdirerPipeline", "defaultMkdirerSimple", ["isExistRoot", "makeDirectoriesAndFiles"]),
   ("defaultSpreaderPipeline", "defaultSpreaderSimple", ["Lock", "Unlock", "spreadBranch"]),
   ("defaultVerifierPipeline", "defaultVerifierSimple", ["handleErr", "verifyRoot"]),
   ("defaultWalkerPipeline", "defaultWalkerSimple", ["walkNode"])]

def lookupL (k : String) (m : List (String × List String)) : List String :=
  match m.find? (fun e => e.1 == k) with
  | some e => e.2
  | none => []

/-- one stage: embeds the simple type, calls exactly the expected methods, shadows none of them -/
def workerOk (e : String × String × List String) : Bool :=
  (lookupL e.1 Facts.pipeEmbeds).contains e.2.1 &&
  lookupL e.1 Facts.workerCalls == e.2.2 &&
  e.2.2.all (fun m => !(lookupL e.1 Facts.pipeMethods).contains m)

theorem workers_run_the_simple_functions :
    expectedWorkers.all workerOk = true ∧ Facts.workerCalls.length = expectedWorkers.length := by decide

end Gtree
