import Gtree.Model.Net
/-
  Every step of the K-stage pipeline model decreases a natural-number measure: every schedule ends.
-/
namespace Gtree.Net

/-- the part of the measure a stage contributes when `r` stages follow it -/
def localM (s : Stg) (r : Nat) : Nat :=
  2 * s.idle + (r + 3) * s.send + 2 * s.err + b2n s.outClosed + (if s.waiter then 1 else 0) + (if s.errbuf then 1 else 0)

theorem sm_cons (s : Stg) (rest : List Stg) : stagesMeasure (s :: rest) = localM s rest.length + stagesMeasure rest := by
  simp [stagesMeasure, localM]

/-- replacing one stage changes the measure by the difference of the local parts -/
theorem sm_replace : ∀ (pre : List Stg) (x y : Stg) (post : List Stg),
    stagesMeasure (pre ++ x :: post) + localM y post.length = stagesMeasure (pre ++ y :: post) + localM x post.length
  | [], x, y, post => by simp only [List.nil_append, sm_cons]; omega
  | p :: pre, x, y, post => by
    have ih := sm_replace pre x y post
    have hl : (pre ++ x :: post).length = (pre ++ y :: post).length := by simp
    simp only [List.cons_append, sm_cons, hl]
    omega

/-- replacing two neighbours -/
theorem sm_replace2 (pre : List Stg) (a a' b b' : Stg) (post : List Stg) :
    stagesMeasure (pre ++ a :: b :: post) + localM a' (post.length + 1) + localM b' post.length
      = stagesMeasure (pre ++ a' :: b' :: post) + localM a (post.length + 1) + localM b post.length := by
  have h1 := sm_replace pre a a' (b :: post)
  have h2 := sm_replace (pre ++ [a']) b b' post
  simp only [List.append_assoc, List.cons_append, List.nil_append, List.length_cons] at h1 h2
  omega

theorem length_replace (pre : List Stg) (x y : Stg) (post : List Stg) :
    (pre ++ y :: post).length = (pre ++ x :: post).length := by simp

theorem C11_net_measure_decreases (n n' : Net) (h : Step n n') : measure n' < measure n := by
  rcases h with h | h
  · cases h with
    | feed a a' post hs ht hc ho =>
      simp only [measure, hs, sm_cons, List.length_cons]
      cases ho with
      | ok hi hl =>
        simp only [localM]
        have : (n.todo - 1) + 1 = n.todo := by omega
        have hmul : (post.length + 1 + 3) * n.todo = (post.length + 1 + 3) * (n.todo - 1) + (post.length + 1 + 3) := by
          rw [← this]; simp [Nat.mul_add]
        have hs2 : (post.length + 3) * (a.send + 1) = (post.length + 3) * a.send + (post.length + 3) := by simp [Nat.mul_add]
        rw [hmul, hs2]
        omega
      | okLast hi hl =>
        have : (n.todo - 1) + 1 = n.todo := by omega
        have hmul : (post.length + 1 + 3) * n.todo = (post.length + 1 + 3) * (n.todo - 1) + (post.length + 1 + 3) := by
          rw [← this]; simp [Nat.mul_add]
        rw [hmul]
        omega
      | fail hi =>
        simp only [localM]
        have : (n.todo - 1) + 1 = n.todo := by omega
        have hmul : (post.length + 1 + 3) * n.todo = (post.length + 1 + 3) * (n.todo - 1) + (post.length + 1 + 3) := by
          rw [← this]; simp [Nat.mul_add]
        rw [hmul]
        omega
    | srcDone hc ht =>
      simp only [measure, hc, b2n]
      simp
    | handover pre a b b' post hs hsend ho =>
      have hlen := length_replace pre a { a with send := a.send - 1, idle := a.idle + 1 } (b' :: post)
      have hlen2 : (pre ++ a :: b' :: post).length = (pre ++ a :: b :: post).length := by simp
      have key := sm_replace2 pre a { a with send := a.send - 1, idle := a.idle + 1 } b b' post
      simp only [measure, hs, hlen, hlen2]
      have ha : localM { a with send := a.send - 1, idle := a.idle + 1 } (post.length + 1) + (post.length + 1 + 3) = localM a (post.length + 1) + 2 := by
        simp only [localM]
        have : (a.send - 1) + 1 = a.send := by omega
        have hm : (post.length + 1 + 3) * a.send = (post.length + 1 + 3) * (a.send - 1) + (post.length + 1 + 3) := by
          rw [← this]; simp [Nat.mul_add]
        rw [hm]; omega
      cases ho with
      | ok hi hl =>
        have hb : localM { b with idle := b.idle - 1, send := b.send + 1 } post.length + 2 = localM b post.length + (post.length + 3) := by
          simp only [localM]
          have hs2 : (post.length + 3) * (b.send + 1) = (post.length + 3) * b.send + (post.length + 3) := by simp [Nat.mul_add]
          rw [hs2]; omega
        omega
      | okLast hi hl => omega
      | fail hi =>
        have hb : localM { b with idle := b.idle - 1, err := b.err + 1, failed := true } post.length = localM b post.length := by
          simp only [localM]; omega
        omega
    | sendGiveUp pre a post hs hsend hc =>
      have key := sm_replace pre a { a with send := a.send - 1, done := a.done + 1 } post
      have hlen := length_replace pre a { a with send := a.send - 1, done := a.done + 1 } post
      simp only [measure, hs, hlen]
      have ha : localM { a with send := a.send - 1, done := a.done + 1 } post.length + (post.length + 3) = localM a post.length := by
        simp only [localM]
        have : (a.send - 1) + 1 = a.send := by omega
        have hm : (post.length + 3) * a.send = (post.length + 3) * (a.send - 1) + (post.length + 3) := by
          rw [← this]; simp [Nat.mul_add]
        rw [hm]; omega
      omega
    | idleExitFirst a post hs hi hc =>
      simp only [measure, hs, sm_cons, List.length_cons]
      have ha : localM { a with idle := a.idle - 1, done := a.done + 1 } post.length + 2 = localM a post.length := by
        simp only [localM]; omega
      omega
    | idleExit pre p a post hs hi hc =>
      have key := sm_replace (pre ++ [p]) a { a with idle := a.idle - 1, done := a.done + 1 } post
      simp only [List.append_assoc, List.cons_append, List.nil_append] at key
      have hlen : (pre ++ p :: { a with idle := a.idle - 1, done := a.done + 1 } :: post).length = (pre ++ p :: a :: post).length := by simp
      simp only [measure, hs, hlen]
      have ha : localM { a with idle := a.idle - 1, done := a.done + 1 } post.length + 2 = localM a post.length := by
        simp only [localM]; omega
      omega
    | closeOut pre a post hs hq hc =>
      have key := sm_replace pre a { a with outClosed := true } post
      have hlen := length_replace pre a { a with outClosed := true } post
      simp only [measure, hs, hlen]
      have ha : localM { a with outClosed := true } post.length + 1 = localM a post.length := by
        simp only [localM, hc, b2n]; simp; omega
      omega
    | errSend pre a post hs he hb =>
      have key := sm_replace pre a { a with err := a.err - 1, done := a.done + 1, errbuf := true } post
      have hlen := length_replace pre a { a with err := a.err - 1, done := a.done + 1, errbuf := true } post
      simp only [measure, hs, hlen]
      have ha : localM { a with err := a.err - 1, done := a.done + 1, errbuf := true } post.length + 1 = localM a post.length := by
        simp only [localM, hb]; simp; omega
      omega
    | errGiveUp pre a post hs he hc =>
      have key := sm_replace pre a { a with err := a.err - 1, done := a.done + 1 } post
      have hlen := length_replace pre a { a with err := a.err - 1, done := a.done + 1 } post
      simp only [measure, hs, hlen]
      have ha : localM { a with err := a.err - 1, done := a.done + 1 } post.length + 2 = localM a post.length := by
        simp only [localM]; omega
      omega
    | recvErr pre a post hs hb hw =>
      have key := sm_replace pre a { a with errbuf := false, waiter := false } post
      have hlen := length_replace pre a { a with errbuf := false, waiter := false } post
      simp only [measure, hs, hlen]
      have ha : localM { a with errbuf := false, waiter := false } post.length + 2 = localM a post.length := by
        simp only [localM, hb, hw]; simp
      have he : b2n true ≤ b2n n.ecancel := by cases n.ecancel <;> simp [b2n]
      omega
    | recvClosed pre a post hs hw hq hb =>
      have key := sm_replace pre a { a with waiter := false } post
      have hlen := length_replace pre a { a with waiter := false } post
      simp only [measure, hs, hlen]
      have ha : localM { a with waiter := false } post.length + 1 = localM a post.length := by
        simp only [localM, hw]; simp; omega
      omega
    | waiterCancel pre a post hs hw hc =>
      have key := sm_replace pre a { a with waiter := false } post
      have hlen := length_replace pre a { a with waiter := false } post
      simp only [measure, hs, hlen]
      have ha : localM { a with waiter := false } post.length + 1 = localM a post.length := by
        simp only [localM, hw]; simp; omega
      omega
    | ret hr hw =>
      simp only [measure, hr, b2n]
      have h1 : (if true = true then 0 else 1 : Nat) ≤ (if n.cancelled = true then 0 else 1) := by simp
      have h2 : (if true = true then 0 else 1 : Nat) ≤ (if n.ecancel = true then 0 else 1) := by simp
      simp
      cases n.cancelled <;> cases n.ecancel <;> simp <;> omega
  · cases h with
    | cancel hc =>
      simp only [measure, hc, b2n]
      cases n.ecancel <;> simp <;> omega

end Gtree.Net
