import Gtree.Lemmas.Render
import Gtree.Lemmas.RoundTrip
/-
  From generated roots to written bytes (no faults).
-/
namespace Gtree

theorem emit_nofault (cs : List Bytes) (i : Nat) : emit {} cs i = (cs.flatten, false) := by
  induction cs generalizing i with
  | nil => simp [emit]
  | cons c cs ih => simp [emit, ih]

theorem runRoots_nofault (job : Job) (hv : job.validate = false) :
    ∀ (roots : List T) (i : Nat), ∃ j, runRoots job {} roots i = ((roots.map job.chunks).flatten.flatten, none, j)
  | [], i => ⟨i, by simp [runRoots]⟩
  | r :: rs, i => by
    obtain ⟨j, hj⟩ := runRoots_nofault job hv rs (i + (job.chunks r).length)
    refine ⟨j, ?_⟩
    simp [runRoots, hv, emit_nofault, hj]

theorem text_of_roots (f : Fmt) (roots : List T) :
    (roots.map (textChunks f)).flatten.flatten = renderSpec f roots := by
  unfold renderSpec
  induction roots with
  | nil => simp
  | cons r rs ih =>
    simp only [List.map_cons, List.flatten_cons, List.flatten_append, ih, textChunks_eq, List.map_append]

end Gtree
