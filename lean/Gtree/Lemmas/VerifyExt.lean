import Gtree.Model.Mkdir
/-
  The verifier's verdict depends on the file system only through `lookup`: two file systems that agree on
  the `lookup` of every path (they may list their entries in another order) give the same verdict.
-/
namespace Gtree

theorem mem_keys_iff_lookup (fs : FS) (k : Bytes) : (∃ e ∈ fs, e.1 = k) ↔ fs.lookup k ≠ none := by
  unfold FS.lookup
  constructor
  · rintro ⟨e, he, rfl⟩
    cases hf : fs.find? (fun x => x.1 == e.1) with
    | some x => simp
    | none =>
      have := List.find?_eq_none.mp hf e he
      simp at this
  · intro h
    cases hf : fs.find? (fun x => x.1 == k) with
    | none => simp [hf] at h
    | some x =>
      have hm := List.mem_of_find?_eq_some hf
      have hp := List.find?_some hf
      exact ⟨x, hm, by simpa using hp⟩

theorem kindOf_ext {a b : FS} (h : ∀ p, a.lookup p = b.lookup p) (p : Bytes) : a.kindOf p = b.kindOf p := by
  unfold FS.kindOf; rw [h]

theorem stat_go_ext {a b : FS} (h : ∀ p, a.lookup p = b.lookup p) : ∀ l, FS.stat.go a l = FS.stat.go b l
  | [] => rfl
  | [q] => by simp only [FS.stat.go, kindOf_ext h]
  | q :: q2 :: qs => by
    simp only [FS.stat.go, kindOf_ext h]
    split
    · rfl
    · cases b.kindOf q with
      | none => rfl
      | some k =>
        cases k with
        | dir => exact stat_go_ext h (q2 :: qs)
        | file n => rfl

theorem stat_ext {a b : FS} (h : ∀ p, a.lookup p = b.lookup p) (p : Bytes) : a.stat p = b.stat p := by
  unfold FS.stat
  simp only [stat_go_ext h]

theorem mem_under_ext {a b : FS} (h : ∀ p, a.lookup p = b.lookup p) (root k : Bytes) :
    k ∈ a.under root ↔ k ∈ b.under root := by
  unfold FS.under
  simp only [List.mem_map, List.mem_filter]
  constructor
  · rintro ⟨e, ⟨he, hb⟩, rfl⟩
    have : b.lookup e.1 ≠ none := by rw [← h]; exact (mem_keys_iff_lookup a e.1).mp ⟨e, he, rfl⟩
    obtain ⟨e', he', hk⟩ := (mem_keys_iff_lookup b e.1).mpr this
    exact ⟨e', ⟨he', by rw [hk]; exact hb⟩, hk⟩
  · rintro ⟨e, ⟨he, hb⟩, rfl⟩
    have : a.lookup e.1 ≠ none := by rw [h]; exact (mem_keys_iff_lookup b e.1).mp ⟨e, he, rfl⟩
    obtain ⟨e', he', hk⟩ := (mem_keys_iff_lookup a e.1).mpr this
    exact ⟨e', ⟨he', by rw [hk]; exact hb⟩, hk⟩

theorem filter_isEmpty_congr {α : Type} (l1 l2 : List α) (p : α → Bool) (h : ∀ x, x ∈ l1 ↔ x ∈ l2) :
    (l1.filter p).isEmpty = (l2.filter p).isEmpty := by
  have e : ∀ (l : List α), (l.filter p).isEmpty = true ↔ ∀ x ∈ l, p x = false := by
    intro l
    rw [List.isEmpty_iff, List.filter_eq_nil_iff]
    constructor
    · intro hh x hx; simpa using hh x hx
    · intro hh x hx; simpa using hh x hx
  cases h1 : (l1.filter p).isEmpty with
  | true =>
    symm
    rw [e]
    intro x hx
    exact (e l1).mp h1 x ((h x).mpr hx)
  | false =>
    cases h2 : (l2.filter p).isEmpty with
    | false => rfl
    | true =>
      have := (e l1).mpr (fun x hx => (e l2).mp h2 x ((h x).mp hx))
      rw [this] at h1; exact Bool.noConfusion h1

/-- one root: the same "missing" list, and "extra" lists that are empty together -/
theorem verifyRoot_ext {a b : FS} (h : ∀ p, a.lookup p = b.lookup p) (target : Bytes) (vs : List Visit) :
    (match verifyRoot a target vs, verifyRoot b target vs with
     | .ok da, .ok db => da.missing = db.missing ∧ da.extra.isEmpty = db.extra.isEmpty
     | .error ea, .error eb => ea = eb
     | _, _ => False) := by
  unfold verifyRoot
  cases vs.head? with
  | none => simp
  | some r =>
    simp only [stat_ext h]
    cases b.stat (filepathJoin [target, r.path]) with
    | error e => cases e <;> simp
    | ok k =>
      cases k with
      | file n => simp
      | dir =>
        simp only
        constructor
        · apply List.filter_congr
          intro p _
          have : (filepathJoin [target, r.path] :: a.under (filepathJoin [target, r.path])).contains p =
              (filepathJoin [target, r.path] :: b.under (filepathJoin [target, r.path])).contains p := by
            rw [Bool.eq_iff_iff]
            simp only [List.contains_iff_mem, List.mem_cons, mem_under_ext h]
          rw [this]
        · apply filter_isEmpty_congr
          intro x
          simp only [List.mem_cons, mem_under_ext h]

/-- the verdict "nil" of the whole verification -/
theorem verifyRoots_none_ext {a b : FS} (h : ∀ p, a.lookup p = b.lookup p) (target : Bytes) (strict : Bool) :
    ∀ (roots : List (List Visit)), verifyRoots a target strict roots = none ↔ verifyRoots b target strict roots = none
  | [] => by simp [verifyRoots]
  | vs :: rest => by
    have hv := verifyRoot_ext h target vs
    have ih := verifyRoots_none_ext h target strict rest
    simp only [verifyRoots]
    cases ha : verifyRoot a target vs with
    | error ea =>
      cases hb : verifyRoot b target vs with
      | error eb => simp
      | ok db => rw [ha, hb] at hv; exact absurd hv id
    | ok da =>
      cases hb : verifyRoot b target vs with
      | error eb => rw [ha, hb] at hv; exact absurd hv id
      | ok db =>
        rw [ha, hb] at hv
        simp only at hv ⊢
        obtain ⟨hm, he⟩ := hv
        rw [hm, he]
        split
        · simp
        · exact ih

end Gtree
