import Gtree.Model.Net
/-
  Invariants of the K-stage pipeline model.
-/
namespace Gtree.Net

/-- per-stage invariants (`ec`: the errgroup's context is cancelled) -/
structure StgInv (ec : Bool) (a : Stg) : Prop where
  workers : a.idle + a.send + a.err + a.done ≥ 1
  closedQuiet : a.outClosed = true → a.quiet
  waiterGone : ec = false → a.waiter = false → a.outClosed = true ∧ a.errbuf = false

/-- a worker that has exited without leaving an error in the buffer saw its input closed
    (`inc`: the input of the head of the list has been closed) -/
def chainInv (ec : Bool) : Bool → List Stg → Prop
  | _, [] => True
  | inc, a :: rest => (ec = false → a.errbuf = false → a.done > 0 → inc = true) ∧ chainInv ec a.outClosed rest

/-- the last stage never holds an item for a next stage -/
def lastOk : List Stg → Prop
  | [] => True
  | [a] => a.send = 0
  | _ :: b :: rest => lastOk (b :: rest)

structure Inv (n : Net) : Prop where
  ctx : n.cancelled = true → n.ecancel = true
  ret : n.returned = true → n.cancelled = true
  stg : ∀ a ∈ n.stages, StgInv n.ecancel a
  chain : chainInv n.ecancel n.srcClosed n.stages
  last : lastOk n.stages

/-! ### helpers -/

def lastOut : Bool → List Stg → Bool
  | inc, [] => inc
  | _, p :: ps => lastOut p.outClosed ps

theorem lastOut_snoc (inc : Bool) (pre : List Stg) (p : Stg) : lastOut inc (pre ++ [p]) = p.outClosed := by
  induction pre generalizing inc with
  | nil => rfl
  | cons q qs ih => simpa [lastOut] using ih q.outClosed

theorem chainInv_append (ec : Bool) : ∀ (pre l : List Stg) (inc : Bool),
    chainInv ec inc (pre ++ l) ↔ chainInv ec inc pre ∧ chainInv ec (lastOut inc pre) l
  | [], l, inc => by simp [chainInv, lastOut]
  | p :: pre, l, inc => by
    simp only [List.cons_append, chainInv, lastOut, chainInv_append ec pre l p.outClosed, and_assoc]

theorem chainInv_true : ∀ (l : List Stg) (inc : Bool), chainInv true inc l
  | [], _ => trivial
  | a :: rest, inc => ⟨fun h => by simp at h, chainInv_true rest a.outClosed⟩

theorem chainInv_inc_true (ec : Bool) : ∀ (l : List Stg) (inc : Bool), chainInv ec inc l → chainInv ec true l
  | [], _, _ => trivial
  | _ :: _, _, h => ⟨fun _ _ _ => rfl, h.2⟩

theorem lastOk_append : ∀ (pre : List Stg) (a : Stg) (post : List Stg), lastOk (pre ++ a :: post) ↔ lastOk (a :: post)
  | [], _, _ => Iff.rfl
  | [p], a, post => by simp [lastOk]
  | p :: q :: pre, a, post => by
    have := lastOk_append (q :: pre) a post
    simpa [lastOk] using this

theorem lastOk_cons_cons (a b : Stg) (post : List Stg) : lastOk (a :: b :: post) ↔ lastOk (b :: post) := by
  simp [lastOk]

theorem stgInv_true {ec : Bool} {a : Stg} (h : StgInv ec a) : StgInv true a :=
  ⟨h.workers, h.closedQuiet, fun h' => by simp at h'⟩

theorem live_open {ec : Bool} {a : Stg} (h : StgInv ec a) (hl : a.idle > 0 ∨ a.send > 0 ∨ a.err > 0) : a.outClosed = false := by
  cases ho : a.outClosed with
  | false => rfl
  | true =>
    obtain ⟨h1, h2, h3⟩ := h.closedQuiet ho
    omega

theorem live_waiter {ec : Bool} {a : Stg} (h : StgInv ec a) (hec : ec = false) (hl : a.idle > 0 ∨ a.send > 0 ∨ a.err > 0) : a.waiter = true := by
  cases hw : a.waiter with
  | true => rfl
  | false =>
    have := (h.waiterGone hec hw).1
    rw [live_open h hl] at this
    simp at this

/-- a stage in which a live worker moved (same closed / waiter flags, error buffer unchanged or filled) -/
theorem stgInv_moved {ec : Bool} {a a' : Stg} (h : StgInv ec a) (hl : a.idle > 0 ∨ a.send > 0 ∨ a.err > 0)
    (hw : a'.idle + a'.send + a'.err + a'.done ≥ 1) (ho : a'.outClosed = a.outClosed) (hwt : a'.waiter = a.waiter) :
    StgInv ec a' := by
  have hopen := live_open h hl
  refine ⟨hw, ?_, ?_⟩
  · intro hc; rw [ho, hopen] at hc; simp at hc
  · intro hec hwf
    rw [hwt] at hwf
    have := live_waiter h hec hl
    rw [this] at hwf; simp at hwf

theorem mem_replace {x a' : Stg} {pre post : List Stg} : x ∈ pre ++ a' :: post ↔ x ∈ pre ∨ x = a' ∨ x ∈ post := by
  simp [List.mem_append, List.mem_cons]

end Gtree.Net
