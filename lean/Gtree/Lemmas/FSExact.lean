import Gtree.Model.Mkdir
import Gtree.Lemmas.PathLex
/-
  What MkdirAll / Create do to the finite-map file system, in terms of `lookup`, for keys that are
  '/'-joined lists of good path elements.
-/
namespace Gtree

/-- an element the OS does not refuse syntactically -/
def GoodElem (e : Bytes) : Prop := Elem e ∧ (0 : UInt8) ∉ e ∧ e.length ≤ nameMax

def GoodList (es : List Bytes) : Prop := es ≠ [] ∧ ∀ e ∈ es, GoodElem e

abbrev key (es : List Bytes) : Bytes := joinSlash es

theorem goodList_elems {es : List Bytes} (h : GoodList es) : ∀ e ∈ es, Elem e := fun e he => (h.2 e he).1

theorem splitSlash_key {es : List Bytes} (h : GoodList es) : splitSlash (key es) = es :=
  splitSlash_joinSlash es h.1 (fun e he => (h.2 e he).1.2.2.2)

theorem key_inj {a b : List Bytes} (ha : GoodList a) (hb : GoodList b) (h : key a = key b) : a = b := by
  have := congrArg splitSlash h
  rwa [splitSlash_key ha, splitSlash_key hb] at this

theorem pathRefusal_key {es : List Bytes} (h : GoodList es) : pathRefusal (key es) = none := by
  unfold pathRefusal
  rw [splitSlash_key h]
  have h1 : es.any (fun e => e.contains 0) = false := by
    rw [List.any_eq_false]
    intro e he
    simpa using (h.2 e he).2.1
  have h2 : es.any (fun e => decide (e.length > nameMax)) = false := by
    rw [List.any_eq_false]
    intro e he
    have := (h.2 e he).2.2
    simp; omega
  show (if (es.any fun e => List.contains e 0) = true then some FErr.invalid
    else if (es.any fun e => decide (List.length e > nameMax)) = true then some FErr.nameTooLong else none) = none
  rw [h1, h2]
  rfl

theorem hasNul_key {es : List Bytes} (h : GoodList es) : hasNul (key es) = false := by
  unfold hasNul
  rw [splitSlash_key h, List.any_eq_false]
  intro e he
  simpa using (h.2 e he).2.1

theorem lastTooLong_key {es : List Bytes} (h : GoodList es) : lastTooLong (key es) = false := by
  unfold lastTooLong
  rw [splitSlash_key h]
  cases hl : es.getLast? with
  | none => rfl
  | some e =>
    have hm : e ∈ es := List.mem_of_getLast? hl
    have := (h.2 e hm).2.2
    simp only [gt_iff_lt, decide_eq_false_iff_not, Nat.not_lt]
    exact this

theorem isAmbient_key {es : List Bytes} (h : GoodList es) : isAmbient (key es) = false := by
  unfold isAmbient
  rw [splitSlash_key h]
  obtain ⟨e, rest, rfl⟩ : ∃ e rest, es = e :: rest := by
    cases es with
    | nil => exact absurd rfl h.1
    | cons e r => exact ⟨e, r, rfl⟩
  have he := (h.2 e (by simp)).1
  have h1 : (key (e :: rest) == [dot]) = false := by
    apply beq_false_of_ne
    intro hk
    have := congrArg splitSlash hk
    rw [splitSlash_key h] at this
    simp [splitSlash, dot, slash] at this
    exact he.2.1 this.1
  have h2 : (key (e :: rest) == [slash]) = false := by
    apply beq_false_of_ne
    intro hk
    have hh := joinSlash_head (e :: rest) (goodList_elems h) (by simp)
    rw [show joinSlash (e :: rest) = key (e :: rest) from rfl, hk] at hh
    simp at hh
  have h3 : ((e :: rest).all (fun x => x == dotdot)) = false := by
    simp only [List.all_cons, Bool.and_eq_false_iff]
    left
    exact beq_false_of_ne he.2.2.1
  simp [h1, h2, h3]

theorem kindOf_key {es : List Bytes} (h : GoodList es) (fs : FS) : fs.kindOf (key es) = fs.lookup (key es) := by
  simp [FS.kindOf, isAmbient_key h]

theorem goodList_take {es : List Bytes} (h : GoodList es) (i : Nat) : GoodList (es.take (i + 1)) := by
  refine ⟨?_, fun e he => h.2 e (List.mem_of_mem_take he)⟩
  cases es with
  | nil => exact absurd rfl h.1
  | cons e r => simp

/-- the prefixes MkdirAll walks through -/
theorem prefixesOf_key {es : List Bytes} (h : GoodList es) :
    prefixesOf (key es) = (List.range es.length).map (fun i => key (es.take (i + 1))) := by
  unfold prefixesOf
  have hhead : ((key es).head? == some slash) = false := by
    have := joinSlash_head es (goodList_elems h) h.1
    simpa using this
  have hf : (splitSlash (key es)).filter (fun e => !e.isEmpty) = es := by
    rw [splitSlash_key h]
    apply List.filter_eq_self.mpr
    intro e he
    have := (h.2 e he).1.1
    cases e <;> simp_all
  simp only [hhead, hf, Bool.false_eq_true, if_false]

end Gtree

namespace Gtree

theorem lookup_append (fs : FS) (x : Bytes) (k : Kind) (p : Bytes) :
    FS.lookup (fs ++ [(x, k)]) p = (match fs.lookup p with
      | some v => some v
      | none => if x = p then some k else none) := by
  unfold FS.lookup
  rw [List.find?_append]
  cases hf : fs.find? (fun e => e.1 == p) with
  | some e => simp
  | none =>
    by_cases hx : x = p
    · simp [hx]
    · have : (x == p) = false := by simpa using hx
      simp [List.find?, this, hx]

def notFile (fs : FS) (p : Bytes) : Prop := ∀ n, fs.lookup p ≠ some (.file n)

/-- the loop of MkdirAll over a list of good prefixes none of which is a regular file -/
theorem mkdirAll_go_spec : ∀ (qs : List (List Bytes)) (fs : FS), (∀ e ∈ qs, GoodList e) →
    (∀ e ∈ qs, notFile fs (key e)) →
    (FS.mkdirAll.go fs (qs.map key)).2 = none ∧
    ∀ p, (FS.mkdirAll.go fs (qs.map key)).1.lookup p =
      (if fs.lookup p = none ∧ p ∈ qs.map key then some Kind.dir else fs.lookup p)
  | [], fs, _, _ => by simp [FS.mkdirAll.go]
  | e :: rest, fs, hg, hnf => by
    have hge := hg e (by simp)
    simp only [List.map_cons, FS.mkdirAll.go, pathRefusal_key hge, kindOf_key hge]
    cases hl : fs.lookup (key e) with
    | some k =>
      cases k with
      | file n => exact absurd hl (hnf e (by simp) n)
      | dir =>
        simp only
        obtain ⟨h1, h2⟩ := mkdirAll_go_spec rest fs (fun x hx => hg x (by simp [hx])) (fun x hx => hnf x (by simp [hx]))
        refine ⟨h1, fun p => ?_⟩
        rw [h2 p]
        by_cases hp : fs.lookup p = none
        · have hne : p ≠ key e := by intro h; rw [h, hl] at hp; simp at hp
          simp [hp, hne]
        · simp [hp]
    | none =>
      simp only
      have hnf' : ∀ x ∈ rest, notFile (fs ++ [(key e, Kind.dir)]) (key x) := by
        intro x hx n
        rw [lookup_append]
        cases hlx : fs.lookup (key x) with
        | some v => simpa [hlx] using hnf x (by simp [hx]) n
        | none => simp only; split <;> simp
      obtain ⟨h1, h2⟩ := mkdirAll_go_spec rest (fs ++ [(key e, Kind.dir)]) (fun x hx => hg x (by simp [hx])) hnf'
      refine ⟨h1, fun p => ?_⟩
      rw [h2 p, lookup_append]
      cases hlp : fs.lookup p with
      | some v => simp
      | none =>
        simp only
        by_cases hpe : key e = p
        · simp [hpe]
        · have hpe' : p ≠ key e := fun h => hpe h.symm
          simp [hpe, hpe']

/-- MkdirAll on a good path none of whose prefixes is a regular file: succeeds, creates the missing
    prefixes as directories, changes nothing else -/
theorem mkdirAll_spec (fs : FS) (es : List Bytes) (hg : GoodList es)
    (hnf : ∀ i < es.length, notFile fs (key (es.take (i + 1)))) :
    (fs.mkdirAll (key es)).2 = none ∧
    ∀ p, (fs.mkdirAll (key es)).1.lookup p =
      (if fs.lookup p = none ∧ ∃ i < es.length, p = key (es.take (i + 1)) then some Kind.dir else fs.lookup p) := by
  unfold FS.mkdirAll
  simp only [isAmbient_key hg, Bool.false_eq_true, if_false, prefixesOf_key hg]
  have hmap : (List.range es.length).map (fun i => key (es.take (i + 1))) =
      ((List.range es.length).map (fun i => es.take (i + 1))).map key := by simp [List.map_map, Function.comp_def]
  rw [hmap]
  obtain ⟨h1, h2⟩ := mkdirAll_go_spec ((List.range es.length).map (fun i => es.take (i + 1))) fs
    (by intro e he; simp only [List.mem_map, List.mem_range] at he; obtain ⟨i, _, rfl⟩ := he; exact goodList_take hg i)
    (by intro e he; simp only [List.mem_map, List.mem_range] at he; obtain ⟨i, hi, rfl⟩ := he; exact hnf i hi)
  refine ⟨h1, fun p => ?_⟩
  rw [h2 p]
  have : (p ∈ ((List.range es.length).map (fun i => es.take (i + 1))).map key) ↔ ∃ i < es.length, p = key (es.take (i + 1)) := by
    simp only [List.mem_map, List.mem_range]
    constructor
    · rintro ⟨e, ⟨i, hi, rfl⟩, rfl⟩; exact ⟨i, hi, rfl⟩
    · rintro ⟨i, hi, rfl⟩; exact ⟨_, ⟨i, hi, rfl⟩, rfl⟩
  simp only [this]

end Gtree

namespace Gtree

/-- Create on a good path that does not exist yet and whose parents are directories -/
theorem create_spec (fs : FS) (es : List Bytes) (hg : GoodList es)
    (habs : fs.lookup (key es) = none)
    (hpar : ∀ i, i + 1 < es.length → fs.lookup (key (es.take (i + 1))) = some Kind.dir) :
    (fs.create (key es)).2 = none ∧
    ∀ p, (fs.create (key es)).1.lookup p = (if p = key es then some (Kind.file 0) else fs.lookup p) := by
  obtain ⟨m, hm⟩ : ∃ m, es.length = m + 1 := by
    cases es with
    | nil => exact absurd rfl hg.1
    | cons e r => exact ⟨r.length, by simp⟩
  have hparents : (prefixesOf (key es)).dropLast = (List.range m).map (fun i => key (es.take (i + 1))) := by
    rw [prefixesOf_key hg, hm, List.range_succ, List.map_append]
    simp
  have hbad : List.findSome? fs.parentProblem ((List.range m).map (fun i => key (es.take (i + 1)))) = none := by
    rw [List.findSome?_eq_none_iff]
    intro q hq
    simp only [List.mem_map, List.mem_range] at hq
    obtain ⟨i, hi, rfl⟩ := hq
    unfold FS.parentProblem
    rw [kindOf_key (goodList_take hg i), hpar i (by omega)]
  simp only [FS.create, pathRefusal_key hg, hparents, hbad, kindOf_key hg, habs]
  refine ⟨trivial, fun p => ?_⟩
  rw [lookup_append]
  by_cases hp : p = key es
  · subst hp; simp [habs]
  · have hp' : key es ≠ p := fun h => hp h.symm
    cases fs.lookup p <;> simp [hp, hp']

end Gtree
