import Gtree.Generated.Heap.GrowSpread
import Gtree.Lemmas.HeapSpread
import Gtree.Lemmas.HeapGrower
/-
  The one-pass printer of the From-Root text path (simple_tree_grow_spreader.go: `growAndSpread`,
  `assembleAndPrint`), translated over the heap by /verif/translate (heap mode): it assembles a node's branch (the
  grower's `assembleBranch`, a promoted method of the embedded grower) and prints the node's row at once, then
  recurses.  On every heap that holds a forest it writes what "grow, then print" writes — the model's `textChunks`
  through the writer — and, when no `Write` failed, leaves the nodes as the grower does.
-/
namespace Gtree.SrcH
open Gtree Gtree.Go

theorem hasChildRepr (h : Heap) (n : Bytes) (ks : List T) (p par : Ptr) (lvl : Nat)
    (hr : Repr h (.mk n ks) p par lvl) : Node.hasChild h p = !ks.isEmpty := by
  rw [Repr] at hr
  have hlen := readKids_length_eq h ks _ p (lvl + 1) hr.2.2.2.2
  simp only [Node.hasChild, Go.len]
  cases ks with
  | nil => simp at hlen; simp [hlen]
  | cons k ks' =>
    have : 0 < ((h p).children).length := by rw [hlen]; simp
    simp; omega

/-- the body of the loop of `assembleAndPrint` over the children -/
def gsBody (dgs : defaultGrowSpreaderSimple) (fuel : Nat) :
    Ptr → Heap × Writer → Go.Ctl (Heap × Writer) (Option (Heap × Writer × Option Src.Err)) :=
  fun child st_ =>
    match st_ with
    | (h_, w_) =>
      match (defaultGrowSpreaderSimple.assembleAndPrint fuel h_ w_ dgs child) with
      | none => Go.Ctl.ret none
      | some r_ =>
        match r_ with
        | (h_, w_, err) => if (Option.isSome err) then Go.Ctl.ret (some (h_, w_, err)) else Go.Ctl.next (h_, w_)

theorem gs_unfold (fuel : Nat) (h : Heap) (w : Writer) (dgs : defaultGrowSpreaderSimple) (cur : Ptr) :
    defaultGrowSpreaderSimple.assembleAndPrint (fuel + 1) h w dgs cur =
      (match (defaultGrowerSimple.assembleBranch fuel h dgs.defaultGrowerSimple cur) with
       | none => none
       | some r_ =>
         match r_ with
         | (h_, err) =>
           if (Option.isSome err) then some (h_, w, err)
           else
             match fmt_Fprint w (lineAt h_ cur) with
             | (w_, err) =>
               if (Option.isSome err) then some (h_, w_, err)
               else
                 match Go.forRange (h_ cur).children (h_, w_) (gsBody dgs fuel) with
                 | Go.Ctl.ret r_ => r_
                 | Go.Ctl.brk st_ | Go.Ctl.next st_ => some (st_.1, st_.2, none)) := by
  rw [defaultGrowSpreaderSimple.assembleAndPrint]
  rcases defaultGrowerSimple.assembleBranch fuel h dgs.defaultGrowerSimple cur with _ | ⟨h1, e1⟩
  · rfl
  · simp only []
    cases e1 with
    | some e => rfl
    | none =>
      unfold lineAt
      cases Node.isRoot h1 cur <;> rfl

/-- the lines the model prints for grown visits, through the writer -/
def put (w : Writer) (vs : List Visit) : Writer × Option Src.Err := writeAll w (vs.map lineOf)

theorem put_cons (w : Writer) (v : Visit) (vs : List Visit) :
    put w (v :: vs) = (match fmt_Fprint w (lineOf v) with
      | (w', some e) => (w', some e)
      | (w', none) => put w' vs) := by
  simp only [put, List.map_cons, writeAll]
  rcases fmt_Fprint w (lineOf v) with ⟨w', e⟩
  cases e <;> rfl

theorem put_append (w : Writer) (a b : List Visit) :
    put w (a ++ b) = (match put w a with
      | (w', some e) => (w', some e)
      | (w', none) => put w' b) := by
  simp only [put, List.map_append, writeAll_append]
  rcases writeAll w (a.map lineOf) with ⟨w', e⟩
  cases e <;> rfl

mutual
theorem gs_node (dgs : defaultGrowSpreaderSimple) (root : Ptr) (rn : Bytes)
    (hv : dgs.defaultGrowerSimple.enabledValidation = false) :
    ∀ (t : T) (h : Heap) (w : Writer) (p par : Ptr) (lvl : Nat) (l : Bool) (anc : List Anc) (fuel : Nat),
      2 ≤ lvl → (h root).name = rn → Repr h t p par lvl → Up h root par anc → Node.isLastOfHierarchy h p = l →
      (ptrs h t p).Nodup → 2 * t.size + anc.length ≤ fuel →
      ∃ h', defaultGrowSpreaderSimple.assembleAndPrint fuel h w dgs p =
          some (h', (put w (growNode (fmtOf dgs.defaultGrowerSimple) rn anc lvl l t)).1,
                    (put w (growNode (fmtOf dgs.defaultGrowerSimple) rn anc lvl l t)).2) ∧
        ((put w (growNode (fmtOf dgs.defaultGrowerSimple) rn anc lvl l t)).2 = none →
          SameShape h h' ∧ (∀ q, q ∉ ptrs h t p → h' q = h q) ∧
          readNode h' t p lvl = growNode (fmtOf dgs.defaultGrowerSimple) rn anc lvl l t)
  | .mk n ks, h, w, p, par, lvl, l, anc, fuel, hlvl, hrn, hr, hup, hl, hnd, hf => by
    have hr0 := hr
    rw [Repr] at hr
    obtain ⟨hp0, hpn, hpl, hpp, hk⟩ := hr
    have hpl1 : (h p).hierarchy ≠ 1 := by rw [hpl]; omega
    have hsz : T.size (.mk n ks) = 1 + sizeList ks := by simp [T.size]
    rw [hsz] at hf
    cases fuel with
    | zero => omega
    | succ fuel =>
      rw [gs_unfold, assembleBranch_node dgs.defaultGrowerSimple h p root l anc fuel hp0 hpl1 (hpp ▸ hup) hl (by omega)]
      simp only [hrn, hpn, hv, Bool.false_eq_true, if_false, Option.isSome_none]
      obtain ⟨b, hb⟩ : ∃ b : Src.branch, b = ⟨branchOf (fmtOf dgs.defaultGrowerSimple) l anc, pathOf rn n anc⟩ := ⟨_, rfl⟩
      rw [← hb]
      obtain ⟨h1, hh1⟩ : ∃ h1 : Heap, h1 = setBr h p b := ⟨_, rfl⟩
      rw [← hh1]
      obtain ⟨v, hvv⟩ : ∃ v : Visit, v = Visit.mk n (branchOf (fmtOf dgs.defaultGrowerSimple) l anc) lvl (pathOf rn n anc) (!ks.isEmpty) :=
        ⟨_, rfl⟩
      have hs1 : SameShape h h1 := hh1 ▸ SameShape.setBr h p b
      have hpath1 : Node.path h1 p = v.path := by
        simp [hh1, hb, hvv, Node.path, Node.isRoot, Src.rootHierarchyNum, hpl1]
      have hhc := hasChildRepr h n ks p par lvl hr0
      have hline : lineAt h1 p = lineOf v := by
        rw [lineAt_visit h1 n ks p par lvl (Repr_shape hs1 _ _ _ _ hr0)]
        congr 1
        rw [hvv]
        simp only [Visit.mk.injEq]
        refine ⟨by simp [hh1, hpn], by simp [Node.branch, hh1, hb], trivial, by rw [hpath1, hvv], ?_⟩
        have : Node.hasChild h1 p = Node.hasChild h p := by simp [Node.hasChild, hh1]
        rw [this, hhc]
      have hgrow : growNode (fmtOf dgs.defaultGrowerSimple) rn anc lvl l (.mk n ks)
          = v :: growKids (fmtOf dgs.defaultGrowerSimple) rn ((n, l) :: anc) (lvl + 1) ks := by rw [growNode, hvv]
      rw [hgrow, put_cons, hline]
      rcases hw : fmt_Fprint w (lineOf v) with ⟨w1, e1⟩
      cases e1 with
      | some e => exact ⟨h1, by simp, by simp⟩
      | none =>
        simp only [Option.isSome_none, Bool.false_eq_true, if_false]
        have hkids := gs_kids dgs root rn hv ks h1 w1 p [] (h p).children (lvl + 1) ((n, l) :: anc) fuel (by omega)
          ((hs1 root).1.trans hrn) (ReprKids_shape hs1 _ _ _ _ hk)
          ((Up_shape hs1 root _ _).mpr ⟨hp0, hpl1, hpn, hl, hpp ▸ hup⟩)
          (by simp [hh1]) (by
            simp only [hh1, setBr_children]
            rw [ptrs] at hnd
            exact (List.nodup_cons.mp hnd).2.sublist (kids_sublist h ks _ p (lvl + 1) hk))
          (by rw [ptrsKids_shape hs1]; rw [ptrs] at hnd; exact (List.nodup_cons.mp hnd).2)
          (by simp; omega)
        obtain ⟨h2, hrun, hrest⟩ := hkids
        have hch : (h1 p).children = (h p).children := by simp [hh1]
        rw [hch, hrun]
        rcases hpk : put w1 (growKids (fmtOf dgs.defaultGrowerSimple) rn ((n, l) :: anc) (lvl + 1) ks) with ⟨w2, e2⟩
        cases e2 with
        | some e => exact ⟨h2, by simp, by simp⟩
        | none =>
          refine ⟨h2, by simp, fun _ => ?_⟩
          obtain ⟨hs2, hfr2, hrd2⟩ := hrest (by rw [hpk])
          have hpnot : p ∉ ptrsKids h1 ks (h p).children := by
            rw [ptrsKids_shape hs1]; rw [ptrs] at hnd; exact (List.nodup_cons.mp hnd).1
          have h2p : h2 p = h1 p := hfr2 p hpnot
          refine ⟨hs1.trans hs2, ?_, ?_⟩
          · intro q hq
            rw [ptrs, List.mem_cons, not_or] at hq
            rw [hfr2 q (by rw [ptrsKids_shape hs1]; exact hq.2)]
            rw [hh1]; exact setBr_other h p q b hq.1
          · rw [readNode]
            have hc2 : (h2 p).children = (h p).children := by rw [h2p]; simp [hh1]
            rw [hc2, hrd2]
            congr 1
            rw [hvv]
            simp only [Visit.mk.injEq]
            refine ⟨by rw [h2p]; simp [hh1, hpn], by simp [Node.branch, h2p, hh1, hb], trivial, ?_, ?_⟩
            · have : Node.path h2 p = Node.path h1 p := by simp [Node.path, Node.isRoot, h2p]
              rw [this, hpath1, hvv]
            · have : Node.hasChild h2 p = Node.hasChild h p := by simp [Node.hasChild, hc2]
              rw [this, hhc]
theorem gs_kids (dgs : defaultGrowSpreaderSimple) (root : Ptr) (rn : Bytes)
    (hv : dgs.defaultGrowerSimple.enabledValidation = false) :
    ∀ (ts : List T) (h : Heap) (w : Writer) (par : Ptr) (pre cs : List Ptr) (lvl : Nat) (ancP : List Anc) (fuel : Nat),
      2 ≤ lvl → (h root).name = rn → ReprKids h ts cs par lvl → Up h root par ancP →
      (h par).children = pre ++ cs → ((h par).children).Nodup → (ptrsKids h ts cs).Nodup →
      2 * sizeList ts + ancP.length ≤ fuel →
      ∃ h', Go.forRange cs (h, w) (gsBody dgs fuel) =
          (match put w (growKids (fmtOf dgs.defaultGrowerSimple) rn ancP lvl ts) with
           | (w', none) => Go.Ctl.next (h', w')
           | (w', some e) => Go.Ctl.ret (some (h', w', some e))) ∧
        ((put w (growKids (fmtOf dgs.defaultGrowerSimple) rn ancP lvl ts)).2 = none →
          SameShape h h' ∧ (∀ q, q ∉ ptrsKids h ts cs → h' q = h q) ∧
          readKids h' ts cs lvl = growKids (fmtOf dgs.defaultGrowerSimple) rn ancP lvl ts)
  | [], h, w, par, pre, cs, lvl, ancP, fuel, _, _, hr, _, _, _, _, _ => by
    rw [ReprKids] at hr; subst hr
    refine ⟨h, by simp [Go.forRange, growKids, put, writeAll], fun _ => ⟨SameShape.refl h, fun _ _ => rfl, ?_⟩⟩
    rw [readKids, growKids]
  | t :: ts, h, w, par, pre, cs, lvl, ancP, fuel, hlvl, hrn, hr, hup, hch, hcnd, hnd, hf => by
    rw [ReprKids] at hr
    obtain ⟨c, cs', rfl, hrc, hrs⟩ := hr
    have hpar0 : par ≠ 0 := Up_ne_zero h root ancP par hup
    have hcpar : (h c).parent = par := by
      cases t with
      | mk n ks => rw [Repr] at hrc; exact hrc.2.2.2.1
    have hlast : Node.isLastOfHierarchy h c = cs'.isEmpty := isLast_child h c par pre cs' hcpar hpar0 hch hcnd
    have hlen := readKids_length_eq h ts cs' par lvl hrs
    have hempty : cs'.isEmpty = ts.isEmpty := by
      cases cs' <;> cases ts <;> simp_all
    rw [ptrsKids] at hnd
    have hndc := (List.nodup_append.mp hnd).1
    have hnds := (List.nodup_append.mp hnd).2.1
    have hdisj := (List.nodup_append.mp hnd).2.2
    have hsz : sizeList (t :: ts) = t.size + sizeList ts := by simp [sizeList]
    rw [hsz] at hf
    obtain ⟨h1, hrun1, hrest1⟩ := gs_node dgs root rn hv t h w c par lvl ts.isEmpty ancP fuel hlvl hrn hrc hup
      (hlast.trans hempty) hndc (by omega)
    have hgk : growKids (fmtOf dgs.defaultGrowerSimple) rn ancP lvl (t :: ts)
        = growNode (fmtOf dgs.defaultGrowerSimple) rn ancP lvl ts.isEmpty t ++ growKids (fmtOf dgs.defaultGrowerSimple) rn ancP lvl ts := by
      cases ts with
      | nil => rw [growKids]; simp [growKids]
      | cons t2 ts' => rw [growKids]; simp
    rw [hgk, put_append]
    rcases hp1 : put w (growNode (fmtOf dgs.defaultGrowerSimple) rn ancP lvl ts.isEmpty t) with ⟨w1, e1⟩
    rw [hp1] at hrun1 hrest1
    have hstep : Go.forRange (c :: cs') (h, w) (gsBody dgs fuel) =
        (match e1 with
         | none => Go.forRange cs' (h1, w1) (gsBody dgs fuel)
         | some e => Go.Ctl.ret (some (h1, w1, some e))) := by
      rw [Go.forRange]
      simp only [gsBody, hrun1]
      cases e1 <;> simp
    rw [hstep]
    cases e1 with
    | some e => exact ⟨h1, by simp, by simp⟩
    | none =>
      obtain ⟨hs1, hfr1, hrd1⟩ := hrest1 rfl
      have hch1 : (h1 par).children = (pre ++ [c]) ++ cs' := by rw [(hs1 par).2.2.2, hch]; simp
      obtain ⟨h2, hrun2, hrest2⟩ := gs_kids dgs root rn hv ts h1 w1 par (pre ++ [c]) cs' lvl ancP fuel hlvl
        ((hs1 root).1.trans hrn) (ReprKids_shape hs1 _ _ _ _ hrs) ((Up_shape hs1 root _ _).mpr hup) hch1
        (by rw [(hs1 par).2.2.2]; exact hcnd) (by rw [ptrsKids_shape hs1]; exact hnds) (by omega)
      simp only []
      rw [hrun2]
      rcases hp2 : put w1 (growKids (fmtOf dgs.defaultGrowerSimple) rn ancP lvl ts) with ⟨w2, e2⟩
      rw [hp2] at hrest2
      cases e2 with
      | some e => exact ⟨h2, by simp, by simp⟩
      | none =>
        refine ⟨h2, by simp, fun _ => ?_⟩
        obtain ⟨hs2, hfr2, hrd2⟩ := hrest2 rfl
        refine ⟨hs1.trans hs2, ?_, ?_⟩
        · intro q hq
          rw [ptrsKids, List.mem_append, not_or] at hq
          rw [hfr2 q (by rw [ptrsKids_shape hs1]; exact hq.2), hfr1 q hq.1]
        · rw [readKids, hrd2]
          have : readNode h2 t c lvl = readNode h1 t c lvl := by
            apply readNode_congr
            intro q hq
            rw [ptrs_shape hs1] at hq
            apply hfr2
            rw [ptrsKids_shape hs1]
            intro hq2
            exact hdisj q hq q hq2 rfl
          rw [this, hrd1]
end

theorem gs_root (dgs : defaultGrowSpreaderSimple) (hv : dgs.defaultGrowerSimple.enabledValidation = false)
    (t : T) (h : Heap) (w : Writer) (r : Ptr) (fuel : Nat)
    (hr : Repr h t r 0 1) (hnd : (ptrs h t r).Nodup) (hf : 2 * t.size + 1 ≤ fuel) :
    ∃ h', defaultGrowSpreaderSimple.assembleAndPrint fuel h w dgs r =
        some (h', (put w (growRoot (fmtOf dgs.defaultGrowerSimple) t)).1,
                  (put w (growRoot (fmtOf dgs.defaultGrowerSimple) t)).2) ∧
      ((put w (growRoot (fmtOf dgs.defaultGrowerSimple) t)).2 = none →
        SameShape h h' ∧ (∀ q, q ∉ ptrs h t r → h' q = h q) ∧
        readNode h' t r 1 = growRoot (fmtOf dgs.defaultGrowerSimple) t) := by
  cases t with
  | mk n ks =>
    have hr0 := hr
    rw [Repr] at hr
    obtain ⟨hp0, hpn, hpl, hpp, hk⟩ := hr
    have hpl1 : (h r).hierarchy = 1 := by rw [hpl]; rfl
    have hsz : T.size (.mk n ks) = 1 + sizeList ks := by simp [T.size]
    rw [hsz] at hf
    cases fuel with
    | zero => omega
    | succ fuel =>
      rw [gs_unfold, assembleBranch_root dgs.defaultGrowerSimple h r fuel hp0 hpl1 hpp]
      simp only [hv, Bool.false_eq_true, if_false, Option.isSome_none]
      obtain ⟨h1, hh1⟩ : ∃ h1 : Heap, h1 = setBr h r ⟨[], []⟩ := ⟨_, rfl⟩
      rw [← hh1]
      obtain ⟨v, hvv⟩ : ∃ v : Visit, v = Visit.mk n [] 1 n (!ks.isEmpty) := ⟨_, rfl⟩
      have hs1 : SameShape h h1 := hh1 ▸ SameShape.setBr h r _
      have hpath1 : Node.path h1 r = v.path := by
        simp [hh1, hvv, Node.path, Node.isRoot, Src.rootHierarchyNum, hpl1, hpn]
      have hhc := hasChildRepr h n ks r 0 1 hr0
      have hline : lineAt h1 r = lineOf v := by
        rw [lineAt_visit h1 n ks r 0 1 (Repr_shape hs1 _ _ _ _ hr0)]
        congr 1
        rw [hvv]
        simp only [Visit.mk.injEq]
        refine ⟨by simp [hh1, hpn], by simp [Node.branch, hh1], trivial, by rw [hpath1, hvv], ?_⟩
        have : Node.hasChild h1 r = Node.hasChild h r := by simp [Node.hasChild, hh1]
        rw [this, hhc]
      have hgrow : growRoot (fmtOf dgs.defaultGrowerSimple) (.mk n ks)
          = v :: growKids (fmtOf dgs.defaultGrowerSimple) n [] 2 ks := by rw [growRoot, hvv]
      rw [hgrow, put_cons, hline]
      rcases hw : fmt_Fprint w (lineOf v) with ⟨w1, e1⟩
      cases e1 with
      | some e => exact ⟨h1, by simp, by simp⟩
      | none =>
        simp only [Option.isSome_none, Bool.false_eq_true, if_false]
        have hkids := gs_kids dgs r n hv ks h1 w1 r [] (h r).children 2 [] fuel (by omega)
          ((hs1 r).1.trans hpn) (ReprKids_shape hs1 _ _ _ _ hk)
          ⟨rfl, hp0, (hs1 r).2.1.trans hpl1⟩
          (by simp [hh1]) (by
            simp only [hh1, setBr_children]
            rw [ptrs] at hnd
            exact (List.nodup_cons.mp hnd).2.sublist (kids_sublist h ks _ r 2 hk))
          (by rw [ptrsKids_shape hs1]; rw [ptrs] at hnd; exact (List.nodup_cons.mp hnd).2)
          (by simp; omega)
        obtain ⟨h2, hrun, hrest⟩ := hkids
        have hch : (h1 r).children = (h r).children := by simp [hh1]
        rw [hch, hrun]
        rcases hpk : put w1 (growKids (fmtOf dgs.defaultGrowerSimple) n [] 2 ks) with ⟨w2, e2⟩
        cases e2 with
        | some e => exact ⟨h2, by simp, by simp⟩
        | none =>
          refine ⟨h2, by simp, fun _ => ?_⟩
          obtain ⟨hs2, hfr2, hrd2⟩ := hrest (by rw [hpk])
          have hpnot : r ∉ ptrsKids h1 ks (h r).children := by
            rw [ptrsKids_shape hs1]; rw [ptrs] at hnd; exact (List.nodup_cons.mp hnd).1
          have h2p : h2 r = h1 r := hfr2 r hpnot
          refine ⟨hs1.trans hs2, ?_, ?_⟩
          · intro q hq
            rw [ptrs, List.mem_cons, not_or] at hq
            rw [hfr2 q (by rw [ptrsKids_shape hs1]; exact hq.2)]
            rw [hh1]; exact setBr_other h r q _ hq.1
          · rw [readNode]
            have hc2 : (h2 r).children = (h r).children := by rw [h2p]; simp [hh1]
            rw [hc2, hrd2]
            congr 1
            rw [hvv]
            simp only [Visit.mk.injEq]
            refine ⟨by rw [h2p]; simp [hh1, hpn], by simp [Node.branch, h2p, hh1], trivial, ?_, ?_⟩
            · have : Node.path h2 r = Node.path h1 r := by simp [Node.path, Node.isRoot, h2p]
              rw [this, hpath1, hvv]
            · have : Node.hasChild h2 r = Node.hasChild h r := by simp [Node.hasChild, hc2]
              rw [this, hhc]

/-- the body of the loop of `growAndSpread` over the roots -/
def gsRootsBody (dgs : defaultGrowSpreaderSimple) (fuel : Nat) :
    Ptr → Heap × Writer → Go.Ctl (Heap × Writer) (Option (Heap × Writer × Option Src.Err)) :=
  fun root st_ =>
    match st_ with
    | (h_, w_) =>
      match (defaultGrowSpreaderSimple.assembleAndPrint fuel h_ w_ dgs root) with
      | none => Go.Ctl.ret none
      | some r_ =>
        match r_ with
        | (h_, w_, err) => if (Option.isSome err) then Go.Ctl.ret (some (h_, w_, err)) else Go.Ctl.next (h_, w_)

theorem gs_unfold_roots (fuel : Nat) (h : Heap) (w : Writer) (dgs : defaultGrowSpreaderSimple) (rs : List Ptr) :
    defaultGrowSpreaderSimple.growAndSpread fuel h w dgs rs =
      (match Go.forRange rs (h, w) (gsRootsBody dgs fuel) with
       | Go.Ctl.ret r_ => r_
       | Go.Ctl.brk st_ | Go.Ctl.next st_ => some (st_.1, st_.2, none)) := by
  rfl

theorem gs_loop (dgs : defaultGrowSpreaderSimple) (hv : dgs.defaultGrowerSimple.enabledValidation = false) :
    ∀ (ts : List T) (h : Heap) (w : Writer) (rs : List Ptr) (fuel : Nat),
    ReprRoots h ts rs → (ptrsKids h ts rs).Nodup → 2 * sizeList ts + 1 ≤ fuel →
    ∃ h', Go.forRange rs (h, w) (gsRootsBody dgs fuel) =
        (match put w (ts.flatMap (growRoot (fmtOf dgs.defaultGrowerSimple))) with
         | (w', none) => Go.Ctl.next (h', w')
         | (w', some e) => Go.Ctl.ret (some (h', w', some e))) ∧
      ((put w (ts.flatMap (growRoot (fmtOf dgs.defaultGrowerSimple)))).2 = none →
        SameShape h h' ∧ (∀ q, q ∉ ptrsKids h ts rs → h' q = h q) ∧
        readKids h' ts rs 1 = ts.flatMap (growRoot (fmtOf dgs.defaultGrowerSimple)))
  | [], h, w, rs, fuel, hr, _, _ => by
    have : rs = [] := hr
    subst this
    refine ⟨h, by simp [Go.forRange, put, writeAll], fun _ => ⟨SameShape.refl h, fun _ _ => rfl, ?_⟩⟩
    rw [readKids]; rfl
  | t :: ts, h, w, rs, fuel, hr, hnd, hf => by
    obtain ⟨r, rs', rfl, hrr, hrs⟩ := hr
    rw [ptrsKids] at hnd
    have hndc := (List.nodup_append.mp hnd).1
    have hnds := (List.nodup_append.mp hnd).2.1
    have hdisj := (List.nodup_append.mp hnd).2.2
    have hsz : sizeList (t :: ts) = t.size + sizeList ts := by simp [sizeList]
    rw [hsz] at hf
    obtain ⟨h1, hrun1, hrest1⟩ := gs_root dgs hv t h w r fuel hrr hndc (by omega)
    rw [List.flatMap_cons, put_append]
    rcases hp1 : put w (growRoot (fmtOf dgs.defaultGrowerSimple) t) with ⟨w1, e1⟩
    rw [hp1] at hrun1 hrest1
    have hstep : Go.forRange (r :: rs') (h, w) (gsRootsBody dgs fuel) =
        (match e1 with
         | none => Go.forRange rs' (h1, w1) (gsRootsBody dgs fuel)
         | some e => Go.Ctl.ret (some (h1, w1, some e))) := by
      rw [Go.forRange]
      simp only [gsRootsBody, hrun1]
      cases e1 <;> simp
    rw [hstep]
    cases e1 with
    | some e => exact ⟨h1, by simp, by simp⟩
    | none =>
      obtain ⟨hs1, hfr1, hrd1⟩ := hrest1 rfl
      obtain ⟨h2, hrun2, hrest2⟩ := gs_loop dgs hv ts h1 w1 rs' fuel (ReprRoots_shape hs1 _ _ hrs)
        (by rw [ptrsKids_shape hs1]; exact hnds) (by omega)
      simp only []
      rw [hrun2]
      rcases hp2 : put w1 (ts.flatMap (growRoot (fmtOf dgs.defaultGrowerSimple))) with ⟨w2, e2⟩
      rw [hp2] at hrest2
      cases e2 with
      | some e => exact ⟨h2, by simp, by simp⟩
      | none =>
        refine ⟨h2, by simp, fun _ => ?_⟩
        obtain ⟨hs2, hfr2, hrd2⟩ := hrest2 rfl
        refine ⟨hs1.trans hs2, ?_, ?_⟩
        · intro q hq
          rw [ptrsKids, List.mem_append, not_or] at hq
          rw [hfr2 q (by rw [ptrsKids_shape hs1]; exact hq.2), hfr1 q hq.1]
        · rw [readKids, hrd2]
          have : readNode h2 t r 1 = readNode h1 t r 1 := by
            apply readNode_congr
            intro q hq
            rw [ptrs_shape hs1] at hq
            apply hfr2
            rw [ptrsKids_shape hs1]
            intro hq2
            exact hdisj q hq q hq2 rfl
          rw [this, hrd1]

/-- **`growAndSpread` of the source (the text path of `OutputFromRoot`) = grow, then print**: one `Write` per node of
    the forest in pre-order — the model's `textChunks` — until a `Write` fails, whose error is the result; without a
    failed `Write` the nodes are left as the grower leaves them. -/
theorem growAndSpread_forest (dgs : defaultGrowSpreaderSimple) (hv : dgs.defaultGrowerSimple.enabledValidation = false)
    (ts : List T) (h : Heap) (w : Writer) (rs : List Ptr) (fuel : Nat)
    (hr : ReprRoots h ts rs) (hnd : (ptrsKids h ts rs).Nodup) (hf : 2 * sizeList ts + 1 ≤ fuel) :
    ∃ h', defaultGrowSpreaderSimple.growAndSpread fuel h w dgs rs =
        some (h', (writeAll w (ts.flatMap (textChunks (fmtOf dgs.defaultGrowerSimple)))).1,
                  (writeAll w (ts.flatMap (textChunks (fmtOf dgs.defaultGrowerSimple)))).2) ∧
      ((writeAll w (ts.flatMap (textChunks (fmtOf dgs.defaultGrowerSimple)))).2 = none →
        SameShape h h' ∧ (∀ q, q ∉ ptrsKids h ts rs → h' q = h q) ∧
        readKids h' ts rs 1 = ts.flatMap (growRoot (fmtOf dgs.defaultGrowerSimple))) := by
  have hput : put w (ts.flatMap (growRoot (fmtOf dgs.defaultGrowerSimple)))
      = writeAll w (ts.flatMap (textChunks (fmtOf dgs.defaultGrowerSimple))) := by
    unfold put
    rw [List.map_flatMap]
    rfl
  obtain ⟨h', hrun, hrest⟩ := gs_loop dgs hv ts h w rs fuel hr hnd hf
  rw [hput] at hrun hrest
  refine ⟨h', ?_, hrest⟩
  rw [gs_unfold_roots, hrun]
  rcases writeAll w (ts.flatMap (textChunks (fmtOf dgs.defaultGrowerSimple))) with ⟨w', e⟩
  cases e <;> rfl

end Gtree.SrcH
