import Gtree.Generated.Heap.Builder
/-
  `stack.dfs` of the source (stack.go, with push / pop / size over container/list and the methods of node.go it
  calls: `isDirectlyUnder`, `findChildByText`, `addChild`, `setParent`), translated over the heap by /verif/translate
  (heap mode; the stack's list is the world component `stk_`, root first) — what one call does, for every heap and
  every stack of non-nil pointers:  it pops until the node on top is exactly one level above the new node; if there
  is none the stack is empty afterwards and the result is false (the caller reports the row); otherwise, if that node
  has a child of the new node's name, nothing is written and that child is pushed back with its parent (equally named
  siblings are one node), else the new node is appended to the node's children, gets it as its parent, and both are
  pushed back.
-/
namespace Gtree.SrcH
open Gtree Gtree.Go

/-- `n` rounds of a loop body that ignores the loop variable -/
def iterN {σ ρ : Type} (f : σ → Go.Ctl σ ρ) : Nat → σ → Go.Ctl σ ρ
  | 0, s => .next s
  | k + 1, s =>
    match f s with
    | .next s' => iterN f k s'
    | .brk s' => .brk s'
    | .ret r => .ret r

theorem forRange_ignore {α σ ρ : Type} (f : σ → Go.Ctl σ ρ) : ∀ (xs : List α) (s : σ),
    Go.forRange xs s (fun _ st => f st) = iterN f xs.length s
  | [], s => rfl
  | x :: xs, s => by
    simp only [Go.forRange, List.length_cons, iterN]
    cases f s with
    | next s' => exact forRange_ignore f xs s'
    | brk s' => rfl
    | ret r => rfl

/-- the open nodes, deepest first: the first that is exactly one level above `lv`, and what is below it -/
def popTo (h : Heap) (lv : Int) : List Ptr → Option (Ptr × List Ptr)
  | [] => none
  | p :: rest => if lv = (h p).hierarchy + 1 then some (p, rest) else popTo h lv rest

/-- the first child of `p` called `x` (nil if none) -/
def childNamed (h : Heap) (x : Bytes) : List Ptr → Ptr
  | [] => 0
  | c :: cs => if x == (h c).name then c else childNamed h x cs

theorem findChildByText_eq (h : Heap) (p : Ptr) (x : Bytes) :
    Node.findChildByText h p x = childNamed h x (h p).children := by
  unfold Node.findChildByText
  generalize (h p).children = cs
  induction cs with
  | nil => rfl
  | cons c cs ih =>
    simp only [Go.forRange, childNamed]
    by_cases hx : (x == (h c).name) = true
    · simp [hx]
    · have : (x == (h c).name) = false := by simpa using hx
      simp only [this, Bool.false_eq_true, if_false]
      exact ih

/-- what `dfs` leaves when it has found the parent `p` (the open nodes below it, deepest first, are `rest`) -/
def attach (h : Heap) (c p : Ptr) (rest : List Ptr) : Heap × List Ptr × Bool :=
  if childNamed h (h c).name (h p).children != 0 then
    (h, rest.reverse ++ [p, childNamed h (h c).name (h p).children], true)
  else
    (Node.setParent (Node.addChild h p c) c p, rest.reverse ++ [p, c], true)

/-- the body of the loop of `dfs` -/
def dfsBody (c : Ptr) : Heap × List Ptr → Go.Ctl (Heap × List Ptr) (Heap × List Ptr × Bool) :=
  fun st_ =>
    match st_ with
    | (h_, stk_) =>
      match (stack.pop h_ stk_) with
      | (stk_, parent) =>
        if (!(Node.isDirectlyUnder h_ c parent)) then Go.Ctl.next (h_, stk_)
        else
          let child := (Node.findChildByText h_ parent (h_ c).name)
          if (child != Go.nilPtr) then
            Go.Ctl.ret (h_, stack.push h_ (stack.push h_ stk_ parent) child, true)
          else
            let h1 := (Node.setParent (Node.addChild h_ parent c) c parent)
            Go.Ctl.ret (h1, stack.push h1 (stack.push (Node.addChild h_ parent c) stk_ parent) c, true)

theorem dfs_unfold (h : Heap) (stk : List Ptr) (c : Ptr) :
    stack.dfs h stk c =
      (match iterN (dfsBody c) stk.length (h, stk) with
       | Go.Ctl.ret r_ => r_
       | Go.Ctl.brk st_ | Go.Ctl.next st_ => (st_.1, st_.2, false)) := by
  have : stack.dfs h stk c =
      (match Go.forRange (List.range (Int.toNat (stack.size h stk))) (h, stk) (fun _ st_ => dfsBody c st_) with
       | Go.Ctl.ret r_ => r_
       | Go.Ctl.brk st_ | Go.Ctl.next st_ => (st_.1, st_.2, false)) := rfl
  rw [this, forRange_ignore]
  simp [stack.size, Go.len]

theorem pop_snoc (h : Heap) (l : List Ptr) (p : Ptr) (hp : p ≠ 0) : stack.pop h (l ++ [p]) = (l, p) := by
  have hnil : Go.nilPtr = 0 := rfl
  simp [stack.pop, Go.listBack, Go.listDropBack, hnil, hp]

theorem pop_nil (h : Heap) : stack.pop h [] = ([], 0) := by
  simp [stack.pop, Go.listBack, Go.nilPtr]

theorem iter_empty (h : Heap) (c : Ptr) : ∀ k, iterN (dfsBody c) k (h, []) = Go.Ctl.next (h, [])
  | 0 => rfl
  | k + 1 => by
    simp only [iterN, dfsBody, pop_nil]
    have : Node.isDirectlyUnder h c 0 = false := by simp [Node.isDirectlyUnder, Go.nilPtr]
    simp only [this, Bool.not_false, if_true]
    exact iter_empty h c k

theorem iter_popTo (h : Heap) (c : Ptr) : ∀ (rs : List Ptr) (k : Nat), (∀ p ∈ rs, p ≠ 0) → rs.length ≤ k →
    iterN (dfsBody c) k (h, rs.reverse) =
      (match popTo h (h c).hierarchy rs with
       | none => Go.Ctl.next (h, [])
       | some (p, rest) => Go.Ctl.ret (attach h c p rest))
  | [], k, _, _ => by simp [popTo, iter_empty]
  | p :: rest, k, hne, hk => by
    have hp : p ≠ 0 := hne p (by simp)
    cases k with
    | zero => simp at hk
    | succ k =>
      have hnil : Go.nilPtr = 0 := rfl
      simp only [iterN, dfsBody, List.reverse_cons, pop_snoc h _ p hp, popTo]
      by_cases hlv : (h c).hierarchy = (h p).hierarchy + 1
      · have : Node.isDirectlyUnder h c p = true := by simp [Node.isDirectlyUnder, hnil, hp, hlv]
        simp only [this, Bool.not_true, Bool.false_eq_true, if_false, hlv, if_true, findChildByText_eq, attach, hnil]
        by_cases hch : (childNamed h ((h c).name) (h p).children != 0) = true
        · simp [hch, stack.push]
        · have : (childNamed h ((h c).name) (h p).children != 0) = false := by simpa using hch
          simp [this, stack.push]
      · have : Node.isDirectlyUnder h c p = false := by
          simp [Node.isDirectlyUnder, hnil, hp, hlv]
        simp only [this, Bool.not_false, if_true, if_neg hlv]
        exact iter_popTo h c rest k (fun q hq => hne q (by simp [hq])) (by simp at hk; omega)

/-- **`stack.dfs` of the source**, for every heap, every stack of non-nil pointers (root first) and every new node. -/
theorem dfs_spec (h : Heap) (stk : List Ptr) (c : Ptr) (hne : ∀ p ∈ stk, p ≠ 0) :
    stack.dfs h stk c =
      (match popTo h (h c).hierarchy stk.reverse with
       | none => (h, [], false)
       | some (p, rest) => attach h c p rest) := by
  rw [dfs_unfold]
  have := iter_popTo h c stk.reverse stk.length (fun p hp => hne p (by simpa using hp)) (by simp)
  rw [List.reverse_reverse] at this
  rw [this]
  cases popTo h (h c).hierarchy stk.reverse with
  | none => rfl
  | some pr => rfl

end Gtree.SrcH
