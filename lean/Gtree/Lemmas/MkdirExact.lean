import Gtree.Lemmas.VerifyAfter
/-
  Mkdir over the model file system, for forests of good names: the loop over the roots is the tree
  recursion, the roots being absent means every node path is absent (in a closed file system), and
  the result is exact.
-/
namespace Gtree

/-- every existing path has all of its ancestors (what a real file system guarantees) -/
def FS.Closed (fs : FS) : Prop :=
  ∀ es, GoodList es → fs.lookup (key es) ≠ none → ∀ i < es.length, fs.lookup (key (es.take (i + 1))) ≠ none

theorem stat_go_exists (fs : FS) : ∀ (l : List Bytes), (∀ q ∈ l, fs.kindOf q ≠ none) →
    FS.stat.go fs l ≠ .error .notExist
  | [], _ => by simp [FS.stat.go]
  | [q], h => by
    have := h q (by simp)
    simp only [FS.stat.go]
    split
    · simp
    · cases hk : fs.kindOf q with
      | none => exact absurd hk this
      | some k => simp
  | q :: q2 :: qs, h => by
    have := h q (by simp)
    simp only [FS.stat.go]
    split
    · simp
    · cases hk : fs.kindOf q with
      | none => exact absurd hk this
      | some k =>
        cases k with
        | dir => exact stat_go_exists fs (q2 :: qs) (fun x hx => h x (by simp [hx]))
        | file n => simp

/-- in a closed file system, Stat does not say "does not exist" about a path that exists -/
theorem stat_exists (fs : FS) (hc : fs.Closed) (es : List Bytes) (hg : GoodList es) (h : fs.lookup (key es) ≠ none) :
    fs.stat (key es) ≠ .error .notExist := by
  simp only [FS.stat, hasNul_key hg, isAmbient_key hg, Bool.false_eq_true, if_false]
  apply stat_go_exists
  intro q hq
  rw [prefixesOf_key hg] at hq
  simp only [List.mem_map, List.mem_range] at hq
  obtain ⟨i, hi, rfl⟩ := hq
  rw [kindOf_key (goodList_take hg i)]
  exact hc es hg h i hi

/-- the model's loop over the roots is the tree recursion over the forest -/
theorem mkdirRoots_go_forest (f : Fmt) (exts : List Bytes) (ts : List Bytes) (hts : GoodList ts) :
    ∀ (roots : List T) (fs : FS), AllGoodL roots →
      mkdirRoots.go (key ts) exts fs (roots.map (growRoot f))
        = ((mkKids exts ts fs roots).1, (mkKids exts ts fs roots).2.map MkErr.os)
  | [], fs, _ => by simp [mkdirRoots.go, mkKids]
  | t :: rest, fs, hg => by
    rw [AllGoodL] at hg
    have h1 := mkNodes_growRoot f exts ts hts t hg.1 fs
    simp only [List.map_cons, mkdirRoots.go, h1, mkKids]
    cases mkTree exts ts fs t with
    | mk fs1 e1 =>
      cases e1 with
      | some e => rfl
      | none => exact mkdirRoots_go_forest f exts ts hts rest fs1 hg.2

theorem anyRootExists_false_root (f : Fmt) (fs : FS) (target : Bytes) : ∀ (roots : List T),
    anyRootExists fs target (roots.map (growRoot f)) = false →
    ∀ k ∈ roots, rootExists fs target k.name = false := by
  intro roots h k hk
  simp only [anyRootExists, List.any_eq_false, List.mem_map] at h
  have := h (growRoot f k) ⟨k, hk, rfl⟩
  cases k with
  | mk n sub => simpa [growRoot, T.name] using this

/-- in a closed file system where none of the roots exists, no node path exists -/
theorem nodes_absent (f : Fmt) (exts : List Bytes) (ts : List Bytes) (roots : List T) (fs : FS)
    (hts : GoodList ts) (hg : AllGoodL roots) (hc : fs.Closed)
    (hnone : anyRootExists fs (key ts) (roots.map (growRoot f)) = false) :
    ∀ e ∈ pathsOf exts ts roots, fs.lookup (key e.1) = none := by
  intro e he
  obtain ⟨hge, k, hk, tail, hshape⟩ := pathsOf_shape exts roots ts hts hg e he
  by_cases hl : fs.lookup (key e.1) = none
  · exact hl
  · exfalso
    have hlen : ts.length < e.1.length := by rw [hshape]; simp
    have hroot := hc e.1 hge hl ts.length hlen
    have htake : e.1.take (ts.length + 1) = ts ++ [k.name] := by
      have hsplit : ts ++ k.name :: tail = (ts ++ [k.name]) ++ tail := by simp
      rw [hshape, hsplit]
      exact List.take_left' (by simp)
    rw [htake] at hroot
    have hgk : GoodList (ts ++ [k.name]) := by rw [← htake]; exact goodList_take hge _
    have hstat := stat_exists fs hc (ts ++ [k.name]) hgk hroot
    have hre := anyRootExists_false_root f fs (key ts) roots hnone k hk
    have hjoin : filepathJoin [key ts, k.name] = key (ts ++ [k.name]) := by
      have hkn : Elem k.name := (hgk.2 k.name (by simp)).1
      have := filepathJoin_key ts [k.name] hts.1 (by simp) (goodList_elems hts) (by simpa using hkn)
      simpa [joinSlash] using this
    simp only [rootExists, hjoin] at hre
    cases hs : fs.stat (key (ts ++ [k.name])) with
    | ok v => simp at hre
    | error er =>
      cases er with
      | notExist => exact hstat hs
      | _ => simp at hre

/-- EXACTNESS of a successful Mkdir (see Props/C06) -/
theorem mkdirRoots_exact (f : Fmt) (exts : List Bytes) (ts : List Bytes) (roots : List T) (fs : FS)
    (hts : GoodList ts) (hg : AllGoodL roots) (hd : DistinctL roots) (hc : fs.Closed)
    (hnf : ∀ i < ts.length, notFile fs (key (ts.take (i + 1))))
    (hnone : anyRootExists fs (key ts) (roots.map (growRoot f)) = false) :
    (mkdirRoots fs (key ts) exts (roots.map (growRoot f))).2 = none ∧
    Exact exts ts roots fs (mkdirRoots fs (key ts) exts (roots.map (growRoot f))).1 := by
  have habs := nodes_absent f exts ts roots fs hts hg hc hnone
  have hex := mkKids_exact exts roots ts fs hts hg hd hnf habs
  simp only [mkdirRoots, hnone, Bool.false_eq_true, if_false]
  rw [mkdirRoots_go_forest f exts ts hts roots fs hg]
  exact ⟨by simp [hex.1], hex.2⟩

end Gtree
