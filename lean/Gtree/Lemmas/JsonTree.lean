import Gtree.Lemmas.JsonValue
/-
  The JSON gtree prints for a forest reads back as the forest.
-/
namespace Gtree.Json

mutual
theorem toCT_toJ : ∀ t : CT, t.toJ.toCT = some t
  | .mk v [] => by simp [CT.toJ, CT.kidsToJ, J.toCT]
  | .mk v (c :: cs) => by
    have h := toCTs_kidsToJs (c :: cs)
    simp only [CT.kidsToJs] at h
    simp [CT.toJ, CT.kidsToJ, J.toCT, h]
theorem toCTs_kidsToJs : ∀ ts : List CT, JL.toCTs (CT.kidsToJs ts) = some ts
  | [] => by simp [CT.kidsToJs, JL.toCTs]
  | t :: ts => by simp [CT.kidsToJs, JL.toCTs, toCT_toJ t, toCTs_kidsToJs ts]
end

theorem encodeRoot_ne_nil (t : CT) (r : List Char) : encodeRoot t ++ r ≠ [] := by
  simp [encodeRoot]

theorem parseLines_encodeRoots : ∀ (ts : List CT) (fuel : Nat), ts.length < fuel →
    parseLines fuel (encodeRoots ts) = some (ts.map CT.toJ)
  | [], fuel, h => by
    cases fuel with
    | zero => omega
    | succ f => simp [encodeRoots, parseLines]
  | t :: ts, fuel, h => by
    cases fuel with
    | zero => omega
    | succ f =>
      have ih := parseLines_encodeRoots ts f (by simp at h; omega)
      have hp : parseValue (encodeRoots (t :: ts)).length (encodeRoots (t :: ts)) =
          some (t.toJ, '\n' :: encodeRoots ts) := by
        have := parse_print t.toJ (encodeRoots (t :: ts)).length ('\n' :: encodeRoots ts)
          (by simp [encodeRoots, encodeRoot])
        simpa [encodeRoots, encodeRoot] using this
      obtain ⟨c, tl, hc⟩ : ∃ c tl, encodeRoots (t :: ts) = c :: tl := by
        cases he : encodeRoots (t :: ts) with
        | nil => exact absurd he (by simp [encodeRoots, encodeRoot])
        | cons c tl => exact ⟨c, tl, rfl⟩
      rw [hc] at hp ⊢
      rw [parseLines.eq_def]
      simp only [List.length_cons] at hp
      simp [hp, ih]

end Gtree.Json

namespace Gtree.Json

theorem readAll_map_toJ : ∀ ts : List CT, readAll (ts.map CT.toJ) = some ts
  | [] => rfl
  | t :: ts => by simp [readAll, toCT_toJ t, readAll_map_toJ ts]

/-! ### no raw line feed inside a printed value -/

theorem hexDigit_ne_nl : ∀ n, n < 16 → hexDigit n ≠ '\n' := by decide

theorem nl_not_mem_u4 (n : Nat) : '\n' ∉ u4 n := by
  have h := fun k => hexDigit_ne_nl (k % 16) (Nat.mod_lt _ (by decide))
  simp only [u4, List.mem_cons, List.not_mem_nil, or_false, not_or]
  exact ⟨by decide, by decide, (h _).symm, (h _).symm, (h _).symm, (h _).symm⟩

theorem nl_not_mem_escChar (c : Char) : '\n' ∉ escChar c := by
  unfold escChar
  repeat' split
  all_goals first
    | exact nl_not_mem_u4 _
    | (simp only [List.mem_cons, List.not_mem_nil, or_false, not_or]; refine ⟨by decide, by decide⟩)
    | (simp only [List.mem_cons, List.not_mem_nil, or_false]; intro e; subst e; simp_all)

theorem nl_not_mem_escape : ∀ s : List Char, '\n' ∉ escape s
  | [] => by simp [escape]
  | c :: cs => by simp [escape, nl_not_mem_escChar c, nl_not_mem_escape cs]

theorem nl_not_mem_quote (s : List Char) : '\n' ∉ quote s := by
  simp [quote, nl_not_mem_escape s]

mutual
theorem nl_not_mem_print : ∀ j : J, '\n' ∉ j.print
  | .null => by simp [J.print]
  | .str s => by simpa [J.print] using nl_not_mem_quote s
  | .arr .nil => by simp [J.print]
  | .arr (.cons x xs) => by
    simp [J.print, nl_not_mem_print x, nl_not_mem_printTail xs]
  | .obj .nil => by simp [J.print]
  | .obj (.cons k v ms) => by
    have := nl_not_mem_quote k
    simp [J.print, nl_not_mem_print v, nl_not_mem_membersTail ms, this]
theorem nl_not_mem_printTail : ∀ xs : JL, '\n' ∉ JL.printTail xs
  | .nil => by simp [JL.printTail]
  | .cons x xs => by simp [JL.printTail, nl_not_mem_print x, nl_not_mem_printTail xs]
theorem nl_not_mem_membersTail : ∀ ms : ML, '\n' ∉ ML.printTail ms
  | .nil => by simp [ML.printTail]
  | .cons k v ms => by
    have := nl_not_mem_quote k
    simp [ML.printTail, nl_not_mem_print v, nl_not_mem_membersTail ms, this]
end

theorem count_nl_encodeRoots : ∀ ts : List CT, (encodeRoots ts).count '\n' = ts.length
  | [] => by simp [encodeRoots]
  | t :: ts => by
    have h := nl_not_mem_print t.toJ
    simp [encodeRoots, encodeRoot, List.count_append, List.count_eq_zero_of_not_mem h, count_nl_encodeRoots ts]

end Gtree.Json
