import Gtree.Lemmas.HeapMkdir
import Gtree.Lemmas.HeapSpread
/-
  The dry-run printer of the source (simple_tree_spreader.go: `colorizeSpreaderSimple.spreadBranch`, `colorize`,
  `summary`), translated over the heap by /verif/translate (heap mode; the two counters are fields of the receiver,
  which is returned; colour switched off): on every heap that holds a tree it returns the tree's rows, one line per node
  in pre-order, counts the nodes the file decision calls files and the others, and the summary prints those counts.
-/
namespace Gtree.SrcH
open Gtree Gtree.Go

theorem colorize_eq (h : Heap) (cs : colorizeSpreaderSimple) (p : Ptr) :
    colorizeSpreaderSimple.colorize h cs p =
      (if isFileNode cs.fileConsiderer.extensions (h p).name (Node.hasChild h p)
        then { cs with fileCounter := cs.fileCounter + 1 } else { cs with dirCounter := cs.dirCounter + 1 },
       (h p).name) := by
  unfold colorizeSpreaderSimple.colorize
  rw [isFile_heap]
  cases isFileNode cs.fileConsiderer.extensions (h p).name (Node.hasChild h p) <;> simp [Go.color_Sprint]

/-- counting the visits: `k` more files, `d` more directories -/
def bump (cs : colorizeSpreaderSimple) (vs : List Visit) : colorizeSpreaderSimple :=
  { cs with fileCounter := cs.fileCounter + (countFiles cs.fileConsiderer.extensions vs : Nat),
            dirCounter := cs.dirCounter + (countDirs cs.fileConsiderer.extensions vs : Nat) }

theorem bump_nil (cs : colorizeSpreaderSimple) : bump cs [] = cs := by
  simp [bump, countFiles, countDirs]

theorem bump_append (cs : colorizeSpreaderSimple) (a b : List Visit) : bump (bump cs a) b = bump cs (a ++ b) := by
  simp only [bump, countFiles, countDirs, List.filter_append, List.length_append]
  congr 1 <;> push_cast <;> omega

/-- the body of the loop of the printer over the children -/
def dryBody (h : Heap) (fuel : Nat) : Ptr → colorizeSpreaderSimple × Bytes →
    Go.Ctl (colorizeSpreaderSimple × Bytes) (Option (colorizeSpreaderSimple × Bytes)) :=
  fun child st_ =>
    match st_ with
    | (cs, ret) =>
      match (colorizeSpreaderSimple.spreadBranch fuel h cs child) with
      | none => Go.Ctl.ret none
      | some r_ =>
        match r_ with
        | (cs, t1_) => Go.Ctl.next (cs, ret + t1_)

theorem dry_unfold (fuel : Nat) (h : Heap) (cs : colorizeSpreaderSimple) (cur : Ptr) :
    colorizeSpreaderSimple.spreadBranch (fuel + 1) h cs cur =
      (match colorizeSpreaderSimple.colorize h cs cur with
       | (cs1, t1) =>
         match Go.forRange (h cur).children
            (cs1, if Node.isRoot h cur then t1 ++ [0x0A] else Node.branch h cur ++ [0x20] ++ t1 ++ [0x0A]) (dryBody h fuel) with
         | Go.Ctl.ret r_ => r_
         | Go.Ctl.brk st_ | Go.Ctl.next st_ => some (st_.1, st_.2)) := by
  rw [colorizeSpreaderSimple.spreadBranch]
  cases Node.isRoot h cur <;> rfl

mutual
theorem dry_node (h : Heap) : ∀ (t : T) (cs : colorizeSpreaderSimple) (p par : Ptr) (lvl fuel : Nat),
    Repr h t p par lvl → t.size ≤ fuel →
    colorizeSpreaderSimple.spreadBranch fuel h cs p =
      some (bump cs (readNode h t p lvl), ((readNode h t p lvl).map lineOf).flatten)
  | .mk n ks, cs, p, par, lvl, fuel, hr, hf => by
    have hline := lineAt_visit h n ks p par lvl hr
    have hsz : T.size (.mk n ks) = 1 + sizeList ks := by simp [T.size]
    rw [hsz] at hf
    rw [Repr] at hr
    obtain ⟨_, _, _, _, hk⟩ := hr
    cases fuel with
    | zero => omega
    | succ fuel =>
      rw [dry_unfold, colorize_eq, readNode]
      simp only []
      obtain ⟨v, hv⟩ : ∃ v : Visit, v = Visit.mk (h p).name (Node.branch h p) lvl (Node.path h p) (Node.hasChild h p) :=
        ⟨_, rfl⟩
      rw [← hv] at hline ⊢
      have hfirst : (if Node.isRoot h p then (h p).name ++ [0x0A] else Node.branch h p ++ [0x20] ++ (h p).name ++ [0x0A]) = lineOf v := by
        rw [← hline]; rfl
      rw [hfirst]
      obtain ⟨cs1, hcs1⟩ : ∃ cs1, cs1 = (if isFileNode cs.fileConsiderer.extensions (h p).name (Node.hasChild h p)
          then { cs with fileCounter := cs.fileCounter + 1 } else { cs with dirCounter := cs.dirCounter + 1 }) := ⟨_, rfl⟩
      rw [← hcs1]
      have hb1 : cs1 = bump cs [v] := by
        rw [hcs1, hv]
        simp only [bump, countFiles, countDirs, List.filter_cons, List.filter_nil]
        cases isFileNode cs.fileConsiderer.extensions (h p).name (Node.hasChild h p) <;> simp
      have hext : cs1.fileConsiderer = cs.fileConsiderer := by rw [hb1]; rfl
      obtain ⟨hrun⟩ := dry_kids h ks cs1 (lineOf v) (h p).children p (lvl + 1) fuel hk (by omega)
      rw [hrun]
      simp only [List.map_cons, List.flatten_cons]
      rw [hb1, bump_append]
      rfl
theorem dry_kids (h : Heap) : ∀ (ts : List T) (cs : colorizeSpreaderSimple) (acc : Bytes) (cids : List Ptr) (par : Ptr)
    (lvl fuel : Nat), ReprKids h ts cids par lvl → sizeList ts ≤ fuel →
    Nonempty (Go.forRange cids (cs, acc) (dryBody h fuel) =
      Go.Ctl.next (bump cs (readKids h ts cids lvl), acc ++ ((readKids h ts cids lvl).map lineOf).flatten))
  | [], cs, acc, cids, par, lvl, fuel, hr, _ => by
    rw [ReprKids] at hr; subst hr
    exact ⟨by simp [Go.forRange, readKids, bump_nil]⟩
  | t :: ts, cs, acc, cids, par, lvl, fuel, hr, hf => by
    rw [ReprKids] at hr
    obtain ⟨c, cs', rfl, hrc, hrs⟩ := hr
    have hsz : sizeList (t :: ts) = t.size + sizeList ts := by simp [sizeList]
    rw [hsz] at hf
    have h1 := dry_node h t cs c par lvl fuel hrc (by omega)
    refine ⟨?_⟩
    rw [Go.forRange]
    simp only [dryBody, h1]
    obtain ⟨h2⟩ := dry_kids h ts (bump cs (readNode h t c lvl)) (acc + ((readNode h t c lvl).map lineOf).flatten) cs' par lvl fuel hrs (by omega)
    rw [h2, readKids, bump_append]
    simp [add_bytes, List.append_assoc]
end

/-- `summary()` prints the two counters -/
theorem summary_eq (h : Heap) (cs : colorizeSpreaderSimple) (d f : Nat) (hd : cs.dirCounter = d) (hf : cs.fileCounter = f) :
    colorizeSpreaderSimple.summary h cs = summaryBytes d f := by
  unfold colorizeSpreaderSimple.summary summaryBytes Go.fmt_d
  rw [hd, hf]
  simp only [Int.toNat_natCast]
  have h1 : strBytes " directories, " = [0x20, 0x64, 0x69, 0x72, 0x65, 0x63, 0x74, 0x6F, 0x72, 0x69, 0x65, 0x73, 0x2C, 0x20] := by decide +kernel
  have h2 : strBytes " files" = [0x20, 0x66, 0x69, 0x6C, 0x65, 0x73] := by decide +kernel
  rw [h1, h2]

end Gtree.SrcH
