import Gtree.Generated.Heap.Wasm
import Gtree.Lemmas.HeapGrower
import Gtree.Model.Wasm
/-
  The tinywasm twins (wasm_tree_grower.go, wasm_tree_spreader.go — compiled instead of the simple_tree_* files with
  `-tags tinywasm`), translated over the heap by /verif/translate (heap mode).  The twin's grower is the default grower
  followed, node by node, by baking the row into the branch (`assembleBranchFinally`: `name + "\n"` for a root,
  `branch + " " + name + "\n"` otherwise); its printer concatenates the branches in pre-order.  For every heap that holds
  a tree the twin's grower leaves the model's `wasmBranch` of the default variant's visits in the nodes and returns the
  same validation verdict, and the twin's printer then returns the default variant's text.
-/
namespace Gtree.SrcH
open Gtree Gtree.Go

/-- the tinywasm grower's fields as the default grower's -/
def toSimple (dg : defaultGrower) : defaultGrowerSimple :=
  { lastNodeFormat := dg.lastNodeFormat, intermedialNodeFormat := dg.intermedialNodeFormat,
    enabledValidation := dg.enabledValidation }

/-- baking: what the twin's `assembleBranchFinally` does in addition -/
def bake (h : Heap) (p : Ptr) : Heap :=
  if Node.isRoot h p then Node.setBranch h p [(h p).name, [0x0A]]
  else Node.setBranch h p [Node.branch h p, [0x20], (h p).name, [0x0A]]

theorem wasm_directly (h : Heap) (dg : defaultGrower) (p : Ptr) :
    defaultGrower.assembleBranchDirectly h dg p = defaultGrowerSimple.assembleBranchDirectly h (toSimple dg) p := rfl

theorem wasm_indirectly (h : Heap) (dg : defaultGrower) (p q : Ptr) :
    defaultGrower.assembleBranchIndirectly h dg p q = defaultGrowerSimple.assembleBranchIndirectly h (toSimple dg) p q := rfl

theorem wasm_finally (h : Heap) (dg : defaultGrower) (p q : Ptr) (hp : p ≠ 0) :
    defaultGrower.assembleBranchFinally h dg p q = bake (defaultGrowerSimple.assembleBranchFinally h (toSimple dg) p q) p := by
  have hnil : Go.nilPtr = 0 := rfl
  unfold defaultGrower.assembleBranchFinally defaultGrowerSimple.assembleBranchFinally bake
  simp only [hnil, beq_iff_eq, hp, if_false]
  by_cases hq : (q != 0) = true
  · simp only [hq, if_true]
  · have : (q != 0) = false := by simpa using hq
    simp only [this, Bool.false_eq_true, if_false]

theorem bake_eq (h : Heap) (p : Ptr) :
    bake h p = setBr h p { (h p).brnch with value :=
      (if Node.isRoot h p then (h p).name ++ [0x0A] else (h p).brnch.value ++ [0x20] ++ (h p).name ++ [0x0A]) } := by
  unfold bake
  cases hr : Node.isRoot h p <;> simp [setBranch_eq, Node.branch]

theorem validatePath_bake (h : Heap) (p : Ptr) : Node.validatePath (bake h p) p = Node.validatePath h p := by
  rw [bake_eq]
  simp [Node.validatePath, Node.path, Node.isRoot]

theorem wasm_assembleBranch (fuel : Nat) (h : Heap) (dg : defaultGrower) (p : Ptr) (hp : p ≠ 0) :
    defaultGrower.assembleBranch fuel h dg p =
      (defaultGrowerSimple.assembleBranch fuel h (toSimple dg) p).map (fun r => (bake r.1 p, r.2)) := by
  have hw : defaultGrower.assembleBranch fuel h dg p =
      (let h1 := defaultGrowerSimple.assembleBranchDirectly (Node.clean h p) (toSimple dg) p
       let tp := (h1 p).parent
       if (tp != Go.nilPtr) then
         (match Go.forLoop fuel (h1, tp) loopCond (loopBody (toSimple dg) p) with
          | none => none
          | some (Go.Ctl.ret r_) => r_
          | some (Go.Ctl.brk st_) | some (Go.Ctl.next st_) =>
            let h2 := defaultGrower.assembleBranchFinally st_.1 dg p st_.2
            if dg.enabledValidation then some (h2, Node.validatePath h2 p) else some (h2, none))
       else
         (let h2 := defaultGrower.assembleBranchFinally h1 dg p tp
          if dg.enabledValidation then some (h2, Node.validatePath h2 p) else some (h2, none))) := by
    rfl
  rw [hw, assembleBranch_unfold]
  simp only [wasm_finally _ _ _ _ hp, validatePath_bake]
  have hev : (toSimple dg).enabledValidation = dg.enabledValidation := rfl
  -- the loop never returns early (`loopBody` only continues), so both sides go through the same arms
  have hloop : ∀ (fuel : Nat) (s : Heap × Ptr) r,
      Go.forLoop fuel s loopCond (loopBody (toSimple dg) p) ≠ some (Go.Ctl.ret r) := by
    intro fuel
    induction fuel with
    | zero => intro s r; simp only [Go.forLoop]; split <;> simp
    | succ k ih =>
      intro s r
      simp only [Go.forLoop]
      split
      · have : ∃ s', loopBody (toSimple dg) p s = Go.Ctl.next s' := ⟨_, rfl⟩
        obtain ⟨s', hs'⟩ := this
        rw [hs']
        exact ih s' r
      · simp
  split
  · rcases hl : Go.forLoop fuel _ loopCond (loopBody (toSimple dg) p) with _ | c
    · rfl
    · cases c with
      | ret r => exact absurd hl (hloop fuel _ r)
      | brk s => rw [hev]; cases dg.enabledValidation <;> rfl
      | next s => rw [hev]; cases dg.enabledValidation <;> rfl
  · rw [hev]; cases dg.enabledValidation <;> rfl

/-- a visit of the default variant as the twin's grower leaves it: the row baked into the branch -/
def bakeV (v : Visit) : Visit := { v with branch := wasmBranch v }

theorem validate_bakeV : ∀ (vs : List Visit), validateVisits (vs.map bakeV) = validateVisits vs
  | [] => rfl
  | v :: vs => by
    simp only [List.map_cons, validateVisits, validate_bakeV vs]
    rfl

/-- the twin's `assembleBranch` on a node below the root -/
theorem wassembleBranch_node (dg : defaultGrower) (h : Heap) (cur root : Ptr) (l : Bool) (anc : List Anc)
    (fuel : Nat) (hc0 : cur ≠ 0) (hcl : (h cur).hierarchy ≠ 1) (hup : Up h root (h cur).parent anc)
    (hl : Node.isLastOfHierarchy h cur = l) (hf : anc.length ≤ fuel) :
    defaultGrower.assembleBranch fuel h dg cur =
      some (setBr h cur ⟨branchOf (fmtOf (toSimple dg)) l anc ++ [0x20] ++ (h cur).name ++ [0x0A],
                        pathOf (h root).name (h cur).name anc⟩,
        if (toSimple dg).enabledValidation then
          Node.validatePath (setBr h cur ⟨branchOf (fmtOf (toSimple dg)) l anc ++ [0x20] ++ (h cur).name ++ [0x0A],
                        pathOf (h root).name (h cur).name anc⟩) cur
        else none) := by
  rw [wasm_assembleBranch fuel h dg cur hc0, assembleBranch_node (toSimple dg) h cur root l anc fuel hc0 hcl hup hl hf]
  simp only [Option.map_some]
  have hb : bake (setBr h cur ⟨branchOf (fmtOf (toSimple dg)) l anc, pathOf (h root).name (h cur).name anc⟩) cur
      = setBr h cur ⟨branchOf (fmtOf (toSimple dg)) l anc ++ [0x20] ++ (h cur).name ++ [0x0A],
                     pathOf (h root).name (h cur).name anc⟩ := by
    rw [bake_eq]
    simp [Node.isRoot, Src.rootHierarchyNum, hcl]
  rw [hb]
  cases hv : (toSimple dg).enabledValidation
  · simp
  · simp only [if_true]
    rw [← hb, validatePath_bake]

/-- the twin's `assembleBranch` on a root -/
theorem wassembleBranch_root (dg : defaultGrower) (h : Heap) (cur : Ptr) (fuel : Nat)
    (hc0 : cur ≠ 0) (hcl : (h cur).hierarchy = 1) (hpar : (h cur).parent = 0) :
    defaultGrower.assembleBranch fuel h dg cur =
      some (setBr h cur ⟨(h cur).name ++ [0x0A], []⟩,
        if (toSimple dg).enabledValidation then Node.validatePath (setBr h cur ⟨(h cur).name ++ [0x0A], []⟩) cur else none) := by
  rw [wasm_assembleBranch fuel h dg cur hc0, assembleBranch_root (toSimple dg) h cur fuel hc0 hcl hpar]
  simp only [Option.map_some]
  have hb : bake (setBr h cur ⟨[], []⟩) cur = setBr h cur ⟨(h cur).name ++ [0x0A], []⟩ := by
    rw [bake_eq]
    simp [Node.isRoot, Src.rootHierarchyNum, hcl]
  rw [hb]
  cases hv : (toSimple dg).enabledValidation
  · simp
  · simp only [if_true]
    rw [← hb, validatePath_bake]

/-- the body of the loop of `assemble` over the children -/
def wkidsBody (dg : defaultGrower) (fuel : Nat) : Ptr → Heap → Go.Ctl Heap (Option (Heap × Option Src.Err)) :=
  fun child st_ =>
    match (defaultGrower.assemble fuel st_ dg child) with
    | none => Go.Ctl.ret none
    | some r_ =>
      match r_ with
      | (h_, err) => if (Option.isSome err) then Go.Ctl.ret (some (h_, err)) else Go.Ctl.next h_

theorem wassemble_unfold (fuel : Nat) (h : Heap) (dg : defaultGrower) (cur : Ptr) :
    defaultGrower.assemble (fuel + 1) h dg cur =
      (match (defaultGrower.assembleBranch fuel h dg cur) with
       | none => none
       | some r_ =>
         match r_ with
         | (h_, err) =>
           if (Option.isSome err) then some (h_, err)
           else
             match Go.forRange (h_ cur).children h_ (wkidsBody dg fuel) with
             | Go.Ctl.ret r_ => r_
             | Go.Ctl.brk st_ | Go.Ctl.next st_ => some (st_, none)) := by
  rfl

mutual
/-- the grower on a node below the root -/
theorem wassemble_node (dg : defaultGrower) (root : Ptr) (rn : Bytes) :
    ∀ (t : T) (h : Heap) (p par : Ptr) (lvl : Nat) (l : Bool) (anc : List Anc) (fuel : Nat),
      2 ≤ lvl → (h root).name = rn → Repr h t p par lvl → Up h root par anc → Node.isLastOfHierarchy h p = l →
      (ptrs h t p).Nodup → 2 * t.size + anc.length ≤ fuel →
      ∃ h', defaultGrower.assemble fuel h dg p = some (h', expErr (toSimple dg) (growNode (fmtOf (toSimple dg)) rn anc lvl l t)) ∧
        (expErr (toSimple dg) (growNode (fmtOf (toSimple dg)) rn anc lvl l t) = none →
          SameShape h h' ∧ (∀ q, q ∉ ptrs h t p → h' q = h q) ∧
          readNode h' t p lvl = (growNode (fmtOf (toSimple dg)) rn anc lvl l t).map bakeV)
  | .mk n ks, h, p, par, lvl, l, anc, fuel, hlvl, hrn, hr, hup, hl, hnd, hf => by
    rw [Repr] at hr
    obtain ⟨hp0, hpn, hpl, hpp, hk⟩ := hr
    have hpl1 : (h p).hierarchy ≠ 1 := by rw [hpl]; omega
    have hsz : T.size (.mk n ks) = 1 + sizeList ks := by simp [T.size]
    rw [hsz] at hf
    cases fuel with
    | zero => omega
    | succ fuel =>
      rw [wassemble_unfold, wassembleBranch_node dg h p root l anc fuel hp0 hpl1 (hpp ▸ hup) hl (by omega)]
      simp only [hrn, hpn]
      -- the node's own visit
      obtain ⟨b, hb⟩ : ∃ b : Src.branch, b = ⟨branchOf (fmtOf (toSimple dg)) l anc ++ [0x20] ++ n ++ [0x0A], pathOf rn n anc⟩ := ⟨_, rfl⟩
      rw [← hb]
      obtain ⟨h1, hh1⟩ : ∃ h1 : Heap, h1 = setBr h p b := ⟨_, rfl⟩
      rw [← hh1]
      obtain ⟨v, hv⟩ : ∃ v : Visit, v = Visit.mk n (branchOf (fmtOf (toSimple dg)) l anc) lvl (pathOf rn n anc) (!ks.isEmpty) :=
        ⟨_, rfl⟩
      have hs1 : SameShape h h1 := hh1 ▸ SameShape.setBr h p b
      have hpath1 : Node.path h1 p = v.path := by
        simp [hh1, hb, hv, Node.path, Node.isRoot, Src.rootHierarchyNum, hpl1]
      have hval : Node.validatePath h1 p = (validateVisit v).map verrSrc :=
        validatePath_heap h1 p v (by simp [hh1, hv, hpn]) hpath1 (by intro h1'; simp [hv] at h1'; omega)
      have hgrow : growNode (fmtOf (toSimple dg)) rn anc lvl l (.mk n ks)
          = v :: growKids (fmtOf (toSimple dg)) rn ((n, l) :: anc) (lvl + 1) ks := by rw [growNode, hv]
      rw [hgrow, expErr_cons, expErr_single]
      simp only [hval]
      by_cases hve : (if (toSimple dg).enabledValidation then (validateVisit v).map verrSrc else none) = none
      · -- the node is fine: go on with the children
        rw [hve]
        simp only [Option.isSome_none, Bool.false_eq_true, if_false]
        have hkids := wassemble_kids dg root rn ks h1 p [] (h p).children (lvl + 1) ((n, l) :: anc) fuel (by omega)
          ((hs1 root).1.trans hrn) (ReprKids_shape hs1 _ _ _ _ hk)
          ((Up_shape hs1 root _ _).mpr ⟨hp0, hpl1, hpn, hl, hpp ▸ hup⟩)
          (by simp [hh1]) (by
            simp only [hh1, setBr_children]
            rw [ptrs] at hnd
            exact (List.nodup_cons.mp hnd).2.sublist (kids_sublist h ks _ p (lvl + 1) hk) |> id)
          (by rw [ptrsKids_shape hs1]; rw [ptrs] at hnd; exact (List.nodup_cons.mp hnd).2)
          (by simp; omega)
        obtain ⟨h2, hrun, hrest⟩ := hkids
        have hch : (h1 p).children = (h p).children := by simp [hh1]
        rw [hch, hrun]
        cases hke : expErr (toSimple dg) (growKids (fmtOf (toSimple dg)) rn ((n, l) :: anc) (lvl + 1) ks) with
        | some e => exact ⟨h2, by simp, by simp⟩
        | none =>
          refine ⟨h2, by simp, fun _ => ?_⟩
          obtain ⟨hs2, hfr2, hrd2⟩ := hrest hke
          have hpnot : p ∉ ptrsKids h1 ks (h p).children := by
            rw [ptrsKids_shape hs1]; rw [ptrs] at hnd; exact (List.nodup_cons.mp hnd).1
          have h2p : h2 p = h1 p := hfr2 p hpnot
          refine ⟨hs1.trans hs2, ?_, ?_⟩
          · intro q hq
            rw [ptrs, List.mem_cons, not_or] at hq
            rw [hfr2 q (by rw [ptrsKids_shape hs1]; exact hq.2)]
            rw [hh1]; exact setBr_other h p q b hq.1
          · rw [readNode]
            have hc2 : (h2 p).children = (h p).children := by rw [h2p]; simp [hh1]
            rw [hc2, hrd2, List.map_cons]
            congr 1
            rw [hv]
            have hl1 : (lvl == 1) = false := by simp only [beq_eq_false_iff_ne, ne_eq]; omega
            simp only [bakeV, Visit.mk.injEq]
            refine ⟨by rw [h2p]; simp [hh1, hpn], by simp [Node.branch, h2p, hh1, hb, wasmBranch, hl1, sp, lf], trivial, ?_, ?_⟩
            · have : Node.path h2 p = Node.path h1 p := by simp [Node.path, Node.isRoot, h2p]
              rw [this, hpath1, hv]
            · have hlen := readKids_length_eq h ks _ p (lvl + 1) hk
              simp only [Node.hasChild, hc2, Go.len]
              cases ks with
              | nil => simp at hlen; simp [hlen]
              | cons k ks' =>
                have : 0 < ((h p).children).length := by rw [hlen]; simp
                simp; omega
      · -- the node's name or path is invalid: the error is returned
        obtain ⟨e, he⟩ := Option.ne_none_iff_exists'.mp hve
        rw [he]
        exact ⟨h1, by simp, by simp⟩
/-- the loop of `assemble` over (a suffix of) the children of `par` -/
theorem wassemble_kids (dg : defaultGrower) (root : Ptr) (rn : Bytes) :
    ∀ (ts : List T) (h : Heap) (par : Ptr) (pre cs : List Ptr) (lvl : Nat) (ancP : List Anc) (fuel : Nat),
      2 ≤ lvl → (h root).name = rn → ReprKids h ts cs par lvl → Up h root par ancP →
      (h par).children = pre ++ cs → ((h par).children).Nodup → (ptrsKids h ts cs).Nodup →
      2 * sizeList ts + ancP.length ≤ fuel →
      ∃ h', Go.forRange cs h (wkidsBody dg fuel) =
          (match expErr (toSimple dg) (growKids (fmtOf (toSimple dg)) rn ancP lvl ts) with
           | none => Go.Ctl.next h'
           | some e => Go.Ctl.ret (some (h', some e))) ∧
        (expErr (toSimple dg) (growKids (fmtOf (toSimple dg)) rn ancP lvl ts) = none →
          SameShape h h' ∧ (∀ q, q ∉ ptrsKids h ts cs → h' q = h q) ∧
          readKids h' ts cs lvl = (growKids (fmtOf (toSimple dg)) rn ancP lvl ts).map bakeV)
  | [], h, par, pre, cs, lvl, ancP, fuel, _, _, hr, _, _, _, _, _ => by
    rw [ReprKids] at hr; subst hr
    refine ⟨h, by simp [Go.forRange, growKids, expErr, validateVisits], fun _ => ⟨SameShape.refl h, fun _ _ => rfl, ?_⟩⟩
    rw [readKids, growKids]; rfl
  | t :: ts, h, par, pre, cs, lvl, ancP, fuel, hlvl, hrn, hr, hup, hch, hcnd, hnd, hf => by
    rw [ReprKids] at hr
    obtain ⟨c, cs', rfl, hrc, hrs⟩ := hr
    have hpar0 : par ≠ 0 := Up_ne_zero h root ancP par hup
    have hcpar : (h c).parent = par := by
      cases t with
      | mk n ks => rw [Repr] at hrc; exact hrc.2.2.2.1
    have hlast : Node.isLastOfHierarchy h c = cs'.isEmpty := isLast_child h c par pre cs' hcpar hpar0 hch hcnd
    have hlen := readKids_length_eq h ts cs' par lvl hrs
    have hempty : cs'.isEmpty = ts.isEmpty := by
      cases cs' <;> cases ts <;> simp_all
    rw [ptrsKids] at hnd
    have hndc := (List.nodup_append.mp hnd).1
    have hnds := (List.nodup_append.mp hnd).2.1
    have hdisj := (List.nodup_append.mp hnd).2.2
    have hsz : sizeList (t :: ts) = t.size + sizeList ts := by simp [sizeList]
    rw [hsz] at hf
    obtain ⟨h1, hrun1, hrest1⟩ := wassemble_node dg root rn t h c par lvl ts.isEmpty ancP fuel hlvl hrn hrc hup
      (hlast.trans hempty) hndc (by omega)
    have hgk : growKids (fmtOf (toSimple dg)) rn ancP lvl (t :: ts)
        = growNode (fmtOf (toSimple dg)) rn ancP lvl ts.isEmpty t ++ growKids (fmtOf (toSimple dg)) rn ancP lvl ts := by
      cases ts with
      | nil => rw [growKids]; simp [growKids]
      | cons t2 ts' => rw [growKids]; simp
    rw [hgk, expErr_append]
    have hstep : Go.forRange (c :: cs') h (wkidsBody dg fuel) =
        (match expErr (toSimple dg) (growNode (fmtOf (toSimple dg)) rn ancP lvl ts.isEmpty t) with
         | none => Go.forRange cs' h1 (wkidsBody dg fuel)
         | some e => Go.Ctl.ret (some (h1, some e))) := by
      rw [Go.forRange]
      simp only [wkidsBody, hrun1]
      cases expErr (toSimple dg) (growNode (fmtOf (toSimple dg)) rn ancP lvl ts.isEmpty t) <;> simp
    rw [hstep]
    cases he1 : expErr (toSimple dg) (growNode (fmtOf (toSimple dg)) rn ancP lvl ts.isEmpty t) with
    | some e => exact ⟨h1, by simp, by simp⟩
    | none =>
      obtain ⟨hs1, hfr1, hrd1⟩ := hrest1 he1
      have hch1 : (h1 par).children = (pre ++ [c]) ++ cs' := by rw [(hs1 par).2.2.2, hch]; simp
      obtain ⟨h2, hrun2, hrest2⟩ := wassemble_kids dg root rn ts h1 par (pre ++ [c]) cs' lvl ancP fuel hlvl
        ((hs1 root).1.trans hrn) (ReprKids_shape hs1 _ _ _ _ hrs) ((Up_shape hs1 root _ _).mpr hup) hch1
        (by rw [(hs1 par).2.2.2]; exact hcnd) (by rw [ptrsKids_shape hs1]; exact hnds) (by omega)
      simp only []
      rw [hrun2]
      cases he2 : expErr (toSimple dg) (growKids (fmtOf (toSimple dg)) rn ancP lvl ts) with
      | some e => exact ⟨h2, by simp, by simp⟩
      | none =>
        refine ⟨h2, by simp, fun _ => ?_⟩
        obtain ⟨hs2, hfr2, hrd2⟩ := hrest2 he2
        refine ⟨hs1.trans hs2, ?_, ?_⟩
        · intro q hq
          rw [ptrsKids, List.mem_append, not_or] at hq
          rw [hfr2 q (by rw [ptrsKids_shape hs1]; exact hq.2), hfr1 q hq.1]
        · rw [readKids, hrd2]
          have : readNode h2 t c lvl = readNode h1 t c lvl := by
            apply readNode_congr
            intro q hq
            rw [ptrs_shape hs1] at hq
            apply hfr2
            rw [ptrsKids_shape hs1]
            intro hq2
            exact hdisj q hq q hq2 rfl
          rw [this, hrd1, List.map_append]
end

/-- **the grower of the source on a root**: for every heap that holds the tree `t` at `r` (a root: level 1, no
    parent; all pointers of the tree different) and every fuel above `2·size + 1`, the translated `assemble`
    returns the model's verdict — the first validation error in pre-order when validation is on, none otherwise —
    and, when it returns no error, has changed nothing but the branches and paths of the tree's own nodes, which
    now read as the model's `growRoot`. -/
theorem wassemble_root (dg : defaultGrower) (t : T) (h : Heap) (r : Ptr) (fuel : Nat)
    (hr : Repr h t r 0 1) (hnd : (ptrs h t r).Nodup) (hf : 2 * t.size + 1 ≤ fuel) :
    ∃ h', defaultGrower.assemble fuel h dg r = some (h', expErr (toSimple dg) (growRoot (fmtOf (toSimple dg)) t)) ∧
      (expErr (toSimple dg) (growRoot (fmtOf (toSimple dg)) t) = none →
        SameShape h h' ∧ (∀ q, q ∉ ptrs h t r → h' q = h q) ∧ readNode h' t r 1 = (growRoot (fmtOf (toSimple dg)) t).map bakeV) := by
  cases t with
  | mk n ks =>
    rw [Repr] at hr
    obtain ⟨hp0, hpn, hpl, hpp, hk⟩ := hr
    have hpl1 : (h r).hierarchy = 1 := by rw [hpl]; rfl
    have hsz : T.size (.mk n ks) = 1 + sizeList ks := by simp [T.size]
    rw [hsz] at hf
    cases fuel with
    | zero => omega
    | succ fuel =>
      rw [wassemble_unfold, wassembleBranch_root dg h r fuel hp0 hpl1 hpp]
      simp only [hpn]
      obtain ⟨h1, hh1⟩ : ∃ h1 : Heap, h1 = setBr h r ⟨n ++ [0x0A], []⟩ := ⟨_, rfl⟩
      rw [← hh1]
      obtain ⟨v, hv⟩ : ∃ v : Visit, v = Visit.mk n [] 1 n (!ks.isEmpty) := ⟨_, rfl⟩
      have hs1 : SameShape h h1 := hh1 ▸ SameShape.setBr h r _
      have hpath1 : Node.path h1 r = v.path := by
        simp [hh1, hv, Node.path, Node.isRoot, Src.rootHierarchyNum, hpl1, hpn]
      have hval : Node.validatePath h1 r = (validateVisit v).map verrSrc :=
        validatePath_heap h1 r v (by simp [hh1, hv, hpn]) hpath1 (by intro _; simp [hv])
      have hgrow : growRoot (fmtOf (toSimple dg)) (.mk n ks) = v :: growKids (fmtOf (toSimple dg)) n [] 2 ks := by rw [growRoot, hv]
      rw [hgrow, expErr_cons, expErr_single]
      simp only [hval]
      by_cases hve : (if (toSimple dg).enabledValidation then (validateVisit v).map verrSrc else none) = none
      · rw [hve]
        simp only [Option.isSome_none, Bool.false_eq_true, if_false]
        have hkids := wassemble_kids dg r n ks h1 r [] (h r).children 2 [] fuel (by omega)
          ((hs1 r).1.trans hpn) (ReprKids_shape hs1 _ _ _ _ hk)
          ⟨rfl, hp0, (hs1 r).2.1.trans hpl1⟩
          (by simp [hh1]) (by
            simp only [hh1, setBr_children]
            rw [ptrs] at hnd
            exact (List.nodup_cons.mp hnd).2.sublist (kids_sublist h ks _ r 2 hk))
          (by rw [ptrsKids_shape hs1]; rw [ptrs] at hnd; exact (List.nodup_cons.mp hnd).2)
          (by simp; omega)
        obtain ⟨h2, hrun, hrest⟩ := hkids
        have hch : (h1 r).children = (h r).children := by simp [hh1]
        rw [hch, hrun]
        cases hke : expErr (toSimple dg) (growKids (fmtOf (toSimple dg)) n [] 2 ks) with
        | some e => exact ⟨h2, by simp, by simp⟩
        | none =>
          refine ⟨h2, by simp, fun _ => ?_⟩
          obtain ⟨hs2, hfr2, hrd2⟩ := hrest hke
          have hpnot : r ∉ ptrsKids h1 ks (h r).children := by
            rw [ptrsKids_shape hs1]; rw [ptrs] at hnd; exact (List.nodup_cons.mp hnd).1
          have h2p : h2 r = h1 r := hfr2 r hpnot
          refine ⟨hs1.trans hs2, ?_, ?_⟩
          · intro q hq
            rw [ptrs, List.mem_cons, not_or] at hq
            rw [hfr2 q (by rw [ptrsKids_shape hs1]; exact hq.2)]
            rw [hh1]; exact setBr_other h r q _ hq.1
          · rw [readNode]
            have hc2 : (h2 r).children = (h r).children := by rw [h2p]; simp [hh1]
            rw [hc2, hrd2, List.map_cons]
            congr 1
            rw [hv]
            simp only [bakeV, Visit.mk.injEq]
            refine ⟨by rw [h2p]; simp [hh1, hpn], by simp [Node.branch, h2p, hh1, wasmBranch, lf], trivial, ?_, ?_⟩
            · have : Node.path h2 r = Node.path h1 r := by simp [Node.path, Node.isRoot, h2p]
              rw [this, hpath1, hv]
            · have hlen := readKids_length_eq h ks _ r 2 hk
              simp only [Node.hasChild, hc2, Go.len]
              cases ks with
              | nil => simp at hlen; simp [hlen]
              | cons k ks' =>
                have : 0 < ((h r).children).length := by rw [hlen]; simp
                simp; omega
      · obtain ⟨e, he⟩ := Option.ne_none_iff_exists'.mp hve
        rw [he]
        exact ⟨h1, by simp, by simp⟩



/-! ### the twin's printer -/

/-- the body of the loop of the twin's `spreadBranch` over the children -/
def wspreadBody (h : Heap) (fuel : Nat) : Ptr → Bytes → Go.Ctl Bytes (Option Bytes) :=
  fun child st_ =>
    match (defaultSpreader.spreadBranch fuel h (defaultSpreader.mk) child) with
    | none => Go.Ctl.ret none
    | some r_ => Go.Ctl.next (st_ + r_)

theorem wspread_unfold (fuel : Nat) (h : Heap) (ds : defaultSpreader) (cur : Ptr) :
    defaultSpreader.spreadBranch (fuel + 1) h ds cur =
      (match Go.forRange (h cur).children (Node.branch h cur) (wspreadBody h fuel) with
       | Go.Ctl.ret r_ => r_
       | Go.Ctl.brk st_ | Go.Ctl.next st_ => some st_) := by
  rfl

mutual
theorem wspread_node (h : Heap) : ∀ (t : T) (ds : defaultSpreader) (p par : Ptr) (lvl fuel : Nat),
    Repr h t p par lvl → t.size ≤ fuel →
    defaultSpreader.spreadBranch fuel h ds p = some ((readNode h t p lvl).map (·.branch)).flatten
  | .mk n ks, ds, p, par, lvl, fuel, hr, hf => by
    have hsz : T.size (.mk n ks) = 1 + sizeList ks := by simp [T.size]
    rw [hsz] at hf
    rw [Repr] at hr
    obtain ⟨_, _, _, _, hk⟩ := hr
    cases fuel with
    | zero => omega
    | succ fuel =>
      rw [wspread_unfold, readNode]
      obtain ⟨hrun⟩ := wspread_kids h ks (Node.branch h p) (h p).children p (lvl + 1) fuel hk (by omega)
      rw [hrun]
      simp
theorem wspread_kids (h : Heap) : ∀ (ts : List T) (acc : Bytes) (cs : List Ptr) (par : Ptr) (lvl fuel : Nat),
    ReprKids h ts cs par lvl → sizeList ts ≤ fuel →
    Nonempty (Go.forRange cs acc (wspreadBody h fuel) =
      Go.Ctl.next (acc ++ ((readKids h ts cs lvl).map (·.branch)).flatten))
  | [], acc, cs, par, lvl, fuel, hr, _ => by
    rw [ReprKids] at hr; subst hr
    exact ⟨by simp [Go.forRange, readKids]⟩
  | t :: ts, acc, cs, par, lvl, fuel, hr, hf => by
    rw [ReprKids] at hr
    obtain ⟨c, cs', rfl, hrc, hrs⟩ := hr
    have hsz : sizeList (t :: ts) = t.size + sizeList ts := by simp [sizeList]
    rw [hsz] at hf
    have h1 := wspread_node h t (defaultSpreader.mk) c par lvl fuel hrc (by omega)
    refine ⟨?_⟩
    rw [Go.forRange]
    simp only [wspreadBody, h1]
    obtain ⟨h2⟩ := wspread_kids h ts (acc + ((readNode h t c lvl).map (·.branch)).flatten) cs' par lvl fuel hrs (by omega)
    rw [h2, readKids]
    simp [add_bytes, List.append_assoc]
end

/-- **the twin's grower, then the twin's printer, on a root: the text of the default variant.**  For every heap that
    holds the tree `t` at a root `r` (all pointers different), every four branch strings and every fuel above
    `2·size + 1`: the twin's grower returns the default variant's validation verdict, and when that is none the twin's
    printer returns the model's `wasmSpreadBranch` — the concatenation of the default variant's rows, each with its
    line feed. -/
theorem wasm_grow_then_spread (dg : defaultGrower) (ds : defaultSpreader) (t : T) (h : Heap) (r : Ptr) (fuel : Nat)
    (hr : Repr h t r 0 1) (hnd : (ptrs h t r).Nodup) (hf : 2 * t.size + 1 ≤ fuel) :
    ∃ h', defaultGrower.assemble fuel h dg r = some (h', expErr (toSimple dg) (growRoot (fmtOf (toSimple dg)) t)) ∧
      (expErr (toSimple dg) (growRoot (fmtOf (toSimple dg)) t) = none →
        defaultSpreader.spreadBranch fuel h' ds r = some (wasmSpreadBranch (fmtOf (toSimple dg)) t)) := by
  obtain ⟨h', hrun, hrest⟩ := wassemble_root dg t h r fuel hr hnd hf
  refine ⟨h', hrun, fun he => ?_⟩
  obtain ⟨hs, _, hrd⟩ := hrest he
  rw [wspread_node h' t ds r 0 1 fuel (Repr_shape hs _ _ _ _ hr) (by omega), hrd]
  simp [wasmSpreadBranch, List.map_map, Function.comp_def, bakeV]

end Gtree.SrcH
