import Gtree.Lemmas.MkInterleave
namespace Gtree

/-- an interleaving is a permutation of all the elements -/
theorem Interleave.perm {α : Type} {ls : List (List α)} {r : List α} (h : Interleave ls r) : r.Perm ls.flatten := by
  induction h with
  | done ls hnil =>
    have : ls.flatten = [] := by
      rw [List.flatten_eq_nil_iff]
      exact hnil
    rw [this]
  | step pre post l x r _ ih =>
    have h1 : (pre ++ (x :: l) :: post).flatten = pre.flatten ++ (x :: l) ++ post.flatten := by simp
    have h2 : (pre ++ l :: post).flatten = pre.flatten ++ l ++ post.flatten := by simp
    rw [h1]
    rw [h2] at ih
    have : (x :: r).Perm (x :: (pre.flatten ++ l ++ post.flatten)) := List.Perm.cons x ih
    refine this.trans ?_
    simp only [List.append_assoc, List.cons_append]
    exact (List.perm_middle).symm

end Gtree
