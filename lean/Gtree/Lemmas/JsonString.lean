import Gtree.Model.Json
/-
  Reading back an escaped string: `parseStr (escape s ++ '"' :: rest) = some (s, rest)` for every string.
-/
namespace Gtree.Json

theorem hexVal_hexDigit : ∀ n, n < 16 → hexVal (hexDigit n) = some n := by decide

theorem parseStr_lit (c : Char) (rest : List Char) (h1 : c ≠ '"') (h2 : c ≠ '\\') :
    parseStr (c :: rest) = if c.toNat < 32 then none else (parseStr rest).map fun (s, r) => (c :: s, r) := by
  rw [parseStr.eq_def]
  split
  · rename_i h; cases h
  · rename_i h; injection h with h; exact absurd h h1
  · rename_i h; injection h with h; exact absurd h h2
  · rename_i h; injection h with ha hb; subst ha; subst hb; rfl

theorem parseStr_u4 (n : Nat) (hn : n < 65536) (hs : ¬ (0xD800 ≤ n ∧ n < 0xE000)) (tail : List Char) :
    parseStr (u4 n ++ tail) = (parseStr tail).map fun (s, r) => (Char.ofNat n :: s, r) := by
  have e : (n / 4096 % 16) * 4096 + (n / 256 % 16) * 256 + (n / 16 % 16) * 16 + n % 16 = n := by omega
  simp only [u4, List.cons_append, List.nil_append]
  rw [parseStr.eq_def]
  simp [hexVal_hexDigit _ (Nat.mod_lt _ (by decide : 0 < 16)), e, hs]

theorem ofNat_toNat (c : Char) : Char.ofNat c.toNat = c := Char.ofNat_toNat c

/-- one escaped character is read back as itself -/
theorem parseStr_escChar (c : Char) (tail : List Char) :
    parseStr (escChar c ++ tail) = (parseStr tail).map fun (s, r) => (c :: s, r) := by
  unfold escChar
  split
  · rename_i h; subst h; rw [parseStr.eq_def]; simp
  split
  · rename_i h; subst h; rw [parseStr.eq_def]; simp
  split
  · rename_i h
    have : c = Char.ofNat 8 := by rw [← h, ofNat_toNat]
    subst this; rw [parseStr.eq_def]; simp
  split
  · rename_i h
    have : c = Char.ofNat 12 := by rw [← h, ofNat_toNat]
    subst this; rw [parseStr.eq_def]; simp
  split
  · rename_i h; subst h; rw [parseStr.eq_def]; simp
  split
  · rename_i h; subst h; rw [parseStr.eq_def]; simp
  split
  · rename_i h; subst h; rw [parseStr.eq_def]; simp
  split
  · rename_i h
    rw [parseStr_u4 _ (by omega) (by omega), ofNat_toNat]
  split
  · rename_i h
    have hn : c.toNat = 60 ∨ c.toNat = 62 ∨ c.toNat = 38 := by
      rcases h with h | h | h <;> subst h <;> decide
    rw [parseStr_u4 _ (by omega) (by omega), ofNat_toNat]
  split
  · rename_i h
    rw [parseStr_u4 _ (by omega) (by omega), ofNat_toNat]
  · rename_i h1 h2 _ _ _ _ _ h3 _ _
    simp only [List.cons_append, List.nil_append]
    rw [parseStr_lit c tail h1 h2]
    simp [h3]

theorem parseStr_escape (s rest : List Char) : parseStr (escape s ++ '"' :: rest) = some (s, rest) := by
  induction s with
  | nil => simp [escape, parseStr]
  | cons c cs ih => simp [escape, List.append_assoc, parseStr_escChar, ih]

/-- a quoted string, after its opening quote -/
theorem parseStr_quote (s rest : List Char) : ∃ tl, quote s ++ rest = '"' :: tl ∧ parseStr tl = some (s, rest) :=
  ⟨escape s ++ '"' :: rest, by simp [quote], parseStr_escape s rest⟩

end Gtree.Json
