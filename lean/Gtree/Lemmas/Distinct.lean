import Gtree.Spec.Merge
/-
  Trees whose sibling names are pairwise distinct at every level (what NewRoot/Add build) are fixed
  points of the merge.
-/
namespace Gtree

mutual
/-- sibling names are pairwise distinct, hereditarily -/
def DistinctT : T → Prop
  | .mk _ ks => DistinctL ks
def DistinctL : List T → Prop
  | [] => True
  | t :: ts => (∀ u ∈ ts, u.name ≠ t.name) ∧ DistinctT t ∧ DistinctL ts
end

theorem updateFirst_none (n : Bytes) (g : T → T) : ∀ (acc : List T), (∀ t ∈ acc, t.name ≠ n) → updateFirst n g acc = none
  | [], _ => rfl
  | t :: ts, h => by
    have ht : (t.name == n) = false := by simpa using h t (by simp)
    simp [updateFirst, ht, updateFirst_none n g ts (fun u hu => h u (by simp [hu]))]

theorem absorbAll_distinct : ∀ (ks acc : List T), DistinctL ks → (∀ k ∈ ks, ∀ a ∈ acc, a.name ≠ k.name) →
    absorbAll acc ks = acc ++ ks
  | [], acc, _, _ => by rw [absorbAll]; simp
  | T.mk n sub :: rest, acc, hd, hacc => by
    rw [DistinctL] at hd
    obtain ⟨hrest_ne, hdt, hdrest⟩ := hd
    rw [DistinctT] at hdt
    have hsub : absorbAll [] sub = sub := by
      simpa using absorbAll_distinct sub [] hdt (by simp)
    have hnone : updateFirst n (fun c => T.mk c.name (absorbAll c.kids sub)) acc = none :=
      updateFirst_none n _ acc (fun a ha => hacc (T.mk n sub) (by simp) a ha)
    rw [absorbAll]
    have habs : absorb acc (T.mk n sub) = acc ++ [T.mk n sub] := by
      simp only [absorb, hnone, hsub]
    rw [habs]
    rw [absorbAll_distinct rest (acc ++ [T.mk n sub]) hdrest (by
      intro k hk a ha
      rcases List.mem_append.mp ha with ha | ha
      · exact hacc k (by simp [hk]) a ha
      · simp only [List.mem_singleton] at ha
        subst ha
        exact fun e => hrest_ne k hk e.symm)]
    simp
termination_by ks => sizeOf ks

theorem mergeRoot_distinct (t : T) (h : DistinctT t) : mergeRoot t = t := by
  cases t with
  | mk n ks =>
    rw [DistinctT] at h
    simp only [mergeRoot, mergeKids]
    have := absorbAll_distinct ks [] h (by simp)
    simpa using this

end Gtree
