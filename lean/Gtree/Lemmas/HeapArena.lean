import Gtree.Generated.Heap.Arena
import Gtree.Lemmas.HeapZipper
import Gtree.Model.Programmable
/-
  `NewRoot` and `(*Node).Add` of the source (tree_handler_programmably.go, with `newNode` of node.go and the
  package-level `idxCounter`), translated over the heap by /verif/translate (heap mode; `&Node{…}` takes the
  allocator's next pointer, the counter is the world component `idx_`) ARE the operations of the arena model
  (`Model/Programmable.lean`: `Store.newRoot`, `Store.add`): the heap with its allocator is the arena — node `i` of the
  arena is the cell at pointer `i + 1`.
-/
namespace Gtree.SrcH
open Gtree Gtree.Go

/-- the heap, the allocator and the package-level counter represent the arena -/
structure StoreRel (h : Heap) (al : Nat) (idx : Int) (s : Store) : Prop where
  al_eq : al = s.nodes.length + 1
  idx_eq : idx = (s.idxCounter : Int)
  cells : ∀ (i : Nat) (n : PNode), s.nodes[i]? = some n →
    (h (i + 1)).name = n.name ∧ (h (i + 1)).hierarchy = (n.hierarchy : Int) ∧ (h (i + 1)).index = (n.index : Int) ∧
    (h (i + 1)).children = n.children.map (· + 1)
  closed : ∀ (i : Nat) (n : PNode), s.nodes[i]? = some n → ∀ c ∈ n.children, c < s.nodes.length

theorem newNode_eq (h : Heap) (al : Nat) (name : Bytes) (hier idx : Int) :
    newNode h al name hier idx =
      (Heap.set h al { name := name, hierarchy := hier, index := idx, brnch := ⟨[], []⟩, parent := 0, children := [] },
       al + 1, al) := rfl

theorem NewRoot_eq (h : Heap) (al : Nat) (idx : Int) (name : Bytes) :
    NewRoot h al idx name =
      (Heap.set h al { name := name, hierarchy := 1, index := idx + 1, brnch := ⟨[], []⟩, parent := 0, children := [] },
       al + 1, idx + 1, al) := rfl

/-- **`NewRoot`** is the arena's `newRoot` -/
theorem NewRoot_refines (h : Heap) (al : Nat) (idx : Int) (s : Store) (name : Bytes) (hrel : StoreRel h al idx s) :
    (NewRoot h al idx name).2.2.2 = (s.newRoot name).2 + 1 ∧
    StoreRel (NewRoot h al idx name).1 (NewRoot h al idx name).2.1 (NewRoot h al idx name).2.2.1 (s.newRoot name).1 := by
  obtain ⟨hal, hidx, hcells, hclosed⟩ := hrel
  rw [NewRoot_eq]
  simp only [Store.newRoot]
  refine ⟨hal, ?_⟩
  constructor
  · simp [hal]
  · simp [hidx]
  · intro i n hn
    by_cases hi : i < s.nodes.length
    · rw [List.getElem?_append_left hi] at hn
      have := hcells i n hn
      have hne : i + 1 ≠ al := by rw [hal]; omega
      simp only [Heap.set, hne, if_false]
      exact this
    · have hi' : i = s.nodes.length := by
        have := List.getElem?_eq_some_iff.mp hn
        obtain ⟨hlt, _⟩ := this
        simp at hlt; omega
      subst hi'
      simp at hn
      subst hn
      simp [Heap.set, hal, hidx]
  · intro i n hn c hc
    by_cases hi : i < s.nodes.length
    · rw [List.getElem?_append_left hi] at hn
      have := hclosed i n hn c hc
      simp; omega
    · have hi' : i = s.nodes.length := by
        have := List.getElem?_eq_some_iff.mp hn
        obtain ⟨hlt, _⟩ := this
        simp at hlt; omega
      subst hi'
      simp at hn
      subst hn
      simp at hc

/-- the first child called `x`, on the heap and in the arena -/
theorem childNamed_find (h : Heap) (s : Store) (x : Bytes)
    (hcells : ∀ (i : Nat) (n : PNode), s.nodes[i]? = some n → (h (i + 1)).name = n.name) :
    ∀ (cs : List Nat), (∀ c ∈ cs, c < s.nodes.length) →
    childNamed h x (cs.map (· + 1)) =
      (match cs.find? (fun c => match s.get? c with | some cn => cn.name == x | none => false) with
       | some c => c + 1
       | none => 0)
  | [], _ => rfl
  | c :: cs, hlt => by
    have hc : c < s.nodes.length := hlt c (by simp)
    obtain ⟨n, hn⟩ : ∃ n, s.nodes[c]? = some n := ⟨s.nodes[c], by simp [hc]⟩
    have hname := hcells c n hn
    simp only [List.map_cons, childNamed, List.find?_cons, Store.get?, hn, hname]
    by_cases hx : (n.name == x) = true
    · have hx' : (x == n.name) = true := by rw [beq_bytes_comm]; exact hx
      simp [hx, hx']
    · have hx1 : (n.name == x) = false := by simpa using hx
      have hx' : (x == n.name) = false := by rw [beq_bytes_comm]; exact hx1
      simp only [hx1, hx', Bool.false_eq_true, if_false]
      exact childNamed_find h s x hcells cs (fun c' hc' => hlt c' (by simp [hc']))

theorem Add_eq (h : Heap) (al : Nat) (idx : Int) (parent : Ptr) (text : Bytes) :
    Node.Add h al idx parent text =
      (if childNamed h text (h parent).children != 0 then (h, al, idx, childNamed h text (h parent).children)
       else
         (Node.addChild (Node.setParent
            (Heap.set h al { name := text, hierarchy := (h parent).hierarchy + 1, index := idx + 1, brnch := ⟨[], []⟩,
                             parent := 0, children := [] }) al parent) parent al,
          al + 1, idx + 1, al)) := by
  unfold Node.Add
  rw [findChildByText_eq]
  rfl

/-- **`(*Node).Add`** is the arena's `add`: the existing child of that name, or a new last child one level deeper -/
theorem Add_refines (h : Heap) (al : Nat) (idx : Int) (s : Store) (pid : Nat) (name : Bytes)
    (hrel : StoreRel h al idx s) (hp : pid < s.nodes.length) :
    (s.add pid name).2 = some ((Node.Add h al idx (pid + 1) name).2.2.2 - 1) ∧
    (Node.Add h al idx (pid + 1) name).2.2.2 ≠ 0 ∧
    StoreRel (Node.Add h al idx (pid + 1) name).1 (Node.Add h al idx (pid + 1) name).2.1
      (Node.Add h al idx (pid + 1) name).2.2.1 (s.add pid name).1 := by
  obtain ⟨hal, hidx, hcells, hclosed⟩ := hrel
  obtain ⟨p, hpn⟩ : ∃ p, s.nodes[pid]? = some p := ⟨s.nodes[pid], by simp [hp]⟩
  have hpc := hcells pid p hpn
  have hfind := childNamed_find h s name (fun i n hn => (hcells i n hn).1) p.children (hclosed pid p hpn)
  have hfind' : childNamed h name (p.children.map (· + 1)) =
      (match s.findChild p name with | some c => c + 1 | none => 0) := hfind
  have hadd : s.add pid name =
      (match s.findChild p name with
       | some c => (s, some c)
       | none =>
         ({ nodes := (s.nodes ++ [({ name := name, hierarchy := p.hierarchy + 1, index := s.idxCounter + 1, children := [] } : PNode)]).mapIdx
              (fun i n => if i == pid then { n with children := n.children ++ [s.nodes.length] } else n),
            idxCounter := s.idxCounter + 1 }, some s.nodes.length)) := by
    simp only [Store.add, Store.get?, hpn]
    cases s.findChild p name <;> rfl
  rw [Add_eq, hpc.2.2.2, hfind', hadd]
  cases hf : s.findChild p name with
  | some c =>
    simp only []
    have : (c + 1 != 0) = true := by simp
    simp only [this, if_true]
    exact ⟨by simp, by simp, ⟨hal, hidx, hcells, hclosed⟩⟩
  | none =>
    simp only [bne_self_eq_false, Bool.false_eq_true, if_false]
    have hal0 : al ≠ 0 := by rw [hal]; omega
    have hpal : pid + 1 ≠ al := by rw [hal]; omega
    obtain ⟨h', hh'⟩ : ∃ h' : Heap, h' = Node.addChild (Node.setParent
        (Heap.set h al { name := name, hierarchy := (h (pid + 1)).hierarchy + 1, index := idx + 1, brnch := ⟨[], []⟩,
                         parent := 0, children := [] }) al (pid + 1)) (pid + 1) al := ⟨_, rfl⟩
    rw [← hh']
    have hother : ∀ q, q ≠ al → q ≠ pid + 1 → h' q = h q := by
      intro q h1 h2
      rw [hh']; simp [Node.addChild, Node.setParent, Heap.set, h1, h2]
    have hpar : (h' (pid + 1)).name = (h (pid + 1)).name ∧ (h' (pid + 1)).hierarchy = (h (pid + 1)).hierarchy ∧
        (h' (pid + 1)).index = (h (pid + 1)).index ∧ (h' (pid + 1)).children = (h (pid + 1)).children ++ [al] := by
      rw [hh']; simp [Node.addChild, Node.setParent, Heap.set, hpal]
    have hnew : (h' al).name = name ∧ (h' al).hierarchy = (h (pid + 1)).hierarchy + 1 ∧ (h' al).index = idx + 1 ∧
        (h' al).children = [] := by
      rw [hh']; simp [Node.addChild, Node.setParent, Heap.set, Ne.symm hpal]
    refine ⟨by simp [hal], hal0, ?_⟩
    have hnodes : ∀ (i : Nat) (n : PNode),
        ((s.nodes ++ [({ name := name, hierarchy := p.hierarchy + 1, index := s.idxCounter + 1, children := [] } : PNode)]).mapIdx
          (fun i n => if i == pid then { n with children := n.children ++ [s.nodes.length] } else n))[i]? = some n →
        (i < s.nodes.length ∧ i ≠ pid ∧ s.nodes[i]? = some n) ∨
        (i = pid ∧ n = { p with children := p.children ++ [s.nodes.length] }) ∨
        (i = s.nodes.length ∧ n = { name := name, hierarchy := p.hierarchy + 1, index := s.idxCounter + 1, children := [] }) := by
      intro i n hn
      rw [List.getElem?_mapIdx] at hn
      by_cases hi : i < s.nodes.length
      · rw [List.getElem?_append_left hi] at hn
        obtain ⟨n0, hn0⟩ : ∃ n0, s.nodes[i]? = some n0 := ⟨s.nodes[i], by simp [hi]⟩
        rw [hn0] at hn
        simp only [Option.map_some, Option.some.injEq] at hn
        by_cases hip : i = pid
        · subst hip
          rw [hpn] at hn0
          simp only [Option.some.injEq] at hn0
          subst hn0
          simp only [beq_self_eq_true, if_true] at hn
          exact Or.inr (Or.inl ⟨rfl, hn.symm⟩)
        · have : (i == pid) = false := by simpa using hip
          simp only [this, Bool.false_eq_true, if_false] at hn
          subst hn
          exact Or.inl ⟨hi, hip, hn0⟩
      · have hi' : i = s.nodes.length := by
          cases hx : (s.nodes ++ [({ name := name, hierarchy := p.hierarchy + 1, index := s.idxCounter + 1, children := [] } : PNode)])[i]? with
          | none => rw [hx] at hn; simp at hn
          | some y =>
            have := List.getElem?_eq_some_iff.mp hx
            obtain ⟨hlt, _⟩ := this
            simp at hlt; omega
        subst hi'
        simp only [List.getElem?_append_right (Nat.le_refl _), Nat.sub_self, List.getElem?_cons_zero, Option.map_some,
          Option.some.injEq] at hn
        have : (s.nodes.length == pid) = false := by
          simp only [beq_eq_false_iff_ne, ne_eq]; omega
        simp only [this, Bool.false_eq_true, if_false] at hn
        exact Or.inr (Or.inr ⟨rfl, hn.symm⟩)
    constructor
    · simp [hal]
    · simp [hidx]
    · intro i n hn
      rcases hnodes i n hn with ⟨hi, hip, hn0⟩ | ⟨rfl, rfl⟩ | ⟨rfl, rfl⟩
      · rw [hother (i + 1) (by rw [hal]; omega) (by omega)]
        exact hcells i n hn0
      · rw [hpar.1, hpar.2.1, hpar.2.2.1, hpar.2.2.2, hpc.1, hpc.2.1, hpc.2.2.1, hpc.2.2.2, hal]
        simp
      · rw [← hal, hnew.1, hnew.2.1, hnew.2.2.1, hnew.2.2.2, hpc.2.1, hidx]
        simp
    · intro i n hn c hc
      simp only [List.length_mapIdx, List.length_append, List.length_cons, List.length_nil]
      rcases hnodes i n hn with ⟨hi, hip, hn0⟩ | ⟨rfl, rfl⟩ | ⟨rfl, rfl⟩
      · have := hclosed i n hn0 c hc; omega
      · simp only [List.mem_append, List.mem_singleton] at hc
        rcases hc with hc | hc
        · have := hclosed i p hpn c hc; omega
        · omega
      · simp at hc

end Gtree.SrcH
