import Gtree.Model.Path
import Gtree.Model.Grow
/-
  Lexical theory of path.Join / path.Clean on names that are single valid path elements:
  joining such names is just writing them with '/' in between.
-/
namespace Gtree

/-- a single valid path element, as a proposition -/
def Elem (n : Bytes) : Prop := n ≠ [] ∧ n ≠ [dot] ∧ n ≠ dotdot ∧ slash ∉ n

theorem elem_of_singleElem (n : Bytes) (h : singleElem n = true) : Elem n := by
  unfold singleElem at h
  simp only [Bool.and_eq_true, Bool.not_eq_eq_eq_not, Bool.not_true, bne_iff_ne, ne_eq,
    List.isEmpty_eq_false_iff, List.contains_eq_mem, decide_eq_false_iff_not] at h
  exact ⟨h.1.1.1, h.1.1.2, h.1.2, h.2⟩

theorem splitSlash_elem (n : Bytes) (h : slash ∉ n) : splitSlash n = [n] := by
  induction n with
  | nil => rfl
  | cons x xs ih =>
    have hx : (x == slash) = false := by
      have : x ≠ slash := fun e => h (by simp [e])
      simpa using this
    simp [splitSlash, ih (fun e => h (by simp [e])), hx]

theorem splitSlash_ne_nil (p : Bytes) : splitSlash p ≠ [] := by
  cases p with
  | nil => simp [splitSlash]
  | cons x xs =>
    simp only [splitSlash]
    cases splitSlash xs with
    | nil => simp
    | cons l ls => simp only; split <;> simp

theorem splitSlash_append (n rest : Bytes) (h : slash ∉ n) :
    splitSlash (n ++ slash :: rest) = n :: splitSlash rest := by
  induction n with
  | nil =>
    simp only [List.nil_append, splitSlash]
    cases hs : splitSlash rest with
    | nil => exact absurd hs (splitSlash_ne_nil rest)
    | cons l ls => simp
  | cons x xs ih =>
    have hx : (x == slash) = false := by
      have : x ≠ slash := fun e => h (by simp [e])
      simpa using this
    simp only [List.cons_append, splitSlash, ih (fun e => h (by simp [e])), hx, Bool.false_eq_true, if_false]

theorem splitSlash_joinSlash : ∀ (es : List Bytes), es ≠ [] → (∀ e ∈ es, slash ∉ e) → splitSlash (joinSlash es) = es
  | [], h, _ => absurd rfl h
  | [e], _, hs => by simpa [joinSlash] using splitSlash_elem e (hs e (by simp))
  | e :: e2 :: rest, _, hs => by
    simp only [joinSlash]
    rw [splitSlash_append e _ (hs e (by simp))]
    rw [splitSlash_joinSlash (e2 :: rest) (by simp) (fun x hx => hs x (by simp [hx]))]

theorem cleanElems_valid (rooted : Bool) : ∀ (es stack : List Bytes), (∀ e ∈ es, Elem e) →
    cleanElems rooted es stack = stack.reverse ++ es
  | [], stack, _ => by simp [cleanElems]
  | e :: es, stack, h => by
    obtain ⟨h1, h2, h3, _⟩ := h e (by simp)
    have he : e.isEmpty = false := by cases e <;> simp_all
    have hd : (e == [dot]) = false := by simpa using h2
    have hdd : (e == dotdot) = false := by simpa using h3
    simp only [cleanElems, he, hd, hdd, Bool.or_self, Bool.false_eq_true, if_false]
    rw [cleanElems_valid rooted es (e :: stack) (fun x hx => h x (by simp [hx]))]
    simp

theorem joinSlash_ne_nil : ∀ (es : List Bytes), es ≠ [] → (∀ e ∈ es, e ≠ []) → joinSlash es ≠ []
  | [], h, _ => absurd rfl h
  | [e], _, hs => by simpa [joinSlash] using hs e (by simp)
  | e :: e2 :: rest, _, hs => by
    have := hs e (by simp)
    simp only [joinSlash]
    cases e with
    | nil => exact absurd rfl this
    | cons x xs => simp

theorem joinSlash_head : ∀ (es : List Bytes), (∀ e ∈ es, Elem e) → es ≠ [] → (joinSlash es).head? ≠ some slash
  | [], _, h => absurd rfl h
  | e :: rest, hs, _ => by
    obtain ⟨h1, _, _, h4⟩ := hs e (by simp)
    cases e with
    | nil => exact absurd rfl h1
    | cons x xs =>
      have hx : x ≠ slash := fun e' => h4 (by simp [e'])
      cases rest with
      | nil => simpa [joinSlash] using hx
      | cons e2 r => simpa [joinSlash] using hx

/-- `path.Clean` is the identity on valid elements joined with '/' -/
theorem pathClean_joinSlash (es : List Bytes) (hne : es ≠ []) (hs : ∀ e ∈ es, Elem e) :
    pathClean (joinSlash es) = joinSlash es := by
  have hjn : joinSlash es ≠ [] := joinSlash_ne_nil es hne (fun e he => (hs e he).1)
  have hhead := joinSlash_head es hs hne
  unfold pathClean
  have h1 : (joinSlash es).isEmpty = false := by cases h : joinSlash es <;> simp_all
  have h2 : ((joinSlash es).head? == some slash) = false := by simpa using hhead
  simp only [h1, Bool.false_eq_true, if_false, h2]
  rw [splitSlash_joinSlash es hne (fun e he => (hs e he).2.2.2)]
  rw [cleanElems_valid false es [] hs]
  simp [h1]

/-- `path.Join` of valid elements -/
theorem pathJoin_elems (es : List Bytes) (hne : es ≠ []) (hs : ∀ e ∈ es, Elem e) :
    pathJoin es = joinSlash es := by
  unfold pathJoin
  have hf : es.filter (fun e => !e.isEmpty) = es := by
    apply List.filter_eq_self.mpr
    intro e he
    have := (hs e he).1
    cases e <;> simp_all
  rw [hf]
  have : es.isEmpty = false := by cases es <;> simp_all
  simp only [this, Bool.false_eq_true, if_false]
  exact pathClean_joinSlash es hne hs

/-- joining one more leading element with an already joined valid path -/
theorem pathJoin_cons (a : Bytes) (es : List Bytes) (ha : Elem a) (hne : es ≠ []) (hs : ∀ e ∈ es, Elem e) :
    pathJoin [a, joinSlash es] = joinSlash (a :: es) := by
  unfold pathJoin
  have hj : joinSlash es ≠ [] := joinSlash_ne_nil es hne (fun e he => (hs e he).1)
  have h1 : a.isEmpty = false := by have := ha.1; cases a <;> simp_all
  have h2 : (joinSlash es).isEmpty = false := by cases h : joinSlash es <;> simp_all
  simp only [List.filter_cons, h1, h2, Bool.not_false, if_true, List.filter_nil, List.isEmpty_cons, Bool.false_eq_true, if_false]
  have hjoin : joinSlash [a, joinSlash es] = joinSlash (a :: es) := by
    cases es with
    | nil => exact absurd rfl hne
    | cons e r => simp [joinSlash]
  rw [hjoin]
  exact pathClean_joinSlash (a :: es) (by simp) (by
    intro e he
    rcases List.mem_cons.mp he with rfl | he
    · exact ha
    · exact hs e he)

/-- the grower's path: the names from the root joined by '/' -/
theorem pathOf_valid (rootName name : Bytes) (anc : List Anc)
    (hr : Elem rootName) (hn : Elem name) (ha : ∀ a ∈ anc, Elem a.1) :
    pathOf rootName name anc = joinSlash (rootName :: (anc.reverse.map (·.1) ++ [name])) := by
  unfold pathOf
  have key : ∀ (anc : List Anc) (es : List Bytes), es ≠ [] → (∀ e ∈ es, Elem e) → (∀ a ∈ anc, Elem a.1) →
      anc.foldl (fun acc a => pathJoin [a.1, acc]) (joinSlash es) = joinSlash (anc.reverse.map (·.1) ++ es) := by
    intro anc
    induction anc with
    | nil => intro es _ _ _; simp
    | cons a rest ih =>
      intro es hne hs ha'
      simp only [List.foldl]
      rw [pathJoin_cons a.1 es (ha' a (by simp)) hne hs]
      rw [ih (a.1 :: es) (by simp) (by
        intro e he
        rcases List.mem_cons.mp he with rfl | he
        · exact ha' a (by simp)
        · exact hs e he) (fun x hx => ha' x (by simp [hx]))]
      simp
  have h0 : pathJoin [name] = joinSlash [name] := pathJoin_elems [name] (by simp) (by simpa using hn)
  rw [h0, key anc [name] (by simp) (by simpa using hn) ha]
  exact pathJoin_cons rootName _ hr (by simp) (by
    intro e he
    rcases List.mem_append.mp he with he | he
    · simp only [List.mem_map, List.mem_reverse] at he
      obtain ⟨a, ha1, rfl⟩ := he
      exact ha a ha1
    · simp only [List.mem_singleton] at he
      subst he; exact hn)

end Gtree

namespace Gtree

theorem joinSlash_append : ∀ (a b : List Bytes), a ≠ [] → b ≠ [] →
    joinSlash (a ++ b) = joinSlash a ++ slash :: joinSlash b
  | [], _, h, _ => absurd rfl h
  | [x], b, _, hb => by
    cases b with
    | nil => exact absurd rfl hb
    | cons y ys => simp [joinSlash]
  | x :: x2 :: xs, b, _, hb => by
    have ih := joinSlash_append (x2 :: xs) b (by simp) hb
    simp only [List.cons_append] at ih ⊢
    simp only [joinSlash, ih, List.append_assoc, List.cons_append]

/-- joining a clean relative target with a clean relative path is concatenation with one '/' -/
theorem filepathJoin_valid (ts es : List Bytes) (ht : ts ≠ []) (he : es ≠ [])
    (hts : ∀ e ∈ ts, Elem e) (hes : ∀ e ∈ es, Elem e) :
    filepathJoin [joinSlash ts, joinSlash es] = joinSlash ts ++ slash :: joinSlash es := by
  unfold filepathJoin pathJoin
  have h1 : (joinSlash ts).isEmpty = false := by
    have := joinSlash_ne_nil ts ht (fun e h => (hts e h).1)
    cases h : joinSlash ts <;> simp_all
  have h2 : (joinSlash es).isEmpty = false := by
    have := joinSlash_ne_nil es he (fun e h => (hes e h).1)
    cases h : joinSlash es <;> simp_all
  simp only [List.filter_cons, h1, h2, Bool.not_false, if_true, List.filter_nil, List.isEmpty_cons, Bool.false_eq_true, if_false]
  have hj : joinSlash [joinSlash ts, joinSlash es] = joinSlash (ts ++ es) := by
    rw [joinSlash_append ts es ht he]; simp [joinSlash]
  rw [hj, pathClean_joinSlash (ts ++ es) (by simp [ht]) (by
    intro e h
    rcases List.mem_append.mp h with h | h
    · exact hts e h
    · exact hes e h)]
  exact joinSlash_append ts es ht he

end Gtree
