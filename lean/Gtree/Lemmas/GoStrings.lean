import Gtree.Go.Strings
/-
  On the arguments gtree gives them, the general `strings` functions of `Go/Strings.lean` are the
  byte-level helpers of `Model/Bytes.lean`.
-/
namespace Gtree.Go
open Gtree

theorem index_single (b : UInt8) : ∀ s : Bytes, strings_Index s [b] =
    match cut b s with | some (l, _) => some l.length | none => none
  | [] => by simp [strings_Index, cut]
  | x :: xs => by
    unfold strings_Index cut
    by_cases h : x == b
    · have : x = b := by simpa using h
      simp [this]
    · have hne : ¬ x = b := by simpa using h
      have hp : List.isPrefixOf [b] (x :: xs) = false := by
        simp [List.isPrefixOf]
        intro e; exact hne e.symm
      rw [hp, index_single b xs]
      simp only [h, Bool.false_eq_true, if_false]
      cases cut b xs with
      | none => rfl
      | some p => rfl

theorem cut_take_drop (b : UInt8) : ∀ (s l r : Bytes), cut b s = some (l, r) →
    s.take l.length = l ∧ s.drop (l.length + 1) = r
  | [], l, r, h => by simp [cut] at h
  | x :: xs, l, r, h => by
    unfold cut at h
    by_cases hx : x == b
    · simp only [hx, if_true, Option.some.injEq, Prod.mk.injEq] at h
      obtain ⟨rfl, rfl⟩ := h
      simp
    · simp only [hx, Bool.false_eq_true, if_false] at h
      cases hc : cut b xs with
      | none => simp [hc] at h
      | some p =>
        obtain ⟨l', r'⟩ := p
        simp only [hc, Option.some.injEq, Prod.mk.injEq] at h
        obtain ⟨rfl, rfl⟩ := h
        obtain ⟨h1, h2⟩ := cut_take_drop b xs l' r' hc
        simp [h1, h2]

/-- `strings.Cut` with a one-byte separator is the model's `cut` -/
theorem strings_Cut_single (b : UInt8) (s : Bytes) : strings_Cut s [b] =
    match cut b s with | some (l, r) => (l, r, true) | none => (s, [], false) := by
  unfold strings_Cut
  rw [index_single]
  cases hc : cut b s with
  | none => rfl
  | some p =>
    obtain ⟨l, r⟩ := p
    obtain ⟨h1, h2⟩ := cut_take_drop b s l r hc
    simp [h1, h2]

theorem strings_TrimLeft_single (b : UInt8) : ∀ s : Bytes, strings_TrimLeft s [b] = trimLeftB b s
  | [] => rfl
  | x :: xs => by
    unfold strings_TrimLeft trimLeftB
    by_cases h : x == b
    · have hx : x = b := by simpa using h
      simp [hx, strings_TrimLeft_single b xs]
    · have hne : ¬ x = b := by simpa using h
      simp [h, hne]

theorem strings_Trim_single (b : UInt8) (s : Bytes) : strings_Trim s [b] = trimB b s := by
  simp [strings_Trim, strings_TrimRight, trimB, trimRightB, strings_TrimLeft_single]

theorem strings_TrimPrefix_single (b : UInt8) : ∀ s : Bytes, strings_TrimPrefix s [b] = trimPrefixB b s
  | [] => by simp [strings_TrimPrefix, trimPrefixB, List.isPrefixOf]
  | x :: xs => by
    unfold strings_TrimPrefix trimPrefixB
    by_cases h : x == b
    · have hx : x = b := by simpa using h
      simp [hx, List.isPrefixOf]
    · have hne : ¬ x = b := by simpa using h
      have : ¬ b = x := fun e => hne e.symm
      simp [h, List.isPrefixOf, this]

theorem strings_HasPrefix_single (b : UInt8) (s : Bytes) : strings_HasPrefix s [b] = (s.head? == some b) := by
  cases s with
  | nil => simp [strings_HasPrefix, List.isPrefixOf]
  | cons x xs =>
    simp [strings_HasPrefix, List.isPrefixOf]
    exact Bool.beq_comm

theorem trimLeftSpaceFuel_nil_iff : ∀ (fuel : Nat) (s : Bytes), s.length ≤ fuel →
    ((trimLeftSpaceFuel fuel s).length = 0 ↔ isBlankFuel fuel s = true)
  | 0, s, h => by
    have : s = [] := by cases s with | nil => rfl | cons _ _ => simp at h
    subst this; simp [trimLeftSpaceFuel, isBlankFuel]
  | fuel + 1, [], _ => by simp [trimLeftSpaceFuel, isBlankFuel, spaceRuneLen]
  | fuel + 1, x :: xs, h => by
    unfold trimLeftSpaceFuel isBlankFuel
    by_cases hk : spaceRuneLen (x :: xs) = 0
    · simp [hk]
    · have hk' : (spaceRuneLen (x :: xs) == 0) = false := by simpa using hk
      simp only [hk', Bool.false_eq_true, if_false]
      apply trimLeftSpaceFuel_nil_iff fuel
      simp only [List.length_drop, List.length_cons] at h ⊢
      omega

theorem spaceRuneLen_append (p t : Bytes) (h : spaceRuneLen p ≠ 0) : spaceRuneLen (p ++ t) ≠ 0 := by
  unfold spaceRuneLen at h
  split at h <;> first | (exact absurd rfl h) | skip
  all_goals simp_all [spaceRuneLen]

theorem spaceRuneLen_take (s : Bytes) (n : Nat) (h : spaceRuneLen s = 0) : spaceRuneLen (s.take n) = 0 := by
  apply Classical.byContradiction
  intro hne
  have := spaceRuneLen_append (s.take n) (s.drop n) hne
  rw [List.take_append_drop] at this
  exact this h

theorem trimRightSpaceFuel_ne_nil : ∀ (fuel : Nat) (s : Bytes), s ≠ [] → spaceRuneLen s = 0 →
    trimRightSpaceFuel fuel s ≠ []
  | 0, s, hs, _ => by simpa [trimRightSpaceFuel] using hs
  | fuel + 1, s, hs, h0 => by
    have step : ∀ k, endsWithSpaceRune s k = true →
        trimRightSpaceFuel fuel (s.take (s.length - k)) ≠ [] := by
      intro k hk
      simp only [endsWithSpaceRune, Bool.and_eq_true, decide_eq_true_eq, beq_iff_eq, bne_iff_ne] at hk
      obtain ⟨⟨hle, hr⟩, hk0⟩ := hk
      apply trimRightSpaceFuel_ne_nil fuel _ _ (spaceRuneLen_take s _ h0)
      intro he
      have hlen : (s.take (s.length - k)).length = 0 := by rw [he]; rfl
      simp only [List.length_take] at hlen
      have hkl : k = s.length := by omega
      rw [hkl] at hr
      simp only [Nat.sub_self, List.drop_zero] at hr
      have : s.length ≠ 0 := by
        intro e; exact hs (List.eq_nil_of_length_eq_zero e)
      omega
    unfold trimRightSpaceFuel
    split
    · exact step 1 (by assumption)
    · split
      · exact step 2 (by assumption)
      · split
        · exact step 3 (by assumption)
        · exact hs

theorem trimLeftSpaceFuel_stops : ∀ (fuel : Nat) (s : Bytes), s.length ≤ fuel →
    trimLeftSpaceFuel fuel s = [] ∨ spaceRuneLen (trimLeftSpaceFuel fuel s) = 0
  | 0, s, h => by
    have : s = [] := by cases s with | nil => rfl | cons _ _ => simp at h
    subst this; simp [trimLeftSpaceFuel]
  | fuel + 1, [], _ => by simp [trimLeftSpaceFuel, spaceRuneLen]
  | fuel + 1, x :: xs, h => by
    unfold trimLeftSpaceFuel
    by_cases hk : spaceRuneLen (x :: xs) = 0
    · simp [hk]
    · have hk' : (spaceRuneLen (x :: xs) == 0) = false := by simpa using hk
      simp only [hk', Bool.false_eq_true, if_false]
      apply trimLeftSpaceFuel_stops fuel
      simp only [List.length_drop, List.length_cons] at h ⊢
      omega

/-- `len(strings.TrimSpace(row)) == 0` is the model's `isBlank` -/
theorem len_TrimSpace_eq_zero (s : Bytes) : (len (strings_TrimSpace s) == 0) = isBlank s := by
  have hiff := trimLeftSpaceFuel_nil_iff s.length s (Nat.le_refl _)
  unfold strings_TrimSpace len isBlank
  simp only
  rcases trimLeftSpaceFuel_stops s.length s (Nat.le_refl _) with h | h
  · have : trimLeftSpace s = [] := h
    rw [this]
    have h1 : isBlankFuel s.length s = true := hiff.mp (by rw [h]; rfl)
    simp [trimRightSpaceFuel, h1]
  · by_cases he : trimLeftSpace s = []
    · rw [he]
      have h1 : isBlankFuel s.length s = true := hiff.mp (by
        have : trimLeftSpaceFuel s.length s = [] := he
        rw [this]; rfl)
      simp [trimRightSpaceFuel, h1]
    · have hne := trimRightSpaceFuel_ne_nil (trimLeftSpace s).length (trimLeftSpace s) he h
      have h1 : isBlankFuel s.length s = false := by
        cases hb : isBlankFuel s.length s with
        | false => rfl
        | true =>
          have := hiff.mpr hb
          exact absurd (List.eq_nil_of_length_eq_zero this) he
      rw [h1]
      have : (trimRightSpaceFuel (trimLeftSpace s).length (trimLeftSpace s)).length ≠ 0 := by
        intro e; exact hne (List.eq_nil_of_length_eq_zero e)
      simp only [beq_eq_false_iff_ne, ne_eq]
      intro e
      apply this
      have := Int.ofNat_inj.mp e
      simpa using this


theorem runeLen_pos (c : UInt8) (rest : Bytes) : 1 ≤ runeLen (c :: rest) := by
  unfold runeLen
  simp only
  repeat' split
  all_goals omega

theorem runeLen_ascii (c : UInt8) (rest : Bytes) (h : c < 0x80) : runeLen (c :: rest) = 1 := by
  unfold runeLen
  simp [h]

/-- the first element of `strings.Split(before, "")` -/
theorem idx_Split_first (c : UInt8) (rest : Bytes) :
    idx (strings_Split (c :: rest) []) 0 = (c :: rest).take (runeLen (c :: rest)) := by
  simp [idx, strings_Split, explodeFuel]

/-- it is the one-character string `x` (an ASCII character) exactly when the string starts with `x` -/
theorem first_char_eq (c x : UInt8) (rest : Bytes) (hx : x < 0x80) :
    (idx (strings_Split (c :: rest) []) 0 == [x]) = (c == x) := by
  rw [idx_Split_first]
  have hpos := runeLen_pos c rest
  by_cases h : c = x
  · subst h
    rw [runeLen_ascii c rest hx]
    simp
  · have : (c == x) = false := by simpa using h
    rw [this]
    obtain ⟨k, hk⟩ : ∃ k, runeLen (c :: rest) = k + 1 := ⟨runeLen (c :: rest) - 1, by omega⟩
    rw [hk]
    simp [List.take_succ_cons, h]

theorem first_char_of_eq (c x : UInt8) (rest : Bytes) (hx : x < 0x80) (h : c = x) :
    idx (strings_Split (c :: rest) []) 0 = [x] := by
  have := first_char_eq c x rest hx
  rw [h] at this ⊢
  simpa using this

theorem cut_eq_append (b : UInt8) : ∀ (s l r : Bytes), cut b s = some (l, r) → s = l ++ b :: r
  | [], l, r, h => by simp [cut] at h
  | x :: xs, l, r, h => by
    unfold cut at h
    by_cases hx : x == b
    · simp only [hx, if_true, Option.some.injEq, Prod.mk.injEq] at h
      obtain ⟨rfl, rfl⟩ := h
      have : x = b := by simpa using hx
      simp [this]
    · simp only [hx, Bool.false_eq_true, if_false] at h
      cases hc : cut b xs with
      | none => simp [hc] at h
      | some p =>
        obtain ⟨l', r'⟩ := p
        simp only [hc, Option.some.injEq, Prod.mk.injEq] at h
        obtain ⟨rfl, rfl⟩ := h
        simp [cut_eq_append b xs l' r' hc]

theorem countFuel_single (b : UInt8) : ∀ (fuel : Nat) (s : Bytes), s.length ≤ fuel →
    countFuel fuel s [b] = countB b s
  | 0, s, h => by
    have : s = [] := by cases s with | nil => rfl | cons _ _ => simp at h
    subst this; simp [countFuel, countB]
  | fuel + 1, [], _ => by simp [countFuel, strings_Index, countB]
  | fuel + 1, x :: xs, h => by
    unfold countFuel
    rw [index_single]
    unfold cut countB
    by_cases hx : x == b
    · simp only [hx, if_true, List.length_nil, List.length_cons, Nat.zero_add, List.drop_succ_cons, List.drop_zero]
      rw [countFuel_single b fuel xs (by simpa using h)]
    · simp only [hx, Bool.false_eq_true, if_false, Nat.zero_add]
      cases hc : cut b xs with
      | none =>
        simp only
        have h2 := countFuel_single b fuel xs (by simpa using h)
        cases fuel with
        | zero =>
          have : xs = [] := by cases xs with | nil => rfl | cons _ _ => simp at h
          subst this; simp [countB]
        | succ f =>
          unfold countFuel at h2
          rw [index_single, hc] at h2
          exact h2
      | some p =>
        obtain ⟨l, r⟩ := p
        simp only [List.length_cons, List.length_nil, Nat.zero_add]
        have h2 := countFuel_single b fuel xs (by simpa using h)
        obtain ⟨ht, hd⟩ := cut_take_drop b xs l r hc
        cases fuel with
        | zero =>
          have : xs = [] := by cases xs with | nil => rfl | cons _ _ => simp at h
          subst this; simp [cut] at hc
        | succ f =>
          rw [← h2]
          conv => rhs; unfold countFuel
          rw [index_single, hc]
          simp only [List.length_cons, List.length_nil, Nat.zero_add]
          have e1 : List.drop (l.length + 1 + 1) (x :: xs) = List.drop (l.length + 1) xs := by
            simp [List.drop_succ_cons]
          rw [e1, hd]
          -- fuel f+1 vs f on the remainder `r`: both count all of it
          have hr : r.length ≤ f := by
            have := congrArg List.length (cut_eq_append b xs l r hc)
            simp only [List.length_append, List.length_cons] at this h
            omega
          rw [countFuel_single b (f + 1) r (by omega), countFuel_single b f r hr]

/-- `strings.Count` with a one-byte needle is the model's `countB` -/
theorem strings_Count_single (b : UInt8) (s : Bytes) : strings_Count s [b] = Int.ofNat (countB b s) := by
  simp [strings_Count, countFuel_single b s.length s (Nat.le_refl _)]

end Gtree.Go
