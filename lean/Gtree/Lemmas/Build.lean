import Gtree.Model.Generate
import Gtree.Spec.Merge
import Gtree.Spec.Spelling
/-
  The zipper builder (`dfs` on the stack of open nodes) fed with the pre-order items of a forest
  builds exactly the merged forest of the specification (`absorbAll`).
-/
namespace Gtree

/-- feed items to the builder -/
def feed : Zipper → List (Nat × Bytes) → Option Zipper
  | z, [] => some z
  | z, (h, x) :: its => match dfs h x z with
    | none => none
    | some z' => feed z' its

theorem feed_append (z : Zipper) (a b : List (Nat × Bytes)) :
    feed z (a ++ b) = (feed z a).bind (fun z' => feed z' b) := by
  induction a generalizing z with
  | nil => simp [feed]
  | cons it a ih =>
    obtain ⟨h, x⟩ := it
    simp only [List.cons_append, feed]
    cases dfs h x z with
    | none => simp
    | some z' => simp [ih]

/-- the deepest open node has no children to the right of an open child -/
def TopClosed : Zipper → Prop
  | [] => True
  | f :: _ => f.right = []

theorem upOne_length (z : Zipper) : (upOne z).length = if 2 ≤ z.length then z.length - 1 else z.length := by
  match z with
  | [] => simp [upOne]
  | [f] => simp [upOne]
  | f :: p :: rest => simp [upOne]

theorem topClosed_upOne (z : Zipper) (h : TopClosed z) : TopClosed (upOne z) := by
  match z with
  | [] => simpa [upOne] using h
  | [f] => simpa [upOne] using h
  | f :: p :: rest => simp [upOne, TopClosed]

theorem upN_add (a b : Nat) (z : Zipper) : upN a (upN b z) = upN (a + b) z := by
  induction b generalizing z with
  | zero => simp [upN]
  | succ b ih => rw [show a + (b + 1) = (a + b) + 1 by omega]; simp only [upN, ih]

theorem upN_length (k : Nat) (z : Zipper) (h : k + 1 ≤ z.length) : (upN k z).length = z.length - k := by
  induction k generalizing z with
  | zero => simp [upN]
  | succ k ih =>
    have h2 : 2 ≤ z.length := by omega
    have hl : (upOne z).length = z.length - 1 := by rw [upOne_length]; simp [h2]
    rw [upN, ih (upOne z) (by omega), hl]; omega

theorem topClosed_upN (k : Nat) (z : Zipper) (h : TopClosed z) : TopClosed (upN k z) := by
  induction k generalizing z with
  | zero => simpa [upN] using h
  | succ k ih => exact ih _ (topClosed_upOne z h)

theorem closeTo_length (n : Nat) (z : Zipper) (h1 : 1 ≤ n) (h2 : n ≤ z.length) : (closeTo n z).length = n := by
  unfold closeTo
  rw [upN_length _ _ (by omega)]; omega

theorem closeTo_self (n : Nat) (z : Zipper) (h : z.length ≤ n) : closeTo n z = z := by
  unfold closeTo
  have : z.length - n = 0 := by omega
  rw [this]; rfl

theorem topClosed_closeTo (n : Nat) (z : Zipper) (h : TopClosed z) : TopClosed (closeTo n z) :=
  topClosed_upN _ _ h

theorem closeTo_closeTo (n m : Nat) (z : Zipper) (h1 : 1 ≤ n) (h2 : n ≤ m) :
    closeTo n (closeTo m z) = closeTo n z := by
  by_cases hz : z.length ≤ m
  · rw [closeTo_self m z hz]
  · have hm : (closeTo m z).length = m := closeTo_length m z (by omega) (by omega)
    unfold closeTo at hm ⊢
    rw [hm, upN_add]
    congr 1; omega

theorem closeTo_pred (n : Nat) (z : Zipper) (h : z.length = n + 1) : closeTo n z = upOne z := by
  unfold closeTo
  have : z.length - n = 1 := by omega
  rw [this]; rfl


/-- `splitAtName` (the builder's `findChildByText`) and `updateFirst` (the spec's) find the same sibling -/
theorem updateFirst_of_split (x : Bytes) (g : T → T) :
    ∀ (kids : List T), (match splitAtName x kids with
      | some (l, c, r) => updateFirst x g kids = some (l ++ g c :: r)
      | none => updateFirst x g kids = none)
  | [] => by simp [splitAtName, updateFirst]
  | t :: ts => by
    have ih := updateFirst_of_split x g ts
    by_cases h : t.name == x
    · simp [splitAtName, updateFirst, h]
    · simp only [splitAtName, updateFirst, h, Bool.false_eq_true, if_false]
      cases hs : splitAtName x ts with
      | none => simp only [hs] at ih; simp [ih]
      | some p =>
        obtain ⟨l, c, r⟩ := p
        simp only [hs] at ih
        simp [ih]

/-- merge `ks` into the deepest open node -/
def absorbTop (ks : List T) : Zipper → Zipper
  | [] => []
  | f :: rest => { name := f.name, left := absorbAll f.left ks, right := [] } :: rest

theorem absorbAll_nil (acc : List T) : absorbAll acc [] = acc := by
  rw [absorbAll]

theorem absorbAll_cons (acc : List T) (t : T) (ts : List T) :
    absorbAll acc (t :: ts) = absorbAll (absorb acc t) ts := by
  rw [absorbAll]

theorem absorb_some (acc acc' : List T) (n : Bytes) (ks : List T)
    (h : updateFirst n (fun c => .mk c.name (absorbAll c.kids ks)) acc = some acc') :
    absorb acc (.mk n ks) = acc' := by
  simp only [absorb, h]

theorem absorb_none (acc : List T) (n : Bytes) (ks : List T)
    (h : updateFirst n (fun c => .mk c.name (absorbAll c.kids ks)) acc = none) :
    absorb acc (.mk n ks) = acc ++ [.mk n (absorbAll [] ks)] := by
  simp only [absorb, h]

/-- descending into `n` under the deepest node `f`, absorbing `sub` there and coming back up
    is absorbing the tree `mk n sub` into `f`'s children -/
theorem up_absorb_descend (n : Bytes) (sub : List T) (f : Frame) (rest : Zipper) (hf : f.right = []) :
    upOne (absorbTop sub (descend n (f :: rest))) =
      { name := f.name, left := absorb f.left (.mk n sub), right := [] } :: rest := by
  have hsp := updateFirst_of_split n (fun c => T.mk c.name (absorbAll c.kids sub)) f.left
  simp only [descend, hf, List.append_nil]
  cases hs : splitAtName n f.left with
  | none =>
    simp only [hs] at hsp
    rw [absorb_none _ _ _ hsp]
    simp [absorbTop, upOne, Frame.close]
  | some p =>
    obtain ⟨l, c, r⟩ := p
    simp only [hs] at hsp
    rw [absorb_some _ _ _ _ hsp]
    simp [absorbTop, upOne, Frame.close]

theorem descend_length (n : Bytes) (f : Frame) (rest : Zipper) : (descend n (f :: rest)).length = rest.length + 2 := by
  simp only [descend]
  cases splitAtName n (f.left ++ f.right) with
  | none => simp
  | some p => obtain ⟨l, c, r⟩ := p; simp

theorem topClosed_descend (n : Bytes) (z : Zipper) : TopClosed (descend n z) := by
  match z with
  | [] => simp [descend, TopClosed]
  | f :: rest =>
    simp only [descend]
    cases splitAtName n (f.left ++ f.right) with
    | none => simp [TopClosed]
    | some p => obtain ⟨l, c, r⟩ := p; simp [TopClosed]

theorem absorbTop_length (ks : List T) (z : Zipper) : (absorbTop ks z).length = z.length := by
  cases z <;> simp [absorbTop]

/-- Feeding the pre-order items of the sibling list `ks` (hierarchy `d + 1`) to a builder whose open
    path reaches at least hierarchy `d` merges `ks` into the open node at hierarchy `d`. -/
theorem feed_items : ∀ (ks : List T) (z : Zipper) (d : Nat), 1 ≤ d → d ≤ z.length → TopClosed z →
    ∃ z', feed z (items (d + 1) ks) = some z' ∧ TopClosed z' ∧ d ≤ z'.length ∧
          closeTo d z' = absorbTop ks (closeTo d z)
  | [], z, d, h1, h2, htc => by
    refine ⟨z, by simp [items, feed], htc, h2, ?_⟩
    have hlen := closeTo_length d z h1 h2
    have htc' := topClosed_closeTo d z htc
    cases hP : closeTo d z with
    | nil => simp [absorbTop]
    | cons f rest =>
      rw [hP] at htc'
      simp only [TopClosed] at htc'
      cases f with
      | mk name left right =>
        simp only at htc'
        simp [absorbTop, absorbAll_nil, htc']
  | T.mk n sub :: ts, z, d, h1, h2, htc => by
    have hlen := closeTo_length d z h1 h2
    have htcP := topClosed_closeTo d z htc
    cases hP : closeTo d z with
    | nil => rw [hP] at hlen; simp at hlen; omega
    | cons f rest =>
      rw [hP] at hlen htcP
      simp only [TopClosed] at htcP
      -- the first item re-opens / creates `n` under `f`
      have hdfs : dfs (d + 1) n z = some (descend n (f :: rest)) := by
        unfold dfs
        have : ¬ (d + 1 < 2) := by omega
        have h3 : ¬ (z.length < d) := by omega
        simp only [this, h3, if_false, Nat.add_sub_cancel, hP]
      let z1 := descend n (f :: rest)
      have hz1len : z1.length = d + 1 := by
        have := descend_length n f rest
        simp only [List.length_cons] at hlen
        show (descend n (f :: rest)).length = d + 1
        omega
      have hz1tc : TopClosed z1 := topClosed_descend n (f :: rest)
      obtain ⟨z2, hf2, htc2, hl2, hc2⟩ := feed_items sub z1 (d + 1) (by omega) (by omega) hz1tc
      obtain ⟨z3, hf3, htc3, hl3, hc3⟩ := feed_items ts z2 d h1 (by omega) htc2
      refine ⟨z3, ?_, htc3, hl3, ?_⟩
      · simp only [items]
        rw [feed_append]
        simp only [feed, hdfs]
        show (feed z1 (items (d + 1 + 1) sub)).bind (fun z' => feed z' (items (d + 1) ts)) = some z3
        rw [hf2]; simpa using hf3
      · rw [hc3]
        have e1 : closeTo d z2 = closeTo d (closeTo (d + 1) z2) := (closeTo_closeTo d (d + 1) z2 h1 (by omega)).symm
        rw [e1, hc2, closeTo_self (d + 1) z1 (by omega)]
        rw [closeTo_pred d (absorbTop sub z1) (by rw [absorbTop_length]; exact hz1len)]
        show absorbTop ts (upOne (absorbTop sub (descend n (f :: rest)))) = _
        rw [up_absorb_descend n sub f rest htcP]
        simp [absorbTop, absorbAll_cons]
termination_by ks => sizeOf ks


/-- the generator's fold over already parsed items (the row is only used in error messages) -/
def addItems (s : GState) : List (Nat × Bytes) → Except GErr GState
  | [] => .ok s
  | (h, x) :: rest => match addItem s h x [] with
    | .error e => .error e
    | .ok s' => addItems s' rest

theorem addItems_append (s : GState) (a b : List (Nat × Bytes)) :
    addItems s (a ++ b) = (match addItems s a with | .error e => .error e | .ok s' => addItems s' b) := by
  induction a generalizing s with
  | nil => simp [addItems]
  | cons it a ih =>
    obtain ⟨h, x⟩ := it
    simp only [List.cons_append, addItems]
    cases addItem s h x [] with
    | error e => simp
    | ok s' => simp [ih]

theorem items_ge (d : Nat) : ∀ (ks : List T) (it : Nat × Bytes), it ∈ items d ks → d ≤ it.1
  | [], it, h => by simp [items] at h
  | T.mk n sub :: rest, it, h => by
    simp only [items, List.mem_append, List.mem_cons] at h
    rcases h with (h | h) | h
    · subst h; simp
    · have := items_ge (d + 1) sub it h; omega
    · exact items_ge d rest it h
termination_by ks => sizeOf ks

/-- below a root, `addItem` is `dfs` on the open path -/
theorem addItems_feed (s : GState) (z z' : Zipper) (its : List (Nat × Bytes))
    (hcur : s.cur = some z) (hge : ∀ it ∈ its, 2 ≤ it.1) (hfeed : feed z its = some z') :
    addItems s its = .ok { s with cur := some z' } := by
  induction its generalizing s z with
  | nil =>
    simp only [feed, Option.some.injEq] at hfeed
    subst hfeed
    cases s; simp_all [addItems]
  | cons it its ih =>
    obtain ⟨h, x⟩ := it
    have h2 : 2 ≤ h := hge (h, x) (by simp)
    simp only [feed] at hfeed
    cases hd : dfs h x z with
    | none => simp [hd] at hfeed
    | some z1 =>
      simp only [hd] at hfeed
      have hne : (h == 1) = false := by simp; omega
      simp only [addItems, addItem, hne, hcur, hd, Bool.false_eq_true, if_false]
      have := ih { s with cur := some z1 } z1 rfl (fun it hit => hge it (by simp [hit])) hfeed
      simpa using this

theorem closeAll_of_closeTo (z : Zipper) (f : Frame) (h : closeTo 1 z = [f]) : closeAll z = some f.close := by
  simp [closeAll, h]

/-- Feeding the pre-order items of a whole forest (roots have hierarchy 1) to the generator leaves
    exactly the merged roots, in input order. -/
theorem addItems_forest : ∀ (f : List T) (s : GState),
    ∃ s', addItems s (items 1 f) = .ok s' ∧ s'.finishCur = s.finishCur ++ f.map mergeRoot ∧ s'.p = s.p
  | [], s => ⟨s, by simp [items, addItems], by simp, rfl⟩
  | T.mk r ks :: rest, s => by
    let s1 : GState := { s with done := s.finishCur, cur := some [{ name := r, left := [], right := [] }] }
    have hroot : addItem s 1 r [] = .ok s1 := by simp [addItem, s1]
    obtain ⟨z', hfeed, _, _, hclose⟩ := feed_items ks [{ name := r, left := [], right := [] }] 1 (by omega) (by simp) (by simp [TopClosed])
    have hc1 : closeTo 1 [({ name := r, left := [], right := [] } : Frame)] = [{ name := r, left := [], right := [] }] :=
      closeTo_self 1 _ (by simp)
    rw [hc1] at hclose
    simp only [absorbTop] at hclose
    have hkids : addItems s1 (items 2 ks) = .ok { s1 with cur := some z' } :=
      addItems_feed s1 _ z' (items 2 ks) rfl (fun it hit => items_ge 2 ks it hit) hfeed
    let s2 : GState := { s1 with cur := some z' }
    have hfin : s2.finishCur = s.finishCur ++ [mergeRoot (T.mk r ks)] := by
      simp [s2, s1, GState.finishCur, closeAll_of_closeTo z' _ hclose, Frame.close, mergeRoot, mergeKids]
    obtain ⟨s3, h3, hf3, hp3⟩ := addItems_forest rest s2
    refine ⟨s3, ?_, ?_, ?_⟩
    · simp only [items]
      rw [addItems_append]
      simp only [addItems, hroot, hkids]
      exact h3
    · rw [hf3, hfin]; simp
    · rw [hp3]
termination_by f => sizeOf f

end Gtree
