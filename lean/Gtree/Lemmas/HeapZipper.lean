import Gtree.Lemmas.HeapBuilder
import Gtree.Lemmas.HeapRepr
import Gtree.Model.Generate
/-
  The step of the tree builder on the translated code (`stack.dfs`, `dfs_spec`) refines the step of the model's
  zipper (`Model/Generate.lean`: `dfs` = `closeTo` then `descend`): if heap and stack represent a zipper — every open
  node holds its frame's closed children to the left and right of its open child, all pointers different — then after
  `dfs` with a fresh node they represent the model's next zipper; `dfs` returns false exactly when the model's step
  is undefined.
-/
namespace Gtree.SrcH
open Gtree Gtree.Go

/-- the heap side of a frame: the open node and the pointers of its closed children left and right of the open child -/
structure HFrame where
  p : Ptr
  L : List Ptr
  R : List Ptr

def parentOf : List HFrame → Ptr
  | [] => 0
  | g :: _ => g.p

/-- heap and frames (deepest first) represent the zipper; `oc` is the open child of the first frame -/
def ZR (h : Heap) : Option Ptr → List HFrame → Zipper → Prop
  | _, [], [] => True
  | _, [], _ :: _ => False
  | _, _ :: _, [] => False
  | oc, fr :: hz, f :: z =>
      fr.p ≠ 0 ∧ (h fr.p).name = f.name ∧ (h fr.p).hierarchy = ((z.length + 1 : Nat) : Int) ∧
      (h fr.p).parent = parentOf hz ∧
      ReprKids h f.left fr.L fr.p (z.length + 2) ∧ ReprKids h f.right fr.R fr.p (z.length + 2) ∧
      (h fr.p).children = (match oc with | none => fr.L ++ fr.R | some c => fr.L ++ c :: fr.R) ∧
      ZR h (some fr.p) hz z

/-- all pointers of the representation -/
def zPtrs (h : Heap) : List HFrame → Zipper → List Ptr
  | [], _ => []
  | _ :: _, [] => []
  | fr :: hz, f :: z => fr.p :: (ptrsKids h f.left fr.L ++ ptrsKids h f.right fr.R) ++ zPtrs h hz z

/-! ### `Repr` reads the cells of the tree's own pointers only -/

mutual
theorem Repr_congr {h h' : Heap} : ∀ (t : T) (p par : Ptr) (lvl : Nat), (∀ q ∈ ptrs h t p, h' q = h q) →
    Repr h t p par lvl → Repr h' t p par lvl
  | .mk n ks, p, par, lvl, hq, hr => by
    have hp : h' p = h p := hq p (by rw [ptrs]; simp)
    rw [Repr] at hr ⊢
    obtain ⟨h0, hn, hl, hpp, hk⟩ := hr
    refine ⟨h0, by rw [hp]; exact hn, by rw [hp]; exact hl, by rw [hp]; exact hpp, ?_⟩
    rw [hp]
    exact ReprKids_congr ks _ p (lvl + 1) (fun q hq' => hq q (by rw [ptrs]; simp [hq'])) hk
theorem ReprKids_congr {h h' : Heap} : ∀ (ts : List T) (cs : List Ptr) (par : Ptr) (lvl : Nat),
    (∀ q ∈ ptrsKids h ts cs, h' q = h q) → ReprKids h ts cs par lvl → ReprKids h' ts cs par lvl
  | [], cs, par, lvl, _, hr => by rw [ReprKids] at hr ⊢; exact hr
  | t :: ts, cs, par, lvl, hq, hr => by
    rw [ReprKids] at hr ⊢
    obtain ⟨c, cs', rfl, h1, h2⟩ := hr
    exact ⟨c, cs', rfl,
      Repr_congr t c par lvl (fun q hq' => hq q (by rw [ptrsKids]; simp [hq'])) h1,
      ReprKids_congr ts cs' par lvl (fun q hq' => hq q (by rw [ptrsKids]; simp [hq'])) h2⟩
end

mutual
theorem ptrs_congr {h h' : Heap} : ∀ (t : T) (p : Ptr), (∀ q ∈ ptrs h t p, h' q = h q) → ptrs h' t p = ptrs h t p
  | .mk n ks, p, hq => by
    have hp : h' p = h p := hq p (by rw [ptrs]; simp)
    rw [ptrs, ptrs, hp, ptrsKids_congr ks _ (fun q hq' => hq q (by rw [ptrs]; simp [hq']))]
theorem ptrsKids_congr {h h' : Heap} : ∀ (ts : List T) (cs : List Ptr), (∀ q ∈ ptrsKids h ts cs, h' q = h q) →
    ptrsKids h' ts cs = ptrsKids h ts cs
  | [], cs, _ => by rw [ptrsKids, ptrsKids]
  | _ :: _, [], _ => by rw [ptrsKids, ptrsKids]
  | t :: ts, c :: cs, hq => by
    rw [ptrsKids, ptrsKids, ptrs_congr t c (fun q hq' => hq q (by rw [ptrsKids]; simp [hq'])),
      ptrsKids_congr ts cs (fun q hq' => hq q (by rw [ptrsKids]; simp [hq']))]
end

theorem ReprKids_append (h : Heap) (par : Ptr) (lvl : Nat) : ∀ (a b : List T) (A B : List Ptr),
    ReprKids h a A par lvl → ReprKids h b B par lvl → ReprKids h (a ++ b) (A ++ B) par lvl
  | [], b, A, B, ha, hb => by rw [ReprKids] at ha; subst ha; simpa using hb
  | t :: a, b, A, B, ha, hb => by
    rw [ReprKids] at ha
    obtain ⟨c, A', rfl, h1, h2⟩ := ha
    rw [List.cons_append, List.cons_append, ReprKids]
    exact ⟨c, A' ++ B, rfl, h1, ReprKids_append h par lvl a b A' B h2 hb⟩

theorem ptrsKids_append (h : Heap) : ∀ (a b : List T) (A B : List Ptr), A.length = a.length →
    ptrsKids h (a ++ b) (A ++ B) = ptrsKids h a A ++ ptrsKids h b B
  | [], b, A, B, hl => by
    have : A = [] := List.length_eq_zero_iff.mp (by simpa using hl)
    subst this; simp [ptrsKids]
  | t :: a, b, [], B, hl => by simp at hl
  | t :: a, b, c :: A, B, hl => by
    simp only [List.cons_append, ptrsKids, List.append_assoc]
    rw [ptrsKids_append h a b A B (by simpa using hl)]

theorem ZR_congr {h h' : Heap} : ∀ (hz : List HFrame) (z : Zipper) (oc : Option Ptr),
    (∀ q ∈ zPtrs h hz z, h' q = h q) → ZR h oc hz z → ZR h' oc hz z ∧ zPtrs h' hz z = zPtrs h hz z
  | [], [], oc, _, _ => ⟨trivial, rfl⟩
  | [], _ :: _, oc, _, hr => by simp [ZR] at hr
  | _ :: _, [], oc, _, hr => by simp [ZR] at hr
  | fr :: hz, f :: z, oc, hq, hr => by
    simp only [ZR] at hr ⊢
    obtain ⟨h0, hn, hl, hpp, hL, hR, hch, hrest⟩ := hr
    have hp : h' fr.p = h fr.p := hq fr.p (by rw [zPtrs]; simp)
    have hqL : ∀ q ∈ ptrsKids h f.left fr.L, h' q = h q := fun q hq' => hq q (by rw [zPtrs]; simp [hq'])
    have hqR : ∀ q ∈ ptrsKids h f.right fr.R, h' q = h q := fun q hq' => hq q (by rw [zPtrs]; simp [hq'])
    obtain ⟨ih1, ih2⟩ := ZR_congr hz z (some fr.p) (fun q hq' => hq q (by rw [zPtrs]; simp [hq'])) hrest
    refine ⟨⟨h0, by rw [hp]; exact hn, by rw [hp]; exact hl, by rw [hp]; exact hpp,
      ReprKids_congr _ _ _ _ hqL hL, ReprKids_congr _ _ _ _ hqR hR, by rw [hp]; exact hch, ih1⟩, ?_⟩
    rw [zPtrs, zPtrs, ptrsKids_congr _ _ hqL, ptrsKids_congr _ _ hqR, ih2]

/-! ### popping is closing -/

theorem ReprKids_len (h : Heap) : ∀ (ts : List T) (cs : List Ptr) (par : Ptr) (lvl : Nat),
    ReprKids h ts cs par lvl → cs.length = ts.length := readKids_length_eq h

/-- the top frame is always of the form `left, []` (after a root row, a pop or an attach) -/
def TopOk : List HFrame → Zipper → Prop
  | fr :: _, f :: _ => f.right = [] ∧ fr.R = []
  | _, _ => True

theorem perm_count {a b : List Ptr} (hc : ∀ x, a.count x = b.count x) : a.Perm b := List.perm_iff_count.mpr hc

theorem ZR_upOne (h : Heap) (fr gr : HFrame) (hz : List HFrame) (f g : Frame) (z : Zipper)
    (hfr : f.right = []) (hR : fr.R = []) (hr : ZR h none (fr :: gr :: hz) (f :: g :: z)) :
    ZR h none ({ p := gr.p, L := gr.L ++ fr.p :: gr.R, R := [] } :: hz) (upOne (f :: g :: z)) ∧
    (zPtrs h ({ p := gr.p, L := gr.L ++ fr.p :: gr.R, R := [] } :: hz) (upOne (f :: g :: z))).Perm
      (zPtrs h (fr :: gr :: hz) (f :: g :: z)) := by
  simp only [ZR] at hr
  obtain ⟨h0, hn, hl, hpp, hL, _, hch, g0, gn, gl, gpp, gL, gR, gch, hrest⟩ := hr
  simp only [hR, List.append_nil] at hch
  have hclose : Repr h f.close fr.p gr.p (z.length + 2) := by
    rw [Frame.close, Repr]
    refine ⟨h0, hn, by rw [hl]; simp; omega, by simpa [parentOf] using hpp, ?_⟩
    rw [hch, hfr, List.append_nil]
    exact hL
  have hkids : ReprKids h (g.left ++ f.close :: g.right) (gr.L ++ fr.p :: gr.R) gr.p (z.length + 2) := by
    apply ReprKids_append _ _ _ _ _ _ _ gL
    rw [ReprKids]
    exact ⟨fr.p, gr.R, rfl, hclose, gR⟩
  refine ⟨?_, ?_⟩
  · simp only [upOne, ZR]
    refine ⟨g0, gn, gl, gpp, hkids, by rw [ReprKids], ?_, hrest⟩
    simpa using gch
  · have hlenL := ReprKids_len h _ _ _ _ gL
    simp only [upOne, zPtrs]
    rw [ptrsKids_append h g.left (f.close :: g.right) gr.L (fr.p :: gr.R) hlenL]
    have : ptrsKids h (f.close :: g.right) (fr.p :: gr.R) = (fr.p :: ptrsKids h f.left fr.L) ++ ptrsKids h g.right gr.R := by
      rw [ptrsKids, Frame.close, ptrs, hch, hfr, List.append_nil]
    rw [this, hfr, hR]
    apply perm_count
    intro x
    simp only [List.count_append, List.count_cons, List.count_nil, ptrsKids]
    omega

theorem ZR_upN (h : Heap) : ∀ (d : Nat) (hz : List HFrame) (z : Zipper), TopOk hz z → ZR h none hz z → d < hz.length →
    ∃ hz', ZR h none hz' (upN d z) ∧ TopOk hz' (upN d z) ∧ hz'.map (·.p) = (hz.drop d).map (·.p) ∧
      (zPtrs h hz' (upN d z)).Perm (zPtrs h hz z) ∧ (upN d z).length = z.length - d ∧ hz'.length = hz.length - d
  | 0, hz, z, ht, hr, _ => ⟨hz, hr, ht, by simp, List.Perm.refl _, by simp [upN], by simp⟩
  | d + 1, [], z, _, _, hd => by simp at hd
  | d + 1, [fr], z, _, _, hd => by simp at hd
  | d + 1, fr :: gr :: hz, [], _, hr, _ => by simp [ZR] at hr
  | d + 1, fr :: gr :: hz, [f], _, hr, _ => by simp [ZR] at hr
  | d + 1, fr :: gr :: hz, f :: g :: z, ht, hr, hd => by
    obtain ⟨hfr, hR⟩ := ht
    obtain ⟨h1, hp1⟩ := ZR_upOne h fr gr hz f g z hfr hR hr
    have ht1 : TopOk ({ p := gr.p, L := gr.L ++ fr.p :: gr.R, R := [] } :: hz) (upOne (f :: g :: z)) := by
      simp [TopOk, upOne]
    obtain ⟨hz', hr', ht', hmap, hperm, hlen, hlen2⟩ := ZR_upN h d _ _ ht1 h1 (by simp at hd ⊢; omega)
    refine ⟨hz', by simpa [upN] using hr', by simpa [upN] using ht', ?_, ?_, ?_, ?_⟩
    · rw [hmap]; simp
    · exact (by simpa [upN] using hperm : (zPtrs h hz' (upN (d + 1) (f :: g :: z))).Perm _).trans hp1
    · simp only [upN]; rw [hlen]; simp [upOne]
    · rw [hlen2]; simp

/-- where `popTo` stops: the frame whose level is one less than the new node's -/
theorem popTo_levels (h : Heap) (k : Nat) : ∀ (hz : List HFrame) (z : Zipper) (oc : Option Ptr), ZR h oc hz z →
    popTo h (k : Int) (hz.map (·.p)) =
      (if 2 ≤ k ∧ k - 1 ≤ z.length then
        (match hz.drop (z.length - (k - 1)) with
         | [] => none
         | fr :: rest => some (fr.p, rest.map (·.p)))
       else none)
  | [], [], oc, _ => by simp [popTo]
  | [], _ :: _, oc, hr => by simp [ZR] at hr
  | _ :: _, [], oc, hr => by simp [ZR] at hr
  | fr :: hz, f :: z, oc, hr => by
    simp only [ZR] at hr
    obtain ⟨_, _, hl, _, _, _, _, hrest⟩ := hr
    have ih := popTo_levels h k hz z (some fr.p) hrest
    simp only [List.map_cons, popTo, hl, List.length_cons]
    by_cases hk : (k : Int) = ((z.length + 1 : Nat) : Int) + 1
    · have hk' : k = z.length + 2 := by omega
      subst hk'
      rw [if_pos hk]
      have : 2 ≤ z.length + 2 ∧ z.length + 2 - 1 ≤ z.length + 1 := ⟨by omega, by omega⟩
      rw [if_pos this]
      have : z.length + 1 - (z.length + 2 - 1) = 0 := by omega
      rw [this]
      rfl
    · rw [if_neg hk, ih]
      have hk' : k ≠ z.length + 2 := by omega
      by_cases h2 : 2 ≤ k ∧ k - 1 ≤ z.length
      · have h3 : 2 ≤ k ∧ k - 1 ≤ z.length + 1 := ⟨h2.1, by omega⟩
        rw [if_pos h2, if_pos h3]
        have : z.length + 1 - (k - 1) = (z.length - (k - 1)) + 1 := by omega
        rw [this, List.drop_succ_cons]
      · rw [if_neg h2]
        by_cases h3 : 2 ≤ k ∧ k - 1 ≤ z.length + 1
        · exfalso; omega
        · rw [if_neg h3]

/-! ### attaching is descending -/

theorem beq_bytes_comm (a b : Bytes) : (a == b) = (b == a) := by
  rw [Bool.eq_iff_iff, beq_iff_eq, beq_iff_eq]
  exact ⟨Eq.symm, Eq.symm⟩

theorem splitAtName_eq (x : Bytes) : ∀ (ts : List T) (l : List T) (t' : T) (r : List T),
    splitAtName x ts = some (l, t', r) → ts = l ++ t' :: r := by
  intro ts
  induction ts with
  | nil => intro l t' r hh; simp [splitAtName] at hh
  | cons t ts ih =>
    intro l t' r hh
    simp only [splitAtName] at hh
    by_cases hx : (t.name == x) = true
    · simp only [hx, if_true, Option.some.injEq, Prod.mk.injEq] at hh
      obtain ⟨rfl, rfl, rfl⟩ := hh; rfl
    · have hx1 : (t.name == x) = false := by simpa using hx
      simp only [hx1, Bool.false_eq_true, if_false] at hh
      cases hs' : splitAtName x ts with
      | none => simp [hs'] at hh
      | some tr' =>
        obtain ⟨l', c'', r'⟩ := tr'
        simp only [hs', Option.some.injEq, Prod.mk.injEq] at hh
        obtain ⟨rfl, rfl, rfl⟩ := hh
        rw [ih l' c'' r' hs']; rfl

theorem split_found (h : Heap) (x : Bytes) : ∀ (ts : List T) (cs : List Ptr) (par : Ptr) (lvl : Nat),
    ReprKids h ts cs par lvl →
    (match splitAtName x ts with
     | some (l, t', r) => ∃ Lc c' Rc, cs = Lc ++ c' :: Rc ∧ ReprKids h l Lc par lvl ∧ Repr h t' c' par lvl ∧
         ReprKids h r Rc par lvl ∧ childNamed h x cs = c' ∧ c' ≠ 0
     | none => childNamed h x cs = 0)
  | [], cs, par, lvl, hr => by
    rw [ReprKids] at hr; subst hr
    simp [splitAtName, childNamed]
  | .mk n ks :: ts, cs, par, lvl, hr => by
    rw [ReprKids] at hr
    obtain ⟨c, cs', rfl, hrc, hrs⟩ := hr
    have hname : (h c).name = n := by rw [Repr] at hrc; exact hrc.2.1
    have hc0 : c ≠ 0 := by rw [Repr] at hrc; exact hrc.1
    simp only [splitAtName, T.name, childNamed, hname]
    by_cases hx : (n == x) = true
    · have hx' : (x == n) = true := by rw [beq_bytes_comm]; exact hx
      simp only [hx, hx', if_true]
      exact ⟨[], c, cs', rfl, by rw [ReprKids], hrc, hrs, rfl, hc0⟩
    · have hx1 : (n == x) = false := by simpa using hx
      have hx' : (x == n) = false := by rw [beq_bytes_comm]; exact hx1
      simp only [hx1, hx', Bool.false_eq_true, if_false]
      have ih := split_found h x ts cs' par lvl hrs
      cases hs : splitAtName x ts with
      | none => simp only [hs] at ih ⊢; exact ih
      | some tr =>
        obtain ⟨l, t', r⟩ := tr
        simp only [hs] at ih ⊢
        obtain ⟨Lc, c', Rc, rfl, hl, ht, hr', hcn, hc'⟩ := ih
        refine ⟨c :: Lc, c', Rc, rfl, ?_, ht, hr', hcn, hc'⟩
        rw [ReprKids]
        exact ⟨c, Lc, rfl, hrc, hl⟩

theorem setParent_addChild_other (h : Heap) (p c q : Ptr) (hp : q ≠ p) (hc : q ≠ c) :
    (Node.setParent (Node.addChild h p c) c p) q = h q := by
  simp [Node.setParent, Node.addChild, Heap.set, hp, hc]

/-- `attach` on the top frame is the model's `descend` -/
theorem ZR_attach (h : Heap) (fr : HFrame) (hz : List HFrame) (f : Frame) (z : Zipper) (c : Ptr) (x : Bytes)
    (hfr : f.right = []) (hR : fr.R = []) (hr : ZR h none (fr :: hz) (f :: z))
    (hnd : (zPtrs h (fr :: hz) (f :: z)).Nodup)
    (hc0 : c ≠ 0) (hcf : c ∉ zPtrs h (fr :: hz) (f :: z)) (hcn : (h c).name = x)
    (hcl : (h c).hierarchy = ((z.length + 2 : Nat) : Int)) (hcc : (h c).children = []) :
    ∃ h' hz', attach h c fr.p (hz.map (·.p)) = (h', (hz'.map (·.p)).reverse, true) ∧
      ZR h' none hz' (descend x (f :: z)) ∧ TopOk hz' (descend x (f :: z)) ∧
      (zPtrs h' hz' (descend x (f :: z))).Nodup ∧
      (∀ q, q ∈ zPtrs h' hz' (descend x (f :: z)) → q ∈ zPtrs h (fr :: hz) (f :: z) ∨ q = c) ∧
      (∀ q, q ∉ zPtrs h (fr :: hz) (f :: z) → q ≠ c → h' q = h q) ∧
      (hz'.map (·.p)).getLast? = ((fr :: hz).map (·.p)).getLast? := by
  have hr0 := hr
  simp only [ZR] at hr
  obtain ⟨h0, hn, hl, hpp, hL, _, hch, hrest⟩ := hr
  simp only [hR, List.append_nil] at hch
  have hsplit := split_found h x f.left fr.L fr.p (z.length + 2) hL
  simp only [descend, hfr, List.append_nil]
  unfold attach
  rw [hcn, hch]
  cases hs : splitAtName x f.left with
  | some tr =>
    obtain ⟨l, t', r⟩ := tr
    simp only [hs] at hsplit ⊢
    obtain ⟨Lc, c', Rc, hcs, hl', ht', hr', hcn', hc'0⟩ := hsplit
    rw [hcn']
    have hne : (c' != 0) = true := by simpa using hc'0
    simp only [hne, if_true]
    cases t' with
    | mk n' ks' =>
      have ht0 := ht'
      rw [Repr] at ht'
      obtain ⟨_, tn, tl, tp, tk⟩ := ht'
      refine ⟨h, { p := c', L := (h c').children, R := [] } :: { p := fr.p, L := Lc, R := Rc } :: hz, ?_, ?_, ?_, ?_, ?_, ?_, by simp [List.getLast?_cons_cons]⟩
      · simp
      · simp only [ZR, T.name, T.kids, List.length_cons]
        refine ⟨hc'0, tn, by rw [tl], by simpa [parentOf] using tp, by simpa using tk, by rw [ReprKids], by simp,
          h0, hn, hl, hpp, hl', hr', by rw [hch, hcs], hrest⟩
      · simp [TopOk, T.kids]
      · -- the same pointers, rearranged
        have hlen := ReprKids_len h _ _ _ _ hl'
        have hperm : (zPtrs h ({ p := c', L := (h c').children, R := [] } :: { p := fr.p, L := Lc, R := Rc } :: hz)
            ({ name := n', left := ks', right := [] } :: { name := f.name, left := l, right := r } :: z)).Perm
            (zPtrs h (fr :: hz) (f :: z)) := by
          simp only [zPtrs, hfr, hR]
          have hsp : f.left = l ++ T.mk n' ks' :: r := splitAtName_eq x _ _ _ _ hs
          rw [hsp, hcs, ptrsKids_append h l (T.mk n' ks' :: r) Lc (c' :: Rc) hlen]
          apply perm_count
          intro y
          simp only [List.count_append, List.count_cons, List.count_nil, ptrsKids, ptrs]
          omega
        exact hperm.nodup_iff.mpr hnd
      · intro q hq
        left
        have hlen := ReprKids_len h _ _ _ _ hl'
        -- membership through the same rearrangement
        have hsp : f.left = l ++ T.mk n' ks' :: r := splitAtName_eq x _ _ _ _ hs
        simp only [zPtrs, hfr, hR, ptrsKids, List.append_nil, List.mem_cons, List.mem_append] at hq ⊢
        rw [hsp, hcs, ptrsKids_append h l (T.mk n' ks' :: r) Lc (c' :: Rc) hlen]
        simp only [ptrsKids, ptrs, List.mem_append, List.mem_cons]
        simpa [or_assoc, or_comm, or_left_comm] using hq
      · intro q _ _; rfl
  | none =>
    simp only [hs] at hsplit ⊢
    have hne : (childNamed h x fr.L != 0) = false := by rw [hsplit]; rfl
    simp only [hne, Bool.false_eq_true, if_false]
    -- the new node becomes the last child
    obtain ⟨h', hh'⟩ : ∃ h' : Heap, h' = Node.setParent (Node.addChild h fr.p c) c fr.p := ⟨_, rfl⟩
    rw [← hh']
    have hcp : c ≠ fr.p := by
      intro he; apply hcf; rw [he, zPtrs]; simp
    have hother : ∀ q, q ≠ fr.p → q ≠ c → h' q = h q := fun q h1 h2 => by
      rw [hh']; exact setParent_addChild_other h fr.p c q h1 h2
    have hpcell : h' fr.p = { (h fr.p) with children := fr.L ++ [c] } := by
      rw [hh']
      simp [Node.setParent, Node.addChild, Heap.set, Ne.symm hcp, hch]
    have hccell : h' c = { (h c) with parent := fr.p } := by
      rw [hh']
      simp [Node.setParent, Node.addChild, Heap.set, hcp]
    -- nothing else was touched
    have hndL : fr.p ∉ ptrsKids h f.left fr.L ∧ fr.p ∉ zPtrs h hz z := by
      rw [zPtrs, List.cons_append, List.nodup_cons] at hnd
      have := hnd.1
      simp only [List.mem_append, not_or] at this
      exact ⟨this.1.1, this.2⟩
    have hcL : c ∉ ptrsKids h f.left fr.L ∧ c ∉ zPtrs h hz z := by
      rw [zPtrs] at hcf
      simp only [List.cons_append, List.mem_cons, List.mem_append, not_or] at hcf
      exact ⟨hcf.2.1.1, hcf.2.2⟩
    have hagL : ∀ q ∈ ptrsKids h f.left fr.L, h' q = h q := fun q hq =>
      hother q (fun he => hndL.1 (he ▸ hq)) (fun he => hcL.1 (he ▸ hq))
    have hagZ : ∀ q ∈ zPtrs h hz z, h' q = h q := fun q hq =>
      hother q (fun he => hndL.2 (he ▸ hq)) (fun he => hcL.2 (he ▸ hq))
    obtain ⟨hrest', hzp'⟩ := ZR_congr hz z (some fr.p) hagZ hrest
    refine ⟨h', { p := c, L := [], R := [] } :: { p := fr.p, L := fr.L, R := [] } :: hz, ?_, ?_, ?_, ?_, ?_, ?_, by simp [List.getLast?_cons_cons]⟩
    · simp
    · simp only [ZR, List.length_cons]
      refine ⟨hc0, by rw [hccell]; exact hcn, by rw [hccell]; simp [hcl]; omega, by rw [hccell]; simp [parentOf],
        by rw [ReprKids], by rw [ReprKids], by rw [hccell]; simpa using hcc,
        h0, by rw [hpcell]; exact hn, by rw [hpcell]; exact hl, by rw [hpcell]; exact hpp,
        ReprKids_congr _ _ _ _ hagL hL, by rw [ReprKids], by rw [hpcell], hrest'⟩
    · simp [TopOk]
    · simp only [zPtrs, ptrsKids, List.append_nil, List.nil_append]
      rw [ptrsKids_congr _ _ hagL, hzp']
      rw [zPtrs, hfr, hR] at hnd hcf
      simp only [ptrsKids, List.append_nil] at hnd hcf
      exact List.nodup_cons.mpr ⟨hcf, hnd⟩
    · intro q hq
      simp only [zPtrs, ptrsKids, List.append_nil, List.nil_append] at hq
      rw [ptrsKids_congr _ _ hagL, hzp'] at hq
      rw [zPtrs, hfr, hR]
      simp only [ptrsKids, List.append_nil]
      rcases List.mem_cons.mp hq with rfl | hq
      · right; rfl
      · left; exact hq
    · intro q hq hqc
      apply hother q _ hqc
      intro he; apply hq; rw [he, zPtrs]; simp

/-! ### one step of the builder -/

theorem ZR_len (h : Heap) : ∀ (hz : List HFrame) (z : Zipper) (oc : Option Ptr), ZR h oc hz z → hz.length = z.length
  | [], [], _, _ => rfl
  | [], _ :: _, _, hr => by simp [ZR] at hr
  | _ :: _, [], _, hr => by simp [ZR] at hr
  | fr :: hz, f :: z, oc, hr => by
    simp only [ZR] at hr
    simp [ZR_len h hz z _ hr.2.2.2.2.2.2.2]

theorem ZR_ne (h : Heap) : ∀ (hz : List HFrame) (z : Zipper) (oc : Option Ptr), ZR h oc hz z →
    ∀ p ∈ hz.map (·.p), p ≠ 0
  | [], _, _, _ => by simp
  | _ :: _, [], _, hr => by simp [ZR] at hr
  | fr :: hz, f :: z, oc, hr => by
    simp only [ZR] at hr
    intro p hp
    simp only [List.map_cons, List.mem_cons] at hp
    rcases hp with rfl | hp
    · exact hr.1
    · exact ZR_ne h hz z _ hr.2.2.2.2.2.2.2 p hp

/-- **one call of `stack.dfs` on the translated code is one step of the model's zipper.**  Heap and stack represent the
    zipper `z` (top frame closed to the right, all pointers different); `c` is a fresh node (not nil, not among the
    represented pointers, no children) with name `x` at level `k`.  If the model's `dfs k x z` is undefined the
    translated `dfs` returns false; otherwise it returns true and heap and stack represent the model's next zipper,
    only `c` has joined the represented pointers, and no cell outside them was written. -/
theorem dfs_refines (h : Heap) (hz : List HFrame) (z : Zipper) (c : Ptr) (k : Nat) (x : Bytes)
    (hr : ZR h none hz z) (ht : TopOk hz z) (hnd : (zPtrs h hz z).Nodup)
    (hc0 : c ≠ 0) (hcf : c ∉ zPtrs h hz z) (hcn : (h c).name = x) (hcl : (h c).hierarchy = (k : Int))
    (hcc : (h c).children = []) :
    (match Gtree.dfs k x z with
     | none => (stack.dfs h (hz.map (·.p)).reverse c).2.2 = false
     | some z' => ∃ h' hz', stack.dfs h (hz.map (·.p)).reverse c = (h', (hz'.map (·.p)).reverse, true) ∧
         ZR h' none hz' z' ∧ TopOk hz' z' ∧ (zPtrs h' hz' z').Nodup ∧
         (∀ q, q ∈ zPtrs h' hz' z' → q ∈ zPtrs h hz z ∨ q = c) ∧
         (∀ q, q ∉ zPtrs h hz z → q ≠ c → h' q = h q) ∧
         (hz'.map (·.p)).getLast? = (hz.map (·.p)).getLast?) := by
  have hlen := ZR_len h hz z none hr
  rw [dfs_spec h _ c (by
    intro p hp
    exact ZR_ne h hz z none hr p (by simpa using hp))]
  rw [List.reverse_reverse, hcl, popTo_levels h k hz z none hr]
  unfold Gtree.dfs
  by_cases hk2 : k < 2
  · have : ¬ (2 ≤ k ∧ k - 1 ≤ z.length) := by omega
    rw [if_neg this, if_pos hk2]
  · by_cases hkl : z.length < k - 1
    · have : ¬ (2 ≤ k ∧ k - 1 ≤ z.length) := by omega
      rw [if_neg this, if_neg hk2, if_pos hkl]
    · have hpos : 2 ≤ k ∧ k - 1 ≤ z.length := by omega
      simp only [hk2, hkl, if_false, if_pos hpos, closeTo]
      obtain ⟨d, hd⟩ : ∃ d, d = z.length - (k - 1) := ⟨_, rfl⟩
      rw [← hd]
      have hdl : d < hz.length := by rw [hlen]; omega
      obtain ⟨hz1, hr1, ht1, hmap1, hperm1, hlen1, hlen1'⟩ := ZR_upN h d hz z ht hr hdl
      -- the frame `popTo` stops at is the top frame after closing
      cases hz1 with
      | nil => simp at hlen1'; omega
      | cons fr1 hz1' =>
        cases hu : upN d z with
        | nil => rw [hu] at hlen1; simp at hlen1; omega
        | cons f1 z1 =>
          rw [hu] at hr1 ht1 hperm1 hlen1
          cases hdrop : hz.drop d with
          | nil => rw [hdrop] at hmap1; simp at hmap1
          | cons fr0 rest =>
            rw [hdrop] at hmap1
            simp only [List.map_cons, List.cons.injEq] at hmap1
            obtain ⟨hp01, hrest01⟩ := hmap1
            simp only []
            rw [← hp01, ← hrest01]
            have hz1len : z1.length + 2 = k := by simp at hlen1; omega
            obtain ⟨h', hz', hrun, hr', ht', hnd', hmem', hfr', hlast'⟩ := ZR_attach h fr1 hz1' f1 z1 c x ht1.1 ht1.2 hr1
              (hperm1.nodup_iff.mpr hnd) hc0 (fun hm => hcf (hperm1.mem_iff.mp hm)) hcn
              (by rw [hcl, ← hz1len]) hcc
            refine ⟨h', hz', hrun, hr', ht', hnd', ?_, ?_, ?_⟩
            · intro q hq
              rcases hmem' q hq with hq | hq
              · left; exact hperm1.mem_iff.mp hq
              · right; exact hq
            · intro q hq hqc
              exact hfr' q (fun hm => hq (hperm1.mem_iff.mp hm)) hqc
            · rw [hlast']
              have : ((fr1 :: hz1').map (·.p)) = (hz.drop d).map (·.p) := by rw [hdrop]; simp [hp01, hrest01]
              rw [this, List.map_drop, List.getLast?_drop, if_neg (by simp; omega)]

/-- a root row: a fresh node on a new stack represents the one-frame zipper -/
theorem ZR_root (h : Heap) (r : Ptr) (x : Bytes) (hr0 : r ≠ 0) (hn : (h r).name = x) (hl : (h r).hierarchy = 1)
    (hp : (h r).parent = 0) (hc : (h r).children = []) :
    ZR h none [{ p := r, L := [], R := [] }] [{ name := x, left := [], right := [] }] ∧
    TopOk [{ p := r, L := [], R := [] }] [{ name := x, left := [], right := [] }] ∧
    zPtrs h [{ p := r, L := [], R := [] }] [{ name := x, left := [], right := [] }] = [r] := by
  refine ⟨?_, by simp [TopOk], by simp [zPtrs, ptrsKids]⟩
  simp only [ZR, List.length_nil]
  exact ⟨hr0, hn, by rw [hl]; rfl, by simpa [parentOf] using hp, by rw [ReprKids], by rw [ReprKids], by simpa using hc, trivial⟩

/-- when the block ends: the heap holds the finished root, at the bottom of the stack -/
theorem ZR_closeAll (h : Heap) (hz : List HFrame) (z : Zipper) (hr : ZR h none hz z) (ht : TopOk hz z)
    (hne : hz ≠ []) :
    ∃ t root, closeAll z = some t ∧ (hz.map (·.p)).getLast? = some root ∧ Repr h t root 0 1 ∧
      (ptrs h t root).Perm (zPtrs h hz z) := by
  have hlen := ZR_len h hz z none hr
  have hpos : 0 < hz.length := List.length_pos_iff.mpr hne
  obtain ⟨hz1, hr1, ht1, hmap1, hperm1, hlen1, hlen1'⟩ := ZR_upN h (z.length - 1) hz z ht hr (by omega)
  cases hz1 with
  | nil => simp at hlen1'; omega
  | cons fr1 hz1' =>
    have hz1nil : hz1' = [] := by
      apply List.length_eq_zero_iff.mp
      simp at hlen1'; omega
    subst hz1nil
    cases hu : upN (z.length - 1) z with
    | nil => rw [hu] at hlen1; simp at hlen1; omega
    | cons f1 z1 =>
      rw [hu] at hr1 ht1 hperm1 hlen1
      have hz1nil : z1 = [] := by
        apply List.length_eq_zero_iff.mp
        simp at hlen1; omega
      subst hz1nil
      simp only [ZR, List.length_nil] at hr1
      obtain ⟨r0, rn, rl, rp, rL, _, rch, _⟩ := hr1
      obtain ⟨hfr, hR⟩ := ht1
      refine ⟨f1.close, fr1.p, ?_, ?_, ?_, ?_⟩
      · simp [closeAll, closeTo, hu]
      · have : (hz.map (·.p)).getLast? = ((hz.drop (z.length - 1)).map (·.p)).getLast? := by
          rw [List.map_drop, List.getLast?_drop, if_neg (by simp; omega)]
        rw [this, ← hmap1]; rfl
      · rw [Frame.close, Repr]
        refine ⟨r0, rn, by rw [rl], by simpa [parentOf] using rp, ?_⟩
        rw [rch, hfr, hR]
        simpa using rL
      · refine List.Perm.trans ?_ hperm1
        rw [Frame.close, ptrs, rch, hfr, hR, zPtrs, hfr, hR]
        simp [ptrsKids, zPtrs]

/-! ### the rows of one root block -/

/-- the translated `dfs` applied to the nodes of the block's rows, one after the other (what the generators' loop
    does between two root rows; hand-written: the loop itself — scanner, parser, counter — is not translated) -/
def feedH (h : Heap) (stk : List Ptr) : List Ptr → Option (Heap × List Ptr)
  | [] => some (h, stk)
  | c :: cs =>
    match stack.dfs h stk c with
    | (h', stk', true) => feedH h' stk' cs
    | (_, _, false) => none

/-- the model's zipper fed with the same items (level, name) -/
def feedM (z : Zipper) : List (Nat × Bytes) → Option Zipper
  | [] => some z
  | (k, x) :: its =>
    match Gtree.dfs k x z with
    | some z' => feedM z' its
    | none => none

/-- the nodes `newNode` made for the rows: not nil, named and levelled as the rows say, no children yet -/
def Items (h : Heap) : List Ptr → List (Nat × Bytes) → Prop
  | [], [] => True
  | [], _ :: _ => False
  | _ :: _, [] => False
  | c :: cs, it :: its => c ≠ 0 ∧ (h c).name = it.2 ∧ (h c).hierarchy = (it.1 : Int) ∧ (h c).children = [] ∧ Items h cs its

theorem Items_congr {h h' : Heap} : ∀ (cs : List Ptr) (its : List (Nat × Bytes)), (∀ c ∈ cs, h' c = h c) →
    Items h cs its → Items h' cs its
  | [], [], _, _ => trivial
  | [], _ :: _, _, hi => by simp [Items] at hi
  | _ :: _, [], _, hi => by simp [Items] at hi
  | c :: cs, it :: its, hq, hi => by
    simp only [Items] at hi ⊢
    have hc : h' c = h c := hq c (by simp)
    rw [hc]
    exact ⟨hi.1, hi.2.1, hi.2.2.1, hi.2.2.2.1, Items_congr cs its (fun q hq' => hq q (by simp [hq'])) hi.2.2.2.2⟩

/-- **the rows of a block, fed through the translated `dfs`, build the model's zipper in the heap** -/
theorem feed_refines : ∀ (cs : List Ptr) (its : List (Nat × Bytes)) (h : Heap) (hz : List HFrame) (z : Zipper),
    ZR h none hz z → TopOk hz z → (zPtrs h hz z).Nodup → Items h cs its → cs.Nodup →
    (∀ c ∈ cs, c ∉ zPtrs h hz z) →
    (match feedM z its with
     | none => feedH h (hz.map (·.p)).reverse cs = none
     | some z' => ∃ h' hz', feedH h (hz.map (·.p)).reverse cs = some (h', (hz'.map (·.p)).reverse) ∧
         ZR h' none hz' z' ∧ TopOk hz' z' ∧ (zPtrs h' hz' z').Nodup ∧
         (hz'.map (·.p)).getLast? = (hz.map (·.p)).getLast?)
  | [], [], h, hz, z, hr, ht, hnd, _, _, _ => by
    simp only [feedM, feedH]
    exact ⟨h, hz, rfl, hr, ht, hnd, rfl⟩
  | [], _ :: _, _, _, _, _, _, _, hi, _, _ => by simp [Items] at hi
  | _ :: _, [], _, _, _, _, _, _, hi, _, _ => by simp [Items] at hi
  | c :: cs, (k, x) :: its, h, hz, z, hr, ht, hnd, hi, hcnd, hcf => by
    simp only [Items] at hi
    obtain ⟨hc0, hcn, hcl, hcc, hrest⟩ := hi
    have hstep := dfs_refines h hz z c k x hr ht hnd hc0 (hcf c (by simp)) hcn hcl hcc
    simp only [feedM, feedH]
    cases hm : Gtree.dfs k x z with
    | none =>
      simp only [hm] at hstep ⊢
      generalize stack.dfs h (List.map (fun x => x.p) hz).reverse c = r at hstep ⊢
      obtain ⟨h1, s1, b1⟩ := r
      simp only at hstep
      subst hstep
      rfl
    | some z1 =>
      simp only [hm] at hstep ⊢
      obtain ⟨h1, hz1, hrun, hr1, ht1, hnd1, hmem1, hfr1, hlast1⟩ := hstep
      rw [hrun]
      simp only []
      have hcs := List.nodup_cons.mp hcnd
      have hag : ∀ q ∈ cs, h1 q = h q := fun q hq =>
        hfr1 q (hcf q (by simp [hq])) (fun he => hcs.1 (he ▸ hq))
      have ih := feed_refines cs its h1 hz1 z1 hr1 ht1 hnd1 (Items_congr cs its hag hrest) hcs.2
        (fun q hq hm' => by
          rcases hmem1 q hm' with hq' | hq'
          · exact hcf q (by simp [hq]) hq'
          · exact hcs.1 (hq' ▸ hq))
      cases hf : feedM z1 its with
      | none => simp only [hf] at ih ⊢; exact ih
      | some z2 =>
        simp only [hf] at ih ⊢
        obtain ⟨h2, hz2, hrun2, hr2, ht2, hnd2, hlast2⟩ := ih
        exact ⟨h2, hz2, hrun2, hr2, ht2, hnd2, hlast2.trans hlast1⟩

theorem upOne_ne (z : Zipper) (hz : z ≠ []) : upOne z ≠ [] := by
  cases z with
  | nil => exact absurd rfl hz
  | cons f z =>
    cases z with
    | nil => simp [upOne]
    | cons g z => simp [upOne]

theorem upN_ne : ∀ (d : Nat) (z : Zipper), z ≠ [] → upN d z ≠ []
  | 0, z, hz => by simpa [upN] using hz
  | d + 1, z, hz => by rw [upN]; exact upN_ne d _ (upOne_ne z hz)

theorem descend_ne (x : Bytes) (z : Zipper) (hz : z ≠ []) : descend x z ≠ [] := by
  cases z with
  | nil => exact absurd rfl hz
  | cons f z =>
    simp only [descend]
    split <;> simp

theorem feedM_ne : ∀ (its : List (Nat × Bytes)) (z z' : Zipper), z ≠ [] → feedM z its = some z' → z' ≠ []
  | [], z, z', hz, hh => by
    simp only [feedM, Option.some.injEq] at hh
    exact hh ▸ hz
  | (k, y) :: its, z, z', hz, hh => by
    simp only [feedM] at hh
    cases hd : Gtree.dfs k y z with
    | none => simp [hd] at hh
    | some z1 =>
      simp only [hd] at hh
      refine feedM_ne its z1 z' ?_ hh
      unfold Gtree.dfs at hd
      split at hd
      · simp at hd
      · split at hd
        · simp at hd
        · simp only [Option.some.injEq] at hd
          rw [← hd]
          exact descend_ne y _ (upN_ne _ z hz)

/-- **one root block on the translated builder step**: a fresh root node and the fresh nodes of the block's rows, fed
    through the translated `stack.dfs`.  If the model's zipper rejects a row so does the code (`dfs` returns false);
    otherwise the heap afterwards holds — at the bottom of the stack, which is still the root node — exactly the root
    the model builds (`closeAll`), with all its pointers different: the premise of the grower's theorem
    (`assemble_root`). -/
theorem block_builds_the_model_root (h : Heap) (r : Ptr) (x : Bytes) (cs : List Ptr) (its : List (Nat × Bytes))
    (hr0 : r ≠ 0) (hn : (h r).name = x) (hl : (h r).hierarchy = 1) (hp : (h r).parent = 0) (hc : (h r).children = [])
    (hi : Items h cs its) (hnd : (r :: cs).Nodup) :
    (match feedM [{ name := x, left := [], right := [] }] its with
     | none => feedH h [r] cs = none
     | some z' => ∃ h' stk t, feedH h [r] cs = some (h', stk) ∧ closeAll z' = some t ∧ stk.head? = some r ∧
         Repr h' t r 0 1 ∧ (ptrs h' t r).Nodup) := by
  obtain ⟨hzr, htr, hpr⟩ := ZR_root h r x hr0 hn hl hp hc
  have hcs := List.nodup_cons.mp hnd
  have := feed_refines cs its h _ _ hzr htr (by rw [hpr]; simp) hi hcs.2
    (fun c hc' hm => by rw [hpr] at hm; simp at hm; exact hcs.1 (hm ▸ hc'))
  simp only [List.map_cons, List.map_nil, List.reverse_cons, List.reverse_nil, List.nil_append] at this
  cases hm : feedM [{ name := x, left := [], right := [] }] its with
  | none => simp only [hm] at this ⊢; exact this
  | some z' =>
    simp only [hm] at this ⊢
    obtain ⟨h', hz', hrun, hr', ht', hnd', hlast'⟩ := this
    have hz'ne : z' ≠ [] := feedM_ne its _ z' (by simp) hm
    have hne : hz' ≠ [] := by
      intro he
      subst he
      cases z' with
      | nil => exact hz'ne rfl
      | cons _ _ => simp [ZR] at hr'
    obtain ⟨t, root, hclose, hlast, hrepr, hperm⟩ := ZR_closeAll h' hz' z' hr' ht' hne
    have hroot : root = r := by
      rw [hlast'] at hlast
      simpa using hlast.symm
    subst hroot
    refine ⟨h', _, t, hrun, hclose, ?_, hrepr, hperm.nodup_iff.mpr hnd'⟩
    rw [List.head?_reverse, hlast]

end Gtree.SrcH

namespace Gtree.SrcH
open Gtree

/-- the items of a block's rows handed to the model's generator one after the other (`addItem`, the function the
    model's `genStep` calls for a parsed row): levels ≥ 2, the current root being built is `z` -/
def addItems (s : GState) : List (Nat × Bytes × Bytes) → Except GErr GState
  | [] => .ok s
  | (k, x, row) :: its =>
    match addItem s k x row with
    | .ok s' => addItems s' its
    | .error e => .error e

/-- `feedM` is the model's generator on the rows of one block: folding `addItem` over items below root level, from a
    state whose current root is `z`, fails exactly when `feedM` is undefined — with the format error naming the first
    rejected row — and otherwise ends with `feedM`'s zipper as the current root (completed roots and parser state
    untouched). -/
theorem addItems_feedM : ∀ (its : List (Nat × Bytes × Bytes)) (s : GState) (z : Zipper),
    s.cur = some z → (∀ it ∈ its, it.1 ≠ 1) →
    (match feedM z (its.map (fun it => (it.1, it.2.1))) with
     | none => ∃ row, addItems s its = .error (.format row) ∧ row ∈ its.map (fun it => it.2.2)
     | some z' => addItems s its = .ok { s with cur := some z' })
  | [], s, z, hs, _ => by
    simp only [List.map_nil, feedM, addItems]
    cases s; simp_all
  | (k, x, row) :: its, s, z, hs, hk => by
    have hk1 : (k == 1) = false := by
      have := hk (k, x, row) (by simp)
      simpa using this
    simp only [List.map_cons, feedM, addItems, addItem, hk1, hs, Bool.false_eq_true, if_false]
    cases hd : Gtree.dfs k x z with
    | none => exact ⟨row, rfl, by simp⟩
    | some z1 =>
      simp only []
      have ih := addItems_feedM its { s with cur := some z1 } z1 rfl (fun it hit => hk it (by simp [hit]))
      cases hf : feedM z1 (its.map (fun it => (it.1, it.2.1))) with
      | none =>
        simp only [hf] at ih ⊢
        obtain ⟨r, h1, h2⟩ := ih
        exact ⟨r, h1, by simp [h2]⟩
      | some z2 =>
        simp only [hf] at ih ⊢
        exact ih

end Gtree.SrcH
