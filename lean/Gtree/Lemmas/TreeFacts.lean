import Gtree.Generated.Facts
import Gtree.Lemmas.WorkerFacts
/-
  What the simple tree is made of and in which order its operations use its parts (hand-written expectation), against
  what the fact extractor found in simple_tree*.go on this run.  The heap-mode theorems are about the methods of
  defaultGrowerSimple, defaultSpreaderSimple, colorizeSpreaderSimple, defaultMkdirerSimple, defaultVerifierSimple,
  defaultGrowSpreaderSimple and defaultWalkerSimple, composed as grow-then-use; these facts decide that newTreeSimple
  builds exactly those types (through its factories and their constructors) and that every operation of *treeSimple
  calls them in that order.
-/
namespace Gtree

/-- field of treeSimple ↦ (its factory, the factory's arguments, the constructors the factory may call) -/
def expectedParts : List (String × String × List String × List String) :=
  [("grower", "growerFactory", ["cfg.lastNodeFormat", "cfg.intermedialNodeFormat", "cfg.dryrun", "cfg.encode"],
      ["newNopGrowerSimple", "newGrowerSimple"]),
   ("spreader", "spreaderFactory", ["cfg.encode", "cfg.dryrun", "cfg.fileExtensions"],
      ["newColorizeSpreaderSimple", "newSpreaderSimple"]),
   ("mkdirer", "mkdirerFactory", ["cfg.targetDir", "cfg.fileExtensions"], ["newMkdirerSimple"]),
   ("verifier", "verifierFactory", ["cfg.targetDir", "cfg.strictVerify"], ["newVerifierSimple"]),
   ("growSpreader", "growSpreaderFactory", ["cfg.lastNodeFormat", "cfg.intermedialNodeFormat"], ["newGrowSpreaderSimple"]),
   ("walker", "walkerFactory", [], ["newWalkerSimple"])]

def partOk (e : String × String × List String × List String) : Bool :=
  lookupL e.1 Facts.treeSimpleFields == e.2.1 :: e.2.2.1 &&
  lookupL e.2.1 Facts.factoryCtors == e.2.2.2

/-- constructor ↦ what it returns (a struct literal's type, or →f when it delegates) -/
def expectedCtors : List (String × List String) :=
  [("newGrowerSimple", ["defaultGrowerSimple"]),
   ("newNopGrowerSimple", ["nopGrowerSimple"]),
   ("newSpreaderSimple", ["→newJSONSpreaderSimple", "→newYAMLSpreaderSimple", "→newTOMLSpreaderSimple", "defaultSpreaderSimple"]),
   ("newColorizeSpreaderSimple", ["colorizeSpreaderSimple", "defaultSpreaderSimple"]),
   ("newMkdirerSimple", ["defaultMkdirerSimple"]),
   ("newVerifierSimple", ["defaultVerifierSimple"]),
   ("newGrowSpreaderSimple", ["defaultGrowSpreaderSimple", "defaultGrowerSimple"]),
   ("newWalkerSimple", ["defaultWalkerSimple"])]

def ctorOk (e : String × List String) : Bool := lookupL e.1 Facts.ctorReturns == e.2

/-- type ↦ the methods the heap-mode theorems are about, which must be declared on that type -/
def expectedMethods : List (String × List String) :=
  [("defaultGrowerSimple", ["grow", "assemble", "assembleBranch", "assembleBranchDirectly", "assembleBranchIndirectly",
      "assembleBranchFinally", "enableValidation"]),
   ("defaultSpreaderSimple", ["spread", "spreadBranch"]),
   ("colorizeSpreaderSimple", ["spread", "spreadBranch", "colorize", "summary"]),
   ("defaultMkdirerSimple", ["mkdir", "isExistRoot", "makeDirectoriesAndFiles", "mkdirAll", "mkfile"]),
   ("defaultVerifierSimple", ["verify", "verifyRoot", "fillDirsMarkdown", "handleErr"]),
   ("defaultGrowSpreaderSimple", ["growAndSpread", "assembleAndPrint"]),
   ("defaultWalkerSimple", ["walk", "walkNode"])]

def methodsOk (e : String × List String) : Bool :=
  e.2.all (fun m => (lookupL e.1 Facts.simpleMethods).contains m)

/-- operation of *treeSimple ↦ the calls on its parts, in source order -/
def expectedCalls : List (String × List String) :=
  [("mkdir", ["grower.enableValidation", "grower.grow", "spreader.spread", "mkdirer.mkdir"]),
   ("mkdirProgrammably", ["grower.enableValidation", "grower.grow", "spreader.spread", "mkdirer.mkdir"]),
   ("verify", ["grower.enableValidation", "grower.grow", "verifier.verify"]),
   ("verifyProgrammably", ["grower.enableValidation", "grower.grow", "verifier.verify"]),
   ("walk", ["grower.grow", "walker.walk"]),
   ("walkProgrammably", ["grower.grow", "walker.walk"]),
   ("walkIterProgrammably", ["grower.grow", "walker.walkIter"]),
   ("outputProgrammably", ["grower.grow", "spreader.spread", "growSpreader.growAndSpread"]),
   ("output", ["grower.grow", "spreader.spread", "spreader.spreadIter", "grower.growIter"])]

def callsOk (e : String × List String) : Bool := lookupL e.1 Facts.treeSimpleCalls == e.2

theorem simple_tree_is_made_of_the_translated_parts :
    expectedParts.all partOk = true ∧ expectedCtors.all ctorOk = true ∧ expectedMethods.all methodsOk = true := by
  decide

theorem simple_tree_operations_grow_then_use :
    expectedCalls.all callsOk = true ∧ Facts.treeSimpleCalls.length = expectedCalls.length := by decide

/-- the operations that touch or compare the file system switch validation on before anything grows -/
theorem validating_operations_enable_validation_first :
    ["mkdir", "mkdirProgrammably", "verify", "verifyProgrammably"].all
      (fun op => (lookupL op Facts.treeSimpleCalls).take 2 == ["grower.enableValidation", "grower.grow"]) = true := by
  decide

/-- exported entry point ↦ the operation it calls on the tree `initializeTree(cfg)` builds: the Markdown forms and
    their deprecated names the reader operations, the From-Root forms and theirs the `…Programmably` operations -/
def expectedEntryTree : List (String × List String) :=
  [("OutputFromMarkdown", ["initializeTree.output"]), ("Output", ["initializeTree.output"]),
   ("MkdirFromMarkdown", ["initializeTree.mkdir"]), ("Mkdir", ["initializeTree.mkdir"]),
   ("VerifyFromMarkdown", ["initializeTree.verify"]), ("Verify", ["initializeTree.verify"]),
   ("WalkFromMarkdown", ["initializeTree.walk"]), ("Walk", ["initializeTree.walk"]),
   ("OutputFromRoot", ["initializeTree.outputProgrammably"]), ("OutputProgrammably", ["initializeTree.outputProgrammably"]),
   ("MkdirFromRoot", ["initializeTree.mkdirProgrammably"]), ("MkdirProgrammably", ["initializeTree.mkdirProgrammably"]),
   ("VerifyFromRoot", ["initializeTree.verifyProgrammably"]), ("VerifyProgrammably", ["initializeTree.verifyProgrammably"]),
   ("WalkFromRoot", ["initializeTree.walkProgrammably"]), ("WalkProgrammably", ["initializeTree.walkProgrammably"]),
   ("WalkIterFromRoot", ["initializeTree.walkIterProgrammably"]), ("WalkIterProgrammably", ["initializeTree.walkIterProgrammably"])]

/-- every entry point builds its tree with `initializeTree` — a fresh one on every call, the massive one exactly when
    the configuration says so — and calls the operation of its own name on it -/
theorem entry_points_build_a_fresh_tree :
    expectedEntryTree.all (fun e => lookupL e.1 Facts.entryTree == e.2) = true ∧
    Facts.entryTree.length = expectedEntryTree.length ∧
    lookupL "initializeTree" Facts.initTree =
      ["if:cfg.massive", "return", "call:newTreePipeline", "return", "call:newTreeSimple"] := by decide

/-- operation of *treePipeline ↦ the stages it starts, its helpers and the splitter / generator constructors, in source order -/
def expectedPipelineCalls : List (String × List String) :=
  [("mkdir", ["split", "newRootGeneratorPipeline", "grower.enableValidation", "grower.grow", "spreader.spread", "t.handlePipelineErr", "mkdirer.mkdir", "t.handlePipelineErr"]),
   ("mkdirProgrammably", ["grower.enableValidation", "grower.grow", "spreader.spread", "t.handlePipelineErr", "mkdirer.mkdir", "t.handlePipelineErr"]),
   ("output", ["split", "newRootGeneratorPipeline", "grower.grow", "spreader.spread", "t.handlePipelineErr"]),
   ("outputProgrammably", ["grower.grow", "spreader.spread", "t.handlePipelineErr"]),
   ("verify", ["grower.enableValidation", "split", "newRootGeneratorPipeline", "grower.grow", "verifier.verify", "t.handlePipelineErr"]),
   ("verifyProgrammably", ["grower.enableValidation", "grower.grow", "verifier.verify", "t.handlePipelineErr"]),
   ("walk", ["split", "newRootGeneratorPipeline", "grower.grow", "walker.walk", "t.handlePipelineErr"]),
   ("walkProgrammably", ["grower.grow", "walker.walk", "t.handlePipelineErr"])]

/-- `a` is called, and before the first call of `b` -/
def calledBefore (a b : String) (l : List String) : Bool := l.contains a && l.idxOf a < l.idxOf b

theorem massive_operations_are_as_expected : Facts.treePipelineCalls = expectedPipelineCalls := by decide

/-- in the massive tree too: the operations that create or compare directories enable validation before the grower
    stage is started, every operation starts the grower before the stage that consumes its roots, and waits for the
    stages' errors last -/
theorem massive_operations_validate_then_grow_then_use :
    ["mkdir", "mkdirProgrammably", "verify", "verifyProgrammably"].all
      (fun op => calledBefore "grower.enableValidation" "grower.grow" (lookupL op Facts.treePipelineCalls)) = true ∧
    [("mkdir", "mkdirer.mkdir"), ("mkdirProgrammably", "mkdirer.mkdir"), ("verify", "verifier.verify"),
     ("verifyProgrammably", "verifier.verify"), ("walk", "walker.walk"), ("walkProgrammably", "walker.walk"),
     ("output", "spreader.spread"), ("outputProgrammably", "spreader.spread")].all
      (fun e => calledBefore "grower.grow" e.2 (lookupL e.1 Facts.treePipelineCalls) &&
        (lookupL e.1 Facts.treePipelineCalls).getLast? == some "t.handlePipelineErr") = true := by decide

end Gtree
