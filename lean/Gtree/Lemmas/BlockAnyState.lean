import Gtree.Lemmas.SplitSim
import Gtree.Lemmas.RoundTrip
/-
  A root block of a document written in one notation, parsed by a generator worker from ANY state of
  the shared parser that the notation can have produced (whatever other blocks, whole or in part,
  other workers have put through the parser before), yields the block's merged root – the root the
  simple mode builds – and leaves the parser in such a state again.
-/
namespace Gtree

/-- one root and everything below it, fed to a fresh generator state -/
theorem addItems_one_root (p : PState) (r : Bytes) (ks : List T) :
    ∃ z', addItems { p := p } (items 1 [T.mk r ks]) = .ok { p := p, done := [], cur := some z' } ∧
      closeAll z' = some (mergeRoot (T.mk r ks)) := by
  let s1 : GState := { p := p, done := [], cur := some [{ name := r, left := [], right := [] }] }
  have hroot : addItem { p := p } 1 r [] = .ok s1 := by simp [addItem, s1, GState.finishCur]
  obtain ⟨z', hfeed, _, _, hclose⟩ := feed_items ks [{ name := r, left := [], right := [] }] 1 (by omega) (by simp) (by simp [TopClosed])
  have hc1 : closeTo 1 [({ name := r, left := [], right := [] } : Frame)] = [{ name := r, left := [], right := [] }] :=
    closeTo_self 1 _ (by simp)
  rw [hc1] at hclose
  simp only [absorbTop] at hclose
  have hkids : addItems s1 (items 2 ks) = .ok { s1 with cur := some z' } :=
    addItems_feed s1 _ z' (items 2 ks) rfl (fun it hit => items_ge 2 ks it hit) hfeed
  refine ⟨z', ?_, ?_⟩
  · simp only [items, List.append_nil]
    rw [show ((1, r) :: items (1 + 1) ks) = [(1, r)] ++ items 2 ks from rfl, addItems_append]
    simp only [addItems, hroot, hkids]
    rfl
  · rw [closeAll_of_closeTo z' _ hclose]
    simp [Frame.close, mergeRoot, mergeKids]

/-- the parser state a successful generator step leaves is the one `parse` leaves -/
theorem genStep_p (g g' : GState) (l : Bytes) (hok : genStep g l = .ok g') : g'.p = (parse g.p l).1 := by
  unfold genStep at hok
  cases hpr : parse g.p l with
  | mk p' r =>
    rw [hpr] at hok
    cases r with
    | error pe => cases pe <;> simp at hok <;> (subst hok; rfl)
    | ok v =>
      obtain ⟨h, text⟩ := v
      simp only [addItem] at hok
      split at hok
      · simp only [Except.ok.injEq] at hok; subst hok; rfl
      · cases hc : g.cur with
        | none => simp [hc] at hok
        | some z =>
          simp only [hc] at hok
          cases hd : dfs h text z with
          | none => simp [hd] at hok
          | some z' => simp only [hd, Except.ok.injEq] at hok; subst hok; rfl

/-- the heading flag after a run of rows: what it was, or set by a heading row among them -/
theorem genRows_sharp : ∀ (rows : List Bytes) (g g' : GState), genRows g rows = (g', none) →
    g'.p.sharp = (g.p.sharp || rows.any isSharpRow)
  | [], g, g', h => by
    simp only [genRows, Prod.mk.injEq, and_true] at h
    subst h; simp
  | l :: rest, g, g', h => by
    simp only [genRows] at h
    cases hs : genStep g l with
    | error e => simp [hs] at h
    | ok g1 =>
      simp only [hs] at h
      rw [genRows_sharp rest g1 g' h, genStep_p g g1 l hs, (parse_class g.p l).1]
      simp [Bool.or_assoc]

theorem listRow_not_sharp (s : Spelling) (i k : Nat) (n : Bytes) (hc : s.c = sp ∨ s.c = tab)
    (hb : s.bullet i = hy ∨ s.bullet i = ast ∨ s.bullet i = pls) : isSharpRow (listRow s i k n) = false := by
  unfold listRow isSharpRow
  cases hm : k * s.unit with
  | zero =>
    simp only [List.replicate_zero, List.nil_append, List.head?_cons]
    rcases hb with h | h | h <;> (rw [h]; decide)
  | succ m =>
    simp only [List.replicate_succ, List.cons_append, List.head?_cons]
    rcases hc with h | h <;> (rw [h]; decide)

theorem blank_not_sharp (b : Bytes) (h : isBlank b = true) : isSharpRow b = false := by
  cases b with
  | nil => rfl
  | cons x xs =>
    by_cases hx : x = shp
    · subst hx
      rw [isBlank_symbol_row shp (Or.inr (Or.inr (Or.inr rfl))) xs] at h
      simp at h
    · simpa [isSharpRow] using hx

/-- the rows of a list-rooted notation contain no heading row -/
theorem spellRows_no_sharp (s : Spelling) (hs : s.sharp = false) (hc : s.c = sp ∨ s.c = tab)
    (hbul : ∀ i, s.bullet i = hy ∨ s.bullet i = ast ∨ s.bullet i = pls)
    (hblank : ∀ i, ∀ b ∈ s.blanks i, isBlank b = true) :
    ∀ (its : List (Nat × Bytes)) (i : Nat), (spellRows s i its).any isSharpRow = false
  | [], _ => by simp [spellRows]
  | (h, n) :: rest, i => by
    simp only [spellRows, List.any_append, List.any_cons, Bool.or_eq_false_iff]
    refine ⟨?_, ?_, spellRows_no_sharp s hs hc hbul hblank rest (i + 1)⟩
    · rw [List.any_eq_false]
      intro b hb
      simpa using blank_not_sharp b (hblank i b hb)
    · simp only [rowOf, hs, Bool.false_eq_true, if_false]
      exact listRow_not_sharp s i (h - 1) n hc (hbul i)

/-- the state of the shared parser stays within what the notation produces: indent character and unit as
    in `PInv`, and the heading flag off in a list-rooted notation -/
structure PState.Within (s : Spelling) (p : PState) : Prop where
  inv : PInv s p
  sharp : s.sharp = false → p.sharp = false

theorem block_any_state (s : Spelling) (t : T) (i : Nat) (p : PState)
    (hv : s.Valid (items 1 [t])) (hp : p.Within s) :
    ∃ p', genBlock p (spellRows s i (items 1 [t])) = (p', .ok (some (mergeRoot t))) ∧ p'.Within s := by
  cases t with
  | mk r ks =>
    obtain ⟨z', hadd, hclose⟩ := addItems_one_root p r ks
    have hits : ∀ it ∈ items 1 [T.mk r ks], 1 ≤ it.1 ∧ NameOk s it.1 it.2 :=
      fun it hit => ⟨items_ge 1 _ it hit, hv.names it hit⟩
    have hsharp : SharpInv s p (items 1 [T.mk r ks]) := by
      unfold SharpInv
      by_cases hs : s.sharp = true
      · rw [if_pos hs]
        right
        intro h n rest he
        simp only [items, List.append_nil, List.cons.injEq, Prod.mk.injEq] at he
        exact he.1.1.symm
      · rw [if_neg hs]
        exact hp.sharp (by simpa using hs)
    obtain ⟨p', hgen, hinv'⟩ := genRows_spelled s hv.hc hv.hunit hv.hbullet (fun i b hb => (hv.hblank i b hb).1)
      (items 1 [T.mk r ks]) i { p := p } _ hits hp.inv (fun _ => fio_items s [T.mk r ks]) hsharp hadd
    refine ⟨p', ?_, hinv', ?_⟩
    · simp only [genBlock, hgen, hclose]
    · -- the heading flag is only ever set by a heading row, which a list-rooted notation does not have
      intro hs
      have h1 := genRows_sharp _ _ _ hgen
      simp only at h1
      rw [h1, hp.sharp hs, spellRows_no_sharp s hs hv.hc hv.hbullet (fun i b hb => (hv.hblank i b hb).1)]
      rfl

end Gtree
