import Gtree.Lemmas.SourceRefines
import Gtree.Lemmas.HeapWasm
import Gtree.Props.C14
import Gtree.Lemmas.Output
import Gtree.Model.Wasm
import Gtree.Lemmas.GenFacts
/-
  C17 — the tinywasm variant (name baked into the branch string, concatenation, one buffered write,
  batch generator) makes the same accept/reject decision and produces the same bytes as the default
  build (iterator pipeline) for text (any branch strings) and dry-run reports; the JSON path hands the
  same values to the encoder.
-/
namespace Gtree

theorem wasmBranch_eq_lineOf (v : Visit) : wasmBranch v = lineOf v := by
  unfold wasmBranch lineOf Visit.row
  split <;> simp

/-- the wasm renderer of one root = the default renderer's lines, concatenated -/
theorem C17_render_same (f : Fmt) (t : T) : wasmSpreadBranch f t = (textChunks f t).flatten := by
  unfold wasmSpreadBranch textChunks
  congr 1
  exact List.map_congr_left (fun v _ => wasmBranch_eq_lineOf v)

theorem C17_dry_report_same (f : Fmt) (exts : List Bytes) (t : T) : wasmDryReport f exts t = dryRunReport f exts t := by
  unfold wasmDryReport dryRunReport
  simp only [C17_render_same, textChunks, List.append_assoc]

/-- error reported by the iterator pipeline without writer faults: the first invalid root's error, else none -/
theorem runRoots_nofault_err (job : Job) : ∀ (roots : List T) (i : Nat),
    (runRoots job {} roots i).2.1 =
      (if job.validate then validateVisits (roots.map job.visits).flatten else none).map Err.val
  | [], i => by simp [runRoots, validateVisits]
  | r :: rs, i => by
    have ih := runRoots_nofault_err job rs (i + (job.chunks r).length)
    unfold runRoots
    by_cases hv : job.validate = true
    · simp only [hv, if_true, List.map_cons, List.flatten_cons, validateVisits_append] at ih ⊢
      cases hvr : validateVisits (job.visits r) with
      | some e => simp
      | none =>
        simp only
        have hem : emit {} (job.chunks r) i = ((job.chunks r).flatten, false) := emit_nofault _ i
        simp only [hem, Bool.false_eq_true, if_false]
        exact ih
    · have hv' : job.validate = false := by simpa using hv
      simp only [hv', Bool.false_eq_true, if_false] at ih ⊢
      have hem : emit {} (job.chunks r) i = ((job.chunks r).flatten, false) := emit_nofault _ i
      simp only [hem, Bool.false_eq_true, if_false]
      exact ih

def jobOf (f : Fmt) (dry : Bool) (exts : List Bytes) : Job := if dry then dryJob f exts else textJob f

/-- what the iterator pipeline writes and returns when no write fails -/
theorem outputIter_nofault (job : Job) (inp : Input) :
    outputIter job inp {} =
      (match (if job.validate then validateVisits ((rootsOf inp).map job.visits).flatten else none) with
       | some ve => ⟨(outputIter job inp {}).written, some (.val ve)⟩
       | none => ⟨(outputIter job inp {}).written, (generate inp).err.map .gen⟩) := by
  have herr := runRoots_nofault_err job (rootsOf inp) 0
  rw [outputIter_eq]
  generalize runRoots job {} (rootsOf inp) 0 = rr at *
  obtain ⟨w, e, j⟩ := rr
  simp only at herr
  subst herr
  cases (if job.validate then validateVisits ((rootsOf inp).map job.visits).flatten else none) <;> rfl

/-- same accept/reject decision in both builds, for every input -/
theorem C17_same_decision (f : Fmt) (dry : Bool) (exts : List Bytes) (inp : Input) :
    (wasmOutput f dry exts inp).err.isNone = (outputIter (jobOf f dry exts) inp {}).err.isNone := by
  rw [outputIter_nofault]
  cases hg : (generate inp).err with
  | some ge =>
    simp only [wasmOutput, hg]
    split <;> simp
  | none =>
    have hroots : rootsOf inp = (generate inp).roots := by simp [rootsOf, hg]
    simp only [wasmOutput, hg, hroots]
    cases dry with
    | true =>
      simp only [jobOf, if_true, dryJob]
      cases validateVisits (List.map (growRoot f) (generate inp).roots).flatten <;> simp
    | false => simp [jobOf, textJob]

/-- accepted input: byte-identical output in both builds -/
theorem C17_same_bytes (f : Fmt) (dry : Bool) (exts : List Bytes) (inp : Input)
    (hacc : (outputIter (jobOf f dry exts) inp {}).err = none) :
    (wasmOutput f dry exts inp).written = (outputIter (jobOf f dry exts) inp {}).written := by
  have hw := C14_writer_iter (jobOf f dry exts) inp {} hacc
  rw [hw]
  have hdec := C17_same_decision f dry exts inp
  rw [hacc] at hdec
  have hgen : (generate inp).err = none := by
    cases hg : (generate inp).err with
    | none => rfl
    | some ge => exact absurd hacc (C14_generation_error_surfaces _ inp {} (by simp [hg]))
  have hroots : rootsOf inp = (generate inp).roots := by simp [rootsOf, hgen]
  rw [hroots]
  simp only [wasmOutput, hgen] at hdec ⊢
  cases dry with
  | true =>
    simp only [if_true] at hdec ⊢
    cases hv : validateVisits (List.map (growRoot f) (generate inp).roots).flatten with
    | some ve => simp [hv] at hdec
    | none =>
      simp only [jobOf, if_true, dryJob]
      induction (generate inp).roots with
      | nil => simp
      | cons r rs ih => simp [C17_dry_report_same, ih]
  | false =>
    simp only [jobOf, textJob, Bool.false_eq_true, if_false]
    induction (generate inp).roots with
    | nil => simp
    | cons r rs ih => simp [C17_render_same, ih]

end Gtree

namespace Gtree
/-- Tie to the source, re-checked on every run: both build variants compile markdown/parser.go; the parser of the two models is `Parser.Parse` as translated on this run. -/
theorem C17_parser_is_the_source (st : PState) (row : Bytes) :
    Src.Parser.Parse (toSrc st) row = (toSrc (parse st row).1, resSrc (parse st row).2) :=
  Parse_src st row

/-- the parser every generator starts with (`md.NewParser()` returns `&Parser{}`) is the model's initial state -/
example : toSrc {} = { isSharpRoot := false, spaces := 0, sep := [] } := rfl
end Gtree

namespace Gtree
/-- Tie to the source, pointer code included (heap mode of /verif/translate, regenerated on every run): THE TINYWASM TWINS
    of the grower and the text printer — wasm_tree_grower.go (`defaultGrower.assemble`, `assembleBranch` with its walk up
    the parent links, `assembleBranchDirectly/Indirectly/Finally`) and wasm_tree_spreader.go
    (`defaultSpreader.spreadBranch`) — translated over an explicit heap next to the default variant's functions.
    Definition by definition the twin's grower is the default grower followed, node by node, by baking the row into the
    branch (`Lemmas/HeapWasm.lean`: `wasm_directly`, `wasm_indirectly` by `rfl`; `wasm_finally`, `wasm_assembleBranch` for
    every heap).  For every heap that holds a tree at a root (all pointers different), every four branch strings and every
    fuel above `2·size + 1`: the twin's grower returns the DEFAULT variant's validation verdict (the same accept/reject
    decision), and when it accepts, the twin's printer returns the model's `wasmSpreadBranch` — which `C17_render_same`
    shows to be the default variant's text, byte for byte. -/
theorem C17_twins_are_the_source (dg : SrcH.defaultGrower) (ds : SrcH.defaultSpreader) (t : T) (h : SrcH.Heap)
    (r : Go.Ptr) (fuel : Nat) (hr : SrcH.Repr h t r 0 1) (hnd : (SrcH.ptrs h t r).Nodup) (hf : 2 * t.size + 1 ≤ fuel) :
    ∃ h', SrcH.defaultGrower.assemble fuel h dg r =
        some (h', SrcH.expErr (SrcH.toSimple dg) (growRoot (SrcH.fmtOf (SrcH.toSimple dg)) t)) ∧
      (SrcH.expErr (SrcH.toSimple dg) (growRoot (SrcH.fmtOf (SrcH.toSimple dg)) t) = none →
        SrcH.defaultSpreader.spreadBranch fuel h' ds r = some (wasmSpreadBranch (SrcH.fmtOf (SrcH.toSimple dg)) t)) :=
  SrcH.wasm_grow_then_spread dg ds t h r fuel hr hnd hf
end Gtree

namespace Gtree

/-- **C17 (facts: the tinywasm generator).**  The row loop of the tinywasm build's generator is, token for token, the
    loop of the default build's `rootGeneratorSimple.generate`. -/
theorem C17_facts_wasm_generator_loop_is_the_default_one :
    lookupL "rootGenerator.generate" Facts.genSkeleton = lookupL "rootGeneratorSimple.generate" Facts.genSkeleton ∧
    (lookupL "rootGenerator.generate" Facts.genSkeleton).length = 27 := by decide

end Gtree
