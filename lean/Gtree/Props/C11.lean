import Gtree.Model.Pipeline
import Gtree.Generated.Facts
import Gtree.Lemmas.NetStuck
import Gtree.Lemmas.NetMeasure
/-
  C11 — massive mode always returns and leaves no goroutine behind: the part of it that is logic,
  proved for the abstract stage of Model/Pipeline.lean, for every number of items and workers, every
  placement of failing items, every cancellation instant and every schedule:
   * every step decreases a natural-number measure  ⇒ no infinite execution;
   * with every error send guarded by ctx.Done(), a state in which no goroutine of the library can
     move is one where the call has returned and every worker has exited  ⇒ no hang, no leak;
   * with a bare error send (the pinned code) a leak is reachable (three failing items, one stage) –
     the regression witness;
   * the guard hypothesis is discharged from the facts regenerated from /repo on every run.
   * the same two results for the WHOLE CHAIN (Model/Net.lean): any number of stages with unbuffered
     hand-overs between them, a closer and an error channel per stage, one waiter of handlePipelineErr
     per stage, the errgroup's derived context and the deferred cancel() – `C11_chain_measure_decreases`,
     `C11_chain_no_stuck_reachable`.
  Outside these models: real scheduling, the Go memory model, wall clock; these are observed by the
  harness (deadline, goroutine dump, race detector).
-/
namespace Gtree.Pipe

theorem C11_measure_decreases (g : Bool) (s s' : St) (h : Step g s s') : measure s' < measure s := by
  rcases h with h | h
  · cases h <;> simp_all [measure] <;> (try split) <;> (try split) <;> omega
  · cases h; simp_all [measure]

theorem C11_inv_init (todo w : Nat) : Inv (init todo w) := by simp [Inv, init]

theorem C11_inv_step (g : Bool) (s s' : St) (hi : Inv s) (h : Step g s s') : Inv s' := by
  rcases h with h | h
  · cases h <;> simp_all [Inv]
  · cases h; simp_all [Inv]

theorem C11_inv_reach (g : Bool) (s0 s : St) (h0 : Inv s0) (h : Reach g s0 s) : Inv s := by
  induction h with
  | refl => exact h0
  | step _ hs ih => exact C11_inv_step g _ _ ih hs

/-- no hang, no leak: if no goroutine of the library can move, the call has returned and every worker has exited -/
theorem C11_no_stuck (s : St) (hi : Inv s) (hstuck : ∀ s', ¬ SysStep true s s') :
    s.returned = true ∧ s.idle = 0 ∧ s.err = 0 := by
  have hret : s.returned = true := by
    cases hr : s.returned with
    | true => rfl
    | false =>
      exfalso
      cases hb : s.errbuf with
      | true => exact hstuck _ (.recvErr s hb hr)
      | false =>
        by_cases he : s.err > 0
        · exact hstuck _ (.errSend s he hb)
        · by_cases hidle : s.idle > 0
          · cases hsc : s.srcClosed with
            | true => exact hstuck _ (.idleExit s hidle (Or.inl hsc))
            | false =>
              by_cases ht : s.todo > 0
              · exact hstuck _ (.takeOk s ht hsc hidle)
              · exact hstuck _ (.srcDone s hsc (Or.inl (by omega)))
          · exact hstuck _ (.recvClosed s hr (by omega) (by omega) hb)
  have hc : s.cancelled = true := hi hret
  refine ⟨hret, ?_, ?_⟩
  · by_cases hidle : s.idle > 0
    · exact absurd (.idleExit s hidle (Or.inr hc)) (hstuck _)
    · omega
  · by_cases he : s.err > 0
    · exact absurd (.errGiveUp s rfl he hc) (hstuck _)
    · omega

/-- the same for every reachable state of a run with any number of items and workers -/
theorem C11_no_stuck_reachable (todo w : Nat) (s : St) (hr : Reach true (init todo w) s)
    (hstuck : ∀ s', ¬ SysStep true s s') : s.returned = true ∧ s.idle = 0 ∧ s.err = 0 :=
  C11_no_stuck s (C11_inv_reach true _ s (C11_inv_init todo w) hr) hstuck

/-- cancelled before finishing ⇒ the caller can return (with the context's error) at once -/
theorem C11_cancel_lets_caller_return (g : Bool) (s : St) (hc : s.cancelled = true) (hr : s.returned = false) :
    ∃ s', SysStep g s s' ∧ s'.returned = true := ⟨_, .recvCancel s hr hc, rfl⟩

/-- regression witness (pinned code): with a bare error send, three failing items leave a worker
    blocked for ever although the call has returned -/
theorem C11_bare_send_leaks :
    ∃ s, Reach false (init 3 3) s ∧ s.returned = true ∧ s.err > 0 ∧ ∀ s', ¬ SysStep false s s' := by
  let s1 : St := { init 3 3 with todo := 2, idle := 2, err := 1 }
  let s2 : St := { s1 with todo := 1, idle := 1, err := 2 }
  let s3 : St := { s2 with todo := 0, idle := 0, err := 3 }
  let s4 : St := { s3 with err := 2, done := 1, errbuf := true }
  let s5 : St := { s4 with errbuf := false, returned := true, cancelled := true }
  let s6 : St := { s5 with err := 1, done := 2, errbuf := true }
  let s7 : St := { s6 with srcClosed := true }
  have r1 : Reach false (init 3 3) s1 := .step .refl (Or.inl (.takeFail _ (by decide) rfl (by decide)))
  have r2 : Reach false (init 3 3) s2 := .step r1 (Or.inl (.takeFail _ (by decide) rfl (by decide)))
  have r3 : Reach false (init 3 3) s3 := .step r2 (Or.inl (.takeFail _ (by decide) rfl (by decide)))
  have r4 : Reach false (init 3 3) s4 := .step r3 (Or.inl (.errSend _ (by decide) rfl))
  have r5 : Reach false (init 3 3) s5 := .step r4 (Or.inl (.recvErr _ rfl rfl))
  have r6 : Reach false (init 3 3) s6 := .step r5 (Or.inl (.errSend _ (by decide) rfl))
  have r7 : Reach false (init 3 3) s7 := .step r6 (Or.inl (.srcDone _ rfl (Or.inl rfl)))
  refine ⟨s7, r7, rfl, by decide, ?_⟩
  intro s' h
  cases h <;> simp_all [s7, s6, s5, s4, s3, s2, s1, init]

/-! The guard hypothesis, from the facts regenerated from /repo's sources on every run. -/

/-- no error-channel send outside a select with ctx.Done() (whatever helper it goes through) -/
theorem C11_facts_err_sends_guarded : Gtree.Facts.bareErrSends = [] := by decide
/-- no hand-over or feeder send outside a select with ctx.Done() -/
theorem C11_facts_handover_guarded : Gtree.Facts.bareHandoverSends = [] ∧ Gtree.Facts.bareFeederSends = [] := by decide
/-- Parser.isSharpRoot is written under the parser mutex; the text printer runs under the spreader lock -/
theorem C11_facts_locks : Gtree.Facts.sharpWrittenUnderLock = true ∧ Gtree.Facts.spreadBranchUnderLock = true := by decide

end Gtree.Pipe

namespace Gtree.Net

/-- the whole chain of stages (any number of stages, workers per stage, items, failure placements,
    cancellation instants, schedules): every step decreases a natural-number measure, so every run ends -/
theorem C11_chain_measure_decreases (n n' : Net) (h : Step n n') : measure n' < measure n :=
  C11_net_measure_decreases n n' h

/-- … and where no goroutine of the library can move any more, the call has returned and every worker of
    every stage has exited: no hang, no leak, for every reachable state of every chain -/
theorem C11_chain_no_stuck_reachable (todo : Nat) (workers : List Nat) (hw : ∀ w ∈ workers, w ≥ 1) (n : Net)
    (hr : Reach (init todo workers) n) (hstuck : ∀ n', ¬ SysStep n n') :
    n.returned = true ∧ ∀ a ∈ n.stages, a.quiet :=
  no_stuck n (inv_reach _ n (inv_init todo workers hw) hr) hstuck

/-- cancelled before finishing ⇒ some waiter, or the caller, can move at once -/
theorem C11_chain_cancel_unblocks_caller (n : Net) (hc : n.ecancel = true) (hr : n.returned = false) :
    ∃ n', SysStep n n' := by
  by_cases hall : ∀ a ∈ n.stages, a.waiter = false
  · exact ⟨_, .ret n hr hall⟩
  · have : ∃ a ∈ n.stages, a.waiter = true := by
      apply Classical.byContradiction
      intro hno
      apply hall
      intro a ha
      cases hwa : a.waiter with
      | false => rfl
      | true => exact absurd ⟨a, ha, hwa⟩ hno
    obtain ⟨a, ha, hwa⟩ := this
    obtain ⟨pre, post, hs⟩ := mem_split ha
    exact ⟨_, .waiterCancel n pre a post hs hwa hc⟩

/-- non-vacuity: splitter (1 worker) → generator (10) → grower (10) → spreader (10), 7 blocks -/
example : Inv (init 7 [1, 10, 10, 10]) := inv_init 7 [1, 10, 10, 10] (by decide)

end Gtree.Net
