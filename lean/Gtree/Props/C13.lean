import Gtree.Lemmas.EntryFacts
import Gtree.Lemmas.HeapArena
import Gtree.Model.Programmable
/-
  C13 — results depend only on the tree, not on call history.
  In the arena model the only traces of call history besides the tree structure itself are the
  package-level `idxCounter` and the `index` stamped on each node. Every From-Root result is
  `run (store.tree root)`; the theorems show that `tree` reads neither, so that resetting the counter
  (what every From-Root call does), re-stamping indexes arbitrarily (what interleaving NewRoot/Add with
  From-Root calls on any tree does), and repeating an operation cannot change a result.
-/
namespace Gtree

/-- re-stamp every node's index and the counter arbitrarily -/
def Store.restamp (s : Store) (g : Nat → Nat) (k : Nat) : Store :=
  { nodes := s.nodes.map (fun n => { n with index := g n.index }), idxCounter := k }

theorem restamp_get? (s : Store) (g : Nat → Nat) (k id : Nat) :
    (s.restamp g k).get? id = (s.get? id).map (fun n => { n with index := g n.index }) := by
  simp [Store.restamp, Store.get?]

theorem toT_restamp (s : Store) (g : Nat → Nat) (k : Nat) : ∀ (fuel id : Nat),
    (s.restamp g k).toT fuel id = s.toT fuel id
  | 0, _ => rfl
  | fuel + 1, id => by
    simp only [Store.toT, restamp_get?]
    cases s.get? id with
    | none => rfl
    | some n =>
      simp only [Option.map_some]
      congr 1
      exact List.map_congr_left (fun c _ => toT_restamp s g k fuel c)

/-- the tree below a node does not depend on index stamps or on the counter -/
theorem C13_tree_ignores_history (s : Store) (g : Nat → Nat) (k id : Nat) :
    (s.restamp g k).tree id = s.tree id := by
  show (s.restamp g k).toT ((s.restamp g k).nodes.length + 1) id = s.toT (s.nodes.length + 1) id
  rw [toT_restamp]
  simp [Store.restamp]

theorem validateRoot_restamp (s : Store) (g : Nat → Nat) (k : Nat) (id : Option Nat) :
    (s.restamp g k).validateRoot id = s.validateRoot id := by
  unfold Store.validateRoot
  cases id with
  | none => rfl
  | some i =>
    simp only [restamp_get?]
    cases s.get? i <;> rfl

/-- every From-Root result on a re-stamped store equals the result on the original one -/
theorem C13_result_ignores_history {α} (s : Store) (g : Nat → Nat) (k : Nat) (id : Option Nat)
    (run : T → α) (fail : Err → α) :
    ((s.restamp g k).fromRoot id run fail).2 = (s.fromRoot id run fail).2 := by
  unfold Store.fromRoot
  rw [validateRoot_restamp]
  cases s.validateRoot id with
  | some e => rfl
  | none => simp only; rw [C13_tree_ignores_history]

/-- the counter reset performed by a From-Root call does not change any tree -/
theorem C13_reset_keeps_trees (s : Store) (id : Nat) : ({ s with idxCounter := 0 } : Store).tree id = s.tree id := by
  have h : ∀ fuel i, ({ s with idxCounter := 0 } : Store).toT fuel i = s.toT fuel i := by
    intro fuel
    induction fuel with
    | zero => intro i; rfl
    | succ fuel ih =>
      intro i
      simp only [Store.toT, Store.get?]
      cases s.nodes[i]? with
      | none => rfl
      | some n => simp only; congr 1; exact List.map_congr_left (fun c _ => ih c)
  simp [Store.tree, h]

/-- repeating an operation repeats its result -/
theorem C13_repeat {α} (s : Store) (id : Option Nat) (run : T → α) (fail : Err → α) :
    ((s.fromRoot id run fail).1.fromRoot id run fail).2 = (s.fromRoot id run fail).2 := by
  unfold Store.fromRoot
  cases hv : s.validateRoot id with
  | some e => simp [hv]
  | none =>
    have hv' : ({ s with idxCounter := 0 } : Store).validateRoot id = none := by
      unfold Store.validateRoot Store.get? at hv ⊢; exact hv
    simp only [hv, hv']
    rw [C13_reset_keeps_trees]

end Gtree

namespace Gtree
/-- Fact regenerated from the sources on this run: under both names of every entry point the configuration constructor is the expected one, so a stray encoding option cannot make an operation read what an earlier operation left in the nodes. -/
theorem C13_facts_entry_points_configuration : Facts.entryConfig = expectedEntryConfig := entryConfig_as_expected

/-- Fact regenerated from the sources on this run: every deprecated alias (`Output`, `Mkdir`, `Verify`, `Walk`,
    `OutputProgrammably`, `MkdirProgrammably`, `VerifyProgrammably`, `WalkProgrammably`, `WalkIterProgrammably`) has, word for
    word, the body of the function that replaces it. -/
theorem C13_facts_aliases_identical : Facts.aliasBodiesEqual.all (fun e => e.2) = true := aliases_identical
end Gtree

namespace Gtree
/-- Tie to the source, pointer code included (heap mode of /verif/translate, regenerated on every run): `NewRoot` and
    `(*Node).Add` of tree_handler_programmably.go with `newNode` of node.go and the package-level `idxCounter`, translated
    over an explicit heap (`&Node{…}` takes the allocator's next pointer; the counter is a world component), ARE the
    operations of the arena model (`Model/Programmable.lean`): with node `i` of the arena at pointer `i + 1`
    (`SrcH.StoreRel`), `NewRoot` is `Store.newRoot` and `Add` on an allocated node is `Store.add` — the existing child of
    that name (the FIRST one) is returned and nothing is written, or a new node one level deeper, stamped with the next
    counter value, becomes the parent's last child — and the representation is kept.  `C13_tree_ignores_history` and `C13_result_ignores_history` re-stamp the `index` fields and the counter of exactly this arena; that no other package-level variable exists is a regenerated fact. -/
theorem C13_arena_is_the_source (h : SrcH.Heap) (al : Nat) (idx : Int) (s : Store) (hrel : SrcH.StoreRel h al idx s) :
    (∀ name, (SrcH.NewRoot h al idx name).2.2.2 = (s.newRoot name).2 + 1 ∧
      SrcH.StoreRel (SrcH.NewRoot h al idx name).1 (SrcH.NewRoot h al idx name).2.1 (SrcH.NewRoot h al idx name).2.2.1
        (s.newRoot name).1) ∧
    (∀ pid name, pid < s.nodes.length →
      (s.add pid name).2 = some ((SrcH.Node.Add h al idx (pid + 1) name).2.2.2 - 1) ∧
      (SrcH.Node.Add h al idx (pid + 1) name).2.2.2 ≠ 0 ∧
      SrcH.StoreRel (SrcH.Node.Add h al idx (pid + 1) name).1 (SrcH.Node.Add h al idx (pid + 1) name).2.1
        (SrcH.Node.Add h al idx (pid + 1) name).2.2.1 (s.add pid name).1) :=
  ⟨fun name => SrcH.NewRoot_refines h al idx s name hrel,
   fun pid name hp => SrcH.Add_refines h al idx s pid name hrel hp⟩

/-- the empty arena is represented by any heap with the allocator at pointer 1 and the counter at 0 -/
example (h : SrcH.Heap) : SrcH.StoreRel h 1 0 {} := ⟨rfl, rfl, by intro i n hn; simp at hn, by intro i n hn; simp at hn⟩
end Gtree
