import Gtree.Lemmas.Validate
import Gtree.Lemmas.HeapSpread
import Gtree.Lemmas.HeapGrowSpread
import Gtree.Lemmas.NetResult
/-
  C14 — reader and writer failures are reported, never swallowed (model of the repaired code).
  The writer is a sink with a fault oracle (`WFault`: which write fails, how many bytes of it are
  accepted); the reader delivers the document or a prefix followed by an error (`Input.fail`).
-/
namespace Gtree

/-- writer: if feeding chunks reports no failure, every byte of every chunk was accepted -/
theorem C14_emit (wf : WFault) (cs : List Bytes) (i : Nat) (h : (emit wf cs i).2 = false) :
    (emit wf cs i).1 = cs.flatten := emit_ok_all wf cs i h

/-- `OutputFromMarkdown` (iterator path, text or dry-run): a nil result means the writer accepted
    exactly the bytes of the fault-free output – for every fault oracle -/
theorem C14_writer_iter (job : Job) (inp : Input) (wf : WFault)
    (h : (outputIter job inp wf).err = none) :
    (outputIter job inp wf).written = ((rootsOf inp).map job.chunks).flatten.flatten := by
  have key := runRoots_ok_all job wf (rootsOf inp) 0
  rw [outputIter_eq] at h ⊢
  generalize runRoots job wf (rootsOf inp) 0 = rr at *
  obtain ⟨w, e, j⟩ := rr
  cases e with
  | some e' => simp at h
  | none => simpa using key rfl

/-- From-Root text output: nil ⇒ every line accepted -/
theorem C14_writer_root (f : Fmt) (t : T) (wf : WFault) (h : (outputRootText f t wf).err = none) :
    (outputRootText f t wf).written = (textChunks f t).flatten := by
  unfold outputRootText at h ⊢
  cases hem : emit wf (textChunks f t) 0 with
  | mk acc failed =>
    simp only [hem] at h ⊢
    cases failed with
    | true => simp at h
    | false =>
      have := emit_ok_all wf (textChunks f t) 0 (by rw [hem])
      rw [hem] at this
      simpa using this

/-- reader: a failing reader never yields a nil generation result -/
theorem C14_reader_reported (inp : Input) (h : inp.fail = true) : (generate inp).err ≠ none := by
  unfold generate generateFrom
  simp only [h]
  cases hg : genRows {} (scanLines inp.doc).rows with
  | mk s e =>
    cases e with
    | some err => simp only; split <;> simp
    | none => simp only; split <;> simp

/-- … and a generation error is what every entry point returns (here: the iterator output path,
    unless a write failed first) -/
theorem C14_generation_error_surfaces (job : Job) (inp : Input) (wf : WFault)
    (h : (generate inp).err ≠ none) : (outputIter job inp wf).err ≠ none := by
  rw [outputIter_eq]
  generalize runRoots job wf (rootsOf inp) 0 = rr
  obtain ⟨w, e, j⟩ := rr
  cases e with
  | some e' => simp
  | none =>
    cases hge : (generate inp).err with
    | none => exact absurd hge h
    | some ge => simp

end Gtree

namespace Gtree.Net

/-- C14 in the massive mode (chain model of the pipeline, any number of stages, workers and items, every
    schedule and cancellation instant): if an item failed in ANY stage – a block that does not parse, a name
    that is not valid, a write or a callback that fails – the call, once it has returned, has not returned
    nil: a waiter received a stage's error, or the caller had cancelled and the context's error is returned.
    (`resultIsNil` is what `handlePipelineErr` returns after 1d9ff75: the errgroup's error, else ctx.Err().) -/
theorem C14_chain_failure_surfaces (todo : Nat) (workers : List Nat) (hw : ∀ w ∈ workers, w ≥ 1) (n : Net)
    (hr : Reach (init todo workers) n) (hret : n.returned = true)
    (hf : ∃ a ∈ n.stages, a.failed = true) : n.resultIsNil = false := by
  obtain ⟨_, g⟩ := ginv_reach _ n (inv_init todo workers hw) (ginv_init todo workers) hr
  cases hn : n.resultIsNil with
  | false => rfl
  | true =>
    obtain ⟨a, ha, hfa⟩ := hf
    have := (g.s hret hn a ha).2
    rw [hfa] at this
    simp at this

/-- … and a call that returned nil has left nothing behind: every stage has wound down -/
theorem C14_chain_nil_is_clean (todo : Nat) (workers : List Nat) (hw : ∀ w ∈ workers, w ≥ 1) (n : Net)
    (hr : Reach (init todo workers) n) (hret : n.returned = true) (hn : n.resultIsNil = true) :
    ∀ a ∈ n.stages, a.quiet ∧ a.failed = false :=
  (ginv_reach _ n (inv_init todo workers hw) (ginv_init todo workers) hr).2.s hret hn

end Gtree.Net

namespace Gtree
/-- Tie to the source (heap mode, regenerated on every run): WRITE ERRORS IN THE TEXT PRINTER.  The translated
    `defaultSpreaderSimple.spread` (the recursion `spreadBranch` over `fmt.Fprint`) on any heap that holds a forest,
    with the caller's writer as a fault oracle (`failAt = some k`: the k-th `Write` from now fails after accepting
    `short` bytes), returns an error exactly when a `Write` failed — the model's `emit` says so —, has handed the
    writer exactly the bytes `emit` accepts (everything before the failing `Write`, then its short part), and issues
    no `Write` after the failing one.  `C14_emit` and `C14_writer_iter` are therefore about this code. -/
theorem C14_printer_reports_in_the_source (ds : SrcH.defaultSpreaderSimple) (h : SrcH.Heap) (ts : List T) (w : Go.Writer)
    (rs : List Go.Ptr) (fuel : Nat) (hr : SrcH.ReprRoots h ts rs) (hf : sizeList ts ≤ fuel) :
    ∃ w' e, SrcH.defaultSpreaderSimple.spread fuel h w ds rs = some (w', e) ∧
      w'.out = w.out ++ (emit w.fault ((SrcH.readKids h ts rs 1).map lineOf) w.calls).1 ∧
      e.isSome = (emit w.fault ((SrcH.readKids h ts rs 1).map lineOf) w.calls).2 := by
  have := SrcH.writeAll_emit ((SrcH.readKids h ts rs 1).map lineOf) w
  exact ⟨_, _, SrcH.spread_heap ds h ts w rs fuel hr hf, this.1, this.2.1⟩
end Gtree

namespace Gtree
/-- Tie to the source (heap mode, regenerated on every run): WRITE ERRORS ON THE TEXT PATH OF `OutputFromRoot`.  The
    translated one-pass printer (`growAndSpread` / `assembleAndPrint`: assemble a node's branch, print its row, recurse)
    on any heap that holds a forest (all pointers different), with the caller's writer as a fault oracle, returns an
    error exactly when a `Write` failed, has handed the writer exactly the bytes the model's `emit` accepts of the
    model's `textChunks`, and stops at the failing `Write`: `C14_writer_root` is about this code. -/
theorem C14_root_printer_reports_in_the_source (dgs : SrcH.defaultGrowSpreaderSimple)
    (hv : dgs.defaultGrowerSimple.enabledValidation = false) (ts : List T) (h : SrcH.Heap) (w : Go.Writer)
    (rs : List Go.Ptr) (fuel : Nat) (hr : SrcH.ReprRoots h ts rs) (hnd : (SrcH.ptrsKids h ts rs).Nodup)
    (hf : 2 * sizeList ts + 1 ≤ fuel) :
    ∃ h' w' e, SrcH.defaultGrowSpreaderSimple.growAndSpread fuel h w dgs rs = some (h', w', e) ∧
      w'.out = w.out ++ (emit w.fault (ts.flatMap (textChunks (SrcH.fmtOf dgs.defaultGrowerSimple))) w.calls).1 ∧
      e.isSome = (emit w.fault (ts.flatMap (textChunks (SrcH.fmtOf dgs.defaultGrowerSimple))) w.calls).2 := by
  obtain ⟨h', hrun, _⟩ := SrcH.growAndSpread_forest dgs hv ts h w rs fuel hr hnd hf
  have := SrcH.writeAll_emit (ts.flatMap (textChunks (SrcH.fmtOf dgs.defaultGrowerSimple))) w
  exact ⟨h', _, _, hrun, this.1, this.2.1⟩
end Gtree
