import Gtree.Lemmas.EntryFacts
import Gtree.Lemmas.HeapArena
import Gtree.Lemmas.HeapGrowSpread
import Gtree.Lemmas.SourceRefines
import Gtree.Lemmas.Distinct
import Gtree.Lemmas.Output
import Gtree.Lemmas.Validate
import Gtree.Model.Programmable
import Gtree.Lemmas.Arena
import Gtree.Lemmas.MergeDistinct
import Gtree.Lemmas.TreeFacts
/-
  C03 — programmatically built trees behave like the equivalent Markdown.
-/
namespace Gtree

/-- `Add` of a name that already exists under the parent returns the existing child and changes nothing -/
theorem C03_add_existing (s : Store) (pid : Nat) (name : Bytes) (p : PNode) (c : Nat)
    (hp : s.get? pid = some p)
    (hc : s.findChild p name = some c) :
    s.add pid name = (s, some c) := by
  simp only [Store.add, hp, hc]

/-- a nil node is rejected with ErrNilNode before anything else happens: the store is unchanged and
    `run` (the operation proper: writing, creating, calling back) is never invoked -/
theorem C03_nil_rejected {α} (s : Store) (run : T → α) (fail : Err → α) :
    s.fromRoot none run fail = (s, fail .nilNode) := by
  simp [Store.fromRoot, Store.validateRoot]

/-- a node that is not a root is rejected with ErrNotRoot, likewise -/
theorem C03_not_root_rejected {α} (s : Store) (id : Nat) (n : PNode) (run : T → α) (fail : Err → α)
    (hn : s.get? id = some n) (hh : n.hierarchy ≠ 1) :
    s.fromRoot (some id) run fail = (s, fail .notRoot) := by
  have : (n.hierarchy == 1) = false := by simpa using hh
  simp [Store.fromRoot, Store.validateRoot, hn, this]

/-- a root runs the operation on the tree below it -/
theorem C03_root_runs {α} (s : Store) (id : Nat) (n : PNode) (run : T → α) (fail : Err → α)
    (hn : s.get? id = some n) (hh : n.hierarchy = 1) :
    (s.fromRoot (some id) run fail).2 = run (s.tree id) := by
  simp [Store.fromRoot, Store.validateRoot, hn, hh]

/-- From-Root text output of a tree with distinct sibling names (what NewRoot/Add build) equals
    From-Markdown text output of any valid spelling of that tree – bytes and error, for every
    branch strings and every writer fault -/
theorem C03_root_eq_markdown_text (t : T) (ht : DistinctT t) (s : Spelling) (fmt : Fmt) (wf : WFault)
    (hv : s.Valid (items 1 [t])) :
    outputIter (textJob fmt) { doc := spell [t] s } wf = outputRootText fmt t wf := by
  obtain ⟨herr, hroots⟩ := generate_spell [t] s hv
  rw [outputIter_eq]
  have hr : rootsOf { doc := spell [t] s } = [t] := by
    simp [rootsOf, herr, hroots, mergeRoot_distinct t ht]
  rw [hr, herr]
  have h1 : runRoots (textJob fmt) wf [t] 0 =
      ((emit wf (textChunks fmt t) 0).1, (if (emit wf (textChunks fmt t) 0).2 then some Err.write else none),
        (textChunks fmt t).length) := by
    simp only [runRoots, textJob, Bool.false_eq_true, if_false]
    split <;> simp_all
  have h2 : outputRootText fmt t wf =
      ⟨(emit wf (textChunks fmt t) 0).1, if (emit wf (textChunks fmt t) 0).2 then some Err.write else none⟩ := by
    unfold outputRootText
    cases h : emit wf (textChunks fmt t) 0 with
    | mk acc failed => rfl
  rw [h1, h2]
  cases (emit wf (textChunks fmt t) 0).2 <;> rfl

/-- … and the formatted tree handed to the JSON/YAML/TOML encoders is the same -/
theorem C03_root_eq_markdown_formatted (t : T) (ht : DistinctT t) (s : Spelling) (hv : s.Valid (items 1 [t])) :
    outputFormatted { doc := spell [t] s } = ([toFormatted t], none) := by
  obtain ⟨herr, hroots⟩ := generate_spell [t] s hv
  simp [outputFormatted, herr, hroots, mergeRoot_distinct t ht]

/-- … and the walk -/
theorem C03_root_eq_markdown_walk (t : T) (ht : DistinctT t) (s : Spelling) (fmt : Fmt) (k : Option Nat)
    (hv : s.Valid (items 1 [t])) :
    walkMd fmt { doc := spell [t] s } k = walkRoot fmt t k := by
  obtain ⟨herr, hroots⟩ := generate_spell [t] s hv
  simp [walkMd, walkRoot, herr, hroots, mergeRoot_distinct t ht]

/-- … and mkdir / verify (every extension list, target, file-system state, dry-run or not) -/
theorem C03_root_eq_markdown_mkdir (t : T) (ht : DistinctT t) (s : Spelling) (fmt : Fmt)
    (exts : List Bytes) (target : Bytes) (dry : Bool) (fs : FS) (hv : s.Valid (items 1 [t])) :
    (mkdirMd fmt exts target dry { doc := spell [t] s } fs).fs = (mkdirRootsApi fmt exts target dry [t] fs).fs ∧
    (mkdirMd fmt exts target dry { doc := spell [t] s } fs).err = (mkdirRootsApi fmt exts target dry [t] fs).err := by
  obtain ⟨herr, hroots⟩ := generate_spell [t] s hv
  simp [mkdirMd, herr, hroots, mergeRoot_distinct t ht]

theorem C03_root_eq_markdown_verify (t : T) (ht : DistinctT t) (s : Spelling) (fmt : Fmt)
    (target : Bytes) (strict : Bool) (fs : FS) (hv : s.Valid (items 1 [t])) :
    verifyMd fmt target strict { doc := spell [t] s } fs = verifyRootsApi fmt target strict [t] fs := by
  obtain ⟨herr, hroots⟩ := generate_spell [t] s hv
  simp [verifyMd, herr, hroots, mergeRoot_distinct t ht]

end Gtree

namespace Gtree
/-- non-vacuity: a three-level tree with distinct sibling names -/
example : DistinctT (.mk [0x72] [.mk [0x61] [.mk [0x63] []], .mk [0x62] []]) := by
  simp [DistinctT, DistinctL, T.name]
end Gtree

namespace Gtree

/-- whatever sequence of NewRoot / Add calls built the arena, the tree below any node has pairwise distinct
    sibling names at every level: the hypothesis `DistinctT` of the equivalence theorems above holds for
    every tree a client can hand to a From-Root entry point (arena invariant, `Lemmas/Arena.lean`) -/
theorem C03_built_trees_distinct (ops : List BuildOp) (id : Nat) :
    DistinctT ((ops.foldl Store.apply {}).tree id) :=
  Store.reachable_tree_distinct ops id

/-- the same for what the generator builds from a document: merged roots have distinct sibling names -/
theorem C03_generated_trees_distinct (t : T) : DistinctT (mergeRoot t) :=
  mergeRoot_distinctT t

/-- From-Root text output of any tree built by NewRoot / Add equals the output of a Markdown spelling of it -/
theorem C03_built_eq_markdown_text (ops : List BuildOp) (id : Nat) (s : Spelling) (fmt : Fmt) (wf : WFault)
    (hv : s.Valid (items 1 [(ops.foldl Store.apply {}).tree id])) :
    outputIter (textJob fmt) { doc := spell [(ops.foldl Store.apply {}).tree id] s } wf
      = outputRootText fmt ((ops.foldl Store.apply {}).tree id) wf :=
  C03_root_eq_markdown_text _ (C03_built_trees_distinct ops id) s fmt wf hv

/-- non-vacuity: NewRoot r; Add r a; Add r b; Add r a (existing); Add a c -/
example : ([BuildOp.newRoot [0x72], .add 0 [0x61], .add 0 [0x62], .add 0 [0x61], .add 1 [0x63]].foldl Store.apply {}).tree 0
    = .mk [0x72] [.mk [0x61] [.mk [0x63] []], .mk [0x62] []] := by
  rfl

end Gtree

namespace Gtree
/-- Tie to the source: the sentinel decision of every From-Root entry point is `validateTreeRoot`
    (tree_handler_programmably.go, translated on this run): a nil node gives `ErrNilNode`, a node that is not a root
    `ErrNotRoot`, a root no error — the model's `Store.validateRoot`. -/
theorem C03_root_validation_is_the_source (s : Store) (i : Nat) :
    Src.validateTreeRoot none = some .ErrNilNode ∧
    Src.validateTreeRoot ((s.get? i).map pnodeSrc) = (s.validateRoot (some i)).bind sentinelSrc :=
  ⟨validateTreeRoot_nil, validateTreeRoot_src s i⟩
end Gtree

namespace Gtree
/-- Fact regenerated from the sources on this run: under both names of every entry point, Output builds its configuration with `newConfig` and Mkdir / Verify / Walk with `newConfigWithoutEncode`. -/
theorem C03_facts_entry_points_configuration : Facts.entryConfig = expectedEntryConfig := entryConfig_as_expected

/-- Fact regenerated from the sources on this run: every deprecated alias (`Output`, `Mkdir`, `Verify`, `Walk`,
    `OutputProgrammably`, `MkdirProgrammably`, `VerifyProgrammably`, `WalkProgrammably`, `WalkIterProgrammably`) has, word for
    word, the body of the function that replaces it. -/
theorem C03_facts_aliases_identical : Facts.aliasBodiesEqual.all (fun e => e.2) = true := aliases_identical
end Gtree

namespace Gtree
/-- Tie to the source, pointer code included (heap mode of /verif/translate, regenerated on every run): the TEXT PATH OF
    `OutputFromRoot` — simple_tree_grow_spreader.go `growAndSpread` / `assembleAndPrint`, which assembles a node's branch
    (the grower's `assembleBranch`, promoted from the embedded grower) and prints its row in ONE pass — against the
    two-pass "grow, then print" the From-Markdown batch path runs (`defaultGrowerSimple.grow`, then
    `defaultSpreaderSimple.spread`), all translated over an explicit heap with the caller's writer as a fault oracle.
    For every heap that holds a forest (all pointers different), every four branch strings, every writer and every
    fuel above `2·size + 1`, both hand the writer the same `Write`s — the model's `textChunks` of every root, until a
    `Write` fails — and return the same error. -/
theorem C03_root_text_path_is_the_source (dgs : SrcH.defaultGrowSpreaderSimple) (ds : SrcH.defaultSpreaderSimple)
    (hv : dgs.defaultGrowerSimple.enabledValidation = false)
    (ts : List T) (h : SrcH.Heap) (w : Go.Writer) (rs : List Go.Ptr) (fuel : Nat)
    (hr : SrcH.ReprRoots h ts rs) (hnd : (SrcH.ptrsKids h ts rs).Nodup) (hf : 2 * sizeList ts + 1 ≤ fuel) :
    ∃ h1 h2,
      SrcH.defaultGrowSpreaderSimple.growAndSpread fuel h w dgs rs =
        some (h1, (SrcH.writeAll w (ts.flatMap (textChunks (SrcH.fmtOf dgs.defaultGrowerSimple)))).1,
                  (SrcH.writeAll w (ts.flatMap (textChunks (SrcH.fmtOf dgs.defaultGrowerSimple)))).2) ∧
      SrcH.defaultGrowerSimple.grow fuel h dgs.defaultGrowerSimple rs = some (h2, none) ∧
      SrcH.defaultSpreaderSimple.spread fuel h2 w ds rs =
        some (SrcH.writeAll w (ts.flatMap (textChunks (SrcH.fmtOf dgs.defaultGrowerSimple)))) := by
  obtain ⟨h1, hrun1, _⟩ := SrcH.growAndSpread_forest dgs hv ts h w rs fuel hr hnd hf
  obtain ⟨h2, hrun2, hrest⟩ := SrcH.grow_forest dgs.defaultGrowerSimple ts h rs fuel hr hnd hf
  have he : SrcH.expErr dgs.defaultGrowerSimple (ts.flatMap (growRoot (SrcH.fmtOf dgs.defaultGrowerSimple))) = none := by
    simp [SrcH.expErr, hv]
  rw [he] at hrun2
  obtain ⟨hs, _, hrd⟩ := hrest he
  refine ⟨h1, h2, hrun1, hrun2, ?_⟩
  rw [SrcH.spread_heap ds h2 ts w rs fuel (SrcH.ReprRoots_shape hs ts rs hr) (by omega), hrd, List.map_flatMap]
  rfl
end Gtree

namespace Gtree
/-- Tie to the source, pointer code included (heap mode of /verif/translate, regenerated on every run): `NewRoot` and
    `(*Node).Add` of tree_handler_programmably.go with `newNode` of node.go and the package-level `idxCounter`, translated
    over an explicit heap (`&Node{…}` takes the allocator's next pointer; the counter is a world component), ARE the
    operations of the arena model (`Model/Programmable.lean`): with node `i` of the arena at pointer `i + 1`
    (`SrcH.StoreRel`), `NewRoot` is `Store.newRoot` and `Add` on an allocated node is `Store.add` — the existing child of
    that name (the FIRST one) is returned and nothing is written, or a new node one level deeper, stamped with the next
    counter value, becomes the parent's last child — and the representation is kept.  The arena theorems of this file (`C03_add_existing`, `C03_built_trees_distinct`, …) are therefore about this code. -/
theorem C03_arena_is_the_source (h : SrcH.Heap) (al : Nat) (idx : Int) (s : Store) (hrel : SrcH.StoreRel h al idx s) :
    (∀ name, (SrcH.NewRoot h al idx name).2.2.2 = (s.newRoot name).2 + 1 ∧
      SrcH.StoreRel (SrcH.NewRoot h al idx name).1 (SrcH.NewRoot h al idx name).2.1 (SrcH.NewRoot h al idx name).2.2.1
        (s.newRoot name).1) ∧
    (∀ pid name, pid < s.nodes.length →
      (s.add pid name).2 = some ((SrcH.Node.Add h al idx (pid + 1) name).2.2.2 - 1) ∧
      (SrcH.Node.Add h al idx (pid + 1) name).2.2.2 ≠ 0 ∧
      SrcH.StoreRel (SrcH.Node.Add h al idx (pid + 1) name).1 (SrcH.Node.Add h al idx (pid + 1) name).2.1
        (SrcH.Node.Add h al idx (pid + 1) name).2.2.1 (s.add pid name).1) :=
  ⟨fun name => SrcH.NewRoot_refines h al idx s name hrel,
   fun pid name hp => SrcH.Add_refines h al idx s pid name hrel hp⟩

/-- the empty arena is represented by any heap with the allocator at pointer 1 and the counter at 0 -/
example (h : SrcH.Heap) : SrcH.StoreRel h 1 0 {} := ⟨rfl, rfl, by intro i n hn; simp at hn, by intro i n hn; simp at hn⟩
end Gtree

namespace Gtree

/-- **C03 (facts: which code runs).**  `newTreeSimple` fills each part of the simple tree through a factory that
    calls the expected constructors with the expected configuration fields, each constructor returns the struct the
    heap-mode theorems are about (`defaultGrowerSimple`, `defaultSpreaderSimple`, …), and those structs declare the
    translated methods — so the functions translated in §4.5 are the ones every entry point of the simple mode runs.
    Regenerated from simple_tree*.go on every run. -/
theorem C03_facts_simple_tree_is_made_of_the_translated_parts :
    expectedParts.all partOk = true ∧ expectedCtors.all ctorOk = true ∧ expectedMethods.all methodsOk = true ∧
    expectedCalls.all callsOk = true ∧ Facts.treeSimpleCalls.length = expectedCalls.length :=
  ⟨simple_tree_is_made_of_the_translated_parts.1, simple_tree_is_made_of_the_translated_parts.2.1,
   simple_tree_is_made_of_the_translated_parts.2.2, simple_tree_operations_grow_then_use.1,
   simple_tree_operations_grow_then_use.2⟩

end Gtree

namespace Gtree

/-- **C03 (facts: the entry points).**  Every exported entry point — the Markdown forms, the From-Root forms, and the
    deprecated names of both — builds its tree with `initializeTree(cfg)`, which constructs a new simple tree, or a new
    massive one exactly when `cfg.massive`, on every call (nothing is cached or shared between calls), and calls the
    operation of its own name on it: a From-Root call and the Markdown call of the same operation run the same parts. -/
theorem C03_facts_entry_points_build_a_fresh_tree :
    expectedEntryTree.all (fun e => lookupL e.1 Facts.entryTree == e.2) = true ∧
    Facts.entryTree.length = expectedEntryTree.length ∧
    lookupL "initializeTree" Facts.initTree =
      ["if:cfg.massive", "return", "call:newTreePipeline", "return", "call:newTreeSimple"] :=
  entry_points_build_a_fresh_tree

end Gtree
