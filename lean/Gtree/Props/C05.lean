import Gtree.Lemmas.EntryFacts
import Gtree.Lemmas.HeapWalk
import Gtree.Lemmas.HeapGrower
import Gtree.Lemmas.SourceRefines
import Gtree.Lemmas.Output
import Gtree.Lemmas.PathLex
import Gtree.Lemmas.TreeFacts
/-
  C05 — walk visits the rendered tree: same nodes, same order, consistent node facts.
  In the model both the text printer and the walker consume the same list of visits (`growRoot`), as in
  the Go code both read the same grown nodes; the theorems make the consequences explicit.
-/
namespace Gtree

/-- the nodes of a tree in depth-first pre-order with their depth (roots: 1) and has-children flag -/
def specFacts (d : Nat) : T → List (Bytes × Nat × Bool)
  | .mk n ks => (n, d, !ks.isEmpty) :: specFactsKids (d + 1) ks
where specFactsKids (d : Nat) : List T → List (Bytes × Nat × Bool)
  | [] => []
  | t :: ts => specFacts d t ++ specFactsKids d ts

theorem growKids_facts (f : Fmt) (rn : Bytes) :
    ∀ (ks : List T) (anc : List Anc) (lvl : Nat),
      (growKids f rn anc lvl ks).map (fun v => (v.name, v.level, v.hasChild)) = specFacts.specFactsKids lvl ks
  | [], _, _ => by simp [growKids, specFacts.specFactsKids]
  | [T.mk n ch], anc, lvl => by
      have ih := growKids_facts f rn ch ((n, true) :: anc) (lvl + 1)
      simp [growKids, growNode, specFacts.specFactsKids, specFacts, ih]
  | T.mk n ch :: c2 :: cs, anc, lvl => by
      have ih1 := growKids_facts f rn ch ((n, false) :: anc) (lvl + 1)
      have ih2 := growKids_facts f rn (c2 :: cs) anc lvl
      rw [growKids, List.map_append, ih2]
      simp [growNode, specFacts.specFactsKids, specFacts, ih1]
termination_by ks => sizeOf ks

/-- every node is visited exactly once, in pre-order, with Name, Level = depth (roots at 1) and HasChild -/
theorem C05_visits_are_the_nodes (f : Fmt) (t : T) :
    (growRoot f t).map (fun v => (v.name, v.level, v.hasChild)) = specFacts 1 t := by
  cases t with
  | mk n ks => simp [growRoot, specFacts, growKids_facts]

/-- Row = Branch + space + Name (Name alone for a root), and the rows are the lines of the drawing rule -/
theorem C05_row (v : Visit) : v.row = if v.level == 1 then v.name else v.branch ++ sp :: v.name := rfl

theorem C05_rows_are_spec_lines (f : Fmt) (t : T) : (growRoot f t).map Visit.row = specRoot f t :=
  growRoot_rows f t

/-- the walk of a Markdown document visits, in order, exactly the lines the text output writes -/
theorem C05_rows_are_output_lines (f : Fmt) (inp : Input) (h : (generate inp).err = none) :
    (((walkMd f inp none).1.map lineOf).flatten) = (outputBatch (textJob f) false inp {}).written := by
  unfold walkMd outputBatch walkVisits
  simp only [h, textJob, Bool.false_eq_true, if_false, emit_nofault]
  simp only [List.map_flatten, List.map_map]
  rfl

/-- the first error returned by the callback ends the walk: the callback has been invoked for the
    visits up to and including the failing one, and that error is returned -/
theorem C05_callback_stop (vs : List Visit) (k : Nat) (hk : k < vs.length) :
    walkVisits vs (some k) = (vs.take (k + 1), some .callback) := by
  simp [walkVisits, hk]

theorem C05_callback_never_fails (vs : List Visit) : walkVisits vs none = (vs, none) := rfl

/-- leaving the iterator after `k` items: exactly the first `k` visits have been seen -/
theorem C05_iter_break (f : Fmt) (t : T) (k : Nat) : walkIterRoot f t (some k) = (growRoot f t).take k := rfl

end Gtree

namespace Gtree

/-- the paths of the nodes below `pre`, in pre-order: the names from the root joined by '/' -/
def specPaths (pre : List Bytes) : List T → List Bytes
  | [] => []
  | .mk n ks :: rest => joinSlash (pre ++ [n]) :: specPaths (pre ++ [n]) ks ++ specPaths pre rest

mutual
/-- every name in the tree is a single valid path element -/
def AllElemT : T → Prop
  | .mk n ks => Elem n ∧ AllElemL ks
def AllElemL : List T → Prop
  | [] => True
  | t :: ts => AllElemT t ∧ AllElemL ts
end

theorem growKids_paths (f : Fmt) (rn : Bytes) (hr : Elem rn) :
    ∀ (ks : List T) (anc : List Anc) (lvl : Nat), AllElemL ks → (∀ a ∈ anc, Elem a.1) →
      (growKids f rn anc lvl ks).map Visit.path = specPaths (rn :: anc.reverse.map (·.1)) ks
  | [], _, _, _, _ => by simp [growKids, specPaths]
  | [T.mk n ch], anc, lvl, hk, ha => by
      rw [AllElemL, AllElemT] at hk
      obtain ⟨⟨hn, hch⟩, _⟩ := hk
      have ih := growKids_paths f rn hr ch ((n, true) :: anc) (lvl + 1) hch (by
        intro a h; rcases List.mem_cons.mp h with rfl | h
        · exact hn
        · exact ha a h)
      simp only [growKids, growNode, List.map_cons, specPaths, List.append_nil]
      rw [ih, pathOf_valid rn n anc hr hn ha]
      simp
  | T.mk n ch :: c2 :: cs, anc, lvl, hk, ha => by
      rw [AllElemL, AllElemT] at hk
      obtain ⟨⟨hn, hch⟩, hrest⟩ := hk
      have ih1 := growKids_paths f rn hr ch ((n, false) :: anc) (lvl + 1) hch (by
        intro a h; rcases List.mem_cons.mp h with rfl | h
        · exact hn
        · exact ha a h)
      have ih2 := growKids_paths f rn hr (c2 :: cs) anc lvl hrest ha
      rw [growKids, List.map_append, ih2]
      simp only [growNode, List.map_cons, specPaths]
      rw [ih1, pathOf_valid rn n anc hr hn ha]
      simp
termination_by ks => sizeOf ks

/-- Path: for names that are single path elements, the path of every visited node is the names from
    the root joined by '/' -/
theorem C05_path (f : Fmt) (t : T) (h : AllElemT t) : (growRoot f t).map Visit.path = specPaths [] [t] := by
  cases t with
  | mk n ks =>
    rw [AllElemT] at h
    have := growKids_paths f n h.1 ks [] 2 h.2 (by simp)
    simp [growRoot, specPaths, this, joinSlash]

end Gtree

namespace Gtree
/-- Tie to the source: what a walk callback reads from its `WalkerNode` (`Name`, `Branch`, `Level`, `HasChild`, `Path`,
    `Row` — simple_tree_walker.go, node.go, translated on this run) is the model's visit; in particular
    `Row = Branch + " " + Name`, the name alone for a root. -/
theorem C05_walker_node_is_the_source (v : Visit) (hroot : v.level = 1 → v.path = v.name) :
    Src.WalkerNode.Name ⟨visitNode v⟩ = v.name ∧
    Src.WalkerNode.Branch ⟨visitNode v⟩ = v.branch ∧
    Src.WalkerNode.Level ⟨visitNode v⟩ = (v.level : Int) ∧
    Src.WalkerNode.HasChild ⟨visitNode v⟩ = v.hasChild ∧
    Src.WalkerNode.Path ⟨visitNode v⟩ = v.path ∧
    Src.WalkerNode.Row ⟨visitNode v⟩ = v.row :=
  walkerNode_src v hroot
end Gtree

namespace Gtree
/-- Fact regenerated from the sources on this run: every Walk entry point, under both of its names and in the iterator form, builds its configuration with `newConfigWithoutEncode`: an encoding option does not select the no-op grower, so Row, Branch and Path are computed. -/
theorem C05_facts_entry_points_configuration : Facts.entryConfig = expectedEntryConfig := entryConfig_as_expected

/-- Fact regenerated from the sources on this run: every deprecated alias (`Output`, `Mkdir`, `Verify`, `Walk`,
    `OutputProgrammably`, `MkdirProgrammably`, `VerifyProgrammably`, `WalkProgrammably`, `WalkIterProgrammably`) has, word for
    word, the body of the function that replaces it. -/
theorem C05_facts_aliases_identical : Facts.aliasBodiesEqual.all (fun e => e.2) = true := aliases_identical
end Gtree

namespace Gtree
/-- Tie to the source, pointer code included (heap mode of /verif/translate, `Generated/SourceHeap.lean`, regenerated
    on every run): the WALKER of simple_tree_walker.go (`walk`, the recursion `walkNode`) after the GROWER of
    simple_tree_grower.go, both translated statement by statement over an explicit heap, with the user's callback as
    an arbitrary state machine `cb` that is handed the node.  For every heap that holds a forest (all pointers
    different), every four branch strings and every fuel above `2·size + 1`: growing succeeds; the walk then calls the
    callback on exactly the nodes of the forest, in pre-order, each once, until the callback returns an error — that
    error is the walk's result, unchanged, and nothing is called after it (`callAll`); and what the callback reads
    from the nodes it is handed (name, branch, level, path, has-child: the accessors of `C05_walker_node_is_the_source`)
    is, node for node, the model's `growRoot` of every root — the visits all C05 theorems are about. -/
theorem C05_walker_is_the_source {σ : Type} (dg : SrcH.defaultGrowerSimple) (dw : SrcH.defaultWalkerSimple)
    (ts : List T) (h : SrcH.Heap) (rs : List Go.Ptr) (fuel : Nat) (cb : Go.Ptr → σ → σ × Option Src.Err) (s : σ)
    (hr : SrcH.ReprRoots h ts rs) (hnd : (SrcH.ptrsKids h ts rs).Nodup) (hf : 2 * sizeList ts + 1 ≤ fuel)
    (hv : dg.enabledValidation = false) :
    ∃ h', SrcH.defaultGrowerSimple.grow fuel h dg rs = some (h', none) ∧
      SrcH.defaultWalkerSimple.walk fuel h' s dw rs cb = some (SrcH.callAll cb (SrcH.ptrsKids h ts rs) s) ∧
      (SrcH.ptrsKids h ts rs).map (SrcH.visitOf h') = ts.flatMap (growRoot (SrcH.fmtOf dg)) := by
  obtain ⟨h', hrun, hrest⟩ := SrcH.grow_forest dg ts h rs fuel hr hnd hf
  have he : SrcH.expErr dg (ts.flatMap (growRoot (SrcH.fmtOf dg))) = none := by simp [SrcH.expErr, hv]
  rw [he] at hrun
  obtain ⟨hs, _, hrd⟩ := hrest he
  have hr' := SrcH.ReprRoots_shape hs ts rs hr
  refine ⟨h', hrun, ?_, ?_⟩
  · rw [SrcH.walk_heap dw h' cb ts s rs fuel hr' (by omega), SrcH.ptrsKids_shape hs]
  · rw [← SrcH.ptrsKids_shape hs, SrcH.roots_visits h' ts rs hr', hrd]
end Gtree

namespace Gtree

/-- **C05 (facts: composition).**  The three Walk operations of the simple tree grow the roots and then hand them to
    the walker, and nothing else — the composition `walker_is_the_source` is stated for. -/
theorem C05_facts_walk_grows_then_walks :
    lookupL "walk" Facts.treeSimpleCalls = ["grower.grow", "walker.walk"] ∧
    lookupL "walkProgrammably" Facts.treeSimpleCalls = ["grower.grow", "walker.walk"] ∧
    lookupL "walkIterProgrammably" Facts.treeSimpleCalls = ["grower.grow", "walker.walkIter"] ∧
    lookupL "newWalkerSimple" Facts.ctorReturns = ["defaultWalkerSimple"] := by decide

end Gtree
