import Gtree.Lemmas.SourceRefines
import Gtree.Lemmas.ParseDoc
import Gtree.Lemmas.Validate
/-
  C12 — no input can crash or hang the library.
  The model is a total function of the input bytes (Lean accepts only terminating definitions; every Go
  loop is a structural recursion over rows / trees / the open path here), and its result type has no
  "panic" outcome: the nil-root dereferences of the pinned code (D1, D2) cannot be expressed any more
  because the repaired generators never forward a missing root. What remains to be stated is the
  behaviour on blank input.
-/
namespace Gtree

theorem genRows_all_blank (g : GState) (rows : List Bytes) (h : ∀ r ∈ rows, isBlank r = true) :
    genRows g rows = (g, none) := by
  have := genRows_blanks g rows [] h
  simpa [genRows] using this

/-- empty or blank-only input generates no root and no error -/
theorem C12_blank_generates_nothing (doc : Bytes)
    (hblank : ∀ r ∈ (scanLines doc).rows, isBlank r = true) (hshort : (scanLines doc).tooLong = false) :
    generate { doc := doc } = ⟨[], none, none⟩ := by
  unfold generate generateFrom
  simp only [genRows_all_blank {} _ hblank, hshort]
  rfl

/-- … hence every output mode writes nothing and returns nil, whatever the writer does -/
theorem C12_blank_output (job : Job) (wf : WFault) (doc : Bytes)
    (hblank : ∀ r ∈ (scanLines doc).rows, isBlank r = true) (hshort : (scanLines doc).tooLong = false) :
    outputIter job { doc := doc } wf = ⟨[], none⟩ := by
  have hg := C12_blank_generates_nothing doc hblank hshort
  rw [outputIter_eq]
  simp [rootsOf, hg, Gen.roots, runRoots]

theorem C12_blank_formatted (doc : Bytes)
    (hblank : ∀ r ∈ (scanLines doc).rows, isBlank r = true) (hshort : (scanLines doc).tooLong = false) :
    outputFormatted { doc := doc } = ([], none) := by
  have hg := C12_blank_generates_nothing doc hblank hshort
  simp [outputFormatted, hg, Gen.roots]

theorem C12_blank_walk (f : Fmt) (doc : Bytes) (k : Option Nat)
    (hblank : ∀ r ∈ (scanLines doc).rows, isBlank r = true) (hshort : (scanLines doc).tooLong = false) :
    walkMd f { doc := doc } k = ([], none) := by
  have hg := C12_blank_generates_nothing doc hblank hshort
  cases k <;> simp [walkMd, walkVisits, hg, Gen.roots]

/-- the empty document is blank -/
example : generate { doc := [] } = ⟨[], none, none⟩ :=
  C12_blank_generates_nothing [] (by simp [scanLines, rawLines, splitLF, scanLinesAux]) (by simp [scanLines, rawLines, splitLF, scanLinesAux])

end Gtree

namespace Gtree
/-- Tie to the source, re-checked on every run: the total function `parse` (no panic outcome) the C12 theorems are about is `Parser.Parse` of markdown/parser.go as translated on this run; the translation has no partial operation left in it except the ones listed in the trusted base (`xs[0]` on a non-empty split, `%` by a unit > 1). -/
theorem C12_parser_is_the_source (st : PState) (row : Bytes) :
    Src.Parser.Parse (toSrc st) row = (toSrc (parse st row).1, resSrc (parse st row).2) :=
  Parse_src st row

/-- the parser every generator starts with (`md.NewParser()` returns `&Parser{}`) is the model's initial state -/
example : toSrc {} = { isSharpRoot := false, spaces := 0, sep := [] } := rfl
end Gtree
