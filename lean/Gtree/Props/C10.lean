import Gtree.Lemmas.SourceRefines
import Gtree.Lemmas.WorkerFacts
import Gtree.Lemmas.HeapGrower
import Gtree.Lemmas.HeapMkdir
import Gtree.Lemmas.HeapWalk
import Gtree.Lemmas.HeapSpread
import Gtree.Model.Spreader
import Gtree.Lemmas.ParseDoc
import Gtree.Generated.Facts
import Gtree.Lemmas.SplitSim
import Gtree.Lemmas.BlockHavoc
import Gtree.Lemmas.MkOrder
import Gtree.Lemmas.VerifyOrder
import Gtree.Lemmas.MkInterleave
import Gtree.Lemmas.InterleavePerm
import Gtree.Lemmas.GenFacts
import Gtree.Lemmas.TreeFacts
/-
  C10 — massive mode is the simple mode up to the order of roots: the parts that are logic.
  (1) Printer: with the mutex held around the printing of a whole root, the output of every schedule
      is the concatenation, in some order, of the intact per-root blocks (for any number of roots and
      workers); without the mutex a garbled output is reachable (regression witness).
  (2) Shared parser: a row of a document written in one notation parses to the same item whatever
      the other generator workers have already taught the shared parser, as long as the parser state
      is within the notation's invariant and the unit has been learnt – and every such parse keeps
      the state within the invariant (`parse_listRow_spelling`, Lemmas/ParseDoc.lean). Hence any
      interleaving of the rows of different blocks gives every block the items the simple mode gives it.
  Outside the model: the documents of the three known findings (different notation per root, list roots
  before heading roots, mkdir with a pre-existing root), real scheduling.
-/
namespace Gtree.Spread

/-- ghost state: the blocks printed completely so far, and the full block of the lock holder with
    the part of it already written -/
structure Ghost where
  doneBlocks : List Block
  curDone    : List Bytes

/-- the lock holder's whole block, if any -/
def curBlock (g : Ghost) (s : St) : List Block :=
  match s.cur with
  | none => []
  | some r => [g.curDone ++ r]

/-- invariant of the locked printer: the output is whole blocks followed by the written part of the
    lock holder's block; no block has been lost or duplicated (multiset equality, by counting) -/
def Inv (blocks : List Block) (s : St) : Prop :=
  ∃ g : Ghost,
    s.out = g.doneBlocks.flatten ++ g.curDone ∧
    (s.cur = none → g.curDone = []) ∧
    ∀ b : Block, blocks.count b = s.pending.count b + s.waiting.count b + g.doneBlocks.count b + (curBlock g s).count b

theorem inv_init (blocks : List Block) : Inv blocks (init blocks) :=
  ⟨⟨[], []⟩, by simp [init], by simp, by intro b; simp [init, curBlock]⟩

theorem inv_step (blocks : List Block) (s s' : St) (hi : Inv blocks s) (h : Step true s s') : Inv blocks s' := by
  obtain ⟨g, hout, hnone, hcount⟩ := hi
  cases h with
  | take a b c hp =>
    refine ⟨g, hout, hnone, ?_⟩
    intro x
    have := hcount x
    simp only [hp, curBlock, List.count_append, List.count_cons] at this ⊢
    omega
  | acquire a b c hc hw =>
    have hcd : g.curDone = [] := hnone hc
    refine ⟨⟨g.doneBlocks, []⟩, by simpa [hcd] using hout, by simp, ?_⟩
    intro x
    have := hcount x
    simp only [hw, hc, curBlock, List.count_append, List.count_cons, List.count_nil, List.nil_append] at this ⊢
    omega
  | write l ls hc =>
    refine ⟨⟨g.doneBlocks, g.curDone ++ [l]⟩, by simp [hout], by simp, ?_⟩
    intro x
    have := hcount x
    simpa [hc, curBlock] using this
  | release hc =>
    refine ⟨⟨g.doneBlocks ++ [g.curDone], []⟩, by simp [hout], by simp, ?_⟩
    intro x
    have := hcount x
    simp only [hc, curBlock, List.count_append, List.count_cons, List.count_nil, List.append_nil] at this ⊢
    omega
  | writeUnlocked a l ls c hl hw => exact absurd hl (by decide)

theorem inv_reach (blocks : List Block) (s : St) (h : Reach true (init blocks) s) : Inv blocks s := by
  induction h with
  | refl => exact inv_init blocks
  | step _ hs ih => exact inv_step blocks _ _ ih hs

/-- C10 (printer): for every schedule of the locked printer, when everything has been printed the
    output is the concatenation of a permutation of the per-root blocks, each block intact -/
theorem C10_blocks_intact (blocks : List Block) (s : St) (h : Reach true (init blocks) s) (hf : Final s) :
    ∃ order : List Block, List.Perm order blocks ∧ s.out = order.flatten := by
  obtain ⟨g, hout, hnone, hcount⟩ := inv_reach blocks s h
  obtain ⟨hp, hw, hc⟩ := hf
  refine ⟨g.doneBlocks, ?_, by simp [hout, hnone hc]⟩
  rw [List.perm_iff_count]
  intro b
  have := hcount b
  simp only [hp, hw, hc, curBlock, List.count_nil] at this
  omega

/-- regression witness: without the mutex two roots of two lines each can come out interleaved -/
theorem C10_unlocked_garbles :
    ∃ s, Reach false (init [[[1], [2]], [[3], [4]]]) s ∧ Final s ∧ s.out = [[1], [3], [2], [4]] := by
  let b1 : Block := [[1], [2]]
  let b2 : Block := [[3], [4]]
  let s0 := init [b1, b2]
  let s1 : St := { s0 with pending := [b2], waiting := [b1] }
  let s2 : St := { s1 with pending := [], waiting := [b2, b1] }
  let s3 : St := { s2 with waiting := [b2, [[2]]], out := [[1]] }
  let s4 : St := { s3 with waiting := [[[4]], [[2]]], out := [[1], [3]] }
  let s5 : St := { s4 with waiting := [[[4]], []], out := [[1], [3], [2]] }
  let s6 : St := { s5 with waiting := [[], []], out := [[1], [3], [2], [4]] }
  let s7 : St := { s6 with waiting := [[]], cur := some [] }
  let s8 : St := { s7 with cur := none }
  let s9 : St := { s8 with waiting := [], cur := some [] }
  let s10 : St := { s9 with cur := none }
  have r1 : Reach false s0 s1 := .step .refl (.take s0 [] b1 [b2] rfl)
  have r2 : Reach false s0 s2 := .step r1 (.take s1 [] b2 [] rfl)
  have r3 : Reach false s0 s3 := .step r2 (.writeUnlocked s2 [b2] [1] [[2]] [] rfl rfl)
  have r4 : Reach false s0 s4 := .step r3 (.writeUnlocked s3 [] [3] [[4]] [[[2]]] rfl rfl)
  have r5 : Reach false s0 s5 := .step r4 (.writeUnlocked s4 [[[4]]] [2] [] [] rfl rfl)
  have r6 : Reach false s0 s6 := .step r5 (.writeUnlocked s5 [] [4] [] [[]] rfl rfl)
  have r7 : Reach false s0 s7 := .step r6 (.acquire s6 [] [] [[]] rfl rfl)
  have r8 : Reach false s0 s8 := .step r7 (.release s7 rfl)
  have r9 : Reach false s0 s9 := .step r8 (.acquire s8 [] [] [] rfl rfl)
  have r10 : Reach false s0 s10 := .step r9 (.release s9 rfl)
  exact ⟨s10, r10, ⟨rfl, rfl, rfl⟩, rfl⟩

/-- the printer does hold the mutex around `spreadBranch` (fact regenerated from /repo on every run) -/
theorem C10_facts_spreader_locked : Gtree.Facts.spreadBranchUnderLock = true := by decide

end Gtree.Spread

namespace Gtree

/-- C10 (shared parser): a list row of a document written in one notation, parsed in ANY parser state
    within the notation's invariant in which the unit has been learnt (whatever rows of other blocks
    other workers have parsed before), yields the same item, and leaves the state within the
    invariant with the unit still learnt. -/
theorem C10_row_independent_of_interleaving (s : Spelling) (p₁ p₂ : PState) (i k : Nat) (n : Bytes)
    (hc : s.c = sp ∨ s.c = tab) (hunit : 1 ≤ s.unit)
    (hb : s.bullet i = hy ∨ s.bullet i = ast ∨ s.bullet i = pls) (hn : n ≠ [])
    (h₁ : PInv s p₁) (h₂ : PInv s p₂) (hu₁ : p₁.spaces = s.unit) (hu₂ : p₂.spaces = s.unit)
    (hsh : p₁.sharp = p₂.sharp) :
    (parse p₁ (listRow s i k n)).2 = (parse p₂ (listRow s i k n)).2 ∧
    PInv s (parse p₁ (listRow s i k n)).1 ∧ ((parse p₁ (listRow s i k n)).1.spaces = s.unit) := by
  obtain ⟨q₁, e₁, inv₁, _, sp₁⟩ := parse_listRow_spelling s p₁ i k n hc hunit hb h₁ (by intro h0; omega) hn
  obtain ⟨q₂, e₂, _, _, _⟩ := parse_listRow_spelling s p₂ i k n hc hunit hb h₂ (by intro h0; omega) hn
  refine ⟨by rw [e₁, e₂, hsh], by rw [e₁]; exact inv₁, ?_⟩
  rw [e₁]
  rcases inv₁.spaces with h | h
  · have := (sp₁ h).1; omega
  · exact h

end Gtree

namespace Gtree

/-- C10 (splitter + generator workers): for EVERY sequence of rows – well-formed or not, heading roots, list
    roots, blank rows anywhere – the blocks the splitter cuts (Model/Split.lean, compared with the real
    splitter on every run), generated one after the other with a fresh stack each through the shared
    parser, give the roots the simple generator gives for the whole input, in the same order, or fail with
    the same first error: cutting the input into root blocks loses and invents nothing. -/
theorem C10_split_then_generate (rows : List Bytes) :
    (match genRows {} rows with
     | (g, none) => genBlocksSeq {} (splitBlocks rows) = (g.finishCur, none, g.p)
     | (_, some e) => (genBlocksSeq {} (splitBlocks rows)).2.1 = some e) :=
  split_generate rows

/-- what begins a block is exactly what the parser makes a root of, or rejects for its empty text -/
theorem C10_block_beginnings_are_roots (p : PState) (l : Bytes) :
    (rootBeginning l (p.sharp || isSharpRow l) = true →
      (∃ text, (parse p l).2 = .ok (1, text)) ∨ (parse p l).2 = .error .emptyText) ∧
    (rootBeginning l (p.sharp || isSharpRow l) = false →
      ∀ h text, (parse p l).2 = .ok (h, text) → 2 ≤ h) :=
  (parse_class p l).2

/-- non-vacuity: "- a", "  - b", "- c" is cut into two blocks -/
example : splitBlocks [[0x2D, 0x20, 0x61], [0x20, 0x20, 0x2D, 0x20, 0x62], [0x2D, 0x20, 0x63]]
    = [[[0x2D, 0x20, 0x61], [0x20, 0x20, 0x2D, 0x20, 0x62]], [[0x2D, 0x20, 0x63]]] := by decide

end Gtree

namespace Gtree

/-- C10 (any order of blocks): the root blocks of documents written in one valid notation, handed to the
    generator in ANY order (any permutation, any subset, any repetition – whichever worker gets which block
    when), starting from any state of the shared parser the notation can have produced, each yield the merged
    root the simple mode builds for that root; no block fails. -/
theorem C10_any_block_order (s : Spelling) : ∀ (blocks : List (T × Nat)) (p : PState),
    (∀ b ∈ blocks, s.Valid (items 1 [b.1])) → p.Within s →
    ∃ p', genBlocksSeq p (blocks.map (fun b => spellRows s b.2 (items 1 [b.1])))
            = (blocks.map (fun b => mergeRoot b.1), none, p') ∧ p'.Within s
  | [], p, _, hp => ⟨p, by simp [genBlocksSeq], hp⟩
  | b :: rest, p, hv, hp => by
    obtain ⟨p1, h1, hp1⟩ := block_any_state s b.1 b.2 p (hv b (by simp)) hp
    obtain ⟨p2, h2, hp2⟩ := C10_any_block_order s rest p1 (fun x hx => hv x (by simp [hx])) hp1
    exact ⟨p2, by simp [genBlocksSeq, h1, h2], hp2⟩

/-- C10 (row-level interleaving): while a worker parses the rows of its block, the shared parser may be
    changed before every one of its rows by the other workers – arbitrarily, within what parsing rows of
    the notation does to it (`Evolves`: the state stays within the notation, a learnt indent unit is kept,
    heading mode is not left). Whatever those changes are, the worker builds the merged root the simple
    mode builds, and no row of the block is rejected. -/
theorem C10_block_under_row_interleaving (s : Spelling) (t : T) (i : Nat) (p : PState)
    (hv : Nat → PState → PState) (hhv : ∀ j q, q.Within s → Evolves s q (hv j q))
    (hvalid : s.Valid (items 1 [t])) (hp : p.Within s) :
    ∃ g, genRowsHavoc hv 0 { p := p } (spellRows s i (items 1 [t])) = (g, none) ∧
      g.root = some (mergeRoot t) ∧ g.done = [] ∧ g.p.Within s :=
  block_havoc s t i p hv hhv hvalid hp

/-- … and every row a worker parses at a legal point of its own block is such a change for the others -/
theorem C10_parse_step_evolves (s : Spelling) (p : PState) (i h : Nat) (n : Bytes) (rest : List (Nat × Bytes))
    (hc : s.c = sp ∨ s.c = tab) (hunit : 1 ≤ s.unit)
    (hb : s.bullet i = hy ∨ s.bullet i = ast ∨ s.bullet i = pls)
    (hh : 1 ≤ h) (hname : NameOk s h n)
    (hw : p.Within s) (hfio : p.spaces = 0 → FIO s ((h, n) :: rest)) (hsharp : SharpInv s p ((h, n) :: rest)) :
    Evolves s p (parse p (rowOf s i h n)).1 :=
  parse_row_evolves s p i h n rest hc hunit hb hh hname hw hfio hsharp

end Gtree

namespace Gtree
/-- Tie to the source, re-checked on every run: the parser shared by the generator workers in the C10 theorems is `Parser.Parse` of markdown/parser.go as translated on this run. -/
theorem C10_parser_is_the_source (st : PState) (row : Bytes) :
    Src.Parser.Parse (toSrc st) row = (toSrc (parse st row).1, resSrc (parse st row).2) :=
  Parse_src st row

/-- the parser every generator starts with (`md.NewParser()` returns `&Parser{}`) is the model's initial state -/
example : toSrc {} = { isSharpRoot := false, spaces := 0, sep := [] } := rfl
end Gtree

namespace Gtree
/-- Tie to the source: the predicate by which the model's splitter (`splitStep`, `splitBlocks`) begins a new block
    is `isRootBlockBeginning` of input_spliter.go as translated on this run, for every row and either heading mode. -/
theorem C10_block_beginning_is_the_source (l : Bytes) (sharp : Bool) :
    Src.isRootBlockBeginning l sharp = rootBeginning l sharp :=
  isRootBlockBeginning_src l sharp

theorem C10_heading_row_is_the_source (l : Bytes) : Src.isSharpRootRow l = isSharpRow l :=
  isSharpRootRow_src l
end Gtree

namespace Gtree

/-- **C10, "mkdir leaves the same filesystem" — for every order in which the workers take the roots.**
    In the massive mode each root is checked ("does it exist already?") and created on its own, in the order
    the scheduler hands the roots out (`mkdirRootsEach`).  Under the hypotheses of `C06_exact` (good names,
    distinct sibling names, a clean target none of whose prefixes is a file, none of the roots present), for
    EVERY permutation of the forest: every per-root check passes, every root is created, the call succeeds, and
    the file system afterwards is — `lookup` of every path — the one the simple mode leaves.
    (Granularity: whole roots; the operations of two roots interleaved are covered for confinement by
    `C07_confined_massive`, for the result by the race-detector runs of the correspondence.) -/
theorem C10_mkdir_any_root_order (f : Fmt) (exts : List Bytes) (ts : List Bytes) (roots roots' : List T) (fs : FS)
    (hts : GoodList ts) (hg : AllGoodL roots) (hd : DistinctL roots) (hc : fs.Closed)
    (hnf : ∀ i < ts.length, notFile fs (key (ts.take (i + 1))))
    (hnone : anyRootExists fs (key ts) (roots.map (growRoot f)) = false)
    (hperm : roots'.Perm roots) :
    (mkdirRootsEach (key ts) exts fs (roots'.map (growRoot f))).2 = none ∧
    ∀ p, (mkdirRootsEach (key ts) exts fs (roots'.map (growRoot f))).1.lookup p
      = (mkdirRoots fs (key ts) exts (roots.map (growRoot f))).1.lookup p := by
  have habs := nodes_absent f exts ts roots fs hts hg hc hnone
  have habs' : ∀ e ∈ pathsOf exts ts roots', fs.lookup (key e.1) = none :=
    fun e he => habs e ((mem_pathsOf_perm exts ts hperm e).mp he)
  have hg' : AllGoodL roots' := (allGoodL_perm hperm).mpr hg
  have hd' : DistinctL roots' := (distinctL_perm hperm).mpr hd
  have heach := mkdirRootsEach_forest f exts ts hts fs hnf roots' [] (by simpa using hg') (by simpa using hd') (by simpa using habs')
  simp only [mkKids, List.nil_append] at heach
  rw [heach]
  refine ⟨rfl, ?_⟩
  obtain ⟨_, hex'⟩ := mkKids_exact exts roots' ts fs hts hg' hd' hnf habs'
  obtain ⟨_, hex⟩ := mkdirRoots_exact f exts ts roots fs hts hg hd hc hnf hnone
  by_cases hr : roots = []
  · subst hr
    have : roots' = [] := List.Perm.eq_nil hperm
    subst this
    intro p
    simp [mkKids, mkdirRoots, anyRootExists, mkdirRoots.go]
  · have hr' : roots' ≠ [] := by
      intro e; subst e; exact hr (List.Perm.eq_nil hperm.symm)
    exact exact_unique exts ts roots' roots fs _ _ hex' hex (mem_pathsOf_perm exts ts hperm) hr' hr

/-- non-vacuity: two roots `a` (holding `x`) and `b`, taken in the other order, into target `t` on the empty file system -/
example : ∃ (ts : List Bytes) (roots roots' : List T) (fs : FS), GoodList ts ∧ AllGoodL roots ∧ DistinctL roots ∧ fs.Closed ∧
    (∀ i < ts.length, notFile fs (key (ts.take (i + 1)))) ∧
    anyRootExists fs (key ts) (roots.map (growRoot Fmt.default)) = false ∧ roots'.Perm roots ∧ roots' ≠ roots := by
  refine ⟨[[116]], [T.mk [97] [T.mk [120] []], T.mk [98] []], [T.mk [98] [], T.mk [97] [T.mk [120] []]], [], ?_, ?_, ?_, ?_, ?_, ?_, ?_, by simp⟩
  · refine ⟨by simp, ?_⟩
    intro e he
    simp only [List.mem_singleton] at he
    subst he
    exact ⟨⟨by decide, by decide, by decide, by decide⟩, by decide, by decide⟩
  · simp only [AllGoodL, AllGoodT, and_true]
    exact ⟨⟨⟨⟨by decide, by decide, by decide, by decide⟩, by decide, by decide⟩,
      ⟨⟨by decide, by decide, by decide, by decide⟩, by decide, by decide⟩⟩,
      ⟨⟨by decide, by decide, by decide, by decide⟩, by decide, by decide⟩⟩
  · simp [DistinctL, DistinctT, T.name]
  · intro es _ h; exact absurd rfl h
  · intro i _ n; simp [FS.lookup]
  · decide
  · exact List.Perm.swap _ _ _

end Gtree

namespace Gtree

/-- **C10, "verify gives the same verdict" — for every order and every subset of workers reporting.**
    The massive verifier judges each root on its own (`verifyOne`: `verifyRoot` + `handleErr`, read-only) and the
    call fails as soon as any worker reports.  For every forest, file system, target and strictness, and every
    order in which the roots are taken (any list with the same members): some worker reports a difference or a
    failure exactly when the simple mode returns an error; and whatever the simple mode reports is what the
    worker of that root reports. -/
theorem C10_verify_verdict_any_order (fs : FS) (target : Bytes) (strict : Bool) (roots roots' : List (List Visit))
    (hsame : ∀ vs, vs ∈ roots' ↔ vs ∈ roots) :
    ((∃ vs ∈ roots', verifyOne fs target strict vs ≠ none) ↔ verifyRoots fs target strict roots ≠ none) ∧
    (∀ e, verifyRoots fs target strict roots = some e → ∃ vs ∈ roots', verifyOne fs target strict vs = some e) := by
  constructor
  · rw [Ne, verifyRoots_none_iff]
    constructor
    · intro ⟨vs, hvs, hne⟩ hall
      exact hne (hall vs ((hsame vs).mp hvs))
    · intro h
      apply Classical.byContradiction
      intro hno
      apply h
      intro vs hvs
      apply Classical.byContradiction
      intro hne
      exact hno ⟨vs, (hsame vs).mpr hvs, hne⟩
  · intro e he
    obtain ⟨vs, hvs, hv⟩ := verifyRoots_some fs target strict roots e he
    exact ⟨vs, (hsame vs).mpr hvs, hv⟩

end Gtree

namespace Gtree

/-- the worker of one root runs that root's operations in order (the recursion `makeDirectoriesAndFiles`) -/
theorem C10_worker_runs_its_operations (f : Fmt) (exts : List Bytes) (ts : List Bytes) (hts : GoodList ts)
    (t : T) (ht : AllGoodT t) (fs : FS) :
    mkNodes (key ts) exts fs (growRoot f t) = runE fs (opsTree exts ts t) := by
  rw [mkNodes_growRoot f exts ts hts t ht fs, mkKids_eq_runE]
  simp [opsKids]

/-- **C10, "mkdir leaves the same filesystem" — for every schedule of the file-system operations.**
    The workers of the massive mode run the roots' recursions concurrently, so the `MkdirAll` / `Create`
    operations of different roots reach the file system interleaved in an order the scheduler chooses.  Under
    the hypotheses of `C06_exact`, for EVERY interleaving `r` of the roots' operation sequences (each root's
    operations in its own order, `Interleave`): every operation succeeds, and the file system afterwards is —
    `lookup` of every path — the one the simple mode leaves.  (`run_char`: whatever the order, the state after a
    run is a function of the SET of operations executed; the plan's directory keys and file keys are disjoint,
    no directory key is a file beforehand, every `Create` follows the `MkdirAll` of its parent.) -/
theorem C10_mkdir_any_interleaving (f : Fmt) (exts : List Bytes) (ts : List Bytes) (roots : List T) (fs : FS)
    (hts : GoodList ts) (hg : AllGoodL roots) (hd : DistinctL roots) (hc : fs.Closed)
    (hnf : ∀ i < ts.length, notFile fs (key (ts.take (i + 1))))
    (hnone : anyRootExists fs (key ts) (roots.map (growRoot f)) = false)
    (r : List EOp) (hint : Interleave (roots.map (fun t => opsTree exts ts t)) r) :
    ∃ s, runE fs r = (s, none) ∧
      ∀ p, s.lookup p = (mkdirRoots fs (key ts) exts (roots.map (growRoot f))).1.lookup p := by
  have habs := nodes_absent f exts ts roots fs hts hg hc hnone
  obtain ⟨s, hrun, hsame⟩ := interleave_same exts ts roots fs hts hg hd hnf habs r hint
  refine ⟨s, hrun, fun p => ?_⟩
  rw [hsame p]
  simp only [mkdirRoots, hnone, Bool.false_eq_true, if_false]
  rw [mkdirRoots_go_forest f exts ts hts roots fs hg]

/-- non-vacuity: the operations of the roots `a` (holding the file `x.go`) and `b`, alternating -/
example : Interleave ([T.mk [97] [T.mk [120, 46, 103, 111] []], T.mk [98] []].map (fun t => opsTree [[46, 103, 111]] [[116]] t))
    [EOp.mk [[116], [97]], EOp.mk [[116], [98]], EOp.cr [[116], [97], [120, 46, 103, 111]]] := by
  have h1 : opsTree [[46, 103, 111]] [[116]] (T.mk [97] [T.mk [120, 46, 103, 111] []]) =
      [EOp.mk [[116], [97]], EOp.cr [[116], [97], [120, 46, 103, 111]]] := by decide
  have h2 : opsTree [[46, 103, 111]] [[116]] (T.mk [98] []) = [EOp.mk [[116], [98]]] := by decide
  simp only [List.map_cons, List.map_nil, h1, h2]
  exact Interleave.step [] [[EOp.mk [[116], [98]]]] _ _ _
    (Interleave.step [[EOp.cr [[116], [97], [120, 46, 103, 111]]]] [] [] _ _
      (Interleave.step [] [[]] [] _ _ (Interleave.done _ (by simp))))

end Gtree

namespace Gtree
/-- **The per-root "exists already?" check passes at any moment of any schedule.**  Whatever the other workers
    have executed so far (`done`: operations of the forest, every `Create` after its parent's `MkdirAll`, none of
    them an operation of root `t`), every one of those operations has succeeded and `isExistRoot` of `t` in the
    state they left says "does not exist" — so the worker of `t` goes on to create it (`pipeline_tree_mkdirer.go`). -/
theorem C10_exists_check_passes_any_moment (f : Fmt) (exts : List Bytes) (ts : List Bytes) (roots : List T) (fs : FS)
    (hts : GoodList ts) (hg : AllGoodL roots) (hd : DistinctL roots) (hc : fs.Closed)
    (hnf : ∀ i < ts.length, notFile fs (key (ts.take (i + 1))))
    (hnone : anyRootExists fs (key ts) (roots.map (growRoot f)) = false)
    (done : List EOp) (hmem : ∀ op ∈ done, op ∈ opsKids exts ts roots) (hord : Ordered done)
    (t : T) (ht : t ∈ roots) (hnot : ∀ op ∈ done, op ∉ opsTree exts ts t) :
    ∃ s, runE fs done = (s, none) ∧ anyRootExists s (key ts) [growRoot f t] = false :=
  exists_check_passes f exts ts roots fs hts hg hd hnf (nodes_absent f exts ts roots fs hts hg hc hnone)
    done hmem hord t ht hnot
end Gtree

namespace Gtree
/-- **C10, "walk callbacks see the same nodes with order preserved inside a root" — for every schedule.**  In the
    massive mode each root is walked by a worker, so the callbacks of different roots interleave.  For EVERY
    interleaving `r` of the roots' visit sequences (the sequences the simple mode produces root by root): `r` is a
    permutation of the simple mode's visits — the same nodes, each exactly as often — and whatever precedes a visit
    inside its own root precedes it in `r`. -/
theorem C10_walk_any_interleaving (f : Fmt) (roots : List T) (r : List Visit)
    (hint : Interleave (roots.map (growRoot f)) r) :
    r.Perm (roots.map (growRoot f)).flatten ∧
    ∀ (a : List Visit) (v : Visit) (b : List Visit), r = a ++ v :: b →
      ∃ t ∈ roots, ∃ la lb, growRoot f t = la ++ v :: lb ∧ ∀ x ∈ la, x ∈ a := by
  refine ⟨hint.perm, ?_⟩
  intro a v b e
  obtain ⟨l, hl, la, lb, hsplit, hsub⟩ := hint.before a v b e
  obtain ⟨t, ht, rfl⟩ := List.mem_map.mp hl
  exact ⟨t, ht, la, lb, hsplit, hsub⟩
end Gtree


namespace Gtree
/-- Tie to the source for the PER-ROOT WORK OF THE MASSIVE MODE (facts regenerated from pipeline_tree_*.go on every
    run, decided here): every stage type of the pipeline embeds the simple mode's type (`defaultGrowerPipeline` embeds
    `*defaultGrowerSimple`, …), its `worker` calls on its receiver exactly the simple mode's per-root methods —
    `assemble`; `isExistRoot` and `makeDirectoriesAndFiles`; `walkNode`; `spreadBranch` between `Lock` and `Unlock`;
    `verifyRoot` and `handleErr` — and the stage type declares no method of those names itself, so the calls are the
    promoted methods: the very functions that are translated in heap mode and proved equal to the model
    (`SrcH.defaultGrowerSimple.assemble`: `assemble_root`; `SrcH.defaultMkdirerSimple.makeDirectoriesAndFiles`:
    `mk_node`; `SrcH.defaultWalkerSimple.walkNode`: `walk_node`; `SrcH.defaultSpreaderSimple.spreadBranch`:
    `spread_node`; the verifier's verdict: §4.4).  What a worker does to one root in the massive mode is therefore
    what the simple mode does to it; the theorems of this file are about how the roots' work interleaves. -/
theorem C10_facts_workers_run_the_translated_functions :
    expectedWorkers.all workerOk = true ∧ Facts.workerCalls.length = expectedWorkers.length ∧
    (∀ (dg : SrcH.defaultGrowerSimple) (t : T) (h : SrcH.Heap) (r : Go.Ptr) (fuel : Nat),
      SrcH.Repr h t r 0 1 → (SrcH.ptrs h t r).Nodup → 2 * t.size + 1 ≤ fuel →
      ∃ h', SrcH.defaultGrowerSimple.assemble fuel h dg r = some (h', SrcH.expErr dg (growRoot (SrcH.fmtOf dg) t))) ∧
    (∀ (dm : SrcH.defaultMkdirerSimple) (h : SrcH.Heap) (t : T) (fs : FS) (p par : Go.Ptr) (lvl fuel : Nat),
      SrcH.Repr h t p par lvl → t.size ≤ fuel →
      SrcH.defaultMkdirerSimple.makeDirectoriesAndFiles fuel h fs dm p =
        some ((mkNodes dm.targetDir dm.fileConsiderer.extensions fs (SrcH.readNode h t p lvl)).1,
              SrcH.osErr (mkNodes dm.targetDir dm.fileConsiderer.extensions fs (SrcH.readNode h t p lvl)).2)) := by
  refine ⟨workers_run_the_simple_functions.1, workers_run_the_simple_functions.2, ?_, ?_⟩
  · intro dg t h r fuel hr hnd hf
    obtain ⟨h', hrun, _⟩ := SrcH.assemble_root dg t h r fuel hr hnd hf
    exact ⟨h', hrun⟩
  · intro dm h t fs p par lvl fuel hr hf
    exact SrcH.mk_node dm h t fs p par lvl fuel hr hf
end Gtree

namespace Gtree

/-- **C10 (facts: the massive generator).**  The worker of the massive mode's generator stage runs, for the rows of its
    block, the same row step as the simple mode's generators, and its format error names the row it was given. -/
theorem C10_facts_massive_generator_runs_the_same_row_step :
    coreOf (lookupL "rootGeneratorPipeline.worker" Facts.genSkeleton) = coreOf (lookupL "rootGeneratorSimple.generate" Facts.genSkeleton) ∧
    coreOf (lookupL "rootGeneratorPipeline.worker" Facts.genSkeleton) = coreOf (lookupL "rootGeneratorSimple.generateIter" Facts.genSkeleton) ∧
    (lookupL "rootGeneratorPipeline.worker" Facts.genSkeleton).contains "inputFormatError:row: row" = true := by decide

end Gtree

namespace Gtree

/-- **C10 (facts: which mode runs).**  The massive pipeline is built exactly when the configuration carries the massive
    option, by the same `initializeTree` every entry point goes through; otherwise the simple tree is. -/
theorem C10_facts_massive_mode_is_chosen_by_the_option_alone :
    lookupL "initializeTree" Facts.initTree =
      ["if:cfg.massive", "return", "call:newTreePipeline", "return", "call:newTreeSimple"] ∧
    Facts.entryTree.all (fun e => e.2.all (fun c =>
      ["initializeTree.output", "initializeTree.mkdir", "initializeTree.verify", "initializeTree.walk",
       "initializeTree.outputProgrammably", "initializeTree.mkdirProgrammably", "initializeTree.verifyProgrammably",
       "initializeTree.walkProgrammably", "initializeTree.walkIterProgrammably"].contains c)) = true :=
  ⟨entry_points_build_a_fresh_tree.2.2, by decide⟩

end Gtree

namespace Gtree

/-- **C10 (facts: the massive operations).**  Every operation of the massive tree is, on this run, the chain of stages the
    network model (`Model/Net.lean`) was written from: splitter and generator for the Markdown forms, the grower stage
    before the stage that consumes its roots, the wait for the stages' errors last. -/
theorem C10_facts_massive_operations_run_the_expected_stages :
    Facts.treePipelineCalls = expectedPipelineCalls ∧
    [("mkdir", "mkdirer.mkdir"), ("mkdirProgrammably", "mkdirer.mkdir"), ("verify", "verifier.verify"),
     ("verifyProgrammably", "verifier.verify"), ("walk", "walker.walk"), ("walkProgrammably", "walker.walk"),
     ("output", "spreader.spread"), ("outputProgrammably", "spreader.spread")].all
      (fun e => calledBefore "grower.grow" e.2 (lookupL e.1 Facts.treePipelineCalls) &&
        (lookupL e.1 Facts.treePipelineCalls).getLast? == some "t.handlePipelineErr") = true :=
  ⟨massive_operations_are_as_expected, massive_operations_validate_then_grow_then_use.2⟩

end Gtree
