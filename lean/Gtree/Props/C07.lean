import Gtree.Lemmas.SourceConfig
import Gtree.Lemmas.HeapCompose
import Gtree.Lemmas.HeapMkdir
import Gtree.Lemmas.HeapGrower
import Gtree.Lemmas.SourceRefines
import Gtree.Lemmas.Validate
import Gtree.Props.C05
import Gtree.Lemmas.Confined
import Gtree.Lemmas.MkOps
import Gtree.Lemmas.TreeFacts
/-
  C07 — names are validated first: a tree containing a name that is not a single valid path element
  is rejected, and (without the massive option) nothing at all is created – for From-Markdown and
  From-Root, real and dry-run, every extension list, every file-system state.
-/
namespace Gtree

/-- an invalid name anywhere in the forest makes validation fail -/
theorem invalid_name_detected (vs : List Visit) (h : ∃ v ∈ vs, singleElem v.name = false) :
    ∃ e, validateVisits vs = some e := by
  cases hv : validateVisits vs with
  | some e => exact ⟨e, rfl⟩
  | none =>
    obtain ⟨v, hmem, hbad⟩ := h
    have := validateVisit_none_single v (validateVisits_none_mem vs hv v hmem)
    rw [this] at hbad
    exact absurd hbad (by decide)

/-- C07 (second sentence): rejected with an error, the file system unchanged, nothing printed -/
theorem C07_invalid_name_rejected (f : Fmt) (exts : List Bytes) (target : Bytes) (dry : Bool) (roots : List T) (fs : FS)
    (h : ∃ v ∈ (roots.map (growRoot f)).flatten, singleElem v.name = false) :
    ∃ e, (mkdirRootsApi f exts target dry roots fs).err = some (.val e) ∧
         (mkdirRootsApi f exts target dry roots fs).fs = fs ∧
         (mkdirRootsApi f exts target dry roots fs).written = [] := by
  obtain ⟨e, he⟩ := invalid_name_detected _ h
  exact ⟨e, by simp [mkdirRootsApi, he]⟩

/-- the same through the From-Markdown entry point -/
theorem C07_invalid_name_rejected_md (f : Fmt) (exts : List Bytes) (target : Bytes) (dry : Bool) (inp : Input) (fs : FS)
    (hgen : (generate inp).err = none)
    (h : ∃ v ∈ ((generate inp).roots.map (growRoot f)).flatten, singleElem v.name = false) :
    ∃ e, (mkdirMd f exts target dry inp fs).err = some (.val e) ∧ (mkdirMd f exts target dry inp fs).fs = fs := by
  obtain ⟨e, h1, h2, _⟩ := C07_invalid_name_rejected f exts target dry (generate inp).roots fs h
  exact ⟨e, by simp [mkdirMd, hgen, h1], by simp [mkdirMd, hgen, h2]⟩

/-- every error before creation leaves the file system as it was (generation and validation errors) -/
theorem C07_no_effect_on_generation_error (f : Fmt) (exts : List Bytes) (target : Bytes) (dry : Bool) (inp : Input) (fs : FS)
    (e : GErr) (hgen : (generate inp).err = some e) : (mkdirMd f exts target dry inp fs).fs = fs := by
  simp [mkdirMd, hgen]

/-- what a validated name is -/
theorem C07_valid_name_shape (n : Bytes) :
    singleElem n = true ↔ (n ≠ [] ∧ n ≠ [dot] ∧ n ≠ [dot, dot] ∧ slash ∉ n) := by
  unfold singleElem dotdot
  simp only [Bool.and_eq_true, Bool.not_eq_eq_eq_not, Bool.not_true, bne_iff_ne, ne_eq,
    List.isEmpty_eq_false_iff, List.contains_eq_mem, decide_eq_false_iff_not, and_assoc]

end Gtree

namespace Gtree

theorem specPaths_shape : ∀ (ks : List T) (pre : List Bytes), (∀ e ∈ pre, Elem e) → AllElemL ks →
    ∀ p ∈ specPaths pre ks, ∃ names : List Bytes, names ≠ [] ∧ (∀ n ∈ names, Elem n) ∧ p = joinSlash names
  | [], _, _, _, p, hp => by simp [specPaths] at hp
  | T.mk n sub :: rest, pre, hpre, hk, p, hp => by
    rw [AllElemL, AllElemT] at hk
    obtain ⟨⟨hn, hsub⟩, hrest⟩ := hk
    have hpre' : ∀ e ∈ pre ++ [n], Elem e := by
      intro e he
      rcases List.mem_append.mp he with he | he
      · exact hpre e he
      · simp only [List.mem_singleton] at he; subst he; exact hn
    simp only [specPaths, List.mem_cons, List.mem_append] at hp
    rcases hp with (rfl | hp) | hp
    · exact ⟨pre ++ [n], by simp, hpre', rfl⟩
    · exact specPaths_shape sub (pre ++ [n]) hpre' hsub p hp
    · exact specPaths_shape rest pre hpre hrest p hp
termination_by ks => sizeOf ks

/-- C07 (first sentence, lexical part): for a tree whose names are single valid path elements (what
    validation guarantees) and a clean relative target directory, every path handed to the file
    system for a node is the target, one '/', and names from the root joined by '/': there is no
    way up and out of the target. -/
theorem C07_paths_under_target (f : Fmt) (t : T) (h : AllElemT t) (ts : List Bytes) (ht : ts ≠ [])
    (hts : ∀ e ∈ ts, Elem e) :
    ∀ v ∈ growRoot f t, ∃ names : List Bytes, names ≠ [] ∧ (∀ n ∈ names, Elem n) ∧
      v.path = joinSlash names ∧
      filepathJoin [joinSlash ts, v.path] = joinSlash ts ++ slash :: joinSlash names := by
  intro v hv
  have hmem : v.path ∈ specPaths [] [t] := by
    rw [← C05_path f t h]
    exact List.mem_map_of_mem hv
  obtain ⟨names, hne, hel, hp⟩ := specPaths_shape [t] [] (by simp) (by rw [AllElemL]; exact ⟨h, by rw [AllElemL]; trivial⟩) v.path hmem
  refine ⟨names, hne, hel, hp, ?_⟩
  rw [hp]
  exact filepathJoin_valid ts names ht hne hts hel

end Gtree

namespace Gtree

theorem mkdirRoots_go_changes (target : Bytes) (exts : List Bytes) : ∀ (roots : List (List Visit)) (fs : FS) (p : Bytes),
    (∀ vs ∈ roots, ∀ v ∈ vs, p ∉ touched target exts v) →
    (mkdirRoots.go target exts fs roots).1.lookup p = fs.lookup p
  | [], fs, p, _ => by simp [mkdirRoots.go]
  | vs :: rest, fs, p, h => by
    have h1 := mkNodes_changes target exts vs fs p (h vs (by simp))
    simp only [mkdirRoots.go]
    cases hm : mkNodes target exts fs vs with
    | mk fs1 e1 =>
      rw [hm] at h1
      cases e1 with
      | some e => exact h1
      | none =>
        simp only
        rw [mkdirRoots_go_changes target exts rest fs1 p (fun ws hws => h ws (by simp [hws]))]
        exact h1

/-- C07 (first sentence), for EVERY forest (any names), every extension list, dry-run or real, every file
    system and every outcome (success, path-exists, OS refusal half-way): with a clean relative target
    directory, the only keys of the file system a From-Root Mkdir can change are non-empty prefixes of
    the target path, the target, and paths below the target. Either a name is invalid and nothing
    changes at all, or every path handed to MkdirAll / Create is the target joined with valid names. -/
theorem C07_confined (f : Fmt) (exts : List Bytes) (ts : List Bytes) (hts : ts ≠ []) (hte : ∀ e ∈ ts, Elem e)
    (dry : Bool) (roots : List T) (fs : FS) (p : Bytes)
    (hp : (mkdirRootsApi f exts (key ts) dry roots fs).fs.lookup p ≠ fs.lookup p) : InTarget ts p := by
  simp only [mkdirRootsApi] at hp
  cases hv : validateVisits (roots.map (growRoot f)).flatten with
  | some e => simp [hv] at hp
  | none =>
    simp only [hv] at hp
    cases dry with
    | true => simp at hp
    | false =>
      simp only [Bool.false_eq_true, if_false] at hp
      have hchanged : (mkdirRoots fs (key ts) exts (roots.map (growRoot f))).1.lookup p ≠ fs.lookup p := by
        cases hm : mkdirRoots fs (key ts) exts (roots.map (growRoot f)) with
        | mk fs' e' =>
          rw [hm] at hp
          cases e' <;> simpa using hp
      unfold mkdirRoots at hchanged
      by_cases hex : anyRootExists fs (key ts) (roots.map (growRoot f)) = true
      · simp [hex] at hchanged
      · simp only [hex, Bool.false_eq_true, if_false] at hchanged
        -- some visit touches p
        have : ¬ (∀ vs ∈ roots.map (growRoot f), ∀ v ∈ vs, p ∉ touched (key ts) exts v) :=
          fun hall => hchanged (mkdirRoots_go_changes (key ts) exts _ fs p hall)
        have hsome : ∃ vs ∈ roots.map (growRoot f), ∃ v ∈ vs, p ∈ touched (key ts) exts v := by
          apply Classical.byContradiction
          intro hno
          apply this
          intro vs hvs v hvv hpt
          exact hno ⟨vs, hvs, v, hvv, hpt⟩
        obtain ⟨vs, hvs, v, hvv, hpt⟩ := hsome
        obtain ⟨t, ht, rfl⟩ := List.mem_map.mp hvs
        have hvalid : AllElemT t := by
          apply allElemT_of_visits f t
          intro w hw
          have hmem : w ∈ (roots.map (growRoot f)).flatten :=
            List.mem_flatten.mpr ⟨growRoot f t, List.mem_map.mpr ⟨t, ht, rfl⟩, hw⟩
          exact elem_of_singleElem _ (validateVisit_none_single w (validateVisits_none_mem _ hv w hmem))
        exact touched_inTarget f exts ts hts hte t hvalid v hvv p hpt

/-- the same through the From-Markdown entry point, for every document -/
theorem C07_confined_md (f : Fmt) (exts : List Bytes) (ts : List Bytes) (hts : ts ≠ []) (hte : ∀ e ∈ ts, Elem e)
    (dry : Bool) (inp : Input) (fs : FS) (p : Bytes)
    (hp : (mkdirMd f exts (key ts) dry inp fs).fs.lookup p ≠ fs.lookup p) : InTarget ts p := by
  simp only [mkdirMd] at hp
  cases hg : (generate inp).err with
  | some e => simp [hg] at hp
  | none =>
    simp only [hg] at hp
    exact C07_confined f exts ts hts hte dry _ fs p hp


/-- **C07 in the massive mode, for every schedule.**  There each root is validated and created by concurrent
    workers, so the file-system operations of different roots happen in an order the scheduler chooses, a
    root with an invalid name is dropped while the others go on, and a failure stops only its own root.
    Whatever the order — ANY sequence of operations (`MkdirAll` / `Create`) that belong to nodes of roots which
    passed their validation, interleaved in any way, repeated any number of times, cut off at any point, each
    running to its end whatever the others did — with a clean relative target the only keys of the file
    system whose `lookup` can differ afterwards are prefixes of the target, the target and paths below it.
    (The simple mode is the special case `mkNodes_eq_runOps`: the nodes' operations in pre-order.) -/
theorem C07_confined_massive (f : Fmt) (exts : List Bytes) (ts : List Bytes) (hts : ts ≠ []) (hte : ∀ e ∈ ts, Elem e)
    (roots : List T) (ops : List FsOp)
    (hops : ∀ op ∈ ops, ∃ t ∈ roots, validateVisits (growRoot f t) = none ∧ ∃ v ∈ growRoot f t, op ∈ opsOf (key ts) exts v)
    (fs : FS) (p : Bytes) (hp : (applyAll fs ops).lookup p ≠ fs.lookup p) : InTarget ts p := by
  apply Classical.byContradiction
  intro hnot
  apply hp
  -- the nodes of the validated roots
  let nodes : List Visit := (roots.filter (fun t => (validateVisits (growRoot f t)).isNone)).flatMap (growRoot f)
  apply applyAll_changes (key ts) exts nodes ops fs p
  · intro op hop
    obtain ⟨t, ht, hval, v, hv, hin⟩ := hops op hop
    refine ⟨v, ?_, hin⟩
    simp only [nodes, List.mem_flatMap, List.mem_filter]
    exact ⟨t, ⟨ht, by simp [hval]⟩, hv⟩
  · intro v hv hpt
    simp only [nodes, List.mem_flatMap, List.mem_filter] at hv
    obtain ⟨t, ⟨_, hval⟩, hvt⟩ := hv
    have hval' : validateVisits (growRoot f t) = none := by
      cases h : validateVisits (growRoot f t) with
      | none => rfl
      | some e => simp [h] at hval
    have hvalid : AllElemT t := by
      apply allElemT_of_visits f t
      intro w hw
      exact elem_of_singleElem _ (validateVisit_none_single w (validateVisits_none_mem _ hval' w hw))
    exact hnot (touched_inTarget f exts ts hts hte t hvalid v hvt p hpt)

/-- the operation view is the simple mode's mkdirer: `mkNodes` runs its nodes' operations in pre-order and
    stops at the first failure -/
theorem C07_simple_is_ops_in_order (target : Bytes) (exts : List Bytes) (vs : List Visit) (fs : FS) :
    mkNodes target exts fs vs = runOps fs (vs.flatMap (opsOf target exts)) :=
  mkNodes_eq_runOps target exts vs fs

end Gtree

namespace Gtree
/-- Tie to the source: the validation the C07 theorems are about is `Node.validatePath` (node.go, translated on this
    run) — the name must be one path element (not empty, not "." or "..", no "/"), then the node's path must be valid
    for io/fs; the first failure is the error and carries the offending name / path. -/
theorem C07_validation_is_the_source (v : Visit) (hroot : v.level = 1 → v.path = v.name) :
    Src.Node.validatePath (visitNode v) = (validateVisit v).map verrSrc :=
  validatePath_src v hroot
end Gtree

namespace Gtree
open Gtree.Src in
/-- Tie to the source: the configuration of Mkdir (`newConfigWithoutEncode`, config.go, translated on this run) keeps
    every option except the encoding — in particular dry run (which switches name validation on) and the target
    directory are what the caller asked for, whatever encoding option is also in the list. -/
theorem C07_mkdir_config_in_the_source (xs : List (Option (config → config))) :
    newConfigWithoutEncode xs = { newConfig xs with encode := encodeDefault } :=
  newConfigWithoutEncode_src xs
end Gtree

namespace Gtree
/-- Tie to the source, pointer code included (heap mode of /verif/translate, regenerated on every run): WHEN and IN
    WHICH ORDER names are validated.  The translated grower (`grow` → `assemble` → `assembleBranch` →
    `Node.validatePath`, over an explicit heap) returns, for every heap that holds a forest and every fuel above
    `2·size + 1`, exactly the model's verdict: with validation enabled the first invalid name or path in pre-order
    over the whole forest (`validateVisits` of the grown visits), otherwise nothing — and every node's path it
    validates is the one the model computes.  Mkdir and Verify enable validation before they touch the file
    system (facts), so "validates first" is a statement about this function. -/
theorem C07_grower_validates_in_the_source (dg : SrcH.defaultGrowerSimple) (ts : List T) (h : SrcH.Heap)
    (rs : List Go.Ptr) (fuel : Nat) (hr : SrcH.ReprRoots h ts rs) (hnd : (SrcH.ptrsKids h ts rs).Nodup)
    (hf : 2 * sizeList ts + 1 ≤ fuel) :
    ∃ h', SrcH.defaultGrowerSimple.grow fuel h dg rs =
      some (h', if dg.enabledValidation then (validateVisits (ts.flatMap (growRoot (SrcH.fmtOf dg)))).map verrSrc
                else none) := by
  obtain ⟨h', hrun, _⟩ := SrcH.grow_forest dg ts h rs fuel hr hnd hf
  exact ⟨h', hrun⟩
end Gtree

namespace Gtree
/-- Tie to the source, pointer code and operating-system calls included (heap mode of /verif/translate,
    `Generated/SourceHeap.lean`, regenerated on every run): the MKDIRER of simple_tree_mkdirer.go — `mkdir`,
    `isExistRoot`, the recursion `makeDirectoriesAndFiles`, `mkdirAll`, `mkfile` — with `fileConsiderer.isFile`,
    translated statement by statement over an explicit heap and the file-system model (`os.Stat`, `os.MkdirAll`,
    `os.Create` are the model's operations).  For every heap that holds a forest, every file system, target,
    extension list, and every fuel above the forest's size, the translated `mkdir` is the model's `mkdirRoots` on
    what is read from the nodes: nothing is touched and `ErrExistPath` is returned when some root exists already
    (any outcome of Stat other than "does not exist"); otherwise for every node in pre-order a childless node whose
    name ends with an extension gets `MkdirAll(parent)` then `Create`, any other childless node `MkdirAll`, a node
    with children nothing itself; the first refusal ends the run and is returned.  The theorems about `mkNodes` /
    `mkdirRoots` (exactness, confinement, preservation) are therefore theorems about this code. -/
theorem C07_mkdirer_is_the_source (dm : SrcH.defaultMkdirerSimple) (h : SrcH.Heap) (ts : List T) (fs : FS)
    (rs : List Go.Ptr) (fuel : Nat) (hr : SrcH.ReprRoots h ts rs) (hf : sizeList ts ≤ fuel) :
    SrcH.defaultMkdirerSimple.mkdir fuel h fs dm rs =
      some ((mkdirRoots fs dm.targetDir dm.fileConsiderer.extensions (SrcH.rootVisits h ts rs)).1,
            SrcH.mkErrSrc (mkdirRoots fs dm.targetDir dm.fileConsiderer.extensions (SrcH.rootVisits h ts rs)).2) :=
  SrcH.mkdir_heap dm h ts fs rs fuel hr hf
end Gtree

namespace Gtree
/-- "Validates first" on the translated code (heap mode, regenerated on every run): in the composition grow-then-mkdir of
    `treeSimple.mkdir`, every node of every root has been validated by the translated grower — in pre-order over the
    whole forest — before the translated mkdirer issues its first `MkdirAll` / `Create`: the grower returns the model's
    first validation error, and only when there is none does the mkdirer run, on exactly the visits that were
    validated. -/
theorem C07_validates_before_creating_in_the_source (dg : SrcH.defaultGrowerSimple) (dm : SrcH.defaultMkdirerSimple) (ts : List T) (h : SrcH.Heap) (fs : FS)
    (rs : List Go.Ptr) (fuel : Nat) (hv : dg.enabledValidation = true)
    (hr : SrcH.ReprRoots h ts rs) (hnd : (SrcH.ptrsKids h ts rs).Nodup) (hf : 2 * sizeList ts + 1 ≤ fuel) :
    ∃ h', SrcH.defaultGrowerSimple.grow fuel h dg rs =
        some (h', (validateVisits (ts.map (growRoot (SrcH.fmtOf dg))).flatten).map verrSrc) ∧
      (validateVisits (ts.map (growRoot (SrcH.fmtOf dg))).flatten = none →
        SrcH.defaultMkdirerSimple.mkdir fuel h' fs dm rs =
          some ((mkdirRoots fs dm.targetDir dm.fileConsiderer.extensions (ts.map (growRoot (SrcH.fmtOf dg)))).1,
                SrcH.mkErrSrc (mkdirRoots fs dm.targetDir dm.fileConsiderer.extensions (ts.map (growRoot (SrcH.fmtOf dg)))).2)) :=
  SrcH.grow_then_mkdir dg dm ts h fs rs fuel hv hr hnd hf
end Gtree

namespace Gtree

/-- **C07 (facts: composition).**  Every operation of the simple tree that creates or compares directories switches
    the grower's validation on before it grows anything, and grows before it does anything else. -/
theorem C07_facts_validation_is_enabled_before_growing :
    ["mkdir", "mkdirProgrammably", "verify", "verifyProgrammably"].all
      (fun op => (lookupL op Facts.treeSimpleCalls).take 2 == ["grower.enableValidation", "grower.grow"]) = true :=
  validating_operations_enable_validation_first

end Gtree

namespace Gtree

/-- **C07 (facts: the massive tree).**  The massive tree's Mkdir and Verify operations, from Markdown and from a root,
    enable the grower's validation before the grower stage is started. -/
theorem C07_facts_massive_validation_is_enabled_before_growing :
    ["mkdir", "mkdirProgrammably", "verify", "verifyProgrammably"].all
      (fun op => calledBefore "grower.enableValidation" "grower.grow" (lookupL op Facts.treePipelineCalls)) = true :=
  massive_operations_validate_then_grow_then_use.1

end Gtree
