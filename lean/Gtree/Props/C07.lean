import Gtree.Lemmas.Validate
/-
  C07 — names are validated first: a tree containing a name that is not a single valid path element
  is rejected, and (without the massive option) nothing at all is created – for From-Markdown and
  From-Root, real and dry-run, every extension list, every file-system state.
-/
namespace Gtree

/-- an invalid name anywhere in the forest makes validation fail -/
theorem invalid_name_detected (vs : List Visit) (h : ∃ v ∈ vs, singleElem v.name = false) :
    ∃ e, validateVisits vs = some e := by
  cases hv : validateVisits vs with
  | some e => exact ⟨e, rfl⟩
  | none =>
    obtain ⟨v, hmem, hbad⟩ := h
    have := validateVisit_none_single v (validateVisits_none_mem vs hv v hmem)
    rw [this] at hbad
    exact absurd hbad (by decide)

/-- C07 (second sentence): rejected with an error, the file system unchanged, nothing printed -/
theorem C07_invalid_name_rejected (f : Fmt) (exts : List Bytes) (target : Bytes) (dry : Bool) (roots : List T) (fs : FS)
    (h : ∃ v ∈ (roots.map (growRoot f)).flatten, singleElem v.name = false) :
    ∃ e, (mkdirRootsApi f exts target dry roots fs).err = some (.val e) ∧
         (mkdirRootsApi f exts target dry roots fs).fs = fs ∧
         (mkdirRootsApi f exts target dry roots fs).written = [] := by
  obtain ⟨e, he⟩ := invalid_name_detected _ h
  exact ⟨e, by simp [mkdirRootsApi, he]⟩

/-- the same through the From-Markdown entry point -/
theorem C07_invalid_name_rejected_md (f : Fmt) (exts : List Bytes) (target : Bytes) (dry : Bool) (inp : Input) (fs : FS)
    (hgen : (generate inp).err = none)
    (h : ∃ v ∈ ((generate inp).roots.map (growRoot f)).flatten, singleElem v.name = false) :
    ∃ e, (mkdirMd f exts target dry inp fs).err = some (.val e) ∧ (mkdirMd f exts target dry inp fs).fs = fs := by
  obtain ⟨e, h1, h2, _⟩ := C07_invalid_name_rejected f exts target dry (generate inp).roots fs h
  exact ⟨e, by simp [mkdirMd, hgen, h1], by simp [mkdirMd, hgen, h2]⟩

/-- every error before creation leaves the file system as it was (generation and validation errors) -/
theorem C07_no_effect_on_generation_error (f : Fmt) (exts : List Bytes) (target : Bytes) (dry : Bool) (inp : Input) (fs : FS)
    (e : GErr) (hgen : (generate inp).err = some e) : (mkdirMd f exts target dry inp fs).fs = fs := by
  simp [mkdirMd, hgen]

/-- what a validated name is -/
theorem C07_valid_name_shape (n : Bytes) :
    singleElem n = true ↔ (n ≠ [] ∧ n ≠ [dot] ∧ n ≠ [dot, dot] ∧ slash ∉ n) := by
  unfold singleElem dotdot
  simp only [Bool.and_eq_true, Bool.not_eq_eq_eq_not, Bool.not_true, bne_iff_ne, ne_eq,
    List.isEmpty_eq_false_iff, List.contains_eq_mem, decide_eq_false_iff_not, and_assoc]

end Gtree
