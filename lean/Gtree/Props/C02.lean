import Gtree.Lemmas.SourceRefines
import Gtree.Lemmas.HeapBuilder
import Gtree.Lemmas.HeapZipper
import Gtree.Lemmas.MalformedIff
import Gtree.Lemmas.Names
import Gtree.Lemmas.Build
import Gtree.Lemmas.ParseDoc
import Gtree.Lemmas.ParseMixed
import Gtree.Lemmas.GenFacts
/-
  C02 — a document is rendered completely or rejected: no silent loss.
  Proved here about the model of the repaired generator:
   * when nil is returned, the item text of every row that is not blank is the name of a node of the result;
   * a format error names a row of the input;
   * decision lemmas: rows of the malformation classes "no bullet", "empty item text", "nested more than
     one level deeper", "item before the first root" are rejected.
   * class M3 "indentation not a whole multiple of the unit" likewise (`C02_not_multiple_rejected`).
  Not proved (stated in DESIGN.md): the full "error iff some row is malformed" with a declarative
  `Malformed` predicate; "mixed tabs and spaces" is covered by the correspondence suite only.
-/
namespace Gtree

/-- names of everything built so far -/
def namesG (g : GState) : List Bytes :=
  namesL g.done ++ (match g.cur with | none => [] | some z => namesZ z)

/-- the item texts of the rows, as the parser reads them in sequence -/
def textsOf (p : PState) : List Bytes → List Bytes
  | [] => []
  | r :: rs => match parse p r with
    | (p', .ok (_, t)) => t :: textsOf p' rs
    | (p', .error _) => textsOf p' rs

theorem closeTo_ne_nil (n : Nat) (z : Zipper) (h : z ≠ []) : closeTo n z ≠ [] := by
  have key : ∀ k (z : Zipper), z ≠ [] → upN k z ≠ [] := by
    intro k
    induction k with
    | zero => intro z hz; exact hz
    | succ k ih =>
      intro z hz
      rw [upN]
      apply ih
      match z with
      | [] => exact absurd rfl hz
      | [f] => simp [upOne]
      | f :: p :: rest => simp [upOne]
  exact key _ z h

theorem mem_names_closeAll (z : Zipper) (hz : z ≠ []) :
    ∃ t, closeAll z = some t ∧ ∀ x, x ∈ namesT t ↔ x ∈ namesZ z := by
  have hlen : (closeTo 1 z).length = 1 := closeTo_length 1 z (by omega) (by
    cases z with
    | nil => exact absurd rfl hz
    | cons f r => simp)
  match hc : closeTo 1 z, hlen with
  | [f], _ =>
    refine ⟨f.close, by simp [closeAll, hc], ?_⟩
    intro x
    rw [← mem_namesZ_closeTo x 1 z, hc]
    simp [namesZ, namesF, Frame.close, namesT, namesL_append]

/-- an accepted item is in the result, and nothing already there is lost -/
theorem addItem_names (g g' : GState) (h : Nat) (text row : Bytes) (hcur : ∀ z, g.cur = some z → z ≠ [])
    (hok : addItem g h text row = .ok g') :
    text ∈ namesG g' ∧ (∀ y ∈ namesG g, y ∈ namesG g') ∧ (∀ z, g'.cur = some z → z ≠ []) := by
  unfold addItem at hok
  by_cases h1 : (h == 1) = true
  · simp only [h1, if_true, Except.ok.injEq] at hok
    subst hok
    refine ⟨by simp [namesG, namesZ, namesF], ?_, by simp⟩
    intro y hy
    simp only [namesG, GState.finishCur, List.mem_append] at hy ⊢
    left
    cases hc : g.cur with
    | none => simpa [hc] using hy
    | some z =>
      simp only [hc] at hy ⊢
      obtain ⟨t, ht, hmem⟩ := mem_names_closeAll z (hcur z hc)
      simp only [ht, namesL_append, namesL, List.mem_append, List.append_nil]
      rcases hy with hy | hy
      · exact Or.inl hy
      · exact Or.inr ((hmem y).mpr hy)
  · simp only [h1, Bool.false_eq_true, if_false] at hok
    cases hc : g.cur with
    | none => simp [hc] at hok
    | some z =>
      simp only [hc] at hok
      cases hd : dfs h text z with
      | none => simp [hd] at hok
      | some z' =>
        simp only [hd, Except.ok.injEq] at hok
        subst hok
        have hz' : z' = descend text (closeTo (h - 1) z) := by
          unfold dfs at hd
          split at hd
          · simp at hd
          · split at hd
            · simp at hd
            · simpa using hd.symm
        have hne := closeTo_ne_nil (h - 1) z (hcur z hc)
        obtain ⟨f, rest, hfr⟩ : ∃ f rest, closeTo (h - 1) z = f :: rest := by
          cases hct : closeTo (h - 1) z with
          | nil => exact absurd hct hne
          | cons f rest => exact ⟨f, rest, rfl⟩
        have hmem : ∀ y, y ∈ namesZ z' ↔ (y = text ∨ y ∈ namesZ z) := by
          intro y
          rw [hz', hfr, mem_namesZ_descend, ← hfr, mem_namesZ_closeTo]
        refine ⟨by simp [namesG, (hmem text).mpr (Or.inl rfl)], ?_, ?_⟩
        · intro y hy
          simp only [namesG, hc, List.mem_append] at hy ⊢
          rcases hy with hy | hy
          · exact Or.inl hy
          · exact Or.inr ((hmem y).mpr (Or.inr hy))
        · intro z'' hz''
          simp only [Option.some.injEq] at hz''
          subst hz''
          rw [hz', hfr]
          simp only [descend]
          split <;> simp

/-- No silent loss, at the level of the row fold: if all rows are accepted, the item text of every
    row that parsed to an item is the name of some node built. -/
theorem genRows_no_loss : ∀ (rows : List Bytes) (g g' : GState), (∀ z, g.cur = some z → z ≠ []) →
    genRows g rows = (g', none) →
    (∀ t ∈ textsOf g.p rows, t ∈ namesG g') ∧ (∀ y ∈ namesG g, y ∈ namesG g')
  | [], g, g', _, h => by
    simp only [genRows, Prod.mk.injEq, and_true] at h
    subst h
    simp [textsOf]
  | r :: rs, g, g', hcur, h => by
    simp only [genRows] at h
    cases hs : genStep g r with
    | error e => simp [hs] at h
    | ok g1 =>
      simp only [hs] at h
      unfold genStep at hs
      cases hp : parse g.p r with
      | mk p' res =>
        simp only [hp] at hs
        cases res with
        | error e =>
          cases e with
          | blank =>
            simp only [Except.ok.injEq] at hs
            subst hs
            obtain ⟨ih1, ih2⟩ := genRows_no_loss rs { g with p := p' } g' hcur h
            refine ⟨?_, ih2⟩
            intro t ht
            simp only [textsOf, hp] at ht
            exact ih1 t ht
          | emptyText => simp at hs
          | incorrect => simp at hs
        | ok ht =>
          obtain ⟨hh, text⟩ := ht
          simp only at hs
          obtain ⟨hin, hkeep, hcur1⟩ := addItem_names { g with p := p' } g1 hh text r hcur hs
          have hp1 : g1.p = p' := by
            unfold addItem at hs
            split at hs
            · simp only [Except.ok.injEq] at hs; subst hs; rfl
            · split at hs
              · simp at hs
              · split at hs
                · simp at hs
                · simp only [Except.ok.injEq] at hs; subst hs; rfl
          obtain ⟨ih1, ih2⟩ := genRows_no_loss rs g1 g' hcur1 h
          refine ⟨?_, fun y hy => ih2 y (hkeep y hy)⟩
          intro t ht
          simp only [textsOf, hp, List.mem_cons] at ht
          rcases ht with rfl | ht
          · exact ih2 t hin
          · rw [hp1] at ih1; exact ih1 t ht

/-- C02, "nothing the user wrote is dropped": when generation returns no error, the item text of every
    row that is not blank is the name of a node of one of the resulting roots. -/
theorem C02_no_silent_loss (doc : Bytes) (h : (generate { doc := doc }).err = none) :
    ∀ t ∈ textsOf {} (scanLines doc).rows, t ∈ namesL (generate { doc := doc }).roots := by
  unfold generate generateFrom at h ⊢
  cases hg : genRows {} (scanLines doc).rows with
  | mk g' e =>
    simp only [hg] at h ⊢
    cases e with
    | some err =>
      simp only at h
      split at h <;> simp at h
    | none =>
      obtain ⟨h1, _⟩ := genRows_no_loss _ {} g' (by simp) hg
      intro t ht
      have hm := h1 t ht
      simp only at h ⊢
      -- the roots reported are the done ones plus the closed pending one
      have hroots : ∀ x, x ∈ namesG g' → x ∈ namesL (g'.done ++ (match g'.cur with | none => none | some z => closeAll z).toList) := by
        intro x hx
        simp only [namesG, List.mem_append] at hx
        rw [namesL_append, List.mem_append]
        rcases hx with hx | hx
        · exact Or.inl hx
        · right
          cases hc : g'.cur with
          | none => simp [hc] at hx
          | some z =>
            simp only [hc] at hx ⊢
            by_cases hz : z = []
            · subst hz; simp [namesZ] at hx
            · obtain ⟨t', ht', hmem⟩ := mem_names_closeAll z hz
              simp [ht', namesL, (hmem x).mpr hx]
      cases htl : (scanLines doc).tooLong with
      | true => simp [htl] at h
      | false =>
        simp only [htl, Bool.false_eq_true, if_false, Gen.roots]
        exact hroots t hm


/-- a format error names a row of the input -/
theorem genRows_format_mem : ∀ (rows : List Bytes) (g g' : GState) (row : Bytes),
    genRows g rows = (g', some (.format row)) → row ∈ rows
  | [], g, g', row, h => by simp [genRows] at h
  | r :: rs, g, g', row, h => by
    simp only [genRows] at h
    cases hs : genStep g r with
    | ok g1 =>
      simp only [hs] at h
      exact List.mem_cons_of_mem _ (genRows_format_mem rs g1 g' row h)
    | error e =>
      simp only [hs, Prod.mk.injEq, Option.some.injEq] at h
      obtain ⟨_, he⟩ := h
      subst he
      -- the only places a format error is produced carry the current row
      unfold genStep at hs
      cases hp : parse g.p r with
      | mk p' res =>
        simp only [hp] at hs
        cases res with
        | error pe =>
          cases pe <;> simp at hs
          subst hs; simp
        | ok ht =>
          obtain ⟨hh, text⟩ := ht
          simp only [addItem] at hs
          split at hs
          · simp at hs
          · split at hs
            · simp at hs
            · split at hs
              · simp only [Except.error.injEq, GErr.format.injEq] at hs; subst hs; simp
              · simp at hs

theorem C02_error_names_row (doc : Bytes) (row : Bytes)
    (h : (generate { doc := doc }).err = some (.format row)) : row ∈ (scanLines doc).rows := by
  unfold generate generateFrom at h
  cases hg : genRows {} (scanLines doc).rows with
  | mk g' e =>
    simp only [hg] at h
    cases e with
    | none =>
      simp only at h
      split at h <;> simp at h
    | some err =>
      simp only [Bool.false_eq_true, Bool.false_and, if_false, Option.some.injEq] at h
      subst h
      exact genRows_format_mem _ {} g' row hg

/-- M4 — an item nested more than one level deeper than any open node is rejected, naming its row -/
theorem C02_jump_rejected (g : GState) (z : Zipper) (h : Nat) (text row : Bytes)
    (hc : g.cur = some z) (hh : 2 ≤ h) (hjump : z.length < h - 1) :
    addItem g h text row = .error (.format row) := by
  have h1 : (h == 1) = false := by simp; omega
  have h2 : ¬ h < 2 := by omega
  simp [addItem, h1, hc, dfs, h2, hjump]

/-- M5 — an item before the first root is rejected -/
theorem C02_orphan_rejected (g : GState) (h : Nat) (text row : Bytes) (hc : g.cur = none) (hh : h ≠ 1) :
    addItem g h text row = .error .nilStack := by
  have h1 : (h == 1) = false := by simpa using hh
  simp [addItem, h1, hc]

theorem cut_none_of_not_mem (b : UInt8) : ∀ (s : Bytes), b ∉ s → cut b s = none
  | [], _ => rfl
  | x :: xs, h => by
    have hx : (x == b) = false := by
      have : x ≠ b := fun e => h (by simp [e])
      simpa using this
    simp [cut, hx, cut_none_of_not_mem b xs (fun e => h (by simp [e]))]

/-- M1 — a row that is not blank, is not a heading and contains no bullet symbol is rejected, naming the row -/
theorem C02_no_bullet_rejected (g : GState) (row : Bytes) (hnb : isBlank row = false)
    (hhead : row.head? ≠ some 0x23) (h1 : hy ∉ row) (h2 : ast ∉ row) (h3 : pls ∉ row) :
    genStep g row = .error (.format row) := by
  unfold genStep
  rw [parse_list g.p row hnb hhead]
  simp [separateRow, listSymbols, separateRowAux, attempt, cut_none_of_not_mem _ _ h1,
    cut_none_of_not_mem _ _ h2, cut_none_of_not_mem _ _ h3]

/-- M2 — a well-indented list row with an empty item text is rejected -/
theorem C02_empty_text_rejected (s : Spelling) (g : GState) (i k : Nat)
    (hc : s.c = sp ∨ s.c = tab) (hb : s.bullet i = hy ∨ s.bullet i = ast ∨ s.bullet i = pls)
    (hsep : g.p.sep = none ∨ g.p.sep = some s.c) (hsp : g.p.spaces = 0 ∨ (k * s.unit) % g.p.spaces = 0) :
    genStep g (listRow s i k []) = .error .emptyText := by
  have hb' : s.bullet i = hy ∨ s.bullet i = ast ∨ s.bullet i = pls ∨ s.bullet i = shp := by
    rcases hb with h | h | h <;> simp [h]
  unfold genStep listRow
  rw [parse_list g.p _ (isBlank_indent_symbol s.c (s.bullet i) hc hb' _ _) (head_listRow s.c (s.bullet i) _ _ hc hb)]
  rw [separateRow_row g.p s.c (s.bullet i) (k * s.unit) [] hc hb hsep hsp]
  simp [trimPrefixB]

end Gtree

namespace Gtree

/-- M3 — a list row whose indentation is not a whole multiple of the unit the parser has learnt is
    rejected, naming the row — whatever its bullet symbol and whatever other symbols its text contains -/
theorem C02_not_multiple_rejected (g : GState) (c b : UInt8) (m : Nat) (name : Bytes)
    (hc : c = sp ∨ c = tab) (hb : b = hy ∨ b = ast ∨ b = pls)
    (hsep : g.p.sep = none ∨ g.p.sep = some c) (hu : 2 ≤ g.p.spaces) (hmod : m % g.p.spaces ≠ 0) :
    genStep g (List.replicate m c ++ b :: sp :: name) = .error (.format (List.replicate m c ++ b :: sp :: name)) := by
  have hb' : b = hy ∨ b = ast ∨ b = pls ∨ b = shp := by rcases hb with h | h | h <;> simp [h]
  have hnone := separateRow_not_multiple g.p c b m name hc hb hsep hu hmod
  unfold genStep
  rw [parse_list g.p _ (isBlank_indent_symbol c b hc hb' m _) (head_listRow c b m _ hc hb)]
  cases hs : separateRow g.p (List.replicate m c ++ b :: sp :: name) with
  | mk st' r =>
    rw [hs] at hnone
    simp only at hnone
    subst hnone
    rfl

end Gtree

namespace Gtree
/-- M3 — a row whose indentation mixes tabs and spaces is rejected, naming the row: whatever the parser
    has learnt so far, whatever bullet symbol follows and whatever the rest of the row contains -/
theorem C02_mixed_indent_rejected (g : GState) (ind rest : Bytes)
    (hind : ∀ x ∈ ind, x = sp ∨ x = tab) (hsp : sp ∈ ind) (htab : tab ∈ ind)
    (hnb : isBlank (ind ++ rest) = false) :
    genStep g (ind ++ rest) = .error (.format (ind ++ rest)) := by
  have hsep := separateRow_mixed g.p ind rest hind hsp htab
  obtain ⟨c, tl, hi⟩ : ∃ c tl, ind = c :: tl := by
    cases ind with
    | nil => simp at hsp
    | cons c tl => exact ⟨c, tl, rfl⟩
  have hc : c = sp ∨ c = tab := hind c (by rw [hi]; simp)
  have hparse : ∃ st', parse g.p (ind ++ rest) = (st', .error .incorrect) := by
    cases hs : separateRow g.p (ind ++ rest) with
    | mk st' r =>
      rw [hs] at hsep
      simp only at hsep
      subst hsep
      refine ⟨st', ?_⟩
      unfold parse
      rw [hnb]
      rw [hi] at hs ⊢
      rcases hc with rfl | rfl
      · simp only [List.cons_append, sp] at hs ⊢
        simp [hs]
      · simp only [List.cons_append, tab] at hs ⊢
        simp [hs]
  obtain ⟨st', hp⟩ := hparse
  simp only [genStep, hp]

/-- M3 — a row indented with the other blank than the one the document uses (a tab in a space-indented
    document or the reverse) is rejected, naming the row, whatever follows the indentation -/
theorem C02_wrong_indent_char_rejected (g : GState) (c c' : UInt8) (m : Nat) (rest : Bytes)
    (hsep : g.p.sep = some c) (hc' : c' = sp ∨ c' = tab) (hne : c' ≠ c)
    (hnb : isBlank (List.replicate (m + 1) c' ++ rest) = false) :
    genStep g (List.replicate (m + 1) c' ++ rest) = .error (.format (List.replicate (m + 1) c' ++ rest)) := by
  have hsr := separateRow_wrong_char g.p c c' m rest hsep hc' hne
  have hparse : ∃ st', parse g.p (List.replicate (m + 1) c' ++ rest) = (st', .error .incorrect) := by
    cases hs : separateRow g.p (List.replicate (m + 1) c' ++ rest) with
    | mk st' r =>
      rw [hs] at hsr
      simp only at hsr
      subst hsr
      refine ⟨st', ?_⟩
      unfold parse
      rw [hnb]
      simp only [List.replicate_succ, List.cons_append] at hs ⊢
      rcases hc' with rfl | rfl
      · simp only [sp] at hs ⊢
        simp [hs]
      · simp only [tab] at hs ⊢
        simp [hs]
  obtain ⟨st', hp⟩ := hparse
  simp only [genStep, hp]

/-- such rows exist: "␠⇥- z" is not blank -/
example : isBlank ([sp, tab] ++ [hy, sp, 0x7A]) = false := by decide

/-- non-vacuity of `C02_no_silent_loss`: the rows "- a", "  - b" carry the item texts a, b -/
example : textsOf {} [[0x2D, 0x20, 0x61], [0x20, 0x20, 0x2D, 0x20, 0x62]] = [[0x61], [0x62]] := by decide
end Gtree

namespace Gtree
/-- Tie to the source, re-checked on every run: the parser whose accept/reject decisions the C02 theorems are about is `Parser.Parse` of markdown/parser.go as translated on this run (with the side effects of the failed attempts inside `separateRow`). -/
theorem C02_parser_is_the_source (st : PState) (row : Bytes) :
    Src.Parser.Parse (toSrc st) row = (toSrc (parse st row).1, resSrc (parse st row).2) :=
  Parse_src st row

/-- the parser every generator starts with (`md.NewParser()` returns `&Parser{}`) is the model's initial state -/
example : toSrc {} = { isSharpRoot := false, spaces := 0, sep := [] } := rfl
end Gtree

namespace Gtree
/-- Tie to the source: `nodeGenerator.handleErr` (node_generator.go, translated on this run) maps the parser's errors
    the way the model's `genStep` does — an empty item text is the generator's own sentinel, a format error
    carries the offending row, a blank row is not an error. -/
theorem C02_error_mapping_is_the_source (g : Src.nodeGenerator) (row : Bytes) :
    Src.nodeGenerator.handleErr g (some (errSrc .emptyText)) row = gerrSrc .emptyText ∧
    Src.nodeGenerator.handleErr g (some (errSrc .incorrect)) row = gerrSrc (.format row) ∧
    Src.nodeGenerator.handleErr g (some (errSrc .blank)) row = none :=
  handleErr_src g row
end Gtree

namespace Gtree

/-- **C02, "a non-nil error if and only if some line is malformed", as one statement.**
    For EVERY document (any bytes) read from a reader that does not fail: the error the generator returns is
    determined by the first malformed row in the sense of `Spec/Malformed.lean` — the declarative reading of the
    property's five classes (no bullet after the indentation, empty item text, indentation that mixes blanks / is in
    the other blank / is not a whole multiple of the unit, nested more than one level deeper, item before the first
    root): a format error naming that row for the classes noBullet, badIndent and jump, `empty text` for emptyText,
    `nil stack` for orphan; and when no row is malformed, no error at all (unless a row exceeds the scanner's
    token limit, which is the scanner's error). -/
theorem C02_error_iff_malformed (doc : Bytes) :
    (generate { doc := doc }).err =
      match firstMalformed {} (scanLines doc).rows with
      | some x => some (toGErr x)
      | none => if (scanLines doc).tooLong then some .tooLong else none := by
  have h := genRows_firstMalformed (scanLines doc).rows {} {} rel_init
  unfold generate generateFrom
  cases hg : genRows {} (scanLines doc).rows with
  | mk g' e =>
    rw [hg] at h
    simp only at h
    cases hf : firstMalformed {} (scanLines doc).rows with
    | none =>
      rw [hf] at h
      simp only [Option.map_none] at h
      subst h
      simp only [hg]
      cases (scanLines doc).tooLong <;> simp
    | some x =>
      rw [hf] at h
      simp only [Option.map_some] at h
      subst h
      simp [hg]

/-- the iff itself: generation fails (for a document whose rows fit the scanner) exactly when some row is malformed -/
theorem C02_rejected_iff_malformed (doc : Bytes) (hlong : (scanLines doc).tooLong = false) :
    (generate { doc := doc }).err ≠ none ↔ Malformed (scanLines doc).rows := by
  rw [C02_error_iff_malformed doc, hlong]
  unfold Malformed
  cases firstMalformed {} (scanLines doc).rows <;> simp

/-- a format error names the first malformed row -/
theorem C02_format_error_is_first_malformed (doc : Bytes) (row : Bytes)
    (h : (generate { doc := doc }).err = some (.format row)) :
    ∃ m, firstMalformed {} (scanLines doc).rows = some (row, m) ∧ (m = .noBullet ∨ m = .badIndent ∨ m = .jump) := by
  rw [C02_error_iff_malformed doc] at h
  cases hf : firstMalformed {} (scanLines doc).rows with
  | none =>
    rw [hf] at h
    simp only at h
    split at h <;> simp at h
  | some x =>
    rw [hf] at h
    obtain ⟨r, m⟩ := x
    cases m <;> simp [toGErr] at h
    · exact ⟨_, by rw [h], Or.inl rfl⟩
    · exact ⟨_, by rw [h], Or.inr (Or.inl rfl)⟩
    · exact ⟨_, by rw [h], Or.inr (Or.inr rfl)⟩

/-! Non-vacuity: each class occurs, and a well-formed document has no malformed row.
    Rows: "- a" = 2D 20 61, "  - b" = 20 20 2D 20 62, "\t- c" = 09 2D 20 63. -/
example : firstMalformed {} [[0x2D, 0x20, 0x61], [0x20, 0x20, 0x2D, 0x20, 0x62], [0x2D, 0x20, 0x63]] = none := by decide
example : firstMalformed {} [[0x2D, 0x20, 0x61], [0x20, 0x20, 0x62]] = some ([0x20, 0x20, 0x62], .noBullet) := by decide
example : firstMalformed {} [[0x2D, 0x20, 0x61], [0x20, 0x20, 0x2D, 0x20]] = some ([0x20, 0x20, 0x2D, 0x20], .emptyText) := by decide
example : firstMalformed {} [[0x2D, 0x20, 0x61], [0x20, 0x20, 0x2D, 0x20, 0x62], [0x20, 0x20, 0x20, 0x2D, 0x20, 0x63]]
    = some ([0x20, 0x20, 0x20, 0x2D, 0x20, 0x63], .badIndent) := by decide
example : firstMalformed {} [[0x2D, 0x20, 0x61], [0x20, 0x20, 0x2D, 0x20, 0x62], [0x09, 0x2D, 0x20, 0x63]]
    = some ([0x09, 0x2D, 0x20, 0x63], .badIndent) := by decide
example : firstMalformed {} [[0x2D, 0x20, 0x61], [0x20, 0x09, 0x2D, 0x20, 0x62]] = some ([0x20, 0x09, 0x2D, 0x20, 0x62], .badIndent) := by decide
example : firstMalformed {} [[0x2D, 0x20, 0x61], [0x20, 0x20, 0x2D, 0x20, 0x62], [0x20, 0x20, 0x20, 0x20, 0x20, 0x20, 0x2D, 0x20, 0x63]]
    = some ([0x20, 0x20, 0x20, 0x20, 0x20, 0x20, 0x2D, 0x20, 0x63], .jump) := by decide
example : firstMalformed {} [[0x20, 0x20, 0x2D, 0x20, 0x62]] = some ([0x20, 0x20, 0x2D, 0x20, 0x62], .orphan) := by decide

end Gtree

namespace Gtree
/-- Tie to the source: the builder attaches an item to the nearest open node for which `Node.isDirectlyUnder` holds
    (node.go, translated on this run): hierarchy exactly one more — the test behind "nested more than one level
    deeper than the item before it" (`C02_jump_rejected`). -/
theorem C02_directly_under_is_the_source (h h' : Nat) (t t' : T) :
    Src.Node.isDirectlyUnder (toNode h t) (some (toNode h' t')) = (h == h' + 1) ∧
    Src.Node.isDirectlyUnder (toNode h t) none = false :=
  isDirectlyUnder_src h h' t t'
end Gtree


namespace Gtree
/-- Tie to the source, pointer code included (heap mode, regenerated on every run): `stack.dfs` of stack.go decides the
    class "more than one level deeper than the item before".  For every heap, every stack of non-nil pointers and every
    new node the translated `dfs` returns false — and the generator then reports the row — exactly when NO open node is
    one level above the new node (`popTo … = none`; the stack is empty afterwards); in every other case the node is
    attached (or an equally named sibling re-opened) and true is returned: no row is dropped silently. -/
theorem C02_dfs_is_the_source (h : SrcH.Heap) (stk : List Go.Ptr) (c : Go.Ptr) (hne : ∀ p ∈ stk, p ≠ 0) :
    SrcH.stack.dfs h stk c =
      (match SrcH.popTo h (h c).hierarchy stk.reverse with
       | none => (h, [], false)
       | some (p, rest) => SrcH.attach h c p rest) :=
  SrcH.dfs_spec h stk c hne
end Gtree

namespace Gtree
/-- Tie to the source (heap mode, regenerated on every run): over a whole root block the translated builder step rejects
    exactly where the model's zipper does.  With heap and stack representing the zipper `z` (`SrcH.ZR`, all pointers
    different) and a fresh node for the row, `stack.dfs` returns false if and only if the model's `dfs` is undefined —
    the row is more than one level deeper than the deepest open node, or at root level — and otherwise heap and stack
    represent the model's next zipper: no row is attached in the wrong place and none is dropped. -/
theorem C02_builder_step_refines_the_model (h : SrcH.Heap) (hz : List SrcH.HFrame) (z : Zipper) (c : Go.Ptr) (k : Nat)
    (x : Bytes) (hr : SrcH.ZR h none hz z) (ht : SrcH.TopOk hz z) (hnd : (SrcH.zPtrs h hz z).Nodup)
    (hc0 : c ≠ 0) (hcf : c ∉ SrcH.zPtrs h hz z) (hcn : (h c).name = x) (hcl : (h c).hierarchy = (k : Int))
    (hcc : (h c).children = []) :
    (match Gtree.dfs k x z with
     | none => (SrcH.stack.dfs h (hz.map (·.p)).reverse c).2.2 = false
     | some z' => ∃ h' hz', SrcH.stack.dfs h (hz.map (·.p)).reverse c = (h', (hz'.map (·.p)).reverse, true) ∧
         SrcH.ZR h' none hz' z' ∧ SrcH.TopOk hz' z' ∧ (SrcH.zPtrs h' hz' z').Nodup) := by
  have := SrcH.dfs_refines h hz z c k x hr ht hnd hc0 hcf hcn hcl hcc
  cases hm : Gtree.dfs k x z with
  | none => simp only [hm] at this ⊢; exact this
  | some z' =>
    simp only [hm] at this ⊢
    obtain ⟨h', hz', h1, h2, h3, h4, _⟩ := this
    exact ⟨h', hz', h1, h2, h3, h4⟩
end Gtree

namespace Gtree

/-- **C02 (facts: the row loops).**  The row loops of the four root generators — `generate` and `generateIter` of the
    simple mode, the massive mode's worker, the tinywasm build's `generate` — are, on this run, the loops the model's
    `genStep` / `addItem` was written from (`expectedGenSkeleton`), and they share one row step: node from the row and the
    counter's next value; error → give up; blank row → skip; root → open a block; no open block → `errNilStack`;
    otherwise `stack.dfs` (translated, `C02_dfs_is_the_source`), and a refusal is the format error naming that row. -/
theorem C02_facts_generators_share_one_row_step :
    Facts.genSkeleton = expectedGenSkeleton ∧
    Facts.genSkeleton.length = 4 ∧ Facts.genSkeleton.all (fun e => coreOf e.2 == coreStep) = true :=
  ⟨generator_loops_are_as_expected, generators_share_one_row_step⟩

end Gtree
